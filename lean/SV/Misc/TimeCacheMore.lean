/-
  SV.Misc.TimeCacheMore — property C18 completed:
    §0  public restatements of the one-key lookup facts
    §1  `I.hasOrAdd` (interval version of HasOrAdd) and `Sandwich.hasOrAdd`
    §2  `interval_run_sound` : any history, each operation with its own bracket, keeps `Sandwich`
    §3  history-level lifetime theorems (`present_until_expiry`, `gone_after_expiry_sweep`, `upsert_never_shortens`)
    §4  the API of the three Go types (TimeCache, peerTimeCache, timeCacher) on top of the same `TC`
        (`Core`, `AOp`, `astep`) with `cacher_retained`, `cacher_gone_after_expiry_sweep`, `clear_empties`, …
  Nothing here changes the models; `Sandwich` as defined in TimeCacheProofs turned out to be strong enough for
  HasOrAdd (no `Sandwich'` was needed) provided that the uncertain case stores the JOIN of the two possible entries.
-/
import SV.Misc.TimeCache
import SV.Misc.TimeCacheProofs
namespace SV.TimeCache
open SV

/-! ## §0 one-key lookup facts (public; the association-list lemmas of TimeCacheProofs are private) -/

theorem lookup_add_ne (tc : TC) {k k' : Bytes} (v : Bytes) (span now : Nat) (hk : k' ≠ k) :
    alookup k' (add tc k v span now) = alookup k' tc := (others_untouched tc k k' v span now hk).1

theorem lookup_upsert_ne (tc : TC) {k k' : Bytes} (v : Bytes) (span now : Nat) (hk : k' ≠ k) :
    alookup k' (upsert tc k v span now) = alookup k' tc := (others_untouched tc k k' v span now hk).2.1

theorem lookup_hoa_ne (tc : TC) {k k' : Bytes} (v : Bytes) (span now : Nat) (hk : k' ≠ k) :
    alookup k' (hasOrAdd tc k v span now).1 = alookup k' tc := (others_untouched tc k k' v span now hk).2.2.1

theorem lookup_remove_ne (tc : TC) {k k' : Bytes} (hk : k' ≠ k) :
    alookup k' (remove tc k) = alookup k' tc := (others_untouched tc k k' [] 0 0 hk).2.2.2

theorem lookup_remove_self (tc : TC) (k : Bytes) : alookup k (remove tc k) = none := by
  unfold TimeCache.remove
  induction tc with
  | nil => simp [aerase, alookup]
  | cons a r ih =>
    obtain ⟨k1, v1⟩ := a
    simp only [aerase]
    split
    · exact ih
    · rename_i hne
      simp only [alookup, if_neg hne]
      exact ih

/-- HasOrAdd on a present key changes nothing (in particular the countdown is NOT restarted) -/
theorem hoa_present (tc : TC) (k v : Bytes) (span now : Nat) (e : Entry) (he : alookup k tc = some e) :
    (hasOrAdd tc k v span now).1 = tc :=
  (hasOrAdd_flags tc k v span now).2.2 (by simp [TimeCache.has, he])

/-- HasOrAdd on an absent key is Add -/
theorem hoa_absent (tc : TC) (k v : Bytes) (span now : Nat) (he : alookup k tc = none) :
    (hasOrAdd tc k v span now).1 = add tc k v span now := by
  unfold TimeCache.hasOrAdd
  split
  · rename_i e h
    rw [he] at h
    cases h
  · rfl

theorem lookup_sweep_none (tc : TC) (now : Nat) (k : Bytes) (h : KeysNodup tc) (he : alookup k tc = none) :
    alookup k (sweep tc now) = none := by
  rw [sweep_lookup tc now k h, he]
  rfl

theorem lookup_sweep_cases (tc : TC) (now : Nat) (k : Bytes) (e : Entry) (h : KeysNodup tc)
    (he : alookup k tc = some e) : alookup k (sweep tc now) = none ∨ alookup k (sweep tc now) = some e := by
  rw [sweep_lookup tc now k h, he]
  simp only [Option.bind_some]
  split
  · exact Or.inl rfl
  · exact Or.inr rfl

theorem has_eq_true_iff (tc : TC) (k : Bytes) : has tc k = true ↔ ∃ e, alookup k tc = some e := by
  unfold TimeCache.has
  exact Option.isSome_iff_exists

theorem has_eq_false_iff (tc : TC) (k : Bytes) : has tc k = false ↔ alookup k tc = none := by
  unfold TimeCache.has
  cases alookup k tc <;> simp

/-! ## §1 HasOrAdd in the interval model -/

/-- The least entry that dominates (in expiry `timestamp + span` AND in `span`, the two quantities `Sandwich` tracks)
    both an existing possible entry `eM` and a fresh entry `⟨hi, span, _⟩`.  Its expiry is exactly the later one of the two
    expiries, its span the larger one of the two spans.  (Keeping just "whichever of the two expires later" would NOT be sound:
    a later Upsert takes `max` of the spans, so the span component has to be an upper bound as well — see `join_needed`.) -/
def joinEntry (eM : Entry) (span hi : Nat) : Entry :=
  ⟨max (eM.timestamp + eM.span) (hi + span) - max eM.span span, max eM.span span, eM.value⟩

theorem joinEntry_expiry (eM : Entry) (span hi : Nat) :
    (joinEntry eM span hi).timestamp + (joinEntry eM span hi).span = max (eM.timestamp + eM.span) (hi + span) := by
  unfold joinEntry
  dsimp only
  omega

/-- Interval HasOrAdd.
    * key certainly present (`must` has it): nothing changes;
    * key certainly absent (`may` does not have it): it is added to both, stamped `lo` in `must`, `hi` in `may`;
    * uncertain (`may` has it, `must` does not): `must` is left alone (the key stays "not certainly present"),
      `may` gets the join of the old possible entry and the possibly-added fresh one. -/
def I.hasOrAdd (i : I) (k v : Bytes) (span lo hi : Nat) : I :=
  match alookup k i.must, alookup k i.may with
  | some _, _ => i
  | none, none => ⟨TimeCache.add i.must k v span lo, TimeCache.add i.may k v span hi⟩
  | none, some eM =>
    ⟨i.must, TimeCache.add i.may k (joinEntry eM span hi).value (joinEntry eM span hi).span (joinEntry eM span hi).timestamp⟩

theorem Sandwich.hasOrAdd (i : I) (tc : TC) (k v : Bytes) (span lo t hi : Nat) (h : Sandwich i tc)
    (h1 : lo ≤ t) (h2 : t ≤ hi) : Sandwich (i.hasOrAdd k v span lo hi) (hasOrAdd tc k v span t).1 := by
  unfold I.hasOrAdd
  split
  · -- certainly present
    rename_i em hm
    obtain ⟨e, he, _⟩ := h.lower k em hm
    rw [hoa_present tc k v span t e he]
    exact h
  · -- certainly absent
    rename_i hm hM
    have hx : alookup k tc = none := by
      cases hx : alookup k tc with
      | none => rfl
      | some e =>
        obtain ⟨eM, heM, _⟩ := h.upper k e hx
        rw [hM] at heM
        cases heM
    rw [hoa_absent tc k v span t hx]
    exact Sandwich.add i tc k v span lo t hi h h1 h2
  · -- uncertain
    rename_i eM hm hM
    refine ⟨⟨h.nd.1, KeysNodup.hasOrAdd tc k v span t h.nd.2.1, KeysNodup.add _ k _ _ _ h.nd.2.2⟩, ?_, ?_⟩
    · intro k' em hm'
      have hm'' : alookup k' i.must = some em := hm'
      by_cases hk : k' = k
      · subst hk
        rw [hm] at hm''
        cases hm''
      · rw [lookup_hoa_ne tc v span t hk]
        exact h.lower k' em hm''
    · intro k' e he
      by_cases hk : k' = k
      · subst hk
        refine ⟨joinEntry eM span hi, add_lookup i.may k' _ _ _, ?_⟩
        cases hx : alookup k' tc with
        | some e0 =>
          rw [hoa_present tc k' v span t e0 hx, hx] at he
          have : e0 = e := Option.some.inj he
          subst this
          obtain ⟨eM', heM', hle1, hle2⟩ := h.upper k' e0 hx
          rw [hM] at heM'
          have : eM = eM' := Option.some.inj heM'
          subst this
          rw [joinEntry_expiry]
          unfold joinEntry
          dsimp only
          omega
        | none =>
          rw [hoa_absent tc k' v span t hx, add_lookup] at he
          have : e = ⟨t, span, v⟩ := (Option.some.inj he).symm
          subst this
          rw [joinEntry_expiry]
          unfold joinEntry
          dsimp only
          omega
      · rw [lookup_hoa_ne tc v span t hk] at he
        show ∃ eM', alookup k' (TimeCache.add i.may k _ _ _) = some eM' ∧ _
        rw [lookup_add_ne i.may _ _ _ hk]
        exact h.upper k' e he

/-- The flags returned by the real HasOrAdd are bracketed by the interval state BEFORE the call:
    certainly present ⇒ `(has, added) = (true, false)`;  certainly absent ⇒ `(false, true)`. -/
theorem Sandwich.hasOrAdd_flags (i : I) (tc : TC) (k v : Bytes) (span t : Nat) (h : Sandwich i tc) :
    (has i.must k = true → (TimeCache.hasOrAdd tc k v span t).2.1 = true ∧ (TimeCache.hasOrAdd tc k v span t).2.2 = false) ∧
    (has i.may k = false → (TimeCache.hasOrAdd tc k v span t).2.1 = false ∧ (TimeCache.hasOrAdd tc k v span t).2.2 = true) := by
  obtain ⟨f1, f2, _⟩ := TimeCache.hasOrAdd_flags tc k v span t
  obtain ⟨v1, v2⟩ := Sandwich.verdict i tc k h
  constructor
  · intro hm
    rw [f1, f2, v1 hm]
    exact ⟨rfl, rfl⟩
  · intro hM
    have : has tc k = false := by
      cases hx : has tc k with
      | false => rfl
      | true => rw [v2 hx] at hM; cases hM
    rw [f1, f2, this]
    exact ⟨rfl, rfl⟩

/-! ## §2 histories in the interval model -/

/-- an operation together with the bracket `[lo, hi]` known for its clock reading and the (unknown to the checker) true reading `t` -/
structure BOp where
  op : Op
  lo : Nat
  t : Nat
  hi : Nat

/-- the true reading lies inside the bracket -/
def BOp.ok (b : BOp) : Prop := b.lo ≤ b.t ∧ b.t ≤ b.hi

instance (b : BOp) : Decidable b.ok := by unfold BOp.ok; exact inferInstance

/-- what really happened -/
def BOp.exact (b : BOp) : Op × Nat := (b.op, b.t)

/-- one step of the interval model: uses only `lo` and `hi`, never `t` -/
def I.step (i : I) (b : BOp) : I :=
  match b.op with
  | .add k v s => i.add k v s b.lo b.hi
  | .upsert k v s => i.upsert k v s b.lo b.hi
  | .hoa k v s => i.hasOrAdd k v s b.lo b.hi
  | .sweep => i.sweep b.lo b.hi
  | .rm k => i.remove k

theorem Sandwich.step (i : I) (tc : TC) (b : BOp) (h : Sandwich i tc) (hb : b.ok) :
    Sandwich (i.step b) (TimeCache.step tc b.exact) := by
  obtain ⟨op, lo, t, hi⟩ := b
  obtain ⟨h1, h2⟩ := hb
  cases op with
  | add k v s => exact Sandwich.add i tc k v s lo t hi h h1 h2
  | upsert k v s => exact Sandwich.upsert i tc k v s lo t hi h h1 h2
  | hoa k v s => exact Sandwich.hasOrAdd i tc k v s lo t hi h h1 h2
  | sweep => exact Sandwich.sweep i tc lo t hi h h1 h2
  | rm k => exact Sandwich.remove i tc k h

/-- Interval soundness for whole histories.  Every operation has its OWN bracket; the readings need NOT be monotone and the
    brackets of different operations may overlap arbitrarily — the only hypothesis is `lo ≤ t ≤ hi` per operation. -/
theorem interval_run_sound (ops : List BOp) (i : I) (tc : TC) (h : Sandwich i tc) (hok : ∀ b ∈ ops, b.ok) :
    Sandwich (ops.foldl I.step i) ((ops.map BOp.exact).foldl TimeCache.step tc) := by
  induction ops generalizing i tc with
  | nil => exact h
  | cons b r ih =>
    simp only [List.foldl_cons, List.map_cons]
    exact ih (i.step b) (TimeCache.step tc b.exact) (Sandwich.step i tc b h (hok b (List.mem_cons_self ..)))
      (fun b' hb' => hok b' (List.mem_cons_of_mem _ hb'))

/-- … hence, starting from empty caches, after ANY history: certainly-present ⇒ present ⇒ possibly-present -/
theorem interval_run_verdict (ops : List BOp) (hok : ∀ b ∈ ops, b.ok) (k : Bytes) :
    (has (ops.foldl I.step ⟨[], []⟩).must k = true → has ((ops.map BOp.exact).foldl TimeCache.step []) k = true) ∧
    (has ((ops.map BOp.exact).foldl TimeCache.step []) k = true → has (ops.foldl I.step ⟨[], []⟩).may k = true) :=
  Sandwich.verdict _ _ k (interval_run_sound ops ⟨[], []⟩ [] Sandwich.empty hok)

/-! ### non-vacuity / concrete readings for §1–§2 -/

section examples12
private def kA : Bytes := [1]
private def kB : Bytes := [2]

/-- A history whose outcome is genuinely uncertain: Add at a reading in [0,10], Sweep at a reading in [12,25]
    (span 10: the sweep removes the key iff `tsweep − tadd > 10`), HasOrAdd at a reading in [26,30], Add of another key, Sweep in [29,30]
    (brackets of different operations overlap, readings 28, 29, 30 happen to be monotone but need not be). -/
private def hist (tAdd tSweep : Nat) : List BOp :=
  [⟨.add kA [7] 10, 0, tAdd, 10⟩, ⟨.sweep, 12, tSweep, 25⟩, ⟨.hoa kA [8] 10, 26, 28, 30⟩, ⟨.add kB [] 3, 27, 29, 31⟩,
   ⟨.sweep, 29, 30, 30⟩]

example : ∀ b ∈ hist 5 20, b.ok := by decide
example : ∀ b ∈ hist 5 12, b.ok := by decide
-- the two exact runs differ: in the first the early sweep removed the key and HasOrAdd re-added it (stamped 28, alive at the end);
-- in the second HasOrAdd found the old entry (stamped 5) and left its countdown alone, so the last sweep removed it …
example : alookup kA (((hist 5 20).map BOp.exact).foldl step []) = some ⟨28, 10, [8]⟩ := by decide
example : alookup kA (((hist 5 12).map BOp.exact).foldl step []) = none := by decide
-- … the interval run is the same for both (it never looks at `t`) and brackets both
example : (hist 5 20).foldl I.step ⟨[], []⟩ = (hist 5 12).foldl I.step ⟨[], []⟩ := rfl
example : has ((hist 5 20).foldl I.step ⟨[], []⟩).must kA = false ∧ has ((hist 5 20).foldl I.step ⟨[], []⟩).may kA = true ∧
    has ((hist 5 20).foldl I.step ⟨[], []⟩).must kB = true := by decide
example : Sandwich ((hist 5 20).foldl I.step ⟨[], []⟩) (((hist 5 20).map BOp.exact).foldl step []) :=
  interval_run_sound _ _ _ Sandwich.empty (by decide)
example : has (((hist 5 20).map BOp.exact).foldl step []) kB = true :=
  (interval_run_verdict (hist 5 20) (by decide) kB).1 (by decide)
-- `Sandwich.hasOrAdd` used directly in the uncertain situation (must = ∅, may = {kA}, exact = ∅)
example : Sandwich ((((⟨[], []⟩ : I).add kA [7] 10 0 10).sweep 12 25).hasOrAdd kA [8] 10 26 30)
    (hasOrAdd (sweep (add [] kA [7] 10 5) 20) kA [8] 10 28).1 :=
  Sandwich.hasOrAdd _ _ kA [8] 10 26 28 30
    (Sandwich.sweep _ _ 12 20 25 (Sandwich.add _ _ kA [7] 10 0 5 10 Sandwich.empty (by decide) (by decide)) (by decide) (by decide))
    (by decide) (by decide)

/-- Why the JOIN is needed.  `may` that keeps only "whichever of the two entries expires later": -/
private def naiveMay (may : TC) (k v : Bytes) (span hi : Nat) : TC :=
  match alookup k may with
  | none => add may k v span hi
  | some eM => if eM.timestamp + eM.span < hi + span then add may k v span hi else may

/-- Add(span 10)@0, Sweep@5 bracketed [5,20] (so `must` loses the key, the exact cache and `may` keep it), HasOrAdd(span 5)@50:
    the exact cache keeps ⟨0,10⟩, naive `may` switches to the later-expiring ⟨50,5⟩; Upsert(span 0)@60 gives exact ⟨60,10⟩ but
    `may` ⟨60,5⟩; Sweep@68 keeps the exact entry and drops it from naive `may`: "present" while "not possibly present". -/
theorem join_needed :
    let exact := sweep (upsert (hasOrAdd (sweep (add [] kA [] 10 0) 5) kA [] 5 50).1 kA [] 0 60) 68
    let may := sweep (upsert (naiveMay (sweep (add [] kA [] 10 0) 5) kA [] 5 50) kA [] 0 60) 68
    let i := ((((((⟨[], []⟩ : I).add kA [] 10 0 0).sweep 5 20).hasOrAdd kA [] 5 50 50).upsert kA [] 0 60 60).sweep 68 68)
    has exact kA = true ∧ has may kA = false ∧ has i.may kA = true := by decide

end examples12

/-! ## §3 lifetime theorems at history level -/

/-- `o` is an Add/AddWithSpan/Put (`.add`) or an Upsert of `k`: the operations that (re)start the countdown of `k` -/
def sets (k : Bytes) : Op → Bool
  | .add k' _ _ => k' == k | .upsert k' _ _ => k' == k | _ => false

/-- operations that can create an entry for `k` (Add/Put, Upsert, HasOrAdd of `k`) -/
def revives (k : Bytes) : Op → Bool
  | .add k' _ _ => k' == k | .upsert k' _ _ => k' == k | .hoa k' _ _ => k' == k | _ => false

def isSweep : Op → Bool
  | .sweep => true | _ => false

/-- the span that a setting operation leaves in the entry of `k`, given the cache it is applied to:
    Add/Put REPLACE the span, Upsert takes the MAXIMUM with the span of an existing entry -/
def spanAfter (tc : TC) (k : Bytes) : Op → Nat
  | .add _ _ s => s
  | .upsert _ _ s => match alookup k tc with | some e => max e.span s | none => s
  | _ => 0

theorem keysNodup_step (tc : TC) (o : Op × Nat) (h : KeysNodup tc) : KeysNodup (step tc o) := by
  obtain ⟨op, t⟩ := o
  cases op with
  | add k v s => exact KeysNodup.add tc k v s t h
  | upsert k v s => exact KeysNodup.upsert tc k v s t h
  | hoa k v s => exact KeysNodup.hasOrAdd tc k v s t h
  | sweep => exact KeysNodup.sweep tc t h
  | rm k => exact KeysNodup.remove tc k h

theorem keysNodup_run (ops : List (Op × Nat)) (tc : TC) (h : KeysNodup tc) : KeysNodup (ops.foldl step tc) := by
  induction ops generalizing tc with
  | nil => exact h
  | cons o r ih => exact ih (step tc o) (keysNodup_step tc o h)

/-- a setting operation reading `t0` leaves exactly `⟨t0, spanAfter …, _⟩`: the countdown restarts at the reading of THIS call -/
theorem sets_lookup (tc : TC) (k : Bytes) (o : Op) (t0 : Nat) (hset : sets k o = true) :
    ∃ v, alookup k (step tc (o, t0)) = some ⟨t0, spanAfter tc k o, v⟩ := by
  cases o with
  | add k' v s =>
    have : k' = k := by simpa [sets] using hset
    subst this
    exact ⟨v, add_lookup tc k' v s t0⟩
  | upsert k' v s =>
    have : k' = k := by simpa [sets] using hset
    subst this
    show ∃ v', alookup k' (upsert tc k' v s t0) = _
    rw [upsert_lookup]
    unfold spanAfter
    cases alookup k' tc with
    | some e => exact ⟨e.value, rfl⟩
    | none => exact ⟨v, rfl⟩
  | hoa k' v s => simp [sets] at hset
  | sweep => simp [sets] at hset
  | rm k' => simp [sets] at hset

/-- one step keeps an entry: the operation is not Add/Upsert/Remove of `k` (HasOrAdd of `k` IS allowed) and, if it is a sweep,
    it reads a time `≤ timestamp + span`.  Readings of non-sweep operations are irrelevant. -/
theorem step_keeps_entry (tc : TC) (k : Bytes) (e : Entry) (o : Op × Nat) (h : KeysNodup tc)
    (he : alookup k tc = some e) (hno : touches k o.1 = false)
    (ht : isSweep o.1 = true → o.2 ≤ e.timestamp + e.span) : alookup k (step tc o) = some e := by
  obtain ⟨op, t⟩ := o
  cases op with
  | add k1 v s =>
    have hne : k ≠ k1 := by
      intro hc; subst hc; simp [touches] at hno
    show alookup k (TimeCache.add tc k1 v s t) = some e
    rw [lookup_add_ne tc v s t hne]; exact he
  | upsert k1 v s =>
    have hne : k ≠ k1 := by
      intro hc; subst hc; simp [touches] at hno
    show alookup k (TimeCache.upsert tc k1 v s t) = some e
    rw [lookup_upsert_ne tc v s t hne]; exact he
  | hoa k1 v s =>
    show alookup k (TimeCache.hasOrAdd tc k1 v s t).1 = some e
    by_cases hk : k = k1
    · subst hk
      rw [hoa_present tc k v s t e he]; exact he
    · rw [lookup_hoa_ne tc v s t hk]; exact he
  | sweep =>
    show alookup k (TimeCache.sweep tc t) = some e
    exact sweep_keeps tc t k e h he (ht rfl)
  | rm k1 =>
    have hne : k ≠ k1 := by
      intro hc; subst hc; simp [touches] at hno
    show alookup k (TimeCache.remove tc k1) = some e
    rw [lookup_remove_ne tc hne]; exact he

/-- `retained` of TimeCacheProofs with the weaker hypothesis that only the SWEEPS read a time within the span -/
theorem retained_sweeps (tc : TC) (k : Bytes) (e : Entry) (ops : List (Op × Nat)) (h : KeysNodup tc)
    (he : alookup k tc = some e) (hno : ∀ o ∈ ops, touches k o.1 = false)
    (ht : ∀ o ∈ ops, isSweep o.1 = true → o.2 ≤ e.timestamp + e.span) :
    alookup k (ops.foldl step tc) = some e := by
  induction ops generalizing tc with
  | nil => exact he
  | cons o r ih =>
    simp only [List.foldl_cons]
    apply ih (step tc o) (keysNodup_step tc o h)
    · exact step_keeps_entry tc k e o h he (hno o (List.mem_cons_self ..)) (ht o (List.mem_cons_self ..))
    · intro o' ho'; exact hno o' (List.mem_cons_of_mem _ ho')
    · intro o' ho'; exact ht o' (List.mem_cons_of_mem _ ho')

/-- an absent key stays absent as long as no Add/Upsert/HasOrAdd of it runs -/
theorem step_stays_absent (tc : TC) (k : Bytes) (o : Op × Nat) (h : KeysNodup tc)
    (he : alookup k tc = none) (hno : revives k o.1 = false) : alookup k (step tc o) = none := by
  obtain ⟨op, t⟩ := o
  cases op with
  | add k1 v s =>
    have hne : k ≠ k1 := by
      intro hc; subst hc; simp [revives] at hno
    show alookup k (TimeCache.add tc k1 v s t) = none
    rw [lookup_add_ne tc v s t hne]; exact he
  | upsert k1 v s =>
    have hne : k ≠ k1 := by
      intro hc; subst hc; simp [revives] at hno
    show alookup k (TimeCache.upsert tc k1 v s t) = none
    rw [lookup_upsert_ne tc v s t hne]; exact he
  | hoa k1 v s =>
    have hne : k ≠ k1 := by
      intro hc; subst hc; simp [revives] at hno
    show alookup k (TimeCache.hasOrAdd tc k1 v s t).1 = none
    rw [lookup_hoa_ne tc v s t hne]; exact he
  | sweep => exact lookup_sweep_none tc t k h he
  | rm k1 =>
    show alookup k (TimeCache.remove tc k1) = none
    by_cases hk : k = k1
    · subst hk; exact lookup_remove_self tc k
    · rw [lookup_remove_ne tc hk]; exact he

theorem run_stays_absent (tc : TC) (k : Bytes) (ops : List (Op × Nat)) (h : KeysNodup tc)
    (he : alookup k tc = none) (hno : ∀ o ∈ ops, revives k o.1 = false) : alookup k (ops.foldl step tc) = none := by
  induction ops generalizing tc with
  | nil => exact he
  | cons o r ih =>
    simp only [List.foldl_cons]
    exact ih (step tc o) (keysNodup_step tc o h) (step_stays_absent tc k o h he (hno o (List.mem_cons_self ..)))
      (fun o' ho' => hno o' (List.mem_cons_of_mem _ ho'))

/-- "absent or still the same entry" is kept by every operation that cannot create an entry for `k` (sweeps with ANY reading,
    Remove of `k`, everything on other keys) -/
theorem step_absent_or_same (tc : TC) (k : Bytes) (e : Entry) (o : Op × Nat) (h : KeysNodup tc)
    (he : alookup k tc = none ∨ alookup k tc = some e) (hno : revives k o.1 = false) :
    alookup k (step tc o) = none ∨ alookup k (step tc o) = some e := by
  rcases he with he | he
  · exact Or.inl (step_stays_absent tc k o h he hno)
  · obtain ⟨op, t⟩ := o
    cases op with
    | add k1 v s =>
      have hne : k ≠ k1 := by
        intro hc; subst hc; simp [revives] at hno
      show alookup k (TimeCache.add tc k1 v s t) = none ∨ alookup k (TimeCache.add tc k1 v s t) = some e
      rw [lookup_add_ne tc v s t hne]; exact Or.inr he
    | upsert k1 v s =>
      have hne : k ≠ k1 := by
        intro hc; subst hc; simp [revives] at hno
      show alookup k (TimeCache.upsert tc k1 v s t) = none ∨ alookup k (TimeCache.upsert tc k1 v s t) = some e
      rw [lookup_upsert_ne tc v s t hne]; exact Or.inr he
    | hoa k1 v s =>
      have hne : k ≠ k1 := by
        intro hc; subst hc; simp [revives] at hno
      show alookup k (TimeCache.hasOrAdd tc k1 v s t).1 = none ∨ alookup k (TimeCache.hasOrAdd tc k1 v s t).1 = some e
      rw [lookup_hoa_ne tc v s t hne]; exact Or.inr he
    | sweep => exact lookup_sweep_cases tc t k e h he
    | rm k1 =>
      show alookup k (TimeCache.remove tc k1) = none ∨ alookup k (TimeCache.remove tc k1) = some e
      by_cases hk : k = k1
      · subst hk; exact Or.inl (lookup_remove_self tc k)
      · rw [lookup_remove_ne tc hk]; exact Or.inr he

theorem run_absent_or_same (tc : TC) (k : Bytes) (e : Entry) (ops : List (Op × Nat)) (h : KeysNodup tc)
    (he : alookup k tc = none ∨ alookup k tc = some e) (hno : ∀ o ∈ ops, revives k o.1 = false) :
    alookup k (ops.foldl step tc) = none ∨ alookup k (ops.foldl step tc) = some e := by
  induction ops generalizing tc with
  | nil => exact he
  | cons o r ih =>
    simp only [List.foldl_cons]
    exact ih (step tc o) (keysNodup_step tc o h) (step_absent_or_same tc k e o h he (hno o (List.mem_cons_self ..)))
      (fun o' ho' => hno o' (List.mem_cons_of_mem _ ho'))

/-- C18, presence (entry form).  History `pre ++ (o, t0) :: post` where `o` is an Add/AddWithSpan/Put or Upsert of `k` that read the
    clock at `t0` and left span `d = spanAfter …`; no later operation is an Add/Upsert/Remove of `k` (so `(o, t0)` is the LAST one;
    HasOrAdd of `k`, operations on other keys and sweeps are all allowed) and every later SWEEP reads `≤ t0 + d`.
    Then the entry of `k` is still the one written by `o`: stamped `t0`, span `d`.  `pre` is arbitrary and readings need not be monotone. -/
theorem present_until_expiry_entry (tc : TC) (pre post : List (Op × Nat)) (o : Op) (t0 : Nat) (k : Bytes)
    (h : KeysNodup tc) (hset : sets k o = true)
    (hno : ∀ p ∈ post, touches k p.1 = false)
    (ht : ∀ p ∈ post, isSweep p.1 = true → p.2 ≤ t0 + spanAfter (pre.foldl step tc) k o) :
    ∃ v, alookup k ((pre ++ (o, t0) :: post).foldl step tc) = some ⟨t0, spanAfter (pre.foldl step tc) k o, v⟩ := by
  rw [List.foldl_append, List.foldl_cons]
  obtain ⟨v, hv⟩ := sets_lookup (pre.foldl step tc) k o t0 hset
  refine ⟨v, ?_⟩
  exact retained_sweeps _ k _ post (keysNodup_step _ _ (keysNodup_run pre tc h)) hv hno ht

/-- C18, presence: "… is reported present by every query made until d has elapsed since its latest add or upsert,
    no matter how many sweeps run" -/
theorem present_until_expiry (tc : TC) (pre post : List (Op × Nat)) (o : Op) (t0 : Nat) (k : Bytes)
    (h : KeysNodup tc) (hset : sets k o = true)
    (hno : ∀ p ∈ post, touches k p.1 = false)
    (ht : ∀ p ∈ post, isSweep p.1 = true → p.2 ≤ t0 + spanAfter (pre.foldl step tc) k o) :
    has ((pre ++ (o, t0) :: post).foldl step tc) k = true := by
  obtain ⟨v, hv⟩ := present_until_expiry_entry tc pre post o t0 k h hset hno ht
  exact (has_eq_true_iff _ k).mpr ⟨_, hv⟩

/-- … at EVERY point of the history after the setting operation (a query placed after any prefix of `post` answers `true`) -/
theorem present_until_expiry_every_query (tc : TC) (pre post : List (Op × Nat)) (o : Op) (t0 : Nat) (k : Bytes)
    (h : KeysNodup tc) (hset : sets k o = true)
    (hno : ∀ p ∈ post, touches k p.1 = false)
    (ht : ∀ p ∈ post, isSweep p.1 = true → p.2 ≤ t0 + spanAfter (pre.foldl step tc) k o) (n : Nat) :
    has ((pre ++ (o, t0) :: post.take n).foldl step tc) k = true :=
  present_until_expiry tc pre (post.take n) o t0 k h hset
    (fun p hp => hno p (List.mem_of_mem_take hp)) (fun p hp => ht p (List.mem_of_mem_take hp))

/-- Add/AddWithSpan/Put with span `d`: the bound is `t0 + d` whatever was in the cache before (the span is REPLACED) -/
theorem present_until_expiry_add (tc : TC) (pre post : List (Op × Nat)) (k v : Bytes) (d t0 : Nat) (h : KeysNodup tc)
    (hno : ∀ p ∈ post, touches k p.1 = false) (ht : ∀ p ∈ post, isSweep p.1 = true → p.2 ≤ t0 + d) :
    alookup k ((pre ++ (.add k v d, t0) :: post).foldl step tc) = some ⟨t0, d, v⟩ := by
  rw [List.foldl_append, List.foldl_cons]
  exact retained_sweeps _ k _ post (keysNodup_step _ _ (keysNodup_run pre tc h)) (add_lookup _ k v d t0) hno ht

/-- Upsert with span `d`: the key is present at least until `t0 + d` whatever was in the cache before (and longer if the
    existing span was larger: `spanAfter ≥ d`) -/
theorem present_until_expiry_upsert (tc : TC) (pre post : List (Op × Nat)) (k v : Bytes) (d t0 : Nat) (h : KeysNodup tc)
    (hno : ∀ p ∈ post, touches k p.1 = false) (ht : ∀ p ∈ post, isSweep p.1 = true → p.2 ≤ t0 + d) :
    has ((pre ++ (.upsert k v d, t0) :: post).foldl step tc) k = true := by
  apply present_until_expiry tc pre post (.upsert k v d) t0 k h (by simp [sets]) hno
  intro p hp hs
  have := ht p hp hs
  have hge : d ≤ spanAfter (pre.foldl step tc) k (.upsert k v d) := by
    unfold spanAfter
    cases alookup k (pre.foldl step tc) with
    | some e => dsimp only; omega
    | none => exact Nat.le_refl _
  omega

/-- C18, expiry.  Additionally to the hypotheses of `present_until_expiry` on the part `mid` of the history, a sweep reading
    `ts > t0 + d` runs; no Add/Upsert/HasOrAdd of `k` occurs after that sweep (`rest`; anything else may, with any readings).
    Then `k` is absent afterwards. -/
theorem gone_after_expiry_sweep (tc : TC) (pre mid rest : List (Op × Nat)) (o : Op) (t0 ts : Nat) (k : Bytes)
    (h : KeysNodup tc) (hset : sets k o = true)
    (hno : ∀ p ∈ mid, touches k p.1 = false)
    (ht : ∀ p ∈ mid, isSweep p.1 = true → p.2 ≤ t0 + spanAfter (pre.foldl step tc) k o)
    (hts : t0 + spanAfter (pre.foldl step tc) k o < ts)
    (hrest : ∀ p ∈ rest, revives k p.1 = false) :
    has ((pre ++ (o, t0) :: (mid ++ (Op.sweep, ts) :: rest)).foldl step tc) k = false := by
  obtain ⟨v, hv⟩ := present_until_expiry_entry tc pre mid o t0 k h hset hno ht
  have hnd := keysNodup_run (pre ++ (o, t0) :: mid) tc h
  have e1 : pre ++ (o, t0) :: (mid ++ (Op.sweep, ts) :: rest) = (pre ++ (o, t0) :: mid) ++ (Op.sweep, ts) :: rest := by
    simp
  rw [e1, List.foldl_append, List.foldl_cons]
  have hdrop := sweep_drops _ ts k _ hnd hv hts
  rw [has_eq_false_iff] at hdrop ⊢
  exact run_stays_absent _ k rest (KeysNodup.sweep _ ts hnd) hdrop hrest

/-- Variant with NO assumption on the readings of the sweeps before the expiring one (they may even run "too late" and remove
    the key earlier, readings need not be monotone) and Remove of `k` allowed anywhere; in exchange HasOrAdd of `k` is
    excluded between the setting operation and the expiring sweep too. -/
theorem gone_after_expiry_sweep_any (tc : TC) (pre mid rest : List (Op × Nat)) (o : Op) (t0 ts : Nat) (k : Bytes)
    (h : KeysNodup tc) (hset : sets k o = true)
    (hmid : ∀ p ∈ mid, revives k p.1 = false)
    (hts : t0 + spanAfter (pre.foldl step tc) k o < ts)
    (hrest : ∀ p ∈ rest, revives k p.1 = false) :
    has ((pre ++ (o, t0) :: (mid ++ (Op.sweep, ts) :: rest)).foldl step tc) k = false := by
  obtain ⟨v, hv⟩ := sets_lookup (pre.foldl step tc) k o t0 hset
  have hnd1 := keysNodup_step _ (o, t0) (keysNodup_run pre tc h)
  have hmidr := run_absent_or_same _ k _ mid hnd1 (Or.inr hv) hmid
  have hnd := keysNodup_run mid _ hnd1
  rw [List.foldl_append, List.foldl_cons, List.foldl_append, List.foldl_cons, has_eq_false_iff]
  apply run_stays_absent _ k rest (KeysNodup.sweep _ ts hnd) _ hrest
  rcases hmidr with hn | hs
  · exact lookup_sweep_none _ ts k hnd hn
  · exact (has_eq_false_iff _ k).mp (sweep_drops _ ts k _ hnd hs hts)

/-- C18: Upsert never shortens the remaining life of a key.  For an existing entry `e = (ts, sp, val)` and an Upsert reading
    `now ≥ ts`: the new entry is stamped `now`, its span is `max sp span`, the value is kept, and its expiry is
    `≥ ts + sp` (the old expiry) and `≥ now + span` (what a fresh Add would give). -/
theorem upsert_never_shortens (tc : TC) (k v : Bytes) (span now : Nat) (e : Entry)
    (he : alookup k tc = some e) (hmono : e.timestamp ≤ now) :
    ∃ e', alookup k (upsert tc k v span now) = some e' ∧ e'.timestamp = now ∧ e'.span = max e.span span ∧ e'.value = e.value ∧
      e.timestamp + e.span ≤ e'.timestamp + e'.span ∧ now + span ≤ e'.timestamp + e'.span := by
  refine ⟨⟨now, max e.span span, e.value⟩, ?_, rfl, rfl, rfl, ?_, ?_⟩
  · rw [upsert_lookup, he]
  · dsimp only; omega
  · dsimp only; omega

/-- the second bound needs no hypothesis at all (absent key or not, any readings) -/
theorem upsert_expiry_ge (tc : TC) (k v : Bytes) (span now : Nat) :
    ∃ e', alookup k (upsert tc k v span now) = some e' ∧ e'.timestamp = now ∧ now + span ≤ e'.timestamp + e'.span := by
  rw [upsert_lookup]
  cases alookup k tc with
  | some e => exact ⟨_, rfl, rfl, by dsimp only; omega⟩
  | none => exact ⟨_, rfl, rfl, Nat.le_refl _⟩

/-- `now ≥ ts` IS needed for the first bound: with a clock that went backwards (entry stamped 10, Upsert reading 0) the expiry
    drops from 11 to 1.  (Go's `time.Now()` carries a monotonic reading, so `now ≥ ts` holds there.) -/
example : alookup [1] (upsert (add [] [1] [] 1 10) [1] [] 1 0) = some ⟨0, 1, []⟩ := by decide

/-! ### non-vacuity / concrete readings for §3 -/

section examples3
private def k1 : Bytes := [1]
private def k2 : Bytes := [2]
private def pre3 : List (Op × Nat) := [(.add k1 [5] 100, 1), (.add k2 [] 4, 2)]
/-- Upsert(k1, span 7) read 10 on an entry of span 100: span stays 100 ⇒ alive until 110.  Later: sweeps at 50 and 110,
    HasOrAdd of k1, Remove/Upsert of k2. -/
private def post3 : List (Op × Nat) := [(.sweep, 50), (.hoa k1 [9] 1, 60), (.rm k2, 61), (.upsert k2 [] 3, 70), (.sweep, 110)]

private def post3b : List (Op × Nat) := [(.sweep, 17), (.hoa k1 [9] 50, 17)]
private def rest3 : List (Op × Nat) := [(.rm k1, 112), (.add k2 [] 1, 113), (.sweep, 3)]
/-- late sweep (reading 500) and Remove before the expiring sweep, non-monotone readings -/
private def mid3 : List (Op × Nat) := [(.sweep, 500), (.rm k1, 3)]

example : spanAfter (pre3.foldl step []) k1 (.upsert k1 [] 7) = 100 := by decide
example : has ((pre3 ++ (.upsert k1 [] 7, 10) :: post3).foldl step []) k1 = true :=
  present_until_expiry [] pre3 post3 (.upsert k1 [] 7) 10 k1 (by simp [KeysNodup]) (by decide) (by decide) (by decide)
example : ∃ v, alookup k1 ((pre3 ++ (.upsert k1 [] 7, 10) :: post3).foldl step []) = some ⟨10, 100, v⟩ :=
  present_until_expiry_entry [] pre3 post3 (.upsert k1 [] 7) 10 k1 (by simp [KeysNodup]) (by decide) (by decide) (by decide)
-- Add REPLACES the span: after Add(k1, span 7) at 10 the key lives until 17 only
example : alookup k1 ((pre3 ++ (.add k1 [6] 7, 10) :: post3b).foldl step []) = some ⟨10, 7, [6]⟩ :=
  present_until_expiry_add [] pre3 post3b k1 [6] 7 10 (by simp [KeysNodup]) (by decide) (by decide)
example : has ((pre3 ++ (.upsert k1 [] 7, 10) :: post3b).foldl step []) k1 = true :=
  present_until_expiry_upsert [] pre3 post3b k1 [] 7 10 (by simp [KeysNodup]) (by decide) (by decide)
-- a sweep reading 111 > 10 + 100 removes it; afterwards Remove / sweeps / other keys cannot bring it back
example : has ((pre3 ++ (.upsert k1 [] 7, 10) :: (post3 ++ (.sweep, 111) :: rest3)).foldl step []) k1 = false :=
  gone_after_expiry_sweep [] pre3 post3 rest3 (.upsert k1 [] 7) 10 111 k1 (by simp [KeysNodup]) (by decide) (by decide) (by decide)
    (by decide) (by decide)
example : has ((pre3 ++ (.add k1 [] 7, 10) :: (mid3 ++ (.sweep, 18) :: rest3)).foldl step []) k1 = false :=
  gone_after_expiry_sweep_any [] pre3 mid3 rest3 (.add k1 [] 7) 10 18 k1 (by simp [KeysNodup]) (by decide) (by decide) (by decide) (by decide)
-- the bounds are tight: a sweep reading exactly t0 + d keeps the key, t0 + d + 1 drops it
example : has (sweep (add [] k1 [] 7 10) 17) k1 = true ∧ has (sweep (add [] k1 [] 7 10) 18) k1 = false := by decide
-- HasOrAdd of `k` IS a problem between the setting operation and the expiring sweep once an earlier (late) sweep or a Remove
-- has dropped the key: it re-adds it with a fresh countdown — which is why `gone_after_expiry_sweep_any` excludes it in `mid`
example : has (([(.add k1 [] 7, 10), (.rm k1, 11), (.hoa k1 [] 7, 12), (.sweep, 18)] : List (Op × Nat)).foldl step []) k1 = true := by decide
example : ∃ e', alookup k1 (upsert (add [] k1 [3] 100 1) k1 [] 7 10) = some e' ∧ e'.timestamp = 10 ∧ e'.span = max 100 7 ∧
    e'.value = [3] ∧ 1 + 100 ≤ e'.timestamp + e'.span ∧ 10 + 7 ≤ e'.timestamp + e'.span :=
  upsert_never_shortens (add [] k1 [3] 100 1) k1 [] 7 10 ⟨1, 100, [3]⟩ (by decide) (by decide)
end examples3

/-! ## §4 the Go API: `TimeCache`, `peerTimeCache`, `timeCacher` — all three wrap one `timeCacheCore`

  `Core` is `timeCacheCore` (`data` + `defaultSpan`).  Every mutating call with an EMPTY key returns `ErrEmptyKey` (TimeCache,
  peerTimeCache) or logs the error (timeCacher.Put / HasOrAdd) and leaves the cache unchanged; that guard is modelled here.
  Values (`interface{}`) are byte strings as in `Entry`; `TimeCache.Add/AddWithSpan/Upsert` store the nil value `[]`.
  The background goroutine of `timeCacher` (`startSweeping`) is the explicit event `.sweep` with the reading of `time.Since`.
  Not modelled: the added-data handlers of `timeCacher` (they do not touch the cache), `Close`, `MaxSize`, `SizeInBytesContained`. -/

structure Core where
  defaultSpan : Nat
  data : TC

/-- `newTimeCacheCore` -/
def Core.new (defaultSpan : Nat) : Core := ⟨defaultSpan, []⟩

/-- `TimeCache.AddWithSpan` / `TimeCache.add` -/
def Core.addWithSpan (c : Core) (k : Bytes) (d now : Nat) : Core :=
  if k = [] then c else { c with data := TimeCache.add c.data k [] d now }
/-- `TimeCache.Add` -/
def Core.add (c : Core) (k : Bytes) (now : Nat) : Core := c.addWithSpan k c.defaultSpan now
/-- `TimeCache.Upsert` = `peerTimeCache.Upsert` = `timeCacheCore.upsert(key, nil, d)` -/
def Core.upsert (c : Core) (k : Bytes) (d now : Nat) : Core :=
  if k = [] then c else { c with data := TimeCache.upsert c.data k [] d now }
/-- `TimeCache.Sweep` = `peerTimeCache.Sweep` = one round of `timeCacher.startSweeping` -/
def Core.sweep (c : Core) (now : Nat) : Core := { c with data := TimeCache.sweep c.data now }
/-- `TimeCache.Has` = `peerTimeCache.Has` = `timeCacher.Has` -/
def Core.has (c : Core) (k : Bytes) : Bool := TimeCache.has c.data k
/-- `TimeCache.Len` = `timeCacher.Len` -/
def Core.len (c : Core) : Nat := c.data.length
/-- `timeCacher.Put` (always returns `evicted = false`) -/
def Core.put (c : Core) (k v : Bytes) (now : Nat) : Core :=
  if k = [] then c else { c with data := TimeCache.add c.data k v c.defaultSpan now }
/-- `timeCacher.Get`: value and `ok` (no expiry check, no sweep: an expired but not yet swept entry IS returned) -/
def Core.get (c : Core) (k : Bytes) : Option Bytes := (alookup k c.data).map (·.value)
/-- `timeCacher.Peek` is `Get` -/
def Core.peek (c : Core) (k : Bytes) : Option Bytes := c.get k
/-- `timeCacher.HasOrAdd` → (cache, has, added) -/
def Core.hasOrAdd (c : Core) (k v : Bytes) (now : Nat) : Core × Bool × Bool :=
  if k = [] then (c, false, false)
  else ({ c with data := (TimeCache.hasOrAdd c.data k v c.defaultSpan now).1 },
        (TimeCache.hasOrAdd c.data k v c.defaultSpan now).2.1, (TimeCache.hasOrAdd c.data k v c.defaultSpan now).2.2)
/-- `timeCacher.Remove` (Go returns early on a nil key; the empty key is never stored, see `remove_empty_noop`) -/
def Core.remove (c : Core) (k : Bytes) : Core := { c with data := TimeCache.remove c.data k }
/-- `timeCacher.Keys` (Go: map iteration order, i.e. unspecified order; use it as a set) -/
def Core.keys (c : Core) : List Bytes := c.data.map (·.1)
/-- `timeCacher.Clear` -/
def Core.clear (c : Core) : Core := { c with data := [] }

/-- API calls of the three types (identical methods merged) -/
inductive AOp where
  | add (k : Bytes) | addWithSpan (k : Bytes) (d : Nat) | upsert (k : Bytes) (d : Nat) | sweep
  | has (k : Bytes) | len
  | put (k v : Bytes) | get (k : Bytes) | peek (k : Bytes) | hasOrAdd (k v : Bytes) | remove (k : Bytes) | keys | clear

/-- effect of one call on the cache; the second component is the clock reading the call observed (ignored by calls that do not read the clock) -/
def astep (c : Core) (a : AOp × Nat) : Core :=
  match a.1 with
  | .add k => c.add k a.2
  | .addWithSpan k d => c.addWithSpan k d a.2
  | .upsert k d => c.upsert k d a.2
  | .sweep => c.sweep a.2
  | .put k v => c.put k v a.2
  | .hasOrAdd k v => (c.hasOrAdd k v a.2).1
  | .remove k => c.remove k
  | .clear => c.clear
  | .has _ => c | .len => c | .get _ => c | .peek _ => c | .keys => c

/-- calls that overwrite, restart or delete the entry of `k`: everything EXCEPT HasOrAdd, sweeps, queries, calls on other keys -/
def atouches (k : Bytes) : AOp → Bool
  | .add k' => k' == k | .addWithSpan k' _ => k' == k | .upsert k' _ => k' == k | .put k' _ => k' == k
  | .remove k' => k' == k | .clear => true | _ => false

/-- calls that can create an entry for `k` -/
def arevives (k : Bytes) : AOp → Bool
  | .add k' => k' == k | .addWithSpan k' _ => k' == k | .upsert k' _ => k' == k | .put k' _ => k' == k
  | .hasOrAdd k' _ => k' == k | _ => false

def aIsSweep : AOp → Bool
  | .sweep => true | _ => false

/-- refinement: every API call except `Clear` is a no-op or ONE operation of the `Op`/`step` model, so §1–§3 apply to API histories -/
def AOp.lower (defaultSpan : Nat) : AOp → Option Op
  | .add k => if k = [] then none else some (.add k [] defaultSpan)
  | .addWithSpan k d => if k = [] then none else some (.add k [] d)
  | .upsert k d => if k = [] then none else some (.upsert k [] d)
  | .sweep => some .sweep
  | .put k v => if k = [] then none else some (.add k v defaultSpan)
  | .hasOrAdd k v => if k = [] then none else some (.hoa k v defaultSpan)
  | .remove k => some (.rm k)
  | _ => none

theorem astep_defaultSpan (c : Core) (a : AOp × Nat) : (astep c a).defaultSpan = c.defaultSpan := by
  obtain ⟨op, t⟩ := a
  cases op <;> simp only [astep, Core.add, Core.addWithSpan, Core.upsert, Core.sweep, Core.put, Core.hasOrAdd, Core.remove, Core.clear]
    <;> (try split) <;> rfl

theorem arun_defaultSpan (ops : List (AOp × Nat)) (c : Core) : (ops.foldl astep c).defaultSpan = c.defaultSpan := by
  induction ops generalizing c with
  | nil => rfl
  | cons o r ih => simp only [List.foldl_cons]; rw [ih, astep_defaultSpan]

theorem astep_lower (c : Core) (a : AOp × Nat) :
    (astep c a).data =
      match a.1 with
      | .clear => []
      | op => match op.lower c.defaultSpan with
        | some o => step c.data (o, a.2)
        | none => c.data := by
  obtain ⟨op, t⟩ := a
  cases op <;> simp only [astep, AOp.lower, Core.add, Core.addWithSpan, Core.upsert, Core.sweep, Core.put, Core.hasOrAdd, Core.remove,
      Core.clear] <;> (try split) <;> rfl

theorem astep_keysNodup (c : Core) (a : AOp × Nat) (h : KeysNodup c.data) : KeysNodup (astep c a).data := by
  rw [astep_lower]
  split
  · simp [KeysNodup]
  · split
    · exact keysNodup_step _ _ h
    · exact h

theorem arun_keysNodup (ops : List (AOp × Nat)) (c : Core) (h : KeysNodup c.data) : KeysNodup (ops.foldl astep c).data := by
  induction ops generalizing c with
  | nil => exact h
  | cons o r ih => exact ih (astep c o) (astep_keysNodup c o h)

theorem lower_touches {ds : Nat} {op : AOp} {o : Op} (k : Bytes) (h : op.lower ds = some o) (hno : atouches k op = false) :
    touches k o = false := by
  cases op <;> simp only [AOp.lower] at h <;> (try split at h) <;> simp at h <;> subst h <;>
    first | (simp [touches]; done) | simpa [atouches, touches] using hno

theorem lower_revives {ds : Nat} {op : AOp} {o : Op} (k : Bytes) (h : op.lower ds = some o) (hno : arevives k op = false) :
    revives k o = false := by
  cases op <;> simp only [AOp.lower] at h <;> (try split at h) <;> simp at h <;> subst h <;>
    first | (simp [revives]; done) | simpa [arevives, revives] using hno

theorem lower_isSweep {ds : Nat} {op : AOp} {o : Op} (h : op.lower ds = some o) (hs : isSweep o = true) :
    aIsSweep op = true := by
  cases op <;> simp only [AOp.lower] at h <;> (try split at h) <;> simp at h <;> subst h <;>
    simp [isSweep, aIsSweep] at hs ⊢

/-- one API call keeps an entry: not Add/AddWithSpan/Upsert/Put/Remove of `k`, not Clear; a sweep must read `≤ timestamp + span`.
    HasOrAdd of `k`, all queries and all calls on other keys are allowed, with any readings. -/
theorem astep_keeps_entry (c : Core) (k : Bytes) (e : Entry) (a : AOp × Nat) (h : KeysNodup c.data)
    (he : alookup k c.data = some e) (hno : atouches k a.1 = false)
    (ht : aIsSweep a.1 = true → a.2 ≤ e.timestamp + e.span) : alookup k (astep c a).data = some e := by
  rw [astep_lower]
  split
  · rename_i hc
    rw [hc] at hno
    simp [atouches] at hno
  · split
    · rename_i o ho
      exact step_keeps_entry c.data k e (o, a.2) h he (lower_touches k ho hno) (fun hs => ht (lower_isSweep ho hs))
    · exact he

/-- the analogue of `retained` for the API of the three types (in particular the self-sweeping `timeCacher`) -/
theorem api_retained (c : Core) (k : Bytes) (e : Entry) (ops : List (AOp × Nat)) (h : KeysNodup c.data)
    (he : alookup k c.data = some e) (hno : ∀ o ∈ ops, atouches k o.1 = false)
    (ht : ∀ o ∈ ops, aIsSweep o.1 = true → o.2 ≤ e.timestamp + e.span) :
    alookup k (ops.foldl astep c).data = some e := by
  induction ops generalizing c with
  | nil => exact he
  | cons o r ih =>
    simp only [List.foldl_cons]
    apply ih (astep c o) (astep_keysNodup c o h)
    · exact astep_keeps_entry c k e o h he (hno o (List.mem_cons_self ..)) (ht o (List.mem_cons_self ..))
    · intro o' ho'; exact hno o' (List.mem_cons_of_mem _ ho')
    · intro o' ho'; exact ht o' (List.mem_cons_of_mem _ ho')

theorem astep_stays_absent (c : Core) (k : Bytes) (a : AOp × Nat) (h : KeysNodup c.data)
    (he : alookup k c.data = none) (hno : arevives k a.1 = false) : alookup k (astep c a).data = none := by
  rw [astep_lower]
  split
  · rfl
  · split
    · rename_i o ho
      exact step_stays_absent c.data k (o, a.2) h he (lower_revives k ho hno)
    · exact he

theorem arun_stays_absent (c : Core) (k : Bytes) (ops : List (AOp × Nat)) (h : KeysNodup c.data)
    (he : alookup k c.data = none) (hno : ∀ o ∈ ops, arevives k o.1 = false) :
    alookup k (ops.foldl astep c).data = none := by
  induction ops generalizing c with
  | nil => exact he
  | cons o r ih =>
    simp only [List.foldl_cons]
    exact ih (astep c o) (astep_keysNodup c o h) (astep_stays_absent c k o h he (hno o (List.mem_cons_self ..)))
      (fun o' ho' => hno o' (List.mem_cons_of_mem _ ho'))

/-- generic "present until expiry" for API histories: whatever call `a` left the entry `e` for `k` … -/
theorem api_after_set_retained (c : Core) (pre post : List (AOp × Nat)) (a : AOp × Nat) (k : Bytes) (e : Entry)
    (h : KeysNodup c.data) (hset : alookup k (astep (pre.foldl astep c) a).data = some e)
    (hno : ∀ p ∈ post, atouches k p.1 = false)
    (ht : ∀ p ∈ post, aIsSweep p.1 = true → p.2 ≤ e.timestamp + e.span) :
    alookup k ((pre ++ a :: post).foldl astep c).data = some e := by
  rw [List.foldl_append, List.foldl_cons]
  exact api_retained _ k e post (astep_keysNodup _ a (arun_keysNodup pre c h)) hset hno ht

/-- … and generic "gone after an expiring sweep" -/
theorem api_after_set_gone (c : Core) (pre mid rest : List (AOp × Nat)) (a : AOp × Nat) (ts : Nat) (k : Bytes) (e : Entry)
    (h : KeysNodup c.data) (hset : alookup k (astep (pre.foldl astep c) a).data = some e)
    (hno : ∀ p ∈ mid, atouches k p.1 = false)
    (ht : ∀ p ∈ mid, aIsSweep p.1 = true → p.2 ≤ e.timestamp + e.span)
    (hts : e.timestamp + e.span < ts)
    (hrest : ∀ p ∈ rest, arevives k p.1 = false) :
    alookup k ((pre ++ a :: (mid ++ (AOp.sweep, ts) :: rest)).foldl astep c).data = none := by
  have hv := api_after_set_retained c pre mid a k e h hset hno ht
  have hnd := arun_keysNodup (pre ++ a :: mid) c h
  have e1 : pre ++ a :: (mid ++ (AOp.sweep, ts) :: rest) = (pre ++ a :: mid) ++ (AOp.sweep, ts) :: rest := by simp
  rw [e1, List.foldl_append, List.foldl_cons]
  have hdrop : alookup k (astep ((pre ++ a :: mid).foldl astep c) (AOp.sweep, ts)).data = none :=
    (has_eq_false_iff _ k).mp (sweep_drops _ ts k e hnd hv hts)
  exact arun_stays_absent _ k rest (astep_keysNodup _ _ hnd) hdrop hrest

/-! ### what the setting calls of the three types leave behind -/

theorem put_lookup (c : Core) (k v : Bytes) (now : Nat) (hk : k ≠ []) :
    alookup k (c.put k v now).data = some ⟨now, c.defaultSpan, v⟩ := by
  unfold Core.put
  rw [if_neg hk]
  exact add_lookup c.data k v c.defaultSpan now

theorem addWithSpan_lookup (c : Core) (k : Bytes) (d now : Nat) (hk : k ≠ []) :
    alookup k (c.addWithSpan k d now).data = some ⟨now, d, []⟩ := by
  unfold Core.addWithSpan
  rw [if_neg hk]
  exact add_lookup c.data k [] d now

theorem coreAdd_lookup (c : Core) (k : Bytes) (now : Nat) (hk : k ≠ []) :
    alookup k (c.add k now).data = some ⟨now, c.defaultSpan, []⟩ := addWithSpan_lookup c k c.defaultSpan now hk

theorem coreUpsert_lookup (c : Core) (k : Bytes) (d now : Nat) (hk : k ≠ []) :
    alookup k (c.upsert k d now).data =
      some (match alookup k c.data with | some e => ⟨now, max e.span d, e.value⟩ | none => ⟨now, d, []⟩) := by
  unfold Core.upsert
  rw [if_neg hk]
  exact upsert_lookup c.data k [] d now

/-- calls with the empty key change nothing (Go: `ErrEmptyKey`) -/
theorem empty_key_noop (c : Core) (v : Bytes) (d now : Nat) :
    c.add [] now = c ∧ c.addWithSpan [] d now = c ∧ c.upsert [] d now = c ∧ c.put [] v now = c ∧
    c.hasOrAdd [] v now = (c, false, false) := by
  simp [Core.add, Core.addWithSpan, Core.upsert, Core.put, Core.hasOrAdd]

/-! ### Keys / Len / Has / Get agree -/

theorem isSome_alookup_iff (k : Bytes) (l : TC) : (alookup k l).isSome = true ↔ k ∈ l.map (·.1) := by
  induction l with
  | nil => simp [alookup]
  | cons a r ih =>
    obtain ⟨k1, e1⟩ := a
    simp only [alookup, List.map_cons, List.mem_cons]
    split
    · rename_i heq
      have : k1 = k := by simpa using heq
      simp [this]
    · rename_i hne
      have : ¬ k = k1 := by
        intro hc; apply hne; simp [hc]
      simp [this, ih]

theorem mem_keys_iff_has (c : Core) (k : Bytes) : k ∈ c.keys ↔ c.has k = true :=
  (isSome_alookup_iff k c.data).symm

theorem keys_length (c : Core) : c.keys.length = c.len := by simp [Core.keys, Core.len]

theorem keys_nodup (c : Core) (h : KeysNodup c.data) : c.keys.Nodup := h

theorem get_isSome_iff_has (c : Core) (k : Bytes) : (c.get k).isSome = c.has k := by
  unfold Core.get Core.has TimeCache.has
  cases alookup k c.data <;> rfl

theorem hasOrAdd_present (c : Core) (k v : Bytes) (now : Nat) (e : Entry) (hk : k ≠ []) (he : alookup k c.data = some e) :
    c.hasOrAdd k v now = (c, true, false) := by
  unfold Core.hasOrAdd
  rw [if_neg hk]
  obtain ⟨f1, f2, _⟩ := TimeCache.hasOrAdd_flags c.data k v c.defaultSpan now
  have hh : has c.data k = true := (has_eq_true_iff _ k).mpr ⟨e, he⟩
  rw [f1, f2, hoa_present c.data k v c.defaultSpan now e he, hh]
  rfl

theorem hasOrAdd_absent (c : Core) (k v : Bytes) (now : Nat) (hk : k ≠ []) (he : alookup k c.data = none) :
    c.hasOrAdd k v now = (c.put k v now, false, true) := by
  unfold Core.hasOrAdd Core.put
  rw [if_neg hk, if_neg hk]
  obtain ⟨f1, f2, _⟩ := TimeCache.hasOrAdd_flags c.data k v c.defaultSpan now
  have hh : has c.data k = false := (has_eq_false_iff _ k).mpr he
  rw [f1, f2, hoa_absent c.data k v c.defaultSpan now he, hh]
  rfl

/-! ### the self-sweeping `timeCacher` -/

/-- C18 for `timeCacher`: after `Put(k, v)` that read the clock at `t0`, as long as no later call is a Put/Remove of `k` or Clear
    (HasOrAdd of `k`, Get/Peek/Has/Keys/Len, calls on other keys: all allowed) and every background sweep so far has read a time
    `≤ t0 + defaultSpan`:  Get and Peek return `v` — the value of the LATEST Put —, Has is true, `k` is listed by Keys,
    Len is positive and HasOrAdd answers `(has, added) = (true, false)` without changing anything. -/
theorem cacher_retained (c : Core) (pre post : List (AOp × Nat)) (k v : Bytes) (t0 : Nat) (hk : k ≠ [])
    (h : KeysNodup c.data)
    (hno : ∀ p ∈ post, atouches k p.1 = false)
    (ht : ∀ p ∈ post, aIsSweep p.1 = true → p.2 ≤ t0 + c.defaultSpan) :
    let c' := (pre ++ (.put k v, t0) :: post).foldl astep c
    c'.get k = some v ∧ c'.peek k = some v ∧ c'.has k = true ∧ k ∈ c'.keys ∧ 0 < c'.len ∧
      (∀ v' now, c'.hasOrAdd k v' now = (c', true, false)) := by
  intro c'
  have hset : alookup k (astep (pre.foldl astep c) (.put k v, t0)).data = some ⟨t0, c.defaultSpan, v⟩ := by
    show alookup k ((pre.foldl astep c).put k v t0).data = _
    rw [put_lookup _ k v t0 hk, arun_defaultSpan]
  have hl : alookup k c'.data = some ⟨t0, c.defaultSpan, v⟩ :=
    api_after_set_retained c pre post (.put k v, t0) k _ h hset hno ht
  have hhas : c'.has k = true := (has_eq_true_iff _ k).mpr ⟨_, hl⟩
  have hmem : k ∈ c'.keys := (mem_keys_iff_has c' k).mpr hhas
  refine ⟨?_, ?_, hhas, hmem, ?_, ?_⟩
  · unfold Core.get; rw [hl]; rfl
  · unfold Core.peek Core.get; rw [hl]; rfl
  · rw [← keys_length]; exact List.length_pos_of_mem hmem
  · intro v' now; exact hasOrAdd_present c' k v' now _ hk hl

/-- … and once a background sweep reads a time `> t0 + defaultSpan` the key is gone, and stays gone until the next
    Put/HasOrAdd (or Add/Upsert) of `k` -/
theorem cacher_gone_after_expiry_sweep (c : Core) (pre mid rest : List (AOp × Nat)) (k v : Bytes) (t0 ts : Nat) (hk : k ≠ [])
    (h : KeysNodup c.data)
    (hno : ∀ p ∈ mid, atouches k p.1 = false)
    (ht : ∀ p ∈ mid, aIsSweep p.1 = true → p.2 ≤ t0 + c.defaultSpan)
    (hts : t0 + c.defaultSpan < ts)
    (hrest : ∀ p ∈ rest, arevives k p.1 = false) :
    let c' := (pre ++ (.put k v, t0) :: (mid ++ (.sweep, ts) :: rest)).foldl astep c
    c'.get k = none ∧ c'.peek k = none ∧ c'.has k = false ∧ k ∉ c'.keys := by
  intro c'
  have hset : alookup k (astep (pre.foldl astep c) (.put k v, t0)).data = some ⟨t0, c.defaultSpan, v⟩ := by
    show alookup k ((pre.foldl astep c).put k v t0).data = _
    rw [put_lookup _ k v t0 hk, arun_defaultSpan]
  have hl : alookup k c'.data = none :=
    api_after_set_gone c pre mid rest (.put k v, t0) ts k _ h hset hno ht hts hrest
  have hhas : c'.has k = false := (has_eq_false_iff _ k).mpr hl
  refine ⟨?_, ?_, hhas, ?_⟩
  · unfold Core.get; rw [hl]; rfl
  · unfold Core.peek Core.get; rw [hl]; rfl
  · intro hm
    rw [(mem_keys_iff_has c' k).mp hm] at hhas
    cases hhas

/-- `Clear` empties the cache (and keeps the default span) -/
theorem clear_empties (c : Core) :
    c.clear.len = 0 ∧ c.clear.keys = [] ∧ c.clear.defaultSpan = c.defaultSpan ∧
    ∀ k, c.clear.has k = false ∧ c.clear.get k = none ∧ c.clear.peek k = none :=
  ⟨rfl, rfl, rfl, fun _ => ⟨rfl, rfl, rfl⟩⟩

/-- after `Clear` a key stays absent until the next call that can create it -/
theorem cleared_stays_absent (c : Core) (pre rest : List (AOp × Nat)) (t : Nat) (k : Bytes)
    (hrest : ∀ p ∈ rest, arevives k p.1 = false) :
    ((pre ++ (.clear, t) :: rest).foldl astep c).has k = false := by
  rw [List.foldl_append, List.foldl_cons]
  apply (has_eq_false_iff _ k).mpr
  exact arun_stays_absent _ k rest (by simp [astep, Core.clear, KeysNodup]) rfl hrest

/-! ### TimeCache / peerTimeCache: the same lifetime statements through the API -/

/-- `TimeCache.AddWithSpan(k, d)` reading `t0`: present until `t0 + d`; `TimeCache.Add` is the case `d = defaultSpan` -/
theorem timeCache_addWithSpan_retained (c : Core) (pre post : List (AOp × Nat)) (k : Bytes) (d t0 : Nat) (hk : k ≠ [])
    (h : KeysNodup c.data) (hno : ∀ p ∈ post, atouches k p.1 = false)
    (ht : ∀ p ∈ post, aIsSweep p.1 = true → p.2 ≤ t0 + d) :
    ((pre ++ (.addWithSpan k d, t0) :: post).foldl astep c).has k = true := by
  have hset : alookup k (astep (pre.foldl astep c) (.addWithSpan k d, t0)).data = some ⟨t0, d, []⟩ :=
    addWithSpan_lookup _ k d t0 hk
  exact (has_eq_true_iff _ k).mpr ⟨_, api_after_set_retained c pre post _ k _ h hset hno ht⟩

theorem timeCache_add_retained (c : Core) (pre post : List (AOp × Nat)) (k : Bytes) (t0 : Nat) (hk : k ≠ [])
    (h : KeysNodup c.data) (hno : ∀ p ∈ post, atouches k p.1 = false)
    (ht : ∀ p ∈ post, aIsSweep p.1 = true → p.2 ≤ t0 + c.defaultSpan) :
    ((pre ++ (.add k, t0) :: post).foldl astep c).has k = true := by
  have hset : alookup k (astep (pre.foldl astep c) (.add k, t0)).data = some ⟨t0, c.defaultSpan, []⟩ := by
    show alookup k ((pre.foldl astep c).add k t0).data = _
    rw [coreAdd_lookup _ k t0 hk, arun_defaultSpan]
  exact (has_eq_true_iff _ k).mpr ⟨_, api_after_set_retained c pre post _ k _ h hset hno ht⟩

/-- the span an Upsert leaves: never smaller than the existing one, never smaller than the requested one -/
def Core.upsertSpan (c : Core) (k : Bytes) (d : Nat) : Nat :=
  match alookup k c.data with | some e => max e.span d | none => d

theorem upsertSpan_ge (c : Core) (k : Bytes) (d : Nat) :
    d ≤ c.upsertSpan k d ∧ ∀ e, alookup k c.data = some e → e.span ≤ c.upsertSpan k d := by
  unfold Core.upsertSpan
  cases alookup k c.data with
  | some e =>
    refine ⟨by dsimp only; omega, ?_⟩
    intro e' he'
    cases he'
    dsimp only; omega
  | none => exact ⟨Nat.le_refl _, fun e he => by cases he⟩

/-- `TimeCache.Upsert(k, d)` / `peerTimeCache.Upsert(pid, d)` reading `t0`: present until `t0 + max d (existing span)` -/
theorem upsert_retained_max (c : Core) (pre post : List (AOp × Nat)) (k : Bytes) (d t0 : Nat) (hk : k ≠ [])
    (h : KeysNodup c.data) (hno : ∀ p ∈ post, atouches k p.1 = false)
    (ht : ∀ p ∈ post, aIsSweep p.1 = true → p.2 ≤ t0 + (pre.foldl astep c).upsertSpan k d) :
    ((pre ++ (.upsert k d, t0) :: post).foldl astep c).has k = true := by
  have hset := coreUpsert_lookup (pre.foldl astep c) k d t0 hk
  refine (has_eq_true_iff _ k).mpr ⟨_, api_after_set_retained c pre post (.upsert k d, t0) k _ h hset hno ?_⟩
  intro p hp hs
  have := ht p hp hs
  unfold Core.upsertSpan at this
  cases hx : alookup k (pre.foldl astep c).data with
  | some e => rw [hx] at this; exact this
  | none => rw [hx] at this; exact this

/-- … in particular at least until `t0 + d`, whatever the cache contained -/
theorem upsert_retained (c : Core) (pre post : List (AOp × Nat)) (k : Bytes) (d t0 : Nat) (hk : k ≠ [])
    (h : KeysNodup c.data) (hno : ∀ p ∈ post, atouches k p.1 = false)
    (ht : ∀ p ∈ post, aIsSweep p.1 = true → p.2 ≤ t0 + d) :
    ((pre ++ (.upsert k d, t0) :: post).foldl astep c).has k = true := by
  apply upsert_retained_max c pre post k d t0 hk h hno
  intro p hp hs
  have := ht p hp hs
  have := (upsertSpan_ge (pre.foldl astep c) k d).1
  omega

/-- `AddWithSpan`/`Add`/`Upsert(k, d)` on an ABSENT key (or any `AddWithSpan`): gone after a sweep reading `> t0 + d` -/
theorem timeCache_addWithSpan_gone (c : Core) (pre mid rest : List (AOp × Nat)) (k : Bytes) (d t0 ts : Nat) (hk : k ≠ [])
    (h : KeysNodup c.data) (hno : ∀ p ∈ mid, atouches k p.1 = false)
    (ht : ∀ p ∈ mid, aIsSweep p.1 = true → p.2 ≤ t0 + d) (hts : t0 + d < ts)
    (hrest : ∀ p ∈ rest, arevives k p.1 = false) :
    ((pre ++ (.addWithSpan k d, t0) :: (mid ++ (.sweep, ts) :: rest)).foldl astep c).has k = false := by
  have hset : alookup k (astep (pre.foldl astep c) (.addWithSpan k d, t0)).data = some ⟨t0, d, []⟩ :=
    addWithSpan_lookup _ k d t0 hk
  exact (has_eq_false_iff _ k).mpr (api_after_set_gone c pre mid rest _ ts k _ h hset hno ht hts hrest)

/-! ### the empty key is never stored, so `Remove(nil)` (early return in Go) and `Remove([]byte{})` coincide -/

def NoEmptyKey (c : Core) : Prop := alookup ([] : Bytes) c.data = none

theorem lookup_filter_none (k : Bytes) (p : Bytes × Entry → Bool) (l : TC) (h : alookup k l = none) :
    alookup k (l.filter p) = none := by
  induction l with
  | nil => rfl
  | cons a r ih =>
    obtain ⟨k1, e1⟩ := a
    simp only [alookup] at h
    split at h
    · cases h
    · rename_i hne
      simp only [List.filter_cons]
      split
      · simp only [alookup, if_neg hne]; exact ih h
      · exact ih h

theorem aerase_of_lookup_none (k : Bytes) (l : TC) (h : alookup k l = none) : aerase k l = l := by
  induction l with
  | nil => rfl
  | cons a r ih =>
    obtain ⟨k1, e1⟩ := a
    simp only [alookup] at h
    split at h
    · cases h
    · rename_i hne
      simp only [aerase, if_neg hne, ih h]

theorem NoEmptyKey.new (d : Nat) : NoEmptyKey (Core.new d) := rfl

theorem NoEmptyKey.astep (c : Core) (a : AOp × Nat) (h : NoEmptyKey c) : NoEmptyKey (astep c a) := by
  obtain ⟨op, t⟩ := a
  unfold NoEmptyKey at h ⊢
  cases op with
  | add k =>
    show alookup [] (c.addWithSpan k c.defaultSpan t).data = none
    unfold Core.addWithSpan
    split
    · exact h
    · rename_i hk
      show alookup [] (TimeCache.add c.data k [] c.defaultSpan t) = none
      rw [lookup_add_ne c.data [] _ t (fun hc => hk hc.symm)]; exact h
  | addWithSpan k d =>
    show alookup [] (c.addWithSpan k d t).data = none
    unfold Core.addWithSpan
    split
    · exact h
    · rename_i hk
      show alookup [] (TimeCache.add c.data k [] d t) = none
      rw [lookup_add_ne c.data [] _ t (fun hc => hk hc.symm)]; exact h
  | upsert k d =>
    show alookup [] (c.upsert k d t).data = none
    unfold Core.upsert
    split
    · exact h
    · rename_i hk
      show alookup [] (TimeCache.upsert c.data k [] d t) = none
      rw [lookup_upsert_ne c.data [] _ t (fun hc => hk hc.symm)]; exact h
  | sweep => exact lookup_filter_none [] _ c.data h
  | put k v =>
    show alookup [] (c.put k v t).data = none
    unfold Core.put
    split
    · exact h
    · rename_i hk
      show alookup [] (TimeCache.add c.data k v c.defaultSpan t) = none
      rw [lookup_add_ne c.data v _ t (fun hc => hk hc.symm)]; exact h
  | hasOrAdd k v =>
    show alookup [] (c.hasOrAdd k v t).1.data = none
    unfold Core.hasOrAdd
    split
    · exact h
    · rename_i hk
      show alookup [] (TimeCache.hasOrAdd c.data k v c.defaultSpan t).1 = none
      rw [lookup_hoa_ne c.data v _ t (fun hc => hk hc.symm)]; exact h
  | remove k =>
    show alookup [] (TimeCache.remove c.data k) = none
    by_cases hk : ([] : Bytes) = k
    · subst hk; exact lookup_remove_self c.data []
    · rw [lookup_remove_ne c.data hk]; exact h
  | clear => rfl
  | has k => exact h
  | len => exact h
  | get k => exact h
  | peek k => exact h
  | keys => exact h

theorem NoEmptyKey.run (ops : List (AOp × Nat)) (c : Core) (h : NoEmptyKey c) :
    NoEmptyKey (ops.foldl TimeCache.astep c) := by
  induction ops generalizing c with
  | nil => exact h
  | cons o r ih => exact ih (TimeCache.astep c o) (NoEmptyKey.astep c o h)

theorem remove_empty_noop (c : Core) (h : NoEmptyKey c) : c.remove [] = c := by
  unfold Core.remove TimeCache.remove
  rw [aerase_of_lookup_none [] c.data h]

/-! ### interval soundness for API histories (all calls of the three types, including `Clear`) -/

/-- an API call with the bracket of its clock reading and the true reading -/
structure BAOp where
  op : AOp
  lo : Nat
  t : Nat
  hi : Nat

def BAOp.ok (b : BAOp) : Prop := b.lo ≤ b.t ∧ b.t ≤ b.hi

instance (b : BAOp) : Decidable b.ok := by unfold BAOp.ok; exact inferInstance

def BAOp.exact (b : BAOp) : AOp × Nat := (b.op, b.t)

/-- interval step for an API call (`defaultSpan` is a constant of the cache): `Clear` empties both bounds, everything else goes
    through `AOp.lower` -/
def I.astep (defaultSpan : Nat) (i : I) (b : BAOp) : I :=
  match b.op with
  | .clear => ⟨[], []⟩
  | op => match op.lower defaultSpan with
    | some o => i.step ⟨o, b.lo, b.t, b.hi⟩
    | none => i

theorem Sandwich.astep (c : Core) (i : I) (b : BAOp) (h : Sandwich i c.data) (hb : b.ok) :
    Sandwich (i.astep c.defaultSpan b) (TimeCache.astep c b.exact).data := by
  obtain ⟨op, lo, t, hi⟩ := b
  rw [astep_lower]
  cases op <;> simp only [I.astep, BAOp.exact, AOp.lower] <;>
    first
    | exact Sandwich.empty
    | exact h
    | exact Sandwich.step i c.data ⟨_, lo, t, hi⟩ h hb
    | (split <;> first | exact h | exact Sandwich.step i c.data ⟨_, lo, t, hi⟩ h hb)

theorem api_interval_run_sound (ops : List BAOp) (c : Core) (i : I) (h : Sandwich i c.data) (hok : ∀ b ∈ ops, b.ok) :
    Sandwich (ops.foldl (I.astep c.defaultSpan) i) ((ops.map BAOp.exact).foldl TimeCache.astep c).data := by
  induction ops generalizing i c with
  | nil => exact h
  | cons b r ih =>
    simp only [List.foldl_cons, List.map_cons]
    have := ih (TimeCache.astep c b.exact) (i.astep c.defaultSpan b) (Sandwich.astep c i b h (hok b (List.mem_cons_self ..)))
      (fun b' hb' => hok b' (List.mem_cons_of_mem _ hb'))
    rw [astep_defaultSpan] at this
    exact this

/-- three-valued verdict for a `timeCacher`/`TimeCache`/`peerTimeCache` created empty, after any API history -/
theorem api_interval_run_verdict (ops : List BAOp) (d : Nat) (hok : ∀ b ∈ ops, b.ok) (k : Bytes) :
    (has (ops.foldl (I.astep d) ⟨[], []⟩).must k = true → ((ops.map BAOp.exact).foldl TimeCache.astep (Core.new d)).has k = true) ∧
    (((ops.map BAOp.exact).foldl TimeCache.astep (Core.new d)).has k = true → has (ops.foldl (I.astep d) ⟨[], []⟩).may k = true) :=
  Sandwich.verdict _ _ k (api_interval_run_sound ops (Core.new d) ⟨[], []⟩ Sandwich.empty hok)

/-! ### non-vacuity / concrete readings for §4 -/

section examples4
private def c0 : Core := Core.new 10
private def ka : Bytes := [0xaa]
private def kb : Bytes := [0xbb]
private def pre4 : List (AOp × Nat) := [(.put ka [1], 0), (.put kb [2], 1), (.sweep, 5)]
/-- after Put(ka, [3]) reading 20 (default span 10 ⇒ alive until 30): queries, HasOrAdd of ka with another value, Put/Remove of kb,
    background sweeps reading 25 and 30 -/
private def post4 : List (AOp × Nat) :=
  [(.get ka, 21), (.hasOrAdd ka [9], 22), (.sweep, 25), (.put kb [4], 26), (.remove kb, 27), (.keys, 28), (.len, 28), (.sweep, 30)]
private def rest4 : List (AOp × Nat) := [(.remove ka, 40), (.put kb [5], 41), (.sweep, 2), (.peek ka, 50)]

example : ((pre4 ++ (.put ka [3], 20) :: post4).foldl astep c0).get ka = some [3] :=
  (cacher_retained c0 pre4 post4 ka [3] 20 (by decide) (by simp [c0, Core.new, KeysNodup]) (by decide) (by decide)).1
example : ((pre4 ++ (.put ka [3], 20) :: post4).foldl astep c0).has ka = true :=
  (cacher_retained c0 pre4 post4 ka [3] 20 (by decide) (by simp [c0, Core.new, KeysNodup]) (by decide) (by decide)).2.2.1
-- the whole final state: only `ka` is left, stamped 20 by the latest Put (the HasOrAdd at 22 did not restart the countdown)
example : ((pre4 ++ (.put ka [3], 20) :: post4).foldl astep c0).data = [(ka, ⟨20, 10, [3]⟩)] := by decide
example : ((pre4 ++ (.put ka [3], 20) :: (post4 ++ (.sweep, 31) :: rest4)).foldl astep c0).get ka = none :=
  (cacher_gone_after_expiry_sweep c0 pre4 post4 rest4 ka [3] 20 31 (by decide) (by simp [c0, Core.new, KeysNodup]) (by decide)
    (by decide) (by decide) (by decide)).1
example : ((pre4 ++ (.clear, 7) :: rest4).foldl astep c0).has ka = false :=
  cleared_stays_absent c0 pre4 rest4 7 ka (by decide)
example : ((pre4.foldl astep c0).clear).len = 0 ∧ (pre4.foldl astep c0).len = 2 := by decide
-- Get does not check expiry: an expired entry is returned until a sweep actually runs
example : ((Core.new 10).put ka [1] 0).get ka = some [1] ∧ (((Core.new 10).put ka [1] 0).sweep 11).get ka = none := by decide
-- TimeCache / peerTimeCache
private def pre4b : List (AOp × Nat) := [(.upsert ka 2, 1), (.upsert ka 7, 2)]
private def post4b : List (AOp × Nat) := [(.sweep, 7), (.has ka, 8), (.upsert kb 3, 9), (.sweep, 10)]
private def post4c : List (AOp × Nat) := [(.sweep, 4), (.has ka, 8)]
private def mid4 : List (AOp × Nat) := [(.sweep, 24)]
-- Upsert(span 1) reading 3 on an entry of span 7: span stays 7, countdown restarts ⇒ alive until 10 (a fresh Add(span 1) would give 4)
example : (pre4b.foldl astep c0).upsertSpan ka 1 = 7 := by decide
example : ((pre4b ++ (.upsert ka 1, 3) :: post4b).foldl astep c0).has ka = true :=
  upsert_retained_max c0 pre4b post4b ka 1 3 (by decide) (by simp [c0, Core.new, KeysNodup]) (by decide) (by decide)
example : ((pre4b ++ (.upsert ka 1, 3) :: post4c).foldl astep c0).has ka = true :=
  upsert_retained c0 pre4b post4c ka 1 3 (by decide) (by simp [c0, Core.new, KeysNodup]) (by decide) (by decide)
example : ((pre4b ++ [(AOp.upsert ka 1, 3), (AOp.sweep, 11)]).foldl astep c0).has ka = false := by decide
example : ((pre4 ++ (AOp.addWithSpan ka 4, 20) :: (mid4 ++ (AOp.sweep, 25) :: [])).foldl astep c0).has ka = false :=
  timeCache_addWithSpan_gone c0 pre4 mid4 [] ka 4 20 25 (by decide) (by simp [c0, Core.new, KeysNodup]) (by decide)
    (by decide) (by decide) (by simp)
example : ((pre4 ++ (.add ka, 20) :: post4).foldl astep c0).has ka = true :=
  timeCache_add_retained c0 pre4 post4 ka 20 (by decide) (by simp [c0, Core.new, KeysNodup]) (by decide) (by decide)
-- interval run through the API, with a Clear and an empty-key Put (an error in Go, no effect)
private def bhist : List BAOp :=
  [⟨.put ka [1], 0, 3, 5⟩, ⟨.clear, 0, 0, 0⟩, ⟨.put [] [1], 6, 6, 7⟩, ⟨.hasOrAdd ka [2], 6, 8, 9⟩, ⟨.upsert kb 4, 8, 9, 12⟩,
   ⟨.sweep, 14, 15, 16⟩, ⟨.get ka, 0, 0, 0⟩]
example : ∀ b ∈ bhist, b.ok := by decide
example : has (bhist.foldl (I.astep 10) ⟨[], []⟩).must ka = true ∧ has (bhist.foldl (I.astep 10) ⟨[], []⟩).must kb = false ∧
    has (bhist.foldl (I.astep 10) ⟨[], []⟩).may kb = true := by decide
example : ((bhist.map BAOp.exact).foldl astep (Core.new 10)).has ka = true :=
  (api_interval_run_verdict bhist 10 (by decide) ka).1 (by decide)
example : NoEmptyKey ((pre4 ++ (.put [] [1], 3) :: post4).foldl astep c0) := NoEmptyKey.run _ _ (NoEmptyKey.new 10)
end examples4

end SV.TimeCache
