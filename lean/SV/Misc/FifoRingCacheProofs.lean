/-
  SV.Misc.FifoRingCacheProofs — the sharded FIFO cache over ring shards (`SV.Misc.FifoRingCache`) refines the
  age-ordered cache model `SV.Fifo.Cache` (property C20).

    invariant      `RCacheInv.init` (needs only `1 ≤ n`), `.put`, `.hasOrAdd`, `.remove`, `.clearWith`, `.clear`, `.step`
    commutation    `toCache_init`, `toCache_put`, `toCache_hasOrAdd`, `toCache_get`, `toCache_remove`, `toCache_len`,
                   `toCache_keysPerShard`, `toCache_clearWith`, `toCache_clear`   (all literal equalities)
    Clear          `clearWith_shards` / `clear_state`: the Go `Clear` (Remove key by key) leaves every slot blank, `items`
                   empty and `idxAdd` WHERE IT WAS; its abstraction is literally `Cache.clear`
    sequences      `cstep_refines`, `crun_refines`, `crun_init`
    transfer       `RCacheInv.toCacheInv`, `rcache_bound`, `rcache_put_resident`
-/
import SV.Misc.FifoRingCache
import SV.Misc.FifoRingProofs
namespace SV.Fifo
open SV

/-! ### ring level: `maxSize` is constant, `items` only grows by the key written -/

theorem advance_m (r : Ring) : r.advance.m = r.m := by
  unfold Ring.advance; split <;> rfl

theorem Ring.set_m (r : Ring) (k v : Bytes) : (r.set k v).m = r.m := by
  rw [set_eq, appendKey_eq, advance_m]

theorem Ring.setIfAbsent_m (r : Ring) (k v : Bytes) : (r.setIfAbsent k v).1.m = r.m := by
  cases hp : (alookup k r.items).isSome with
  | true => rw [Ring.setIfAbsent_present r k v hp]
  | false => rw [Ring.setIfAbsent_absent r k v hp]; exact Ring.set_m r k v

theorem Ring.remove_m (r : Ring) (k : Bytes) : (r.remove k).m = r.m := by
  unfold Ring.remove; split <;> rfl

theorem advance_items_sub (r : Ring) (x : Bytes) : x ∈ r.advance.items.map (·.1) → x ∈ r.items.map (·.1) := by
  unfold Ring.advance
  split
  · exact mem_keys_aerase _
  · exact id

theorem Ring.set_items_sub (r : Ring) (k v x : Bytes) :
    x ∈ (r.set k v).items.map (·.1) → x = k ∨ x ∈ r.items.map (·.1) := by
  rw [set_eq, appendKey_eq]
  intro h
  exact mem_keys_aset _ _ (advance_items_sub _ x h)

theorem Ring.setIfAbsent_items_sub (r : Ring) (k v x : Bytes) :
    x ∈ (r.setIfAbsent k v).1.items.map (·.1) → x = k ∨ x ∈ r.items.map (·.1) := by
  cases hp : (alookup k r.items).isSome with
  | true => rw [Ring.setIfAbsent_present r k v hp]; exact Or.inr
  | false => rw [Ring.setIfAbsent_absent r k v hp]; exact Ring.set_items_sub r k v x

theorem Ring.remove_items_sub (r : Ring) (k x : Bytes) :
    x ∈ (r.remove k).items.map (·.1) → x ∈ r.items.map (·.1) := by
  unfold Ring.remove
  split
  · exact mem_keys_aerase _
  · exact id

/-! ### removing a list of keys from one shard -/

theorem foldl_remove_refines (ks : List Bytes) : ∀ (r : Ring), RingInv r →
    RingInv (ks.foldl Ring.remove r) ∧ (ks.foldl Ring.remove r).toShard = ks.foldl Shard.remove r.toShard := by
  induction ks with
  | nil => intro r h; exact ⟨h, rfl⟩
  | cons k ks ih =>
    intro r h
    simp only [List.foldl_cons]
    rw [← toShard_remove r k h]
    exact ih _ (RingInv.remove r k h)

theorem aerase_eq_self {β : Type} (k : Bytes) (l : List (Bytes × β)) (h : (alookup k l).isSome = false) :
    aerase k l = l := by
  induction l with
  | nil => rfl
  | cons a t ih =>
    obtain ⟨k1, v1⟩ := a
    simp only [alookup] at h
    simp only [aerase]
    split at h
    · cases h
    · rename_i hne
      rw [if_neg hne, ih h]

theorem mem_aerase {β : Type} (k : Bytes) (p : Bytes × β) (l : List (Bytes × β)) :
    p ∈ aerase k l → p ∈ l ∧ p.1 ≠ k := by
  induction l with
  | nil => intro h; cases h
  | cons a t ih =>
    obtain ⟨k1, v1⟩ := a
    simp only [aerase]
    split
    · intro h; exact ⟨List.mem_cons_of_mem _ (ih h).1, (ih h).2⟩
    · rename_i hne
      intro h
      rcases List.mem_cons.mp h with h | h
      · subst h; exact ⟨List.mem_cons_self, by simpa using hne⟩
      · exact ⟨List.mem_cons_of_mem _ (ih h).1, (ih h).2⟩

theorem foldl_aerase_nil {β : Type} (ks : List Bytes) : ∀ (l : List (Bytes × β)), (∀ p ∈ l, p.1 ∈ ks) →
    ks.foldl (fun l k => aerase k l) l = [] := by
  induction ks with
  | nil =>
    intro l h
    cases l with
    | nil => rfl
    | cons a t => exact absurd (h a List.mem_cons_self) (by simp)
  | cons k ks ih =>
    intro l h
    simp only [List.foldl_cons]
    apply ih
    intro p hp
    obtain ⟨h1, h2⟩ := mem_aerase k p l hp
    rcases List.mem_cons.mp (h p h1) with h3 | h3
    · exact absurd h3 h2
    · exact h3

theorem foldl_blank_all (ks : List Bytes) : ∀ (v : List (Option Bytes)), (∀ x, some x ∈ v → x ∈ ks) →
    ks.foldl (fun v k => blank k v) v = v.map (fun _ => none) := by
  induction ks with
  | nil =>
    intro v h
    simp only [List.foldl_nil]
    symm
    rw [← List.map_id v]
    simp only [List.map_map]
    apply List.map_congr_left
    intro a ha
    cases a with
    | none => rfl
    | some x => exact absurd (h x ha) (by simp)
  | cons k ks ih =>
    intro v h
    simp only [List.foldl_cons]
    rw [ih (blank k v)]
    · simp [blank]
    · intro x hx
      obtain ⟨h1, h2⟩ := (mem_blank k x v).mp hx
      rcases List.mem_cons.mp (h x h2) with h3 | h3
      · exact absurd h3 h1
      · exact h3

/-- under the invariant `Shard.remove` blanks and erases unconditionally -/
theorem shard_remove_eq (m : Nat) (s : Shard) (k : Bytes) (h : ShardInv m s) :
    s.remove k = ⟨blank k s.view, aerase k s.vals⟩ := by
  unfold Shard.remove
  split
  · rfl
  · rename_i hp
    have hp' : (alookup k s.vals).isSome = false := by simpa using hp
    rw [blank_eq_self k s.view (fun hm => hp ((h.agree k).mpr hm)), aerase_eq_self k s.vals hp']

theorem shard_foldl_remove (m : Nat) (ks : List Bytes) : ∀ (s : Shard), ShardInv m s →
    ks.foldl Shard.remove s = ⟨ks.foldl (fun v k => blank k v) s.view, ks.foldl (fun l k => aerase k l) s.vals⟩ := by
  induction ks with
  | nil => intro s _; rfl
  | cons k ks ih =>
    intro s h
    simp only [List.foldl_cons]
    rw [ih _ (ShardInv.remove m s k h), shard_remove_eq m s k h]

/-- removing (at least) all resident keys of a shard, in any order, resets it -/
theorem shard_clear (m : Nat) (s : Shard) (ks : List Bytes) (h : ShardInv m s) (hks : ∀ x ∈ s.keys, x ∈ ks) :
    ks.foldl Shard.remove s = ⟨s.view.map (fun _ => none), []⟩ := by
  rw [shard_foldl_remove m ks s h]
  congr 1
  · apply foldl_blank_all
    intro x hx
    apply hks
    unfold Shard.keys
    rw [mem_fm, List.mem_reverse]; exact hx
  · apply foldl_aerase_nil
    intro p hp
    apply hks
    rw [keys_eq_vals m s h, alookup_isSome_iff]
    exact List.mem_map_of_mem hp

/-- the same on the ring: invariant kept, abstraction is the reset shard -/
theorem ring_clear (r : Ring) (ks : List Bytes) (h : RingInv r) (hks : ∀ x ∈ r.keys, x ∈ ks) :
    RingInv (ks.foldl Ring.remove r) ∧
    (ks.foldl Ring.remove r).toShard = ⟨r.toShard.view.map (fun _ => none), []⟩ := by
  obtain ⟨h1, h2⟩ := foldl_remove_refines ks r h
  refine ⟨h1, ?_⟩
  rw [h2]
  exact shard_clear r.m r.toShard ks h.toShardInv (by rw [← keys_eq r h.idx]; exact hks)

/-- under the invariant `Ring.remove` blanks and erases unconditionally -/
theorem ring_remove_eq (r : Ring) (k : Bytes) (h : RingInv r) :
    r.remove k = ⟨r.m, r.idxAdd, blank k r.slots, aerase k r.items⟩ := by
  cases hp : (alookup k r.items).isSome with
  | true => exact Ring.remove_present r k h.toSlotsInv hp
  | false =>
    rw [Ring.remove_absent r k hp, aerase_eq_self k r.items hp, blank_eq_self k r.slots]
    intro hm
    obtain ⟨i, hi⟩ := List.mem_iff_getElem?.mp hm
    have := h.slotItem i k hi
    rw [hp] at this; cases this

theorem ring_foldl_remove (ks : List Bytes) : ∀ (r : Ring), RingInv r →
    ks.foldl Ring.remove r
      = ⟨r.m, r.idxAdd, ks.foldl (fun v k => blank k v) r.slots, ks.foldl (fun l k => aerase k l) r.items⟩ := by
  induction ks with
  | nil => intro r _; rfl
  | cons k ks ih =>
    intro r h
    simp only [List.foldl_cons]
    rw [ih _ (RingInv.remove r k h), ring_remove_eq r k h]

/-- the concrete state of a shard after `Clear`: all slots blank, no items, `idxAdd` NOT moved -/
theorem ring_clear_state (r : Ring) (ks : List Bytes) (h : RingInv r) (hks : ∀ x ∈ r.keys, x ∈ ks) :
    ks.foldl Ring.remove r = ⟨r.m, r.idxAdd, List.replicate r.m none, []⟩ := by
  rw [ring_foldl_remove ks r h]
  have hres : ∀ x, x ∈ r.items.map (·.1) → x ∈ ks := by
    intro x hx
    apply hks
    rw [keys_resident r h]
    unfold Ring.get
    rw [Option.isSome_map, alookup_isSome_iff]; exact hx
  congr 1
  · rw [foldl_blank_all]
    · rw [← h.len]
      exact List.map_const' ..
    · intro x hx
      obtain ⟨i, hi⟩ := List.mem_iff_getElem?.mp hx
      exact hres x ((alookup_isSome_iff x r.items).mp (h.slotItem i x hi))
  · apply foldl_aerase_nil
    intro p hp
    exact hres p.1 (List.mem_map_of_mem hp)


/-! ### the cache invariant -/

theorem shardSize_pos (size n : Nat) : 1 ≤ shardSize size n := by
  unfold shardSize
  dsimp only
  generalize size / n = q
  generalize size % n = t
  split <;> split <;> omega

/-- representation invariant of the whole cache; `size` is the constructor argument (it fixes `maxSize` of the shards) -/
structure RCacheInv (size : Nat) (c : RCache) : Prop where
  len : c.shards.length = c.n
  pos : 1 ≤ c.n
  ring : ∀ r ∈ c.shards, RingInv r
  msize : ∀ r ∈ c.shards, r.m = shardSize size c.n
  /-- every key lives in the shard `GetShard` sends it to -/
  route : ∀ (i : Nat) (r : Ring), c.shards[i]? = some r → ∀ x ∈ r.items.map (·.1), fnv32 x % c.n = i

/-- the invariant holds after `NewShardedCache(size, n)` for every `size` and every `n ≥ 1` (no relation between
    `size` and `n` is needed: `cmap.New` rounds the shard size up to at least 1) -/
theorem RCacheInv.init (size n : Nat) (hn : 1 ≤ n) : RCacheInv size (RCache.init size n) where
  len := by simp [RCache.init]
  pos := hn
  ring := by
    intro r hr
    simp only [RCache.init] at hr
    rw [List.eq_of_mem_replicate hr]
    exact RingInv.init _ (shardSize_pos size n)
  msize := by
    intro r hr
    simp only [RCache.init] at hr
    rw [List.eq_of_mem_replicate hr]; rfl
  route := by
    intro i r hr x hx
    have := List.mem_of_getElem? hr
    simp only [RCache.init] at this
    rw [List.eq_of_mem_replicate this] at hx
    simp [Ring.init] at hx

theorem RCacheInv.idx_lt {size : Nat} {c : RCache} (h : RCacheInv size c) (k : Bytes) : c.idx k < c.shards.length := by
  rw [h.len]; exact Nat.mod_lt _ (by have := h.pos; omega)

theorem RCacheInv.shard_get {size : Nat} {c : RCache} (h : RCacheInv size c) (k : Bytes) :
    c.shards[c.idx k]? = some (c.shard k) := by
  unfold RCache.shard
  rw [List.getElem?_eq_getElem (h.idx_lt k)]; rfl

theorem RCacheInv.shard_mem {size : Nat} {c : RCache} (h : RCacheInv size c) (k : Bytes) : c.shard k ∈ c.shards :=
  List.mem_of_getElem? (h.shard_get k)

theorem RCacheInv.setShard {size : Nat} {c : RCache} (h : RCacheInv size c) (k : Bytes) (r : Ring)
    (hr : RingInv r) (hm : r.m = (c.shard k).m)
    (hsub : ∀ x ∈ r.items.map (·.1), x = k ∨ x ∈ (c.shard k).items.map (·.1)) :
    RCacheInv size (c.setShard k r) where
  len := by simp only [RCache.setShard, List.length_set]; exact h.len
  pos := h.pos
  ring := by
    intro t ht
    rcases List.mem_or_eq_of_mem_set ht with ht | ht
    · exact h.ring t ht
    · rw [ht]; exact hr
  msize := by
    intro t ht
    rcases List.mem_or_eq_of_mem_set ht with ht | ht
    · exact h.msize t ht
    · rw [ht, hm]; exact h.msize _ (h.shard_mem k)
  route := by
    intro i t ht x hx
    simp only [RCache.setShard, List.getElem?_set] at ht
    split at ht
    · rename_i hi
      split at ht
      · have : r = t := Option.some.inj ht
        subst this
        rcases hsub x hx with hxk | hxo
        · rw [hxk]; exact hi
        · rw [← hi]; exact h.route _ _ (h.shard_get k) x hxo
      · cases ht
    · exact h.route i t ht x hx

theorem RCacheInv.put {size : Nat} {c : RCache} (h : RCacheInv size c) (k v : Bytes) : RCacheInv size (c.put k v).1 :=
  h.setShard k _ (RingInv.set _ k v (h.ring _ (h.shard_mem k))) (Ring.set_m _ k v) (Ring.set_items_sub _ k v)

theorem RCacheInv.hasOrAdd {size : Nat} {c : RCache} (h : RCacheInv size c) (k v : Bytes) :
    RCacheInv size (c.hasOrAdd k v).1 :=
  h.setShard k _ (RingInv.setIfAbsent _ k v (h.ring _ (h.shard_mem k))) (Ring.setIfAbsent_m _ k v)
    (Ring.setIfAbsent_items_sub _ k v)

theorem RCacheInv.remove {size : Nat} {c : RCache} (h : RCacheInv size c) (k : Bytes) : RCacheInv size (c.remove k) :=
  h.setShard k _ (RingInv.remove _ k (h.ring _ (h.shard_mem k))) (Ring.remove_m _ k)
    (fun x hx => Or.inr (Ring.remove_items_sub _ k x hx))

theorem RCacheInv.clearWith {size : Nat} (ks : List Bytes) : ∀ {c : RCache}, RCacheInv size c →
    RCacheInv size (c.clearWith ks) := by
  induction ks with
  | nil => intro c h; exact h
  | cons k ks ih =>
    intro c h
    simp only [RCache.clearWith, List.foldl_cons]
    exact ih (h.remove k)

theorem RCacheInv.clear {size : Nat} {c : RCache} (h : RCacheInv size c) : RCacheInv size c.clear :=
  RCacheInv.clearWith c.keys h

/-! ### commutation with the abstraction -/

theorem toCache_init (size n : Nat) : (RCache.init size n).toCache = Cache.init size n := by
  simp only [RCache.init, RCache.toCache, Cache.init, List.map_replicate, toShard_init]

theorem toCache_shard (c : RCache) (k : Bytes) : (c.shard k).toShard = c.toCache.shard k := by
  simp only [RCache.shard, Cache.shard, RCache.toCache, Cache.idx, RCache.idx, List.getElem?_map]
  cases c.shards[fnv32 k % c.n]? with
  | none => rfl
  | some r => rfl

theorem toCache_setShard (c : RCache) (k : Bytes) (r : Ring) :
    (c.setShard k r).toCache = c.toCache.setShard k r.toShard := by
  simp only [RCache.setShard, Cache.setShard, RCache.toCache, Cache.idx, RCache.idx, List.map_set]

/-- `Put`: same cache, same notifications -/
theorem toCache_put {size : Nat} (c : RCache) (k v : Bytes) (h : RCacheInv size c) :
    (c.put k v).1.toCache = (c.toCache.put k v).1 ∧ (c.put k v).2 = (c.toCache.put k v).2 := by
  refine ⟨?_, rfl⟩
  simp only [RCache.put, Cache.put]
  rw [toCache_setShard, toShard_set _ k v (h.ring _ (h.shard_mem k)), toCache_shard]

/-- `HasOrAdd`: same cache, same `has`, same `added`, same notifications -/
theorem toCache_hasOrAdd {size : Nat} (c : RCache) (k v : Bytes) (h : RCacheInv size c) :
    ((c.hasOrAdd k v).1.toCache, (c.hasOrAdd k v).2) = c.toCache.hasOrAdd k v := by
  have hp := toShard_setIfAbsent (c.shard k) k v (h.ring _ (h.shard_mem k))
  rw [toCache_shard] at hp
  have h1 := congrArg Prod.fst hp
  have h2 := congrArg Prod.snd hp
  simp only at h1 h2
  simp only [RCache.hasOrAdd, Cache.hasOrAdd]
  rw [toCache_setShard, h1, h2]
  rfl

theorem toCache_get (c : RCache) (k : Bytes) : c.get k = c.toCache.get k := by
  unfold RCache.get Cache.get
  rw [toShard_get, toCache_shard]

theorem toCache_remove {size : Nat} (c : RCache) (k : Bytes) (h : RCacheInv size c) :
    (c.remove k).toCache = c.toCache.remove k := by
  simp only [RCache.remove, Cache.remove]
  rw [toCache_setShard, toShard_remove _ k (h.ring _ (h.shard_mem k)), toCache_shard]

theorem toCache_len (c : RCache) : c.len = c.toCache.len := by
  simp [RCache.len, Cache.len, RCache.toCache, Ring.toShard, List.map_map, Function.comp_def]

/-- `Keys()`: the same per-shard sequences, in the same order -/
theorem toCache_keysPerShard {size : Nat} (c : RCache) (h : RCacheInv size c) :
    c.keysPerShard = c.toCache.keysPerShard := by
  simp only [RCache.keysPerShard, Cache.keysPerShard, RCache.toCache, List.map_map]
  apply List.map_congr_left
  intro r hr
  exact keys_eq r (h.ring r hr).idx

/-! ### `Clear` -/

/-- `Remove` over any list of keys acts on shard `i` as the removal of the keys routed to `i`, in order -/
theorem foldl_remove_shards (ks : List Bytes) : ∀ (c : RCache),
    (ks.foldl RCache.remove c).n = c.n ∧ (ks.foldl RCache.remove c).handlers = c.handlers ∧
    ∀ i, (ks.foldl RCache.remove c).shards[i]?
      = (c.shards[i]?).map (fun r => (ks.filter (fun k => fnv32 k % c.n == i)).foldl Ring.remove r) := by
  induction ks with
  | nil =>
    intro c
    refine ⟨rfl, rfl, ?_⟩
    intro i
    simp only [List.foldl_nil, List.filter_nil]
    cases c.shards[i]? <;> rfl
  | cons k ks ih =>
    intro c
    obtain ⟨h1, h2, h3⟩ := ih (c.remove k)
    simp only [List.foldl_cons]
    refine ⟨h1, h2, ?_⟩
    intro i
    rw [h3 i]
    have hn : (c.remove k).n = c.n := rfl
    rw [hn]
    simp only [RCache.remove, RCache.setShard, List.getElem?_set, RCache.shard, List.filter_cons]
    by_cases hi : c.idx k = i
    · have hb : (fnv32 k % c.n == i) = true := by simpa [RCache.idx] using hi
      rw [if_pos hi, if_pos hb]
      subst hi
      by_cases hl : c.idx k < c.shards.length
      · rw [if_pos hl, List.getElem?_eq_getElem hl]; rfl
      · rw [if_neg hl, List.getElem?_eq_none (by omega)]; rfl
    · have hb : ¬ (fnv32 k % c.n == i) = true := by simpa [RCache.idx] using hi
      rw [if_neg hi, if_neg hb]

theorem mem_keys_of_shard {c : RCache} {i : Nat} {r : Ring} (hr : c.shards[i]? = some r) {x : Bytes}
    (hx : x ∈ r.keys) : x ∈ c.keys := by
  unfold RCache.keys RCache.keysPerShard
  rw [List.mem_flatten]
  exact ⟨r.keys, List.mem_map_of_mem (List.mem_of_getElem? hr), hx⟩

/-- the keys of shard `i` are among the keys of `ks` that are routed to `i` -/
theorem keys_routed {size : Nat} {c : RCache} (h : RCacheInv size c) (ks : List Bytes) (hks : ∀ x ∈ c.keys, x ∈ ks)
    {i : Nat} {r : Ring} (hr : c.shards[i]? = some r) :
    ∀ x ∈ r.keys, x ∈ ks.filter (fun k => fnv32 k % c.n == i) := by
  intro x hx
  rw [List.mem_filter]
  refine ⟨hks x (mem_keys_of_shard hr hx), ?_⟩
  have hres := (keys_resident r (h.ring r (List.mem_of_getElem? hr)) x).mp hx
  unfold Ring.get at hres
  rw [Option.isSome_map, alookup_isSome_iff] at hres
  simpa using h.route i r hr x hres

/-- the concrete state after the loop of `Clear`, run over ANY list `ks` that contains all resident keys (any
    interleaving `Keys()` may return, even a stale one with extra keys): every shard has all slots blank, no items,
    and its `idxAdd` where it was -/
theorem clearWith_shards {size : Nat} (c : RCache) (ks : List Bytes) (h : RCacheInv size c)
    (hks : ∀ x ∈ c.keys, x ∈ ks) :
    c.clearWith ks = ⟨c.n, c.shards.map (fun r => ⟨r.m, r.idxAdd, List.replicate r.m none, []⟩), c.handlers⟩ := by
  obtain ⟨h1, h2, h3⟩ := foldl_remove_shards ks c
  have hs : (c.clearWith ks).shards = c.shards.map (fun r => ⟨r.m, r.idxAdd, List.replicate r.m none, []⟩) := by
    apply List.ext_getElem?
    intro i
    unfold RCache.clearWith
    rw [h3 i, List.getElem?_map]
    cases hr : c.shards[i]? with
    | none => rfl
    | some r =>
      simp only [Option.map_some]
      rw [ring_clear_state r _ (h.ring r (List.mem_of_getElem? hr)) (keys_routed h ks hks hr)]
  unfold RCache.clearWith at hs ⊢
  generalize ks.foldl RCache.remove c = c' at hs h1 h2 ⊢
  cases c'; simp_all

/-- `Clear` commutes with the abstraction LITERALLY (the existing `Cache.clear` sets every view to holes and
    `vals := []`, and a view does not show `idxAdd`), for any order of the keys -/
theorem toCache_clearWith {size : Nat} (c : RCache) (ks : List Bytes) (h : RCacheInv size c)
    (hks : ∀ x ∈ c.keys, x ∈ ks) : (c.clearWith ks).toCache = c.toCache.clear := by
  rw [clearWith_shards c ks h hks]
  simp only [RCache.toCache, Cache.clear, List.map_map]
  congr 1
  apply List.map_congr_left
  intro r hr
  have hri := h.ring r hr
  have := ring_clear r r.keys hri (fun _ hx => hx)
  rw [ring_clear_state r r.keys hri (fun _ hx => hx)] at this
  exact this.2

theorem toCache_clear {size : Nat} (c : RCache) (h : RCacheInv size c) : c.clear.toCache = c.toCache.clear :=
  toCache_clearWith c c.keys h (fun _ hx => hx)

theorem clear_state {size : Nat} (c : RCache) (h : RCacheInv size c) :
    c.clear = ⟨c.n, c.shards.map (fun r => ⟨r.m, r.idxAdd, List.replicate r.m none, []⟩), c.handlers⟩ :=
  clearWith_shards c c.keys h (fun _ hx => hx)

/-! ### operation sequences -/

theorem cstep_refines {size : Nat} (c : RCache) (op : COp) (h : RCacheInv size c) :
    RCacheInv size (c.step op).1 ∧ (c.step op).1.toCache = (c.toCache.step op).1 ∧
      (c.step op).2 = (c.toCache.step op).2 := by
  cases op with
  | put k v =>
    obtain ⟨h1, h2⟩ := toCache_put c k v h
    exact ⟨h.put k v, h1, by simp only [RCache.step, Cache.step, h2]⟩
  | hasOrAdd k v =>
    have hp := toCache_hasOrAdd c k v h
    have h1 := congrArg Prod.fst hp
    have h2 := congrArg Prod.snd hp
    simp only at h1 h2
    exact ⟨h.hasOrAdd k v, h1, by simp only [RCache.step, Cache.step, h2]⟩
  | get k => exact ⟨h, rfl, by simp only [RCache.step, Cache.step, toCache_get]⟩
  | remove k => exact ⟨h.remove k, toCache_remove c k h, rfl⟩
  | clear => exact ⟨h.clear, toCache_clear c h, rfl⟩
  | len => exact ⟨h, rfl, by simp only [RCache.step, Cache.step, toCache_len]⟩
  | keys => exact ⟨h, rfl, by simp only [RCache.step, Cache.step, toCache_keysPerShard c h]⟩
  | reg id => exact ⟨⟨h.len, h.pos, h.ring, h.msize, h.route⟩, rfl, rfl⟩
  | unreg id => exact ⟨⟨h.len, h.pos, h.ring, h.msize, h.route⟩, rfl, rfl⟩

/-- any sequence of operations: the ring cache and the age-ordered cache stay related and answer identically -/
theorem crun_refines {size : Nat} (ops : List COp) : ∀ (c : RCache), RCacheInv size c →
    RCacheInv size (c.run ops).1 ∧ (c.run ops).1.toCache = (c.toCache.run ops).1 ∧
      (c.run ops).2 = (c.toCache.run ops).2 := by
  induction ops with
  | nil => intro c h; exact ⟨h, rfl, rfl⟩
  | cons op ops ih =>
    intro c h
    obtain ⟨h1, h2, h3⟩ := cstep_refines c op h
    obtain ⟨h4, h5, h6⟩ := ih (c.step op).1 h1
    simp only [RCache.run, Cache.run]
    rw [← h2, ← h3]
    exact ⟨h4, h5, by rw [h6]⟩

/-- corollary: from `NewShardedCache(size, n)`, `n ≥ 1` -/
theorem crun_init (size n : Nat) (hn : 1 ≤ n) (ops : List COp) :
    RCacheInv size ((RCache.init size n).run ops).1 ∧
    ((RCache.init size n).run ops).1.toCache = ((Cache.init size n).run ops).1 ∧
    ((RCache.init size n).run ops).2 = ((Cache.init size n).run ops).2 := by
  have := crun_refines ops (RCache.init size n) (RCacheInv.init size n hn)
  rw [toCache_init] at this
  exact this

/-! ### transfer of the cache-level C20 theorems -/

theorem RCacheInv.toCacheInv {size : Nat} {c : RCache} (h : RCacheInv size c) : CacheInv size c.toCache := by
  refine ⟨h.pos, by simp only [RCache.toCache, List.length_map]; exact h.len, ?_⟩
  intro s hs
  simp only [RCache.toCache, List.mem_map] at hs
  obtain ⟨r, hr, rfl⟩ := hs
  show ShardInv (shardSize size c.n) r.toShard
  rw [← h.msize r hr]
  exact (h.ring r hr).toShardInv

/-- C20: the ring cache never holds more than `size` entries (`size ≥ 2n`) -/
theorem rcache_bound {size : Nat} (c : RCache) (h : RCacheInv size c) (hs : 2 * c.n ≤ size) : c.len ≤ size := by
  rw [toCache_len]; exact cache_bound size c.toCache h.toCacheInv hs

/-- C20: `Put` then `Get` -/
theorem rcache_put_resident {size : Nat} (c : RCache) (k v : Bytes) (h : RCacheInv size c) (hs : 2 * c.n ≤ size) :
    (c.put k v).1.get k = some v := by
  rw [toCache_get, (toCache_put c k v h).1]
  exact put_resident size c.toCache k v h.toCacheInv hs


/-! ### non-vacuity: `NewShardedCache(5, 2)` — two shards of `shardSize 5 2 = 3` slots; keys `[1] [3] [5] [7]` are routed
    to shard 0, keys `[2] [4] [6]` to shard 1 -/

def cdemo : List COp :=
  [.reg "h", .put [1] [10], .put [2] [20], .put [3] [30], .put [1] [11], .hasOrAdd [2] [21], .hasOrAdd [4] [40],
   .put [5] [50], .remove [3], .get [1], .get [5], .len, .keys, .clear, .len, .put [6] [60], .put [7] [70], .keys]

example : shardSize 5 2 = 3 := by decide
example : [[1], [2], [3], [4], [5], [6], [7]].map (fun k => fnv32 k % 2) = [0, 1, 0, 1, 0, 1, 0] := by decide
-- state before `Clear` (13 operations) …
example : ((RCache.init 5 2).run (cdemo.take 13)).1 =
    ⟨2, [⟨3, 1, [some [5], none, some [1]], [([1], [11], 2), ([5], [50], 0)]⟩,
         ⟨3, 2, [some [2], some [4], none], [([2], [20], 0), ([4], [40], 1)]⟩], ["h"]⟩ := by decide
-- … and right after it: every slot blank, no items, `idxAdd` still 1 resp. 2 (NOT reset to 0)
example : ((RCache.init 5 2).run (cdemo.take 14)).1 =
    ⟨2, [⟨3, 1, [none, none, none], []⟩, ⟨3, 2, [none, none, none], []⟩], ["h"]⟩ := by decide
-- final state and all outputs
example : ((RCache.init 5 2).run cdemo).1 =
    ⟨2, [⟨3, 2, [none, some [7], none], [([7], [70], 1)]⟩, ⟨3, 0, [none, none, some [6]], [([6], [60], 2)]⟩], ["h"]⟩ := by
  decide
example : ((RCache.init 5 2).run cdemo).2 =
    [.unit, .put [("h", [1], [10])], .put [("h", [2], [20])], .put [("h", [3], [30])], .put [("h", [1], [11])],
     .hasOrAdd true false [], .hasOrAdd false true [("h", [4], [40])], .put [("h", [5], [50])], .unit,
     .get (some [11]), .get (some [50]), .len 4, .keys [[[1], [5]], [[2], [4]]], .unit, .len 0,
     .put [("h", [6], [60])], .put [("h", [7], [70])], .keys [[[7]], [[6]]]] := by decide
-- the ring cache and the age-ordered cache agree on this run (instance of `crun_init`)
example : ((RCache.init 5 2).run cdemo).1.toCache = ((Cache.init 5 2).run cdemo).1 := by rfl
example : ((RCache.init 5 2).run cdemo).2 = ((Cache.init 5 2).run cdemo).2 := by decide
-- the hypotheses of the theorems are met on this run, including `size ≥ 2n` of the transferred C20 theorems
example : RCacheInv 5 ((RCache.init 5 2).run cdemo).1 := (crun_init 5 2 (by decide) cdemo).1
example : 2 * ((RCache.init 5 2).run cdemo).1.n ≤ 5 := by decide
-- `Clear` with the keys in another order (the interleaving [2],[1],[4],[5]) gives the same state
example : (⟨2, [⟨3, 1, [some [5], none, some [1]], [([1], [11], 2), ([5], [50], 0)]⟩,
                ⟨3, 2, [some [2], some [4], none], [([2], [20], 0), ([4], [40], 1)]⟩], ["h"]⟩ : RCache).clearWith
      [[2], [1], [4], [5]]
    = ⟨2, [⟨3, 1, [none, none, none], []⟩, ⟨3, 2, [none, none, none], []⟩], ["h"]⟩ := by decide
-- `1 ≤ n` is needed
example : ¬ RCacheInv 5 (RCache.init 5 0) := fun h => Nat.not_succ_le_zero 0 h.pos

end SV.Fifo
