/-
  SV.Misc.UnitReal — the storage unit over the REAL cachers (C16).

  `SV.Misc.Unit` models storageUnit.Unit over an ARBITRARY cacher: every cache write takes an oracle `keep`
  (the keys that survive eviction).  Here we show that this abstraction loses nothing:

    * `Cacher` / `Cacher.Lawful` — the abstract cacher contract: a cacher is observed through
      `toMap : σ → Bytes → Option Bytes`; `put` is "write the entry, then keep some subset", `get` is a lookup
      that does not change `toMap`, `remove` erases one key, `clear` empties the map.
    * the three cachers built by the factory satisfy it:
        `capCacher vr`   — capacityLRU   (lrucache.NewCacheWithSizeInBytes),  invariant `LRU.CapInv`
        `simpleCacher`   — hashicorp LRU (lrucache.NewCache),                 invariant `LRU.SimpleInv`
        `fifoCacher S`   — FIFOShardedCache,                                  invariant `Fifo.CacheInv S`
        `lruCacher vr`   — the lrucache.lruCache wrapper over either backend
    * `RU C` — the storage unit over a real cacher `C`, operations written the way storageunit.go calls the
      cacher; `Sim` — the simulation relation with the abstract unit `U`; `RU.put_sim`, `RU.get_sim`,
      `RU.remove_sim`, `RU.clear_sim`, `RU.run_sim`: every real step is an abstract step for SOME `keep`.
    * the C16 conclusions for the real unit, derived from the theorems about `U`:
      `realUnit_run_spec`, `realUnit_coherent`, `RCoherent.step`, `realUnit_rejected_put_not_served`.
-/
import SV.Misc.UnitProofs
import SV.LRU.Proofs
import SV.Misc.FifoProofs
namespace SV.UnitReal
open SV SV.Unit

/-! ### association lists -/

section alist
variable {β : Type}

theorem alookup_cons (x k : Bytes) (v : β) (l : List (Bytes × β)) :
    alookup x ((k, v) :: l) = if x = k then some v else alookup x l := by
  by_cases h : x = k
  · subst h; simp [alookup]
  · have : ¬ ((k == x) = true) := by simpa using fun e => h e.symm
    simp [alookup, this, h]

theorem alookup_filter_ne (x k : Bytes) (l : List (Bytes × β)) :
    alookup x (l.filter (fun e => e.1 != k)) = if x = k then none else alookup x l := by
  induction l with
  | nil => simp [alookup]
  | cons a r ih =>
    obtain ⟨k1, v1⟩ := a
    rw [List.filter_cons]
    by_cases h1 : k1 = k
    · subst h1
      simp only [bne_self_eq_false, Bool.false_eq_true, if_false, ih, alookup_cons]
      by_cases hx : x = k1 <;> simp [hx]
    · have : (k1 != k) = true := by simpa using h1
      simp only [this, if_true, alookup_cons, ih]
      by_cases hx : x = k
      · subst hx
        have : x ≠ k1 := fun e => h1 e.symm
        simp [this]
      · simp [hx]

theorem alookup_append_some (x : Bytes) (w : β) (p q : List (Bytes × β)) (h : alookup x p = some w) :
    alookup x (p ++ q) = some w := by
  induction p with
  | nil => simp [alookup] at h
  | cons a r ih =>
    obtain ⟨k1, v1⟩ := a
    rw [List.cons_append, alookup_cons]
    rw [alookup_cons] at h
    split
    · rename_i hx; rw [if_pos hx] at h; exact h
    · rename_i hx; rw [if_neg hx] at h; exact ih h

theorem alookup_dropLast_some (x : Bytes) (w : β) (l : List (Bytes × β)) (h : alookup x l.dropLast = some w) :
    alookup x l = some w := by
  by_cases hl : l = []
  · subst hl; simpa using h
  · rw [← List.dropLast_concat_getLast hl]
    exact alookup_append_some x w _ _ h

theorem alookup_eq_find (x : Bytes) (l : List (Bytes × β)) :
    alookup x l = (l.find? (fun e => e.1 == x)).map (·.2) := by
  induction l with
  | nil => rfl
  | cons a r ih =>
    obtain ⟨k1, v1⟩ := a
    simp only [alookup, List.find?_cons]
    by_cases h : (k1 == x) = true
    · simp [h]
    · simp [h, ih]

theorem alookup_isSome_iff (x : Bytes) (l : List (Bytes × β)) :
    (alookup x l).isSome = true ↔ x ∈ l.map (·.1) := Fifo.alookup_isSome_iff x l

end alist

/-- the generic step from "the new map is contained in the written map" to the `keep` form used by `U.put` -/
theorem keep_form (m m' : Bytes → Option Bytes) (k v : Bytes) (keys : List Bytes)
    (hk : ∀ x, x ∈ keys ↔ (m' x).isSome = true)
    (hsub : ∀ x w, m' x = some w → (if x = k then some v else m x) = some w) :
    ∀ x, m' x = if x ∈ keys then (if x = k then some v else m x) else none := by
  intro x
  by_cases hx : x ∈ keys
  · rw [if_pos hx]
    have := (hk x).mp hx
    cases hm : m' x with
    | none => rw [hm] at this; cases this
    | some w => exact (hsub x w hm).symm
  · rw [if_neg hx]
    cases hm : m' x with
    | none => rfl
    | some w => exact absurd ((hk x).mpr (by rw [hm]; rfl)) hx

/-! ### the abstract cacher contract -/

/-- a cacher as the storage unit sees it (`types.Cacher` restricted to what storageunit.go calls), observed through
    `toMap` (resident key ↦ value) -/
structure Cacher where
  σ : Type
  Inv : σ → Prop
  toMap : σ → Bytes → Option Bytes
  keys : σ → List Bytes
  /-- `cacher.Put(key, data, len(data))` -/
  put : σ → Bytes → Bytes → σ
  get : σ → Bytes → σ × Option Bytes
  has : σ → Bytes → Bool
  remove : σ → Bytes → σ
  clear : σ → σ

/-- the contract the C16 theorems assume of the cacher -/
structure Cacher.Lawful (C : Cacher) : Prop where
  keys_spec : ∀ c x, C.Inv c → (x ∈ C.keys c ↔ (C.toMap c x).isSome = true)
  /-- Put = write the entry, then keep some subset (exactly the shape of `U.put`) -/
  put_keep : ∀ c k v, C.Inv c → ∃ keep : List Bytes,
    ∀ x, C.toMap (C.put c k v) x = if x ∈ keep then (if x = k then some v else C.toMap c x) else none
  put_inv : ∀ c k v, C.Inv c → C.Inv (C.put c k v)
  get_val : ∀ c k, C.Inv c → (C.get c k).2 = C.toMap c k
  get_map : ∀ c k x, C.Inv c → C.toMap (C.get c k).1 x = C.toMap c x
  get_inv : ∀ c k, C.Inv c → C.Inv (C.get c k).1
  has_spec : ∀ c k, C.Inv c → C.has c k = (C.toMap c k).isSome
  remove_map : ∀ c k x, C.Inv c → C.toMap (C.remove c k) x = if x = k then none else C.toMap c x
  remove_inv : ∀ c k, C.Inv c → C.Inv (C.remove c k)
  clear_map : ∀ c x, C.Inv c → C.toMap (C.clear c) x = none
  clear_inv : ∀ c, C.Inv c → C.Inv (C.clear c)

/-! ### the storage unit over a real cacher -/

/-- storageUnit.Unit over the cacher `C` and the fault-injecting persister of `SV.Unit.U` -/
structure RU (C : Cacher) where
  cache : C.σ
  db : List (Bytes × Bytes)

variable {C : Cacher}

/-- `Put`: `cacher.Put(key, data, len(data))`, then `persister.Put`; on error `cacher.Remove(key)` -/
def RU.put (u : RU C) (k v : Bytes) (fail : Bool) : RU C × Bool :=
  let c := C.put u.cache k v
  if fail then (⟨C.remove c k, u.db⟩, false) else (⟨c, aset k v u.db⟩, true)

/-- `Get`: `cacher.Get`; on a miss `persister.Get` and, if found, `cacher.Put(key, v, len(v))` -/
def RU.get (u : RU C) (k : Bytes) (fail : Bool) : RU C × Option Bytes :=
  let r := C.get u.cache k
  match r.2 with
  | some v => (⟨r.1, u.db⟩, some v)
  | none =>
    if fail then (⟨r.1, u.db⟩, none)
    else match alookup k u.db with
      | none => (⟨r.1, u.db⟩, none)
      | some v => (⟨C.put r.1 k v, u.db⟩, some v)

/-- `Has`: `cacher.Has`, else `persister.Has` -/
def RU.has (u : RU C) (k : Bytes) : Bool := C.has u.cache k || (alookup k u.db).isSome

/-- `Remove`: `cacher.Remove`, then `persister.Remove` (which may fail) -/
def RU.remove (u : RU C) (k : Bytes) (fail : Bool) : RU C × Bool :=
  if fail then (⟨C.remove u.cache k, u.db⟩, false) else (⟨C.remove u.cache k, aerase k u.db⟩, true)

/-- `ClearCache`: `cacher.Clear` -/
def RU.clearCache (u : RU C) : RU C := ⟨C.clear u.cache, u.db⟩

/-- the simulation relation: the abstract cache answers every lookup like the real cacher's `toMap`;
    the persisters are equal -/
structure Sim (u : RU C) (a : U) : Prop where
  inv : C.Inv u.cache
  cache : ∀ x, alookup x a.cache = C.toMap u.cache x
  db : a.db = u.db

/-- the abstraction FUNCTION: the association list of `toMap` over the resident keys -/
def RU.abs (u : RU C) : U :=
  ⟨(C.keys u.cache).filterMap (fun x => (C.toMap u.cache x).map (fun w => (x, w))), u.db⟩

theorem alookup_graph (m : Bytes → Option Bytes) (x : Bytes) (keys : List Bytes) :
    alookup x (keys.filterMap (fun y => (m y).map (fun w => (y, w)))) = if x ∈ keys then m x else none := by
  induction keys with
  | nil => simp [alookup]
  | cons y r ih =>
    rw [List.filterMap_cons]
    cases hy : m y with
    | none =>
      simp only [Option.map_none, ih, List.mem_cons]
      by_cases hxy : x = y
      · subst hxy
        simp only [true_or, if_true, hy]
        split <;> simp
      · simp [hxy]
    | some w =>
      simp only [Option.map_some, alookup_cons, ih, List.mem_cons]
      by_cases hxy : x = y
      · subst hxy; simp [hy]
      · simp [hxy]

theorem Sim.abs (L : C.Lawful) (u : RU C) (h : C.Inv u.cache) : Sim u u.abs := by
  refine ⟨h, ?_, rfl⟩
  intro x
  show alookup x ((C.keys u.cache).filterMap _) = _
  rw [alookup_graph]
  split
  · rfl
  · rename_i hx
    cases hm : C.toMap u.cache x with
    | none => rfl
    | some w => exact absurd ((L.keys_spec _ x h).mpr (by rw [hm]; rfl)) hx

/-- lookups in the abstract cache after "write, then keep" -/
theorem alookup_written (keep : List Bytes) (k v x : Bytes) (c : List (Bytes × Bytes)) :
    alookup x (restrict keep (aset k v c)) = if x ∈ keep then (if x = k then some v else alookup x c) else none := by
  rw [alookup_restrict]
  by_cases hx : x ∈ keep
  · have : keep.contains x = true := List.contains_iff_mem.mpr hx
    rw [this, if_pos rfl, if_pos hx]
    by_cases hxk : x = k
    · subst hxk; rw [alookup_aset_self, if_pos rfl]
    · rw [alookup_aset_ne hxk, if_neg hxk]
  · have : ¬ (keep.contains x = true) := fun e => hx (List.contains_iff_mem.mp e)
    rw [if_neg this, if_neg hx]

/-- SIMULATION, Put: the real Put is the abstract Put for some eviction oracle `keep` -/
theorem RU.put_sim (L : C.Lawful) (u : RU C) (a : U) (h : Sim u a) (k v : Bytes) (fail : Bool) :
    ∃ keep, Sim (u.put k v fail).1 (a.put k v fail keep).1 ∧ (u.put k v fail).2 = (a.put k v fail keep).2 := by
  obtain ⟨keep, hkeep⟩ := L.put_keep u.cache k v h.inv
  have hinv := L.put_inv u.cache k v h.inv
  refine ⟨keep, ?_, ?_⟩
  · cases fail with
    | true =>
      refine ⟨L.remove_inv _ k hinv, ?_, h.db⟩
      intro x
      show alookup x (aerase k (restrict keep (aset k v a.cache))) = C.toMap (C.remove (C.put u.cache k v) k) x
      rw [L.remove_map _ k x hinv]
      by_cases hxk : x = k
      · subst hxk; rw [alookup_aerase_self, if_pos rfl]
      · rw [alookup_aerase_ne hxk, if_neg hxk, alookup_written, hkeep x, h.cache x]
    | false =>
      refine ⟨hinv, ?_, ?_⟩
      · intro x
        show alookup x (restrict keep (aset k v a.cache)) = C.toMap (C.put u.cache k v) x
        rw [alookup_written, hkeep x, h.cache x]
      · show aset k v a.db = aset k v u.db
        rw [h.db]
  · cases fail <;> rfl

theorem RU.get_hit (u : RU C) (k : Bytes) (fail : Bool) (w : Bytes) (hg : (C.get u.cache k).2 = some w) :
    u.get k fail = (⟨(C.get u.cache k).1, u.db⟩, some w) := by
  simp only [RU.get, hg]

theorem RU.get_miss_fail (u : RU C) (k : Bytes) (hg : (C.get u.cache k).2 = none) :
    u.get k true = (⟨(C.get u.cache k).1, u.db⟩, none) := by
  simp only [RU.get, hg, if_true]

theorem RU.get_miss_none (u : RU C) (k : Bytes) (hg : (C.get u.cache k).2 = none) (hd : alookup k u.db = none) :
    u.get k false = (⟨(C.get u.cache k).1, u.db⟩, none) := by
  simp only [RU.get, hg, hd, Bool.false_eq_true, if_false]

theorem RU.get_miss_some (u : RU C) (k : Bytes) (w : Bytes) (hg : (C.get u.cache k).2 = none)
    (hd : alookup k u.db = some w) :
    u.get k false = (⟨C.put (C.get u.cache k).1 k w, u.db⟩, some w) := by
  simp only [RU.get, hg, hd, Bool.false_eq_true, if_false]

theorem U.get_hit (a : U) (k : Bytes) (fail : Bool) (keep : List Bytes) (w : Bytes) (hg : alookup k a.cache = some w) :
    a.get k fail keep = (a, some w) := by
  simp only [U.get, hg]

theorem U.get_miss_fail (a : U) (k : Bytes) (keep : List Bytes) (hg : alookup k a.cache = none) :
    a.get k true keep = (a, none) := by
  simp only [U.get, hg, if_true]

theorem U.get_miss_none (a : U) (k : Bytes) (keep : List Bytes) (hg : alookup k a.cache = none)
    (hd : alookup k a.db = none) : a.get k false keep = (a, none) := by
  simp only [U.get, hg, hd, Bool.false_eq_true, if_false]

theorem U.get_miss_some (a : U) (k : Bytes) (keep : List Bytes) (w : Bytes) (hg : alookup k a.cache = none)
    (hd : alookup k a.db = some w) :
    a.get k false keep = ({ a with cache := restrict keep (aset k w a.cache) }, some w) := by
  simp only [U.get, hg, hd, Bool.false_eq_true, if_false]

/-- SIMULATION, Get: same answer, and the real state after is the abstract state after for some `keep` -/
theorem RU.get_sim (L : C.Lawful) (u : RU C) (a : U) (h : Sim u a) (k : Bytes) (fail : Bool) :
    ∃ keep, Sim (u.get k fail).1 (a.get k fail keep).1 ∧ (u.get k fail).2 = (a.get k fail keep).2 := by
  have hval := L.get_val u.cache k h.inv
  have hinv := L.get_inv u.cache k h.inv
  have hmap := fun x => L.get_map u.cache k x h.inv
  have hsame : Sim (⟨(C.get u.cache k).1, u.db⟩ : RU C) a :=
    ⟨hinv, fun x => by rw [h.cache x]; exact (hmap x).symm, h.db⟩
  have hc := h.cache k
  cases hg : (C.get u.cache k).2 with
  | some w =>
    have ha : alookup k a.cache = some w := by rw [hc, ← hval, hg]
    refine ⟨[], ?_⟩
    rw [RU.get_hit u k fail w hg, U.get_hit a k fail [] w ha]
    exact ⟨hsame, rfl⟩
  | none =>
    have ha : alookup k a.cache = none := by rw [hc, ← hval, hg]
    cases fail with
    | true =>
      refine ⟨[], ?_⟩
      rw [RU.get_miss_fail u k hg, U.get_miss_fail a k [] ha]
      exact ⟨hsame, rfl⟩
    | false =>
      cases hd : alookup k u.db with
      | none =>
        refine ⟨[], ?_⟩
        rw [RU.get_miss_none u k hg hd, U.get_miss_none a k [] ha (by rw [h.db]; exact hd)]
        exact ⟨hsame, rfl⟩
      | some w =>
        obtain ⟨keep, hkeep⟩ := L.put_keep (C.get u.cache k).1 k w hinv
        refine ⟨keep, ?_⟩
        rw [RU.get_miss_some u k w hg hd, U.get_miss_some a k keep w ha (by rw [h.db]; exact hd)]
        refine ⟨⟨L.put_inv _ k w hinv, ?_, h.db⟩, rfl⟩
        intro x
        show alookup x (restrict keep (aset k w a.cache)) = C.toMap (C.put (C.get u.cache k).1 k w) x
        rw [alookup_written, hkeep x, hmap x, h.cache x]

theorem RU.has_sim (L : C.Lawful) (u : RU C) (a : U) (h : Sim u a) (k : Bytes) : u.has k = a.has k := by
  unfold RU.has U.has
  rw [L.has_spec u.cache k h.inv, h.cache k, h.db]

/-- SIMULATION, Remove -/
theorem RU.remove_sim (L : C.Lawful) (u : RU C) (a : U) (h : Sim u a) (k : Bytes) (fail : Bool) :
    Sim (u.remove k fail).1 (a.remove k fail).1 ∧ (u.remove k fail).2 = (a.remove k fail).2 := by
  have hc : ∀ x, alookup x (aerase k a.cache) = C.toMap (C.remove u.cache k) x := by
    intro x
    rw [L.remove_map _ k x h.inv]
    by_cases hxk : x = k
    · subst hxk; rw [alookup_aerase_self, if_pos rfl]
    · rw [alookup_aerase_ne hxk, if_neg hxk, h.cache x]
  cases fail with
  | true => exact ⟨⟨L.remove_inv _ k h.inv, hc, h.db⟩, rfl⟩
  | false =>
    refine ⟨⟨L.remove_inv _ k h.inv, hc, ?_⟩, rfl⟩
    show aerase k a.db = aerase k u.db
    rw [h.db]

/-- SIMULATION, ClearCache -/
theorem RU.clear_sim (L : C.Lawful) (u : RU C) (a : U) (h : Sim u a) : Sim u.clearCache a.clearCache := by
  refine ⟨L.clear_inv _ h.inv, ?_, h.db⟩
  intro x
  show alookup x [] = C.toMap (C.clear u.cache) x
  rw [L.clear_map _ x h.inv]
  rfl

/-! ### histories -/

/-- operations of the real unit: as `SV.Unit.Op` but WITHOUT the eviction oracle — the cacher decides -/
inductive ROp where
  | put (k v : Bytes) (fail : Bool)
  | get (k : Bytes) (fail : Bool)
  | rm (k : Bytes) (fail : Bool)
  | clearCache

def RU.step (u : RU C) : ROp → RU C
  | .put k v f => (u.put k v f).1
  | .get k f => (u.get k f).1
  | .rm k f => (u.remove k f).1
  | .clearCache => u.clearCache

/-- forget the oracle -/
def eraseOp : Op → ROp
  | .put k v f _ => .put k v f
  | .get k f _ => .get k f
  | .rm k f => .rm k f
  | .clearCache => .clearCache

/-- the map of acknowledged writes -/
def rackStep (m : Bytes → Option Bytes) : ROp → (Bytes → Option Bytes)
  | .put k v false => fun x => if x = k then some v else m x
  | .rm k false => fun x => if x = k then none else m x
  | _ => m

theorem ackStep_erase (m : Bytes → Option Bytes) (op : Op) : ackStep m op = rackStep m (eraseOp op) := by
  cases op with
  | put k v f keep => cases f <;> rfl
  | get k f keep => rfl
  | rm k f => cases f <;> rfl
  | clearCache => rfl

theorem ack_run_erase (aops : List Op) : ∀ m : Bytes → Option Bytes,
    aops.foldl ackStep m = (aops.map eraseOp).foldl rackStep m := by
  induction aops with
  | nil => intro m; rfl
  | cons op r ih =>
    intro m
    simp only [List.foldl_cons, List.map_cons]
    rw [ackStep_erase, ih]

/-- SIMULATION, one step: there is an abstract operation, equal to the real one up to the oracle -/
theorem RU.step_sim (L : C.Lawful) (u : RU C) (a : U) (h : Sim u a) (rop : ROp) :
    ∃ op, eraseOp op = rop ∧ Sim (u.step rop) (a.step op) := by
  cases rop with
  | put k v f =>
    obtain ⟨keep, hs, _⟩ := RU.put_sim L u a h k v f
    exact ⟨.put k v f keep, rfl, hs⟩
  | get k f =>
    obtain ⟨keep, hs, _⟩ := RU.get_sim L u a h k f
    exact ⟨.get k f keep, rfl, hs⟩
  | rm k f => exact ⟨.rm k f, rfl, (RU.remove_sim L u a h k f).1⟩
  | clearCache => exact ⟨.clearCache, rfl, RU.clear_sim L u a h⟩

/-- SIMULATION, whole histories: every history of the real unit is a history of the abstract unit for some
    choice of the eviction oracles -/
theorem RU.run_sim (L : C.Lawful) (rops : List ROp) : ∀ (u : RU C) (a : U), Sim u a →
    ∃ aops : List Op, aops.map eraseOp = rops ∧ Sim (rops.foldl RU.step u) (aops.foldl U.step a) := by
  induction rops with
  | nil => intro u a h; exact ⟨[], rfl, h⟩
  | cons rop r ih =>
    intro u a h
    obtain ⟨op, he, hs⟩ := RU.step_sim L u a h rop
    obtain ⟨aops, hm, hs'⟩ := ih _ _ hs
    refine ⟨op :: aops, ?_, ?_⟩
    · simp only [List.map_cons, he, hm]
    · simpa only [List.foldl_cons] using hs'

/-! ### the C16 conclusions for the real unit -/

/-- the real cacher never serves a value different from what the persister logically holds -/
def RCoherent (u : RU C) : Prop := ∀ k v, C.toMap u.cache k = some v → alookup k u.db = some v

theorem Sim.coherent_iff {u : RU C} {a : U} (h : Sim u a) : Coherent a ↔ RCoherent u := by
  unfold Coherent RCoherent
  constructor
  · intro hc k v hk
    rw [← h.db]; exact hc k v (by rw [h.cache k]; exact hk)
  · intro hc k v hk
    rw [h.db]; exact hc k v (by rw [← h.cache k]; exact hk)

/-- a fresh unit: an empty cacher in front of an empty persister -/
def RU.init (c0 : C.σ) : RU C := ⟨c0, []⟩

theorem Sim.init (c0 : C.σ) (h0 : C.Inv c0) (he : ∀ x, C.toMap c0 x = none) : Sim (RU.init c0 : RU C) U.init :=
  ⟨h0, fun x => (he x).symm, rfl⟩

/-- C16 for the real unit: after ANY history (the evictions being whatever the real cacher does, any persister
    faults) the unit is coherent, and Get (healthy persister) and Has answer exactly like the map of
    acknowledged writes -/
theorem realUnit_run_spec (L : C.Lawful) (c0 : C.σ) (h0 : C.Inv c0) (he : ∀ x, C.toMap c0 x = none)
    (rops : List ROp) (k : Bytes) :
    let u := rops.foldl RU.step (RU.init c0 : RU C)
    C.Inv u.cache ∧ RCoherent u ∧ (u.get k false).2 = (rops.foldl rackStep (fun _ => none)) k ∧
      u.has k = ((rops.foldl rackStep (fun _ => none)) k).isSome := by
  intro u
  obtain ⟨aops, hm, hs⟩ := RU.run_sim L rops (RU.init c0) U.init (Sim.init c0 h0 he)
  obtain ⟨keep, _, hget⟩ := RU.get_sim L u _ hs k false
  obtain ⟨hc, hg, hh⟩ := run_spec aops k keep
  rw [ack_run_erase, hm] at hg hh
  exact ⟨hs.inv, hs.coherent_iff.mp hc, hget.trans hg, (RU.has_sim L u _ hs k).trans hh⟩

/-- C16 (`Coherent`-analogue): for every resident key the cached value is the persister's value -/
theorem realUnit_coherent (L : C.Lawful) (c0 : C.σ) (h0 : C.Inv c0) (he : ∀ x, C.toMap c0 x = none)
    (rops : List ROp) : RCoherent (rops.foldl RU.step (RU.init c0 : RU C)) :=
  (realUnit_run_spec L c0 h0 he rops []).2.1

/-- coherence is inductive from ANY coherent state (not only along histories from the empty unit) -/
theorem RCoherent.step (L : C.Lawful) (u : RU C) (rop : ROp) (hi : C.Inv u.cache) (h : RCoherent u) :
    C.Inv (u.step rop).cache ∧ RCoherent (u.step rop) := by
  have hs := Sim.abs L u hi
  obtain ⟨op, _, hs'⟩ := RU.step_sim L u _ hs rop
  have hc : Coherent (u.abs.step op) := by
    have h0 := hs.coherent_iff.mpr h
    cases op with
    | put k v f keep => exact Coherent.put _ k v f keep h0
    | get k f keep => exact Coherent.get _ k f keep h0
    | rm k f => exact Coherent.remove _ k f h0
    | clearCache => exact Coherent.clearCache _ h0
  exact ⟨hs'.inv, hs'.coherent_iff.mp hc⟩

/-- Get with a healthy persister answers like the persister, from any coherent state -/
theorem realUnit_get_spec (L : C.Lawful) (u : RU C) (k : Bytes) (hi : C.Inv u.cache) (h : RCoherent u) :
    (u.get k false).2 = alookup k u.db := by
  have hs := Sim.abs L u hi
  obtain ⟨keep, _, hg⟩ := RU.get_sim L u _ hs k false
  rw [hg, get_spec _ k keep (hs.coherent_iff.mpr h)]
  rfl

theorem realUnit_has_spec (L : C.Lawful) (u : RU C) (k : Bytes) (hi : C.Inv u.cache) (h : RCoherent u) :
    u.has k = (alookup k u.db).isSome := by
  have hs := Sim.abs L u hi
  rw [RU.has_sim L u _ hs k, has_spec _ k (hs.coherent_iff.mpr h)]
  rfl

/-- a Put rejected by the persister is not served afterwards: the next Get falls through to the old state -/
theorem realUnit_rejected_put_not_served (L : C.Lawful) (u : RU C) (k v : Bytes) (hi : C.Inv u.cache)
    (h : RCoherent u) : ((u.put k v true).1.get k false).2 = alookup k u.db := by
  have hs := Sim.abs L u hi
  obtain ⟨keep, hs1, _⟩ := RU.put_sim L u _ hs k v true
  obtain ⟨keep', _, hg⟩ := RU.get_sim L _ _ hs1 k false
  rw [hg, rejected_put_not_served _ k v keep keep' (hs.coherent_iff.mpr h)]
  rfl

/-- …and an acknowledged Put is served, whatever the cacher evicted -/
theorem realUnit_acked_put_served (L : C.Lawful) (u : RU C) (k v : Bytes) (hi : C.Inv u.cache)
    (h : RCoherent u) : ((u.put k v false).1.get k false).2 = some v := by
  obtain ⟨hi', h'⟩ := RCoherent.step L u (.put k v false) hi h
  have := realUnit_get_spec L (u.put k v false).1 k hi' h'
  rw [this]
  show alookup k (aset k v u.db) = some v
  exact alookup_aset_self k v u.db

/-! ## the real cachers satisfy the contract -/

/-! ### capacityLRU (`lrucache.NewCacheWithSizeInBytes`) -/

namespace CapC
open SV.LRU

def pairs (l : List Entry) : List (Bytes × Bytes) := l.map (fun e => (e.key, e.val))

/-- resident key ↦ value -/
def toMap (c : Cap) : Bytes → Option Bytes := fun x => alookup x (pairs c.entries)

theorem alookup_pairs (x : Bytes) (l : List Entry) :
    alookup x (pairs l) = (l.find? (fun e => e.key == x)).map (·.val) := by
  induction l with
  | nil => rfl
  | cons a r ih =>
    simp only [pairs, List.map_cons, alookup, List.find?_cons] at ih ⊢
    by_cases h : (a.key == x) = true
    · simp [h]
    · simp [h, ih]

/-- `toMap` is what the model's non-mutating read `Peek` returns -/
theorem toMap_eq_peek (c : Cap) (x : Bytes) : toMap c x = c.peek x := alookup_pairs x c.entries

theorem pairs_filter (k : Bytes) (l : List Entry) :
    pairs (l.filter (fun e => e.key != k)) = (pairs l).filter (fun e => e.1 != k) := by
  induction l with
  | nil => rfl
  | cons a r ih =>
    simp only [pairs, List.map_cons, List.filter_cons] at ih ⊢
    by_cases h : (a.key != k) = true
    · simp [h, ih]
    · simp [h, ih]

theorem pairs_append (a b : List Entry) : pairs (a ++ b) = pairs a ++ pairs b := by simp [pairs]

theorem mem_keys_iff (c : Cap) (x : Bytes) : x ∈ c.keys ↔ (toMap c x).isSome = true := by
  unfold toMap
  rw [alookup_isSome_iff]
  simp [Cap.keys, pairs]

/-- the cache right after the write and before the final eviction, for BOTH variants (the legacy `update` has
    already evicted silently): a non-empty prefix of `(k,v,size) :: (entries without k)` -/
theorem core_prefix (vr : Variant) (c : Cap) (k v : Bytes) (size : Int) (h : CapInv c) (hs : 0 ≤ size) :
    ∃ q, (⟨k, v, size⟩ : Entry) :: c.entries.filter (fun e => e.key != k) = (c.addSizedCore vr k v size).entries ++ q ∧
      (c.addSizedCore vr k v size).entries ≠ [] ∧
      (c.addSizedCore vr k v size).bytes = sumSizes (c.addSizedCore vr k v size).entries := by
  unfold Cap.addSizedCore
  rw [if_neg (by omega)]
  cases hk : c.has k with
  | true =>
    obtain ⟨old, hfind, _, _⟩ := has_find c k hk
    obtain ⟨_, hsum⟩ := filter_find_facts k c.entries old h.keysNodup hfind
    simp only [if_true, Cap.update, hfind]
    have hb1 : c.bytes + (size - old.size) =
        sumSizes ((⟨k, v, size⟩ : Entry) :: c.entries.filter (fun e => e.key != k)) := by
      rw [sumSizes_cons, h.bytes]
      show sumSizes c.entries + (size - old.size) = size + sumSizes (c.entries.filter (fun e => e.key != k))
      omega
    cases hv : vr.updateEvictsSilently with
    | false =>
      simp only [Bool.false_eq_true, if_false]
      exact ⟨[], by simp, by simp, hb1⟩
    | true =>
      simp only [if_true]
      let c1 : Cap := { c with entries := ⟨k, v, size⟩ :: c.entries.filter (fun e => e.key != k),
                               bytes := c.bytes + (size - old.size) }
      obtain ⟨h1, h2, _, _⟩ := evictIfNeeded_split c1 hb1
      obtain ⟨_, h3⟩ := evictIfNeeded_fits c1 hb1
      exact ⟨_, h1, h3 (by simp [c1]), h2⟩
  | false =>
    obtain ⟨_, hne⟩ := has_false c k hk
    have hf : c.entries.filter (fun e => e.key != k) = c.entries := by
      rw [List.filter_eq_self]
      intro a ha
      simpa using hne a ha
    simp only [Bool.false_eq_true, if_false, Cap.addNew, hf]
    refine ⟨[], by simp, by simp, ?_⟩
    rw [sumSizes_cons, h.bytes]
    show sumSizes c.entries + size = size + sumSizes c.entries
    omega

/-- shape of the cache after `AddSized` with a valid size, for both variants: the written entry in front, followed
    by a prefix of the other old entries (in their old order); the invariant is kept -/
theorem addSized_shape (vr : Variant) (c : Cap) (k v : Bytes) (size : Int) (h : CapInv c) (hs : 0 ≤ size) :
    ∃ p q, (c.addSized vr k v size).1.entries = ⟨k, v, size⟩ :: p ∧
      c.entries.filter (fun e => e.key != k) = p ++ q ∧ CapInv (c.addSized vr k v size).1 := by
  obtain ⟨q1, h1, hne1, hb1⟩ := core_prefix vr c k v size h hs
  have hres : (c.addSized vr k v size).1 = ((c.addSizedCore vr k v size).evictIfNeeded).1 := rfl
  rw [hres]
  obtain ⟨h2, _, _, _⟩ := evictIfNeeded_split _ hb1
  obtain ⟨_, hne2⟩ := evictIfNeeded_fits _ hb1
  have hL : (⟨k, v, size⟩ : Entry) :: c.entries.filter (fun e => e.key != k) =
      ((c.addSizedCore vr k v size).evictIfNeeded).1.entries ++
        (((c.addSizedCore vr k v size).evictIfNeeded).2.reverse ++ q1) := by
    rw [← List.append_assoc, ← h2]; exact h1
  obtain ⟨p, hp, hrest⟩ := head_of_prefix _ _ _ _ hL (hne2 hne1)
  refine ⟨p, _, hp, hrest, ?_⟩
  -- the invariant: the pre-eviction list is a prefix of a list with distinct keys and non-negative sizes
  have hsub : (c.addSizedCore vr k v size).entries.Sublist
      ((⟨k, v, size⟩ : Entry) :: c.entries.filter (fun e => e.key != k)) := by
    rw [h1]; exact List.sublist_append_left _ _
  apply CapInv.evict _ _ _ hb1
  · refine List.Nodup.sublist (List.Sublist.map _ hsub) ?_
    simp only [List.map_cons, List.nodup_cons]
    exact ⟨not_mem_filter_keys k _, filter_keys_nodup k _ h.keysNodup⟩
  · intro e he
    rcases List.mem_cons.mp (hsub.subset he) with rfl | he
    · exact hs
    · exact h.sizes e (List.mem_filter.mp he).1

/-- 1 (capacityLRU): Put with any size ≥ 0 (the unit passes `len(data)`) is "write, then keep a subset", for both
    variants; the written key itself is ALWAYS kept (even with `size > maxBytes` or `cap = 0`: `shouldEvict` never
    removes the last entry) -/
theorem put_is_keep_subset (vr : Variant) (c : Cap) (k v : Bytes) (size : Int) (h : CapInv c) (hs : 0 ≤ size) :
    CapInv (c.addSized vr k v size).1 ∧ ∃ keep : List Bytes, k ∈ keep ∧
      ∀ x, toMap (c.addSized vr k v size).1 x = if x ∈ keep then (if x = k then some v else toMap c x) else none := by
  obtain ⟨p, q, hp, hrest, hinv⟩ := addSized_shape vr c k v size h hs
  refine ⟨hinv, (c.addSized vr k v size).1.keys, ?_, ?_⟩
  · rw [mem_keys_iff]
    unfold toMap
    rw [hp]
    simp [pairs, alookup]
  · apply keep_form _ _ k v _ (mem_keys_iff _)
    intro x w hx
    unfold toMap at hx ⊢
    rw [hp] at hx
    have hx2 : alookup x (pairs ((⟨k, v, size⟩ : Entry) :: p) ++ pairs q) = some w := alookup_append_some x w _ _ hx
    rw [← pairs_append, List.cons_append, ← hrest] at hx2
    have : pairs ((⟨k, v, size⟩ : Entry) :: c.entries.filter (fun e => e.key != k)) =
        (k, v) :: (pairs c.entries).filter (fun e => e.1 != k) := by
      rw [← pairs_filter]; rfl
    rw [this, alookup_cons, alookup_filter_ne] at hx2
    by_cases hxk : x = k
    · rw [if_pos hxk] at hx2 ⊢; exact hx2
    · rw [if_neg hxk, if_neg hxk] at hx2; rw [if_neg hxk]; exact hx2

/-- a negative size is rejected (the unit never passes one): the cache is unchanged, so the Put is NOT of the
    "write then keep" form when the key was resident with another value -/
theorem negative_size_counterexample :
    let c : Cap := (Cap.init 2 100).addNew [1] [7] 1
    CapInv c ∧ toMap (c.addSized Variant.current [1] [9] (-1)).1 [1] = some [7] := by
  refine ⟨⟨by decide, by decide, by decide, Or.inl (by decide)⟩, by decide⟩

/-- 2 (capacityLRU): Get returns `toMap c k` and changes `toMap` nowhere -/
theorem get_is_lookup (c : Cap) (k : Bytes) :
    (c.get k).2 = toMap c k ∧ ∀ x, toMap (c.get k).1 x = toMap c x := by
  unfold Cap.get
  cases hf : c.find k with
  | none =>
    refine ⟨?_, fun x => rfl⟩
    show none = toMap c k
    rw [toMap_eq_peek, Cap.peek, hf]; rfl
  | some e =>
    have hek : e.key = k := by simpa using List.find?_some hf
    have hk : toMap c k = some e.val := by rw [toMap_eq_peek, Cap.peek, hf]; rfl
    refine ⟨hk.symm, ?_⟩
    intro x
    show alookup x (pairs (e :: c.entries.filter (fun e => e.key != k))) = toMap c x
    have : pairs (e :: c.entries.filter (fun e => e.key != k)) =
        (k, e.val) :: (pairs c.entries).filter (fun e => e.1 != k) := by
      rw [← pairs_filter, ← hek]; rfl
    rw [this, alookup_cons, alookup_filter_ne]
    by_cases hxk : x = k
    · subst hxk; rw [if_pos rfl, hk]
    · rw [if_neg hxk, if_neg hxk]; rfl

theorem has_is_lookup (c : Cap) (k : Bytes) : c.has k = (toMap c k).isSome := by
  rw [toMap_eq_peek, peek_has_no_effect]

/-- 3 (capacityLRU): Remove erases exactly the key -/
theorem remove_is_erase (c : Cap) (k x : Bytes) :
    toMap (c.remove k).1 x = if x = k then none else toMap c x := by
  unfold Cap.remove
  cases hf : c.find k with
  | none =>
    show toMap c x = _
    by_cases hxk : x = k
    · subst hxk; rw [if_pos rfl, toMap_eq_peek, Cap.peek, hf]; rfl
    · rw [if_neg hxk]
  | some e =>
    show alookup x (pairs (c.entries.filter (fun e => e.key != k))) = _
    rw [pairs_filter, alookup_filter_ne]; rfl

/-- 3 (capacityLRU): Clear (Purge) empties the map -/
theorem clear_is_empty (c : Cap) (x : Bytes) : toMap c.purge x = none := rfl

end CapC

/-- capacityLRU as the storage unit uses it: `Put(key, data, len(data))` -/
def capCacher (vr : LRU.Variant) : Cacher where
  σ := LRU.Cap
  Inv := LRU.CapInv
  toMap := CapC.toMap
  keys := LRU.Cap.keys
  put := fun c k v => (c.addSized vr k v (v.length : Int)).1
  get := LRU.Cap.get
  has := LRU.Cap.has
  remove := fun c k => (c.remove k).1
  clear := LRU.Cap.purge

theorem capCacher_lawful (vr : LRU.Variant) : (capCacher vr).Lawful where
  keys_spec := fun c x _ => CapC.mem_keys_iff c x
  put_keep := fun c k v h => by
    obtain ⟨_, keep, _, hk⟩ := CapC.put_is_keep_subset vr c k v (v.length : Int) h (Int.natCast_nonneg _)
    exact ⟨keep, hk⟩
  put_inv := fun c k v h => (CapC.put_is_keep_subset vr c k v (v.length : Int) h (Int.natCast_nonneg _)).1
  get_val := fun c k _ => (CapC.get_is_lookup c k).1
  get_map := fun c k x _ => (CapC.get_is_lookup c k).2 x
  get_inv := fun c k h => LRU.CapInv.get c k h
  has_spec := fun c k _ => CapC.has_is_lookup c k
  remove_map := fun c k x _ => CapC.remove_is_erase c k x
  remove_inv := fun c k h => LRU.CapInv.remove c k h
  clear_map := fun c x _ => CapC.clear_is_empty c x
  clear_inv := fun c _ => LRU.CapInv.purge c

/-! ### hashicorp simplelru (`lrucache.NewCache`) -/

namespace SimpleC
open SV.LRU

/-- resident key ↦ value -/
def toMap (c : Simple) : Bytes → Option Bytes := fun x => alookup x c.entries

/-- `Purge` (through `lruCache.Clear`), as in `LRU.Cache.clear` -/
def clear (c : Simple) : Simple := { c with entries := [] }

theorem toMap_eq_peek (c : Simple) (x : Bytes) : toMap c x = c.peek x := alookup_eq_find x c.entries

theorem mem_keys_iff (c : Simple) (x : Bytes) : x ∈ c.keys ↔ (toMap c x).isSome = true := by
  unfold toMap
  rw [alookup_isSome_iff]
  simp [Simple.keys]

theorem has_is_lookup (c : Simple) (k : Bytes) : c.has k = (toMap c k).isSome := by
  rw [Bool.eq_iff_iff]
  unfold toMap
  rw [alookup_isSome_iff]
  simp [Simple.has]

/-- after `Add` the list is a prefix of `(k,v) :: (entries without k)` -/
theorem add_prefix (c : Simple) (k v : Bytes) :
    ∃ q, (k, v) :: c.entries.filter (fun e => e.1 != k) = (c.add k v).1.entries ++ q := by
  unfold Simple.add
  cases hk : c.has k with
  | true => exact ⟨[], by simp⟩
  | false =>
    have hnm := Simple.has_false c k hk
    have hf : c.entries.filter (fun e => e.1 != k) = c.entries := by
      rw [List.filter_eq_self]
      intro a ha
      simp only [bne_iff_ne, ne_eq]
      intro hak
      exact hnm (by rw [← hak]; exact List.mem_map_of_mem ha)
    simp only [Bool.false_eq_true, if_false, hf]
    split
    · refine ⟨[((k, v) :: c.entries).getLast (by simp)], ?_⟩
      exact (List.dropLast_concat_getLast (by simp)).symm
    · exact ⟨[], by simp⟩

theorem add_inv (c : Simple) (k v : Bytes) (h : SimpleInv c) : SimpleInv (c.add k v).1 := by
  by_cases hc : 1 ≤ c.cap
  · exact SimpleInv.add c k v h hc
  · have hb := h.bound
    have he : c.entries = [] := List.eq_nil_of_length_eq_zero (by omega)
    have hk : c.has k = false := by simp [Simple.has, he]
    unfold Simple.add
    simp only [hk, Bool.false_eq_true, if_false, he, List.length_cons, List.length_nil]
    rw [if_pos (by omega)]
    exact ⟨by simp, by simp⟩

/-- 1 (hashicorp LRU): Put is "write, then keep a subset"; the invariant is kept -/
theorem put_is_keep_subset (c : Simple) (k v : Bytes) (h : SimpleInv c) :
    SimpleInv (c.add k v).1 ∧ ∃ keep : List Bytes,
      ∀ x, toMap (c.add k v).1 x = if x ∈ keep then (if x = k then some v else toMap c x) else none := by
  refine ⟨add_inv c k v h, (c.add k v).1.keys, ?_⟩
  apply keep_form _ _ k v _ (mem_keys_iff _)
  intro x w hx
  obtain ⟨q, hq⟩ := add_prefix c k v
  unfold toMap at hx ⊢
  have hx2 := alookup_append_some x w _ q hx
  rw [← hq, alookup_cons, alookup_filter_ne] at hx2
  by_cases hxk : x = k
  · rw [if_pos hxk] at hx2 ⊢; exact hx2
  · rw [if_neg hxk, if_neg hxk] at hx2; rw [if_neg hxk]; exact hx2

/-- …the written key itself is kept exactly when the capacity is positive (`lru.New` rejects `size ≤ 0`) -/
theorem put_keeps_written_iff (c : Simple) (k v : Bytes) (h : SimpleInv c) :
    toMap (c.add k v).1 k = some v ↔ 1 ≤ c.cap := by
  constructor
  · intro hk
    have hb := (add_inv c k v h).bound
    unfold toMap at hk
    cases he : (c.add k v).1.entries with
    | nil => rw [he] at hk; simp [alookup] at hk
    | cons a r =>
      rw [he] at hb
      have : (c.add k v).1.cap = c.cap := by
        unfold Simple.add; split
        · rfl
        · simp only []; split <;> rfl
      rw [this] at hb
      simp only [List.length_cons] at hb
      omega
  · intro hc
    have := Simple.add_head c k v hc
    unfold toMap
    cases he : (c.add k v).1.entries with
    | nil => rw [he] at this; simp at this
    | cons a r =>
      rw [he] at this
      simp only [List.head?_cons, Option.some.injEq] at this
      rw [this, alookup_cons, if_pos rfl]

/-- 2 (hashicorp LRU): Get returns `toMap c k` and changes `toMap` nowhere -/
theorem get_is_lookup (c : Simple) (k : Bytes) :
    (c.get k).2 = toMap c k ∧ ∀ x, toMap (c.get k).1 x = toMap c x := by
  unfold Simple.get
  cases hf : c.entries.find? (fun e => e.1 == k) with
  | none =>
    refine ⟨?_, fun x => rfl⟩
    show none = toMap c k
    rw [toMap_eq_peek, Simple.peek, hf]; rfl
  | some e =>
    have hek : e.1 = k := by simpa using List.find?_some hf
    have hk : toMap c k = some e.2 := by rw [toMap_eq_peek, Simple.peek, hf]; rfl
    refine ⟨hk.symm, ?_⟩
    intro x
    show alookup x (e :: c.entries.filter (fun e => e.1 != k)) = toMap c x
    obtain ⟨e1, e2⟩ := e
    simp only at hek hk
    subst hek
    rw [alookup_cons, alookup_filter_ne]
    by_cases hxk : x = e1
    · subst hxk; rw [if_pos rfl, hk]
    · rw [if_neg hxk, if_neg hxk]; rfl

theorem get_inv (c : Simple) (k : Bytes) (h : SimpleInv c) : SimpleInv (c.get k).1 := by
  unfold Simple.get
  cases hf : c.entries.find? (fun e => e.1 == k) with
  | none => exact h
  | some e =>
    have hek : e.1 = k := by simpa using List.find?_some hf
    have hmem : e ∈ c.entries := List.mem_of_find?_eq_some hf
    refine ⟨?_, ?_⟩
    · show ((e :: c.entries.filter (fun e => e.1 != k)).map (·.1)).Nodup
      simp only [List.map_cons, List.nodup_cons]
      refine ⟨by rw [hek]; simp, List.Nodup.sublist (List.Sublist.map _ List.filter_sublist) h.keysNodup⟩
    · show (e :: c.entries.filter (fun e => e.1 != k)).length ≤ c.cap
      have hlt : (c.entries.filter (fun e => e.1 != k)).length < c.entries.length := by
        rw [List.length_filter_lt_length_iff_exists]
        exact ⟨e, hmem, by simp [hek]⟩
      have := h.bound
      simp only [List.length_cons]
      omega

/-- 3 (hashicorp LRU): Remove erases exactly the key -/
theorem remove_is_erase (c : Simple) (k x : Bytes) :
    toMap (c.remove k) x = if x = k then none else toMap c x :=
  alookup_filter_ne x k c.entries

theorem remove_inv (c : Simple) (k : Bytes) (h : SimpleInv c) : SimpleInv (c.remove k) :=
  ⟨List.Nodup.sublist (List.Sublist.map _ List.filter_sublist) h.keysNodup,
   Nat.le_trans (List.length_filter_le _ _) h.bound⟩

/-- 3 (hashicorp LRU): Clear empties the map -/
theorem clear_is_empty (c : Simple) (x : Bytes) : toMap (clear c) x = none := rfl

theorem clear_inv (c : Simple) : SimpleInv (clear c) := ⟨by simp [clear], by simp [clear]⟩

end SimpleC

/-- the hashicorp LRU as the storage unit uses it (the size argument of Put is ignored by the adapter) -/
def simpleCacher : Cacher where
  σ := LRU.Simple
  Inv := LRU.SimpleInv
  toMap := SimpleC.toMap
  keys := LRU.Simple.keys
  put := fun c k v => (c.add k v).1
  get := LRU.Simple.get
  has := LRU.Simple.has
  remove := LRU.Simple.remove
  clear := SimpleC.clear

theorem simpleCacher_lawful : simpleCacher.Lawful where
  keys_spec := fun c x _ => SimpleC.mem_keys_iff c x
  put_keep := fun c k v h => (SimpleC.put_is_keep_subset c k v h).2
  put_inv := fun c k v h => (SimpleC.put_is_keep_subset c k v h).1
  get_val := fun c k _ => (SimpleC.get_is_lookup c k).1
  get_map := fun c k x _ => (SimpleC.get_is_lookup c k).2 x
  get_inv := fun c k h => SimpleC.get_inv c k h
  has_spec := fun c k _ => SimpleC.has_is_lookup c k
  remove_map := fun c k x _ => SimpleC.remove_is_erase c k x
  remove_inv := fun c k h => SimpleC.remove_inv c k h
  clear_map := fun c x _ => SimpleC.clear_is_empty c x
  clear_inv := fun c _ => SimpleC.clear_inv c

/-! ### FIFOShardedCache -/

namespace FifoC
open SV.Fifo

/-- resident key ↦ value: what `Get` returns (a FIFO `Get` does not touch the state) -/
def toMap (c : Cache) : Bytes → Option Bytes := fun x => c.get x

/-- the resident keys -/
def keys (c : Cache) : List Bytes :=
  (c.shards.flatMap (fun s => s.vals.map (·.1))).filter (fun x => (c.get x).isSome)

theorem mem_keys_iff (size : Nat) (c : Cache) (x : Bytes) (h : CacheInv size c) :
    x ∈ keys c ↔ (toMap c x).isSome = true := by
  unfold keys toMap
  rw [List.mem_filter]
  constructor
  · exact fun hx => hx.2
  · intro hx
    refine ⟨?_, hx⟩
    rw [List.mem_flatMap]
    exact ⟨c.shard x, shard_mem size c x h, (alookup_isSome_iff x _).mp hx⟩

/-! one shard -/

/-- a shard with at most one slot (`m ≤ 1`) blanks the slot it has just written: nothing is ever resident -/
theorem set_small (m : Nat) (s : Shard) (k v : Bytes) (h : ShardInv m s) (hm : m ≤ 1) :
    (s.set k v).view = [] ∧ (s.set k v).vals = aerase k (aset k v s.vals) := by
  have hv : s.view = [] := List.eq_nil_of_length_eq_zero (by rw [h.len]; omega)
  have hk : (alookup k s.vals).isSome = false := by
    cases hh : (alookup k s.vals).isSome with
    | false => rfl
    | true => have := (h.agree k).mp hh; rw [hv] at this; simp at this
  obtain ⟨view, vals⟩ := s
  simp only at hv hk
  subst hv
  simp [Shard.set, Shard.append, hk]

theorem vals_small (m : Nat) (s : Shard) (x : Bytes) (h : ShardInv m s) (hm : m ≤ 1) : alookup x s.vals = none := by
  have hv : s.view = [] := List.eq_nil_of_length_eq_zero (by rw [h.len]; omega)
  cases hh : alookup x s.vals with
  | none => rfl
  | some w =>
    have := (h.agree x).mp (by rw [hh]; rfl)
    rw [hv] at this; simp at this

/-- `Set` on one shard: the new map is contained in the written map (for every shard size) -/
theorem set_sub (m : Nat) (s : Shard) (k v : Bytes) (h : ShardInv m s) :
    ∀ x w, alookup x (s.set k v).vals = some w → (if x = k then some v else alookup x s.vals) = some w := by
  intro x w hx
  by_cases hm : 2 ≤ m
  · obtain ⟨ys, last, _, _, hc⟩ := set_cases m s k v h hm
    rcases hc with ⟨_, hv⟩ | ⟨old, _, _, _, hv⟩
    · rw [hv] at hx
      by_cases hxk : x = k
      · subst hxk; rw [Fifo.alookup_aset_self] at hx; rw [if_pos rfl]; exact hx
      · rw [Fifo.alookup_aset_ne hxk] at hx; rw [if_neg hxk]; exact hx
    · rw [hv] at hx
      by_cases hxo : x = old
      · subst hxo; rw [Fifo.alookup_aerase_self] at hx; cases hx
      · rw [Fifo.alookup_aerase_ne hxo] at hx
        by_cases hxk : x = k
        · subst hxk; rw [Fifo.alookup_aset_self] at hx; rw [if_pos rfl]; exact hx
        · rw [Fifo.alookup_aset_ne hxk] at hx; rw [if_neg hxk]; exact hx
  · obtain ⟨_, hv⟩ := set_small m s k v h (by omega)
    rw [hv] at hx
    by_cases hxk : x = k
    · subst hxk; rw [Fifo.alookup_aerase_self] at hx; cases hx
    · rw [Fifo.alookup_aerase_ne hxk, Fifo.alookup_aset_ne hxk] at hx; rw [if_neg hxk]; exact hx

/-- `ShardInv.set` without the `2 ≤ m` hypothesis -/
theorem set_inv (m : Nat) (s : Shard) (k v : Bytes) (h : ShardInv m s) : ShardInv m (s.set k v) := by
  by_cases hm : 2 ≤ m
  · exact ShardInv.set m s k v h hm
  · obtain ⟨hview, hv⟩ := set_small m s k v h (by omega)
    refine ⟨by rw [hview]; simp; omega, by rw [hview]; simp, ?_, ?_⟩
    · intro x
      rw [hview, hv]
      by_cases hxk : x = k
      · subst hxk; rw [Fifo.alookup_aerase_self]; simp
      · rw [Fifo.alookup_aerase_ne hxk, Fifo.alookup_aset_ne hxk, vals_small m s x h (by omega)]; simp
    · rw [hv]; exact nodup_keys_aerase k _ (nodup_keys_aset k v s.vals h.valsNodup)

theorem remove_self (s : Shard) (k : Bytes) : alookup k (s.remove k).vals = none := by
  unfold Shard.remove
  split
  · exact Fifo.alookup_aerase_self k s.vals
  · rename_i hn
    cases hh : alookup k s.vals with
    | none => rfl
    | some w => rw [hh] at hn; simp at hn

/-! the sharded cache -/

theorem setShard_shard (size : Nat) (c : Cache) (k x : Bytes) (s : Shard) (h : CacheInv size c) :
    (c.setShard k s).shard x = if c.idx x = c.idx k then s else c.shard x := by
  have hi := idx_lt size c k h
  by_cases he : c.idx x = c.idx k
  · rw [if_pos he]
    show ((c.shards.set (c.idx k) s)[c.idx x]?).getD ⟨[], []⟩ = s
    rw [he, List.getElem?_set_self hi]; rfl
  · rw [if_neg he]
    show ((c.shards.set (c.idx k) s)[c.idx x]?).getD ⟨[], []⟩ = (c.shards[c.idx x]?).getD ⟨[], []⟩
    rw [List.getElem?_set_ne (fun e => he e.symm)]

theorem idx_ne {c : Cache} {k x : Bytes} (h : ¬ c.idx x = c.idx k) : x ≠ k := fun e => h (by rw [e])

theorem put_inv (size : Nat) (c : Cache) (k v : Bytes) (h : CacheInv size c) : CacheInv size (c.put k v).1 :=
  CacheInv.setShard size c k _ h (set_inv _ _ k v (h.2.2 _ (shard_mem size c k h)))

/-- 1 (FIFO): Put is "write, then keep a subset" — for EVERY size (no `2·N ≤ S` needed) -/
theorem put_is_keep_subset (size : Nat) (c : Cache) (k v : Bytes) (h : CacheInv size c) :
    CacheInv size (c.put k v).1 ∧ ∃ keep : List Bytes,
      ∀ x, toMap (c.put k v).1 x = if x ∈ keep then (if x = k then some v else toMap c x) else none := by
  have hinv := put_inv size c k v h
  refine ⟨hinv, keys (c.put k v).1, ?_⟩
  apply keep_form _ _ k v _ (fun x => mem_keys_iff size _ x hinv)
  intro x w hx
  unfold toMap Cache.get at hx ⊢
  have hsh : (c.put k v).1.shard x = if c.idx x = c.idx k then (c.shard k).set k v else c.shard x :=
    setShard_shard size c k x _ h
  rw [hsh] at hx
  by_cases hi : c.idx x = c.idx k
  · rw [if_pos hi] at hx
    have : c.shard x = c.shard k := by simp only [Cache.shard, hi]
    rw [this]
    exact set_sub _ _ k v (h.2.2 _ (shard_mem size c k h)) x w hx
  · rw [if_neg hi] at hx
    rw [if_neg (idx_ne hi)]; exact hx

/-- …the written key is kept when a shard has at least two slots (`⌈S/N⌉ ≥ 2`, e.g. `S ≥ 2·N`) … -/
theorem put_keeps_written (size : Nat) (c : Cache) (k v : Bytes) (h : CacheInv size c)
    (hm : 2 ≤ shardSize size c.n) : toMap (c.put k v).1 k = some v := by
  unfold toMap Cache.get
  have hsh := setShard_shard size c k k ((c.shard k).set k v) h
  rw [if_pos rfl] at hsh
  show alookup k ((c.setShard k ((c.shard k).set k v)).shard k).vals = some v
  rw [hsh]
  exact set_resident _ _ k v (h.2.2 _ (shard_mem size c k h)) hm

/-- …and dropped at once when a shard has a single slot (`⌈S/N⌉ ≤ 1`, i.e. `S = N` or `S = 0`): such a cache
    never holds anything -/
theorem put_drops_written (size : Nat) (c : Cache) (k v : Bytes) (h : CacheInv size c)
    (hm : shardSize size c.n ≤ 1) : ∀ x, toMap (c.put k v).1 x = none := by
  intro x
  have hinv := put_inv size c k v h
  exact vals_small _ _ x (hinv.2.2 _ (shard_mem size _ x hinv)) hm

theorem shardSize_le_one_iff (size n : Nat) (hn : 1 ≤ n) : shardSize size n ≤ 1 ↔ (size = 0 ∨ size = n) := by
  have hdm := Nat.div_add_mod size n
  have hml := Nat.mod_lt size (show n > 0 by omega)
  unfold shardSize
  generalize size / n = d at hdm ⊢
  generalize size % n = r at hdm hml ⊢
  rcases Nat.lt_or_ge d 2 with hlt | hge
  · have : d = 0 ∨ d = 1 := by omega
    rcases this with rfl | rfl
    · simp only [Nat.mul_zero, Nat.zero_add] at hdm
      simp only [if_true]
      split <;> omega
    · simp only [Nat.mul_one] at hdm
      simp only [Nat.one_ne_zero, if_false]
      split <;> omega
  · have h2 : n * 2 ≤ n * d := Nat.mul_le_mul_left n hge
    have hd0 : ¬ d = 0 := by omega
    simp only [hd0, if_false]
    split <;> omega

/-- 2 (FIFO): Get is the lookup itself and has no effect on the state (no recency in a FIFO) -/
theorem get_is_lookup (c : Cache) (k : Bytes) : c.get k = toMap c k := rfl

/-- 3 (FIFO): Remove erases exactly the key -/
theorem remove_is_erase (size : Nat) (c : Cache) (k x : Bytes) (h : CacheInv size c) :
    toMap (c.remove k) x = if x = k then none else toMap c x := by
  unfold toMap Cache.get Cache.remove
  rw [setShard_shard size c k x _ h]
  by_cases hi : c.idx x = c.idx k
  · rw [if_pos hi]
    have : c.shard x = c.shard k := by simp only [Cache.shard, hi]
    rw [this]
    by_cases hxk : x = k
    · subst hxk; rw [if_pos rfl]; exact remove_self _ x
    · rw [if_neg hxk]; exact remove_others _ k x hxk
  · rw [if_neg hi, if_neg (idx_ne hi)]

/-- 3 (FIFO): Clear empties the map -/
theorem clear_is_empty (c : Cache) (x : Bytes) : toMap c.clear x = none := by
  unfold toMap Cache.get Cache.clear Cache.shard
  simp only [Cache.idx, List.getElem?_map]
  cases c.shards[fnv32 x % c.n]? <;> rfl

theorem clear_inv (size : Nat) (c : Cache) (h : CacheInv size c) : CacheInv size c.clear := by
  refine ⟨h.1, by simp only [Cache.clear, List.length_map]; exact h.2.1, ?_⟩
  intro t ht
  simp only [Cache.clear, List.mem_map] at ht
  obtain ⟨s, hs, rfl⟩ := ht
  have hsi := h.2.2 s hs
  refine ⟨by simp only [List.length_map]; exact hsi.len, ?_, ?_, by simp⟩
  · have : (s.view.map (fun _ => (none : Option Bytes))).filterMap id = [] := by
      rw [List.filterMap_eq_nil_iff]; intro a ha
      obtain ⟨_, _, rfl⟩ := List.mem_map.mp ha
      rfl
    rw [this]; simp
  · intro k
    simp [alookup]

end FifoC

/-- the FIFO sharded cache (built with total size `size`) as the storage unit uses it -/
def fifoCacher (size : Nat) : Cacher where
  σ := Fifo.Cache
  Inv := Fifo.CacheInv size
  toMap := FifoC.toMap
  keys := FifoC.keys
  put := fun c k v => (c.put k v).1
  get := fun c k => (c, c.get k)
  has := fun c k => (c.get k).isSome
  remove := Fifo.Cache.remove
  clear := Fifo.Cache.clear

theorem fifoCacher_lawful (size : Nat) : (fifoCacher size).Lawful where
  keys_spec := fun c x h => FifoC.mem_keys_iff size c x h
  put_keep := fun c k v h => (FifoC.put_is_keep_subset size c k v h).2
  put_inv := fun c k v h => (FifoC.put_is_keep_subset size c k v h).1
  get_val := fun _ _ _ => rfl
  get_map := fun _ _ _ _ => rfl
  get_inv := fun _ _ h => h
  has_spec := fun _ _ _ => rfl
  remove_map := fun c k x h => FifoC.remove_is_erase size c k x h
  remove_inv := fun c k h => Fifo.CacheInv.remove size c k h
  clear_map := fun c x _ => FifoC.clear_is_empty c x
  clear_inv := fun c h => FifoC.clear_inv size c h

/-! ### lrucache.lruCache — the Cacher wrapper the factory actually returns, over either backend -/

namespace LruC
open SV.LRU

def Inv (c : Cache) : Prop :=
  match c.b with
  | .sized s => CapInv s
  | .plain s => SimpleInv s

def toMap (c : Cache) : Bytes → Option Bytes :=
  match c.b with
  | .sized s => CapC.toMap s
  | .plain s => SimpleC.toMap s

end LruC

/-- `lruCache.Put(key, data, len(data))`, `Get`, `Has`, `Remove`, `Clear` -/
def lruCacher (vr : LRU.Variant) : Cacher where
  σ := LRU.Cache
  Inv := LruC.Inv
  toMap := LruC.toMap
  keys := LRU.Cache.keys
  put := fun c k v => (c.put vr k v (v.length : Int)).1
  get := LRU.Cache.get
  has := LRU.Cache.has
  remove := LRU.Cache.remove
  clear := LRU.Cache.clear

theorem lruCacher_lawful (vr : LRU.Variant) : (lruCacher vr).Lawful where
  keys_spec := fun c x h => by
    obtain ⟨b, hs⟩ := c
    cases b with
    | sized s => exact (capCacher_lawful vr).keys_spec s x h
    | plain s => exact simpleCacher_lawful.keys_spec s x h
  put_keep := fun c k v h => by
    obtain ⟨b, hs⟩ := c
    cases b with
    | sized s => exact (capCacher_lawful vr).put_keep s k v h
    | plain s => exact simpleCacher_lawful.put_keep s k v h
  put_inv := fun c k v h => by
    obtain ⟨b, hs⟩ := c
    cases b with
    | sized s => exact (capCacher_lawful vr).put_inv s k v h
    | plain s => exact simpleCacher_lawful.put_inv s k v h
  get_val := fun c k h => by
    obtain ⟨b, hs⟩ := c
    cases b with
    | sized s => exact (capCacher_lawful vr).get_val s k h
    | plain s => exact simpleCacher_lawful.get_val s k h
  get_map := fun c k x h => by
    obtain ⟨b, hs⟩ := c
    cases b with
    | sized s => exact (capCacher_lawful vr).get_map s k x h
    | plain s => exact simpleCacher_lawful.get_map s k x h
  get_inv := fun c k h => by
    obtain ⟨b, hs⟩ := c
    cases b with
    | sized s => exact (capCacher_lawful vr).get_inv s k h
    | plain s => exact simpleCacher_lawful.get_inv s k h
  has_spec := fun c k h => by
    obtain ⟨b, hs⟩ := c
    cases b with
    | sized s => exact (capCacher_lawful vr).has_spec s k h
    | plain s => exact simpleCacher_lawful.has_spec s k h
  remove_map := fun c k x h => by
    obtain ⟨b, hs⟩ := c
    cases b with
    | sized s => exact (capCacher_lawful vr).remove_map s k x h
    | plain s => exact simpleCacher_lawful.remove_map s k x h
  remove_inv := fun c k h => by
    obtain ⟨b, hs⟩ := c
    cases b with
    | sized s => exact (capCacher_lawful vr).remove_inv s k h
    | plain s => exact simpleCacher_lawful.remove_inv s k h
  clear_map := fun c x h => by
    obtain ⟨b, hs⟩ := c
    cases b with
    | sized s => exact (capCacher_lawful vr).clear_map s x h
    | plain s => exact simpleCacher_lawful.clear_map s x h
  clear_inv := fun c h => by
    obtain ⟨b, hs⟩ := c
    cases b with
    | sized s => exact (capCacher_lawful vr).clear_inv s h
    | plain s => exact simpleCacher_lawful.clear_inv s h

/-! ## C16 for the storage unit over each real cacher -/

theorem CapC.init_empty (cap : Nat) (maxBytes : Int) (x : Bytes) : CapC.toMap (LRU.Cap.init cap maxBytes) x = none := rfl

theorem SimpleC.init_inv (cap : Nat) : LRU.SimpleInv ⟨cap, []⟩ := ⟨by simp, by simp⟩

theorem FifoC.init_empty (size n : Nat) (x : Bytes) : FifoC.toMap (Fifo.Cache.init size n) x = none := by
  unfold FifoC.toMap Fifo.Cache.get Fifo.Cache.shard Fifo.Cache.init
  simp only [List.getElem?_replicate]
  split <;> rfl

/-- C16, storage unit over capacityLRU (`NewCacheWithSizeInBytes(cap, maxBytes)`), either variant: whatever the
    LRU evicts (by count or by bytes), after any history the unit is coherent and answers like the map of
    acknowledged writes -/
theorem capUnit_run_spec (vr : LRU.Variant) (cap : Nat) (maxBytes : Int) (rops : List ROp) (k : Bytes) :
    let u := rops.foldl RU.step (RU.init (LRU.Cap.init cap maxBytes) : RU (capCacher vr))
    LRU.CapInv u.cache ∧ RCoherent u ∧ (u.get k false).2 = (rops.foldl rackStep (fun _ => none)) k ∧
      u.has k = ((rops.foldl rackStep (fun _ => none)) k).isSome :=
  realUnit_run_spec (capCacher_lawful vr) _ (LRU.CapInv.init cap maxBytes) (CapC.init_empty cap maxBytes) rops k

/-- C16, storage unit over the hashicorp LRU (`NewCache(cap)`), any capacity (even 0) -/
theorem simpleUnit_run_spec (cap : Nat) (rops : List ROp) (k : Bytes) :
    let u := rops.foldl RU.step (RU.init (⟨cap, []⟩ : LRU.Simple) : RU simpleCacher)
    LRU.SimpleInv u.cache ∧ RCoherent u ∧ (u.get k false).2 = (rops.foldl rackStep (fun _ => none)) k ∧
      u.has k = ((rops.foldl rackStep (fun _ => none)) k).isSome :=
  realUnit_run_spec simpleCacher_lawful _ (SimpleC.init_inv cap) (fun _ => rfl) rops k

/-- C16, storage unit over the FIFO sharded cache (`NewShardedCache(size, n)`, `n ≥ 1`), any size -/
theorem fifoUnit_run_spec (size n : Nat) (hn : 1 ≤ n) (rops : List ROp) (k : Bytes) :
    let u := rops.foldl RU.step (RU.init (Fifo.Cache.init size n) : RU (fifoCacher size))
    Fifo.CacheInv size u.cache ∧ RCoherent u ∧ (u.get k false).2 = (rops.foldl rackStep (fun _ => none)) k ∧
      u.has k = ((rops.foldl rackStep (fun _ => none)) k).isSome :=
  realUnit_run_spec (fifoCacher_lawful size) _ (Fifo.CacheInv.init size n hn) (FifoC.init_empty size n) rops k

/-- C16, storage unit over the `lruCache` wrapper, whichever backend and handler registry it starts with -/
theorem lruUnit_run_spec (vr : LRU.Variant) (c0 : LRU.Cache) (h0 : LruC.Inv c0) (he : ∀ x, LruC.toMap c0 x = none)
    (rops : List ROp) (k : Bytes) :
    let u := rops.foldl RU.step (RU.init c0 : RU (lruCacher vr))
    LruC.Inv u.cache ∧ RCoherent u ∧ (u.get k false).2 = (rops.foldl rackStep (fun _ => none)) k ∧
      u.has k = ((rops.foldl rackStep (fun _ => none)) k).isSome :=
  realUnit_run_spec (lruCacher_lawful vr) c0 h0 he rops k

/-! ## non-vacuity: capacity 2, four operations including an eviction and a rejected Put -/

section examples

def kA : Bytes := [1]
def kB : Bytes := [2]
def kC : Bytes := [3]
def kD : Bytes := [4]
def vA : Bytes := [10, 10]
def vB : Bytes := [20]
def vC : Bytes := [30, 30, 30]
def vD : Bytes := [40]

/-- Put a, Put b, Put c (evicts a), Put d REJECTED by the persister (the cacher has meanwhile evicted b) -/
def demo : List ROp := [.put kA vA false, .put kB vB false, .put kC vC false, .put kD vD true]

/-- the same history with the oracles the capacity-2 LRUs happen to choose -/
def demoAbs : List Op :=
  [.put kA vA false [kA], .put kB vB false [kA, kB], .put kC vC false [kB, kC], .put kD vD true [kC, kD]]

example : demoAbs.map eraseOp = demo := rfl

/-! capacityLRU, 2 entries / 100 bytes -/

def capDemo : RU (capCacher .current) := demo.foldl RU.step (RU.init (LRU.Cap.init 2 100))

-- the eviction happened (a and b are gone), the rejected d is not resident, c is; the persister has a, b, c
example : CapC.toMap capDemo.cache kA = none ∧ CapC.toMap capDemo.cache kB = none ∧
    CapC.toMap capDemo.cache kC = some vC ∧ CapC.toMap capDemo.cache kD = none ∧
    capDemo.db = [(kA, vA), (kB, vB), (kC, vC)] := by decide

-- the evicted key is still served (from the persister), the rejected one is not
example : (capDemo.get kA false).2 = some vA ∧ (capDemo.get kD false).2 = none ∧ capDemo.has kD = false ∧
    capDemo.has kB = true := by decide

-- the simulation, concretely: the abstract unit run with `demoAbs` answers every lookup like the real cacher
example : ∀ x ∈ [kA, kB, kC, kD, []],
    alookup x (demoAbs.foldl U.step U.init).cache = CapC.toMap capDemo.cache x := by decide

-- the general theorem instantiated on this history
example : RCoherent capDemo ∧ (capDemo.get kA false).2 = (demo.foldl rackStep (fun _ => none)) kA :=
  ⟨(capUnit_run_spec .current 2 100 demo kA).2.1, (capUnit_run_spec .current 2 100 demo kA).2.2.1⟩

example : (demo.foldl rackStep (fun _ => none)) kA = some vA ∧ (demo.foldl rackStep (fun _ => none)) kD = none := by
  decide

-- `realUnit_rejected_put_not_served`: hypotheses met by a reachable state
example : ((capDemo.put kD vD true).1.get kD false).2 = alookup kD capDemo.db :=
  realUnit_rejected_put_not_served (capCacher_lawful .current) capDemo kD vD
    (capUnit_run_spec .current 2 100 demo kD).1 (capUnit_run_spec .current 2 100 demo kD).2.1

-- eviction by BYTES: 2 entries allowed but only 3 bytes; and an entry larger than the whole budget stays alone
example :
    let u : RU (capCacher .current) :=
      [ROp.put kA vA false, .put kB vB false, .put kC vC false].foldl RU.step (RU.init (LRU.Cap.init 2 3))
    CapC.toMap u.cache kA = none ∧ CapC.toMap u.cache kB = none ∧ CapC.toMap u.cache kC = some vC ∧
      (u.get kA false).2 = some vA := by decide

example :
    let u : RU (capCacher .current) := [ROp.put kC vC false].foldl RU.step (RU.init (LRU.Cap.init 2 1))
    CapC.toMap u.cache kC = some vC := by decide

-- `CapC.put_is_keep_subset`: hypotheses met (`CapInv` of a reachable cache, size = len(data) ≥ 0)
example : ∃ keep : List Bytes, kC ∈ keep ∧ ∀ x, CapC.toMap (capDemo.cache.addSized .current kC vC 3).1 x =
    if x ∈ keep then (if x = kC then some vC else CapC.toMap capDemo.cache x) else none :=
  (CapC.put_is_keep_subset .current capDemo.cache kC vC 3 (capUnit_run_spec .current 2 100 demo kD).1 (by decide)).2

/-! the legacy variant (silent eviction inside `update`) is covered as well -/

example :
    let u : RU (capCacher .legacy) := demo.foldl RU.step (RU.init (LRU.Cap.init 2 100))
    (u.get kA false).2 = some vA ∧ (u.get kD false).2 = none := by decide

/-! hashicorp LRU, capacity 2 -/

def simpleDemo : RU simpleCacher := demo.foldl RU.step (RU.init ⟨2, []⟩)

example : SimpleC.toMap simpleDemo.cache kA = none ∧ SimpleC.toMap simpleDemo.cache kB = none ∧
    SimpleC.toMap simpleDemo.cache kC = some vC ∧ SimpleC.toMap simpleDemo.cache kD = none ∧
    (simpleDemo.get kA false).2 = some vA ∧ (simpleDemo.get kD false).2 = none ∧ simpleDemo.has kD = false := by
  decide

example : ∀ x ∈ [kA, kB, kC, kD, []],
    alookup x (demoAbs.foldl U.step U.init).cache = SimpleC.toMap simpleDemo.cache x := by decide

example : RCoherent simpleDemo := (simpleUnit_run_spec 2 demo kA).2.1

-- capacity 0: the written key is dropped at once — still an instance of "write, then keep a subset"
example : SimpleC.toMap ((⟨0, []⟩ : LRU.Simple).add kA vA).1 kA = none := by decide

/-! FIFO, one shard of three slots (two usable) -/

def fifoDemo : RU (fifoCacher 3) := demo.foldl RU.step (RU.init (Fifo.Cache.init 3 1))

example : FifoC.toMap fifoDemo.cache kA = none ∧ FifoC.toMap fifoDemo.cache kB = none ∧
    FifoC.toMap fifoDemo.cache kC = some vC ∧ FifoC.toMap fifoDemo.cache kD = none ∧
    (fifoDemo.get kA false).2 = some vA ∧ (fifoDemo.get kD false).2 = none ∧ fifoDemo.has kD = false := by
  decide

example : RCoherent fifoDemo := (fifoUnit_run_spec 3 1 (by decide) demo kA).2.1

-- a single-slot shard (S = N) never holds anything
example : FifoC.toMap ((Fifo.Cache.init 1 1).put kA vA).1 kA = none := by decide

/-! the wrapper -/

example :
    let u : RU (lruCacher .current) := demo.foldl RU.step (RU.init ⟨.sized (LRU.Cap.init 2 100), ["h"]⟩)
    (u.get kA false).2 = some vA ∧ (u.get kD false).2 = none := by decide

end examples

end SV.UnitReal
