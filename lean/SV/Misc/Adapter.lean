/-
  SV.Misc.Adapter — model of storageCacherAdapter: a bounded in-memory tier (capacityLRU) spilling its victims
  to a persister (modelled as a plain map; the batching persister refines it, see SV.Persist.Proofs).
-/
import SV.LRU.Model
namespace SV.Adapter
open SV SV.LRU

structure A where
  mem : Cap
  db : List (Bytes × Bytes)
  deriving Repr

/-- `Put`: write to the memory tier, persist every reported victim (values serialise to themselves; a value that
    serialises to zero bytes is skipped by the code — excluded from the domain), report whether anything was spilled -/
def A.put (vr : Variant) (a : A) (k v : Bytes) (size : Int) : A × Bool :=
  let (m, victims) := a.mem.addSizedAndReturnEvicted vr k v size
  let db := victims.foldl (fun db e => if e.val.isEmpty then db else aset e.key e.val db) a.db
  (⟨m, db⟩, !victims.isEmpty)

/-- `Get`: memory tier first (refreshing recency), then the persister -/
def A.get (a : A) (k : Bytes) : A × Option Bytes :=
  match a.mem.get k with
  | (m, some v) => ({ a with mem := m }, some v)
  | (_, none) => (a, alookup k a.db)

def A.has (a : A) (k : Bytes) : Bool := a.mem.has k || (alookup k a.db).isSome
def A.peek (a : A) (k : Bytes) : Option Bytes := a.mem.peek k

/-- `HasOrAdd` = `Has`, then `Put` when absent → (adapter, has, spilled) -/
def A.hasOrAdd (vr : Variant) (a : A) (k v : Bytes) (size : Int) : A × Bool × Bool :=
  if a.has k then (a, true, false)
  else let r := a.put vr k v size; (r.1, false, r.2)

/-- `Remove`: from the memory tier; from the persister ONLY when the key was not in memory (a spilled copy of a key that
    is also resident stays in the persister — as coded) -/
def A.remove (a : A) (k : Bytes) : A :=
  match a.mem.remove k with
  | (m, true) => { a with mem := m }
  | (m, false) => { a with mem := m, db := aerase k a.db }

/-- `Clear` purges the memory tier only -/
def A.clear (a : A) : A := { a with mem := a.mem.purge }

/-- `Keys`: memory tier (LRU → MRU) followed by the persister's keys (a key may appear twice) -/
def A.keys (a : A) : List Bytes := a.mem.keys ++ a.db.map (·.1)

/-- the adapter with its `numValuesInStorage` counter (behind `Len`): incremented per victim written — also when the
    victim overwrites an older spilled copy — and decremented by every `Remove` that misses the memory tier -/
structure AL where
  a : A
  stored : Int
  deriving Repr

def AL.put (vr : Variant) (x : AL) (k v : Bytes) (size : Int) : AL × Bool :=
  let victims := (x.a.mem.addSizedAndReturnEvicted vr k v size).2
  let r := x.a.put vr k v size
  (⟨r.1, x.stored + ((victims.filter (fun e => !e.val.isEmpty)).length : Int)⟩, r.2)
def AL.hasOrAdd (vr : Variant) (x : AL) (k v : Bytes) (size : Int) : AL × Bool × Bool :=
  if x.a.has k then (x, true, false) else let r := x.put vr k v size; (r.1, false, r.2)
def AL.remove (x : AL) (k : Bytes) : AL :=
  ⟨x.a.remove k, if x.a.mem.has k then x.stored else x.stored - 1⟩
def AL.len (x : AL) : Int := (x.a.mem.entries.length : Int) + x.stored

end SV.Adapter
