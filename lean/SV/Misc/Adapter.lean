/-
  SV.Misc.Adapter — model of storageCacherAdapter: a bounded in-memory tier (capacityLRU) spilling its victims
  to a persister (modelled as a plain map; the batching persister refines it, see SV.Persist.Proofs).
-/
import SV.LRU.Model
namespace SV.Adapter
open SV SV.LRU

structure A where
  mem : Cap
  db : List (Bytes × Bytes)
  deriving Repr

/-- `Put`: write to the memory tier, persist every reported victim (values serialise to themselves; a value that
    serialises to zero bytes is skipped by the code — excluded from the domain), report whether anything was spilled -/
def A.put (vr : Variant) (a : A) (k v : Bytes) (size : Int) : A × Bool :=
  let (m, victims) := a.mem.addSizedAndReturnEvicted vr k v size
  let db := victims.foldl (fun db e => if e.val.isEmpty then db else aset e.key e.val db) a.db
  (⟨m, db⟩, !victims.isEmpty)

/-- `Get`: memory tier first (refreshing recency), then the persister -/
def A.get (a : A) (k : Bytes) : A × Option Bytes :=
  match a.mem.get k with
  | (m, some v) => ({ a with mem := m }, some v)
  | (_, none) => (a, alookup k a.db)

def A.has (a : A) (k : Bytes) : Bool := a.mem.has k || (alookup k a.db).isSome
def A.peek (a : A) (k : Bytes) : Option Bytes := a.mem.peek k

end SV.Adapter
