/-
  SV.Misc.FifoProofs — the sharded FIFO cache (C20): capacity bound, age order, survival of an entry for
  ⌈S/N⌉ − 2 further insertions, Keys order, HasOrAdd flags and notifications.
-/
import SV.Misc.Fifo
namespace SV.Fifo
open SV

/-! ### association lists (same lemmas as in SV.Persist.Proofs, restated here so that this file only depends on the model) -/

section alist
variable {β : Type}

theorem alookup_aset_self (k : Bytes) (v : β) (l : List (Bytes × β)) :
    alookup k (aset k v l) = some v := by
  induction l with
  | nil => simp [aset, alookup]
  | cons a r ih =>
    obtain ⟨k', v'⟩ := a
    simp only [aset]
    split
    · simp [alookup]
    · rename_i hne
      simp only [alookup, if_neg hne]
      exact ih

theorem alookup_aset_ne {k k' : Bytes} (hne : k' ≠ k) (v : β) (l : List (Bytes × β)) :
    alookup k' (aset k v l) = alookup k' l := by
  induction l with
  | nil =>
    have : ¬ ((k == k') = true) := by simpa using fun h => hne h.symm
    simp [aset, alookup, this]
  | cons a r ih =>
    obtain ⟨k1, v1⟩ := a
    simp only [aset]
    split
    · rename_i heq
      have h1 : k1 = k := by simpa using heq
      subst h1
      have : ¬ ((k1 == k') = true) := by simpa using fun h => hne h.symm
      simp [alookup, this]
    · simp only [alookup, ih]

theorem alookup_aerase_self (k : Bytes) (l : List (Bytes × β)) :
    alookup k (aerase k l) = none := by
  induction l with
  | nil => simp [aerase, alookup]
  | cons a r ih =>
    obtain ⟨k1, v1⟩ := a
    simp only [aerase]
    split
    · exact ih
    · rename_i hne
      simp only [alookup, if_neg hne]
      exact ih

theorem alookup_aerase_ne {k k' : Bytes} (hne : k' ≠ k) (l : List (Bytes × β)) :
    alookup k' (aerase k l) = alookup k' l := by
  induction l with
  | nil => simp [aerase]
  | cons a r ih =>
    obtain ⟨k1, v1⟩ := a
    simp only [aerase]
    split
    · rename_i heq
      have h1 : k1 = k := by simpa using heq
      subst h1
      have : ¬ ((k1 == k') = true) := by simpa using fun h => hne h.symm
      simp [alookup, this, ih]
    · simp only [alookup, ih]

theorem mem_keys_aset {k x : Bytes} (v : β) (l : List (Bytes × β)) :
    x ∈ (aset k v l).map (·.1) → x = k ∨ x ∈ l.map (·.1) := by
  induction l with
  | nil => simp [aset]
  | cons a r ih =>
    obtain ⟨k1, v1⟩ := a
    simp only [aset]
    split
    · intro h
      simp only [List.map_cons, List.mem_cons] at h ⊢
      rcases h with h | h
      · exact Or.inl h
      · exact Or.inr (Or.inr h)
    · intro h
      simp only [List.map_cons, List.mem_cons] at h ⊢
      rcases h with h | h
      · exact Or.inr (Or.inl h)
      · rcases ih h with h | h
        · exact Or.inl h
        · exact Or.inr (Or.inr h)

theorem nodup_keys_aset (k : Bytes) (v : β) (l : List (Bytes × β)) (h : (l.map (·.1)).Nodup) :
    ((aset k v l).map (·.1)).Nodup := by
  induction l with
  | nil => simp [aset]
  | cons a r ih =>
    obtain ⟨k1, v1⟩ := a
    simp only [List.map_cons, List.nodup_cons] at h
    simp only [aset]
    split
    · rename_i heq
      have h1 : k1 = k := by simpa using heq
      subst h1
      simp only [List.map_cons, List.nodup_cons]
      exact h
    · rename_i hne
      have h1 : k1 ≠ k := by simpa using hne
      simp only [List.map_cons, List.nodup_cons]
      refine ⟨?_, ih h.2⟩
      intro hm
      rcases mem_keys_aset v r hm with hm | hm
      · exact h1 hm
      · exact h.1 hm

theorem mem_keys_aerase {k x : Bytes} (l : List (Bytes × β)) :
    x ∈ (aerase k l).map (·.1) → x ∈ l.map (·.1) := by
  induction l with
  | nil => simp [aerase]
  | cons a r ih =>
    obtain ⟨k1, v1⟩ := a
    simp only [aerase]
    split
    · intro h
      simp only [List.map_cons, List.mem_cons]
      exact Or.inr (ih h)
    · intro h
      simp only [List.map_cons, List.mem_cons] at h ⊢
      rcases h with h | h
      · exact Or.inl h
      · exact Or.inr (ih h)

theorem nodup_keys_aerase (k : Bytes) (l : List (Bytes × β)) (h : (l.map (·.1)).Nodup) :
    ((aerase k l).map (·.1)).Nodup := by
  induction l with
  | nil => simp [aerase]
  | cons a r ih =>
    obtain ⟨k1, v1⟩ := a
    simp only [List.map_cons, List.nodup_cons] at h
    simp only [aerase]
    split
    · exact ih h.2
    · simp only [List.map_cons, List.nodup_cons]
      exact ⟨fun hm => h.1 (mem_keys_aerase r hm), ih h.2⟩

end alist

structure ShardInv (m : Nat) (s : Shard) : Prop where
  len : s.view.length = m - 1
  nodup : (s.view.filterMap id).Nodup
  agree : ∀ k, (alookup k s.vals).isSome = true ↔ some k ∈ s.view
  valsNodup : (s.vals.map (·.1)).Nodup

/-! ### list helpers -/

theorem alookup_isSome_iff {β : Type} (k : Bytes) (l : List (Bytes × β)) :
    (alookup k l).isSome = true ↔ k ∈ l.map (·.1) := by
  induction l with
  | nil => simp [alookup]
  | cons a r ih =>
    obtain ⟨k1, v1⟩ := a
    simp only [alookup, List.map_cons, List.mem_cons]
    split
    · rename_i heq
      have : k1 = k := by simpa using heq
      simp [this]
    · rename_i hne
      have : k1 ≠ k := by simpa using hne
      rw [ih]
      constructor
      · exact Or.inr
      · rintro (h | h)
        · exact absurd h.symm this
        · exact h

theorem nodup_length_le {α : Type} [DecidableEq α] :
    ∀ (l1 l2 : List α), l1.Nodup → (∀ x ∈ l1, x ∈ l2) → l1.length ≤ l2.length
  | [], _, _, _ => Nat.zero_le _
  | a :: l1, l2, hn, hs => by
    have hn' := List.nodup_cons.mp hn
    have ha : a ∈ l2 := hs a List.mem_cons_self
    have h1 := nodup_length_le l1 (l2.erase a) hn'.2
      (fun x hx => (List.mem_erase_of_ne (by rintro rfl; exact hn'.1 hx)).mpr (hs x (List.mem_cons_of_mem _ hx)))
    rw [List.length_erase_of_mem ha] at h1
    have h2 : 0 < l2.length := List.length_pos_of_mem ha
    simp only [List.length_cons]; omega

theorem mem_fm (x : Bytes) (l : List (Option Bytes)) : x ∈ l.filterMap id ↔ some x ∈ l := by
  simp [List.mem_filterMap]

theorem blank_length (k : Bytes) (l : List (Option Bytes)) : (blank k l).length = l.length := by
  simp [blank]

theorem filterMap_blank (k : Bytes) (l : List (Option Bytes)) :
    (blank k l).filterMap id = (l.filterMap id).filter (fun x => x != k) := by
  induction l with
  | nil => rfl
  | cons a r ih =>
    simp only [blank] at ih
    cases a with
    | none => simp [blank, ih]
    | some x =>
      by_cases hx : x = k
      · subst hx; simp [blank, ih]
      · simp [blank, ih, hx]

theorem mem_blank (k x : Bytes) (l : List (Option Bytes)) : some x ∈ blank k l ↔ x ≠ k ∧ some x ∈ l := by
  rw [← mem_fm, filterMap_blank, List.mem_filter, mem_fm]
  simp [and_comm]

theorem nodup_blank (k : Bytes) (l : List (Option Bytes)) (h : (l.filterMap id).Nodup) :
    ((blank k l).filterMap id).Nodup := by
  rw [filterMap_blank]; exact h.filter _

theorem blank_eq_self (k : Bytes) (l : List (Option Bytes)) (h : some k ∉ l) : blank k l = l := by
  induction l with
  | nil => rfl
  | cons a r ih =>
    simp only [List.mem_cons, not_or] at h
    simp only [blank, List.map_cons] at ih ⊢
    rw [ih h.2, if_neg (fun e => h.1 e.symm)]

/-! ### the shard invariant -/

theorem ShardInv.init (m : Nat) : ShardInv m (Shard.init m) where
  len := by simp [Shard.init]
  nodup := by
    have : (List.replicate (m - 1) (none : Option Bytes)).filterMap id = [] := by
      rw [List.filterMap_eq_nil_iff]; intro a ha; rw [List.eq_of_mem_replicate ha]; rfl
    simp [Shard.init, this]
  agree := by
    intro k
    simp [Shard.init, alookup, List.mem_replicate]
  valsNodup := by simp [Shard.init]

/-- explicit normal form of an insertion -/
theorem set_cases (m : Nat) (s : Shard) (k v : Bytes) (h : ShardInv m s) (hm : 2 ≤ m) :
    ∃ ys last, blank k s.view = ys ++ [last] ∧ (s.set k v).view = some k :: ys ∧
      ((last = none ∧ (s.set k v).vals = aset k v s.vals) ∨
       (∃ old, last = some old ∧ old ≠ k ∧ some old ∉ ys ∧ (s.set k v).vals = aerase old (aset k v s.vals))) := by
  have hlen := h.len
  have hne : s.view ≠ [] := by
    intro e; rw [e] at hlen; simp at hlen; omega
  have hs1 : (if (alookup k s.vals).isSome = true then { s with view := blank k s.view } else s)
      = (⟨blank k s.view, s.vals⟩ : Shard) := by
    split
    · rfl
    · rename_i hp
      rw [blank_eq_self k s.view (fun hmem => hp ((h.agree k).mpr hmem))]
  have hBne : blank k s.view ≠ [] := by
    intro e
    have := blank_length k s.view
    rw [e] at this
    exact hne (List.eq_nil_of_length_eq_zero this.symm)
  cases hB : (blank k s.view).getLast? with
  | none => exact absurd (List.getLast?_eq_none_iff.mp hB) hBne
  | some last =>
    obtain ⟨ys, hys⟩ := List.getLast?_eq_some_iff.mp hB
    have hdl : (blank k s.view).dropLast = ys := by rw [hys]; simp
    have hemp : s.view.isEmpty = false := by
      cases hv : s.view with
      | nil => exact absurd hv hne
      | cons _ _ => rfl
    refine ⟨ys, last, hys, ?_, ?_⟩
    · unfold Shard.set
      simp only [hs1, hemp, Shard.append, hB, hdl]
      cases last <;> simp
    · cases last with
      | none =>
        left
        refine ⟨rfl, ?_⟩
        unfold Shard.set
        simp only [hs1, hemp, Shard.append, hB, hdl]
        simp
      | some old =>
        right
        have hnd := nodup_blank k s.view h.nodup
        rw [hys] at hnd
        simp only [List.filterMap_append, List.filterMap_cons, id, List.filterMap_nil] at hnd
        have hnd2 := List.nodup_append.mp hnd
        refine ⟨old, rfl, ?_, ?_, ?_⟩
        · have : some old ∈ blank k s.view := by rw [hys]; simp
          exact ((mem_blank k old s.view).mp this).1
        · intro hmem
          exact hnd2.2.2 old ((mem_fm old ys).mpr hmem) old (by simp) rfl
        · unfold Shard.set
          simp only [hs1, hemp, Shard.append, hB, hdl]
          simp

/-- C20: the entry just inserted is resident, with its value -/
theorem set_resident (m : Nat) (s : Shard) (k v : Bytes) (h : ShardInv m s) (hm : 2 ≤ m) :
    alookup k (s.set k v).vals = some v := by
  obtain ⟨ys, last, _, _, hc⟩ := set_cases m s k v h hm
  rcases hc with ⟨_, hv⟩ | ⟨old, _, hok, _, hv⟩
  · rw [hv, alookup_aset_self]
  · rw [hv, alookup_aerase_ne (Ne.symm hok), alookup_aset_self]

theorem ShardInv.set (m : Nat) (s : Shard) (k v : Bytes) (h : ShardInv m s) (hm : 2 ≤ m) :
    ShardInv m (s.set k v) := by
  obtain ⟨ys, last, hys, hview, hc⟩ := set_cases m s k v h hm
  have hBlen : ys.length + 1 = m - 1 := by
    have := blank_length k s.view
    rw [hys, h.len] at this
    simpa using this
  have hnd := nodup_blank k s.view h.nodup
  have hkB : ∀ x, some x ∈ ys → x ≠ k ∧ some x ∈ s.view := by
    intro x hx
    exact (mem_blank k x s.view).mp (by rw [hys]; simp [hx])
  have hBk : ∀ x, x ≠ k → some x ∈ s.view → some x ∈ ys ∨ some x = last := by
    intro x hxk hx
    have := (mem_blank k x s.view).mpr ⟨hxk, hx⟩
    rw [hys] at this
    simpa using this
  refine ⟨?_, ?_, ?_, ?_⟩
  · rw [hview]; simp only [List.length_cons]; omega
  · rw [hview]
    simp only [List.filterMap_cons, id]
    rw [List.nodup_cons]
    rw [hys, List.filterMap_append] at hnd
    refine ⟨?_, (List.nodup_append.mp hnd).1⟩
    intro hmem
    exact (hkB k ((mem_fm k ys).mp hmem)).1 rfl
  · intro x
    rw [hview]
    by_cases hxk : x = k
    · subst hxk
      rw [set_resident m s x v h hm]
      simp
    · have hne' : some x ≠ some k := fun e => hxk (Option.some.inj e)
      simp only [List.mem_cons, hne', false_or]
      rcases hc with ⟨hl, hv⟩ | ⟨old, hl, hok, hoy, hv⟩
      · rw [hv, alookup_aset_ne hxk, h.agree x]
        constructor
        · intro hx
          rcases hBk x hxk hx with h1 | h1
          · exact h1
          · rw [hl] at h1; cases h1
        · intro hx; exact (hkB x hx).2
      · rw [hv]
        by_cases hxo : x = old
        · subst hxo
          rw [alookup_aerase_self]
          simp [hoy]
        · rw [alookup_aerase_ne hxo, alookup_aset_ne hxk, h.agree x]
          constructor
          · intro hx
            rcases hBk x hxk hx with h1 | h1
            · exact h1
            · rw [hl] at h1; exact absurd (Option.some.inj h1) hxo
          · intro hx; exact (hkB x hx).2
  · rcases hc with ⟨_, hv⟩ | ⟨old, _, _, _, hv⟩
    · rw [hv]; exact nodup_keys_aset k v s.vals h.valsNodup
    · rw [hv]; exact nodup_keys_aerase old _ (nodup_keys_aset k v s.vals h.valsNodup)

theorem ShardInv.setIfAbsent (m : Nat) (s : Shard) (k v : Bytes) (h : ShardInv m s) (hm : 2 ≤ m) :
    ShardInv m (s.setIfAbsent k v).1 := by
  unfold Shard.setIfAbsent
  split
  · exact h
  · exact ShardInv.set m s k v h hm

theorem ShardInv.remove (m : Nat) (s : Shard) (k : Bytes) (h : ShardInv m s) : ShardInv m (s.remove k) := by
  unfold Shard.remove
  split
  · refine ⟨?_, ?_, ?_, ?_⟩
    · simp only [blank_length]; exact h.len
    · exact nodup_blank k s.view h.nodup
    · intro x
      simp only [mem_blank]
      by_cases hxk : x = k
      · subst hxk; rw [alookup_aerase_self]; simp
      · rw [alookup_aerase_ne hxk, h.agree x]; simp [hxk]
    · exact nodup_keys_aerase k s.vals h.valsNodup
  · exact h

/-- a shard never holds more than m − 1 entries -/
theorem shard_bound (m : Nat) (s : Shard) (h : ShardInv m s) : s.vals.length ≤ m - 1 := by
  have h1 := nodup_length_le (s.vals.map (·.1)) (s.view.filterMap id) h.valsNodup
    (fun x hx => (mem_fm x s.view).mpr ((h.agree x).mp ((alookup_isSome_iff x s.vals).mpr hx)))
  have h2 := List.length_filterMap_le id s.view
  rw [List.length_map] at h1
  rw [← h.len]
  omega

/-- the shape of an insertion: the new key is the youngest, everything else is one position older, the oldest
    position falls off -/
theorem set_view (m : Nat) (s : Shard) (k v : Bytes) (h : ShardInv m s) (hm : 2 ≤ m) :
    (s.set k v).view = some k :: (blank k s.view).dropLast := by
  obtain ⟨ys, last, hys, hview, _⟩ := set_cases m s k v h hm
  rw [hview, hys]; simp

/-- C20: an insertion of another key moves an entry from position j to j + 1 and keeps its value, unless j was the
    oldest position -/
theorem set_shifts (m : Nat) (s : Shard) (k v k' : Bytes) (j : Nat) (h : ShardInv m s) (hm : 2 ≤ m) (hk : k' ≠ k)
    (hp : s.view[j]? = some (some k')) (hj : j + 1 < m - 1) :
    (s.set k v).view[j + 1]? = some (some k') ∧ alookup k' (s.set k v).vals = alookup k' s.vals := by
  obtain ⟨ys, last, hys, hview, hc⟩ := set_cases m s k v h hm
  have hBlen : ys.length + 1 = m - 1 := by
    have := blank_length k s.view
    rw [hys, h.len] at this
    simpa using this
  have hBj : (blank k s.view)[j]? = some (some k') := by
    simp only [blank, List.getElem?_map, hp, Option.map_some]
    have : some k' ≠ some k := fun e => hk (Option.some.inj e)
    simp [this]
  have hyj : ys[j]? = some (some k') := by
    rw [hys, List.getElem?_append_left (by omega)] at hBj
    exact hBj
  refine ⟨?_, ?_⟩
  · rw [hview, List.getElem?_cons_succ]; exact hyj
  · rcases hc with ⟨_, hv⟩ | ⟨old, _, _, hoy, hv⟩
    · rw [hv, alookup_aset_ne hk]
    · have hmem : some k' ∈ ys := List.mem_of_getElem? hyj
      have hko : k' ≠ old := by rintro rfl; exact hoy hmem
      rw [hv, alookup_aerase_ne hko, alookup_aset_ne hk]

theorem survives_aux (m : Nat) (k v : Bytes) (hm : 2 ≤ m) :
    ∀ (ks : List (Bytes × Bytes)) (s : Shard) (j : Nat), ShardInv m s → s.view[j]? = some (some k) →
      j + ks.length < m - 1 → alookup k s.vals = some v → (∀ p ∈ ks, p.1 ≠ k) →
      alookup k (ks.foldl (fun s p => s.set p.1 p.2) s).vals = some v
  | [], _, _, _, _, _, hv, _ => hv
  | p :: ks, s, j, h, hp, hj, hv, hne => by
    simp only [List.length_cons] at hj
    have hpk : k ≠ p.1 := fun e => hne p List.mem_cons_self e.symm
    obtain ⟨h1, h2⟩ := set_shifts m s p.1 p.2 k j h hm hpk hp (by omega)
    simp only [List.foldl_cons]
    exact survives_aux m k v hm ks (s.set p.1 p.2) (j + 1) (ShardInv.set m s p.1 p.2 h hm) h1 (by omega)
      (h2.trans hv) (fun q hq => hne q (List.mem_cons_of_mem _ hq))

/-- C20: hence an entry is never dropped before ⌈S/N⌉ − 2 further insertions: after `ks.length ≤ m − 2` insertions
    of other keys the entry inserted first is still resident with its value -/
theorem survives (m : Nat) (s : Shard) (k v : Bytes) (ks : List (Bytes × Bytes)) (h : ShardInv m s) (hm : 2 ≤ m)
    (hne : ∀ p ∈ ks, p.1 ≠ k) (hl : ks.length ≤ m - 2) :
    alookup k (ks.foldl (fun s p => s.set p.1 p.2) (s.set k v)).vals = some v := by
  refine survives_aux m k v hm ks (s.set k v) 0 (ShardInv.set m s k v h hm) ?_ (by omega)
    (set_resident m s k v h hm) hne
  rw [set_view m s k v h hm]; rfl

/-- removal and non-inserting HasOrAdd never evict anybody else -/
theorem remove_others (s : Shard) (k k' : Bytes) (hk : k' ≠ k) :
    alookup k' (s.remove k).vals = alookup k' s.vals := by
  unfold Shard.remove
  split
  · exact alookup_aerase_ne hk s.vals
  · rfl

theorem setIfAbsent_present (s : Shard) (k v : Bytes) (hp : (alookup k s.vals).isSome = true) :
    s.setIfAbsent k v = (s, false) := by
  unfold Shard.setIfAbsent; rw [if_pos hp]

theorem setIfAbsent_absent (s : Shard) (k v : Bytes) (hp : (alookup k s.vals).isSome = false) :
    s.setIfAbsent k v = (s.set k v, true) := by
  unfold Shard.setIfAbsent; rw [if_neg (by simp [hp])]

/-- C20, one shard: Keys lists residents in insertion order (oldest first), an overwrite counting as a fresh
    insertion; the key evicted by an insertion, if any, is the oldest position -/
theorem set_keys (m : Nat) (s : Shard) (k v : Bytes) (h : ShardInv m s) (hm : 2 ≤ m) :
    (s.set k v).keys = ((blank k s.view).dropLast.reverse.filterMap id) ++ [k] := by
  unfold Shard.keys
  rw [set_view m s k v h hm]
  simp [List.filterMap_append]

theorem keys_eq_vals (m : Nat) (s : Shard) (h : ShardInv m s) :
    ∀ k, k ∈ s.keys ↔ (alookup k s.vals).isSome = true := by
  intro k
  unfold Shard.keys
  rw [mem_fm, List.mem_reverse, h.agree k]

/-! ### the sharded cache -/

/-- slots per shard: ⌈S/N⌉ when S ≥ N ≥ 1 -/
theorem shardSize_spec (size n : Nat) (hn : 1 ≤ n) (hs : n ≤ size) : shardSize size n = (size + n - 1) / n := by
  have hq : 1 ≤ size / n := (Nat.le_div_iff_mul_le (by omega)).mpr (by omega)
  have hdm := Nat.div_add_mod size n
  have hml := Nat.mod_lt size (show n > 0 by omega)
  unfold shardSize
  simp only [show ¬ (size / n = 0) by omega, if_false]
  symm
  split
  · rename_i hr
    apply Nat.div_eq_of_lt_le
    · rw [Nat.add_mul]; rw [Nat.mul_comm (size / n) n]; omega
    · rw [Nat.add_mul, Nat.add_mul]; rw [Nat.mul_comm (size / n) n]; omega
  · rename_i hr
    have hr0 : size % n = 0 := by omega
    apply Nat.div_eq_of_lt_le
    · rw [Nat.mul_comm (size / n) n]; omega
    · rw [Nat.add_mul]; rw [Nat.mul_comm (size / n) n]; omega

theorem shardSize_ge_two (size n : Nat) (hn : 1 ≤ n) (hs : 2 * n ≤ size) : 2 ≤ shardSize size n := by
  have hq : 2 ≤ size / n := (Nat.le_div_iff_mul_le (by omega)).mpr (by omega)
  unfold shardSize
  simp only [show ¬ (size / n = 0) by omega, if_false]
  split <;> omega

theorem shardSize_pred_le (size n : Nat) (hn : 1 ≤ n) (hs : n ≤ size) : shardSize size n - 1 ≤ size / n := by
  have hq : 1 ≤ size / n := (Nat.le_div_iff_mul_le (by omega)).mpr (by omega)
  unfold shardSize
  simp only [show ¬ (size / n = 0) by omega, if_false]
  split <;> omega

/-- C20: the whole cache never holds more than S entries (S ≥ 2N) -/
def CacheInv (size : Nat) (c : Cache) : Prop :=
  1 ≤ c.n ∧ c.shards.length = c.n ∧ ∀ s ∈ c.shards, ShardInv (shardSize size c.n) s

theorem CacheInv.init (size n : Nat) (hn : 1 ≤ n) : CacheInv size (Cache.init size n) := by
  refine ⟨hn, by simp [Cache.init], ?_⟩
  intro s hs
  simp only [Cache.init] at hs ⊢
  rw [List.eq_of_mem_replicate hs]
  exact ShardInv.init _

theorem idx_lt (size : Nat) (c : Cache) (k : Bytes) (h : CacheInv size c) : c.idx k < c.shards.length := by
  rw [h.2.1]; exact Nat.mod_lt _ (by have := h.1; omega)

theorem shard_mem (size : Nat) (c : Cache) (k : Bytes) (h : CacheInv size c) : c.shard k ∈ c.shards := by
  have hi := idx_lt size c k h
  unfold Cache.shard
  rw [List.getElem?_eq_getElem hi]
  exact List.getElem_mem hi

theorem CacheInv.setShard (size : Nat) (c : Cache) (k : Bytes) (s : Shard) (h : CacheInv size c)
    (hs : ShardInv (shardSize size c.n) s) : CacheInv size (c.setShard k s) := by
  refine ⟨h.1, ?_, ?_⟩
  · simp only [Cache.setShard, List.length_set]; exact h.2.1
  · intro t ht
    simp only [Cache.setShard] at ht ⊢
    rcases List.mem_or_eq_of_mem_set ht with ht | ht
    · exact h.2.2 t ht
    · rw [ht]; exact hs

theorem CacheInv.put (size : Nat) (c : Cache) (k v : Bytes) (h : CacheInv size c) (hs : 2 * c.n ≤ size) :
    CacheInv size (c.put k v).1 :=
  CacheInv.setShard size c k _ h
    (ShardInv.set _ _ k v (h.2.2 _ (shard_mem size c k h)) (shardSize_ge_two size c.n h.1 hs))

theorem CacheInv.hasOrAdd (size : Nat) (c : Cache) (k v : Bytes) (h : CacheInv size c) (hs : 2 * c.n ≤ size) :
    CacheInv size (c.hasOrAdd k v).1 :=
  CacheInv.setShard size c k _ h
    (ShardInv.setIfAbsent _ _ k v (h.2.2 _ (shard_mem size c k h)) (shardSize_ge_two size c.n h.1 hs))

theorem CacheInv.remove (size : Nat) (c : Cache) (k : Bytes) (h : CacheInv size c) : CacheInv size (c.remove k) :=
  CacheInv.setShard size c k _ h (ShardInv.remove _ _ k (h.2.2 _ (shard_mem size c k h)))

theorem sum_map_le {α : Type} (f : α → Nat) (b : Nat) :
    ∀ (l : List α), (∀ x ∈ l, f x ≤ b) → (l.map f).sum ≤ l.length * b
  | [], _ => by simp
  | a :: l, h => by
    have h1 := sum_map_le f b l (fun x hx => h x (List.mem_cons_of_mem _ hx))
    have h2 := h a List.mem_cons_self
    simp only [List.map_cons, List.sum_cons, List.length_cons, Nat.add_mul]
    omega

theorem cache_bound (size : Nat) (c : Cache) (h : CacheInv size c) (hs : 2 * c.n ≤ size) : c.len ≤ size := by
  have h1 := sum_map_le (fun s : Shard => s.vals.length) (shardSize size c.n - 1) c.shards
    (fun s hs => shard_bound _ s (h.2.2 s hs))
  rw [h.2.1] at h1
  have h2 : shardSize size c.n - 1 ≤ size / c.n := shardSize_pred_le size c.n h.1 (by have := h.1; omega)
  have h3 : c.n * (shardSize size c.n - 1) ≤ c.n * (size / c.n) := Nat.mul_le_mul_left _ h2
  have h4 := Nat.mul_div_le size c.n
  unfold Cache.len
  exact Nat.le_trans h1 (Nat.le_trans h3 h4)

/-- C20: HasOrAdd inserts only when the key is absent; handlers fire exactly once per insertion -/
theorem hasOrAdd_flags (c : Cache) (k v : Bytes) :
    let r := c.hasOrAdd k v
    r.2.1 = (c.get k).isSome ∧ r.2.2.1 = !(c.get k).isSome ∧
      r.2.2.2 = (if r.2.2.1 then c.handlers.map (·, k, v) else []) := by
  simp only [Cache.hasOrAdd, Cache.get, Shard.setIfAbsent]
  by_cases hp : (alookup k (c.shard k).vals).isSome = true
  · simp [hp]
  · have hp' : (alookup k (c.shard k).vals).isSome = false := by simpa using hp
    simp [hp']

theorem put_notifies (c : Cache) (k v : Bytes) : (c.put k v).2 = c.handlers.map (·, k, v) := rfl

theorem put_resident (size : Nat) (c : Cache) (k v : Bytes) (h : CacheInv size c) (hs : 2 * c.n ≤ size) :
    (c.put k v).1.get k = some v := by
  have hi := idx_lt size c k h
  have hsh : ((c.put k v).1).shard k = (c.shard k).set k v := by
    simp only [Cache.put, Cache.shard, Cache.setShard, Cache.idx]
    simp only [Cache.idx] at hi
    rw [List.getElem?_set_self hi]; rfl
  unfold Cache.get
  rw [hsh]
  exact set_resident _ _ k v (h.2.2 _ (shard_mem size c k h)) (shardSize_ge_two size c.n h.1 hs)

end SV.Fifo
