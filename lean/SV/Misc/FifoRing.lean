/-
  SV.Misc.FifoRing — faithful slot-array (ring buffer) model of ONE shard of
  github.com/multiversx/concurrent-map v0.1.4 (`ConcurrentMapShard`), the store under `fifocache.FIFOShardedCache`.

      type ConcurrentMapShard struct { maxSize, idxAdd int; mapKeys []string; items map[string]*valWithIndex }

  `SV.Misc.Fifo` models the same shard by its age-ordered view; `Ring.toShard` below is the abstraction function and
  `SV.Misc.FifoRingProofs` proves that it commutes with every operation.

  Conventions
  * `slots : List (Option Bytes)` is `mapKeys`; `none` is the empty string `""`. Keys are non-empty (the C20 domain:
    the Go code tests `len(mapKeys[i]) == 0` / deletes `items[""]`, so the key `""` is indistinguishable from a blank
    slot; in this model `some []` would be a distinct, never blank, key — it is outside the domain).
  * `items : List (Bytes × (Bytes × Nat))` is the Go map `items` as an association list key ↦ (val, arrayIdx);
    `items[key] = x` is `aset`, `delete(items, key)` is `aerase`, `items[key]` is `alookup`.
  * every function is a statement-by-statement transcription; the Go statement is quoted at the right.
-/
import SV.Misc.Fifo
namespace SV.Fifo
open SV

structure Ring where
  m : Nat                                   -- maxSize
  idxAdd : Nat                              -- idxAdd
  slots : List (Option Bytes)               -- mapKeys
  items : List (Bytes × (Bytes × Nat))      -- items
  deriving Repr, DecidableEq

/-- `cmap.New`: `&ConcurrentMapShard{maxSize: shardSize, idxAdd: 0, mapKeys: make([]string, shardSize), items: {}}` -/
def Ring.init (m : Nat) : Ring := ⟨m, 0, List.replicate m none, []⟩

/-- `shard.mapKeys[i]` (reads are always in range under the invariant; out of range reads give `""`) -/
def Ring.slot (r : Ring) (i : Nat) : Option Bytes := (r.slots[i]?).getD none

/-- `appendKeyToList(key, shard)` -/
def Ring.appendKey (r : Ring) (k : Bytes) : Ring :=
  let r1 : Ring := { r with slots := r.slots.set r.idxAdd (some k) }       -- shard.mapKeys[shard.idxAdd] = key
  let r2 : Ring := { r1 with idxAdd := (r1.idxAdd + 1) % r1.m }            -- shard.idxAdd++ ; shard.idxAdd %= shard.maxSize
  let keyToRemove := r2.slot r2.idxAdd                                     -- keyToRemove := shard.mapKeys[shard.idxAdd]
  let r3 : Ring := { r2 with slots := r2.slots.set r2.idxAdd none }        -- shard.mapKeys[shard.idxAdd] = ""
  match keyToRemove with                                                   -- delete(shard.items, keyToRemove)
  | some old => { r3 with items := aerase old r3.items }
  | none => r3                                                             --   (`delete(items, "")` is a no-op)

/-- the slot array after `if ok { shard.mapKeys[v.arrayIdx] = "" }` where `v, ok := shard.items[key]` -/
def Ring.blankSlots (r : Ring) (k : Bytes) : List (Option Bytes) :=
  match alookup k r.items with
  | some (_, i) => r.slots.set i none
  | none => r.slots

/-- `ConcurrentMap.Set` on the shard of the key -/
def Ring.set (r : Ring) (k v : Bytes) : Ring :=
  let old := alookup k r.items                                             -- v, ok := shard.items[key]
  let r1 : Ring := { r with items := aset k (v, r.idxAdd) r.items }        -- shard.items[key] = &valWithIndex{arrayIdx: shard.idxAdd, val: value}
  let r2 : Ring :=
    match old with                                                         -- if ok { shard.mapKeys[v.arrayIdx] = "" }
    | some (_, i) => { r1 with slots := r1.slots.set i none }
    | none => r1
  r2.appendKey k                                                           -- appendKeyToList(key, shard)

/-- `ConcurrentMap.SetIfAbsent` → (shard, `!ok`) -/
def Ring.setIfAbsent (r : Ring) (k v : Bytes) : Ring × Bool :=
  match alookup k r.items with                                             -- _, ok := shard.items[key]
  | some _ => (r, false)                                                   -- return !ok
  | none =>                                                                -- if !ok {
    let r1 : Ring := { r with items := aset k (v, r.idxAdd) r.items }      --   shard.items[key] = &valWithIndex{val: value, arrayIdx: shard.idxAdd}
    (r1.appendKey k, true)                                                 --   appendKeyToList(key, shard) }

/-- `ConcurrentMap.Remove` -/
def Ring.remove (r : Ring) (k : Bytes) : Ring :=
  match alookup k r.items with                                             -- v, ok := shard.items[key]
  | some (_, i) =>                                                         -- if ok {
    { r with slots := r.slots.set i none,                                  --   shard.mapKeys[v.arrayIdx] = ""
             items := aerase k r.items }                                   --   delete(shard.items, key) }
  | none => r

/-- `ConcurrentMap.Get` / `Has` -/
def Ring.get (r : Ring) (k : Bytes) : Option Bytes := (alookup k r.items).map (·.1)

/-- the per-shard loop of `ConcurrentMap.Keys`:
      `for i := last; i != shard.idxAdd; i = (i + 1) % shard.maxSize { if len(shard.mapKeys[i]) == 0 { continue }; ch <- shard.mapKeys[i] }`
    with explicit fuel (structural recursion); `FifoRingProofs.keys_fuel` shows that `maxSize` units of fuel are never exhausted. -/
def Ring.keysLoop (r : Ring) : Nat → Nat → List Bytes
  | 0, _ => []
  | fuel + 1, i =>
    if i = r.idxAdd then []
    else
      match r.slot i with
      | none => r.keysLoop fuel ((i + 1) % r.m)
      | some k => k :: r.keysLoop fuel ((i + 1) % r.m)

/-- keys of one shard in the order in which `Keys()` sends them: `last := shard.idxAdd + 1 ; last %= shard.maxSize ; for i := last …`.
    (Across shards `Keys()` interleaves the per-shard sequences non-deterministically — one goroutine per shard.) -/
def Ring.keys (r : Ring) : List Bytes := r.keysLoop r.m ((r.idxAdd + 1) % r.m)

/-- position in the slot array of the entry of age `j` (0 = youngest) -/
def Ring.vidx (r : Ring) (j : Nat) : Nat := (r.idxAdd + r.m - 1 - j) % r.m

/-- abstraction to the age-ordered model: `view[j] = slots[(idxAdd + m − 1 − j) % m]` for `j < m − 1`, `vals` = `items`
    without the array indices -/
def Ring.toShard (r : Ring) : Shard :=
  ⟨(List.range (r.m - 1)).map (fun j => r.slot (r.vidx j)), r.items.map (fun p => (p.1, p.2.1))⟩

/-! ### operation sequences -/

inductive Op where
  | set (k v : Bytes)
  | setIfAbsent (k v : Bytes)
  | remove (k : Bytes)
  deriving Repr, DecidableEq

/-- one operation on the ring; the output is the flag returned by `SetIfAbsent` -/
def Ring.step (r : Ring) : Op → Ring × Option Bool
  | .set k v => (r.set k v, none)
  | .setIfAbsent k v => ((r.setIfAbsent k v).1, some (r.setIfAbsent k v).2)
  | .remove k => (r.remove k, none)

def Shard.step (s : Shard) : Op → Shard × Option Bool
  | .set k v => (s.set k v, none)
  | .setIfAbsent k v => ((s.setIfAbsent k v).1, some (s.setIfAbsent k v).2)
  | .remove k => (s.remove k, none)

/-- run a sequence of operations, collecting the outputs -/
def Ring.run : Ring → List Op → Ring × List (Option Bool)
  | r, [] => (r, [])
  | r, op :: ops => ((Ring.run (r.step op).1 ops).1, (r.step op).2 :: (Ring.run (r.step op).1 ops).2)

def Shard.run : Shard → List Op → Shard × List (Option Bool)
  | s, [] => (s, [])
  | s, op :: ops => ((Shard.run (s.step op).1 ops).1, (s.step op).2 :: (Shard.run (s.step op).1 ops).2)

end SV.Fifo
