/-
  SV.Misc.Fifo — model of fifocache.FIFOShardedCache over multiversx/concurrent-map v0.1.4.
  Each shard is a ring of m = ⌈S/N⌉ slots of which one is always blank; it is modelled by its AGE-ORDERED VIEW:
  `view : List (Option Bytes)` of length m − 1, youngest first (`none` = hole left by a removal or an overwrite).
-/
import SV.Common
namespace SV.Fifo
open SV

structure Shard where
  view : List (Option Bytes)
  vals : List (Bytes × Bytes)
  deriving Repr

/-- slots per shard as computed by `cmap.New` -/
def shardSize (size n : Nat) : Nat :=
  let s := if size / n = 0 then 1 else size / n
  if size % n ≠ 0 then s + 1 else s

def Shard.init (m : Nat) : Shard := ⟨List.replicate (m - 1) none, []⟩

def blank (k : Bytes) (view : List (Option Bytes)) : List (Option Bytes) :=
  view.map (fun x => if x = some k then none else x)

/-- `appendKeyToList`: the new key becomes the youngest; whatever sat in the oldest position is evicted -/
def Shard.append (s : Shard) (k : Bytes) : Shard :=
  match s.view.getLast? with
  | none => s   -- m = 1: the single slot is blanked at once; nothing is ever resident
  | some last =>
    let view := some k :: s.view.dropLast
    match last with
    | some old => ⟨view, aerase old s.vals⟩
    | none => ⟨view, s.vals⟩

/-- `Set` -/
def Shard.set (s : Shard) (k v : Bytes) : Shard :=
  let s1 : Shard := if (alookup k s.vals).isSome then { s with view := blank k s.view } else s
  let s2 : Shard := { s1 with vals := aset k v s1.vals }
  let s3 := s2.append k
  if s.view.isEmpty then { s3 with vals := aerase k s3.vals } else s3

/-- `SetIfAbsent` → (shard, added) -/
def Shard.setIfAbsent (s : Shard) (k v : Bytes) : Shard × Bool :=
  if (alookup k s.vals).isSome then (s, false) else (s.set k v, true)

def Shard.remove (s : Shard) (k : Bytes) : Shard :=
  if (alookup k s.vals).isSome then ⟨blank k s.view, aerase k s.vals⟩ else s

/-- `Keys` of one shard: oldest first, holes skipped -/
def Shard.keys (s : Shard) : List Bytes := s.view.reverse.filterMap id

structure Cache where
  n : Nat
  shards : List Shard
  handlers : List String
  deriving Repr

def Cache.init (size n : Nat) : Cache := ⟨n, List.replicate n (Shard.init (shardSize size n)), []⟩
def Cache.idx (c : Cache) (k : Bytes) : Nat := fnv32 k % c.n
def Cache.shard (c : Cache) (k : Bytes) : Shard := (c.shards[c.idx k]?).getD ⟨[], []⟩
def Cache.setShard (c : Cache) (k : Bytes) (s : Shard) : Cache := { c with shards := c.shards.set (c.idx k) s }

def Cache.put (c : Cache) (k v : Bytes) : Cache × List (String × Bytes × Bytes) :=
  (c.setShard k ((c.shard k).set k v), c.handlers.map (·, k, v))
def Cache.hasOrAdd (c : Cache) (k v : Bytes) : Cache × Bool × Bool × List (String × Bytes × Bytes) :=
  let (s, added) := (c.shard k).setIfAbsent k v
  (c.setShard k s, !added, added, if added then c.handlers.map (·, k, v) else [])
def Cache.get (c : Cache) (k : Bytes) : Option Bytes := alookup k (c.shard k).vals
def Cache.remove (c : Cache) (k : Bytes) : Cache := c.setShard k ((c.shard k).remove k)
def Cache.clear (c : Cache) : Cache := { c with shards := c.shards.map fun s => ⟨s.view.map (fun _ => none), []⟩ }
def Cache.len (c : Cache) : Nat := (c.shards.map (·.vals.length)).sum
def Cache.keysPerShard (c : Cache) : List (List Bytes) := c.shards.map Shard.keys

end SV.Fifo
