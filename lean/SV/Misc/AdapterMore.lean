/-
  SV.Misc.AdapterMore — C17 for the remaining entry points of storageCacherAdapter:
  HasOrAdd, Remove, Has, Peek, Clear and the `numValuesInStorage` counter behind `Len`.

  Main results
    * `AInv.hasOrAdd`, `AInv.remove`, `AInv.clear`, `AInv.mono`     — the invariant of AdapterProofs is preserved
    * `run_inv2`, `run_never_loses2`                                  — histories over Put/HasOrAdd/Get/Has/Peek/Remove:
                                                                        every live key is reported by Has and returned by Get
    * `mem_liveKeys_iff`                                              — `liveKeys` = inserted by a put/hoa and no later rm
    * `hasOrAdd_spec`, `hasOrAdd_spills`                              — HasOrAdd = Has, then Put when absent; spill clause
    * `remove_has`, `remove_quirk`                                    — what Has says after Remove (the stale spilled copy)
    * `clear_keeps_spilled`, `clear_drops_resident`                   — Clear purges the memory tier only
    * `AL.put_len`, `AL.put_len_domain`, `AL.hasOrAdd_len`, `AL.remove_len`, `len_drift`, `len_negative`
                                                                      — the exact `Len` equations and the counter's drift
-/
import SV.Misc.AdapterProofs
namespace SV.Adapter
open SV SV.LRU

/-! ### association lists: `aerase` -/

section alist
variable {β : Type}

theorem alookup_aerase_self (k : Bytes) (l : List (Bytes × β)) : alookup k (aerase k l) = none := by
  induction l with
  | nil => rfl
  | cons a r ih =>
    obtain ⟨k', v'⟩ := a
    simp only [aerase]
    split
    · exact ih
    · rename_i hne
      simp only [alookup, if_neg hne]
      exact ih

theorem alookup_aerase_ne {k k' : Bytes} (hne : k' ≠ k) (l : List (Bytes × β)) :
    alookup k' (aerase k l) = alookup k' l := by
  induction l with
  | nil => rfl
  | cons a r ih =>
    obtain ⟨k1, v1⟩ := a
    simp only [aerase]
    split
    · rename_i heq
      have h1 : k1 = k := by simpa using heq
      have : ¬ ((k1 == k') = true) := by rw [h1]; simpa using fun h => hne h.symm
      simp only [alookup, if_neg this]
      exact ih
    · simp only [alookup, ih]

end alist

/-! ### the memory tier's `remove` and `purge` -/

theorem remove_entries (c : Cap) (k : Bytes) : (c.remove k).1.entries = c.entries.filter (·.key != k) := by
  unfold Cap.remove
  cases hf : c.find k with
  | none =>
    show c.entries = _
    have hf' : c.entries.find? (·.key == k) = none := hf
    rw [List.find?_eq_none] at hf'
    symm
    rw [List.filter_eq_self]
    intro e he
    have := hf' e he
    simpa using this
  | some e => rfl

theorem remove_flag (c : Cap) (k : Bytes) : (c.remove k).2 = c.has k := by
  unfold Cap.remove
  cases hk : c.has k with
  | true => obtain ⟨e, hf, _, _⟩ := has_find c k hk; rw [hf]
  | false => obtain ⟨hf, _⟩ := has_false c k hk; rw [hf]

theorem has_remove_ne (c : Cap) (k x : Bytes) (hx : x ≠ k) : (c.remove k).1.has x = c.has x := by
  unfold Cap.has
  rw [remove_entries]
  rw [Bool.eq_iff_iff]
  simp only [List.any_eq_true, List.mem_filter, beq_iff_eq, bne_iff_ne, ne_eq]
  constructor
  · intro ⟨e, ⟨he, _⟩, hk⟩; exact ⟨e, he, hk⟩
  · intro ⟨e, he, hk⟩; exact ⟨e, ⟨he, by rw [hk]; exact hx⟩, hk⟩

theorem has_remove_self (c : Cap) (k : Bytes) : (c.remove k).1.has k = false := by
  unfold Cap.has
  rw [remove_entries]
  simp only [List.any_eq_false, List.mem_filter, bne_iff_ne, ne_eq, beq_iff_eq]
  intro e he
  exact he.2

theorem has_purge (c : Cap) (k : Bytes) : c.purge.has k = false := rfl

/-- `Remove` in closed form: the persister is touched only when the key was not resident in memory -/
theorem remove_eq (a : A) (k : Bytes) :
    a.remove k = ⟨(a.mem.remove k).1, if a.mem.has k then a.db else aerase k a.db⟩ := by
  unfold A.remove
  have hfl := remove_flag a.mem k
  cases hr : a.mem.remove k with
  | mk m b =>
    rw [hr] at hfl
    rw [← hfl]
    cases b <;> simp

/-! ### the invariant: Has-or-add, Remove, Clear -/

theorem AInv.mono {V : Bytes → Bytes} {S S' : List Bytes} {a : A} (h : AInv V S a) (hs : ∀ x ∈ S', x ∈ S) :
    AInv V S' a :=
  ⟨h.cap, h.memVals, h.dbVals, fun k hk => h.stored k (hs k hk)⟩

/-- a key reported by `Has` is resident or spilled *with its bound value* -/
theorem AInv.has_stored {V : Bytes → Bytes} {S : List Bytes} {a : A} (h : AInv V S a) (k : Bytes) (hk : a.has k = true) :
    a.mem.has k = true ∨ alookup k a.db = some (V k) := by
  unfold A.has at hk
  rcases Bool.or_eq_true _ _ ▸ hk with hm | hd
  · exact Or.inl hm
  · right
    cases hl : alookup k a.db with
    | none => rw [hl] at hd; cases hd
    | some v => rw [h.dbVals k v hl]

/-- a key reported by `Has` may be added to the tracked set -/
theorem AInv.track {V : Bytes → Bytes} {S : List Bytes} {a : A} (h : AInv V S a) (k : Bytes) (hk : a.has k = true) :
    AInv V (k :: S) a := by
  refine ⟨h.cap, h.memVals, h.dbVals, ?_⟩
  intro x hx
  rcases List.mem_cons.mp hx with rfl | hx
  · exact h.has_stored _ hk
  · exact h.stored x hx

/-- C17 for `HasOrAdd`: afterwards the key is tracked (it was retrievable, or it has just been put) -/
theorem AInv.hasOrAdd (V : Bytes → Bytes) (S : List Bytes) (a : A) (k : Bytes) (size : Int) (h : AInv V S a)
    (hs : 0 ≤ size) (hv : ∀ x, V x ≠ []) : AInv V (k :: S) (a.hasOrAdd LRU.Variant.current k (V k) size).1 := by
  unfold A.hasOrAdd
  cases hk : a.has k with
  | true =>
    simp only [if_true]
    exact h.track k hk
  | false =>
    simp only [Bool.false_eq_true, if_false]
    exact AInv.put V S a k size h hs hv

/-- C17 for `Remove`: every tracked key other than the removed one stays tracked -/
theorem AInv.remove (V : Bytes → Bytes) (S : List Bytes) (a : A) (k : Bytes) (h : AInv V S a) :
    AInv V (S.filter (· != k)) (a.remove k) := by
  rw [remove_eq]
  refine ⟨CapInv.remove a.mem k h.cap, ?_, ?_, ?_⟩
  · intro e he
    have he' : e ∈ (a.mem.remove k).1.entries := he
    rw [remove_entries] at he'
    exact h.memVals e (List.mem_filter.mp he').1
  · intro x v hx
    have hx' : alookup x (if a.mem.has k then a.db else aerase k a.db) = some v := hx
    split at hx'
    · exact h.dbVals x v hx'
    · by_cases hxk : x = k
      · subst hxk; rw [alookup_aerase_self] at hx'; cases hx'
      · rw [alookup_aerase_ne hxk] at hx'; exact h.dbVals x v hx'
  · intro x hx
    obtain ⟨hxS, hne⟩ := List.mem_filter.mp hx
    have hxk : x ≠ k := by simpa using hne
    show (a.mem.remove k).1.has x = true ∨
      alookup x (if a.mem.has k then a.db else aerase k a.db) = some (V x)
    rcases h.stored x hxS with hm | hd
    · left; rw [has_remove_ne _ _ _ hxk]; exact hm
    · right
      split
      · exact hd
      · rw [alookup_aerase_ne hxk]; exact hd

/-- `Clear`: the tracked keys that have a spilled copy stay tracked -/
theorem AInv.clear (V : Bytes → Bytes) (S : List Bytes) (a : A) (h : AInv V S a) :
    AInv V (S.filter (fun k => (alookup k a.db).isSome)) a.clear := by
  refine ⟨CapInv.purge a.mem, ?_, h.dbVals, ?_⟩
  · intro e he; cases he
  · intro x hx
    obtain ⟨_, hsome⟩ := List.mem_filter.mp hx
    right
    show alookup x a.db = some (V x)
    cases hl : alookup x a.db with
    | none => rw [hl] at hsome; cases hsome
    | some v => rw [h.dbVals x v hl]

/-! ### histories over all entry points -/

inductive Op2 where
  | put (k : Bytes) (size : Int)
  | hoa (k : Bytes) (size : Int)
  | get (k : Bytes)
  | has (k : Bytes)
  | peek (k : Bytes)
  | rm (k : Bytes)
  deriving DecidableEq, Repr

/-- one call (values are `V k`; `Has`/`Peek` are read-only) -/
def A.step2 (V : Bytes → Bytes) (a : A) : Op2 → A
  | .put k size => (a.put LRU.Variant.current k (V k) size).1
  | .hoa k size => (a.hasOrAdd LRU.Variant.current k (V k) size).1
  | .get k => (a.get k).1
  | .has _ => a
  | .peek _ => a
  | .rm k => a.remove k

/-- the size argument (if any) is valid -/
def Op2.sizeOk : Op2 → Prop
  | .put _ s => 0 ≤ s
  | .hoa _ s => 0 ≤ s
  | _ => True

/-- does the call insert key `k`?  A `hoa` counts whether or not it found the key: if it found it the key was
    retrievable already (and stays so), otherwise it has just been put. -/
def Op2.inserts (k : Bytes) : Op2 → Bool
  | .put k' _ => k' == k
  | .hoa k' _ => k' == k
  | _ => false

def liveStep (S : List Bytes) : Op2 → List Bytes
  | .put k _ => k :: S
  | .hoa k _ => k :: S
  | .rm k => S.filter (· != k)
  | _ => S

/-- keys inserted by a `put` or a `hoa` and not removed by a later `rm` (see `mem_liveKeys_iff`) -/
def liveKeys (ops : List Op2) : List Bytes := ops.foldl liveStep []

theorem mem_liveStep (k : Bytes) (S : List Bytes) (o : Op2) :
    k ∈ liveStep S o ↔ (k ∈ S ∧ o ≠ .rm k) ∨ o.inserts k = true := by
  cases o with
  | put k' s =>
    simp only [liveStep, Op2.inserts, List.mem_cons, beq_iff_eq, ne_eq, reduceCtorEq, not_false_eq_true, and_true]
    constructor
    · rintro (h | h)
      · exact Or.inr h.symm
      · exact Or.inl h
    · rintro (h | h)
      · exact Or.inr h
      · exact Or.inl h.symm
  | hoa k' s =>
    simp only [liveStep, Op2.inserts, List.mem_cons, beq_iff_eq, ne_eq, reduceCtorEq, not_false_eq_true, and_true]
    constructor
    · rintro (h | h)
      · exact Or.inr h.symm
      · exact Or.inl h
    · rintro (h | h)
      · exact Or.inr h
      · exact Or.inl h.symm
  | rm k' =>
    simp only [liveStep, Op2.inserts, List.mem_filter, bne_iff_ne, ne_eq, Op2.rm.injEq, Bool.false_eq_true, or_false]
    constructor
    · intro ⟨h1, h2⟩; exact ⟨h1, fun h => h2 h.symm⟩
    · intro ⟨h1, h2⟩; exact ⟨h1, fun h => h2 h.symm⟩
  | get _ => simp [liveStep, Op2.inserts]
  | has _ => simp [liveStep, Op2.inserts]
  | peek _ => simp [liveStep, Op2.inserts]

theorem mem_liveFold_iff (k : Bytes) (ops : List Op2) : ∀ S : List Bytes,
    k ∈ ops.foldl liveStep S ↔
      (k ∈ S ∧ Op2.rm k ∉ ops) ∨
      ∃ pre op post, ops = pre ++ op :: post ∧ op.inserts k = true ∧ Op2.rm k ∉ post := by
  induction ops with
  | nil =>
    intro S
    simp
  | cons o r ih =>
    intro S
    simp only [List.foldl_cons]
    rw [ih (liveStep S o), mem_liveStep]
    constructor
    · rintro (⟨(⟨hS, hne⟩ | hins), hr⟩ | ⟨pre, op, post, rfl, hins, hpost⟩)
      · left
        refine ⟨hS, ?_⟩
        intro hm
        rcases List.mem_cons.mp hm with h | h
        · exact hne h.symm
        · exact hr h
      · right
        exact ⟨[], o, r, rfl, hins, hr⟩
      · right
        exact ⟨o :: pre, op, post, rfl, hins, hpost⟩
    · rintro (⟨hS, hnm⟩ | ⟨pre, op, post, heq, hins, hpost⟩)
      · left
        refine ⟨Or.inl ⟨hS, ?_⟩, fun h => hnm (List.mem_cons_of_mem _ h)⟩
        intro h
        exact hnm (by rw [h]; exact List.mem_cons_self)
      · cases pre with
        | nil =>
          simp only [List.nil_append, List.cons.injEq] at heq
          obtain ⟨rfl, rfl⟩ := heq
          exact Or.inl ⟨Or.inr hins, hpost⟩
        | cons p pre' =>
          simp only [List.cons_append, List.cons.injEq] at heq
          obtain ⟨rfl, rfl⟩ := heq
          exact Or.inr ⟨pre', op, post, rfl, hins, hpost⟩

/-- `liveKeys` characterised: `k` is live iff some `put k`/`hoa k` of the history is not followed by a `rm k` -/
theorem mem_liveKeys_iff (k : Bytes) (ops : List Op2) :
    k ∈ liveKeys ops ↔ ∃ pre op post, ops = pre ++ op :: post ∧ op.inserts k = true ∧ Op2.rm k ∉ post := by
  unfold liveKeys
  rw [mem_liveFold_iff]
  simp

theorem AInv.step2 (V : Bytes → Bytes) (hv : ∀ x, V x ≠ []) (S : List Bytes) (a : A) (op : Op2)
    (h : AInv V S a) (hs : op.sizeOk) : AInv V (liveStep S op) (a.step2 V op) := by
  cases op with
  | put k size => exact AInv.put V S a k size h hs hv
  | hoa k size => exact AInv.hasOrAdd V S a k size h hs hv
  | get k => exact AInv.get V S a k h
  | has k => exact h
  | peek k => exact h
  | rm k => exact AInv.remove V S a k h

theorem run_inv2 (V : Bytes → Bytes) (hv : ∀ x, V x ≠ []) (ops : List Op2) :
    ∀ (S : List Bytes) (a : A), AInv V S a → (∀ op ∈ ops, op.sizeOk) →
      AInv V (ops.foldl liveStep S) (ops.foldl (A.step2 V) a) := by
  induction ops with
  | nil => intro S a h _; exact h
  | cons op r ih =>
    intro S a h hs
    simp only [List.foldl_cons]
    exact ih _ _ (AInv.step2 V hv S a op h (hs op List.mem_cons_self)) (fun o ho => hs o (List.mem_cons_of_mem _ ho))

/-- C17, all entry points: after any history of Put / HasOrAdd / Get / Has / Peek / Remove (valid sizes, every key
    bound to one non-empty value) every live key is reported by `Has` and returned by `Get` with its value -/
theorem run_never_loses2 (V : Bytes → Bytes) (hv : ∀ x, V x ≠ []) (cap : Nat) (maxBytes : Int) (ops : List Op2)
    (hs : ∀ op ∈ ops, op.sizeOk) (k : Bytes) (hk : k ∈ liveKeys ops) :
    let a := ops.foldl (A.step2 V) ⟨LRU.Cap.init cap maxBytes, []⟩
    a.has k = true ∧ (a.get k).2 = some (V k) := by
  intro a
  exact retrievable V (liveKeys ops) a k (run_inv2 V hv ops [] _ (AInv.init V cap maxBytes) hs) hk

/-- the same, phrased on the history: a `put k`/`hoa k` not followed by a `rm k` keeps `k` retrievable -/
theorem run_never_loses2' (V : Bytes → Bytes) (hv : ∀ x, V x ≠ []) (cap : Nat) (maxBytes : Int)
    (pre post : List Op2) (op : Op2) (k : Bytes) (hs : ∀ o ∈ pre ++ op :: post, o.sizeOk)
    (hins : op.inserts k = true) (hrm : Op2.rm k ∉ post) :
    let a := (pre ++ op :: post).foldl (A.step2 V) ⟨LRU.Cap.init cap maxBytes, []⟩
    a.has k = true ∧ (a.get k).2 = some (V k) :=
  run_never_loses2 V hv cap maxBytes _ hs k ((mem_liveKeys_iff k _).mpr ⟨pre, op, post, rfl, hins, hrm⟩)

/-! ### HasOrAdd -/

/-- `HasOrAdd` = `Has`, then `Put` when absent (any variant, any value, any size) -/
theorem hasOrAdd_spec (vr : Variant) (a : A) (k v : Bytes) (size : Int) :
    (a.hasOrAdd vr k v size).2.1 = a.has k ∧
    (a.has k = true → a.hasOrAdd vr k v size = (a, true, false)) ∧
    (a.has k = false → a.hasOrAdd vr k v size = ((a.put vr k v size).1, false, (a.put vr k v size).2)) := by
  unfold A.hasOrAdd
  cases hk : a.has k <;> simp

/-- the spill clause of `put_spills` for the Put inside `HasOrAdd`: entries leave the memory tier only by being written
    to the persister in the same step; the `spilled` flag says whether any entry left -/
theorem hasOrAdd_spills (V : Bytes → Bytes) (S : List Bytes) (a : A) (k : Bytes) (size : Int) (h : AInv V S a)
    (hv : ∀ x, V x ≠ []) :
    let r := a.hasOrAdd LRU.Variant.current k (V k) size
    (∀ e ∈ a.mem.entries, e.key ≠ k → r.1.mem.has e.key = false → alookup e.key r.1.db = some e.val) ∧
    (r.2.2 = true ↔ ∃ e ∈ a.mem.entries, e.key ≠ k ∧ r.1.mem.has e.key = false) := by
  intro r
  obtain ⟨_, ht, hf⟩ := hasOrAdd_spec LRU.Variant.current a k (V k) size
  cases hk : a.has k with
  | true =>
    have hr : r = (a, true, false) := ht hk
    rw [hr]
    refine ⟨?_, ?_⟩
    · intro e he _ hnr
      have hnr' : a.mem.has e.key = false := hnr
      rw [has_of_mem a.mem e he] at hnr'; cases hnr'
    · constructor
      · intro h0; cases h0
      · intro ⟨e, he, _, hnr⟩
        have hnr' : a.mem.has e.key = false := hnr
        rw [has_of_mem a.mem e he] at hnr'; cases hnr'
  | false =>
    have hr : r = ((a.put LRU.Variant.current k (V k) size).1, false, (a.put LRU.Variant.current k (V k) size).2) := hf hk
    rw [hr]
    exact put_spills V S a k size h hv

/-! ### Remove and Has -/

/-- what `Has k` says right after `Remove k`: true exactly when the key was resident in memory AND an older spilled
    copy sits in the persister (the coded quirk); in particular a key that was not resident is gone -/
theorem remove_has (a : A) (k : Bytes) :
    (a.remove k).has k = (a.mem.has k && (alookup k a.db).isSome) := by
  rw [remove_eq]
  unfold A.has
  show ((a.mem.remove k).1.has k || (alookup k (if a.mem.has k then a.db else aerase k a.db)).isSome) = _
  rw [has_remove_self]
  cases hk : a.mem.has k with
  | true => simp
  | false => simp [alookup_aerase_self]

/-- other keys are unaffected by `Remove k` -/
theorem remove_has_ne (a : A) (k x : Bytes) (hx : x ≠ k) : (a.remove k).has x = a.has x := by
  rw [remove_eq]
  unfold A.has
  show ((a.mem.remove k).1.has x || (alookup x (if a.mem.has k then a.db else aerase k a.db)).isSome) = _
  rw [has_remove_ne _ _ _ hx]
  split
  · rfl
  · rw [alookup_aerase_ne hx]

/-- the quirk is reachable (cap = 1): put a, put b (a spilled), put a (b spilled; a resident AND spilled), rm a:
    `Has a` is still true and `Get a` still returns the old value -/
theorem remove_quirk :
    let V : Bytes → Bytes := fun k => 7 :: k
    let a := [Op2.put [1] 1, .put [2] 1, .put [1] 1, .rm [1]].foldl (A.step2 V) ⟨LRU.Cap.init 1 100, []⟩
    a.has [1] = true ∧ (a.get [1]).2 = some (V [1]) ∧ [1] ∉ liveKeys [Op2.put [1] 1, .put [2] 1, .put [1] 1, .rm [1]] := by
  decide

/-! ### Clear -/

/-- `Clear` purges the memory tier only: every key whose value is in the persister is still reported by `Has` and
    returned by `Get` (no invariant needed) -/
theorem clear_keeps_spilled (a : A) (k v : Bytes) (h : alookup k a.db = some v) :
    a.clear.has k = true ∧ (a.clear.get k).2 = some v ∧ a.clear.db = a.db ∧ a.clear.mem.entries = [] := by
  refine ⟨?_, ?_, rfl, rfl⟩
  · show (a.mem.purge.has k || (alookup k a.db).isSome) = true
    rw [h]; simp
  · show (match a.mem.purge.get k with
      | (m, some v) => (({ a.clear with mem := m } : A), some v)
      | (_, none) => (a.clear, alookup k a.clear.db)).2 = some v
    have : a.mem.purge.get k = (a.mem.purge, none) := rfl
    rw [this]
    exact h

/-- …and after `Clear` nothing else is retrievable: `Has` is exactly "the persister has the key" -/
theorem clear_has (a : A) (k : Bytes) : a.clear.has k = (alookup k a.db).isSome := by
  show (a.mem.purge.has k || (alookup k a.db).isSome) = _
  rw [has_purge]; simp

/-- under the invariant: the tracked keys with a spilled copy keep their value across `Clear` -/
theorem clear_keeps_tracked (V : Bytes → Bytes) (S : List Bytes) (a : A) (h : AInv V S a) (k : Bytes) (hk : k ∈ S)
    (hd : (alookup k a.db).isSome = true) : a.clear.has k = true ∧ (a.clear.get k).2 = some (V k) :=
  retrievable V _ a.clear k (AInv.clear V S a h) (List.mem_filter.mpr ⟨hk, hd⟩)

/-- `Clear` does drop a key that is resident only (cap = 2: put a; clear) -/
theorem clear_drops_resident :
    let V : Bytes → Bytes := fun k => 7 :: k
    let a := ([Op2.put [1] 1].foldl (A.step2 V) ⟨LRU.Cap.init 2 100, []⟩)
    a.has [1] = true ∧ a.clear.has [1] = false := by
  decide

/-! ### `Len` -/

/-- residents + victims after a write = residents before (+1 for a new key with a valid size) -/
theorem put_resident_count (c : Cap) (k v : Bytes) (size : Int) (h : CapInv c) :
    let r := c.addSizedAndReturnEvicted Variant.current k v size
    (r.1.entries.length : Int) + r.2.length =
      c.entries.length + (if size < 0 ∨ c.has k = true then 0 else 1) := by
  intro r
  show (((c.addSizedCore Variant.current k v size).evictIfNeeded).1.entries.length : Int) +
    ((c.addSizedCore Variant.current k v size).evictIfNeeded).2.length = _
  by_cases hs : size < 0
  · rw [addSizedCore_negative c k v size hs, evictIfNeeded_noop c h.bytes h.fits]
    simp [hs]
  · obtain ⟨rest, _, _, _, h4, _, _⟩ := addSizedCore_shape c k v size h (by omega)
    obtain ⟨hsplit, _⟩ := evictIfNeeded_split _ h4
    have hlen : (c.addSizedCore Variant.current k v size).entries.length =
        ((c.addSizedCore Variant.current k v size).evictIfNeeded).1.entries.length +
        ((c.addSizedCore Variant.current k v size).evictIfNeeded).2.length := by
      conv => lhs; rw [hsplit]
      simp
    have hcore : ((c.addSizedCore Variant.current k v size).entries.length : Int) =
        c.entries.length + (if c.has k = true then 0 else 1) := by
      unfold Cap.addSizedCore
      rw [if_neg hs]
      cases hk : c.has k with
      | true =>
        obtain ⟨old, hfind, _, _⟩ := has_find c k hk
        obtain ⟨hl, _⟩ := filter_find_facts k c.entries old h.keysNodup hfind
        simp only [if_true, Cap.update, hfind, Variant.current, Bool.false_eq_true, if_false, List.length_cons]
        omega
      | false =>
        simp only [Bool.false_eq_true, if_false, Cap.addNew, List.length_cons]
        omega
    simp only [hs, false_or]
    omega

/-- the exact `Len` equation for `Put`: +1 when the key was not resident (and the size is valid), −1 per victim,
    +1 per victim actually written to the persister.  Nothing in it looks at what the persister already holds: the
    counter counts persister WRITES, not distinct spilled keys. -/
theorem AL.put_len (x : AL) (k v : Bytes) (size : Int) (h : CapInv x.a.mem) :
    let victims := (x.a.mem.addSizedAndReturnEvicted Variant.current k v size).2
    (x.put Variant.current k v size).1.len =
      x.len + (if size < 0 ∨ x.a.mem.has k = true then 0 else 1) - victims.length
        + (victims.filter (fun e => !e.val.isEmpty)).length := by
  intro victims
  have hc := put_resident_count x.a.mem k v size h
  simp only at hc
  show (((x.a.mem.addSizedAndReturnEvicted Variant.current k v size).1.entries.length : Int) +
    (x.stored + ((victims.filter (fun e => !e.val.isEmpty)).length : Int))) = _
  unfold AL.len
  have hv : victims = (x.a.mem.addSizedAndReturnEvicted Variant.current k v size).2 := rfl
  rw [← hv] at hc
  omega

/-- in the domain of C17 (bound non-empty values, valid size) every victim is written, so `Len` grows by one exactly
    when the key was not RESIDENT — also when the key already has a spilled copy, and also when a victim overwrites
    its older spilled copy -/
theorem AL.put_len_domain (V : Bytes → Bytes) (hv : ∀ x, V x ≠ []) (S : List Bytes) (x : AL) (k : Bytes) (size : Int)
    (h : AInv V S x.a) (hs : 0 ≤ size) :
    (x.put Variant.current k (V k) size).1.len = x.len + (if x.a.mem.has k = true then 0 else 1) := by
  have hl := AL.put_len x k (V k) size h.cap
  simp only at hl
  rw [hl]
  have hvv := victims_vals V S x.a k size h
  have hfil : ((x.a.mem.addSizedAndReturnEvicted Variant.current k (V k) size).2.filter (fun e => !e.val.isEmpty)) =
      (x.a.mem.addSizedAndReturnEvicted Variant.current k (V k) size).2 := by
    rw [List.filter_eq_self]
    intro e he
    rw [hvv e he]
    cases hV : V e.key with
    | nil => exact absurd hV (hv _)
    | cons _ _ => rfl
  rw [hfil]
  have hns : ¬ size < 0 := by omega
  simp only [hns, false_or]
  omega

theorem AL.hasOrAdd_len (x : AL) (k v : Bytes) (size : Int) :
    (x.hasOrAdd Variant.current k v size).1.len =
      if x.a.has k = true then x.len else (x.put Variant.current k v size).1.len := by
  unfold AL.hasOrAdd
  cases hk : x.a.has k <;> simp

/-- `Remove` always lowers `Len` by one — when the key was resident (one entry less), when it was spilled (counter
    decremented) and ALSO when the key was nowhere (counter decremented all the same) -/
theorem AL.remove_len (x : AL) (k : Bytes) (h : CapInv x.a.mem) : (x.remove k).len = x.len - 1 := by
  unfold AL.remove AL.len
  show (((x.a.remove k).mem.entries.length : Int) + (if x.a.mem.has k = true then x.stored else x.stored - 1)) = _
  rw [remove_eq]
  show ((((x.a.mem.remove k).1.entries.length : Int)) + _) = _
  cases hk : x.a.mem.has k with
  | true =>
    obtain ⟨e, hfind, _, _⟩ := has_find x.a.mem k hk
    obtain ⟨hl, _⟩ := filter_find_facts k x.a.mem.entries e h.keysNodup hfind
    rw [remove_entries]
    simp only [if_true]
    omega
  | false =>
    obtain ⟨hfind, _⟩ := has_false x.a.mem k hk
    have : (x.a.mem.remove k).1 = x.a.mem := by unfold Cap.remove; rw [hfind]
    rw [this]
    simp only [Bool.false_eq_true, if_false]
    omega

/-- the drift (cap = 1): put a, put b, put a → two distinct keys are held (a resident, a and b spilled) but `Len` = 3;
    each further a/b alternation adds one -/
theorem len_drift :
    let V : Bytes → Bytes := fun k => 7 :: k
    let put := fun (x : AL) (k : Bytes) => (x.put Variant.current k (V k) 1).1
    let x0 : AL := ⟨⟨LRU.Cap.init 1 100, []⟩, 0⟩
    let x3 := put (put (put x0 [1]) [2]) [1]
    let x5 := put (put x3 [2]) [1]
    x3.len = 3 ∧ x3.a.keys = [[1], [1], [2]] ∧ x5.len = 5 ∧ x5.a.keys = [[1], [1], [2]] := by
  decide

/-- …and `Len` can go negative: removing an absent key from the empty adapter -/
theorem len_negative : ((⟨⟨LRU.Cap.init 1 100, []⟩, 0⟩ : AL).remove [1]).len = -1 := by
  decide

/-! ### non-vacuity -/

/-- the hypotheses of `run_never_loses2` are satisfiable by a history that exercises every entry point -/
example :
    let ops := [Op2.put [1] 1, .put [2] 1, .hoa [3] 1, .has [1], .peek [2], .get [1], .rm [2], .hoa [1] 1]
    (∀ op ∈ ops, op.sizeOk) ∧ liveKeys ops = [[1], [3], [1]] := by
  refine ⟨?_, by decide⟩
  intro op hop
  simp only [List.mem_cons, List.not_mem_nil, or_false] at hop
  rcases hop with rfl | rfl | rfl | rfl | rfl | rfl | rfl | rfl <;> simp [Op2.sizeOk]

example : ∀ x : Bytes, (fun k : Bytes => (7 : UInt8) :: k) x ≠ [] := by intro x; simp

/-- cap = 2: a `hoa` on a full tier spills the LRU victim `[1]`, reports `spilled = true`, and `[1]` stays retrievable
    from the persister (it is no longer resident); the later `rm [2]` removes `[2]` for good -/
theorem hoa_spill_example :
    let V : Bytes → Bytes := fun k => 7 :: k
    let a0 : A := ⟨LRU.Cap.init 2 100, []⟩
    let a2 := [Op2.put [1] 1, .put [2] 1].foldl (A.step2 V) a0
    let r := a2.hasOrAdd Variant.current [3] (V [3]) 1
    let a4 := [Op2.rm [2]].foldl (A.step2 V) r.1
    r.2.1 = false ∧ r.2.2 = true ∧ r.1.mem.has [1] = false ∧ r.1.peek [1] = none ∧
    r.1.has [1] = true ∧ (r.1.get [1]).2 = some (V [1]) ∧ r.1.has [3] = true ∧
    a4.has [2] = false ∧ a4.has [1] = true ∧ (a4.get [3]).2 = some (V [3]) ∧
    (a2.hasOrAdd Variant.current [1] (V [1]) 1).2 = (true, false) ∧
    (a2.hasOrAdd Variant.current [1] (V [1]) 1).1.mem.entries = a2.mem.entries ∧
    (a2.hasOrAdd Variant.current [1] (V [1]) 1).1.db = a2.db := by
  decide

/-- instance of `AInv.remove`/`AInv.hasOrAdd` hypotheses: the initial state satisfies the invariant -/
example : AInv (fun k => 7 :: k) [] ⟨LRU.Cap.init 2 100, []⟩ := AInv.init _ 2 100

end SV.Adapter

