/-
  SV.TxCache.ListsInvProofs — the list lemmas of `ListProofs` lifted to the pool: every public operation keeps every
  sender list strictly sorted and within the per-sender count limit (`ListsInv`, C04/C06), never changes the
  configuration, and eviction only cuts nonce-suffixes (C07).  All statements hold for every `Variant`.
-/
import SV.TxCache.ListProofs
namespace SV.TxCache

/-! ### association lists -/

theorem mem_of_mem_aset {α β} [BEq α] (k : α) (v : β) (l : List (α × β)) (s : α) (x : β)
    (h : (s, x) ∈ aset k v l) : (s, x) ∈ l ∨ (s = k ∧ x = v) := by
  induction l with
  | nil =>
    simp only [aset, List.mem_singleton, Prod.mk.injEq] at h
    exact Or.inr h
  | cons c r ih =>
    obtain ⟨k', v'⟩ := c
    simp only [aset] at h
    split at h
    · rcases List.mem_cons.mp h with h | h
      · simp only [Prod.mk.injEq] at h; exact Or.inr h
      · exact Or.inl (List.mem_cons_of_mem _ h)
    · rcases List.mem_cons.mp h with h | h
      · exact Or.inl (h ▸ List.mem_cons_self ..)
      · rcases ih h with h | h
        · exact Or.inl (List.mem_cons_of_mem _ h)
        · exact Or.inr h

theorem mem_of_mem_aerase {α β} [BEq α] (k : α) (l : List (α × β)) (s : α) (x : β)
    (h : (s, x) ∈ aerase k l) : (s, x) ∈ l := by
  induction l with
  | nil => simp [aerase] at h
  | cons c r ih =>
    obtain ⟨k', v'⟩ := c
    simp only [aerase] at h
    split at h
    · exact List.mem_cons_of_mem _ (ih h)
    · rcases List.mem_cons.mp h with h | h
      · exact h ▸ List.mem_cons_self ..
      · exact List.mem_cons_of_mem _ (ih h)

theorem mem_of_alookup {α β} [BEq α] [LawfulBEq α] (k : α) (l : List (α × β)) (v : β)
    (h : alookup k l = some v) : (k, v) ∈ l := by
  induction l with
  | nil => simp [alookup] at h
  | cons c r ih =>
    obtain ⟨k', v'⟩ := c
    simp only [alookup] at h
    split at h
    · next hk =>
      have e : k' = k := eq_of_beq hk
      simp only [Option.some.injEq] at h
      rw [e, h]; exact List.mem_cons_self ..
    · exact List.mem_cons_of_mem _ (ih h)

/-! ### relations between the `lists` of two pools -/

/-- every list of `L'` is a sublist of a list of the same sender in `L` -/
def SubLists (L' L : List (Bytes × List Tx)) : Prop :=
  ∀ s x, (s, x) ∈ L' → ∃ y, (s, y) ∈ L ∧ x.Sublist y

/-- every list of `L'` is a prefix of a list of the same sender in `L`, cut at a nonce boundary -/
def PreLists (L' L : List (Bytes × List Tx)) : Prop :=
  ∀ s x, (s, x) ∈ L' → ∃ y suf, (s, y) ∈ L ∧ y = x ++ suf ∧ ∀ a ∈ x, ∀ b ∈ suf, a.nonce < b.nonce

theorem SubLists.refl (L : List (Bytes × List Tx)) : SubLists L L :=
  fun _ x h => ⟨x, h, List.Sublist.refl x⟩

theorem PreLists.refl (L : List (Bytes × List Tx)) : PreLists L L :=
  fun _ x h => ⟨x, [], h, by simp, by simp⟩

theorem PreLists.trans {L₁ L₂ L₃ : List (Bytes × List Tx)} (h₁ : PreLists L₁ L₂) (h₂ : PreLists L₂ L₃) :
    PreLists L₁ L₃ := by
  intro s x hx
  obtain ⟨y, suf₁, hy, ey, hlt₁⟩ := h₁ s x hx
  obtain ⟨z, suf₂, hz, ez, hlt₂⟩ := h₂ s y hy
  refine ⟨z, suf₁ ++ suf₂, hz, by rw [ez, ey, List.append_assoc], ?_⟩
  intro a ha b hb
  rcases List.mem_append.mp hb with hb | hb
  · exact hlt₁ a ha b hb
  · exact hlt₂ a (by rw [ey]; exact List.mem_append_left _ ha) b hb

theorem PreLists.toSub {L' L : List (Bytes × List Tx)} (h : PreLists L' L) : SubLists L' L := by
  intro s x hx
  obtain ⟨y, suf, hy, ey, -⟩ := h s x hx
  exact ⟨y, hy, by rw [ey]; exact List.sublist_append_left x suf⟩

theorem SubLists.of_subset {L' L : List (Bytes × List Tx)} (h : ∀ s x, (s, x) ∈ L' → (s, x) ∈ L) : SubLists L' L :=
  fun s x hx => ⟨x, h s x hx, List.Sublist.refl x⟩

theorem PreLists.of_subset {L' L : List (Bytes × List Tx)} (h : ∀ s x, (s, x) ∈ L' → (s, x) ∈ L) : PreLists L' L :=
  fun s x hx => ⟨x, [], h s x hx, by simp, by simp⟩

theorem ListsInv.of_sub {p q : Pool} (hi : ListsInv p) (hcfg : q.cfg = p.cfg) (hs : SubLists q.lists p.lists) :
    ListsInv q := by
  constructor
  · intro s l hl
    obtain ⟨y, hy, hsub⟩ := hs s l hl
    exact (hi.sorted s y hy).sublist hsub
  · intro s l hl
    obtain ⟨y, hy, hsub⟩ := hs s l hl
    have := hi.count s y hy
    have := hsub.length_le
    rw [hcfg]; omega

/-! ### the hash index and the sender registry do not touch the lists -/

theorem lists_byHashRemove (p : Pool) (h : Bytes) : (byHashRemove p h).lists = p.lists := by
  unfold byHashRemove; split <;> rfl

theorem cfg_byHashRemove (p : Pool) (h : Bytes) : (byHashRemove p h).cfg = p.cfg := by
  unfold byHashRemove; split <;> rfl

theorem lists_removeBulk (p : Pool) (hs : List Bytes) : (removeBulk p hs).lists = p.lists := by
  unfold removeBulk
  induction hs generalizing p with
  | nil => rfl
  | cons h hs ih => rw [List.foldl_cons, ih, lists_byHashRemove]

theorem cfg_removeBulk (p : Pool) (hs : List Bytes) : (removeBulk p hs).cfg = p.cfg := by
  unfold removeBulk
  induction hs generalizing p with
  | nil => rfl
  | cons h hs ih => rw [List.foldl_cons, ih, cfg_byHashRemove]

theorem cfg_removeSenderIfEmpty (p : Pool) (s : Bytes) : (removeSenderIfEmpty p s).cfg = p.cfg := by
  unfold removeSenderIfEmpty; split <;> rfl

theorem mem_lists_removeSenderIfEmpty (p : Pool) (k s : Bytes) (x : List Tx)
    (h : (s, x) ∈ (removeSenderIfEmpty p k).lists) : (s, x) ∈ p.lists := by
  unfold removeSenderIfEmpty at h
  split at h
  · exact mem_of_mem_aerase _ _ _ _ h
  · exact h

/-! ### eviction -/

theorem cfg_applyThreshold (v : Variant) (p : Pool) (sn : Bytes × Nat) : (applyThreshold v p sn).cfg = p.cfg := by
  unfold applyThreshold
  split
  · rfl
  · dsimp only
    split
    · rw [cfg_removeSenderIfEmpty]
    · rw [cfg_removeBulk, cfg_removeSenderIfEmpty]

theorem lists_applyThreshold (v : Variant) (p : Pool) (sn : Bytes × Nat) (hi : ListsInv p) :
    PreLists (applyThreshold v p sn).lists p.lists := by
  unfold applyThreshold
  split
  · exact PreLists.refl _
  · next l hl =>
    dsimp only
    have hmem : (sn.1, l) ∈ p.lists := mem_of_alookup _ _ _ hl
    have key : PreLists (removeSenderIfEmpty { p with lists := aset sn.1 (keepLower sn.2 l) p.lists } sn.1).lists
        p.lists := by
      intro s x hx
      have hx' := mem_lists_removeSenderIfEmpty _ _ _ _ hx
      dsimp only at hx'
      rcases mem_of_mem_aset _ _ _ _ _ hx' with hx' | ⟨es, ex⟩
      · exact ⟨x, [], hx', by simp, by simp⟩
      · obtain ⟨suf, hsuf, hge⟩ := keepLower_prefix_all sn.2 l
        refine ⟨l, suf, es ▸ hmem, by rw [ex]; exact hsuf, ?_⟩
        intro a ha b hb
        rw [ex, keepLower_eq_filter sn.2 l (hi.sorted _ _ hmem).nonceSorted] at ha
        have ha' := (List.mem_filter.mp ha).2
        simp only [decide_eq_true_eq] at ha'
        have := hge b hb
        omega
    split
    · exact key
    · rw [lists_removeBulk]; exact key

theorem cfg_foldl_applyThreshold (v : Variant) (ths : List (Bytes × Nat)) (p : Pool) :
    (ths.foldl (applyThreshold v) p).cfg = p.cfg := by
  induction ths generalizing p with
  | nil => rfl
  | cons sn ths ih => rw [List.foldl_cons, ih, cfg_applyThreshold]

theorem lists_foldl_applyThreshold (v : Variant) (ths : List (Bytes × Nat)) (p : Pool) (hi : ListsInv p) :
    PreLists (ths.foldl (applyThreshold v) p).lists p.lists := by
  induction ths generalizing p with
  | nil => exact PreLists.refl _
  | cons sn ths ih =>
    rw [List.foldl_cons]
    have h1 := lists_applyThreshold v p sn hi
    have hi1 : ListsInv (applyThreshold v p sn) := hi.of_sub (cfg_applyThreshold v p sn) h1.toSub
    exact (ih _ hi1).trans h1

theorem cfg_applyVictims (v : Variant) (p : Pool) (victims : List Tx) : (applyVictims v p victims).cfg = p.cfg := by
  unfold applyVictims
  dsimp only
  rw [cfg_removeBulk, cfg_foldl_applyThreshold]

theorem lists_applyVictims (v : Variant) (p : Pool) (victims : List Tx) (hi : ListsInv p) :
    PreLists (applyVictims v p victims).lists p.lists := by
  unfold applyVictims
  dsimp only
  rw [lists_removeBulk]
  exact lists_foldl_applyThreshold v _ p hi

theorem cfg_evictLoop (v : Variant) (fuel : Nat) (p : Pool) (heap : List HItem) :
    (evictLoop v fuel p heap).cfg = p.cfg := by
  induction fuel generalizing p heap with
  | zero => rfl
  | succ fuel ih =>
    unfold evictLoop
    split
    · generalize collectVictims v p.cfg.numItemsToEvict heap [] = r
      obtain ⟨victims, heap'⟩ := r
      dsimp only
      split
      · rfl
      · rw [ih, cfg_applyVictims]
    · rfl

theorem lists_evictLoop (v : Variant) (fuel : Nat) (p : Pool) (heap : List HItem) (hi : ListsInv p) :
    PreLists (evictLoop v fuel p heap).lists p.lists := by
  induction fuel generalizing p heap with
  | zero => exact PreLists.refl _
  | succ fuel ih =>
    unfold evictLoop
    split
    · generalize collectVictims v p.cfg.numItemsToEvict heap [] = r
      obtain ⟨victims, heap'⟩ := r
      dsimp only
      split
      · exact PreLists.refl _
      · have h1 := lists_applyVictims v p victims hi
        have hi1 : ListsInv (applyVictims v p victims) := hi.of_sub (cfg_applyVictims v p victims) h1.toSub
        exact (ih _ heap' hi1).trans h1
    · exact PreLists.refl _

theorem cfg_evict (v : Variant) (p : Pool) : (evict v p).cfg = p.cfg := by
  unfold evict
  split
  · exact cfg_evictLoop ..
  · rfl

theorem lists_evict (v : Variant) (p : Pool) (hi : ListsInv p) : PreLists (evict v p).lists p.lists := by
  unfold evict
  split
  · exact lists_evictLoop v _ p _ hi
  · exact PreLists.refl _

/-- eviction only ever replaces a list by a prefix of itself (or drops it) -/
theorem ListsInv.evict (v : Variant) (p : Pool) (hi : ListsInv p) : ListsInv (evict v p) :=
  hi.of_sub (cfg_evict v p) (lists_evict v p hi).toSub

/-- C07 (suffix removal): eviction leaves every surviving sender list a PREFIX of its old list, and what it cut off
    is exactly the part with nonces ≥ some threshold: every removed transaction has a nonce strictly above every kept one -/
theorem evict_lists_prefix (v : Variant) (p : Pool) (hi : ListsInv p) (s : Bytes) (l' : List Tx)
    (h : (s, l') ∈ (evict v p).lists) :
    ∃ l suf, (s, l) ∈ p.lists ∧ l = l' ++ suf ∧ ∀ a ∈ l', ∀ b ∈ suf, a.nonce < b.nonce :=
  lists_evict v p hi s l' h

/-- C07: nothing is evicted while the pool is within its thresholds -/
theorem evict_noop (v : Variant) (p : Pool) (h : p.exceeded = false) : evict v p = p := by
  unfold evict
  simp [h]

/-! ### init, clear, removal -/

theorem ListsInv.init (cfg : Config) : ListsInv (Pool.init cfg) := by
  constructor <;> intro s l hl <;> simp [Pool.init] at hl

theorem cfg_clear (v : Variant) (p : Pool) : (clear v p).cfg = p.cfg := rfl

theorem ListsInv.clear (v : Variant) (p : Pool) : ListsInv (clear v p) := by
  constructor <;> intro s l hl <;> simp [SV.TxCache.clear] at hl

theorem cfg_removeTxByHash (p : Pool) (h : Bytes) : (removeTxByHash p h).1.cfg = p.cfg := by
  unfold removeTxByHash
  split
  · rfl
  · dsimp only
    split
    · exact cfg_byHashRemove p h
    · dsimp only
      rw [cfg_removeBulk, cfg_removeSenderIfEmpty]
      exact cfg_byHashRemove p h

theorem dropLowerOrEqual_sublist (n : Nat) (l : List Tx) : (dropLowerOrEqual n l).Sublist l := by
  obtain ⟨pre, hpre, -⟩ := dropLowerOrEqual_suffix n l
  have h := List.sublist_append_right pre (dropLowerOrEqual n l)
  rw [← hpre] at h
  exact h

theorem lists_removeTxByHash (p : Pool) (h : Bytes) : SubLists (removeTxByHash p h).1.lists p.lists := by
  unfold removeTxByHash
  split
  · exact SubLists.refl _
  · next t _ =>
    dsimp only
    split
    · rw [lists_byHashRemove]; exact SubLists.refl _
    · next l hl =>
      dsimp only
      rw [lists_removeBulk]
      rw [lists_byHashRemove] at hl
      intro s x hx
      have hx' := mem_lists_removeSenderIfEmpty _ _ _ _ hx
      dsimp only at hx'
      rw [lists_byHashRemove] at hx'
      rcases mem_of_mem_aset _ _ _ _ _ hx' with hx' | ⟨es, ex⟩
      · exact ⟨x, hx', List.Sublist.refl x⟩
      · exact ⟨l, es ▸ mem_of_alookup _ _ _ hl, ex ▸ dropLowerOrEqual_sublist _ _⟩

theorem ListsInv.removeTxByHash (p : Pool) (h : Bytes) (hi : ListsInv p) : ListsInv (removeTxByHash p h).1 :=
  hi.of_sub (cfg_removeTxByHash p h) (lists_removeTxByHash p h)

/-! ### insertion -/

theorem ListsInv.removeBulk {p : Pool} (hi : ListsInv p) (hs : List Bytes) : ListsInv (removeBulk p hs) :=
  hi.of_sub (cfg_removeBulk p hs) (by rw [lists_removeBulk]; exact SubLists.refl _)

theorem ListsInv.removeSenderIfEmpty {p : Pool} (hi : ListsInv p) (s : Bytes) : ListsInv (removeSenderIfEmpty p s) :=
  hi.of_sub (cfg_removeSenderIfEmpty p s) (SubLists.of_subset (mem_lists_removeSenderIfEmpty p s))

theorem ListsInv.aset {p : Pool} (hi : ListsInv p) (k : Bytes) (x : List Tx) (hs : ListSorted x)
    (hc : x.length ≤ p.cfg.countPerSender) : ListsInv { p with lists := aset k x p.lists } := by
  constructor
  · intro s l hl
    rcases mem_of_mem_aset _ _ _ _ _ hl with hl | ⟨-, e⟩
    · exact hi.sorted s l hl
    · rw [e]; exact hs
  · intro s l hl
    rcases mem_of_mem_aset _ _ _ _ _ hl with hl | ⟨-, e⟩
    · exact hi.count s l hl
    · rw [e]; exact hc

/-- `addTx` in four stages (definitionally the same function) -/
def addS1 (v : Variant) (p0 : Pool) : Pool := if p0.cfg.evictionEnabled then evict v p0 else p0

def addS2 (p : Pool) (t : Tx) : Pool × Bool :=
  match alookup t.hash p.byHash with
  | some _ => (p, false)
  | none => ({ p with byHash := p.byHash ++ [(t.hash, t)], cntTx := p.cntTx + 1, numBytes := p.numBytes + t.size }, true)

def addS3 (p : Pool) (t : Tx) : Pool × List Tx :=
  match alookup t.sender p.lists with
  | some l => (p, l)
  | none => ({ p with lists := p.lists ++ [(t.sender, [])], cntSenders := p.cntSenders + 1 }, [])

def addS4 (v : Variant) (p : Pool) (t : Tx) (l : List Tx) (added : Bool) : Pool × Bool :=
  match insertTx t l with
  | none => (p, added)
  | some l' =>
    let (l'', dropped) := trim1 p.cfg l'
    let p := { p with lists := aset t.sender l'' p.lists }
    let p := if v.keepsEmptySender then p else removeSenderIfEmpty p t.sender
    (removeBulk p (dropped.map (·.hash)), true)

theorem addTx_eq (v : Variant) (p0 : Pool) (t : Tx) :
    addTx v p0 t =
      addS4 v (addS3 (addS2 (addS1 v p0) t).1 t).1 t (addS3 (addS2 (addS1 v p0) t).1 t).2 (addS2 (addS1 v p0) t).2 := rfl

theorem cfg_addS1 (v : Variant) (p : Pool) : (addS1 v p).cfg = p.cfg := by
  unfold addS1; split
  · exact cfg_evict v p
  · rfl

theorem ListsInv.addS1 (v : Variant) (p : Pool) (hi : ListsInv p) : ListsInv (addS1 v p) := by
  unfold SV.TxCache.addS1; split
  · exact hi.evict v p
  · exact hi

theorem cfg_addS2 (p : Pool) (t : Tx) : (addS2 p t).1.cfg = p.cfg := by
  unfold addS2; split <;> rfl

theorem lists_addS2 (p : Pool) (t : Tx) : (addS2 p t).1.lists = p.lists := by
  unfold addS2; split <;> rfl

theorem cfg_addS3 (p : Pool) (t : Tx) : (addS3 p t).1.cfg = p.cfg := by
  unfold addS3; split <;> rfl

theorem ListsInv.addS3 (p : Pool) (t : Tx) (hi : ListsInv p) :
    ListsInv (addS3 p t).1 ∧ ListSorted (addS3 p t).2 ∧ (addS3 p t).2.length ≤ p.cfg.countPerSender := by
  unfold SV.TxCache.addS3; split
  · next l hl =>
    have hm := mem_of_alookup _ _ _ hl
    exact ⟨hi, hi.sorted _ _ hm, hi.count _ _ hm⟩
  · refine ⟨⟨?_, ?_⟩, List.Pairwise.nil, Nat.zero_le _⟩
    · intro s l hl
      rcases List.mem_append.mp hl with hl | hl
      · exact hi.sorted s l hl
      · simp only [List.mem_singleton, Prod.mk.injEq] at hl
        rw [hl.2]; exact List.Pairwise.nil
    · intro s l hl
      rcases List.mem_append.mp hl with hl | hl
      · exact hi.count s l hl
      · simp only [List.mem_singleton, Prod.mk.injEq] at hl
        rw [hl.2]; exact Nat.zero_le _

theorem cfg_addS4 (v : Variant) (p : Pool) (t : Tx) (l : List Tx) (added : Bool) :
    (addS4 v p t l added).1.cfg = p.cfg := by
  unfold addS4; split
  · rfl
  · next l' _ =>
    generalize trim1 p.cfg l' = r
    obtain ⟨l'', dropped⟩ := r
    dsimp only
    rw [cfg_removeBulk]
    split
    · rfl
    · rw [cfg_removeSenderIfEmpty]

theorem ListsInv.addS4 (v : Variant) (p : Pool) (t : Tx) (l : List Tx) (added : Bool) (hi : ListsInv p)
    (hs : ListSorted l) (hc : l.length ≤ p.cfg.countPerSender) : ListsInv (addS4 v p t l added).1 := by
  unfold SV.TxCache.addS4; split
  · exact hi
  · next l' hins =>
    rw [insertTx_eq_orderedInsert t l hs] at hins
    split at hins
    · exact absurd hins (by simp)
    · next hnd =>
      simp only [Option.some.injEq] at hins
      have hs' : ListSorted l' := hins ▸ orderedInsert_sorted t l hs hnd
      have hlen : l'.length = l.length + 1 := by
        rw [← hins, (orderedInsert_perm t l).length_eq, List.length_cons]
      have hs'' : ListSorted (trim1 p.cfg l').1 := trim1_sorted p.cfg l' hs'
      have hc'' : (trim1 p.cfg l').1.length ≤ p.cfg.countPerSender := by
        rcases trim1_count p.cfg l' (by omega) with h | h <;> omega
      generalize trim1 p.cfg l' = r at hs'' hc''
      obtain ⟨l'', dropped⟩ := r
      dsimp only at hs'' hc'' ⊢
      apply ListsInv.removeBulk
      have h1 := hi.aset t.sender l'' hs'' hc''
      split
      · exact h1
      · exact h1.removeSenderIfEmpty t.sender

/-- the configuration never changes -/
theorem cfg_addTx (v : Variant) (p : Pool) (t : Tx) : (addTx v p t).1.cfg = p.cfg := by
  rw [addTx_eq, cfg_addS4, cfg_addS3, cfg_addS2, cfg_addS1]

/-- C06: after every insertion each sender holds at most CountPerSenderThreshold transactions, and every list stays strictly sorted (C04) -/
theorem ListsInv.addTx (v : Variant) (p : Pool) (t : Tx) (hi : ListsInv p) (hc : 1 ≤ p.cfg.countPerSender) :
    ListsInv (addTx v p t).1 := by
  have _ := hc   -- not needed: with limit 0 the inserted transaction is trimmed away again
  rw [addTx_eq]
  have h1 := hi.addS1 v p
  have h2 : ListsInv (addS2 (SV.TxCache.addS1 v p) t).1 :=
    h1.of_sub (cfg_addS2 _ t) (by rw [lists_addS2]; exact SubLists.refl _)
  obtain ⟨h3, h3s, h3c⟩ := h2.addS3 _ t
  rw [← cfg_addS3 _ t] at h3c
  exact h3.addS4 v _ t _ _ h3s h3c

end SV.TxCache
