/-
  SV.TxCache.AddCommute — property C14: "transactions added by concurrent AddTx calls in the absence of removals and
  eviction are all present and correctly ordered".

  In the Go code (`/repo/txcache/txCache.go`, `AddTx`) both index updates (`txByHash.addTx`,
  `txListBySender.addTxReturnEvicted`) happen inside ONE critical section (`mutTxOperation`).  The only part of `AddTx`
  outside it is `txByHash.RemoveTxsBulk(evicted)`, which does nothing when no per-sender limit is hit (`evicted` is
  empty), and `doEviction`, which is not called when eviction is disabled.  Hence a set of concurrent `AddTx` calls (no
  `RemoveTxByHash`, eviction disabled, per-sender limits not reached) is executed as SOME sequential order of these
  calls, i.e. as `addAll cfg txs'` for some permutation `txs'` of the submitted transactions.  This file proves that the
  resulting pool does not depend on that order (as far as it can be observed: per-sender lookup, per-hash lookup, the
  three counters, the selection), contains every transaction, and orders every sender's list correctly.

  The only thing that DOES depend on the order is the position of the senders inside the association list
  `Pool.lists` (the model's stand-in for a Go map, whose iteration order is unspecified anyway): see
  `AddCommuteEx.senders_order_differs`.
-/
import SV.TxCache.ReachableProofs
namespace SV.TxCache
open C5

/-! ### 1. a strictly sorted list is determined by its elements -/

/-- two strictly sorted lists (`ListSorted`: nonce ↑, gas price ↓, hash ↑) that are permutations of each other are equal -/
theorem sorted_perm_unique : ∀ {l₁ l₂ : List Tx}, ListSorted l₁ → ListSorted l₂ → l₁.Perm l₂ → l₁ = l₂
  | [], l₂, _, _, hp => (List.Perm.nil_eq hp)
  | a :: r₁, [], _, _, hp => absurd hp.length_eq (by simp)
  | a :: r₁, b :: r₂, h₁, h₂, hp => by
    have h₁' := List.pairwise_cons.mp h₁
    have h₂' := List.pairwise_cons.mp h₂
    have hab : a = b := by
      by_cases e : a = b
      · exact e
      · exfalso
        have ha : a ∈ r₂ := by
          rcases List.mem_cons.mp (hp.mem_iff.mp (List.mem_cons_self ..)) with h | h
          · exact absurd h e
          · exact h
        have hb : b ∈ r₁ := by
          rcases List.mem_cons.mp (hp.mem_iff.mpr (List.mem_cons_self ..)) with h | h
          · exact absurd h.symm e
          · exact h
        have := listLt_asymm a b (h₁'.1 b hb)
        rw [h₂'.1 a ha] at this
        exact absurd this (by decide)
    subst hab
    rw [sorted_perm_unique h₁'.2 h₂'.2 hp.cons_inv]

/-! ### 2. the sequential execution of a batch of AddTx calls; "no limit is hit" -/

/-- the pool after the calls `AddTx(txs[0])`, `AddTx(txs[1])`, … on an empty pool, in this order -/
def addAll (cfg : Config) (txs : List Tx) : Pool :=
  txs.foldl (fun p t => (addTx Variant.current p t).1) (Pool.init cfg)

/-- the transactions of sender `s` in a batch, in batch order -/
def ofSender (s : Bytes) (txs : List Tx) : List Tx := txs.filter (fun t => decide (t.sender = s))

/-- eviction is disabled and no sender of the batch exceeds a per-sender limit (count, bytes) with ALL its
    transactions of the batch -/
def NoLimitHit (cfg : Config) (txs : List Tx) : Prop :=
  cfg.evictionEnabled = false ∧
  ∀ s, (ofSender s txs).length ≤ cfg.countPerSender ∧ listBytes (ofSender s txs) ≤ cfg.numBytesPerSender

theorem mem_ofSender {s : Bytes} {txs : List Tx} {t : Tx} : t ∈ ofSender s txs ↔ t ∈ txs ∧ t.sender = s := by
  simp [ofSender]

theorem ofSender_perm {txs txs' : List Tx} (hp : txs.Perm txs') (s : Bytes) : (ofSender s txs).Perm (ofSender s txs') :=
  hp.filter _

theorem ofSender_append (s : Bytes) (a b : List Tx) : ofSender s (a ++ b) = ofSender s a ++ ofSender s b :=
  List.filter_append a b

theorem listBytes_perm {l l' : List Tx} (hp : l.Perm l') : listBytes l = listBytes l' := by
  unfold listBytes
  exact (hp.map _).sum_nat

theorem listBytes_sublist {l l' : List Tx} (hs : l.Sublist l') : listBytes l ≤ listBytes l' := by
  induction hs with
  | slnil => exact Nat.le_refl _
  | cons a _ ih => simp only [listBytes, List.map_cons, List.sum_cons] at ih ⊢; omega
  | cons_cons a _ ih => simp only [listBytes, List.map_cons, List.sum_cons] at ih ⊢; omega

/-- the hypothesis does not depend on the order of the batch -/
theorem NoLimitHit.perm {cfg : Config} {txs txs' : List Tx} (h : NoLimitHit cfg txs) (hp : txs.Perm txs') :
    NoLimitHit cfg txs' := by
  refine ⟨h.1, fun s => ?_⟩
  have hp' := ofSender_perm hp s
  rw [← hp'.length_eq, ← listBytes_perm hp']
  exact h.2 s

/-- a list made of (some of) the batch's transactions of one sender is within the per-sender limits -/
theorem NoLimitHit.not_exceeded {cfg : Config} {txs : List Tx} (h : NoLimitHit cfg txs) {s : Bytes} {l m : List Tx}
    (hp : l.Perm m) (hs : m.Sublist (ofSender s txs)) : senderExceeded cfg l = false := by
  have h1 := hs.length_le
  have h2 := listBytes_sublist hs
  have h3 := hp.length_eq
  have h4 := listBytes_perm hp
  obtain ⟨h5, h6⟩ := h.2 s
  simp only [senderExceeded, Bool.or_eq_false_iff, decide_eq_false_iff_not]
  omega

/-- consequence of `NoLimitHit`: `trim1` (applySizeConstraints) never drops anything from a list made of (some of) the
    batch's transactions of one sender -/
theorem NoLimitHit.trim1_id {cfg : Config} {txs : List Tx} (h : NoLimitHit cfg txs) {s : Bytes} {l m : List Tx}
    (hp : l.Perm m) (hs : m.Sublist (ofSender s txs)) : trim1 cfg l = (l, []) := by
  rw [trim1_spec, h.not_exceeded hp hs]
  rfl

/-! ### the state after a prefix of the batch -/

/-- what holds after the calls for `pre` have been executed -/
structure AddedSt (U : Bytes → Tx) (cfg : Config) (pre : List Tx) (p : Pool) : Prop where
  inv : Inv U p
  sorted : ListsSorted p
  cfgEq : p.cfg = cfg
  /-- the list of every sender consists of its transactions of `pre` (no entry ≙ `[]`) -/
  content : ∀ s, ((alookup s p.lists).getD []).Perm (ofSender s pre)

theorem AddedSt.init (U : Bytes → Tx) (cfg : Config) : AddedSt U cfg [] (Pool.init cfg) :=
  ⟨Inv.init U cfg, ListsSorted.init cfg, rfl, fun _ => List.Perm.refl _⟩

/-- whatever is listed under a sender belongs to that sender and to `pre` -/
theorem AddedSt.mem_of_listed {U : Bytes → Tx} {cfg : Config} {pre : List Tx} {p : Pool} (h : AddedSt U cfg pre p)
    {s : Bytes} {l : List Tx} {x : Tx} (hl : alookup s p.lists = some l) (hx : x ∈ l) : x ∈ pre ∧ x.sender = s := by
  have hc := h.content s
  rw [hl] at hc
  exact mem_ofSender.mp (hc.mem_iff.mp hx)

/-- a transaction of `pre` is listed under its sender -/
theorem AddedSt.listed_of_mem {U : Bytes → Tx} {cfg : Config} {pre : List Tx} {p : Pool} (h : AddedSt U cfg pre p)
    {x : Tx} (hx : x ∈ pre) : ∃ l, alookup x.sender p.lists = some l ∧ x ∈ l := by
  have hc := h.content x.sender
  have hm : x ∈ (alookup x.sender p.lists).getD [] := hc.mem_iff.mpr (mem_ofSender.mpr ⟨hx, rfl⟩)
  cases hl : alookup x.sender p.lists with
  | none => rw [hl] at hm; simp at hm
  | some l => rw [hl] at hm; exact ⟨l, rfl, hm⟩

/-- the hash index holds exactly the transactions of `pre`, each under its own hash -/
theorem AddedSt.byHash_iff {U : Bytes → Tx} {cfg : Config} {pre : List Tx} {p : Pool} (h : AddedSt U cfg pre p)
    (k : Bytes) (x : Tx) : alookup k p.byHash = some x ↔ x ∈ pre ∧ x.hash = k := by
  constructor
  · intro hk
    have hm := alookup_some_mem hk
    obtain ⟨hh, -⟩ := h.inv.wfHash k x hm
    rw [← hh] at hm
    obtain ⟨s, l, hml, hxl⟩ := (h.inv.same x).mp hm
    exact ⟨(h.mem_of_listed (alookup_of_mem h.inv.sendersNodup hml) hxl).1, hh⟩
  · rintro ⟨hx, rfl⟩
    obtain ⟨l, hl, hxl⟩ := h.listed_of_mem hx
    exact Inv.listed_is_hashed U p h.inv _ l x hl hxl

/-- the list of a sender (no entry ≙ `[]`) is strictly sorted -/
theorem AddedSt.getD_sorted {U : Bytes → Tx} {cfg : Config} {pre : List Tx} {p : Pool} (h : AddedSt U cfg pre p)
    (s : Bytes) : ListSorted ((alookup s p.lists).getD []) := by
  cases hl : alookup s p.lists with
  | none => exact List.Pairwise.nil
  | some l => exact h.sorted s l (alookup_some_mem hl)

/-- one more call: a well-formed transaction with a new hash whose sender stays within the per-sender limits -/
theorem AddedSt.step {U : Bytes → Tx} {cfg : Config} {pre : List Tx} {p : Pool} (h : AddedSt U cfg pre p) (t : Tx)
    (he : cfg.evictionEnabled = false) (ht : WfTx U t) (hfresh : ∀ x ∈ pre, x.hash ≠ t.hash)
    (hlim : senderExceeded cfg (orderedInsert t ((alookup t.sender p.lists).getD [])) = false) :
    AddedSt U cfg (pre ++ [t]) (addTx Variant.current p t).1 := by
  have he' : p.cfg.evictionEnabled = false := by rw [h.cfgEq]; exact he
  have hb : alookup t.hash p.byHash = none := by
    cases hk : alookup t.hash p.byHash with
    | none => rfl
    | some x =>
      obtain ⟨hx, hh⟩ := (h.byHash_iff t.hash x).mp hk
      exact absurd hh (hfresh x hx)
  refine ⟨Inv.addTx U p t h.inv h.sorted ht, ListsSorted.addTx U p t h.inv h.sorted ht,
    (cfg_addTx Variant.current p t).trans h.cfgEq, ?_⟩
  intro s
  rw [ofSender_append]
  by_cases hs : s = t.sender
  · subst hs
    have hadd := (addTx_lists_noEvict U p t h.inv h.sorted ht he').2
    rw [hb] at hadd
    simp only [Option.isSome_none, Bool.false_eq_true, if_false] at hadd
    rw [hadd, h.cfgEq, trim1_fst, hlim]
    simp only [Bool.false_eq_true, if_false]
    have h1 : ofSender t.sender [t] = [t] := by simp [ofSender]
    rw [h1]
    exact (orderedInsert_perm t _).trans (((h.content t.sender).cons t).trans (List.perm_append_singleton t _).symm)
  · rw [evict_not_called_when_disabled U p t h.inv h.sorted ht he' s hs]
    have h1 : ofSender s [t] = [] := by
      simp only [ofSender, List.filter_cons, List.filter_nil]
      rw [if_neg]
      simp only [decide_eq_true_eq]
      exact fun e => hs e.symm
    rw [h1, List.append_nil]
    exact h.content s

/-- all the calls, one after the other -/
theorem AddedSt.fold (U : Bytes → Tx) (cfg : Config) : ∀ (rest pre : List Tx) (p : Pool), AddedSt U cfg pre p →
    ((pre ++ rest).map (·.hash)).Nodup → (∀ t ∈ rest, WfTx U t) → NoLimitHit cfg (pre ++ rest) →
    AddedSt U cfg (pre ++ rest) (rest.foldl (fun p t => (addTx Variant.current p t).1) p)
  | [], pre, p, h, _, _, _ => by rw [List.append_nil]; exact h
  | t :: rest, pre, p, h, hnd, hw, hlim => by
    rw [List.foldl_cons]
    have happ : pre ++ t :: rest = (pre ++ [t]) ++ rest := by simp
    rw [happ] at hnd hlim ⊢
    have hfresh : ∀ x ∈ pre, x.hash ≠ t.hash := by
      intro x hx e
      have hnd' : ((pre ++ [t]).map (·.hash)).Nodup := by
        rw [List.map_append] at hnd
        exact (List.nodup_append.mp hnd).1
      rw [List.map_append] at hnd'
      exact (List.nodup_append.mp hnd').2.2 x.hash (List.mem_map.mpr ⟨x, hx, rfl⟩) t.hash (by simp) e
    have hex : senderExceeded cfg (orderedInsert t ((alookup t.sender p.lists).getD [])) = false := by
      have hperm : (orderedInsert t ((alookup t.sender p.lists).getD [])).Perm (ofSender t.sender (pre ++ [t])) := by
        rw [ofSender_append]
        have h1 : ofSender t.sender [t] = [t] := by simp [ofSender]
        rw [h1]
        exact (orderedInsert_perm t _).trans
          (((h.content t.sender).cons t).trans (List.perm_append_singleton t _).symm)
      refine hlim.not_exceeded (s := t.sender) hperm ?_
      rw [ofSender_append (a := pre ++ [t])]
      exact List.sublist_append_left _ _
    exact AddedSt.fold U cfg rest (pre ++ [t]) _
      (h.step t hlim.1 (hw t (List.mem_cons_self ..)) hfresh hex) hnd
      (fun x hx => hw x (List.mem_cons_of_mem _ hx)) hlim

/-- the state after the whole batch -/
theorem addAll_state (U : Bytes → Tx) (cfg : Config) (txs : List Tx) (hnd : (txs.map (·.hash)).Nodup)
    (hw : ∀ t ∈ txs, WfTx U t) (hl : NoLimitHit cfg txs) : AddedSt U cfg txs (addAll cfg txs) := by
  have := AddedSt.fold U cfg txs [] (Pool.init cfg) (AddedSt.init U cfg) (by simpa using hnd) hw (by simpa using hl)
  simpa [addAll] using this

/-- the consequence of `NoLimitHit` on the run itself: every single call of the batch files its transaction by plain
    ordered insertion — the trim that follows drops nothing (whatever prefix `pre` of the batch was executed before) -/
theorem addAll_step_no_trim (U : Bytes → Tx) (cfg : Config) (pre : List Tx) (t : Tx) (rest : List Tx)
    (hnd : ((pre ++ t :: rest).map (·.hash)).Nodup) (hw : ∀ x ∈ pre ++ t :: rest, WfTx U x)
    (hl : NoLimitHit cfg (pre ++ t :: rest)) :
    let l := (alookup t.sender (addAll cfg pre).lists).getD []
    trim1 cfg (orderedInsert t l) = (orderedInsert t l, []) ∧
    alookup t.sender (addAll cfg (pre ++ [t])).lists = some (orderedInsert t l) := by
  intro l
  have hsub : (pre ++ [t]).Sublist (pre ++ t :: rest) := by
    have : pre ++ t :: rest = (pre ++ [t]) ++ rest := by simp
    rw [this]; exact List.sublist_append_left _ _
  have hsub0 : pre.Sublist (pre ++ t :: rest) := List.sublist_append_left _ _
  have hlpre : NoLimitHit cfg pre := by
    refine ⟨hl.1, fun s => ?_⟩
    have hs : (ofSender s pre).Sublist (ofSender s (pre ++ t :: rest)) := hsub0.filter _
    have := hs.length_le
    have := listBytes_sublist hs
    have := hl.2 s
    omega
  have hst := addAll_state U cfg pre ((hsub0.map _).nodup hnd) (fun x hx => hw x (hsub0.subset hx)) hlpre
  have hperm : (orderedInsert t l).Perm (ofSender t.sender (pre ++ [t])) := by
    rw [ofSender_append]
    have h1 : ofSender t.sender [t] = [t] := by simp [ofSender]
    rw [h1]
    exact (orderedInsert_perm t _).trans (((hst.content t.sender).cons t).trans (List.perm_append_singleton t _).symm)
  have htrim := hl.trim1_id hperm (hsub.filter _)
  refine ⟨htrim, ?_⟩
  have hstep : addAll cfg (pre ++ [t]) = (addTx Variant.current (addAll cfg pre) t).1 := by
    simp [addAll, List.foldl_append]
  have ht : WfTx U t := hw t (by simp)
  have he' : (addAll cfg pre).cfg.evictionEnabled = false := by rw [hst.cfgEq]; exact hl.1
  have hb : alookup t.hash (addAll cfg pre).byHash = none := by
    cases hk : alookup t.hash (addAll cfg pre).byHash with
    | none => rfl
    | some x =>
      obtain ⟨hx, hh⟩ := (hst.byHash_iff t.hash x).mp hk
      exfalso
      rw [List.map_append, List.map_cons] at hnd
      exact (List.nodup_append.mp hnd).2.2 x.hash (List.mem_map.mpr ⟨x, hx, rfl⟩) t.hash (List.mem_cons_self ..) hh
  have hadd := (addTx_lists_noEvict U (addAll cfg pre) t hst.inv hst.sorted ht he').2
  rw [hb] at hadd
  simp only [Option.isSome_none, Bool.false_eq_true, if_false] at hadd
  rw [hst.cfgEq, htrim] at hadd
  dsimp only at hadd
  rw [hstep]
  cases hk : alookup t.sender (addTx Variant.current (addAll cfg pre) t).1.lists with
  | some m => rw [hk] at hadd; exact congrArg some hadd
  | none =>
    rw [hk] at hadd
    have : t ∈ orderedInsert t l := (mem_orderedInsert t t l).mpr (Or.inl rfl)
    rw [← hadd] at this
    simp at this

/-! ### 3. all present, all sorted, counters exact -/

theorem nodup_of_map_nodup {α β} (f : α → β) {l : List α} (h : (l.map f).Nodup) : l.Nodup := by
  unfold List.Nodup at h ⊢
  rw [List.pairwise_map] at h
  exact h.imp (fun hne e => hne (by rw [e]))

/-- the hash index, read as a list of transactions, is a permutation of the batch -/
theorem AddedSt.byHash_perm {U : Bytes → Tx} {cfg : Config} {pre : List Tx} {p : Pool} (h : AddedSt U cfg pre p)
    (hnd : (pre.map (·.hash)).Nodup) : (p.byHash.map (·.2)).Perm pre := by
  have hn1 : (p.byHash.map (·.2)).Nodup := by
    have hk := h.inv.keysNodup
    unfold List.Nodup at hk ⊢
    rw [List.pairwise_map] at hk ⊢
    refine hk.imp_of_mem ?_
    intro a b ha hb hne e
    apply hne
    have h1 := (h.inv.wfHash a.1 a.2 ha).1
    have h2 := (h.inv.wfHash b.1 b.2 hb).1
    rw [← h1, ← h2, e]
  refine (List.perm_ext_iff_of_nodup hn1 (nodup_of_map_nodup _ hnd)).mpr ?_
  intro x
  constructor
  · intro hx
    obtain ⟨⟨k, x'⟩, hm, rfl⟩ := List.mem_map.mp hx
    exact ((h.byHash_iff k x').mp (alookup_of_mem h.inv.keysNodup hm)).1
  · intro hx
    have := alookup_some_mem ((h.byHash_iff x.hash x).mpr ⟨hx, rfl⟩)
    exact List.mem_map.mpr ⟨(x.hash, x), this, rfl⟩

theorem AddedSt.counters {U : Bytes → Tx} {cfg : Config} {pre : List Tx} {p : Pool} (h : AddedSt U cfg pre p)
    (hnd : (pre.map (·.hash)).Nodup) :
    p.cntTx = (pre.length : Int) ∧ p.numBytes = ((listBytes pre : Nat) : Int) ∧ p.cntSenders = (p.lists.length : Int) := by
  have hp := h.byHash_perm hnd
  refine ⟨?_, ?_, h.inv.cntSenders⟩
  · rw [h.inv.cntTx, ← hp.length_eq, List.length_map]
  · rw [h.inv.numBytes]
    have : sumSizes p.byHash = listBytes (p.byHash.map (·.2)) := by
      simp [sumSizes, listBytes, List.map_map, Function.comp_def]
    rw [this, listBytes_perm hp]

/-- the registered senders are exactly the senders of the batch -/
theorem AddedSt.senders_iff {U : Bytes → Tx} {cfg : Config} {pre : List Tx} {p : Pool} (h : AddedSt U cfg pre p)
    (s : Bytes) : s ∈ p.lists.map (·.1) ↔ ∃ t ∈ pre, t.sender = s := by
  constructor
  · intro hs
    obtain ⟨l, hm⟩ := exists_of_mem_keys (l := p.lists) hs
    have hne := h.inv.nonEmpty s l hm
    cases l with
    | nil => exact absurd rfl hne
    | cons x r =>
      have := h.mem_of_listed (alookup_of_mem h.inv.sendersNodup hm) (List.mem_cons_self ..)
      exact ⟨x, this.1, this.2⟩
  · rintro ⟨t, ht, rfl⟩
    obtain ⟨l, hl, -⟩ := h.listed_of_mem ht
    exact mem_keys_of_mem (alookup_some_mem hl)

/-- C14, first half.  A batch of well-formed transactions with pairwise distinct hashes, executed in the given order
    with eviction disabled and no per-sender limit reached:
    (a) every transaction of the batch is listed under its sender and reachable by hash;
    (b) the hash index holds nothing else;
    (c) every registered list is strictly sorted and is a permutation of the sender's transactions of the batch
        (hence, by `sorted_perm_unique`, it is THE sorted arrangement of them);
    (d) a sender is registered iff it has a transaction in the batch (and the registry holds no sender twice);
    (e) the counters are exact: `cntTx = |txs|`, `numBytes = Σ size`, `cntSenders` = number of registered senders. -/
theorem adds_all_present_sorted (U : Bytes → Tx) (cfg : Config) (txs : List Tx) (hnd : (txs.map (·.hash)).Nodup)
    (hw : ∀ t ∈ txs, WfTx U t) (hl : NoLimitHit cfg txs) :
    let p := addAll cfg txs
    (∀ t ∈ txs, (∃ l, alookup t.sender p.lists = some l ∧ t ∈ l) ∧ alookup t.hash p.byHash = some t) ∧
    (∀ k x, alookup k p.byHash = some x → x ∈ txs ∧ x.hash = k) ∧
    (∀ s l, alookup s p.lists = some l → ListSorted l ∧ l.Perm (txs.filter (fun t => decide (t.sender = s)))) ∧
    (∀ s, alookup s p.lists = none → txs.filter (fun t => decide (t.sender = s)) = []) ∧
    ((p.lists.map (·.1)).Nodup ∧ ∀ s, s ∈ p.lists.map (·.1) ↔ ∃ t ∈ txs, t.sender = s) ∧
    p.cntTx = (txs.length : Int) ∧ p.numBytes = (((txs.map (·.size)).sum : Nat) : Int) ∧
    p.cntSenders = (p.lists.length : Int) := by
  intro p
  have h : AddedSt U cfg txs p := addAll_state U cfg txs hnd hw hl
  obtain ⟨c1, c2, c3⟩ := h.counters hnd
  refine ⟨?_, ?_, ?_, ?_, ⟨h.inv.sendersNodup, h.senders_iff⟩, c1, c2, c3⟩
  · intro t ht
    exact ⟨h.listed_of_mem ht, (h.byHash_iff t.hash t).mpr ⟨ht, rfl⟩⟩
  · intro k x hk
    exact (h.byHash_iff k x).mp hk
  · intro s l hs
    have hc := h.content s
    rw [hs] at hc
    exact ⟨h.sorted s l (alookup_some_mem hs), hc⟩
  · intro s hs
    have hc := h.content s
    rw [hs] at hc
    exact (List.Perm.nil_eq hc).symm

/-! ### 4. the calls commute -/

theorem option_eq_of_getD {o o' : Option (List Tx)} (h : ∀ l, o = some l → l ≠ []) (h' : ∀ l, o' = some l → l ≠ [])
    (e : o.getD [] = o'.getD []) : o = o' := by
  cases o with
  | none =>
    cases o' with
    | none => rfl
    | some l' => exact absurd e.symm (h' l' rfl)
  | some l =>
    cases o' with
    | none => exact absurd e (h l rfl)
    | some l' => exact congrArg some e

theorem option_eq_of_iff {α} {o o' : Option α} (h : ∀ x, o = some x ↔ o' = some x) : o = o' := by
  cases o with
  | none =>
    cases o' with
    | none => rfl
    | some x => exact ((h x).mpr rfl).symm ▸ rfl
  | some x => exact ((h x).mp rfl).symm

/-- two pools holding the same batch (in whatever order it was executed) are observably equal -/
theorem AddedSt.agree {U : Bytes → Tx} {cfg : Config} {txs txs' : List Tx} {p p' : Pool}
    (h : AddedSt U cfg txs p) (h' : AddedSt U cfg txs' p') (hp : txs.Perm txs') (hnd : (txs.map (·.hash)).Nodup) :
    (∀ s, alookup s p.lists = alookup s p'.lists) ∧
    (∀ k, alookup k p.byHash = alookup k p'.byHash) ∧
    p.lists.Perm p'.lists ∧
    p.cntTx = p'.cntTx ∧ p.numBytes = p'.numBytes ∧ p.cntSenders = p'.cntSenders := by
  have hnd' : (txs'.map (·.hash)).Nodup := hnd.perm (hp.map _)
  have hlists : ∀ s, alookup s p.lists = alookup s p'.lists := by
    intro s
    refine option_eq_of_getD (fun l hl => h.inv.nonEmpty s l (alookup_some_mem hl))
      (fun l hl => h'.inv.nonEmpty s l (alookup_some_mem hl)) ?_
    exact sorted_perm_unique (h.getD_sorted s) (h'.getD_sorted s)
      ((h.content s).trans ((ofSender_perm hp s).trans (h'.content s).symm))
  have hperm : p.lists.Perm p'.lists := by
    have n1 : p.lists.Nodup := nodup_of_map_nodup (·.1) h.inv.sendersNodup
    have n2 : p'.lists.Nodup := nodup_of_map_nodup (·.1) h'.inv.sendersNodup
    refine (List.perm_ext_iff_of_nodup n1 n2).mpr ?_
    rintro ⟨s, l⟩
    rw [← alookup_iff_mem h.inv.sendersNodup, ← alookup_iff_mem h'.inv.sendersNodup, hlists s]
  obtain ⟨c1, c2, c3⟩ := h.counters hnd
  obtain ⟨c1', c2', c3'⟩ := h'.counters hnd'
  refine ⟨hlists, ?_, hperm, ?_, ?_, ?_⟩
  · intro k
    apply option_eq_of_iff
    intro x
    rw [h.byHash_iff, h'.byHash_iff, hp.mem_iff]
  · rw [c1, c1', hp.length_eq]
  · rw [c2, c2', listBytes_perm hp]
  · rw [c3, c3', hperm.length_eq]

/-- C14, second half: the calls commute.  For two orders `txs`, `txs'` of the same batch (hypotheses as in
    `adds_all_present_sorted`; they are invariant under permutation) the two final pools agree on
      * the list of EVERY sender (`alookup s lists`, as `Option (List Tx)`: same registered senders, same lists),
      * the hash index (`alookup h byHash` for every `h`),
      * the three counters,
    and their sender registries are permutations of each other.  The ORDER of the senders inside the association list
    `lists` may differ (first-registered first; see `AddCommuteEx.senders_order_differs`) — it models the iteration
    order of a Go map and is not observable through the lookups.  Hence every interleaving of the concurrent calls
    yields the same observable pool. -/
theorem adds_commute (U : Bytes → Tx) (cfg : Config) (txs txs' : List Tx) (hp : txs.Perm txs')
    (hnd : (txs.map (·.hash)).Nodup) (hw : ∀ t ∈ txs, WfTx U t) (hl : NoLimitHit cfg txs) :
    (∀ s, alookup s (addAll cfg txs).lists = alookup s (addAll cfg txs').lists) ∧
    (∀ k, alookup k (addAll cfg txs).byHash = alookup k (addAll cfg txs').byHash) ∧
    (addAll cfg txs).lists.Perm (addAll cfg txs').lists ∧
    (addAll cfg txs).cntTx = (addAll cfg txs').cntTx ∧
    (addAll cfg txs).numBytes = (addAll cfg txs').numBytes ∧
    (addAll cfg txs).cntSenders = (addAll cfg txs').cntSenders := by
  have h := addAll_state U cfg txs hnd hw hl
  have h' := addAll_state U cfg txs' (hnd.perm (hp.map _)) (fun t ht => hw t (hp.mem_iff.mpr ht)) (hl.perm hp)
  exact h.agree h' hp hnd

/-! ### 5. the selection after concurrent insertions -/

/-- whatever the order in which the concurrent AddTx calls were executed, a subsequent selection returns the same
    transactions in the same order (and the same accumulated gas) -/
theorem selection_after_concurrent_adds (U : Bytes → Tx) (cfg : Config) (txs txs' : List Tx) (hp : txs.Perm txs')
    (hnd : (txs.map (·.hash)).Nodup) (hw : ∀ t ∈ txs, WfTx U t) (hl : NoLimitHit cfg txs)
    (s : Session) (q : SelParams) :
    select Variant.current (addAll cfg txs) s q = select Variant.current (addAll cfg txs') s q := by
  have h := addAll_state U cfg txs hnd hw hl
  have hperm := (adds_commute U cfg txs txs' hp hnd hw hl).2.2.1
  obtain ⟨-, -, hn, -⟩ := bunches_ok_of_inv U _ h.inv h.sorted
  exact selectFromBunches_perm Variant.current s q _ _ (hperm.map (·.2)) hn

/-! ### non-vacuity: four transactions, two senders, one same-nonce pair -/

namespace AddCommuteEx

def tx (h s : UInt8) (n gp sz : Nat) : Tx := ⟨[h], [s], n, gp, 10, sz, 10 * gp, 0, []⟩

def t1 := tx 1 0xa0 0 1 100
def t2 := tx 2 0xa0 1 1 110
def t3 := tx 3 0xa0 1 2 120   -- same sender, same nonce as t2, higher gas price: belongs in front of t2
def t4 := tx 4 0xb0 0 1 130

/-- per-sender limits: 3 transactions, 330 bytes — sender a0 uses them up exactly, nothing is trimmed -/
def cfg : Config := ⟨false, 100000, 330, 100, 3, 1⟩

def batch : List Tx := [t1, t2, t3, t4]
/-- another interleaving of the same four calls -/
def batch' : List Tx := [t4, t3, t2, t1]
def batch'' : List Tx := [t3, t4, t1, t2]

def U (h : Bytes) : Tx := ((batch.find? (fun x => x.hash == h))).getD t1

theorem batch_hashes : (batch.map (·.hash)).Nodup := by decide

theorem batch_wf : ∀ t ∈ batch, WfTx U t := by
  intro t ht
  simp only [batch, List.mem_cons, List.not_mem_nil, or_false] at ht
  rcases ht with rfl | rfl | rfl | rfl <;> (unfold WfTx; decide)

theorem ofSender_batch (s : Bytes) :
    ofSender s batch = (if s = [0xa0] then [t1, t2, t3] else if s = [0xb0] then [t4] else []) := by
  have e1 : t1.sender = [0xa0] := rfl
  have e2 : t2.sender = [0xa0] := rfl
  have e3 : t3.sender = [0xa0] := rfl
  have e4 : t4.sender = [0xb0] := rfl
  have hne : ([0xa0] : Bytes) ≠ [0xb0] := by decide
  simp only [ofSender, batch, List.filter_cons, List.filter_nil, e1, e2, e3, e4]
  by_cases ha : s = [0xa0]
  · subst ha
    simp
  · by_cases hb : s = [0xb0]
    · subst hb
      simp [hne.symm]
    · have ha' : ¬ ([0xa0] : Bytes) = s := fun e => ha e.symm
      have hb' : ¬ ([0xb0] : Bytes) = s := fun e => hb e.symm
      simp [ha, hb, ha', hb']

theorem batch_noLimit : NoLimitHit cfg batch := by
  refine ⟨rfl, fun s => ?_⟩
  rw [ofSender_batch]
  by_cases ha : s = [0xa0]
  · rw [if_pos ha]; decide
  · rw [if_neg ha]
    by_cases hb : s = [0xb0]
    · rw [if_pos hb]; decide
    · rw [if_neg hb]; decide

theorem batch_perm : batch.Perm batch' := by decide
theorem batch_perm'' : batch.Perm batch'' := by decide

-- different execution orders, the same sender lists: nonce 0, then the same-nonce pair (dearer first)
example : alookup [0xa0] (addAll cfg batch).lists = some [t1, t3, t2] := by decide
example : alookup [0xa0] (addAll cfg batch').lists = some [t1, t3, t2] := by decide
example : alookup [0xa0] (addAll cfg batch'').lists = some [t1, t3, t2] := by decide
example : alookup [0xb0] (addAll cfg batch).lists = some [t4] := by decide
example : alookup [0xb0] (addAll cfg batch').lists = some [t4] := by decide
example : alookup [0xc0] (addAll cfg batch).lists = none := by decide
example : ((addAll cfg batch).cntTx, (addAll cfg batch).numBytes, (addAll cfg batch).cntSenders) = (4, 460, 2) := by
  decide
example : ((addAll cfg batch').cntTx, (addAll cfg batch').numBytes, (addAll cfg batch').cntSenders) = (4, 460, 2) := by
  decide
example : alookup [3] (addAll cfg batch').byHash = some t3 := by decide

/-- what is NOT order-independent: the position of the senders in the association list (≙ Go map iteration order);
    this is why `adds_commute` speaks about lookups and about `lists` up to permutation -/
theorem senders_order_differs :
    (addAll cfg batch).lists.map (·.1) = [[0xa0], [0xb0]] ∧ (addAll cfg batch').lists.map (·.1) = [[0xb0], [0xa0]] := by
  decide

-- the theorems instantiated: their hypotheses can be met
example : ListSorted [t1, t3, t2] := by unfold ListSorted; decide
example : [t1, t3, t2] = [t1, t3, t2] :=
  sorted_perm_unique (l₁ := [t1, t3, t2]) (l₂ := [t1, t3, t2]) (by unfold ListSorted; decide) (by unfold ListSorted; decide) (List.Perm.refl _)

example : (addAll cfg batch).cntTx = 4 ∧ (addAll cfg batch).numBytes = 460 := by
  obtain ⟨-, -, -, -, -, c1, c2, -⟩ := adds_all_present_sorted U cfg batch batch_hashes batch_wf batch_noLimit
  exact ⟨c1, c2⟩

example (s : Bytes) : alookup s (addAll cfg batch).lists = alookup s (addAll cfg batch').lists :=
  (adds_commute U cfg batch batch' batch_perm batch_hashes batch_wf batch_noLimit).1 s

example (s : Bytes) : alookup s (addAll cfg batch).lists = alookup s (addAll cfg batch'').lists :=
  (adds_commute U cfg batch batch'' batch_perm'' batch_hashes batch_wf batch_noLimit).1 s

def session : Session := ⟨fun _ => 0, fun _ => 1000, fun _ => false⟩
def params : SelParams := ⟨1000, 10, fun _ => false, 10⟩

example : select Variant.current (addAll cfg batch) session params
    = select Variant.current (addAll cfg batch') session params :=
  selection_after_concurrent_adds U cfg batch batch' batch_perm batch_hashes batch_wf batch_noLimit session params

-- … and what both selections return (by hash): a0's nonce 0 (equal price per unit with b0's, the lower hash wins), then
-- the dearer transaction t3 of the same-nonce pair (its cheaper sibling t2 is skipped), then b0's transaction
example : (select Variant.current (addAll cfg batch) session params).1.map (·.hash) = [[1], [3], [4]] := by decide
example : (select Variant.current (addAll cfg batch') session params).1.map (·.hash) = [[1], [3], [4]] := by decide

-- the trim lemma on a real step: inserting t3 into a0's list [t1, t2] drops nothing
example : trim1 cfg (orderedInsert t3 [t1, t2]) = ([t1, t3, t2], []) := by decide

/-- The hypothesis `NoLimitHit` is needed, and the calls do NOT commute without it: with a per-sender byte limit of 100
    and three transactions of sender a0 of sizes 10 / 95 / 10 (nonces 0 / 1 / 2), the order 0,1,2 ends with the
    nonces {0, 2} pooled, the order 2,1,0 with {0} only (each call trims only the then-highest transaction, finding F3).
    (A pure COUNT limit alone would still commute — the k lowest survive in any order — but the byte limit does not.) -/
theorem commute_needs_noLimit :
    let cfgB : Config := ⟨false, 100000, 100, 100, 10, 1⟩
    let a := tx 6 0xa0 0 1 10
    let b := tx 7 0xa0 1 1 95
    let c := tx 8 0xa0 2 1 10
    [a, b, c].Perm [c, b, a] ∧
    alookup [0xa0] (addAll cfgB [a, b, c]).lists = some [a, c] ∧
    alookup [0xa0] (addAll cfgB [c, b, a]).lists = some [a] ∧
    (addAll cfgB [a, b, c]).cntTx = 2 ∧ (addAll cfgB [c, b, a]).cntTx = 1 := by decide

end AddCommuteEx

end SV.TxCache
