/-
  SV.TxCache.PoolInv — property C05, part 1: the pool invariant `Inv` (the two indexes hold the same transactions,
  the three counters are truthful) is established by `Pool.init` and kept by `clear`, `removeTxByHash` and by
  `addTx` without the eviction step.  Eviction is in `EvictInv.lean`.

  Helper lemmas live in the namespace `SV.TxCache.C5` (to stay clear of the names of the other proof files).
-/
import SV.TxCache.Spec
import SV.TxCache.ListProofs
namespace SV.TxCache
namespace C5

/-! ### association lists -/

section alist
set_option linter.unusedSectionVars false
variable {α β : Type} [BEq α] [LawfulBEq α]

def keys (l : List (α × β)) : List α := l.map (·.1)

@[simp] theorem keys_nil : keys ([] : List (α × β)) = [] := rfl
@[simp] theorem keys_cons (a : α × β) (l : List (α × β)) : keys (a :: l) = a.1 :: keys l := rfl

theorem mem_keys_of_mem {k : α} {v : β} {l : List (α × β)} (h : (k, v) ∈ l) : k ∈ keys l :=
  List.mem_map.mpr ⟨(k, v), h, rfl⟩

theorem exists_of_mem_keys {k : α} {l : List (α × β)} (h : k ∈ keys l) : ∃ v, (k, v) ∈ l := by
  obtain ⟨⟨k', v⟩, hm, rfl⟩ := List.mem_map.mp h
  exact ⟨v, hm⟩

theorem alookup_some_mem {k : α} {v : β} {l : List (α × β)} (h : alookup k l = some v) : (k, v) ∈ l := by
  induction l with
  | nil => simp [alookup] at h
  | cons a r ih =>
    obtain ⟨k', v'⟩ := a
    simp only [alookup] at h
    split at h
    · next hk =>
      have e := eq_of_beq hk
      subst e
      simp only [Option.some.injEq] at h
      subst h
      exact List.mem_cons_self ..
    · exact List.mem_cons_of_mem _ (ih h)

theorem alookup_of_mem {k : α} {v : β} {l : List (α × β)} (hnd : (keys l).Nodup) (h : (k, v) ∈ l) :
    alookup k l = some v := by
  induction l with
  | nil => simp at h
  | cons a r ih =>
    obtain ⟨k', v'⟩ := a
    simp only [keys_cons, List.nodup_cons] at hnd
    simp only [alookup]
    rcases List.mem_cons.mp h with h | h
    · simp only [Prod.mk.injEq] at h
      obtain ⟨rfl, rfl⟩ := h
      simp
    · split
      · next hk =>
        have e := eq_of_beq hk
        subst e
        exact absurd (mem_keys_of_mem h) hnd.1
      · exact ih hnd.2 h

theorem alookup_iff_mem {k : α} {v : β} {l : List (α × β)} (hnd : (keys l).Nodup) :
    alookup k l = some v ↔ (k, v) ∈ l := ⟨alookup_some_mem, alookup_of_mem hnd⟩

theorem alookup_none_iff {k : α} {l : List (α × β)} : alookup k l = none ↔ k ∉ keys l := by
  induction l with
  | nil => simp [alookup]
  | cons a r ih =>
    obtain ⟨k', v'⟩ := a
    simp only [alookup, keys_cons, List.mem_cons, not_or]
    split
    · next hk =>
      have e := eq_of_beq hk
      subst e
      simp
    · next hk =>
      have : ¬ k = k' := fun e => hk (by subst e; exact beq_self_eq_true _)
      simp [ih, this]

theorem alookup_none_not_mem {k : α} {l : List (α × β)} (h : alookup k l = none) (v : β) : (k, v) ∉ l :=
  fun hm => (alookup_none_iff.mp h) (mem_keys_of_mem hm)

theorem alookup_isSome_of_mem {k : α} {v : β} {l : List (α × β)} (h : (k, v) ∈ l) : ∃ v', alookup k l = some v' := by
  cases hl : alookup k l with
  | none => exact absurd h (alookup_none_not_mem hl v)
  | some v' => exact ⟨v', rfl⟩

/-! `aerase` -/

theorem aerase_eq_filter (k : α) (l : List (α × β)) : aerase k l = l.filter (fun e => !(e.1 == k)) := by
  induction l with
  | nil => rfl
  | cons a r ih =>
    obtain ⟨k', v'⟩ := a
    simp only [aerase, List.filter_cons]
    split
    · next hk => simp [hk, ih]
    · next hk => simp [hk, ih]

theorem mem_aerase {k k' : α} {v : β} {l : List (α × β)} : (k', v) ∈ aerase k l ↔ (k', v) ∈ l ∧ k' ≠ k := by
  rw [aerase_eq_filter, List.mem_filter]
  simp

theorem keys_aerase_sublist (k : α) (l : List (α × β)) : (keys (aerase k l)).Sublist (keys l) := by
  rw [aerase_eq_filter]
  exact List.Sublist.map _ (List.filter_sublist)

theorem nodup_keys_aerase {k : α} {l : List (α × β)} (h : (keys l).Nodup) : (keys (aerase k l)).Nodup :=
  List.Nodup.sublist (keys_aerase_sublist k l) h

theorem aerase_of_not_mem {k : α} {l : List (α × β)} (h : k ∉ keys l) : aerase k l = l := by
  induction l with
  | nil => rfl
  | cons a r ih =>
    obtain ⟨k', v'⟩ := a
    simp only [keys_cons, List.mem_cons, not_or] at h
    simp only [aerase]
    split
    · next hk => exact absurd (eq_of_beq hk).symm h.1
    · rw [ih h.2]

theorem length_aerase {k : α} {v : β} {l : List (α × β)} (hnd : (keys l).Nodup) (h : alookup k l = some v) :
    (aerase k l).length + 1 = l.length := by
  induction l with
  | nil => simp [alookup] at h
  | cons a r ih =>
    obtain ⟨k', v'⟩ := a
    simp only [keys_cons, List.nodup_cons] at hnd
    simp only [alookup] at h
    simp only [aerase]
    split
    · next hk =>
      have e := eq_of_beq hk
      subst e
      rw [aerase_of_not_mem hnd.1]
      rfl
    · next hk =>
      simp only [hk] at h
      simp only [List.length_cons]
      have := ih hnd.2 (by simpa using h)
      omega

/-! `aset` -/

theorem alookup_aset_self (k : α) (v : β) (l : List (α × β)) : alookup k (aset k v l) = some v := by
  induction l with
  | nil => simp [aset, alookup]
  | cons a r ih =>
    obtain ⟨k', v'⟩ := a
    simp only [aset]
    split
    · simp [alookup]
    · next hk => simp [alookup, hk, ih]

theorem alookup_aset_ne {k k' : α} (v : β) (l : List (α × β)) (hne : k' ≠ k) :
    alookup k' (aset k v l) = alookup k' l := by
  induction l with
  | nil =>
    have : (k == k') = false := by
      cases hb : (k == k') with
      | false => rfl
      | true => exact absurd (eq_of_beq hb).symm hne
    simp [aset, alookup, this]
  | cons a r ih =>
    obtain ⟨k'', v''⟩ := a
    simp only [aset]
    split
    · next hk =>
      have e := eq_of_beq hk
      subst e
      have : (k'' == k') = false := by
        cases hb : (k'' == k') with
        | false => rfl
        | true => exact absurd (eq_of_beq hb).symm hne
      simp [alookup, this]
    · simp [alookup, ih]

theorem aset_of_absent {k : α} (v : β) {l : List (α × β)} (h : alookup k l = none) : aset k v l = l ++ [(k, v)] := by
  induction l with
  | nil => rfl
  | cons a r ih =>
    obtain ⟨k', v'⟩ := a
    simp only [alookup] at h
    simp only [aset]
    split
    · next hk => simp [hk] at h
    · next hk =>
      simp only [hk] at h
      rw [ih (by simpa using h)]
      rfl

theorem keys_aset_of_present {k : α} (v : β) {l : List (α × β)} (h : k ∈ keys l) : keys (aset k v l) = keys l := by
  induction l with
  | nil => simp at h
  | cons a r ih =>
    obtain ⟨k', v'⟩ := a
    simp only [aset]
    split
    · next hk =>
      have e := eq_of_beq hk
      subst e
      rfl
    · next hk =>
      simp only [keys_cons, List.mem_cons] at h
      rcases h with h | h
      · subst h; simp at hk
      · simp only [keys_cons, ih h]

theorem length_aset_of_present {k : α} (v : β) {l : List (α × β)} (h : k ∈ keys l) : (aset k v l).length = l.length := by
  have := congrArg List.length (keys_aset_of_present v h)
  simpa [keys] using this

theorem nodup_keys_aset {k : α} (v : β) {l : List (α × β)} (hnd : (keys l).Nodup) : (keys (aset k v l)).Nodup := by
  by_cases h : k ∈ keys l
  · rw [keys_aset_of_present v h]; exact hnd
  · rw [aset_of_absent v (alookup_none_iff.mpr h)]
    simp only [keys, List.map_append, List.map_cons, List.map_nil]
    refine List.nodup_append.mpr ⟨hnd, by simp, ?_⟩
    intro a ha b hb
    simp only [List.mem_singleton] at hb
    subst hb
    intro e
    subst e
    exact h ha

theorem mem_aset {k k' : α} {v v' : β} {l : List (α × β)} (hnd : (keys l).Nodup) :
    (k', v') ∈ aset k v l ↔ ((k', v') ∈ l ∧ k' ≠ k) ∨ (k' = k ∧ v' = v) := by
  induction l with
  | nil => simp [aset]
  | cons a r ih =>
    obtain ⟨k'', v''⟩ := a
    simp only [keys_cons, List.nodup_cons] at hnd
    simp only [aset]
    split
    · next hk =>
      have e := eq_of_beq hk
      subst e
      simp only [List.mem_cons, Prod.mk.injEq]
      constructor
      · rintro (⟨rfl, rfl⟩ | h)
        · exact Or.inr ⟨rfl, rfl⟩
        · refine Or.inl ⟨Or.inr h, ?_⟩
          intro e
          subst e
          exact hnd.1 (mem_keys_of_mem h)
      · rintro (⟨h | h, hne⟩ | ⟨rfl, rfl⟩)
        · exact absurd h.1 hne
        · exact Or.inr h
        · exact Or.inl ⟨rfl, rfl⟩
    · next hk =>
      have hne : ¬ k'' = k := fun e => hk (by subst e; exact beq_self_eq_true _)
      simp only [List.mem_cons, Prod.mk.injEq, ih hnd.2]
      constructor
      · rintro (⟨rfl, rfl⟩ | h)
        · exact Or.inl ⟨Or.inl ⟨rfl, rfl⟩, hne⟩
        · rcases h with ⟨h, hn⟩ | h
          · exact Or.inl ⟨Or.inr h, hn⟩
          · exact Or.inr h
      · rintro (⟨h | h, hn⟩ | h)
        · exact Or.inl h
        · exact Or.inr (Or.inl ⟨h, hn⟩)
        · exact Or.inr (Or.inr h)

theorem aset_aset (k : α) (v v' : β) (l : List (α × β)) : aset k v' (aset k v l) = aset k v' l := by
  induction l with
  | nil => simp [aset]
  | cons a r ih =>
    obtain ⟨k'', v''⟩ := a
    simp only [aset]
    split
    · next hk => simp [aset]
    · next hk => simp [aset, hk, ih]

end alist

/-! ### the two halves of the invariant -/

/-- the hash index and its two counters -/
structure HashOk (U : Bytes → Tx) (p : Pool) : Prop where
  wfHash : ∀ h t, (h, t) ∈ p.byHash → t.hash = h ∧ WfTx U t
  keysNodup : (keys p.byHash).Nodup
  cntTx : p.cntTx = (p.byHash.length : Int)
  numBytes : p.numBytes = (sumSizes p.byHash : Int)

/-- the sender index and its counter -/
structure ListsOk (U : Bytes → Tx) (p : Pool) : Prop where
  wfLists : ∀ s l, (s, l) ∈ p.lists → ∀ t ∈ l, WfTx U t ∧ t.sender = s
  sendersNodup : (keys p.lists).Nodup
  nonceSorted : ∀ s l, (s, l) ∈ p.lists → l.Pairwise (fun a b => a.nonce ≤ b.nonce)
  nonEmpty : ∀ s l, (s, l) ∈ p.lists → l ≠ []
  cntSenders : p.cntSenders = (p.lists.length : Int)

theorem hashOk_of_inv {U : Bytes → Tx} {p : Pool} (h : Inv U p) : HashOk U p :=
  ⟨h.wfHash, h.keysNodup, h.cntTx, h.numBytes⟩

theorem listsOk_of_inv {U : Bytes → Tx} {p : Pool} (h : Inv U p) : ListsOk U p :=
  ⟨h.wfLists, h.sendersNodup, h.nonceSorted, h.nonEmpty, h.cntSenders⟩

theorem inv_of_parts {U : Bytes → Tx} {p : Pool} (hH : HashOk U p) (hL : ListsOk U p)
    (hs : ∀ t, (t.hash, t) ∈ p.byHash ↔ ∃ s l, (s, l) ∈ p.lists ∧ t ∈ l) : Inv U p :=
  ⟨hL.wfLists, hH.wfHash, hH.keysNodup, hL.sendersNodup, hL.nonceSorted, hL.nonEmpty, hs, hH.cntTx, hH.numBytes,
    hL.cntSenders⟩

theorem HashOk.of_eq {U : Bytes → Tx} {p q : Pool} (h : HashOk U p) (e1 : q.byHash = p.byHash)
    (e2 : q.cntTx = p.cntTx) (e3 : q.numBytes = p.numBytes) : HashOk U q := by
  refine ⟨?_, ?_, ?_, ?_⟩
  · rw [e1]; exact h.wfHash
  · rw [e1]; exact h.keysNodup
  · rw [e1, e2]; exact h.cntTx
  · rw [e1, e3]; exact h.numBytes

/-- two well-formed transactions with the same hash are equal -/
theorem wf_inj {U : Bytes → Tx} {a b : Tx} (ha : WfTx U a) (hb : WfTx U b) (e : a.hash = b.hash) : a = b := by
  unfold WfTx at ha hb
  rw [← ha, ← hb, e]

/-! ### `byHashRemove`, `removeBulk` -/

theorem sumSizes_cons (a : Bytes × Tx) (l : List (Bytes × Tx)) : sumSizes (a :: l) = a.2.size + sumSizes l := by
  simp [sumSizes]

theorem sumSizes_append (l₁ l₂ : List (Bytes × Tx)) : sumSizes (l₁ ++ l₂) = sumSizes l₁ + sumSizes l₂ := by
  simp [sumSizes, List.sum_append]

theorem sumSizes_aerase {k : Bytes} {v : Tx} {l : List (Bytes × Tx)} (hnd : (keys l).Nodup)
    (h : alookup k l = some v) : sumSizes (aerase k l) + v.size = sumSizes l := by
  induction l with
  | nil => simp [alookup] at h
  | cons a r ih =>
    obtain ⟨k', v'⟩ := a
    simp only [keys_cons, List.nodup_cons] at hnd
    simp only [alookup] at h
    simp only [aerase]
    split
    · next hk =>
      have e := eq_of_beq hk
      subst e
      simp only [hk, if_true, Option.some.injEq] at h
      subst h
      rw [aerase_of_not_mem hnd.1, sumSizes_cons]
      dsimp only
      omega
    · next hk =>
      simp only [hk] at h
      have := ih hnd.2 (by simpa using h)
      rw [sumSizes_cons, sumSizes_cons]
      dsimp only
      omega

@[simp] theorem byHashRemove_lists (p : Pool) (h : Bytes) : (byHashRemove p h).lists = p.lists := by
  unfold byHashRemove; split <;> rfl
@[simp] theorem byHashRemove_cntSenders (p : Pool) (h : Bytes) : (byHashRemove p h).cntSenders = p.cntSenders := by
  unfold byHashRemove; split <;> rfl
@[simp] theorem byHashRemove_cfg (p : Pool) (h : Bytes) : (byHashRemove p h).cfg = p.cfg := by
  unfold byHashRemove; split <;> rfl

theorem HashOk.byHashRemove {U : Bytes → Tx} {p : Pool} (hp : HashOk U p) (h : Bytes) :
    HashOk U (byHashRemove p h) := by
  unfold SV.TxCache.byHashRemove
  split
  · exact hp
  · next t ht =>
    refine ⟨?_, ?_, ?_, ?_⟩
    · intro k x hx
      exact hp.wfHash k x (mem_aerase.mp hx).1
    · exact nodup_keys_aerase hp.keysNodup
    · have := length_aerase hp.keysNodup ht
      have := hp.cntTx
      simp only
      omega
    · have := sumSizes_aerase hp.keysNodup ht
      have := hp.numBytes
      simp only
      omega

theorem mem_byHashRemove {p : Pool} {h k : Bytes} {t : Tx} :
    (k, t) ∈ (byHashRemove p h).byHash ↔ (k, t) ∈ p.byHash ∧ k ≠ h := by
  unfold byHashRemove
  split
  · next hn =>
    constructor
    · intro hm
      refine ⟨hm, ?_⟩
      intro e
      subst e
      exact alookup_none_not_mem hn t hm
    · exact fun hm => hm.1
  · exact mem_aerase

@[simp] theorem removeBulk_nil (p : Pool) : removeBulk p [] = p := rfl
@[simp] theorem removeBulk_cons (p : Pool) (h : Bytes) (hs : List Bytes) :
    removeBulk p (h :: hs) = removeBulk (byHashRemove p h) hs := rfl

@[simp] theorem removeBulk_lists (p : Pool) (hs : List Bytes) : (removeBulk p hs).lists = p.lists := by
  induction hs generalizing p with
  | nil => rfl
  | cons h hs ih => rw [removeBulk_cons, ih, byHashRemove_lists]
@[simp] theorem removeBulk_cntSenders (p : Pool) (hs : List Bytes) : (removeBulk p hs).cntSenders = p.cntSenders := by
  induction hs generalizing p with
  | nil => rfl
  | cons h hs ih => rw [removeBulk_cons, ih, byHashRemove_cntSenders]
@[simp] theorem removeBulk_cfg (p : Pool) (hs : List Bytes) : (removeBulk p hs).cfg = p.cfg := by
  induction hs generalizing p with
  | nil => rfl
  | cons h hs ih => rw [removeBulk_cons, ih, byHashRemove_cfg]

theorem HashOk.removeBulk {U : Bytes → Tx} {p : Pool} (hp : HashOk U p) (hs : List Bytes) :
    HashOk U (removeBulk p hs) := by
  induction hs generalizing p with
  | nil => exact hp
  | cons h hs ih => rw [removeBulk_cons]; exact ih (hp.byHashRemove h)

theorem mem_removeBulk {p : Pool} {hs : List Bytes} {k : Bytes} {t : Tx} :
    (k, t) ∈ (removeBulk p hs).byHash ↔ (k, t) ∈ p.byHash ∧ k ∉ hs := by
  induction hs generalizing p with
  | nil => simp
  | cons h hs ih =>
    rw [removeBulk_cons, ih, mem_byHashRemove]
    simp only [List.mem_cons, not_or]
    constructor
    · rintro ⟨⟨a, b⟩, c⟩; exact ⟨a, b, c⟩
    · rintro ⟨a, b, c⟩; exact ⟨⟨a, b⟩, c⟩

/-- removing hashes that are not in the index changes nothing -/
theorem removeBulk_absent {p : Pool} {hs : List Bytes} (h : ∀ k ∈ hs, alookup k p.byHash = none) :
    removeBulk p hs = p := by
  induction hs with
  | nil => rfl
  | cons k hs ih =>
    rw [removeBulk_cons]
    have hk : byHashRemove p k = p := by
      unfold byHashRemove
      rw [h k (List.mem_cons_self ..)]
    rw [hk]
    exact ih (fun k' hk' => h k' (List.mem_cons_of_mem _ hk'))

/-! ### `removeSenderIfEmpty` -/

@[simp] theorem removeSenderIfEmpty_byHash (p : Pool) (s : Bytes) : (removeSenderIfEmpty p s).byHash = p.byHash := by
  unfold removeSenderIfEmpty; split <;> rfl
@[simp] theorem removeSenderIfEmpty_cntTx (p : Pool) (s : Bytes) : (removeSenderIfEmpty p s).cntTx = p.cntTx := by
  unfold removeSenderIfEmpty; split <;> rfl
@[simp] theorem removeSenderIfEmpty_numBytes (p : Pool) (s : Bytes) : (removeSenderIfEmpty p s).numBytes = p.numBytes := by
  unfold removeSenderIfEmpty; split <;> rfl
@[simp] theorem removeSenderIfEmpty_cfg (p : Pool) (s : Bytes) : (removeSenderIfEmpty p s).cfg = p.cfg := by
  unfold removeSenderIfEmpty; split <;> rfl

theorem removeSenderIfEmpty_of_nonempty {p : Pool} {s : Bytes} {m : List Tx} (h : alookup s p.lists = some m)
    (hm : m ≠ []) : removeSenderIfEmpty p s = p := by
  unfold removeSenderIfEmpty
  split
  · next h' => rw [h] at h'; simp only [Option.some.injEq] at h'; exact absurd h' hm
  · rfl

/-! ### setting one sender's list -/

theorem listsOk_of_char {U : Bytes → Tx} {p r : Pool} {s : Bytes} {m : List Tx} (hp : ListsOk U p)
    (hwf : ∀ t ∈ m, WfTx U t ∧ t.sender = s) (hso : m.Pairwise (fun a b => a.nonce ≤ b.nonce))
    (hchar : ∀ s0 l0, (s0, l0) ∈ r.lists ↔ ((s0, l0) ∈ p.lists ∧ s0 ≠ s) ∨ (s0 = s ∧ l0 = m ∧ m ≠ []))
    (hnd : (keys r.lists).Nodup) (hc : r.cntSenders = (r.lists.length : Int)) : ListsOk U r := by
  refine ⟨?_, hnd, ?_, ?_, hc⟩
  · intro s0 l0 hm
    rcases (hchar s0 l0).mp hm with ⟨h, -⟩ | ⟨rfl, rfl, -⟩
    · exact hp.wfLists s0 l0 h
    · exact hwf
  · intro s0 l0 hm
    rcases (hchar s0 l0).mp hm with ⟨h, -⟩ | ⟨rfl, rfl, -⟩
    · exact hp.nonceSorted s0 l0 h
    · exact hso
  · intro s0 l0 hm
    rcases (hchar s0 l0).mp hm with ⟨h, -⟩ | ⟨rfl, rfl, h⟩
    · exact hp.nonEmpty s0 l0 h
    · exact h

/-- sender `s`'s list is set to `m` (created if absent), then the sender is dropped if `m` is empty -/
theorem lists_set {U : Bytes → Tx} {p q0 : Pool} {s : Bytes} {m : List Tx} (hp : ListsOk U p)
    (hwf : ∀ t ∈ m, WfTx U t ∧ t.sender = s) (hso : m.Pairwise (fun a b => a.nonce ≤ b.nonce))
    (e1 : q0.lists = aset s m p.lists) (e2 : q0.cntSenders = ((aset s m p.lists).length : Int)) :
    ListsOk U (removeSenderIfEmpty q0 s) ∧
    ∀ s0 l0, (s0, l0) ∈ (removeSenderIfEmpty q0 s).lists ↔
      ((s0, l0) ∈ p.lists ∧ s0 ≠ s) ∨ (s0 = s ∧ l0 = m ∧ m ≠ []) := by
  have hlk : alookup s q0.lists = some m := by rw [e1]; exact alookup_aset_self ..
  have hndA : (keys (aset s m p.lists)).Nodup := nodup_keys_aset m hp.sendersNodup
  cases m with
  | nil =>
    have hr : removeSenderIfEmpty q0 s =
        { q0 with lists := aerase s q0.lists, cntSenders := q0.cntSenders - 1 } := by
      unfold removeSenderIfEmpty; rw [hlk]
    have hchar : ∀ s0 l0, (s0, l0) ∈ (removeSenderIfEmpty q0 s).lists ↔
        ((s0, l0) ∈ p.lists ∧ s0 ≠ s) ∨ (s0 = s ∧ l0 = [] ∧ ([] : List Tx) ≠ []) := by
      intro s0 l0
      rw [hr]
      simp only [e1, mem_aerase, mem_aset hp.sendersNodup]
      constructor
      · rintro ⟨⟨h, hn⟩ | ⟨h, -⟩, hne⟩
        · exact Or.inl ⟨h, hn⟩
        · exact absurd h hne
      · rintro (⟨h, hn⟩ | ⟨-, -, h⟩)
        · exact ⟨Or.inl ⟨h, hn⟩, hn⟩
        · exact absurd rfl h
    refine ⟨listsOk_of_char hp hwf hso hchar ?_ ?_, hchar⟩
    · rw [hr]; simp only [e1]; exact nodup_keys_aerase hndA
    · rw [hr]
      simp only [e1]
      have := length_aerase hndA (alookup_aset_self s ([] : List Tx) p.lists)
      omega
  | cons x xs =>
    have hr : removeSenderIfEmpty q0 s = q0 := removeSenderIfEmpty_of_nonempty hlk (by simp)
    have hchar : ∀ s0 l0, (s0, l0) ∈ (removeSenderIfEmpty q0 s).lists ↔
        ((s0, l0) ∈ p.lists ∧ s0 ≠ s) ∨ (s0 = s ∧ l0 = x :: xs ∧ x :: xs ≠ []) := by
      intro s0 l0
      rw [hr, e1, mem_aset hp.sendersNodup]
      simp
    refine ⟨listsOk_of_char hp hwf hso hchar ?_ ?_, hchar⟩
    · rw [hr, e1]; exact hndA
    · rw [hr, e1]; exact e2

/-! ### the general shrinking step

  Sender `s`'s list `l` is replaced by a sub-list `l'` (the sender is dropped when `l'` is empty) and the hashes
  `hs0 ++ hs` are removed from the hash index (`hs0` before, `hs` after).  If the removed hashes cover the removed
  transactions (`H1`) and concern nothing else (`H2`), the invariant is kept. -/

theorem shrink_lists {U : Bytes → Tx} {p q0 : Pool} {s : Bytes} {l l' : List Tx} (h : Inv U p)
    (hl : alookup s p.lists = some l) (hsub : l'.Sublist l)
    (e1 : q0.lists = aset s l' p.lists) (e2 : q0.cntSenders = p.cntSenders) (hs : List Bytes) :
    ListsOk U (removeBulk (removeSenderIfEmpty q0 s) hs) ∧
    ∀ s0 l0, (s0, l0) ∈ (removeBulk (removeSenderIfEmpty q0 s) hs).lists ↔
      ((s0, l0) ∈ p.lists ∧ s0 ≠ s) ∨ (s0 = s ∧ l0 = l' ∧ l' ≠ []) := by
  have hml : (s, l) ∈ p.lists := alookup_some_mem hl
  have hwf : ∀ t ∈ l', WfTx U t ∧ t.sender = s := fun t ht => h.wfLists s l hml t (hsub.subset ht)
  have hso : l'.Pairwise (fun a b => a.nonce ≤ b.nonce) := List.Pairwise.sublist hsub (h.nonceSorted s l hml)
  have e2' : q0.cntSenders = ((aset s l' p.lists).length : Int) := by
    rw [e2, length_aset_of_present l' (mem_keys_of_mem hml)]; exact h.cntSenders
  obtain ⟨hok, hchar⟩ := lists_set (listsOk_of_inv h) hwf hso e1 e2'
  refine ⟨?_, ?_⟩
  · exact ⟨by simpa using hok.wfLists, by simpa using hok.sendersNodup, by simpa using hok.nonceSorted,
      by simpa using hok.nonEmpty, by simpa using hok.cntSenders⟩
  · simpa using hchar

theorem Inv.shrink {U : Bytes → Tx} {p q0 : Pool} {s : Bytes} {l l' : List Tx} (h : Inv U p)
    (hl : alookup s p.lists = some l) (hsub : l'.Sublist l) (hs0 hs : List Bytes)
    (H1 : ∀ t ∈ l, t ∉ l' → t.hash ∈ hs0 ∨ t.hash ∈ hs)
    (H2 : ∀ k, k ∈ hs0 ∨ k ∈ hs → (∃ x ∈ l, x ∉ l' ∧ x.hash = k) ∨ ∀ t, (k, t) ∉ p.byHash)
    (e1 : q0.lists = aset s l' p.lists) (e2 : q0.cntSenders = p.cntSenders)
    (hH : HashOk U q0) (hB : ∀ k t, (k, t) ∈ q0.byHash ↔ (k, t) ∈ p.byHash ∧ k ∉ hs0) :
    Inv U (removeBulk (removeSenderIfEmpty q0 s) hs) := by
  have hml : (s, l) ∈ p.lists := alookup_some_mem hl
  obtain ⟨hok, hchar⟩ := shrink_lists h hl hsub e1 e2 hs
  have hH' : HashOk U (removeBulk (removeSenderIfEmpty q0 s) hs) :=
    (hH.of_eq (q := removeSenderIfEmpty q0 s) (by simp) (by simp) (by simp)).removeBulk hs
  refine inv_of_parts hH' hok ?_
  intro x
  rw [mem_removeBulk, removeSenderIfEmpty_byHash, hB]
  constructor
  · rintro ⟨⟨hx, hn0⟩, hn⟩
    obtain ⟨s1, l1, hm1, hx1⟩ := (h.same x).mp hx
    by_cases hs1 : s1 = s
    · subst hs1
      have : l1 = l := by
        have := alookup_of_mem h.sendersNodup hm1
        rw [hl] at this
        exact (Option.some.inj this).symm
      subst this
      by_cases hxl : x ∈ l'
      · exact ⟨s1, l', (hchar s1 l').mpr (Or.inr ⟨rfl, rfl, List.ne_nil_of_mem hxl⟩), hxl⟩
      · rcases H1 x hx1 hxl with h' | h'
        · exact absurd h' hn0
        · exact absurd h' hn
    · exact ⟨s1, l1, (hchar s1 l1).mpr (Or.inl ⟨hm1, hs1⟩), hx1⟩
  · rintro ⟨s1, l1, hm1, hx1⟩
    -- x is in a list of p
    have hxp : ∃ s2 l2, (s2, l2) ∈ p.lists ∧ x ∈ l2 ∧ (s2 = s → x ∈ l') := by
      rcases (hchar s1 l1).mp hm1 with ⟨hm, hne⟩ | ⟨rfl, rfl, -⟩
      · exact ⟨s1, l1, hm, hx1, fun e => absurd e hne⟩
      · exact ⟨s1, l, hml, hsub.subset hx1, fun _ => hx1⟩
    obtain ⟨s2, l2, hm2, hx2, himp⟩ := hxp
    have hxh : (x.hash, x) ∈ p.byHash := (h.same x).mpr ⟨s2, l2, hm2, hx2⟩
    have hnot : ¬ (x.hash ∈ hs0 ∨ x.hash ∈ hs) := by
      intro hin
      rcases H2 x.hash hin with ⟨y, hy, hyn, hyh⟩ | hno
      · have hxy : y = x :=
          wf_inj (h.wfLists s l hml y hy).1 (h.wfLists s2 l2 hm2 x hx2).1 hyh
        subst hxy
        have e : s2 = s := by
          rw [← (h.wfLists s2 l2 hm2 y hx2).2, ← (h.wfLists s l hml y hy).2]
        exact hyn (himp e)
      · exact hno x hxh
    exact ⟨⟨hxh, fun hh => hnot (Or.inl hh)⟩, fun hh => hnot (Or.inr hh)⟩

/-- the special case used by trimming and by eviction: `l` splits into the kept part `l'` and the removed part `rm`,
    which are disjoint, and exactly the hashes of `rm` are removed -/
theorem Inv.shrink_split {U : Bytes → Tx} {p q0 : Pool} {s : Bytes} {l l' rm : List Tx} (h : Inv U p)
    (hl : alookup s p.lists = some l) (hsub : l'.Sublist l)
    (hmem : ∀ x ∈ l, x ∈ l' ∨ x ∈ rm) (hrm : ∀ x ∈ rm, x ∈ l ∧ x ∉ l')
    (e1 : q0.lists = aset s l' p.lists) (e2 : q0.cntSenders = p.cntSenders)
    (e3 : q0.byHash = p.byHash) (e4 : q0.cntTx = p.cntTx) (e5 : q0.numBytes = p.numBytes) :
    Inv U (removeBulk (removeSenderIfEmpty q0 s) (rm.map (·.hash))) := by
  refine Inv.shrink h hl hsub [] (rm.map (·.hash)) ?_ ?_ e1 e2 ((hashOk_of_inv h).of_eq e3 e4 e5) ?_
  · intro t ht hn
    rcases hmem t ht with h' | h'
    · exact absurd h' hn
    · exact Or.inr (List.mem_map.mpr ⟨t, h', rfl⟩)
  · intro k hk
    rcases hk with hk | hk
    · simp at hk
    · obtain ⟨x, hx, rfl⟩ := List.mem_map.mp hk
      exact Or.inl ⟨x, (hrm x hx).1, (hrm x hx).2, rfl⟩
  · intro k t
    rw [e3]
    simp

end C5

/-- every sender list is strictly sorted (nonce ↑, gas price ↓, hash ↑) — the `sorted` part of `ListsInv` -/
def ListsSorted (p : Pool) : Prop := ∀ s l, (s, l) ∈ p.lists → ListSorted l

namespace C5

theorem shrink_sorted {U : Bytes → Tx} {p q0 : Pool} {s : Bytes} {l l' : List Tx} (h : Inv U p) (hso : ListsSorted p)
    (hl : alookup s p.lists = some l) (hsub : l'.Sublist l)
    (e1 : q0.lists = aset s l' p.lists) (e2 : q0.cntSenders = p.cntSenders) (hs : List Bytes) :
    ListsSorted (removeBulk (removeSenderIfEmpty q0 s) hs) := by
  obtain ⟨-, hchar⟩ := shrink_lists h hl hsub e1 e2 hs
  intro s0 l0 hm
  rcases (hchar s0 l0).mp hm with ⟨hm', -⟩ | ⟨rfl, rfl, -⟩
  · exact hso s0 l0 hm'
  · exact (hso s0 l (alookup_some_mem hl)).sublist hsub

/-! ### the list functions -/

theorem trim1_append (cfg : Config) (l : List Tx) : (trim1 cfg l).1 ++ (trim1 cfg l).2 = l := by
  unfold trim1
  split
  · split
    · simp
    · next last revInit hr =>
      have : l = (last :: revInit).reverse := by rw [← hr, List.reverse_reverse]
      rw [this]
      simp
  · simp

theorem dropLowerOrEqual_gt {n : Nat} {l : List Tx} (hs : l.Pairwise (fun a b => a.nonce ≤ b.nonce)) :
    ∀ x ∈ dropLowerOrEqual n l, x.nonce > n := by
  intro x hx
  rw [dropLowerOrEqual_eq_filter n l hs, List.mem_filter] at hx
  simpa using hx.2

theorem keepLower_lt {n : Nat} {l : List Tx} (hs : l.Pairwise (fun a b => a.nonce ≤ b.nonce)) :
    ∀ x ∈ keepLower n l, x.nonce < n := by
  intro x hx
  rw [keepLower_eq_filter n l hs, List.mem_filter] at hx
  simpa using hx.2

/-- in a pool satisfying the invariant a hashed transaction is found in its sender's list -/
theorem hashed_listed {U : Bytes → Tx} {p : Pool} (h : Inv U p) {hsh : Bytes} {t : Tx}
    (hm : alookup hsh p.byHash = some t) :
    t.hash = hsh ∧ WfTx U t ∧ ∃ l, alookup t.sender p.lists = some l ∧ t ∈ l := by
  have hmem := alookup_some_mem hm
  obtain ⟨hh, hw⟩ := h.wfHash hsh t hmem
  refine ⟨hh, hw, ?_⟩
  rw [← hh] at hmem
  obtain ⟨s, l, hml, htl⟩ := (h.same t).mp hmem
  have hs := (h.wfLists s l hml t htl).2
  rw [hs]
  exact ⟨l, alookup_of_mem h.sendersNodup hml, htl⟩

end C5

open C5

/-! ### the operations -/

theorem Inv.init (U : Bytes → Tx) (cfg : Config) : Inv U (Pool.init cfg) := by
  refine ⟨?_, ?_, ?_, ?_, ?_, ?_, ?_, ?_, ?_, ?_⟩ <;> simp [Pool.init, sumSizes]

theorem Inv.clear (U : Bytes → Tx) (p : Pool) (_h : Inv U p) : Inv U (clear Variant.current p) := by
  refine ⟨?_, ?_, ?_, ?_, ?_, ?_, ?_, ?_, ?_, ?_⟩ <;> simp [SV.TxCache.clear, Variant.current, sumSizes]

theorem removeTxByHash_both (U : Bytes → Tx) (p : Pool) (hsh : Bytes) (h : Inv U p) :
    Inv U (removeTxByHash p hsh).1 ∧ (ListsSorted p → ListsSorted (removeTxByHash p hsh).1) := by
  unfold SV.TxCache.removeTxByHash
  split
  · exact ⟨h, id⟩
  · next t hm =>
    obtain ⟨hh, hw, l, hl, htl⟩ := hashed_listed h hm
    simp only [byHashRemove_lists, hl]
    have hml : (t.sender, l) ∈ p.lists := alookup_some_mem hl
    have hsorted := h.nonceSorted _ _ hml
    obtain ⟨pre, hpre, hle⟩ := dropLowerOrEqual_suffix t.nonce l
    have hgt := dropLowerOrEqual_gt (n := t.nonce) hsorted
    have htake : l.take (l.length - (dropLowerOrEqual t.nonce l).length) = pre := by
      have hlen : l.length - (dropLowerOrEqual t.nonce l).length = pre.length := by
        have := congrArg List.length hpre
        rw [List.length_append] at this
        omega
      rw [hlen]
      conv => lhs; rw [hpre]
      exact List.take_left
    rw [htake]
    have hsub : (dropLowerOrEqual t.nonce l).Sublist l := by
      conv => rhs; rw [hpre]
      exact List.sublist_append_right _ _
    have hnotkept : ∀ x ∈ l, x.nonce ≤ t.nonce → x ∉ dropLowerOrEqual t.nonce l := by
      intro x _ hx hk
      have := hgt x hk
      omega
    refine ⟨Inv.shrink
      (q0 := { byHashRemove p hsh with lists := aset t.sender (dropLowerOrEqual t.nonce l) p.lists })
      h hl hsub [hsh] (pre.map (·.hash)) ?_ ?_ rfl (by simp)
      (((hashOk_of_inv h).byHashRemove hsh).of_eq rfl rfl rfl) ?_,
      fun hso => shrink_sorted
        (q0 := { byHashRemove p hsh with lists := aset t.sender (dropLowerOrEqual t.nonce l) p.lists })
        h hso hl hsub rfl (by simp) _⟩
    · intro x hx hn
      rw [hpre] at hx
      rcases List.mem_append.mp hx with hx | hx
      · exact Or.inr (List.mem_map.mpr ⟨x, hx, rfl⟩)
      · exact absurd hx hn
    · intro k hk
      rcases hk with hk | hk
      · simp only [List.mem_singleton] at hk
        subst hk
        exact Or.inl ⟨t, htl, hnotkept t htl (Nat.le_refl _), hh⟩
      · obtain ⟨x, hx, rfl⟩ := List.mem_map.mp hk
        have hxl : x ∈ l := by rw [hpre]; exact List.mem_append_left _ hx
        exact Or.inl ⟨x, hxl, hnotkept x hxl (hle x hx), rfl⟩
    · intro k x
      show (k, x) ∈ (byHashRemove p hsh).byHash ↔ _
      rw [mem_byHashRemove]
      simp

theorem Inv.removeTxByHash (U : Bytes → Tx) (p : Pool) (hsh : Bytes) (h : Inv U p) :
    Inv U (removeTxByHash p hsh).1 := (removeTxByHash_both U p hsh h).1

theorem ListsSorted.removeTxByHash (U : Bytes → Tx) (p : Pool) (hsh : Bytes) (h : Inv U p) (hso : ListsSorted p) :
    ListsSorted (removeTxByHash p hsh).1 := (removeTxByHash_both U p hsh h).2 hso

theorem ListsSorted.init (cfg : Config) : ListsSorted (Pool.init cfg) := by
  intro s l hm
  simp [Pool.init] at hm

theorem ListsSorted.clear (v : Variant) (p : Pool) : ListsSorted (SV.TxCache.clear v p) := by
  intro s l hm
  simp [SV.TxCache.clear] at hm

/-! ### insertion -/

/-- `addTx` after its optional eviction step (a literal copy of the rest of the definition) -/
def addTxCore (v : Variant) (p : Pool) (t : Tx) : Pool × Bool :=
  let (p, addedByHash) :=
    match alookup t.hash p.byHash with
    | some _ => (p, false)
    | none => ({ p with byHash := p.byHash ++ [(t.hash, t)], cntTx := p.cntTx + 1, numBytes := p.numBytes + t.size }, true)
  let (p, l) :=
    match alookup t.sender p.lists with
    | some l => (p, l)
    | none => ({ p with lists := p.lists ++ [(t.sender, [])], cntSenders := p.cntSenders + 1 }, [])
  match insertTx t l with
  | none => (p, addedByHash)
  | some l' =>
    let (l'', dropped) := trim1 p.cfg l'
    let p := { p with lists := aset t.sender l'' p.lists }
    let p := if v.keepsEmptySender then p else removeSenderIfEmpty p t.sender
    (removeBulk p (dropped.map (·.hash)), true)

theorem addTx_eq_core (v : Variant) (p0 : Pool) (t : Tx) :
    addTx v p0 t = addTxCore v (if p0.cfg.evictionEnabled then evict v p0 else p0) t := rfl

namespace C5

theorem hashOk_append {U : Bytes → Tx} {p q : Pool} {t : Tx} (hp : HashOk U p) (ht : WfTx U t)
    (hb : alookup t.hash p.byHash = none) (e3 : q.byHash = p.byHash ++ [(t.hash, t)])
    (e4 : q.cntTx = p.cntTx + 1) (e5 : q.numBytes = p.numBytes + t.size) : HashOk U q := by
  refine ⟨?_, ?_, ?_, ?_⟩
  · intro k x hx
    rw [e3] at hx
    rcases List.mem_append.mp hx with hx | hx
    · exact hp.wfHash k x hx
    · simp only [List.mem_singleton, Prod.mk.injEq] at hx
      obtain ⟨rfl, rfl⟩ := hx
      exact ⟨rfl, ht⟩
  · rw [e3]
    simp only [keys, List.map_append, List.map_cons, List.map_nil]
    refine List.nodup_append.mpr ⟨hp.keysNodup, by simp, ?_⟩
    intro a ha b hb'
    simp only [List.mem_singleton] at hb'
    subst hb'
    intro e
    subst e
    exact (alookup_none_iff.mp hb) ha
  · rw [e3, e4, hp.cntTx]; simp
  · rw [e3, e5, hp.numBytes, sumSizes_append]; simp [sumSizes]

/-- a transaction whose hash is not indexed is inserted into its sender's list (created if absent):
    the invariant holds for the pool BEFORE trimming -/
theorem insertFresh {U : Bytes → Tx} {p pI : Pool} {t : Tx} {l : List Tx} (h : Inv U p) (hso : ListsSorted p)
    (ht : WfTx U t) (hb : alookup t.hash p.byHash = none)
    (hl : alookup t.sender p.lists = some l ∨ (alookup t.sender p.lists = none ∧ l = []))
    (e1 : pI.lists = aset t.sender (orderedInsert t l) p.lists)
    (e2 : pI.cntSenders = ((aset t.sender (orderedInsert t l) p.lists).length : Int))
    (e3 : pI.byHash = p.byHash ++ [(t.hash, t)]) (e4 : pI.cntTx = p.cntTx + 1)
    (e5 : pI.numBytes = p.numBytes + t.size) :
    insertTx t l = some (orderedInsert t l) ∧ ListSorted (orderedInsert t l) ∧ Inv U pI ∧ ListsSorted pI := by
  -- t is in no list
  have hnot : ∀ s0 l0, (s0, l0) ∈ p.lists → t ∉ l0 := by
    intro s0 l0 hm htl
    exact alookup_none_not_mem hb t ((h.same t).mpr ⟨s0, l0, hm, htl⟩)
  -- members of l are pooled under t.sender
  have hlmem : ∀ x ∈ l, (t.sender, l) ∈ p.lists := by
    intro x hx
    rcases hl with hl | ⟨-, rfl⟩
    · exact alookup_some_mem hl
    · simp at hx
  have hlsorted : ListSorted l := by
    rcases hl with hl | ⟨-, rfl⟩
    · exact hso _ _ (alookup_some_mem hl)
    · simp [ListSorted]
  have hnodup : ¬ ∃ c ∈ l, c.nonce = t.nonce ∧ c.gasPrice = t.gasPrice ∧ c.hash = t.hash := by
    rintro ⟨c, hc, -, -, hch⟩
    have hml := hlmem c hc
    have : c = t := wf_inj (h.wfLists _ _ hml c hc).1 ht hch
    subst this
    exact hnot _ _ hml hc
  have hins : insertTx t l = some (orderedInsert t l) := by
    rw [insertTx_eq_orderedInsert t l hlsorted, if_neg hnodup]
  have hmsorted : ListSorted (orderedInsert t l) := orderedInsert_sorted t l hlsorted hnodup
  have hmne : orderedInsert t l ≠ [] :=
    List.ne_nil_of_mem ((mem_orderedInsert t t l).mpr (Or.inl rfl))
  have hwf : ∀ x ∈ orderedInsert t l, WfTx U x ∧ x.sender = t.sender := by
    intro x hx
    rcases (mem_orderedInsert t x l).mp hx with rfl | hx
    · exact ⟨ht, rfl⟩
    · exact h.wfLists _ _ (hlmem x hx) x hx
  obtain ⟨hok, hchar⟩ := lists_set (listsOk_of_inv h) hwf hmsorted.nonceSorted e1 e2
  have hlk : alookup t.sender pI.lists = some (orderedInsert t l) := by rw [e1]; exact alookup_aset_self ..
  rw [removeSenderIfEmpty_of_nonempty hlk hmne] at hok hchar
  refine ⟨hins, hmsorted, inv_of_parts (hashOk_append (hashOk_of_inv h) ht hb e3 e4 e5) hok ?_, ?_⟩
  · intro x
    rw [e3]
    constructor
    · intro hx
      rcases List.mem_append.mp hx with hx | hx
      · obtain ⟨s1, l1, hm1, hx1⟩ := (h.same x).mp hx
        by_cases hs1 : s1 = t.sender
        · subst hs1
          rcases hl with hl | ⟨hl, -⟩
          · have : l1 = l := by
              have := alookup_of_mem h.sendersNodup hm1
              rw [hl] at this
              exact (Option.some.inj this).symm
            subst this
            exact ⟨_, _, (hchar _ _).mpr (Or.inr ⟨rfl, rfl, hmne⟩), (mem_orderedInsert t x l1).mpr (Or.inr hx1)⟩
          · exact absurd hm1 (alookup_none_not_mem hl l1)
        · exact ⟨s1, l1, (hchar s1 l1).mpr (Or.inl ⟨hm1, hs1⟩), hx1⟩
      · simp only [List.mem_singleton, Prod.mk.injEq] at hx
        obtain ⟨-, rfl⟩ := hx
        exact ⟨_, _, (hchar _ _).mpr (Or.inr ⟨rfl, rfl, hmne⟩), (mem_orderedInsert x x l).mpr (Or.inl rfl)⟩
    · rintro ⟨s1, l1, hm1, hx1⟩
      rcases (hchar s1 l1).mp hm1 with ⟨hm, -⟩ | ⟨rfl, rfl, -⟩
      · exact List.mem_append_left _ ((h.same x).mpr ⟨s1, l1, hm, hx1⟩)
      · rcases (mem_orderedInsert t x l).mp hx1 with rfl | hx
        · exact List.mem_append_right _ (List.mem_singleton.mpr rfl)
        · exact List.mem_append_left _ ((h.same x).mpr ⟨_, l, hlmem x hx, hx⟩)
  · intro s1 l1 hm1
    rcases (hchar s1 l1).mp hm1 with ⟨hm, -⟩ | ⟨rfl, rfl, -⟩
    · exact hso s1 l1 hm
    · exact hmsorted

theorem fresh_insertTx {U : Bytes → Tx} {p : Pool} {t : Tx} {l : List Tx} (h : Inv U p) (hso : ListsSorted p)
    (ht : WfTx U t) (hb : alookup t.hash p.byHash = none)
    (hl : alookup t.sender p.lists = some l ∨ (alookup t.sender p.lists = none ∧ l = [])) :
    insertTx t l = some (orderedInsert t l) :=
  (insertFresh (pI := ⟨p.cfg, aset t.sender (orderedInsert t l) p.lists, p.byHash ++ [(t.hash, t)], p.cntTx + 1,
    p.numBytes + t.size, ((aset t.sender (orderedInsert t l) p.lists).length : Int)⟩)
    h hso ht hb hl rfl rfl rfl rfl rfl).1

/-- …and after trimming (`trim1`, `removeSenderIfEmpty`, bulk removal of the dropped hash) -/
theorem fresh_trim {U : Bytes → Tx} {p : Pool} {t : Tx} {l : List Tx} (h : Inv U p) (hso : ListsSorted p)
    (ht : WfTx U t) (hb : alookup t.hash p.byHash = none)
    (hl : alookup t.sender p.lists = some l ∨ (alookup t.sender p.lists = none ∧ l = []))
    (cfg : Config) (q0 : Pool)
    (e1 : q0.lists = aset t.sender (trim1 cfg (orderedInsert t l)).1 p.lists)
    (e2 : q0.cntSenders = ((aset t.sender (orderedInsert t l) p.lists).length : Int))
    (e3 : q0.byHash = p.byHash ++ [(t.hash, t)]) (e4 : q0.cntTx = p.cntTx + 1)
    (e5 : q0.numBytes = p.numBytes + t.size) :
    Inv U (removeBulk (removeSenderIfEmpty q0 t.sender) ((trim1 cfg (orderedInsert t l)).2.map (·.hash))) ∧
    ListsSorted (removeBulk (removeSenderIfEmpty q0 t.sender) ((trim1 cfg (orderedInsert t l)).2.map (·.hash))) := by
  let pI : Pool :=
    { cfg := cfg, lists := aset t.sender (orderedInsert t l) p.lists, byHash := p.byHash ++ [(t.hash, t)],
      cntTx := p.cntTx + 1, numBytes := p.numBytes + t.size,
      cntSenders := ((aset t.sender (orderedInsert t l) p.lists).length : Int) }
  obtain ⟨-, hms, hI, hIs⟩ := insertFresh (pI := pI) h hso ht hb hl rfl rfl rfl rfl rfl
  have hlk : alookup t.sender pI.lists = some (orderedInsert t l) := alookup_aset_self ..
  have happ := trim1_append cfg (orderedInsert t l)
  have hsub : (trim1 cfg (orderedInsert t l)).1.Sublist (orderedInsert t l) := by
    conv => rhs; rw [← happ]
    exact List.sublist_append_left _ _
  have hnd : ((trim1 cfg (orderedInsert t l)).1 ++ (trim1 cfg (orderedInsert t l)).2).Nodup := by
    rw [happ]; exact hms.nodup
  have e1' : q0.lists = aset t.sender (trim1 cfg (orderedInsert t l)).1 pI.lists := by
    rw [e1]; exact (aset_aset _ _ _ _).symm
  refine ⟨Inv.shrink_split hI hlk hsub ?_ ?_ e1' e2 e3 e4 e5, shrink_sorted hI hIs hlk hsub e1' e2 _⟩
  · intro x hx
    rw [← happ] at hx
    exact List.mem_append.mp hx
  · intro x hx
    refine ⟨by rw [← happ]; exact List.mem_append_right _ hx, ?_⟩
    intro hx'
    exact (List.nodup_append.mp hnd).2.2 x hx' x hx rfl

end C5

/-- insertion after the optional eviction step keeps the invariant and the sortedness of the lists -/
theorem Inv.addTxCore (U : Bytes → Tx) (p : Pool) (t : Tx) (h : Inv U p) (hso : ListsSorted p) (ht : WfTx U t) :
    Inv U (addTxCore Variant.current p t).1 ∧ ListsSorted (addTxCore Variant.current p t).1 := by
  cases hb : alookup t.hash p.byHash with
  | some x =>
    obtain ⟨hh, hw, l, hl, hxl⟩ := hashed_listed h hb
    have hxt : x = t := wf_inj hw ht hh
    subst hxt
    have hins : insertTx x l = none := by
      rw [insertTx_eq_orderedInsert x l (hso _ _ (alookup_some_mem hl)), if_pos ⟨x, hxl, rfl, rfl, rfl⟩]
    simp only [SV.TxCache.addTxCore, hb, hl, hins]
    exact ⟨h, hso⟩
  | none =>
    cases hl : alookup t.sender p.lists with
    | some l =>
      have hins := fresh_insertTx h hso ht hb (Or.inl hl)
      simp only [SV.TxCache.addTxCore, hb, hl, hins, Variant.current, Bool.false_eq_true, if_false]
      refine fresh_trim h hso ht hb (Or.inl hl) p.cfg _ rfl ?_ rfl rfl rfl
      show p.cntSenders = _
      rw [length_aset_of_present _ (mem_keys_of_mem (alookup_some_mem hl))]
      exact h.cntSenders
    | none =>
      have hins := fresh_insertTx (l := []) h hso ht hb (Or.inr ⟨hl, rfl⟩)
      simp only [SV.TxCache.addTxCore, hb, hl, hins, Variant.current, Bool.false_eq_true, if_false]
      refine fresh_trim h hso ht hb (Or.inr ⟨hl, rfl⟩) p.cfg _ ?_ ?_ rfl rfl rfl
      · show aset t.sender _ (p.lists ++ [(t.sender, [])]) = _
        rw [← aset_of_absent [] hl, aset_aset]
      · show p.cntSenders + 1 = _
        rw [aset_of_absent _ hl, List.length_append, h.cntSenders]
        simp

/-- insertion without the eviction step.
    NOTE the extra hypothesis `hso` (strict sortedness of the sender lists, the `sorted` half of `ListsInv`): `Inv` alone
    allows a list to hold the same transaction twice, and then trimming removes its hash while a copy stays listed
    (see `addTx_noEvict_needs_sorted` below).  Every reachable pool satisfies `ListsSorted` (`EvictInv.lean`). -/
theorem Inv.addTx_noEvict (U : Bytes → Tx) (p : Pool) (t : Tx) (h : Inv U p) (hso : ListsSorted p) (ht : WfTx U t)
    (he : p.cfg.evictionEnabled = false) : Inv U (addTx Variant.current p t).1 := by
  rw [addTx_eq_core, he]
  exact (Inv.addTxCore U p t h hso ht).1

theorem ListsSorted.addTx_noEvict (U : Bytes → Tx) (p : Pool) (t : Tx) (h : Inv U p) (hso : ListsSorted p)
    (ht : WfTx U t) (he : p.cfg.evictionEnabled = false) : ListsSorted (addTx Variant.current p t).1 := by
  rw [addTx_eq_core, he]
  exact (Inv.addTxCore U p t h hso ht).2

/-- an emptied pool reports zero everywhere -/
theorem Inv.empty_reports_zero (U : Bytes → Tx) (p : Pool) (h : Inv U p) (he : p.byHash = []) :
    p.lists = [] ∧ p.cntTx = 0 ∧ p.numBytes = 0 ∧ p.cntSenders = 0 := by
  have hl : p.lists = [] := by
    cases hp : p.lists with
    | nil => rfl
    | cons a r =>
      obtain ⟨s, l⟩ := a
      have hm : (s, l) ∈ p.lists := by rw [hp]; exact List.mem_cons_self ..
      cases l with
      | nil => exact absurd rfl (h.nonEmpty s [] hm)
      | cons t ts =>
        have := (h.same t).mpr ⟨s, t :: ts, hm, List.mem_cons_self ..⟩
        rw [he] at this
        simp at this
  refine ⟨hl, ?_, ?_, ?_⟩
  · rw [h.cntTx, he]; rfl
  · rw [h.numBytes, he]; rfl
  · rw [h.cntSenders, hl]; rfl

/-- no transaction is reachable by hash but by no list (no "ghost"), and vice versa -/
theorem Inv.no_ghost (U : Bytes → Tx) (p : Pool) (h : Inv U p) (hsh : Bytes) (t : Tx)
    (hm : alookup hsh p.byHash = some t) : ∃ l, alookup t.sender p.lists = some l ∧ t ∈ l :=
  (hashed_listed h hm).2.2

theorem Inv.listed_is_hashed (U : Bytes → Tx) (p : Pool) (h : Inv U p) (s : Bytes) (l : List Tx) (t : Tx)
    (hl : alookup s p.lists = some l) (ht : t ∈ l) : alookup t.hash p.byHash = some t :=
  alookup_of_mem h.keysNodup ((h.same t).mpr ⟨s, l, alookup_some_mem hl, ht⟩)

/-- `Inv` alone is NOT preserved by insertion: a list holding the same transaction twice satisfies `Inv`; inserting a
    lower nonce makes `trim1` drop the last copy and remove its hash, while the other copy stays listed. -/
theorem addTx_noEvict_needs_sorted : ∃ (U : Bytes → Tx) (p : Pool) (t : Tx),
    Inv U p ∧ WfTx U t ∧ p.cfg.evictionEnabled = false ∧ ¬ Inv U (addTx Variant.current p t).1 := by
  let t1 : Tx := ⟨[1], [0xa0], 5, 1, 1, 10, 0, 0, []⟩
  let t0 : Tx := ⟨[2], [0xa0], 1, 1, 1, 10, 0, 0, []⟩
  let cfg : Config := ⟨false, 1000, 1000, 100, 2, 1⟩
  let p : Pool := ⟨cfg, [([0xa0], [t1, t1])], [([1], t1)], 1, 10, 1⟩
  refine ⟨fun h => if h = [2] then t0 else t1, p, t0, ?_, by unfold WfTx; decide, rfl, ?_⟩
  · refine ⟨?_, ?_, ?_, ?_, ?_, ?_, ?_, ?_, ?_, ?_⟩
    · intro s l hm t ht
      simp only [p, List.mem_singleton, Prod.mk.injEq] at hm
      obtain ⟨rfl, rfl⟩ := hm
      simp only [List.mem_cons, List.not_mem_nil, or_false, or_self] at ht
      subst ht
      unfold WfTx
      decide
    · intro h t hm
      simp only [p, List.mem_singleton, Prod.mk.injEq] at hm
      obtain ⟨rfl, rfl⟩ := hm
      unfold WfTx
      decide
    · decide
    · decide
    · intro s l hm
      simp only [p, List.mem_singleton, Prod.mk.injEq] at hm
      obtain ⟨rfl, rfl⟩ := hm
      decide
    · intro s l hm
      simp only [p, List.mem_singleton, Prod.mk.injEq] at hm
      obtain ⟨rfl, rfl⟩ := hm
      decide
    · intro t
      simp only [p, List.mem_singleton, Prod.mk.injEq]
      constructor
      · rintro ⟨-, rfl⟩
        exact ⟨[0xa0], [t1, t1], ⟨rfl, rfl⟩, List.mem_cons_self ..⟩
      · rintro ⟨s, l, ⟨rfl, rfl⟩, ht⟩
        simp only [List.mem_cons, List.not_mem_nil, or_false, or_self] at ht
        subst ht
        exact ⟨rfl, rfl⟩
    · decide
    · decide
    · decide
  · intro hI
    have h1 := (hI.same t1).mpr ⟨[0xa0], [t0, t1], by decide, by decide⟩
    revert h1
    decide

end SV.TxCache
