/-
  SV.TxCache.OrderProofs — `moreValuable` is a strict total order on transactions with distinct hashes, hence
  `popBy` (heap.Pop in the model) returns THE extremum, independently of the order of the items in the heap.
-/
import SV.TxCache.Spec
import SV.CommonProofs
namespace SV.TxCache

/-! ### `moreValuable` is a strict total order -/

theorem moreValuable_irrefl (v : Variant) (a : Tx) : moreValuable v a a = false := by
  simp [moreValuable, bytesLt_irrefl]

theorem moreValuable_trans (v : Variant) (a b c : Tx) :
    moreValuable v a b = true → moreValuable v b c = true → moreValuable v a c = true := by
  unfold moreValuable
  generalize a.ppu v = pa
  generalize b.ppu v = pb
  generalize c.ppu v = pc
  intro h1 h2
  by_cases e1 : pa = pb
  · by_cases e2 : pb = pc
    · subst e1; subst e2
      simp only [ne_eq, not_true_eq_false, if_false] at h1 h2 ⊢
      by_cases g1 : a.gasLimit = b.gasLimit
      · by_cases g2 : b.gasLimit = c.gasLimit
        · have g3 : a.gasLimit = c.gasLimit := by omega
          simp only [g1, g2, not_true_eq_false, if_false] at h1 h2 ⊢
          exact bytesLt_trans _ _ _ h1 h2
        · have g3 : ¬ a.gasLimit = c.gasLimit := by omega
          simp only [g2, g3, not_false_eq_true, if_true, decide_eq_true_eq] at h2 ⊢
          omega
      · by_cases g2 : b.gasLimit = c.gasLimit
        · have g3 : ¬ a.gasLimit = c.gasLimit := by omega
          simp only [g1, g3, not_false_eq_true, if_true, decide_eq_true_eq] at h1 ⊢
          omega
        · simp only [g1, g2, not_false_eq_true, if_true, decide_eq_true_eq] at h1 h2
          have g3 : ¬ a.gasLimit = c.gasLimit := by omega
          simp only [g3, not_false_eq_true, if_true, decide_eq_true_eq]
          omega
    · subst e1
      simp only [e2, ne_eq, not_false_eq_true, if_true] at h2 ⊢
      exact h2
  · by_cases e2 : pb = pc
    · subst e2
      simp only [e1, ne_eq, not_false_eq_true, if_true] at h1 ⊢
      exact h1
    · simp only [e1, e2, ne_eq, not_false_eq_true, if_true, decide_eq_true_eq] at h1 h2
      have e3 : ¬ pa = pc := by omega
      simp only [e3, ne_eq, not_false_eq_true, if_true, decide_eq_true_eq]
      omega

theorem moreValuable_asymm (v : Variant) (a b : Tx) : moreValuable v a b = true → moreValuable v b a = false := by
  intro h
  cases hb : moreValuable v b a with
  | false => rfl
  | true =>
    have := moreValuable_trans v a b a h hb
    rw [moreValuable_irrefl] at this
    exact absurd this (by decide)

/-- every pair of transactions with different hashes is ordered -/
theorem moreValuable_total (v : Variant) (a b : Tx) (h : a.hash ≠ b.hash) :
    moreValuable v a b = true ∨ moreValuable v b a = true := by
  unfold moreValuable
  generalize a.ppu v = pa
  generalize b.ppu v = pb
  by_cases e1 : pa = pb
  · subst e1
    simp only [ne_eq, not_true_eq_false, if_false]
    by_cases g1 : a.gasLimit = b.gasLimit
    · simp only [g1, not_true_eq_false, if_false]
      exact bytesLt_total _ _ h
    · have g2 : ¬ b.gasLimit = a.gasLimit := fun e => g1 e.symm
      simp only [g1, g2, not_false_eq_true, if_true, decide_eq_true_eq]
      omega
  · have e2 : ¬ pb = pa := fun e => e1 e.symm
    simp only [e1, e2, ne_eq, not_false_eq_true, if_true, decide_eq_true_eq]
    omega

/-! ### `popBy` -/

/-- a strict total order on the current transactions of a list of items -/
structure StrictTotalOn (better : Tx → Tx → Bool) (l : List HItem) : Prop where
  irrefl : ∀ a, better a a = false
  trans : ∀ a b c, better a b = true → better b c = true → better a c = true
  total : ∀ i ∈ l, ∀ j ∈ l, i.cur.hash ≠ j.cur.hash → better i.cur j.cur = true ∨ better j.cur i.cur = true

theorem StrictTotalOn.mono {better : Tx → Tx → Bool} {l l' : List HItem}
    (ho : StrictTotalOn better l) (hs : ∀ i ∈ l', i ∈ l) : StrictTotalOn better l' :=
  ⟨ho.irrefl, ho.trans, fun i hi j hj => ho.total i (hs i hi) j (hs j hj)⟩

theorem StrictTotalOn.asymm {better : Tx → Tx → Bool} {l : List HItem}
    (ho : StrictTotalOn better l) (a b : Tx) (h1 : better a b = true) (h2 : better b a = true) : False := by
  have := ho.trans a b a h1 h2
  rw [ho.irrefl] at this
  exact absurd this (by decide)

/-- popBy returns a permutation of its input -/
theorem popBy_perm (better : Tx → Tx → Bool) : ∀ (l : List HItem) (b : HItem) (r : List HItem),
    popBy better l = some (b, r) → (b :: r).Perm l
  | [], b, r, h => by simp [popBy] at h
  | i :: is, b, r, h => by
    unfold popBy at h
    split at h
    · simp only [Option.some.injEq, Prod.mk.injEq] at h
      obtain ⟨rfl, rfl⟩ := h
      rename_i hn
      cases is with
      | nil => exact List.Perm.refl _
      | cons j js =>
        unfold popBy at hn
        split at hn
        · simp at hn
        · split at hn <;> simp at hn
    · rename_i b0 r0 hs
      have ih := popBy_perm better is b0 r0 hs
      split at h
      · simp only [Option.some.injEq, Prod.mk.injEq] at h
        obtain ⟨rfl, rfl⟩ := h
        exact List.Perm.refl _
      · simp only [Option.some.injEq, Prod.mk.injEq] at h
        obtain ⟨rfl, rfl⟩ := h
        exact (List.Perm.swap i b0 r0).trans (ih.cons i)

theorem popBy_none (better : Tx → Tx → Bool) (l : List HItem) : popBy better l = none ↔ l = [] := by
  constructor
  · intro h
    cases l with
    | nil => rfl
    | cons i is =>
      unfold popBy at h
      split at h
      · simp at h
      · split at h <;> simp at h
  · intro h
    subst h
    rfl

/-- the popped item beats every other item (it is THE extremum) -/
theorem popBy_best (better : Tx → Tx → Bool) (l : List HItem) (b : HItem) (r : List HItem)
    (ho : StrictTotalOn better l) (hd : (l.map (·.cur.hash)).Nodup)
    (h : popBy better l = some (b, r)) : ∀ i ∈ r, better b.cur i.cur = true := by
  induction l generalizing b r with
  | nil => simp [popBy] at h
  | cons i is ih =>
    have ho' : StrictTotalOn better is := ho.mono (fun x hx => List.mem_cons_of_mem _ hx)
    simp only [List.map_cons, List.nodup_cons] at hd
    obtain ⟨hni, hd'⟩ := hd
    unfold popBy at h
    split at h
    · simp only [Option.some.injEq, Prod.mk.injEq] at h
      obtain ⟨rfl, rfl⟩ := h
      intro x hx
      simp at hx
    · rename_i b0 r0 hs
      have hb0 := ih b0 r0 ho' hd' hs
      have hp := popBy_perm better is b0 r0 hs
      split at h
      · rename_i hbt
        simp only [Option.some.injEq, Prod.mk.injEq] at h
        obtain ⟨rfl, rfl⟩ := h
        intro x hx
        have hx' : x ∈ b0 :: r0 := hp.mem_iff.mpr hx
        rcases List.mem_cons.mp hx' with e | hxr
        · subst e; exact hbt
        · exact ho.trans _ _ _ hbt (hb0 x hxr)
      · rename_i hbt
        simp only [Option.some.injEq, Prod.mk.injEq] at h
        obtain ⟨rfl, rfl⟩ := h
        intro x hx
        rcases List.mem_cons.mp hx with e | hxr
        · subst e
          have hb0mem : b0 ∈ is := hp.mem_iff.mp (List.mem_cons_self)
          have hne : b0.cur.hash ≠ x.cur.hash := by
            intro e
            apply hni
            rw [← e]
            exact List.mem_map.mpr ⟨b0, hb0mem, rfl⟩
          rcases ho.total b0 (List.mem_cons_of_mem _ hb0mem) x List.mem_cons_self hne with h1 | h1
          · exact h1
          · exact absurd h1 hbt
        · exact hb0 x hxr

/-- hence the popped item does not depend on the order of the heap: for permuted inputs the same item is popped and
    the remainders are permutations of each other -/
theorem popBy_perm_invariant (better : Tx → Tx → Bool) (l l' : List HItem) (b : HItem) (r : List HItem)
    (ho : StrictTotalOn better l) (hd : (l.map (·.cur.hash)).Nodup) (hp : l.Perm l')
    (h : popBy better l = some (b, r)) : ∃ r', popBy better l' = some (b, r') ∧ r.Perm r' := by
  have hbr := popBy_perm better l b r h
  have hbest := popBy_best better l b r ho hd h
  have ho' : StrictTotalOn better l' := ho.mono (fun x hx => hp.mem_iff.mpr hx)
  have hd' : (l'.map (·.cur.hash)).Nodup := ((hp.map (·.cur.hash)).nodup_iff).mp hd
  cases h' : popBy better l' with
  | none =>
    have e := (popBy_none better l').mp h'
    subst e
    have := hp.eq_nil
    subst this
    simp [popBy] at h
  | some p =>
    obtain ⟨b', r'⟩ := p
    have hbr' := popBy_perm better l' b' r' h'
    have hbest' := popBy_best better l' b' r' ho' hd' h'
    have hbb : b' = b := by
      have hm : b' ∈ b :: r := (hbr.trans hp).mem_iff.mpr (hbr'.mem_iff.mp List.mem_cons_self)
      rcases List.mem_cons.mp hm with e | hmr
      · exact e
      · have hm' : b ∈ b' :: r' := (hbr'.trans hp.symm).mem_iff.mpr (hbr.mem_iff.mp List.mem_cons_self)
        rcases List.mem_cons.mp hm' with e | hmr'
        · exact e.symm
        · exact (ho.asymm _ _ (hbest b' hmr) (hbest' b hmr')).elim
    subst hbb
    refine ⟨r', rfl, ?_⟩
    exact ((hbr.trans hp).trans hbr'.symm).cons_inv

/-! ### the two pop policies of the code -/

theorem popBest_strictTotalOn (v : Variant) (l : List HItem) : StrictTotalOn (moreValuable v) l :=
  ⟨moreValuable_irrefl v, moreValuable_trans v, fun i _ j _ hne => moreValuable_total v i.cur j.cur hne⟩

theorem popWorst_strictTotalOn (v : Variant) (l : List HItem) : StrictTotalOn (fun a b => moreValuable v b a) l :=
  ⟨moreValuable_irrefl v, fun a b c h1 h2 => moreValuable_trans v c b a h2 h1,
   fun i _ j _ hne => (moreValuable_total v i.cur j.cur hne).symm⟩

/-- PickOk instances (PickOk is defined in Spec.lean) -/
theorem popBest_pickOk (v : Variant) : PickOk (popBest v) :=
  fun l it r h => popBy_perm (moreValuable v) l it r h

theorem popWorst_pickOk (v : Variant) : PickOk (popWorst v) :=
  fun l it r h => popBy_perm (fun a b => moreValuable v b a) l it r h

end SV.TxCache
