/-
  SV.TxCache.GreedySpec — the documented selection procedure (README of the Go package), written as an independent
  specification in the README's vocabulary, and the proof that the executable model `selectFromBunches` computes it.

  README: "repeatedly take, among the next pending transaction of every sender still in play, the one with the highest
  fee per gas unit (ties: larger gas limit, then lexicographically smaller hash), dropping a sender at its first nonce
  gap or unaffordable fee, skipping a single transaction that is stale, incorrectly guarded or a nonce duplicate, and
  stopping at the first candidate that would break the gas or count budget (or when the time budget is exhausted)".
-/
import SV.TxCache.SelOrderProofs
namespace SV.TxCache

/-! ### the specification -/

/-- what is known about the sender's previously selected transactions -/
inductive Expect
  | first              -- nothing selected yet for this sender
  | after (n : Nat)    -- the last transaction selected for this sender has nonce `n`
  deriving DecidableEq, Repr

/-- a sender still in play: its pending transactions (next one first, never empty) -/
structure Player where
  queue : List Tx
  expect : Expect
  pending : queue ≠ []
  deriving DecidableEq

/-- the next pending transaction of a sender in play -/
def Player.next (p : Player) : Tx := p.queue.head p.pending

/-- the sender once its next transaction is consumed (selected or skipped); `none`: nothing left, out of play -/
def Player.advance (p : Player) (e : Expect) : Option Player :=
  if h : p.queue.tail ≠ [] then some ⟨p.queue.tail, e, h⟩ else none

/-- the better of two candidates: the challenger replaces the champion only when it is more valuable -/
def keepBetter (v : Variant) (champion challenger : Player) : Player :=
  if moreValuable v challenger.next champion.next then challenger else champion

/-- the player whose next transaction is the most valuable -/
def argmax (v : Variant) : List Player → Option Player
  | [] => none
  | p :: ps => some (ps.foldl (keepBetter v) p)

/-- the best player, and the OTHER players (in their original order) -/
def best (v : Variant) (players : List Player) : Option (Player × List Player) :=
  (argmax v players).map (fun b => (b, players.erase b))

inductive Decision | stop | dropSender | skipTx | take
  deriving DecidableEq, Repr

/-- initial gap: nothing selected yet and the nonce is above the account nonce -/
def Expect.initialGap : Expect → Nat → Nat → Bool
  | .first, accountNonce, nonce => decide (nonce > accountNonce)
  | .after _, _, _ => false

/-- middle gap: the nonce does not follow the last selected one -/
def Expect.middleGap : Expect → Nat → Bool
  | .first, _ => false
  | .after n, nonce => decide (nonce > n + 1)

/-- nonce duplicate: same nonce as the last selected transaction -/
def Expect.duplicate : Expect → Nat → Bool
  | .first, _ => false
  | .after n, nonce => decide (nonce = n)

/-- accumulated gas after one more transaction (legacy variant: computed in uint64) -/
def addGas (v : Variant) (accGas gasLimit : Nat) : Nat :=
  if v.gasWraps then (accGas + gasLimit) % two64 else accGas + gasLimit

/-- what to do with candidate `t` of a sender whose selection history is `e` -/
def decide? (v : Variant) (s : Session) (committed : Bytes → Nat) (q : SelParams) (accGas count : Nat)
    (t : Tx) (e : Expect) : Decision :=
  -- budgets
  if addGas v accGas t.gasLimit > q.gasReq then .stop
  else if count ≥ q.maxNum then .stop
  else if count % q.interval = 0 ∧ q.stop count = true then .stop
  -- sender-level hazards
  else if e.initialGap (s.nonce t.sender) t.nonce then .dropSender
  else if e.middleGap t.nonce then .dropSender
  else if (t.fee : Int) > (s.balance t.payer : Int) - (committed t.payer : Int) then .dropSender
  -- transaction-level hazards
  else if t.nonce < s.nonce t.sender then .skipTx
  else if s.badGuard t then .skipTx
  else if e.duplicate t.nonce then .skipTx
  else .take

/-- amounts committed by the selected transactions: the sender commits the transferred value, the fee payer the fee -/
def commit (committed : Bytes → Nat) (t : Tx) : Bytes → Nat :=
  fun a => committed a + (if a = t.sender then t.value else 0) + (if a = t.payer then t.fee else 0)

def greedyLoop (v : Variant) (s : Session) (q : SelParams) :
    Nat → List Player → (Bytes → Nat) → Nat → List Tx → List Tx × Nat
  | 0, _, _, accGas, out => (out, accGas)
  | fuel + 1, players, committed, accGas, out =>
    match best v players with
    | none => (out, accGas)
    | some (p, others) =>
      match decide? v s committed q accGas out.length p.next p.expect with
      | .stop => (out, accGas)
      | .dropSender => greedyLoop v s q fuel others committed accGas out
      | .skipTx => greedyLoop v s q fuel (others ++ (p.advance p.expect).toList) committed accGas out
      | .take =>
        greedyLoop v s q fuel (others ++ (p.advance (.after p.next.nonce)).toList)
          (commit committed p.next) (addGas v accGas p.next.gasLimit) (out ++ [p.next])

/-- the documented procedure: every non-empty bunch is a sender in play, nothing selected yet -/
def greedy (v : Variant) (s : Session) (q : SelParams) (bunches : List (List Tx)) : List Tx × Nat :=
  greedyLoop v s q (bunches.flatten.length + 1)
    (bunches.filterMap (fun b => if h : b ≠ [] then some ⟨b, .first, h⟩ else none))
    (fun _ => 0) 0 []

/-! ### the model computes the specification -/

/-- the history of an item, in the specification's vocabulary -/
def expectOf : Option Nat → Expect
  | none => .first
  | some n => .after n

/-- simulation: a heap item is a player -/
def toPlayer (it : HItem) : Player := ⟨it.cur :: it.rest, expectOf it.latest, by simp⟩

@[simp] theorem toPlayer_next (it : HItem) : (toPlayer it).next = it.cur := rfl
@[simp] theorem toPlayer_expect (it : HItem) : (toPlayer it).expect = expectOf it.latest := rfl

theorem expectOf_inj {a b : Option Nat} (h : expectOf a = expectOf b) : a = b := by
  cases a <;> cases b <;> simp_all [expectOf]

theorem toPlayer_inj {a b : HItem} (h : toPlayer a = toPlayer b) : a = b := by
  cases a; cases b
  simp only [toPlayer, Player.mk.injEq, List.cons.injEq] at h
  obtain ⟨⟨h1, h2⟩, h3⟩ := h
  have := expectOf_inj h3
  simp_all

/-- `Player.advance` is `HItem.advance` (with the history relabelled) -/
theorem toPlayer_advance (it : HItem) (l : Option Nat) :
    (toPlayer it).advance (expectOf l) = (HItem.advance { it with latest := l }).map toPlayer := by
  unfold Player.advance HItem.advance
  cases hr : it.rest with
  | nil => simp [toPlayer, hr]
  | cons t ts => simp [toPlayer, hr]

/-! #### decisions -/

def Verdict.toDecision : Verdict → Decision
  | .dropSender => .dropSender
  | .skipTx => .skipTx
  | .take => .take

theorem addGas_gt (v : Variant) (acc g r : Nat) : (addGas v acc g > r) ↔ gasExceeded v acc g r = true := by
  unfold addGas gasExceeded
  cases v.gasWraps <;> simp

/-- the hazard tests of `decide?` are `classify` -/
theorem hazards_eq_classify (s : Session) (c : Bytes → Nat) (it : HItem) :
    (if (expectOf it.latest).initialGap (s.nonce it.cur.sender) it.cur.nonce then Decision.dropSender
      else if (expectOf it.latest).middleGap it.cur.nonce then .dropSender
      else if (it.cur.fee : Int) > (s.balance it.cur.payer : Int) - (c it.cur.payer : Int) then .dropSender
      else if it.cur.nonce < s.nonce it.cur.sender then .skipTx
      else if s.badGuard it.cur then .skipTx
      else if (expectOf it.latest).duplicate it.cur.nonce then .skipTx
      else .take) = (classify s c it).toDecision := by
  have hi : ((it.cur.fee : Int) > (s.balance it.cur.payer : Int) - (c it.cur.payer : Int)) ↔
      (c it.cur.payer + it.cur.fee > s.balance it.cur.payer) := by omega
  simp only [hi]
  unfold classify
  cases hl : it.latest with
  | none =>
    simp only [expectOf, Expect.initialGap, Expect.middleGap, Expect.duplicate, Option.isNone_none, Bool.true_and]
    by_cases h1 : it.cur.nonce > s.nonce it.cur.sender <;>
    by_cases h3 : c it.cur.payer + it.cur.fee > s.balance it.cur.payer <;>
    by_cases h4 : it.cur.nonce < s.nonce it.cur.sender <;>
    by_cases h5 : s.badGuard it.cur = true <;>
    simp [h1, h3, h4, h5, Verdict.toDecision]
  | some l =>
    simp only [expectOf, Expect.initialGap, Expect.middleGap, Expect.duplicate, Option.isNone_some, Bool.false_and]
    by_cases h2 : it.cur.nonce > l + 1 <;>
    by_cases h3 : c it.cur.payer + it.cur.fee > s.balance it.cur.payer <;>
    by_cases h4 : it.cur.nonce < s.nonce it.cur.sender <;>
    by_cases h5 : s.badGuard it.cur = true <;>
    by_cases h6 : it.cur.nonce = l <;>
    simp [h2, h3, h4, h5, h6, Verdict.toDecision, show ¬ l + 1 < l by omega]

/-- decision equivalence: `decide?` performs the loop's budget tests, then `classify` -/
theorem decide?_eq_classify (v : Variant) (s : Session) (c : Bytes → Nat) (q : SelParams) (acc n : Nat) (it : HItem) :
    decide? v s c q acc n it.cur (expectOf it.latest) =
      if gasExceeded v acc it.cur.gasLimit q.gasReq then .stop
      else if n ≥ q.maxNum then .stop
      else if n % q.interval = 0 && q.stop n then .stop
      else (classify s c it).toDecision := by
  unfold decide?
  simp only [addGas_gt]
  split
  · rfl
  · split
    · rfl
    · have e : (n % q.interval = 0 ∧ q.stop n = true) ↔ ((decide (n % q.interval = 0) && q.stop n) = true) := by simp
      simp only [e]
      split
      · rfl
      · exact hazards_eq_classify s c it

theorem commit_eq_bump (c : Bytes → Nat) (t : Tx) : commit c t = bump (bump c t.sender t.value) t.payer t.fee := by
  funext a
  unfold commit bump
  repeat' split
  all_goals omega

/-! #### candidates -/

/-- `argmax` returns a member that is more valuable than every other member -/
theorem foldl_keepBetter (v : Variant) : ∀ (ps : List Player) (c0 : Player),
    (((c0 :: ps).map (·.next.hash)).Nodup) →
    ps.foldl (keepBetter v) c0 ∈ c0 :: ps ∧
    ∀ x ∈ c0 :: ps, x.next.hash ≠ (ps.foldl (keepBetter v) c0).next.hash →
      moreValuable v (ps.foldl (keepBetter v) c0).next x.next = true := by
  intro ps
  induction ps with
  | nil =>
    intro c0 _
    refine ⟨List.mem_cons_self, ?_⟩
    intro x hx hne
    simp at hx
    subst hx
    exact absurd rfl hne
  | cons c cs ih =>
    intro c0 hd
    simp only [List.map_cons, List.nodup_cons, List.mem_cons, not_or] at hd
    obtain ⟨⟨h0c, h0cs⟩, hccs, hcs⟩ := hd
    simp only [List.foldl_cons]
    by_cases hb : moreValuable v c.next c0.next = true
    · have e : keepBetter v c0 c = c := by simp [keepBetter, hb]
      rw [e]
      obtain ⟨hm, hall⟩ := ih c (by simp only [List.map_cons, List.nodup_cons]; exact ⟨hccs, hcs⟩)
      refine ⟨List.mem_cons_of_mem _ hm, ?_⟩
      intro x hx hne
      rcases List.mem_cons.mp hx with rfl | hx
      · by_cases hbc : cs.foldl (keepBetter v) c = c
        · rw [hbc]; exact hb
        · have hbm : cs.foldl (keepBetter v) c ∈ cs := by
            rcases List.mem_cons.mp hm with h | h
            · exact absurd h hbc
            · exact h
          have hne' : c.next.hash ≠ (cs.foldl (keepBetter v) c).next.hash := by
            intro e'
            apply hccs
            rw [e']
            exact List.mem_map.mpr ⟨_, hbm, rfl⟩
          exact moreValuable_trans v _ _ _ (hall c List.mem_cons_self hne') hb
      · exact hall x hx hne
    · have e : keepBetter v c0 c = c0 := by simp [keepBetter, hb]
      rw [e]
      obtain ⟨hm, hall⟩ := ih c0 (by simp only [List.map_cons, List.nodup_cons]; exact ⟨h0cs, hcs⟩)
      refine ⟨?_, ?_⟩
      · rcases List.mem_cons.mp hm with h | h
        · rw [h]; exact List.mem_cons_self
        · exact List.mem_cons_of_mem _ (List.mem_cons_of_mem _ h)
      · intro x hx hne
        rcases List.mem_cons.mp hx with rfl | hx
        · exact hall x List.mem_cons_self hne
        · rcases List.mem_cons.mp hx with rfl | hx
          · have h0x : moreValuable v c0.next x.next = true := by
              rcases moreValuable_total v c0.next x.next h0c with h | h
              · exact h
              · exact absurd h hb
            by_cases hbc : cs.foldl (keepBetter v) c0 = c0
            · rw [hbc]; exact h0x
            · have hbm : cs.foldl (keepBetter v) c0 ∈ cs := by
                rcases List.mem_cons.mp hm with h | h
                · exact absurd h hbc
                · exact h
              have hne' : c0.next.hash ≠ (cs.foldl (keepBetter v) c0).next.hash := by
                intro e'
                apply h0cs
                rw [e']
                exact List.mem_map.mpr ⟨_, hbm, rfl⟩
              exact moreValuable_trans v _ _ _ (hall c0 List.mem_cons_self hne') h0x
          · exact hall x (List.mem_cons_of_mem _ hx) hne

/-- `best` is an explicit maximum: the chosen player's next transaction is more valuable than the next transaction of
    every other player; the others are the players minus the chosen one -/
theorem best_spec (v : Variant) (players : List Player) (b : Player) (others : List Player)
    (hd : (players.map (·.next.hash)).Nodup) (h : best v players = some (b, others)) :
    b ∈ players ∧ others = players.erase b ∧
    ∀ x ∈ players, x.next.hash ≠ b.next.hash → moreValuable v b.next x.next = true := by
  unfold best at h
  cases players with
  | nil => simp [argmax] at h
  | cons p ps =>
    simp only [argmax, Option.map_some, Option.some.injEq, Prod.mk.injEq] at h
    obtain ⟨rfl, rfl⟩ := h
    obtain ⟨hm, hall⟩ := foldl_keepBetter v ps p hd
    exact ⟨hm, rfl, hall⟩

theorem best_none (v : Variant) (players : List Player) : best v players = none ↔ players = [] := by
  cases players <;> simp [best, argmax]

/-- erasing the image of a heap item from the players = erasing the item from the heap -/
theorem erase_toPlayer : ∀ (heap : List HItem) (it : HItem), it ∈ heap →
    ∃ r, r.map toPlayer = (heap.map toPlayer).erase (toPlayer it) ∧ (it :: r).Perm heap
  | [], it, h => by simp at h
  | x :: xs, it, h => by
    by_cases e : x = it
    · subst e
      exact ⟨xs, by simp, List.Perm.refl _⟩
    · have hm : it ∈ xs := by
        rcases List.mem_cons.mp h with h | h
        · exact absurd h.symm e
        · exact h
      obtain ⟨r, hr1, hr2⟩ := erase_toPlayer xs it hm
      refine ⟨x :: r, ?_, ?_⟩
      · have ne : toPlayer x ≠ toPlayer it := fun h' => e (toPlayer_inj h')
        rw [List.map_cons, List.map_cons, List.erase_cons_tail (by simpa using ne), hr1]
      · exact (List.Perm.swap x it r).trans (hr2.cons x)

/-- candidate equivalence: the item popped by the model is the player chosen by the specification -/
theorem popBest_eq_best (v : Variant) (heap : List HItem) (hn : NodupH heap) (it : HItem) (r : List HItem)
    (hpk : popBest v heap = some (it, r)) :
    ∃ r2, best v (heap.map toPlayer) = some (toPlayer it, r2.map toPlayer) ∧ r.Perm r2 := by
  have hperm := popBy_perm _ heap it r hpk
  have hbest := popBy_best _ heap it r (popBest_strictTotalOn v heap) hn.curs hpk
  have hcurs : ((it :: r).map (·.cur.hash)).Nodup := (hn.perm hperm.symm).curs
  have hdp : ((heap.map toPlayer).map (·.next.hash)).Nodup := by
    rw [List.map_map]; exact hn.curs
  cases hb : best v (heap.map toPlayer) with
  | none =>
    have := (best_none v _).mp hb
    have : heap = [] := by simpa using this
    subst this
    simp [popBest, popBy] at hpk
  | some pr =>
    obtain ⟨b, others⟩ := pr
    obtain ⟨hm, ho, hall⟩ := best_spec v _ b others hdp hb
    obtain ⟨j, hj, rfl⟩ := List.mem_map.mp hm
    have hji : j = it := by
      have hj' : j ∈ it :: r := hperm.mem_iff.mpr hj
      rcases List.mem_cons.mp hj' with h | h
      · exact h
      · exfalso
        have h1 := hbest j h
        have hne : it.cur.hash ≠ j.cur.hash := by
          simp only [List.map_cons, List.nodup_cons] at hcurs
          intro e'
          apply hcurs.1
          rw [e']
          exact List.mem_map.mpr ⟨j, h, rfl⟩
        have h2 := hall (toPlayer it) (List.mem_map.mpr ⟨it, hperm.mem_iff.mp List.mem_cons_self, rfl⟩) hne
        simp only [toPlayer_next] at h2
        have := moreValuable_asymm v _ _ h1
        rw [h2] at this
        exact absurd this (by decide)
    subst hji
    obtain ⟨r2, hr1, hr2⟩ := erase_toPlayer heap j hj
    refine ⟨r2, ?_, ?_⟩
    · rw [ho, hr1]
    · exact (hperm.trans hr2.symm).cons_inv

/-! #### the loops -/

theorem selectLoop_eq_greedyLoop (v : Variant) (s : Session) (q : SelParams) :
    ∀ (fuel : Nat) (heap : List HItem) (consumed : Bytes → Nat) (acc : Nat) (out : List Tx), NodupH heap →
      selectLoop v (popBest v) s q fuel heap consumed acc out =
        greedyLoop v s q fuel (heap.map toPlayer) consumed acc out := by
  intro fuel
  induction fuel with
  | zero => intros; rfl
  | succ n ih =>
    intro heap consumed acc out hn
    cases hpk : popBest v heap with
    | none =>
      have e := (popBy_none _ heap).mp hpk
      subst e
      rfl
    | some p =>
      obtain ⟨it, r⟩ := p
      obtain ⟨r2, hb, hrr⟩ := popBest_eq_best v heap hn it r hpk
      have hn1 : NodupH (it :: r) := hn.perm (popBy_perm _ heap it r hpk).symm
      have hnr : NodupH r := hn1.tail
      have hnr2 : NodupH r2 := hnr.perm hrr
      -- one more item (the advanced one): front in the model, back in the specification
      have step : ∀ (it2 it' : HItem) (c : Bytes → Nat) (a : Nat) (o : List Tx), it2.rest = it.rest →
          it2.advance = some it' →
          selectLoop v (popBest v) s q n (it' :: r) c a o =
            greedyLoop v s q n (r2.map toPlayer ++ [toPlayer it']) c a o := by
        intro it2 it' c a o hr ha
        have hn' : NodupH (it' :: r) := hn1.advance hr ha
        have hp' : (it' :: r).Perm (r2 ++ [it']) :=
          (hrr.cons it').trans (List.perm_append_comm (l₁ := [it']) (l₂ := r2))
        rw [selectLoop_perm v s q n _ _ c a o hp' hn', ih _ c a o (hn'.perm hp')]
        simp
      have stay : ∀ (c : Bytes → Nat) (a : Nat) (o : List Tx),
          selectLoop v (popBest v) s q n r c a o = greedyLoop v s q n (r2.map toPlayer) c a o := by
        intro c a o
        rw [selectLoop_perm v s q n _ _ c a o hrr hnr, ih _ c a o hnr2]
      simp only [selectLoop, greedyLoop, hpk, hb, toPlayer_next, toPlayer_expect, decide?_eq_classify]
      split
      · rfl
      · split
        · rfl
        · split
          · rfl
          · cases classify s consumed it with
            | dropSender => exact stay _ _ _
            | skipTx =>
              simp only [Verdict.toDecision]
              have ha := toPlayer_advance it it.latest
              rw [ha]
              cases hadv : it.advance with
              | none => simpa using stay _ _ _
              | some it' => simpa using step it it' _ _ _ rfl hadv
            | take =>
              simp only [Verdict.toDecision]
              have ha := toPlayer_advance it (some it.cur.nonce)
              simp only [expectOf] at ha
              rw [ha, commit_eq_bump]
              cases hadv : HItem.advance { it with latest := some it.cur.nonce } with
              | none => simpa [addGas] using stay _ _ _
              | some it' => simpa [addGas] using step { it with latest := some it.cur.nonce } it' _ _ _ rfl hadv

theorem initHeap_toPlayer : ∀ bunches : List (List Tx),
    (initHeap bunches).map toPlayer =
      bunches.filterMap (fun b => if h : b ≠ [] then some (⟨b, .first, h⟩ : Player) else none)
  | [] => rfl
  | b :: bs => by
    have ih := initHeap_toPlayer bs
    unfold initHeap at ih ⊢
    cases b with
    | nil => simpa [List.filterMap_cons, HItem.ofBunch] using ih
    | cons t ts =>
      simp only [List.filterMap_cons, HItem.ofBunch, List.map_cons, ih]
      simp [toPlayer, expectOf]

/-- the model's selection is the documented greedy procedure (same transactions, same accumulated gas) -/
theorem selectFromBunches_eq_greedy (v : Variant) (s : Session) (q : SelParams) (bunches : List (List Tx))
    (hn : (bunches.flatten.map (·.hash)).Nodup) : selectFromBunches v s q bunches = greedy v s q bunches := by
  unfold selectFromBunches greedy
  have hf : bunchesTotal bunches = bunches.flatten.length := by
    unfold bunchesTotal
    rw [List.length_flatten]
  rw [hf, ← initHeap_toPlayer]
  apply selectLoop_eq_greedyLoop
  unfold NodupH
  rw [heapTxs_initHeap]
  exact hn


/-! ### sanity: the specification on a concrete pool -/

private def exTx (h snd : UInt8) (nonce fee : Nat) : Tx :=
  { hash := [h], sender := [snd], nonce := nonce, gasPrice := 1, gasLimit := 10, size := 0, fee := fee, value := 0,
    relayer := [] }

/-- sender 1: a nonce duplicate (tx 2) and a middle gap (tx 4); sender 2: an initial gap; sender 3 (account nonce 5,
    balance 100): a stale transaction (tx 6) and an unaffordable fee (tx 8); sender 4: nothing special -/
private def exPool : List (List Tx) :=
  [[exTx 1 1 0 90, exTx 2 1 0 80, exTx 3 1 1 70, exTx 4 1 3 100],
   [],
   [exTx 5 2 2 500],
   [exTx 6 3 3 60, exTx 7 3 5 50, exTx 8 3 6 1000],
   [exTx 9 4 0 40, exTx 10 4 1 30]]

private def exSession : Session :=
  ⟨fun a => if a = [3] then 5 else 0, fun a => if a = [3] then 100 else 1000, fun _ => false⟩

example :
    greedy Variant.current exSession { gasReq := 1000, maxNum := 10, stop := fun _ => false } exPool
      = ([exTx 1 1 0 90, exTx 3 1 1 70, exTx 7 3 5 50, exTx 9 4 0 40, exTx 10 4 1 30], 50) := by
  decide

/-- gas budget: stops at the first candidate (tx 9) that would exceed 35 -/
example :
    greedy Variant.current exSession { gasReq := 35, maxNum := 10, stop := fun _ => false } exPool
      = ([exTx 1 1 0 90, exTx 3 1 1 70, exTx 7 3 5 50], 30) := by
  decide

/-- count budget -/
example :
    greedy Variant.current exSession { gasReq := 1000, maxNum := 2, stop := fun _ => false } exPool
      = ([exTx 1 1 0 90, exTx 3 1 1 70], 20) := by
  decide

/-- the hypothesis of `selectFromBunches_eq_greedy` is needed: with a repeated hash "the most valuable" is ambiguous
    (the model pops the last of two equal candidates, the specification keeps the first) -/
theorem greedy_needs_distinct_hashes :
    ∃ (s : Session) (q : SelParams) (bunches : List (List Tx)),
      selectFromBunches Variant.current s q bunches ≠ greedy Variant.current s q bunches := by
  refine ⟨⟨fun _ => 0, fun _ => 100000, fun _ => false⟩, { gasReq := 1000, maxNum := 10, stop := fun _ => false },
    [[exTx 1 1 0 50, exTx 2 1 1 90], [exTx 1 1 0 50, exTx 3 1 1 10]], ?_⟩
  decide

end SV.TxCache
