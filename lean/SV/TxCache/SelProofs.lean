/-
  SV.TxCache.SelProofs — proofs of the selection properties C01 (nonce runs) and C02 (members, count, gas,
  guard, balances) for `selectLoop`, plus the counter-example for the legacy gas budget test.
-/
import SV.TxCache.Spec
namespace SV.TxCache

/-! ### a generic induction principle for `selectLoop` -/

theorem HItem.advance_spec {it it' : HItem} (h : it.advance = some it') :
    ∃ t ts, it.rest = t :: ts ∧ it' = { it with cur := t, rest := ts } := by
  unfold HItem.advance at h
  split at h
  · simp at h
  · rename_i t ts heq; simp at h; exact ⟨t, ts, heq, h.symm⟩

/-- If `I` is preserved by the three kinds of steps of the loop and implies `Post` on the returned pair,
    then `Post` holds for the result of the loop started in any state satisfying `I`. -/
theorem selectLoop_induct (v : Variant) (pick : List HItem → Option (HItem × List HItem))
    (s : Session) (q : SelParams)
    (I : List HItem → (Bytes → Nat) → Nat → List Tx → Prop) (Post : List Tx × Nat → Prop)
    (hpost : ∀ heap c acc out, I heap c acc out → Post (out, acc))
    (hdrop : ∀ heap c acc out it heap', I heap c acc out → pick heap = some (it, heap') → I heap' c acc out)
    (hskip : ∀ heap c acc out it heap' t ts, I heap c acc out → pick heap = some (it, heap') →
      it.rest = t :: ts → I ({ it with cur := t, rest := ts } :: heap') c acc out)
    (htake : ∀ heap c acc out it heap', I heap c acc out → pick heap = some (it, heap') →
      ¬ (gasExceeded v acc it.cur.gasLimit q.gasReq = true) → ¬ (out.length ≥ q.maxNum) →
      classify s c it = .take →
      I heap' (bump (bump c it.cur.sender it.cur.value) it.cur.payer it.cur.fee)
        (if v.gasWraps then (acc + it.cur.gasLimit) % two64 else acc + it.cur.gasLimit) (out ++ [it.cur]) ∧
      ∀ t ts, it.rest = t :: ts →
        I ({ cur := t, rest := ts, latest := some it.cur.nonce } :: heap')
          (bump (bump c it.cur.sender it.cur.value) it.cur.payer it.cur.fee)
          (if v.gasWraps then (acc + it.cur.gasLimit) % two64 else acc + it.cur.gasLimit) (out ++ [it.cur])) :
    ∀ fuel heap c acc out, I heap c acc out → Post (selectLoop v pick s q fuel heap c acc out) := by
  intro fuel
  induction fuel with
  | zero => intro heap c acc out h; simpa [selectLoop] using hpost _ _ _ _ h
  | succ fuel ih =>
    intro heap c acc out h
    unfold selectLoop
    split
    · exact hpost _ _ _ _ h
    · rename_i it heap' hp
      split
      · exact hpost _ _ _ _ h
      · rename_i hg
        split
        · exact hpost _ _ _ _ h
        · rename_i hn
          split
          · exact hpost _ _ _ _ h
          · split
            · exact ih _ _ _ _ (hdrop _ _ _ _ _ _ h hp)
            · split
              · exact ih _ _ _ _ (hdrop _ _ _ _ _ _ h hp)
              · rename_i it' ha
                obtain ⟨t, ts, hr, rfl⟩ := HItem.advance_spec ha
                exact ih _ _ _ _ (hskip _ _ _ _ _ _ _ _ h hp hr)
            · rename_i hc
              obtain ⟨h1, h2⟩ := htake _ _ _ _ _ _ h hp hg hn hc
              dsimp only
              split
              · exact ih _ _ _ _ h1
              · rename_i it' ha
                obtain ⟨t, ts, hr, rfl⟩ := HItem.advance_spec ha
                exact ih _ _ _ _ (h2 t ts hr)

/-- what `classify … = .take` tells us -/
theorem classify_take {s : Session} {c : Bytes → Nat} {it : HItem} (h : classify s c it = .take) :
    (it.latest = none → it.cur.nonce = s.nonce it.cur.sender) ∧
    (∀ l, it.latest = some l → it.cur.nonce ≤ l + 1 ∧ it.cur.nonce ≠ l) ∧
    s.badGuard it.cur = false ∧
    c it.cur.payer + it.cur.fee ≤ s.balance it.cur.payer := by
  unfold classify at h
  cases hl : it.latest with
  | none =>
    simp [hl] at h
    refine ⟨fun _ => ?_, fun l hl' => by simp at hl', ?_, ?_⟩
    all_goals repeat' (split at h)
    all_goals first | (simp at h; done) | omega | simp_all
  | some l =>
    simp [hl] at h
    refine ⟨fun hn => by simp at hn, fun l' hl' => ?_, ?_, ?_⟩
    · simp at hl'; subst hl'
      repeat' (split at h)
      all_goals first | (simp at h; done) | omega
    all_goals repeat' (split at h)
    all_goals first | (simp at h; done) | omega | simp_all

/-! ### C02: count, gas, guard -/

/-- C02 (count) -/
theorem selectLoop_count (v : Variant) (pick : List HItem → Option (HItem × List HItem))
    (s : Session) (q : SelParams) (heap : List HItem) (fuel : Nat) :
    (selectLoop v pick s q fuel heap (fun _ => 0) 0 []).1.length ≤ q.maxNum := by
  refine selectLoop_induct v pick s q (fun _ _ _ out => out.length ≤ q.maxNum)
    (fun r => r.1.length ≤ q.maxNum) ?_ ?_ ?_ ?_ fuel heap _ _ _ ?_
  · intro heap c acc out h; exact h
  · intro heap c acc out it heap' h _; exact h
  · intro heap c acc out it heap' t ts h _ _; exact h
  · intro heap c acc out it heap' h _ _ hn _
    have : (out ++ [it.cur]).length ≤ q.maxNum := by simp; omega
    exact ⟨this, fun _ _ _ => this⟩
  · simp

/-- C02 (gas): with the repaired budget test the returned gas is the true sum (in ℕ) and within the request -/
theorem selectLoop_gas (v : Variant) (hv : v.gasWraps = false) (pick : List HItem → Option (HItem × List HItem))
    (s : Session) (q : SelParams) (heap : List HItem) (fuel : Nat) :
    let r := selectLoop v pick s q fuel heap (fun _ => 0) 0 []
    (r.1.map (·.gasLimit)).sum = r.2 ∧ r.2 ≤ q.gasReq := by
  refine selectLoop_induct v pick s q
    (fun _ _ acc out => (out.map (·.gasLimit)).sum = acc ∧ acc ≤ q.gasReq)
    (fun r => (r.1.map (·.gasLimit)).sum = r.2 ∧ r.2 ≤ q.gasReq) ?_ ?_ ?_ ?_ fuel heap _ _ _ ?_
  · intro heap c acc out h; exact h
  · intro heap c acc out it heap' h _; exact h
  · intro heap c acc out it heap' t ts h _ _; exact h
  · intro heap c acc out it heap' h _ hg _ _
    have hle : acc + it.cur.gasLimit ≤ q.gasReq := by
      simp [gasExceeded, hv] at hg; exact hg
    have : ((out ++ [it.cur]).map (·.gasLimit)).sum
          = (if v.gasWraps then (acc + it.cur.gasLimit) % two64 else acc + it.cur.gasLimit) ∧
        (if v.gasWraps then (acc + it.cur.gasLimit) % two64 else acc + it.cur.gasLimit) ≤ q.gasReq := by
      simp [hv, List.sum_append, h.1, hle]
    exact ⟨this, fun _ _ _ => this⟩
  · simp

/-- C02 (guard) -/
theorem selectLoop_guard (v : Variant) (pick : List HItem → Option (HItem × List HItem))
    (s : Session) (q : SelParams) (heap : List HItem) (fuel : Nat) :
    ∀ t ∈ (selectLoop v pick s q fuel heap (fun _ => 0) 0 []).1, s.badGuard t = false := by
  refine selectLoop_induct v pick s q (fun _ _ _ out => ∀ t ∈ out, s.badGuard t = false)
    (fun r => ∀ t ∈ r.1, s.badGuard t = false) ?_ ?_ ?_ ?_ fuel heap _ _ _ ?_
  · intro heap c acc out h; exact h
  · intro heap c acc out it heap' h _; exact h
  · intro heap c acc out it heap' t ts h _ _; exact h
  · intro heap c acc out it heap' h _ _ _ hc
    have hb := (classify_take hc).2.2.1
    have : ∀ t ∈ out ++ [it.cur], s.badGuard t = false := by
      intro t ht
      rcases List.mem_append.mp ht with ht | ht
      · exact h t ht
      · simp at ht; subst ht; exact hb
    exact ⟨this, fun _ _ _ => this⟩
  · simp

/-! ### C02: balances -/

theorem committed_nil (a : Bytes) : committed [] a = 0 := by simp [committed]

theorem committed_concat (out : List Tx) (t : Tx) (a : Bytes) :
    committed (out ++ [t]) a =
      committed out a + (if t.payer = a then t.fee else 0) + (if t.sender = a then t.value else 0) := by
  unfold committed
  by_cases h1 : t.payer = a <;> by_cases h2 : t.sender = a <;>
    simp [List.filter_append, List.sum_append, h1, h2] <;> omega

theorem bump_bump (c : Bytes → Nat) (t : Tx) (a : Bytes) :
    bump (bump c t.sender t.value) t.payer t.fee a =
      c a + (if t.payer = a then t.fee else 0) + (if t.sender = a then t.value else 0) := by
  have e1 : (a = t.payer) = (t.payer = a) := propext eq_comm
  have e2 : (a = t.sender) = (t.sender = a) := propext eq_comm
  unfold bump
  simp only [e1, e2]
  by_cases h1 : t.payer = a <;> by_cases h2 : t.sender = a <;> simp [h1, h2] <;> omega

/-- C02 (balances): walking the result in order, the fee payer's balance covers this fee on top of everything
    already committed to that account by earlier transactions of the result -/
theorem selectLoop_balance (v : Variant) (pick : List HItem → Option (HItem × List HItem))
    (s : Session) (q : SelParams) (heap : List HItem) (fuel : Nat) :
    let out := (selectLoop v pick s q fuel heap (fun _ => 0) 0 []).1
    ∀ i (hi : i < out.length), committed (out.take i) (out[i]).payer + (out[i]).fee ≤ s.balance (out[i]).payer := by
  refine selectLoop_induct v pick s q
    (fun _ c _ out => (∀ a, c a = committed out a) ∧
      ∀ i (hi : i < out.length), committed (out.take i) (out[i]).payer + (out[i]).fee ≤ s.balance (out[i]).payer)
    (fun r => ∀ i (hi : i < r.1.length),
      committed (r.1.take i) (r.1[i]).payer + (r.1[i]).fee ≤ s.balance (r.1[i]).payer)
    ?_ ?_ ?_ ?_ fuel heap _ _ _ ?_
  · intro heap c acc out h; exact h.2
  · intro heap c acc out it heap' h _; exact h
  · intro heap c acc out it heap' t ts h _ _; exact h
  · intro heap c acc out it heap' h _ _ _ hc
    have hb := (classify_take hc).2.2.2
    have : (∀ a, bump (bump c it.cur.sender it.cur.value) it.cur.payer it.cur.fee a
              = committed (out ++ [it.cur]) a) ∧
        ∀ i (hi : i < (out ++ [it.cur]).length),
          committed ((out ++ [it.cur]).take i) ((out ++ [it.cur])[i]).payer + ((out ++ [it.cur])[i]).fee
            ≤ s.balance ((out ++ [it.cur])[i]).payer := by
      constructor
      · intro a; rw [bump_bump, committed_concat, h.1 a]
      · intro i hi
        by_cases hlt : i < out.length
        · rw [List.getElem_append_left hlt, List.take_append_of_le_length (Nat.le_of_lt hlt)]
          exact h.2 i hlt
        · have hi' : i = out.length := by simp at hi; omega
          subst hi'
          rw [List.getElem_concat_length rfl, List.take_left' rfl, ← h.1]
          exact hb
    exact ⟨this, fun _ _ _ => this⟩
  · simp [committed_nil]

/-! ### C02: members, no duplicates -/

/-- the transactions still reachable from an item -/
def HItem.txs (it : HItem) : List Tx := it.cur :: it.rest

theorem initHeap_txs (bunches : List (List Tx)) : (initHeap bunches).flatMap HItem.txs = bunches.flatten := by
  induction bunches with
  | nil => simp [initHeap]
  | cons b bs ih =>
    cases b with
    | nil =>
      have e : initHeap ([] :: bs) = initHeap bs := rfl
      rw [e, ih]; simp
    | cons t ts =>
      have e : initHeap ((t :: ts) :: bs) = { cur := t, rest := ts } :: initHeap bs := rfl
      rw [e, List.flatMap_cons, ih]; simp [HItem.txs]

/-- C02 (membership/distinctness): the result is a duplicate-free list of pool members -/
theorem selectLoop_members (v : Variant) (pick : List HItem → Option (HItem × List HItem)) (hp : PickOk pick)
    (s : Session) (q : SelParams) (bunches : List (List Tx)) (hn : bunches.flatten.Nodup) (fuel : Nat) :
    let out := (selectLoop v pick s q fuel (initHeap bunches) (fun _ => 0) 0 []).1
    out.Nodup ∧ ∀ t ∈ out, t ∈ bunches.flatten := by
  -- the invariant: `out` followed by everything still in the heap is a duplicate-free list of pool members
  let P : List Tx → Prop := fun L => L.Nodup ∧ ∀ t ∈ L, t ∈ bunches.flatten
  have Psub : ∀ {L L' : List Tx}, L'.Sublist L → P L → P L' :=
    fun hs h => ⟨hs.nodup h.1, fun t ht => h.2 t (hs.subset ht)⟩
  have Pperm : ∀ {L L' : List Tx}, L'.Perm L → P L → P L' :=
    fun hs h => ⟨(hs.nodup_iff).mpr h.1, fun t ht => h.2 t (hs.subset ht)⟩
  have step : ∀ {heap it heap'} (out : List Tx), pick heap = some (it, heap') →
      P (out ++ heap.flatMap HItem.txs) → P (out ++ (it.cur :: it.rest ++ heap'.flatMap HItem.txs)) := by
    intro heap it heap' out hpk h
    have hperm := (hp _ _ _ hpk).flatMap_right HItem.txs
    rw [List.flatMap_cons] at hperm
    exact Pperm (hperm.append_left out) h
  refine selectLoop_induct v pick s q (fun heap _ _ out => P (out ++ heap.flatMap HItem.txs))
    (fun r => r.1.Nodup ∧ ∀ t ∈ r.1, t ∈ bunches.flatten) ?_ ?_ ?_ ?_ fuel _ _ _ _ ?_
  · intro heap c acc out h
    exact Psub (List.sublist_append_left _ _) h
  · intro heap c acc out it heap' h hpk
    refine Psub ?_ (step out hpk h)
    exact List.Sublist.append_left (List.sublist_append_right _ _) _
  · intro heap c acc out it heap' t ts h hpk hr
    refine Psub ?_ (step out hpk h)
    rw [hr, List.flatMap_cons]
    exact List.Sublist.append_left (List.Sublist.append_right (List.sublist_cons_self _ _) _) _
  · intro heap c acc out it heap' h hpk _ _ _
    have h' := step out hpk h
    constructor
    · refine Psub ?_ h'
      rw [List.append_assoc]
      exact List.Sublist.append_left
        (List.Sublist.append (List.Sublist.refl _) (List.sublist_append_right _ _)) _
    · intro t ts hr
      refine Psub ?_ h'
      rw [hr, List.flatMap_cons, List.append_assoc]
      exact List.Sublist.refl _
  · show P ([] ++ (initHeap bunches).flatMap HItem.txs)
    rw [initHeap_txs]
    exact ⟨by simpa using hn, fun t ht => by simpa using ht⟩

/-! ### C01: nonce runs -/

@[simp] theorem noncesOf_nil (snd : Bytes) : noncesOf snd [] = [] := rfl

theorem noncesOf_append_same (snd : Bytes) (out : List Tx) (t : Tx) (h : t.sender = snd) :
    noncesOf snd (out ++ [t]) = noncesOf snd out ++ [t.nonce] := by
  simp [noncesOf, List.filter_append, h]

theorem noncesOf_append_other (snd : Bytes) (out : List Tx) (t : Tx) (h : t.sender ≠ snd) :
    noncesOf snd (out ++ [t]) = noncesOf snd out := by
  simp [noncesOf, List.filter_append, h]

def RunOk (s : Session) (snd : Bytes) (out : List Tx) : Prop :=
  ∃ k, noncesOf snd out = List.range' (s.nonce snd) k

/-- an item is well formed when everything reachable from it has the sender of the cursor, nonces non-decreasing -/
def ItemOk (it : HItem) : Prop :=
  (∀ t ∈ it.rest, t.sender = it.cur.sender) ∧
  (it.cur :: it.rest).Pairwise (fun a b => a.nonce ≤ b.nonce)

structure SelInv (s : Session) (heap : List HItem) (out : List Tx) : Prop where
  items : ∀ it ∈ heap, ItemOk it
  distinct : heap.Pairwise (fun a b => a.cur.sender ≠ b.cur.sender)
  latestNone : ∀ it ∈ heap, it.latest = none → noncesOf it.cur.sender out = []
  latestSome : ∀ it ∈ heap, ∀ n, it.latest = some n →
      s.nonce it.cur.sender ≤ n ∧
      noncesOf it.cur.sender out = List.range' (s.nonce it.cur.sender) (n - s.nonce it.cur.sender + 1) ∧
      n ≤ it.cur.nonce
  frozen : ∀ snd, RunOk s snd out

theorem SelInv.perm {s : Session} {l l' : List HItem} {out : List Tx} (h : SelInv s l out) (p : l'.Perm l) :
    SelInv s l' out where
  items := fun it hit => h.items it (p.subset hit)
  distinct := (p.pairwise_iff (fun {a b} (hab : a.cur.sender ≠ b.cur.sender) => Ne.symm hab)).mpr h.distinct
  latestNone := fun it hit => h.latestNone it (p.subset hit)
  latestSome := fun it hit => h.latestSome it (p.subset hit)
  frozen := h.frozen

theorem SelInv.tail {s : Session} {it : HItem} {l : List HItem} {out : List Tx} (h : SelInv s (it :: l) out) :
    SelInv s l out where
  items := fun x hx => h.items x (List.mem_cons_of_mem _ hx)
  distinct := (List.pairwise_cons.mp h.distinct).2
  latestNone := fun x hx => h.latestNone x (List.mem_cons_of_mem _ hx)
  latestSome := fun x hx => h.latestSome x (List.mem_cons_of_mem _ hx)
  frozen := h.frozen

/-- moving the cursor forward keeps the item well formed -/
theorem ItemOk.next {it : HItem} {t : Tx} {ts : List Tx} (lt : Option Nat) (hok : ItemOk it)
    (hr : it.rest = t :: ts) :
    ItemOk { cur := t, rest := ts, latest := lt } ∧ t.sender = it.cur.sender ∧ it.cur.nonce ≤ t.nonce := by
  obtain ⟨h2, h3⟩ := hok
  rw [hr] at h2 h3
  have hts : t.sender = it.cur.sender := h2 t (List.mem_cons_self ..)
  refine ⟨⟨?_, ?_⟩, hts, ?_⟩
  · intro x hx; show x.sender = t.sender; rw [hts]; exact h2 x (List.mem_cons_of_mem _ hx)
  · exact (List.pairwise_cons.mp h3).2
  · exact (List.pairwise_cons.mp h3).1 t (List.mem_cons_self ..)

/-- replacing the head item by one with the same sender/latest and a later cursor keeps the invariant -/
theorem SelInv.replaceHead {s : Session} {it it' : HItem} {l : List HItem} {out : List Tx}
    (h : SelInv s (it :: l) out) (hok : ItemOk it') (hs : it'.cur.sender = it.cur.sender)
    (hl : it'.latest = it.latest) (hc : it.cur.nonce ≤ it'.cur.nonce) : SelInv s (it' :: l) out where
  items := by
    intro x hx
    rcases List.mem_cons.mp hx with rfl | hx
    · exact hok
    · exact h.items x (List.mem_cons_of_mem _ hx)
  distinct := by
    have := List.pairwise_cons.mp h.distinct
    exact List.pairwise_cons.mpr ⟨fun b hb => by rw [hs]; exact this.1 b hb, this.2⟩
  latestNone := by
    intro x hx hn
    rcases List.mem_cons.mp hx with rfl | hx
    · rw [hs]; exact h.latestNone it (List.mem_cons_self ..) (hl ▸ hn)
    · exact h.latestNone x (List.mem_cons_of_mem _ hx) hn
  latestSome := by
    intro x hx n hn
    rcases List.mem_cons.mp hx with rfl | hx
    · have := h.latestSome it (List.mem_cons_self ..) n (hl ▸ hn)
      rw [hs]; exact ⟨this.1, this.2.1, Nat.le_trans this.2.2 hc⟩
    · exact h.latestSome x (List.mem_cons_of_mem _ hx) n hn
  frozen := h.frozen

theorem SelInv.take {s : Session} {c : Bytes → Nat} {it : HItem} {l : List HItem} {out : List Tx}
    (h : SelInv s (it :: l) out) (hc : classify s c it = .take) :
    SelInv s ({ it with latest := some it.cur.nonce } :: l) (out ++ [it.cur]) := by
  have hok := h.items it (List.mem_cons_self ..)
  have hdist := List.pairwise_cons.mp h.distinct
  obtain ⟨hN, hS, _, _⟩ := classify_take hc
  -- the new nonce list of this sender
  have hnew : s.nonce it.cur.sender ≤ it.cur.nonce ∧
      noncesOf it.cur.sender (out ++ [it.cur]) =
        List.range' (s.nonce it.cur.sender) (it.cur.nonce - s.nonce it.cur.sender + 1) := by
    rw [noncesOf_append_same _ _ _ rfl]
    cases hl : it.latest with
    | none =>
      have e := hN hl
      have z := h.latestNone it (List.mem_cons_self ..) hl
      rw [z, e]; simp [List.range']
    | some n =>
      obtain ⟨h1, h2, h3⟩ := h.latestSome it (List.mem_cons_self ..) n hl
      obtain ⟨h4, h5⟩ := hS n hl
      have e : it.cur.nonce = n + 1 := by omega
      rw [h2, e]
      have : n + 1 - s.nonce it.cur.sender + 1 = (n - s.nonce it.cur.sender + 1) + 1 := by omega
      rw [this, List.range'_concat (s := s.nonce it.cur.sender) (n := n - s.nonce it.cur.sender + 1)]
      simp
      omega
  refine ⟨?_, ?_, ?_, ?_, ?_⟩
  · intro x hx
    rcases List.mem_cons.mp hx with rfl | hx
    · exact hok
    · exact h.items x (List.mem_cons_of_mem _ hx)
  · exact List.pairwise_cons.mpr ⟨hdist.1, hdist.2⟩
  · intro x hx hn
    rcases List.mem_cons.mp hx with rfl | hx
    · simp at hn
    · have hne : it.cur.sender ≠ x.cur.sender := hdist.1 x hx
      rw [noncesOf_append_other _ _ _ hne]
      exact h.latestNone x (List.mem_cons_of_mem _ hx) hn
  · intro x hx n hn
    rcases List.mem_cons.mp hx with rfl | hx
    · simp at hn; subst hn
      exact ⟨hnew.1, hnew.2, Nat.le_refl _⟩
    · have hne : it.cur.sender ≠ x.cur.sender := hdist.1 x hx
      rw [noncesOf_append_other _ _ _ hne]
      exact h.latestSome x (List.mem_cons_of_mem _ hx) n hn
  · intro snd
    by_cases e : it.cur.sender = snd
    · subst e; exact ⟨_, hnew.2⟩
    · rw [RunOk, noncesOf_append_other _ _ _ e]; exact h.frozen snd

theorem mem_initHeap {bunches : List (List Tx)} {it : HItem} (h : it ∈ initHeap bunches) :
    ∃ t ts, (t :: ts) ∈ bunches ∧ it = { cur := t, rest := ts } := by
  simp only [initHeap, List.mem_filterMap] at h
  obtain ⟨b, hb, hob⟩ := h
  cases b with
  | nil => simp [HItem.ofBunch] at hob
  | cons t ts => simp [HItem.ofBunch] at hob; exact ⟨t, ts, hb, hob.symm⟩

theorem SelInv.init (s : Session) (bunches : List (List Tx))
    (hb : ∀ b ∈ bunches, BunchOk b) (hd : BunchesDistinct bunches) : SelInv s (initHeap bunches) [] where
  items := by
    intro it hit
    obtain ⟨t, ts, hm, rfl⟩ := mem_initHeap hit
    obtain ⟨h1, h2⟩ := hb _ hm
    exact ⟨fun x hx => h1 x (List.mem_cons_of_mem _ hx) t (List.mem_cons_self ..), h2⟩
  distinct := by
    unfold initHeap
    rw [List.pairwise_filterMap]
    refine hd.imp ?_
    intro a b hab x hx y hy
    cases a with
    | nil => simp [HItem.ofBunch] at hx
    | cons t ts =>
      cases b with
      | nil => simp [HItem.ofBunch] at hy
      | cons u us =>
        simp [HItem.ofBunch] at hx hy
        subst hx; subst hy
        exact hab t (List.mem_cons_self ..) u (List.mem_cons_self ..)
  latestNone := fun _ _ _ => rfl
  latestSome := by
    intro it hit n hn
    obtain ⟨t, ts, _, rfl⟩ := mem_initHeap hit
    simp at hn
  frozen := fun snd => ⟨0, by simp⟩

/-- C01: per sender, the selected nonces are consecutive, starting at the account nonce, in result order -/
theorem selectLoop_nonce_run (v : Variant) (pick : List HItem → Option (HItem × List HItem)) (hp : PickOk pick)
    (s : Session) (q : SelParams) (bunches : List (List Tx))
    (hb : ∀ b ∈ bunches, BunchOk b) (hd : BunchesDistinct bunches) (fuel : Nat) (snd : Bytes) :
    ∃ k, noncesOf snd (selectLoop v pick s q fuel (initHeap bunches) (fun _ => 0) 0 []).1 = List.range' (s.nonce snd) k := by
  refine selectLoop_induct v pick s q (fun heap _ _ out => SelInv s heap out)
    (fun r => RunOk s snd r.1) ?_ ?_ ?_ ?_ fuel _ _ _ _ (SelInv.init s bunches hb hd)
  · intro heap c acc out h; exact h.frozen snd
  · intro heap c acc out it heap' h hpk
    exact (h.perm (hp _ _ _ hpk)).tail
  · intro heap c acc out it heap' t ts h hpk hr
    have hinv := h.perm (hp _ _ _ hpk)
    obtain ⟨a1, a2, a3⟩ := (hinv.items it (List.mem_cons_self ..)).next it.latest hr
    exact hinv.replaceHead a1 a2 rfl a3
  · intro heap c acc out it heap' h hpk _ _ hc
    have ht := (h.perm (hp _ _ _ hpk)).take hc
    refine ⟨ht.tail, ?_⟩
    intro t ts hr
    obtain ⟨a1, a2, a3⟩ := (ht.items _ (List.mem_cons_self ..)).next (some it.cur.nonce) hr
    exact ht.replaceHead a1 a2 rfl a3

/-! ### the legacy budget test -/

/-- the legacy (pre-repair) budget test violates the gas clause: concrete counter-example -/
theorem legacy_gas_counterexample :
    ∃ (s : Session) (q : SelParams) (bunches : List (List Tx)),
      let r := selectFromBunches Variant.legacy s q bunches
      (r.1.map (·.gasLimit)).sum ≠ r.2 ∧ (r.1.map (·.gasLimit)).sum > q.gasReq := by
  refine ⟨⟨fun _ => 0, fun _ => 0, fun _ => false⟩,
    { gasReq := 18446744073709551615, maxNum := 10, stop := fun _ => false },
    [[{ hash := [1], sender := [1], nonce := 0, gasPrice := 0, gasLimit := 9223372036854775808,
        size := 0, fee := 0, value := 0, relayer := [] }],
     [{ hash := [2], sender := [2], nonce := 0, gasPrice := 0, gasLimit := 9223372036854775808,
        size := 0, fee := 0, value := 0, relayer := [] }]], ?_⟩
  decide

end SV.TxCache
