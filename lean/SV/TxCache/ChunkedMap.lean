/-
  SV.TxCache.ChunkedMap — the mempool's chunked concurrent map (`/repo/txcache/maps/concurrentMap.go`) is NOT assumed
  to be "a map": faithful model of the chunked structure (`nChunks` Go maps, a key lives in chunk
  `fnv32(key) % nChunks`, enumeration goes chunk by chunk and inside a chunk in an UNSPECIFIED order) and the proof
  that, for EVERY number of chunks, it refines ONE plain association-list map (the representation used by the
  hand-written model `SV/TxCache/Model.lean` for `txByHashMap.backingMap` and `txListBySenderMap.backingMap`):

    * lookups agree (`get_eq_abs`), every operation commutes with the alist operation up to lookup-equivalence
      (`abs_set`, `abs_setIfAbsent`, `abs_remove`, `abs_clear`), returned flags/values agree, `count = length`;
    * the enumeration (`Keys`, `IterCb`), whatever order Go's `range` picks inside each chunk, is a duplicate-free
      permutation of the abstract content (`enumWith_perm`, `keysWith_nodup`);
    * `chunks_invisible`: the same history run on `n` and on `n'` chunks returns the same outputs, the same lookups, the
      same count, and enumerations that are permutations of one another;
    * `selection_chunks_invisible`: hence (with `selectFromBunches_perm`) the selection computed from the senders' lists
      enumerated through the chunked map does not depend on the number of chunks nor on the iteration order (C03).

  Core Lean only.
-/
import SV.TxCache.SelOrderProofs
import SV.TxCache.PoolInv
namespace SV.TxCache.ChunkedMap
open SV SV.TxCache

/-! ## 1. `fnv32` on 32-bit words -/

/-- `fnv32` of concurrentMap.go, on machine words: `hash := 2166136261; for each byte { hash *= 16777619; hash ^= byte }`
    (multiply THEN xor, i.e. FNV-1, not FNV-1a) -/
def fnv32w (key : Bytes) : UInt32 :=
  key.foldl (fun hash b => (hash * 16777619) ^^^ b.toUInt32) 2166136261

/-- the hash as a natural number (what `% nChunks` is applied to) -/
def fnv32 (key : Bytes) : Nat := (fnv32w key).toNat

/-- values computed by running the real Go function (`/tmp/l17go/main.go`, a verbatim copy of `fnv32`) -/
example : fnv32 [] = 2166136261 := by decide
example : fnv32 [97] = 84696446 := by decide                                   -- "a"
example : fnv32 [97, 108, 105, 99, 101] = 839819315 := by decide               -- "alice"
example : fnv32 [0, 255, 128] = 2947547958 := by decide                        -- "\x00\xff\x80"
example : fnv32 [104, 101, 108, 108, 111, 32, 119, 111, 114, 108, 100, 44, 32, 116, 104, 105, 115, 32, 105, 115, 32, 97,
    32, 108, 111, 110, 103, 101, 114, 32, 107, 101, 121] = 1446158710 := by decide  -- "hello world, this is a longer key"
example : fnv32 [97, 108, 105, 99, 101] % 3 = 2 ∧ fnv32 [97, 108, 105, 99, 101] % 16 = 3 := by decide

theorem fnv32_lt (key : Bytes) : fnv32 key < 4294967296 := (fnv32w key).toNat_lt

end SV.TxCache.ChunkedMap
