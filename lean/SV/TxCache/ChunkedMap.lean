/-
  SV.TxCache.ChunkedMap — the mempool's chunked concurrent map (`/repo/txcache/maps/concurrentMap.go`) is NOT assumed
  to be "a map": faithful model of the chunked structure (`nChunks` Go maps, a key lives in chunk
  `fnv32(key) % nChunks`, enumeration goes chunk by chunk and inside a chunk in an UNSPECIFIED order) and the proof
  that, for EVERY number of chunks, it refines ONE plain association-list map (the representation used by the
  hand-written model `SV/TxCache/Model.lean` for `txByHashMap.backingMap` and `txListBySenderMap.backingMap`):

    * lookups agree (`get_eq_abs`), every operation commutes with the alist operation up to lookup-equivalence
      (`abs_set`, `abs_setIfAbsent`, `abs_remove`, `abs_clear`), returned flags/values agree, `count = length`;
    * the enumeration (`Keys`, `IterCb`), whatever order Go's `range` picks inside each chunk, is a duplicate-free
      permutation of the abstract content (`enumWith_perm`, `keysWith_nodup`);
    * `chunks_invisible`: the same history run on `n` and on `n'` chunks returns the same outputs, the same lookups, the
      same count, and enumerations that are permutations of one another;
    * `selection_chunks_invisible`: hence (with `selectFromBunches_perm`) the selection computed from the senders' lists
      enumerated through the chunked map does not depend on the number of chunks nor on the iteration order (C03).

  Finding (not a defect of the mempool): `Remove` computes its flag as `item != nil`; on a map that may hold nil interfaces
  "flag = the key was present" is false (`removeNilable`, counter-example and the true variant `removeNilable_flag`).

  Scope: the SEQUENTIAL behaviour.  Every single-key operation of the Go type is one critical section on the key's chunk
  (hence atomic); `Count`/`Keys`/`IterCb` lock chunk after chunk (not a snapshot under concurrent writers) — the
  interleavings are the subject of `SV/TxCache/Sections.lean`, not of this file.  `nChunks` is a `uint32` in Go; the
  model allows every natural number (a superset), and `fnv32 key % nChunks` on `uint32` is `Nat` remainder since
  `fnv32 key < 2^32` (`fnv32_lt`).

  Core Lean only.
-/
import SV.TxCache.SelOrderProofs
import SV.TxCache.PoolInv
namespace SV.TxCache.ChunkedMap
open SV SV.TxCache

/-! ## 1. `fnv32` on 32-bit words -/

/-- `fnv32` of concurrentMap.go, on machine words: `hash := 2166136261; for each byte { hash *= 16777619; hash ^= byte }`
    (multiply THEN xor, i.e. FNV-1, not FNV-1a) -/
def fnv32w (key : Bytes) : UInt32 :=
  key.foldl (fun hash b => (hash * 16777619) ^^^ b.toUInt32) 2166136261

/-- the hash as a natural number (what `% nChunks` is applied to) -/
def fnv32 (key : Bytes) : Nat := (fnv32w key).toNat

/-- values computed by running the real Go function (`/tmp/l17go/main.go`, a verbatim copy of `fnv32`) -/
example : fnv32 [] = 2166136261 := by decide
example : fnv32 [97] = 84696446 := by decide                                   -- "a"
example : fnv32 [97, 108, 105, 99, 101] = 839819315 := by decide               -- "alice"
example : fnv32 [0, 255, 128] = 2947547958 := by decide                        -- "\x00\xff\x80"
example : fnv32 [104, 101, 108, 108, 111, 32, 119, 111, 114, 108, 100, 44, 32, 116, 104, 105, 115, 32, 105, 115, 32, 97,
    32, 108, 111, 110, 103, 101, 114, 32, 107, 101, 121] = 1446158710 := by decide  -- "hello world, this is a longer key"
example : fnv32 [97, 108, 105, 99, 101] % 3 = 2 ∧ fnv32 [97, 108, 105, 99, 101] % 16 = 3 := by decide

theorem fnv32_lt (key : Bytes) : fnv32 key < 4294967296 := (fnv32w key).toNat_lt

theorem fnv32w_fold_toNat (key : Bytes) : ∀ (h : UInt32),
    (List.foldl (fun hash (b : UInt8) => (hash * 16777619) ^^^ b.toUInt32) h key).toNat =
    List.foldl (fun h (b : UInt8) => ((h * 16777619) % 4294967296) ^^^ b.toNat) h.toNat key := by
  induction key with
  | nil => intro h; rfl
  | cons b r ih =>
    intro h
    simp only [List.foldl_cons]
    rw [ih]
    have e : ((h * 16777619) ^^^ b.toUInt32).toNat = ((h.toNat * 16777619) % 4294967296) ^^^ b.toNat := by
      rw [UInt32.toNat_xor, UInt32.toNat_mul, UInt8.toNat_toUInt32]
      have e1 : (16777619 : UInt32).toNat = 16777619 := by decide
      rw [e1]
    rw [e]

/-- the word-level transcription is the `Nat`-arithmetic `SV.fnv32` the other models (immunity cache, drivers) use -/
theorem fnv32_eq_common (key : Bytes) : fnv32 key = SV.fnv32 key := by
  unfold fnv32 fnv32w SV.fnv32
  rw [fnv32w_fold_toNat]
  have e1 : (2166136261 : UInt32).toNat = 2166136261 := by decide
  rw [e1]

/-! ## 2. the model -/

/-- `ConcurrentMap`: `nChunks` and the slice of chunks; a chunk (`map[string]interface{}`) is an association list without
    duplicate keys (invariant `WF`); the position of a binding inside a chunk carries NO meaning (Go's iteration order
    over a map is unspecified): every enumeration below goes through an arbitrary per-chunk reordering `σ`. -/
structure CMap (α : Type) where
  nChunks : Nat
  chunks : List (List (Bytes × α))
  deriving Repr, DecidableEq

namespace CMap
variable {α : Type}

/-- `initializeChunks`: `nChunks` fresh empty maps -/
def initChunks (n : Nat) : List (List (Bytes × α)) := List.replicate n []

/-- `NewConcurrentMap(nChunks)`: 0 chunks means 1 chunk -/
def new (n : Nat) : CMap α :=
  let n := if n = 0 then 1 else n
  ⟨n, initChunks n⟩

/-- the index computed by `getChunk`: `fnv32(key) % nChunks` -/
def idx (m : CMap α) (k : Bytes) : Nat := fnv32 k % m.nChunks

/-- `getChunk(key).items` (Go would panic on an index out of range; under `WF` the index is in range: `WF.idx_lt`) -/
def chunk (m : CMap α) (k : Bytes) : List (Bytes × α) := (m.chunks[m.idx k]?).getD []

/-- write back the items of `getChunk(key)` -/
def withChunk (m : CMap α) (k : Bytes) (c : List (Bytes × α)) : CMap α :=
  { m with chunks := m.chunks.set (m.idx k) c }

/-- `Set`: `chunk.items[key] = value` -/
def set (m : CMap α) (k : Bytes) (v : α) : CMap α := m.withChunk k (aset k v (m.chunk k))

/-- `SetIfAbsent`: `_, ok := chunk.items[key]; if !ok { chunk.items[key] = value }; return !ok` -/
def setIfAbsent (m : CMap α) (k : Bytes) (v : α) : CMap α × Bool :=
  match alookup k (m.chunk k) with
  | some _ => (m, false)
  | none => (m.withChunk k (aset k v (m.chunk k)), true)

/-- `Get`: `val, ok := chunk.items[key]` (`none` = `ok` false) -/
def get (m : CMap α) (k : Bytes) : Option α := alookup k (m.chunk k)

/-- `Has` -/
def has (m : CMap α) (k : Bytes) : Bool := (alookup k (m.chunk k)).isSome

/-- `Remove`: `item := chunk.items[key]; delete(chunk.items, key); return item, item != nil`.  The values stored by the
    mempool are non-nil pointers, a value of type `α` is never nil: `item != nil` is "the key was present". -/
def remove (m : CMap α) (k : Bytes) : CMap α × Option α × Bool :=
  let item := alookup k (m.chunk k)
  (m.withChunk k (aerase k (m.chunk k)), item, item.isSome)

/-- `Clear` = `initializeChunks` (same `nChunks`) -/
def clear (m : CMap α) : CMap α := ⟨m.nChunks, initChunks m.nChunks⟩

/-- `Count`: sum of `len(chunk.items)` over the chunks -/
def count (m : CMap α) : Nat := (m.chunks.map List.length).sum

/-- concatenation of the chunks, in chunk order -/
def toAList (m : CMap α) : List (Bytes × α) := m.chunks.flatten

/-- the abstraction: ONE association list -/
abbrev abs (m : CMap α) : List (Bytes × α) := m.toAList

/-- what `for _, chunk := range chunks { for key, value := range chunk.items { … } }` visits: chunk by chunk in chunk
    order; inside chunk number `i` in the order `σ i items` chosen by the Go runtime -/
def enumWith (σ : Nat → List (Bytes × α) → List (Bytes × α)) (m : CMap α) : List (Bytes × α) :=
  (m.chunks.mapIdx σ).flatten

/-- `σ` is a legal behaviour of Go's `range` over a map: every entry exactly once, in any order -/
def IterOrder (σ : Nat → List (Bytes × α) → List (Bytes × α)) : Prop := ∀ i c, (σ i c).Perm c

/-- `Keys` under the iteration order `σ` -/
def keysWith (σ : Nat → List (Bytes × α) → List (Bytes × α)) (m : CMap α) : List Bytes := (m.enumWith σ).map (·.1)

/-- `Keys` with the identity order inside every chunk -/
def keys (m : CMap α) : List Bytes := m.toAList.map (·.1)

/-- `IterCb(fn)` under the iteration order `σ`, the callback threading a state -/
def iterCb {β : Type} (σ : Nat → List (Bytes × α) → List (Bytes × α)) (m : CMap α) (fn : β → Bytes → α → β) (init : β) : β :=
  (m.enumWith σ).foldl (fun acc p => fn acc p.1 p.2) init

theorem enumWith_id (m : CMap α) : m.enumWith (fun _ c => c) = m.toAList := by
  unfold enumWith toAList
  congr 1
  exact List.ext_getElem? (fun i => by simp [List.getElem?_mapIdx])

theorem keysWith_id (m : CMap α) : m.keysWith (fun _ c => c) = m.keys := by
  unfold keysWith keys; rw [enumWith_id]

/-! ## 3. the invariant -/

/-- exactly `nChunks ≥ 1` chunks, every key lives in chunk `fnv32 key % nChunks`, no duplicate key inside a chunk -/
structure WF (m : CMap α) : Prop where
  pos : 1 ≤ m.nChunks
  len : m.chunks.length = m.nChunks
  home : ∀ (i : Nat) (c : List (Bytes × α)), m.chunks[i]? = some c → ∀ p ∈ c, fnv32 p.1 % m.nChunks = i
  nodup : ∀ (i : Nat) (c : List (Bytes × α)), m.chunks[i]? = some c → (c.map (·.1)).Nodup

/-! ### association lists (local helpers; the pool proofs' `C5` lemmas are reused where they exist) -/

theorem alookup_aset (k k' : Bytes) (v : α) (l : List (Bytes × α)) :
    alookup k' (aset k v l) = if k' = k then some v else alookup k' l := by
  split
  · next h => subst h; exact C5.alookup_aset_self _ _ _
  · next h => exact C5.alookup_aset_ne _ _ h

theorem alookup_aerase (k k' : Bytes) (l : List (Bytes × α)) :
    alookup k' (aerase k l) = if k' = k then none else alookup k' l := by
  induction l with
  | nil => simp [aerase, alookup]
  | cons a r ih =>
    obtain ⟨k0, v0⟩ := a
    simp only [aerase]
    split
    · next h0 =>
      have h0 : k0 = k := by simpa using h0
      rw [ih]
      by_cases h : k' = k
      · rw [if_pos h, if_pos h]
      · rw [if_neg h, if_neg h]
        have : (k0 == k') = false := by rw [h0]; simp; exact fun e => h e.symm
        simp only [alookup, this]; rfl
    · next h0 =>
      have h0 : ¬ k0 = k := by simpa using h0
      simp only [alookup]
      split
      · next h1 =>
        have h1 : k0 = k' := by simpa using h1
        rw [if_neg (by rw [← h1]; exact h0)]
      · exact ih

theorem mem_aset_cases {k : Bytes} {v : α} {l : List (Bytes × α)} {p : Bytes × α} (h : p ∈ aset k v l) :
    p.1 = k ∨ p ∈ l := by
  induction l with
  | nil => simp [aset] at h; left; rw [h]
  | cons a r ih =>
    obtain ⟨k0, v0⟩ := a
    simp only [aset] at h
    split at h
    · rcases List.mem_cons.mp h with h | h
      · left; rw [h]
      · right; exact List.mem_cons_of_mem _ h
    · rcases List.mem_cons.mp h with h | h
      · right; rw [h]; exact List.mem_cons_self
      · rcases ih h with h | h
        · left; exact h
        · right; exact List.mem_cons_of_mem _ h

theorem mem_of_mem_aerase {k : Bytes} {l : List (Bytes × α)} {p : Bytes × α} (h : p ∈ aerase k l) : p ∈ l := by
  obtain ⟨k', v⟩ := p
  exact (C5.mem_aerase.mp h).1

theorem alookup_append (k : Bytes) (a b : List (Bytes × α)) :
    alookup k (a ++ b) = (alookup k a).orElse (fun _ => alookup k b) := by
  induction a with
  | nil => simp [alookup]
  | cons x r ih =>
    obtain ⟨k0, v0⟩ := x
    simp only [List.cons_append, alookup]
    split
    · simp
    · exact ih

theorem alookup_eq_none_of_forall {k : Bytes} {l : List (Bytes × α)} (h : ∀ p ∈ l, p.1 ≠ k) : alookup k l = none := by
  rw [C5.alookup_none_iff]
  intro hm
  obtain ⟨p, hp, e⟩ := List.mem_map.mp hm
  exact h p hp e

theorem nodup_of_keys {l : List (Bytes × α)} (hn : (l.map (·.1)).Nodup) : l.Nodup :=
  List.Pairwise.of_map (·.1) (fun _ _ h e => h (by rw [e])) hn

/-- two duplicate-free association lists with the same lookups hold the same bindings -/
theorem perm_of_lookup_eq {l l' : List (Bytes × α)} (hn : (l.map (·.1)).Nodup) (hn' : (l'.map (·.1)).Nodup)
    (h : ∀ k, alookup k l = alookup k l') : l.Perm l' := by
  refine (List.perm_ext_iff_of_nodup (nodup_of_keys hn) (nodup_of_keys hn')).mpr ?_
  intro ⟨k, v⟩
  rw [← C5.alookup_iff_mem (l := l) hn, ← C5.alookup_iff_mem (l := l') hn', h]

/-! ### chunk lists: a key is looked up in its home chunk only -/

/-- chunk number `i` of `L` holds only keys whose home `g` is `o + i` -/
def Homed (g : Bytes → Nat) (o : Nat) (L : List (List (Bytes × α))) : Prop :=
  ∀ (i : Nat) (c : List (Bytes × α)), L[i]? = some c → ∀ p ∈ c, g p.1 = o + i

theorem Homed.tail {g : Bytes → Nat} {o : Nat} {c : List (Bytes × α)} {L : List (List (Bytes × α))}
    (h : Homed g o (c :: L)) : Homed g (o + 1) L := by
  intro i c' hc p hp
  have := h (i + 1) c' (by simpa using hc) p hp
  omega

theorem Homed.mem_flatten {g : Bytes → Nat} {o : Nat} {L : List (List (Bytes × α))} (h : Homed g o L)
    {p : Bytes × α} (hp : p ∈ L.flatten) : o ≤ g p.1 := by
  obtain ⟨c, hc, hpc⟩ := List.mem_flatten.mp hp
  obtain ⟨i, hi⟩ := List.getElem?_of_mem hc
  have := h i c hi p hpc
  omega

theorem alookup_flatten {g : Bytes → Nat} {k : Bytes} :
    ∀ (L : List (List (Bytes × α))) (o i : Nat), Homed g o L → g k = o + i →
      alookup k L.flatten = alookup k ((L[i]?).getD []) := by
  intro L
  induction L with
  | nil => intro o i _ _; simp [alookup]
  | cons c L ih =>
    intro o i h hk
    rw [List.flatten_cons, alookup_append]
    cases i with
    | zero =>
      have : alookup k L.flatten = none := by
        apply alookup_eq_none_of_forall
        intro p hp e
        have := h.tail.mem_flatten hp
        rw [e] at this
        omega
      rw [this]
      simp
    | succ j =>
      have : alookup k c = none := by
        apply alookup_eq_none_of_forall
        intro p hp e
        have := h 0 c (by simp) p hp
        rw [e] at this
        omega
      rw [this]
      simp only [Option.orElse_none, List.getElem?_cons_succ]
      exact ih (o + 1) j h.tail (by omega)

theorem nodup_flatten_keys {g : Bytes → Nat} :
    ∀ (L : List (List (Bytes × α))) (o : Nat), Homed g o L →
      (∀ (i : Nat) (c : List (Bytes × α)), L[i]? = some c → (c.map (·.1)).Nodup) → (L.flatten.map (·.1)).Nodup := by
  intro L
  induction L with
  | nil => intro o _ _; simp
  | cons c L ih =>
    intro o h hn
    rw [List.flatten_cons, List.map_append, List.nodup_append]
    refine ⟨hn 0 c (by simp), ih (o + 1) h.tail (fun i c' hc => hn (i + 1) c' (by simpa using hc)), ?_⟩
    intro a ha b hb e
    obtain ⟨p, hp, rfl⟩ := List.mem_map.mp ha
    obtain ⟨q, hq, rfl⟩ := List.mem_map.mp hb
    have h1 := h 0 c (by simp) p hp
    have h2 := h.tail.mem_flatten hq
    rw [← e] at h2
    omega

/-! ### consequences of `WF` -/

theorem WF.homed {m : CMap α} (h : WF m) : Homed (fun k => fnv32 k % m.nChunks) 0 m.chunks := by
  intro i c hc p hp
  have := h.home i c hc p hp
  simpa using this

theorem WF.idx_lt {m : CMap α} (h : WF m) (k : Bytes) : m.idx k < m.chunks.length := by
  rw [h.len]; exact Nat.mod_lt _ h.pos

/-- no duplicate keys overall -/
theorem WF.nodup_abs {m : CMap α} (h : WF m) : (m.abs.map (·.1)).Nodup :=
  nodup_flatten_keys m.chunks 0 h.homed h.nodup

theorem WF.chunk_get {m : CMap α} (h : WF m) (k : Bytes) : m.chunks[m.idx k]? = some (m.chunk k) := by
  unfold chunk
  have := h.idx_lt k
  rw [List.getElem?_eq_getElem this]; rfl

theorem WF.chunk_home {m : CMap α} (h : WF m) (k : Bytes) : ∀ p ∈ m.chunk k, fnv32 p.1 % m.nChunks = m.idx k :=
  h.home _ _ (h.chunk_get k)

theorem WF.chunk_nodup {m : CMap α} (h : WF m) (k : Bytes) : ((m.chunk k).map (·.1)).Nodup :=
  h.nodup _ _ (h.chunk_get k)

/-- C04/C05: a lookup in the ONE association list is the chunked `Get` -/
theorem get_eq_abs {m : CMap α} (h : WF m) (k : Bytes) : alookup k m.abs = m.get k := by
  unfold get chunk
  exact alookup_flatten (g := fun k => fnv32 k % m.nChunks) m.chunks 0 (m.idx k) h.homed (by simp [idx])

theorem has_eq_abs {m : CMap α} (h : WF m) (k : Bytes) : m.has k = (alookup k m.abs).isSome := by
  rw [get_eq_abs h]; rfl

theorem count_eq_abs (m : CMap α) : m.count = m.abs.length := by
  unfold count abs toAList; rw [List.length_flatten]

theorem keys_eq_abs (m : CMap α) : m.keys = m.abs.map (·.1) := rfl

/-! ### the invariant is established by `new` and kept by every operation -/

theorem WF.initChunks (n : Nat) (hn : 1 ≤ n) : WF (⟨n, initChunks n⟩ : CMap α) := by
  refine ⟨hn, by simp [CMap.initChunks], ?_, ?_⟩
  · intro i c hc p hp
    simp only [CMap.initChunks, List.getElem?_replicate] at hc
    split at hc
    · cases hc; simp at hp
    · cases hc
  · intro i c hc
    simp only [CMap.initChunks, List.getElem?_replicate] at hc
    split at hc
    · cases hc; simp
    · cases hc

theorem WF.new (n : Nat) : WF (new n : CMap α) := by
  unfold CMap.new
  apply WF.initChunks
  split <;> omega

theorem new_nChunks (n : Nat) : (new n : CMap α).nChunks = if n = 0 then 1 else n := rfl

theorem WF.clear {m : CMap α} (h : WF m) : WF m.clear := WF.initChunks _ h.pos

theorem WF.withChunk {m : CMap α} (h : WF m) (k : Bytes) (c : List (Bytes × α))
    (hh : ∀ p ∈ c, fnv32 p.1 % m.nChunks = m.idx k) (hn : (c.map (·.1)).Nodup) : WF (m.withChunk k c) := by
  refine ⟨h.pos, ?_, ?_, ?_⟩
  · simp [CMap.withChunk, h.len]
  · intro i c' hc p hp
    simp only [CMap.withChunk, List.getElem?_set] at hc
    split at hc
    · next e =>
      split at hc
      · cases hc; rw [← e]; exact hh p hp
      · cases hc
    · exact h.home i c' hc p hp
  · intro i c' hc
    simp only [CMap.withChunk, List.getElem?_set] at hc
    split at hc
    · split at hc
      · cases hc; exact hn
      · cases hc
    · exact h.nodup i c' hc

theorem WF.set {m : CMap α} (h : WF m) (k : Bytes) (v : α) : WF (m.set k v) := by
  apply h.withChunk
  · intro p hp
    rcases mem_aset_cases hp with e | hm
    · rw [e]; rfl
    · exact h.chunk_home k p hm
  · exact C5.nodup_keys_aset v (h.chunk_nodup k)

theorem WF.setIfAbsent {m : CMap α} (h : WF m) (k : Bytes) (v : α) : WF (m.setIfAbsent k v).1 := by
  unfold CMap.setIfAbsent
  split
  · exact h
  · exact h.set k v

theorem WF.remove {m : CMap α} (h : WF m) (k : Bytes) : WF (m.remove k).1 := by
  apply h.withChunk
  · intro p hp
    exact h.chunk_home k p (mem_of_mem_aerase hp)
  · exact C5.nodup_keys_aerase (h.chunk_nodup k)

/-! ## 4. refinement: every operation is the association-list operation, up to lookup-equivalence -/

@[simp] theorem withChunk_nChunks (m : CMap α) (k : Bytes) (c : List (Bytes × α)) : (m.withChunk k c).nChunks = m.nChunks := rfl
@[simp] theorem withChunk_idx (m : CMap α) (k k' : Bytes) (c : List (Bytes × α)) : (m.withChunk k c).idx k' = m.idx k' := rfl

theorem chunk_withChunk {m : CMap α} (h : WF m) (k k' : Bytes) (c : List (Bytes × α)) :
    (m.withChunk k c).chunk k' = if m.idx k = m.idx k' then c else m.chunk k' := by
  unfold chunk
  rw [withChunk_idx]
  simp only [CMap.withChunk, List.getElem?_set]
  split
  · next e => rw [if_pos (h.idx_lt k)]; rfl
  · rfl

theorem get_withChunk {m : CMap α} (h : WF m) (k k' : Bytes) (c : List (Bytes × α)) :
    (m.withChunk k c).get k' = if m.idx k = m.idx k' then alookup k' c else m.get k' := by
  unfold get
  rw [chunk_withChunk h]
  split <;> rfl

theorem chunk_congr (m : CMap α) {k k' : Bytes} (e : m.idx k = m.idx k') : m.chunk k = m.chunk k' := by
  unfold chunk; rw [e]

theorem get_set {m : CMap α} (h : WF m) (k k' : Bytes) (v : α) :
    (m.set k v).get k' = if k' = k then some v else m.get k' := by
  unfold CMap.set
  rw [get_withChunk h]
  split
  · next e => rw [alookup_aset, chunk_congr m e]; rfl
  · next e =>
    have : k' ≠ k := fun e' => e (by rw [e'])
    rw [if_neg this]

theorem get_remove {m : CMap α} (h : WF m) (k k' : Bytes) :
    (m.remove k).1.get k' = if k' = k then none else m.get k' := by
  unfold CMap.remove
  dsimp only
  rw [get_withChunk h]
  split
  · next e => rw [alookup_aerase, chunk_congr m e]; rfl
  · next e =>
    have : k' ≠ k := fun e' => e (by rw [e'])
    rw [if_neg this]

theorem get_clear (m : CMap α) (k : Bytes) : m.clear.get k = none := by
  unfold get chunk CMap.clear CMap.initChunks
  simp only [List.getElem?_replicate]
  split <;> simp [alookup]

theorem abs_clear (m : CMap α) : m.clear.abs = [] := by
  unfold abs toAList CMap.clear CMap.initChunks
  simp

theorem abs_new (n : Nat) : (new n : CMap α).abs = [] := by
  unfold abs toAList CMap.new CMap.initChunks
  simp

/-- `Set` is `aset` on the abstraction -/
theorem abs_set {m : CMap α} (h : WF m) (k : Bytes) (v : α) :
    ∀ k', alookup k' (m.set k v).abs = alookup k' (aset k v m.abs) := by
  intro k'
  rw [get_eq_abs (h.set k v), get_set h, alookup_aset, get_eq_abs h]

/-- `SetIfAbsent` is "`aset` if the key is absent", and returns "was absent" -/
theorem abs_setIfAbsent {m : CMap α} (h : WF m) (k : Bytes) (v : α) :
    (m.setIfAbsent k v).2 = (alookup k m.abs).isNone ∧
    ∀ k', alookup k' (m.setIfAbsent k v).1.abs =
      alookup k' (if (alookup k m.abs).isNone then aset k v m.abs else m.abs) := by
  rw [get_eq_abs h]
  unfold CMap.setIfAbsent get
  split
  · next x hx => simp [hx]
  · next hx =>
    simp only [hx, Option.isNone_none, if_true, true_and]
    exact abs_set h k v

/-- `Remove` is `aerase`, and returns the binding that was there and whether there was one -/
theorem abs_remove {m : CMap α} (h : WF m) (k : Bytes) :
    (m.remove k).2.1 = alookup k m.abs ∧ (m.remove k).2.2 = (alookup k m.abs).isSome ∧
    ∀ k', alookup k' (m.remove k).1.abs = alookup k' (aerase k m.abs) := by
  refine ⟨?_, ?_, ?_⟩
  · rw [get_eq_abs h]; rfl
  · rw [get_eq_abs h]; rfl
  · intro k'
    rw [get_eq_abs (h.remove k), get_remove h, alookup_aerase, get_eq_abs h]

/-! ### enumeration: whatever order Go's `range` picks inside a chunk, a duplicate-free permutation of the content -/

theorem mapIdx_flatten_perm : ∀ (L : List (List (Bytes × α))) (σ : Nat → List (Bytes × α) → List (Bytes × α)),
    (∀ i c, (σ i c).Perm c) → ((L.mapIdx σ).flatten).Perm L.flatten := by
  intro L
  induction L with
  | nil => intro σ _; simp
  | cons c L ih =>
    intro σ h
    rw [List.mapIdx_cons, List.flatten_cons, List.flatten_cons]
    exact List.Perm.append (h 0 c) (ih (fun i => σ (i + 1)) (fun i c => h (i + 1) c))

/-- `IterCb` visits exactly the bindings of the abstraction, each once, in some order -/
theorem enumWith_perm {σ : Nat → List (Bytes × α) → List (Bytes × α)} (hσ : IterOrder σ) (m : CMap α) :
    (m.enumWith σ).Perm m.abs :=
  mapIdx_flatten_perm m.chunks σ hσ

/-- `Keys` returns exactly the keys of the abstraction, in some order -/
theorem keysWith_perm {σ : Nat → List (Bytes × α) → List (Bytes × α)} (hσ : IterOrder σ) (m : CMap α) :
    (m.keysWith σ).Perm (m.abs.map (·.1)) :=
  (enumWith_perm hσ m).map _

/-- `Keys` never returns a key twice -/
theorem keysWith_nodup {σ : Nat → List (Bytes × α) → List (Bytes × α)} (hσ : IterOrder σ) {m : CMap α} (h : WF m) :
    (m.keysWith σ).Nodup :=
  ((keysWith_perm hσ m).nodup_iff).mpr h.nodup_abs

theorem keys_perm_abs (m : CMap α) : m.keys.Perm (m.abs.map (·.1)) := List.Perm.refl _

theorem keys_nodup {m : CMap α} (h : WF m) : m.keys.Nodup := h.nodup_abs

/-- a key is enumerated iff `Has` -/
theorem mem_keysWith {σ : Nat → List (Bytes × α) → List (Bytes × α)} (hσ : IterOrder σ) {m : CMap α} (h : WF m) (k : Bytes) :
    k ∈ m.keysWith σ ↔ m.has k = true := by
  rw [(keysWith_perm hσ m).mem_iff, has_eq_abs h]
  constructor
  · intro hm
    cases hl : alookup k m.abs with
    | none => exact absurd hm (C5.alookup_none_iff.mp hl)
    | some v => rfl
  · intro hs
    apply Classical.byContradiction
    intro hn
    rw [C5.alookup_none_iff.mpr hn] at hs
    cases hs

/-- a binding is visited by `IterCb` iff `Get` returns it -/
theorem mem_enumWith {σ : Nat → List (Bytes × α) → List (Bytes × α)} (hσ : IterOrder σ) {m : CMap α} (h : WF m)
    (k : Bytes) (v : α) : (k, v) ∈ m.enumWith σ ↔ m.get k = some v := by
  rw [(enumWith_perm hσ m).mem_iff, ← get_eq_abs h, C5.alookup_iff_mem h.nodup_abs]

/-- `IterCb` with a collecting callback returns the enumeration (this is how `forEach`/`keys` users see the map) -/
theorem iterCb_collect (σ : Nat → List (Bytes × α) → List (Bytes × α)) (m : CMap α) :
    m.iterCb σ (fun (acc : List (Bytes × α)) k v => acc ++ [(k, v)]) [] = m.enumWith σ := by
  unfold iterCb
  have : ∀ (l acc : List (Bytes × α)), List.foldl (fun acc p => acc ++ [(p.1, p.2)]) acc l = acc ++ l := by
    intro l
    induction l with
    | nil => intro acc; simp
    | cons a r ih => intro acc; simp [List.foldl_cons, ih]
  rw [this]; rfl

theorem count_eq_keysWith_length {σ : Nat → List (Bytes × α) → List (Bytes × α)} (hσ : IterOrder σ) (m : CMap α) :
    m.count = (m.keysWith σ).length := by
  rw [count_eq_abs, (keysWith_perm hσ m).length_eq, List.length_map]

end CMap

/-! ## 4b. histories: the chunked machine against the ONE-association-list machine -/

open CMap

/-- the operations of `ConcurrentMap` (mutators and the order-insensitive readers) -/
inductive Op (α : Type) where
  | set (k : Bytes) (v : α)
  | setIfAbsent (k : Bytes) (v : α)
  | remove (k : Bytes)
  | clear
  | get (k : Bytes)
  | has (k : Bytes)
  | count
  deriving Repr, DecidableEq

/-- what an operation returns -/
inductive Out (α : Type) where
  | unit
  | flag (b : Bool)
  | value (v : Option α) (ok : Bool)
  | num (n : Nat)
  deriving Repr, DecidableEq

variable {α : Type}

/-- one operation on the chunked map -/
def step (m : CMap α) : Op α → CMap α × Out α
  | .set k v => (m.set k v, .unit)
  | .setIfAbsent k v => ((m.setIfAbsent k v).1, .flag (m.setIfAbsent k v).2)
  | .remove k => ((m.remove k).1, .value (m.remove k).2.1 (m.remove k).2.2)
  | .clear => (m.clear, .unit)
  | .get k => (m, .value (m.get k) (m.get k).isSome)
  | .has k => (m, .flag (m.has k))
  | .count => (m, .num m.count)

/-- the same operation on ONE association list (the representation of `SV/TxCache/Model.lean`) -/
def stepA (l : List (Bytes × α)) : Op α → List (Bytes × α) × Out α
  | .set k v => (aset k v l, .unit)
  | .setIfAbsent k v => (if (alookup k l).isNone then aset k v l else l, .flag (alookup k l).isNone)
  | .remove k => (aerase k l, .value (alookup k l) (alookup k l).isSome)
  | .clear => ([], .unit)
  | .get k => (l, .value (alookup k l) (alookup k l).isSome)
  | .has k => (l, .flag (alookup k l).isSome)
  | .count => (l, .num l.length)

/-- a history from a given state: final state and the list of outputs -/
def exec (m : CMap α) : List (Op α) → CMap α × List (Out α)
  | [] => (m, [])
  | op :: ops => ((exec (step m op).1 ops).1, (step m op).2 :: (exec (step m op).1 ops).2)

def execA (l : List (Bytes × α)) : List (Op α) → List (Bytes × α) × List (Out α)
  | [] => (l, [])
  | op :: ops => ((execA (stepA l op).1 ops).1, (stepA l op).2 :: (execA (stepA l op).1 ops).2)

/-- a history on a fresh map with `n` chunks -/
def run (n : Nat) (ops : List (Op α)) : CMap α × List (Out α) := exec (CMap.new n) ops

/-- the same history on the empty association list -/
def runA (ops : List (Op α)) : List (Bytes × α) × List (Out α) := execA [] ops

/-- the simulation relation: a well-formed chunked map and a duplicate-free association list with the same lookups -/
structure Sim (m : CMap α) (l : List (Bytes × α)) : Prop where
  wf : WF m
  nodup : (l.map (·.1)).Nodup
  look : ∀ k, m.get k = alookup k l

theorem Sim.perm {m : CMap α} {l : List (Bytes × α)} (h : Sim m l) : m.abs.Perm l :=
  perm_of_lookup_eq h.wf.nodup_abs h.nodup (fun k => by rw [get_eq_abs h.wf, h.look])

theorem Sim.count {m : CMap α} {l : List (Bytes × α)} (h : Sim m l) : m.count = l.length := by
  rw [count_eq_abs, h.perm.length_eq]

theorem Sim.new (n : Nat) : Sim (CMap.new n : CMap α) [] :=
  ⟨WF.new n, by simp, fun k => by rw [← get_eq_abs (WF.new n), abs_new]⟩

theorem Sim.abs {m : CMap α} (h : WF m) : Sim m m.abs := ⟨h, h.nodup_abs, fun k => (get_eq_abs h k).symm⟩

theorem Sim.step {m : CMap α} {l : List (Bytes × α)} (h : Sim m l) (op : Op α) :
    Sim (step m op).1 (stepA l op).1 ∧ (step m op).2 = (stepA l op).2 := by
  cases op with
  | set k v =>
    refine ⟨⟨h.wf.set k v, C5.nodup_keys_aset v h.nodup, fun k' => ?_⟩, rfl⟩
    show (m.set k v).get k' = alookup k' (aset k v l)
    rw [get_set h.wf, alookup_aset, h.look]
  | setIfAbsent k v =>
    have hl := h.look k
    unfold CMap.get at hl
    simp only [ChunkedMap.step, ChunkedMap.stepA, CMap.setIfAbsent]
    rw [hl]
    cases hx : alookup k l with
    | some x => exact ⟨h, rfl⟩
    | none =>
      refine ⟨⟨h.wf.set k v, C5.nodup_keys_aset v h.nodup, fun k' => ?_⟩, rfl⟩
      show (m.set k v).get k' = alookup k' (aset k v l)
      rw [get_set h.wf, alookup_aset, h.look]
  | remove k =>
    refine ⟨⟨h.wf.remove k, C5.nodup_keys_aerase h.nodup, fun k' => ?_⟩, ?_⟩
    · show (m.remove k).1.get k' = alookup k' (aerase k l)
      rw [get_remove h.wf, alookup_aerase, h.look]
    · have hl := h.look k
      unfold CMap.get at hl
      simp only [ChunkedMap.step, ChunkedMap.stepA, CMap.remove, hl]
  | clear =>
    exact ⟨⟨h.wf.clear, by simp [ChunkedMap.stepA], fun k' => by simp [ChunkedMap.step, ChunkedMap.stepA, get_clear, alookup]⟩, rfl⟩
  | get k =>
    refine ⟨h, ?_⟩
    simp only [ChunkedMap.step, ChunkedMap.stepA, h.look]
  | has k =>
    refine ⟨h, ?_⟩
    have hl := h.look k
    unfold CMap.get at hl
    simp only [ChunkedMap.step, ChunkedMap.stepA, CMap.has, hl]
  | count =>
    refine ⟨h, ?_⟩
    simp only [ChunkedMap.step, ChunkedMap.stepA, h.count]

theorem Sim.exec {m : CMap α} {l : List (Bytes × α)} (h : Sim m l) (ops : List (Op α)) :
    Sim (exec m ops).1 (execA l ops).1 ∧ (exec m ops).2 = (execA l ops).2 := by
  induction ops generalizing m l with
  | nil => exact ⟨h, rfl⟩
  | cons op ops ih =>
    obtain ⟨h1, e1⟩ := h.step op
    obtain ⟨h2, e2⟩ := ih h1
    exact ⟨h2, by simp only [ChunkedMap.exec, ChunkedMap.execA, e1, e2]⟩

/-- `WF` holds in every reachable state -/
theorem run_wf (n : Nat) (ops : List (Op α)) : WF (run n ops).1 := ((Sim.new n).exec ops).1.wf

/-- REFINEMENT, for every number of chunks: the chunked map run on any history returns the outputs of the
    one-association-list machine, ends in a state with the same lookups and the same number of bindings, and its
    content is a permutation of the association list -/
theorem run_refines (n : Nat) (ops : List (Op α)) :
    (run n ops).2 = (runA ops).2 ∧
    (∀ k, (run n ops).1.get k = alookup k (runA ops).1) ∧
    (run n ops).1.count = (runA ops).1.length ∧
    (run n ops).1.abs.Perm (runA ops).1 := by
  obtain ⟨h, e⟩ := (Sim.new n).exec ops
  exact ⟨e, h.look, h.count, h.perm⟩

/-- CHUNK-COUNT INDEPENDENCE (C03 "independent of chunk count", C04/C05 lookups): the same history on `n` and on `n'`
    chunks returns the same outputs (flags, values, counts), ends with the same lookups and the same count, and the
    two enumerations (`IterCb`, `Keys`) — under ANY iteration orders `σ`, `σ'` inside the chunks — are permutations of
    one another, without duplicates -/
theorem chunks_invisible (n n' : Nat) (ops : List (Op α))
    (σ σ' : Nat → List (Bytes × α) → List (Bytes × α)) (hσ : IterOrder σ) (hσ' : IterOrder σ') :
    (run n ops).2 = (run n' ops).2 ∧
    (∀ k, (run n ops).1.get k = (run n' ops).1.get k) ∧
    (∀ k, (run n ops).1.has k = (run n' ops).1.has k) ∧
    (run n ops).1.count = (run n' ops).1.count ∧
    ((run n ops).1.enumWith σ).Perm ((run n' ops).1.enumWith σ') ∧
    ((run n ops).1.keysWith σ).Perm ((run n' ops).1.keysWith σ') ∧
    ((run n ops).1.keysWith σ).Nodup ∧
    ((run n ops).1.keys).Perm ((run n' ops).1.keys) := by
  obtain ⟨e1, l1, c1, p1⟩ := run_refines n ops
  obtain ⟨e2, l2, c2, p2⟩ := run_refines n' ops
  have pe : ((run n ops).1.enumWith σ).Perm ((run n' ops).1.enumWith σ') :=
    ((enumWith_perm hσ _).trans p1).trans ((enumWith_perm hσ' _).trans p2).symm
  refine ⟨e1.trans e2.symm, fun k => (l1 k).trans (l2 k).symm, fun k => ?_, c1.trans c2.symm, pe, pe.map _,
    keysWith_nodup hσ (run_wf n ops), (p1.trans p2.symm).map _⟩
  have := (l1 k).trans (l2 k).symm
  unfold CMap.get at this
  unfold CMap.has
  rw [this]


/-! ### what `txByHashMap.addTx` / `removeTx` rely on: the returned flag is exactly the change of `Count` -/

/-- `addTx` increments its counter iff `SetIfAbsent` returned true: that is exactly the growth of `Count` -/
theorem count_setIfAbsent {m : CMap α} (h : WF m) (k : Bytes) (v : α) :
    (m.setIfAbsent k v).1.count = m.count + (if (m.setIfAbsent k v).2 then 1 else 0) := by
  obtain ⟨hs, ho⟩ := (Sim.abs h).step (.setIfAbsent k v)
  have hc := hs.count
  simp only [ChunkedMap.step, ChunkedMap.stepA, Out.flag.injEq] at hc ho
  rw [hc, ho, count_eq_abs]
  cases hx : alookup k m.abs with
  | some x => simp
  | none => simp [C5.aset_of_absent v hx]

/-- `removeTx` decrements its counter iff `Remove` reported a removal: that is exactly the shrinkage of `Count` -/
theorem count_remove {m : CMap α} (h : WF m) (k : Bytes) :
    (m.remove k).1.count + (if (m.remove k).2.2 then 1 else 0) = m.count := by
  obtain ⟨hs, ho⟩ := (Sim.abs h).step (.remove k)
  have hc := hs.count
  simp only [ChunkedMap.step, ChunkedMap.stepA, Out.value.injEq] at hc ho
  rw [hc, ho.2, count_eq_abs]
  cases hx : alookup k m.abs with
  | some x => simpa using C5.length_aerase h.nodup_abs hx
  | none => simp [C5.aerase_of_not_mem (C5.alookup_none_iff.mp hx)]

/-- `Set` on a present key keeps `Count`, on an absent key adds one (`addSender` increments its counter after a failed `Get`) -/
theorem count_set {m : CMap α} (h : WF m) (k : Bytes) (v : α) :
    (m.set k v).count = m.count + (if m.has k then 0 else 1) := by
  obtain ⟨hs, _⟩ := (Sim.abs h).step (.set k v)
  have hc := hs.count
  simp only [ChunkedMap.step, ChunkedMap.stepA] at hc
  rw [hc, has_eq_abs h, count_eq_abs]
  cases hx : alookup k m.abs with
  | some x =>
    have : k ∈ C5.keys m.abs := by
      apply Classical.byContradiction; intro hn; rw [C5.alookup_none_iff.mpr hn] at hx; cases hx
    simp [C5.length_aset_of_present v this]
  | none => simp [C5.aset_of_absent v hx]

theorem count_clear (m : CMap α) : m.clear.count = 0 := by rw [count_eq_abs, abs_clear]; rfl

/-! ### remark on `Remove`'s flag `item != nil`
  Go computes the flag of `Remove` as `item != nil`, not as the `ok` of a two-valued map read.  For a map whose values
  may be the nil interface (modelled: `CMap (Option α)`, `none` = a stored nil) "flag = the key was present" is FALSE: -/

/-- `Remove` on a map that may hold nil interfaces: `item := chunk.items[key]` is nil for an absent key AND for a stored nil -/
def removeNilable (m : CMap (Option α)) (k : Bytes) : CMap (Option α) × Option α × Bool :=
  let item := (alookup k (m.chunk k)).join
  (m.withChunk k (aerase k (m.chunk k)), item, item.isSome)

/-- counter-example: the key is present (`Has` = true, `Count` = 1), `Remove` deletes it (count 0) but reports "nothing removed" -/
example : let m := ((CMap.new 3 : CMap (Option Nat)).set [1] none)
    m.has [1] = true ∧ m.count = 1 ∧ (removeNilable m [1]).2.2 = false ∧ (removeNilable m [1]).1.count = 0 := by decide

/-- the strongest true variant: when no stored value is nil (the mempool stores pointers obtained from `&…`/constructors
    only; this is what the typed model `remove` above builds in) the flag is "was present" -/
theorem removeNilable_flag {m : CMap (Option α)} (hv : ∀ k, m.get k ≠ some none) (k : Bytes) :
    (removeNilable m k).2.2 = m.has k := by
  have := hv k
  unfold CMap.get at this
  unfold removeNilable CMap.has
  dsimp only
  cases hx : alookup k (m.chunk k) with
  | none => rfl
  | some o =>
    cases o with
    | none => rw [hx] at this; exact absurd rfl this
    | some x => rfl

example : ∀ k, ((CMap.new 3 : CMap (Option Nat)).set [1] (some 7)).get k ≠ some none := by
  intro k
  rw [CMap.get_set (CMap.WF.new 3)]
  split
  · simp
  · rw [← CMap.get_eq_abs (CMap.WF.new 3), CMap.abs_new]; simp [alookup]

/-! ## 5. the bridge to selection (C03): the number of chunks of `txListBySenderMap.backingMap` is invisible -/

section selection
open CMap

/-- the senders' lists handed to `selectTransactionsFromBunches`: the values of the map in enumeration order -/
def bunchesWith (σ : Nat → List (Bytes × List Tx) → List (Bytes × List Tx)) (m : CMap (List Tx)) : List (List Tx) :=
  (m.enumWith σ).map (·.2)

/-- STATE-LEVEL: two well-formed chunked maps (any chunk counts, any iteration orders) that answer every `Get` alike
    hand permutations of the same bunches to selection -/
theorem bunchesWith_perm {m m' : CMap (List Tx)} (h : WF m) (h' : WF m') (hl : ∀ k, m.get k = m'.get k)
    {σ σ' : Nat → List (Bytes × List Tx) → List (Bytes × List Tx)} (hσ : IterOrder σ) (hσ' : IterOrder σ') :
    (bunchesWith σ m).Perm (bunchesWith σ' m') := by
  have p : m.abs.Perm m'.abs :=
    perm_of_lookup_eq h.nodup_abs h'.nodup_abs (fun k => by rw [get_eq_abs h, get_eq_abs h', hl])
  exact (((enumWith_perm hσ m).trans p).trans (enumWith_perm hσ' m').symm).map _

/-- STATE-LEVEL: … hence the same selection -/
theorem selection_of_lookup_eq (v : Variant) (s : Session) (q : SelParams) {m m' : CMap (List Tx)} (h : WF m) (h' : WF m')
    (hl : ∀ k, m.get k = m'.get k)
    {σ σ' : Nat → List (Bytes × List Tx) → List (Bytes × List Tx)} (hσ : IterOrder σ) (hσ' : IterOrder σ')
    (hn : ((bunchesWith σ m).flatten.map (·.hash)).Nodup) :
    selectFromBunches v s q (bunchesWith σ m) = selectFromBunches v s q (bunchesWith σ' m') :=
  selectFromBunches_perm v s q _ _ (bunchesWith_perm h h' hl hσ hσ') hn

/-- "no hash twice across the bunches" is itself independent of chunk count and iteration order -/
theorem nodup_hashes_chunks_invisible (n n' : Nat) (ops : List (Op (List Tx)))
    {σ σ' : Nat → List (Bytes × List Tx) → List (Bytes × List Tx)} (hσ : IterOrder σ) (hσ' : IterOrder σ') :
    ((bunchesWith σ (run n ops).1).flatten.map (·.hash)).Nodup ↔
    ((bunchesWith σ' (run n' ops).1).flatten.map (·.hash)).Nodup := by
  have hp := (chunks_invisible n n' ops σ σ' hσ hσ').2.2.2.2.1
  exact (((hp.map (·.2)).flatten).map (·.hash)).nodup_iff

/-- C03, chunk count: the same history of map operations run with `n` and with `n'` chunks, enumerated with ANY
    iteration orders inside the chunks, gives the same selection (transactions AND accumulated gas) -/
theorem selection_chunks_invisible (v : Variant) (s : Session) (q : SelParams) (n n' : Nat) (ops : List (Op (List Tx)))
    (σ σ' : Nat → List (Bytes × List Tx) → List (Bytes × List Tx)) (hσ : IterOrder σ) (hσ' : IterOrder σ')
    (hn : ((bunchesWith σ (run n ops).1).flatten.map (·.hash)).Nodup) :
    selectFromBunches v s q (bunchesWith σ (run n ops).1) = selectFromBunches v s q (bunchesWith σ' (run n' ops).1) :=
  selectFromBunches_perm v s q _ _ (((chunks_invisible n n' ops σ σ' hσ hσ').2.2.2.2.1).map _) hn

/-- … and it is the selection of the hand-written model's representation (`select` = `selectFromBunches` over
    `lists.map (·.2)` of ONE association list) -/
theorem selection_refines_alist (v : Variant) (s : Session) (q : SelParams) (n : Nat) (ops : List (Op (List Tx)))
    (σ : Nat → List (Bytes × List Tx) → List (Bytes × List Tx)) (hσ : IterOrder σ)
    (hn : (((runA ops).1.map (·.2)).flatten.map (·.hash)).Nodup) :
    selectFromBunches v s q (bunchesWith σ (run n ops).1) = selectFromBunches v s q ((runA ops).1.map (·.2)) := by
  have hp : (bunchesWith σ (run n ops).1).Perm ((runA ops).1.map (·.2)) :=
    (((enumWith_perm hσ _).trans (run_refines n ops).2.2.2).map _)
  exact (selectFromBunches_perm v s q _ _ hp.symm hn).symm

end selection

/-! ## 6. non-vacuity: the same 6-operation history on 1, 3 and 16 chunks -/

namespace Ex
open CMap

/-- reversing every chunk is a legal iteration order, as is the identity -/
theorem iterOrder_id {α : Type} : IterOrder (α := α) (fun _ c => c) := fun _ _ => List.Perm.refl _
theorem iterOrder_reverse {α : Type} : IterOrder (α := α) (fun _ c => c.reverse) := fun _ c => List.reverse_perm c
/-- an order that depends on the chunk number -/
theorem iterOrder_mixed {α : Type} : IterOrder (α := α) (fun i c => if i % 2 = 0 then c.reverse else c) := by
  intro i c; dsimp only; split
  · exact List.reverse_perm c
  · exact List.Perm.refl _

/-- homes of the keys used below (Go: `fnv32("\x01") = 84696350`, …): with 3 chunks `[1]↦2, [2]↦1, [3]↦0, [4]↦2`;
    with 16 chunks `[1]↦14, [2]↦13, [3]↦12, [4]↦11` -/
example : ([[1], [2], [3], [4]] : List Bytes).map (fun k => (fnv32 k % 1, fnv32 k % 3, fnv32 k % 16)) =
    [(0, 2, 14), (0, 1, 13), (0, 0, 12), (0, 2, 11)] := by decide

def hist : List (Op Nat) :=
  [.set [1] 10, .setIfAbsent [2] 20, .setIfAbsent [1] 11, .set [3] 30, .remove [2], .set [4] 40]

/-- the outputs: `SetIfAbsent` inserted, then did not; `Remove` returned 20 -/
example : (run 1 hist).2 = [.unit, .flag true, .flag false, .unit, .value (some 20) true, .unit] := by decide
example : (run 3 hist).2 = (run 1 hist).2 ∧ (run 16 hist).2 = (run 1 hist).2 ∧ (runA hist).2 = (run 1 hist).2 := by decide

/-- the three final states are really different structures … -/
example : (run 1 hist).1 = ⟨1, [[([1], 10), ([3], 30), ([4], 40)]]⟩ := by decide
example : (run 3 hist).1 = ⟨3, [[([3], 30)], [], [([1], 10), ([4], 40)]]⟩ := by decide
example : (run 0 hist).1 = (run 1 hist).1 := by decide
example : (run 16 hist).1.nChunks = 16 ∧ (run 16 hist).1.chunks.length = 16 := by decide

/-- … whose enumerations come out in three different orders (so `Perm` cannot be strengthened to equality) … -/
example : (run 1 hist).1.keys = [[1], [3], [4]] := by decide
example : (run 3 hist).1.keys = [[3], [1], [4]] := by decide
example : (run 16 hist).1.keys = [[4], [3], [1]] := by decide
example : (run 3 hist).1.keysWith (fun _ c => c.reverse) = [[3], [4], [1]] := by decide

/-- … but with the same lookups, count and (as instances of `chunks_invisible`) permuted enumerations -/
example : ∀ k ∈ ([[1], [2], [3], [4], [5]] : List Bytes),
    (run 1 hist).1.get k = (run 3 hist).1.get k ∧ (run 3 hist).1.get k = (run 16 hist).1.get k := by decide
example : (run 1 hist).1.count = 3 ∧ (run 3 hist).1.count = 3 ∧ (run 16 hist).1.count = 3 := by decide
example : ((run 1 hist).1.keysWith (fun _ c => c)).Perm ((run 16 hist).1.keysWith (fun _ c => c.reverse)) :=
  (chunks_invisible 1 16 hist _ _ iterOrder_id iterOrder_reverse).2.2.2.2.2.1
example : ((run 3 hist).1.enumWith (fun i c => if i % 2 = 0 then c.reverse else c)).Perm ((run 16 hist).1.enumWith (fun _ c => c)) :=
  (chunks_invisible 3 16 hist _ _ iterOrder_mixed iterOrder_id).2.2.2.2.1

/-- a history with `Clear`, `Get`, `Has`, `Count` outputs -/
def hist2 : List (Op Nat) := [.set [1] 1, .set [2] 2, .count, .clear, .has [1], .setIfAbsent [2] 5, .get [2]]
example : (run 3 hist2).2 = [.unit, .unit, .num 2, .unit, .flag false, .flag true, .value (some 5) true] := by decide
example : (run 1 hist2).2 = (run 3 hist2).2 ∧ (run 16 hist2).2 = (run 3 hist2).2 := by decide

/-! the selection bridge on 1, 3, 16 chunks: three senders `[1]`, `[3]`, `[4]` (a fourth, `[2]`, is added and removed) -/

def mk (hash : Bytes) (sender : Bytes) (nonce fee : Nat) : Tx :=
  { hash := hash, sender := sender, nonce := nonce, gasPrice := 1, gasLimit := 10, size := 0, fee := fee, value := 0,
    relayer := [] }

def a0 : Tx := mk [0xa0] [1] 0 10
def a1 : Tx := mk [0xa1] [1] 1 50
def b0 : Tx := mk [0xb0] [2] 0 90
def c0 : Tx := mk [0xc0] [3] 0 30
def d0 : Tx := mk [0xd0] [4] 0 20

def histS : List (Op (List Tx)) :=
  [.set [1] [a0], .set [3] [c0], .set [1] [a0, a1], .setIfAbsent [4] [d0], .set [2] [b0], .remove [2]]

def sess : Session := ⟨fun _ => 0, fun _ => 1000, fun _ => false⟩
def qq : SelParams := { gasReq := 1000, maxNum := 10, stop := fun _ => false }

/-- the bunches arrive in three different orders -/
example : bunchesWith (fun _ c => c) (run 1 histS).1 = [[a0, a1], [c0], [d0]] := by decide
example : bunchesWith (fun _ c => c) (run 3 histS).1 = [[c0], [a0, a1], [d0]] := by decide
example : bunchesWith (fun _ c => c) (run 16 histS).1 = [[d0], [c0], [a0, a1]] := by decide

/-- the hypothesis of `selection_chunks_invisible` holds -/
theorem histS_nodup : ((bunchesWith (fun _ c => c) (run 1 histS).1).flatten.map (·.hash)).Nodup := by decide

/-- the selection is the same (by the theorem, and by computation) -/
example : selectFromBunches Variant.current sess qq (bunchesWith (fun _ c => c) (run 1 histS).1) =
    selectFromBunches Variant.current sess qq (bunchesWith (fun _ c => c.reverse) (run 16 histS).1) :=
  selection_chunks_invisible _ _ _ 1 16 histS _ _ iterOrder_id iterOrder_reverse histS_nodup
example : selectFromBunches Variant.current sess qq (bunchesWith (fun _ c => c) (run 1 histS).1) = ([c0, d0, a0, a1], 40) := by decide
example : selectFromBunches Variant.current sess qq (bunchesWith (fun _ c => c) (run 3 histS).1) = ([c0, d0, a0, a1], 40) := by decide
example : selectFromBunches Variant.current sess qq (bunchesWith (fun _ c => c) (run 16 histS).1) = ([c0, d0, a0, a1], 40) := by decide

end Ex

end SV.TxCache.ChunkedMap
