/-
  SV.TxCache.GoList — Go's `container/list` is modelled, not assumed.

  Part 1: an executable, pointer-level model of `container/list` (the part the mempool uses): a heap of
          `Element` records addressed by never-reused ids, the sentinel `root` at address 0, and the
          library functions transcribed statement by statement.
  Part 2: the per-sender list code of `txcache/txListForSender.go` transcribed over that model.
  Part 3: the representation invariant `WF`, its preservation by every library operation and the effect
          of the operations on the abstract content (`cells` / `toList`).
  Part 4: refinement of the transcribed mempool code to the hand-written list model of `SV.TxCache.Model`
          (`insertTx`, `trim1`, `dropLowerOrEqual`, `keepLower`).  In particular finding F3 ("at most one
          transaction is dropped per insertion") is a THEOREM about the transcribed loop and library.

  Pointers: `Option Nat`; `none` = nil, `some 0` = `&l.root`, `some (k+1)` = the (k+1)-th element ever
  created.  `Element.list` can only be `l` or nil here (a sender owns one list): `inList`.
  Dereferencing nil inside the library sets the flag `panicked` (`WF` contains `panicked = false`, hence
  preservation of `WF` proves the absence of nil dereferences).
-/
import SV.TxCache.Model
namespace SV.TxCache.GoList
open SV SV.TxCache

/-! ## Part 1 — `container/list` -/

/-- `list.Element` (`list` is `l` or nil). -/
structure Node where
  next : Option Nat
  prev : Option Nat
  inList : Bool
  value : Tx

/-- value held by the sentinel and by never-allocated addresses (Go: `nil`; it is never read: `Front`, `Back`,
    `Next`, `Prev` never return `&l.root`) -/
def noTx : Tx := ⟨[], [], 0, 0, 0, 0, 0, 0, []⟩

def blank : Node := ⟨none, none, false, noTx⟩

def upd (h : Nat → Node) (a : Nat) (n : Node) : Nat → Node := fun i => if i = a then n else h i

/-- `list.List` together with the heap its elements live in. -/
structure GoList where
  heap : Nat → Node   -- address 0: `l.root`
  alloc : Nat         -- elements created so far (their ids are 1 … alloc; ids are never reused)
  len : Nat           -- `l.len`
  panicked : Bool     -- a nil pointer was dereferenced

/-- `p.next = v` -/
def GoList.setNext (g : GoList) (p : Option Nat) (v : Option Nat) : GoList :=
  match p with
  | none => { g with panicked := true }
  | some a => { g with heap := upd g.heap a { g.heap a with next := v } }

/-- `p.prev = v` -/
def GoList.setPrev (g : GoList) (p : Option Nat) (v : Option Nat) : GoList :=
  match p with
  | none => { g with panicked := true }
  | some a => { g with heap := upd g.heap a { g.heap a with prev := v } }

/-- `e.list = l` (`b = true`) / `e.list = nil` (`b = false`) -/
def GoList.setList (g : GoList) (e : Nat) (b : Bool) : GoList :=
  { g with heap := upd g.heap e { g.heap e with inList := b } }

/-- `&Element{Value: v}` : a fresh element (all pointers nil); its id is the new value of `alloc` -/
def GoList.newElem (g : GoList) (v : Tx) : GoList :=
  { g with alloc := g.alloc + 1, heap := upd g.heap (g.alloc + 1) { blank with value := v } }

/-- `l.Init()` : `l.root.next = &l.root; l.root.prev = &l.root; l.len = 0` -/
def GoList.init (g : GoList) : GoList :=
  let g := g.setNext (some 0) (some 0)
  let g := g.setPrev (some 0) (some 0)
  { g with len := 0 }

/-- `l.lazyInit()` : `if l.root.next == nil { l.Init() }` -/
def GoList.lazyInit (g : GoList) : GoList := if (g.heap 0).next = none then g.init else g

/-- `list.New()` = `new(List).Init()` -/
def GoList.new : GoList := GoList.init { heap := fun _ => blank, alloc := 0, len := 0, panicked := false }

/-- `l.Len()` -/
def GoList.Len (g : GoList) : Nat := g.len

/-- `l.Front()` -/
def GoList.front (g : GoList) : Option Nat := if g.len = 0 then none else (g.heap 0).next

/-- `l.Back()` -/
def GoList.back (g : GoList) : Option Nat := if g.len = 0 then none else (g.heap 0).prev

/-- `e.Next()` : `if p := e.next; e.list != nil && p != &e.list.root { return p }; return nil` -/
def GoList.next (g : GoList) (e : Nat) : Option Nat :=
  let p := (g.heap e).next
  if (g.heap e).inList && p != some 0 then p else none

/-- `e.Prev()` -/
def GoList.prev (g : GoList) (e : Nat) : Option Nat :=
  let p := (g.heap e).prev
  if (g.heap e).inList && p != some 0 then p else none

/-- `l.insertValue(v, at)` = `l.insert(&Element{Value: v}, at)`; returns the new element. -/
def GoList.insertValue (g : GoList) (v : Tx) (at_ : Nat) : GoList × Nat :=
  let e := g.alloc + 1
  let g := g.newElem v                                  -- &Element{Value: v}
  let g := g.setPrev (some e) (some at_)                -- e.prev = at
  let g := g.setNext (some e) (g.heap at_).next         -- e.next = at.next
  let g := g.setNext (g.heap e).prev (some e)           -- e.prev.next = e
  let g := g.setPrev (g.heap e).next (some e)           -- e.next.prev = e
  let g := g.setList e true                             -- e.list = l
  ({ g with len := g.len + 1 }, e)                      -- l.len++

/-- `l.remove(e)` -/
def GoList.removeRaw (g : GoList) (e : Nat) : GoList :=
  let g := g.setNext (g.heap e).prev (g.heap e).next    -- e.prev.next = e.next
  let g := g.setPrev (g.heap e).next (g.heap e).prev    -- e.next.prev = e.prev
  let g := g.setNext (some e) none                      -- e.next = nil
  let g := g.setPrev (some e) none                      -- e.prev = nil
  let g := g.setList e false                            -- e.list = nil
  { g with len := g.len - 1 }                           -- l.len--

/-- `l.Remove(e)` : `if e.list == l { l.remove(e) }` (the returned `e.Value` is `(g.heap e).value`) -/
def GoList.remove (g : GoList) (e : Nat) : GoList :=
  if (g.heap e).inList then g.removeRaw e else g

/-- `l.PushFront(v)` : `l.lazyInit(); return l.insertValue(v, &l.root)` -/
def GoList.pushFront (g : GoList) (v : Tx) : GoList × Nat := g.lazyInit.insertValue v 0

/-- `l.InsertAfter(v, mark)` : `if mark.list != l { return nil }; return l.insertValue(v, mark)` -/
def GoList.insertAfter (g : GoList) (v : Tx) (mark : Nat) : GoList × Option Nat :=
  if (g.heap mark).inList then
    let r := g.insertValue v mark
    (r.1, some r.2)
  else (g, none)

/-- walk `for e := start; e != nil; e = e.Next()` collecting `(e, e.Value)`; `fuel` bounds the number of iterations -/
def GoList.walk (g : GoList) : Nat → Option Nat → List (Nat × Tx)
  | 0, _ => []
  | _, none => []
  | f + 1, some e => (e, (g.heap e).value) :: g.walk f (g.next e)

/-- the elements of the list with their values, front to back (fuel `len`; `walk_fuel` shows any larger fuel gives the same) -/
def GoList.cells (g : GoList) : List (Nat × Tx) := g.walk g.len g.front

def GoList.toIds (g : GoList) : List Nat := g.cells.map (·.1)
def GoList.toList (g : GoList) : List Tx := g.cells.map (·.2)

/-! ## Part 2 — `txListForSender` -/

/-- `txListForSender` : `items` and the byte counter `totalBytes` (`atomic.Counter`, an int64; no wrap-around modelled) -/
structure SenderList where
  items : GoList
  totalBytes : Int

/-- `newTxListForSender` -/
def SenderList.new : SenderList := ⟨GoList.new, 0⟩

/-- `isCapacityExceeded` -/
def SenderList.isCapacityExceeded (cfg : Config) (s : SenderList) : Bool :=
  let tooManyBytes := decide (s.totalBytes > (cfg.numBytesPerSender : Int))
  let tooManyTxs := decide (s.items.Len > cfg.countPerSender)
  tooManyBytes || tooManyTxs

/-- result of `findInsertionPlace` -/
inductive Place where
  | err                         -- `nil, errItemAlreadyInCache`
  | at_ (e : Option Nat)        -- `element, nil` / `nil, nil`
  deriving DecidableEq, Repr

/-- the loop of `findInsertionPlace` : `for element := …; element != nil; element = element.Prev()` -/
def findLoop (g : GoList) (t : Tx) : Nat → Option Nat → Place
  | 0, _ => .at_ none
  | _, none => .at_ none
  | f + 1, some e =>
    let c := (g.heap e).value
    if c.nonce = t.nonce then
      if c.gasPrice > t.gasPrice then .at_ (some e)
      else if c.gasPrice = t.gasPrice then
        if c.hash = t.hash then .err                       -- comparison == 0
        else if bytesLt c.hash t.hash then .at_ (some e)   -- comparison < 0
        else findLoop g t f (g.prev e)
      else findLoop g t f (g.prev e)                       -- continue
    else if c.nonce < t.nonce then .at_ (some e)
    else findLoop g t f (g.prev e)

/-- `findInsertionPlace` -/
def SenderList.findInsertionPlace (s : SenderList) (t : Tx) : Place :=
  findLoop s.items t s.items.Len s.items.back

/-- the loop of `applySizeConstraints`, exactly as written:
    `for element := Back(); element != nil; element = element.Prev() { if !exceeded {break}; Remove(element); onRemoved(element); append hash }`
    — `element.Prev()` is evaluated AFTER `Remove(element)`. -/
def applyLoop (cfg : Config) : Nat → SenderList → Option Nat → List Bytes → SenderList × List Bytes
  | 0, s, _, acc => (s, acc)
  | _, s, none, acc => (s, acc)
  | f + 1, s, some e, acc =>
    if !s.isCapacityExceeded cfg then (s, acc)
    else
      let items := s.items.remove e                                          -- items.Remove(element)
      let s : SenderList := ⟨items, s.totalBytes - ((items.heap e).value.size : Int)⟩   -- onRemovedListElement(element)
      let acc := acc ++ [(s.items.heap e).value.hash]                        -- append(evicted, value.TxHash)
      applyLoop cfg f s (s.items.prev e) acc                                 -- element = element.Prev()

/-- `applySizeConstraints` -/
def SenderList.applySizeConstraints (cfg : Config) (s : SenderList) : SenderList × List Bytes :=
  applyLoop cfg s.items.Len s s.items.back []

/-- the insertion part of `AddTx` (up to and including `onAddedTransaction`); `false` = `err != nil` -/
def SenderList.insert (s : SenderList) (t : Tx) : SenderList × Bool :=
  match s.findInsertionPlace t with
  | .err => (s, false)
  | .at_ none => (⟨(s.items.pushFront t).1, s.totalBytes + (t.size : Int)⟩, true)
  | .at_ (some p) => (⟨(s.items.insertAfter t p).1, s.totalBytes + (t.size : Int)⟩, true)

/-- `AddTx` → (list, added, evicted hashes) -/
def SenderList.addTx (cfg : Config) (s : SenderList) (t : Tx) : SenderList × Bool × List Bytes :=
  match s.insert t with
  | (s, false) => (s, false, [])
  | (s1, true) =>
    let r := s1.applySizeConstraints cfg
    (r.1, true, r.2)

/-- the loop of `removeTransactionsWithLowerOrEqualNonceReturnHashes` (`Next()` is saved BEFORE `Remove`) -/
def lowerLoop (n : Nat) : Nat → SenderList → Option Nat → List Bytes → SenderList × List Bytes
  | 0, s, _, acc => (s, acc)
  | _, s, none, acc => (s, acc)
  | f + 1, s, some e, acc =>
    let tx := (s.items.heap e).value
    if tx.nonce > n then (s, acc)
    else
      let nextElement := s.items.next e
      let items := s.items.remove e
      let s : SenderList := ⟨items, s.totalBytes - ((items.heap e).value.size : Int)⟩
      lowerLoop n f s nextElement (acc ++ [tx.hash])

def SenderList.removeLowerOrEqual (n : Nat) (s : SenderList) : SenderList × List Bytes :=
  lowerLoop n s.items.Len s s.items.front []

/-- the loop of `removeTransactionsWithHigherOrEqualNonce` (`Prev()` is saved BEFORE `Remove`) -/
def higherLoop (n : Nat) : Nat → SenderList → Option Nat → List Bytes → SenderList × List Bytes
  | 0, s, _, acc => (s, acc)
  | _, s, none, acc => (s, acc)
  | f + 1, s, some e, acc =>
    let tx := (s.items.heap e).value
    if tx.nonce < n then (s, acc)
    else
      let prevElement := s.items.prev e
      let items := s.items.remove e
      let s : SenderList := ⟨items, s.totalBytes - ((items.heap e).value.size : Int)⟩
      higherLoop n f s prevElement (acc ++ [tx.hash])

def SenderList.removeHigherOrEqual (n : Nat) (s : SenderList) : SenderList × List Bytes :=
  higherLoop n s.items.Len s s.items.back []

/-- loop of `getTxs` : `for element := Front(); element != nil; element = element.Next() { result = append(result, value) }` -/
def getLoopFwd (g : GoList) : Nat → Option Nat → List Tx → List Tx
  | 0, _, acc => acc
  | _, none, acc => acc
  | f + 1, some e, acc => getLoopFwd g f (g.next e) (acc ++ [(g.heap e).value])

/-- loop of `getTxsReversed` -/
def getLoopBwd (g : GoList) : Nat → Option Nat → List Tx → List Tx
  | 0, _, acc => acc
  | _, none, acc => acc
  | f + 1, some e, acc => getLoopBwd g f (g.prev e) (acc ++ [(g.heap e).value])

def SenderList.getTxs (s : SenderList) : List Tx := getLoopFwd s.items s.items.Len s.items.front []
def SenderList.getTxsReversed (s : SenderList) : List Tx := getLoopBwd s.items s.items.Len s.items.back []

/-! ## Part 3 — the representation invariant -/

section heapLemmas
variable (g : GoList) (a i : Nat) (v : Option Nat) (b : Bool) (t : Tx)

@[simp] theorem setNext_next : ((g.setNext (some a) v).heap i).next = if i = a then v else (g.heap i).next := by
  simp only [GoList.setNext, upd]; split <;> simp_all
@[simp] theorem setNext_prev : ((g.setNext (some a) v).heap i).prev = (g.heap i).prev := by
  simp only [GoList.setNext, upd]; split <;> simp_all
@[simp] theorem setNext_inList : ((g.setNext (some a) v).heap i).inList = (g.heap i).inList := by
  simp only [GoList.setNext, upd]; split <;> simp_all
@[simp] theorem setNext_value : ((g.setNext (some a) v).heap i).value = (g.heap i).value := by
  simp only [GoList.setNext, upd]; split <;> simp_all
@[simp] theorem setNext_len : (g.setNext (some a) v).len = g.len := rfl
@[simp] theorem setNext_alloc : (g.setNext (some a) v).alloc = g.alloc := rfl
@[simp] theorem setNext_panicked : (g.setNext (some a) v).panicked = g.panicked := rfl

@[simp] theorem setPrev_prev : ((g.setPrev (some a) v).heap i).prev = if i = a then v else (g.heap i).prev := by
  simp only [GoList.setPrev, upd]; split <;> simp_all
@[simp] theorem setPrev_next : ((g.setPrev (some a) v).heap i).next = (g.heap i).next := by
  simp only [GoList.setPrev, upd]; split <;> simp_all
@[simp] theorem setPrev_inList : ((g.setPrev (some a) v).heap i).inList = (g.heap i).inList := by
  simp only [GoList.setPrev, upd]; split <;> simp_all
@[simp] theorem setPrev_value : ((g.setPrev (some a) v).heap i).value = (g.heap i).value := by
  simp only [GoList.setPrev, upd]; split <;> simp_all
@[simp] theorem setPrev_len : (g.setPrev (some a) v).len = g.len := rfl
@[simp] theorem setPrev_alloc : (g.setPrev (some a) v).alloc = g.alloc := rfl
@[simp] theorem setPrev_panicked : (g.setPrev (some a) v).panicked = g.panicked := rfl

@[simp] theorem setList_inList : ((g.setList a b).heap i).inList = if i = a then b else (g.heap i).inList := by
  simp only [GoList.setList, upd]; split <;> simp_all
@[simp] theorem setList_next : ((g.setList a b).heap i).next = (g.heap i).next := by
  simp only [GoList.setList, upd]; split <;> simp_all
@[simp] theorem setList_prev : ((g.setList a b).heap i).prev = (g.heap i).prev := by
  simp only [GoList.setList, upd]; split <;> simp_all
@[simp] theorem setList_value : ((g.setList a b).heap i).value = (g.heap i).value := by
  simp only [GoList.setList, upd]; split <;> simp_all
@[simp] theorem setList_len : (g.setList a b).len = g.len := rfl
@[simp] theorem setList_alloc : (g.setList a b).alloc = g.alloc := rfl
@[simp] theorem setList_panicked : (g.setList a b).panicked = g.panicked := rfl

@[simp] theorem newElem_next : ((g.newElem t).heap i).next = if i = g.alloc + 1 then none else (g.heap i).next := by
  simp only [GoList.newElem, upd, blank]; split <;> simp_all
@[simp] theorem newElem_prev : ((g.newElem t).heap i).prev = if i = g.alloc + 1 then none else (g.heap i).prev := by
  simp only [GoList.newElem, upd, blank]; split <;> simp_all
@[simp] theorem newElem_inList : ((g.newElem t).heap i).inList = if i = g.alloc + 1 then false else (g.heap i).inList := by
  simp only [GoList.newElem, upd, blank]; split <;> simp_all
@[simp] theorem newElem_value : ((g.newElem t).heap i).value = if i = g.alloc + 1 then t else (g.heap i).value := by
  simp only [GoList.newElem, upd, blank]; split <;> simp_all
@[simp] theorem newElem_len : (g.newElem t).len = g.len := rfl
@[simp] theorem newElem_alloc : (g.newElem t).alloc = g.alloc + 1 := rfl
@[simp] theorem newElem_panicked : (g.newElem t).panicked = g.panicked := rfl

end heapLemmas

theorem insertValue_snd (g : GoList) (v : Tx) (a : Nat) : (g.insertValue v a).2 = g.alloc + 1 := rfl

/-- the heap after `insertValue v a`, when `a.next = nx` and both are existing addresses -/
theorem insertValue_heap (g : GoList) (v : Tx) (a nx : Nat) (hnx : (g.heap a).next = some nx)
    (ha : a ≤ g.alloc) (hx : nx ≤ g.alloc) :
    (∀ i, ((g.insertValue v a).1.heap i).next
        = (if i = g.alloc + 1 then some nx else if i = a then some (g.alloc + 1) else (g.heap i).next))
    ∧ (∀ i, ((g.insertValue v a).1.heap i).prev
        = (if i = g.alloc + 1 then some a else if i = nx then some (g.alloc + 1) else (g.heap i).prev))
    ∧ (∀ i, ((g.insertValue v a).1.heap i).inList = (if i = g.alloc + 1 then true else (g.heap i).inList))
    ∧ (∀ i, ((g.insertValue v a).1.heap i).value = (if i = g.alloc + 1 then v else (g.heap i).value))
    ∧ (g.insertValue v a).1.len = g.len + 1 ∧ (g.insertValue v a).1.alloc = g.alloc + 1
    ∧ (g.insertValue v a).1.panicked = g.panicked := by
  have h1 : a ≠ g.alloc + 1 := by omega
  have h2 : nx ≠ g.alloc + 1 := by omega
  have h1' : g.alloc + 1 ≠ a := by omega
  have h2' : g.alloc + 1 ≠ nx := by omega
  simp [GoList.insertValue, hnx, h1, h1']
  refine ⟨?_, ?_, ?_⟩ <;> intro i <;> by_cases hi : i = g.alloc + 1 <;> simp [hi, h1', h2'] <;> grind


/-- the heap after `l.remove(e)`, when `e.prev = a`, `e.next = b` and neither is `e` -/
theorem removeRaw_heap (g : GoList) (e a b : Nat) (hp : (g.heap e).prev = some a) (hn : (g.heap e).next = some b)
    (hae : a ≠ e) :
    (∀ i, ((g.removeRaw e).heap i).next = (if i = e then none else if i = a then some b else (g.heap i).next))
    ∧ (∀ i, ((g.removeRaw e).heap i).prev = (if i = e then none else if i = b then some a else (g.heap i).prev))
    ∧ (∀ i, ((g.removeRaw e).heap i).inList = (if i = e then false else (g.heap i).inList))
    ∧ (∀ i, ((g.removeRaw e).heap i).value = (g.heap i).value)
    ∧ (g.removeRaw e).len = g.len - 1 ∧ (g.removeRaw e).alloc = g.alloc
    ∧ (g.removeRaw e).panicked = g.panicked := by
  have hae' : e ≠ a := Ne.symm hae
  simp [GoList.removeRaw, hp, hn, hae']

/-! ### linked paths -/

/-- `a.next = b` and `b.prev = a` -/
def Link (g : GoList) (a b : Nat) : Prop := (g.heap a).next = some b ∧ (g.heap b).prev = some a

/-- consecutive addresses of the list are linked in both directions -/
def Path (g : GoList) : List Nat → Prop
  | a :: b :: r => Link g a b ∧ Path g (b :: r)
  | _ => True

theorem path_append (g : GoList) : ∀ (X : List Nat) (a : Nat) (Y : List Nat),
    Path g (X ++ a :: Y) ↔ Path g (X ++ [a]) ∧ Path g (a :: Y)
  | [], a, Y => by simp [Path]
  | [x], a, Y => by simp [Path]
  | x :: y :: X, a, Y => by
    have := path_append g (y :: X) a Y
    simp only [List.cons_append, Path] at this ⊢
    rw [this, and_assoc]

theorem path_congr {g g' : GoList} : ∀ (l : List Nat),
    (∀ i ∈ l.dropLast, (g'.heap i).next = (g.heap i).next) →
    (∀ i ∈ l.tail, (g'.heap i).prev = (g.heap i).prev) → Path g l → Path g' l
  | [], _, _, _ => trivial
  | [_], _, _, _ => trivial
  | a :: b :: r, hn, hp, h => by
    refine ⟨⟨?_, ?_⟩, path_congr (b :: r) ?_ ?_ h.2⟩
    · rw [hn a (by simp)]; exact h.1.1
    · rw [hp b (by simp)]; exact h.1.2
    · intro i hi; exact hn i (by simp; exact Or.inr hi)
    · intro i hi; exact hp i (by simp at hi ⊢; exact Or.inr hi)

theorem path_next {g : GoList} {X : List Nat} {e y : Nat} {Y : List Nat} (h : Path g (X ++ e :: y :: Y)) :
    (g.heap e).next = some y := ((path_append g X e (y :: Y)).1 h).2.1.1

theorem path_prev {g : GoList} {X : List Nat} {x e : Nat} {Y : List Nat} (h : Path g (X ++ x :: e :: Y)) :
    (g.heap e).prev = some x := ((path_append g X x (e :: Y)).1 h).2.1.2

theorem dropLast_mid (X : List Nat) (a : Nat) (R : List Nat) (hR : R ≠ []) :
    (X ++ a :: R).dropLast = X ++ a :: R.dropLast := by
  rw [List.dropLast_append_of_ne_nil (by simp), List.dropLast_cons_of_ne_nil hR]

theorem tail_mid (X : List Nat) (a : Nat) (R : List Nat) : (X ++ a :: R).tail = (X ++ [a]).tail ++ R := by
  cases X <;> simp


/-- unlinking `e` from a path -/
theorem path_remove {g g' : GoList} {X Y : List Nat} {a e b : Nat}
    (hP : Path g (X ++ a :: e :: b :: Y))
    (n1 : (X ++ a :: e :: b :: Y).dropLast.Nodup) (n2 : (X ++ a :: e :: b :: Y).tail.Nodup)
    (hnext : ∀ i, (g'.heap i).next = (if i = e then none else if i = a then some b else (g.heap i).next))
    (hprev : ∀ i, (g'.heap i).prev = (if i = e then none else if i = b then some a else (g.heap i).prev)) :
    Path g' (X ++ a :: b :: Y) := by
  rw [dropLast_mid _ _ _ (by simp), List.dropLast_cons_of_ne_nil (by simp)] at n1
  rw [tail_mid] at n2
  have hP1 := (path_append g X a _).1 hP
  obtain ⟨hXa, _, _, hbY⟩ := hP1
  rw [path_append]
  have hae : a ≠ e := by
    intro h; subst h; simp [List.nodup_append, List.nodup_cons] at n1
  have hbe : b ≠ e := by
    intro h; subst h; simp [List.nodup_append, List.nodup_cons] at n2
  refine ⟨path_congr _ ?_ ?_ hXa, ⟨?_, ?_⟩, path_congr _ ?_ ?_ hbY⟩
  · intro i hi
    simp only [List.dropLast_concat] at hi
    have : i ≠ e ∧ i ≠ a := by
      simp [List.nodup_append, List.nodup_cons] at n1; grind
    rw [hnext, if_neg this.1, if_neg this.2]
  · intro i hi
    have : i ≠ e ∧ i ≠ b := by
      simp [List.nodup_append, List.nodup_cons] at n2; grind
    rw [hprev, if_neg this.1, if_neg this.2]
  · rw [hnext, if_neg hae, if_pos rfl]
  · rw [hprev, if_neg hbe, if_pos rfl]
  · intro i hi
    have : i ≠ e ∧ i ≠ a := by
      simp [List.nodup_append, List.nodup_cons] at n1; grind
    rw [hnext, if_neg this.1, if_neg this.2]
  · intro i hi
    have : i ≠ e ∧ i ≠ b := by
      simp [List.nodup_append, List.nodup_cons] at n2 hi; grind
    rw [hprev, if_neg this.1, if_neg this.2]


/-- linking a fresh `e` between `a` and `nx` -/
theorem path_insert {g g' : GoList} {X Z : List Nat} {a e nx : Nat}
    (hP : Path g (X ++ a :: nx :: Z))
    (n1 : (X ++ a :: nx :: Z).dropLast.Nodup) (n2 : (X ++ a :: nx :: Z).tail.Nodup)
    (he : e ∉ X ++ a :: nx :: Z)
    (hnext : ∀ i, (g'.heap i).next = (if i = e then some nx else if i = a then some e else (g.heap i).next))
    (hprev : ∀ i, (g'.heap i).prev = (if i = e then some a else if i = nx then some e else (g.heap i).prev)) :
    Path g' (X ++ a :: e :: nx :: Z) := by
  rw [dropLast_mid _ _ _ (by simp)] at n1
  rw [tail_mid] at n2
  have hP1 := (path_append g X a _).1 hP
  obtain ⟨hXa, _, hbY⟩ := hP1
  rw [path_append]
  have hae : a ≠ e := by
    intro h; subst h; simp at he
  have hbe : nx ≠ e := by
    intro h; subst h; simp at he
  refine ⟨path_congr _ ?_ ?_ hXa, ⟨?_, ?_⟩, ⟨?_, ?_⟩, path_congr _ ?_ ?_ hbY⟩
  · intro i hi
    simp only [List.dropLast_concat] at hi
    have : i ≠ e ∧ i ≠ a := by
      simp [List.nodup_append, List.nodup_cons] at n1 he; grind
    rw [hnext, if_neg this.1, if_neg this.2]
  · intro i hi
    have : i ≠ e ∧ i ≠ nx := by
      have : i ∈ X ++ [a] := List.mem_of_mem_tail hi
      simp [List.nodup_append, List.nodup_cons] at n2 he this; grind
    rw [hprev, if_neg this.1, if_neg this.2]
  · rw [hnext, if_neg hae, if_pos rfl]
  · rw [hprev, if_pos rfl]
  · rw [hnext, if_pos rfl]
  · rw [hprev, if_neg hbe, if_pos rfl]
  · intro i hi
    have : i ≠ e ∧ i ≠ a := by
      have : i ∈ nx :: Z := (List.dropLast_sublist _).subset hi
      simp [List.nodup_append, List.nodup_cons] at n1 he this; grind
    rw [hnext, if_neg this.1, if_neg this.2]
  · intro i hi
    have : i ≠ e ∧ i ≠ nx := by
      simp [List.nodup_append, List.nodup_cons] at n2 he hi; grind
    rw [hprev, if_neg this.1, if_neg this.2]


/-! ### the invariant -/

/-- the addresses of a list of cells -/
abbrev ids (cs : List (Nat × Tx)) : List Nat := cs.map (·.1)

/-- `Rep g cs` : the heap of `g` represents the list whose elements are, front to back, the cells `cs`
    (address, value): no nil dereference happened; the addresses are distinct, allocated and different from the
    sentinel; `root → cs → root` is linked by `next` and back by `prev` (so `next`/`prev` are mutually inverse
    along the ring); `e.list == l` exactly for the addresses of `cs`; `len` is their number. -/
structure Rep (g : GoList) (cs : List (Nat × Tx)) : Prop where
  noPanic : g.panicked = false
  nodup : (0 :: ids cs).Nodup
  bound : ∀ i ∈ ids cs, i ≤ g.alloc
  path : Path g (0 :: ids cs ++ [0])
  inl : ∀ i, (g.heap i).inList = true ↔ i ∈ ids cs
  vals : ∀ c ∈ cs, (g.heap c.1).value = c.2
  len : g.len = cs.length

theorem rep_new : Rep GoList.new [] := by
  refine ⟨rfl, by simp, by simp, ?_, ?_, by simp, rfl⟩
  · simp [Path, Link, GoList.new, GoList.init]
  · intro i; simp [GoList.new, GoList.init, blank]

theorem rep_insert_core {g : GoList} {pre post : List (Nat × Tx)} (h : Rep g (pre ++ post)) (v : Tx)
    {X : List Nat} {a : Nat} (ha : 0 :: ids pre = X ++ [a]) :
    Rep (g.insertValue v a).1 (pre ++ (g.alloc + 1, v) :: post) := by
  obtain ⟨nx, Z, hz⟩ : ∃ nx Z, ids post ++ [0] = nx :: Z := by
    cases post with
    | nil => exact ⟨0, [], rfl⟩
    | cons c r => exact ⟨c.1, ids r ++ [0], rfl⟩
  have hP : 0 :: ids (pre ++ post) ++ [0] = X ++ a :: nx :: Z := by
    have : 0 :: ids (pre ++ post) ++ [0] = (0 :: ids pre) ++ (ids post ++ [0]) := by simp [ids]
    rw [this, ha, hz]; simp
  have hpath := h.path
  rw [hP] at hpath
  have hb0 : ∀ i ∈ 0 :: ids (pre ++ post) ++ [0], i ≤ g.alloc := by
    intro i hi
    simp only [List.cons_append, List.mem_cons, List.mem_append, List.not_mem_nil, or_false] at hi
    rcases hi with hi | hi | hi
    · omega
    · exact h.bound i hi
    · omega
  have haB : a ≤ g.alloc := hb0 a (by rw [hP]; simp)
  have hxB : nx ≤ g.alloc := hb0 nx (by rw [hP]; simp)
  obtain ⟨hn, hp, hl, hv, hlen, hal, hpan⟩ := insertValue_heap g v a nx (path_next hpath) haB hxB
  have hfresh : ∀ i ∈ ids (pre ++ post), i ≠ g.alloc + 1 := fun i hi => by have := h.bound i hi; omega
  have hnd := h.nodup
  have hP' : 0 :: ids (pre ++ (g.alloc + 1, v) :: post) ++ [0] = X ++ a :: (g.alloc + 1) :: nx :: Z := by
    have : 0 :: ids (pre ++ (g.alloc + 1, v) :: post) ++ [0]
        = (0 :: ids pre) ++ (g.alloc + 1) :: (ids post ++ [0]) := by simp [ids]
    rw [this, ha, hz]; simp
  refine ⟨by rw [hpan]; exact h.noPanic, ?_, ?_, ?_, ?_, ?_, ?_⟩
  · simp only [ids, List.map_append, List.map_cons, List.nodup_cons, List.nodup_append, List.mem_append,
      List.mem_cons] at hnd hfresh ⊢
    grind
  · intro i hi
    rw [hal]
    simp only [ids, List.map_append, List.map_cons, List.mem_append, List.mem_cons] at hi
    rcases hi with hi | hi | hi
    · have := h.bound i (by simp only [ids, List.map_append, List.mem_append]; exact Or.inl hi); omega
    · omega
    · have := h.bound i (by simp only [ids, List.map_append, List.mem_append]; exact Or.inr hi); omega
  · rw [hP']
    refine path_insert hpath ?_ ?_ ?_ hn hp
    · rw [← hP, List.dropLast_concat]; exact hnd
    · rw [← hP]
      have : (0 :: ids (pre ++ post) ++ [0]).tail = ids (pre ++ post) ++ [0] := rfl
      rw [this]
      simp only [List.nodup_cons, List.nodup_append] at hnd ⊢
      refine ⟨hnd.2, by simp, ?_⟩
      intro x hx y hy; simp at hy; subst hy; intro hxy; subst hxy; exact hnd.1 hx
    · rw [← hP]; intro hmem; have := hb0 _ hmem; omega
  · intro i
    rw [hl]
    by_cases hi : i = g.alloc + 1
    · simp [hi, ids]
    · rw [if_neg hi, h.inl i]; simp [ids, hi]
  · intro c hc
    rw [hv]
    simp only [List.mem_append, List.mem_cons] at hc
    rcases hc with hc | hc | hc
    · have : c.1 ≠ g.alloc + 1 := hfresh _ (by simp [ids]; exact Or.inl ⟨_, hc⟩)
      rw [if_neg this]; exact h.vals c (by simp [hc])
    · subst hc; simp
    · have : c.1 ≠ g.alloc + 1 := hfresh _ (by simp [ids]; exact Or.inr ⟨_, hc⟩)
      rw [if_neg this]; exact h.vals c (by simp [hc])
  · rw [hlen, h.len]; simp; omega


theorem rep_tail_nodup {cs : List (Nat × Tx)} (hnd : (0 :: ids cs).Nodup) : (ids cs ++ [0]).Nodup := by
  simp only [List.nodup_cons, List.nodup_append] at hnd ⊢
  refine ⟨hnd.2, by simp, ?_⟩
  intro x hx y hy; simp at hy; subst hy; intro hxy; subst hxy; exact hnd.1 hx

theorem rep_remove {g : GoList} {pre post : List (Nat × Tx)} {e : Nat} {v : Tx}
    (h : Rep g (pre ++ (e, v) :: post)) : Rep (g.remove e) (pre ++ post) := by
  obtain ⟨X, a, ha⟩ : ∃ X a, 0 :: ids pre = X ++ [a] :=
    ⟨(0 :: ids pre).dropLast, (0 :: ids pre).getLast (by simp), (List.dropLast_concat_getLast (by simp)).symm⟩
  obtain ⟨b, Y, hz⟩ : ∃ b Y, ids post ++ [0] = b :: Y := by
    cases post with
    | nil => exact ⟨0, [], rfl⟩
    | cons c r => exact ⟨c.1, ids r ++ [0], rfl⟩
  have hP : 0 :: ids (pre ++ (e, v) :: post) ++ [0] = X ++ a :: e :: b :: Y := by
    have : 0 :: ids (pre ++ (e, v) :: post) ++ [0] = (0 :: ids pre) ++ e :: (ids post ++ [0]) := by simp [ids]
    rw [this, ha, hz]; simp
  have hP' : 0 :: ids (pre ++ post) ++ [0] = X ++ a :: b :: Y := by
    have : 0 :: ids (pre ++ post) ++ [0] = (0 :: ids pre) ++ (ids post ++ [0]) := by simp [ids]
    rw [this, ha, hz]; simp
  have hpath := h.path
  rw [hP] at hpath
  have hnd := h.nodup
  have hin : (g.heap e).inList = true := (h.inl e).2 (by simp [ids])
  have hae : a ≠ e := by
    have : a ∈ 0 :: ids pre := by rw [ha]; simp
    intro hh; subst hh
    simp only [ids, List.map_append, List.map_cons, List.nodup_cons, List.nodup_append, List.mem_append,
      List.mem_cons] at hnd this
    grind
  have hpe : (g.heap e).prev = some a := by
    have : X ++ a :: e :: b :: Y = X ++ a :: e :: (b :: Y) := rfl
    exact path_prev hpath
  have hne : (g.heap e).next = some b := by
    have : X ++ a :: e :: b :: Y = (X ++ [a]) ++ e :: b :: Y := by simp
    rw [this] at hpath; exact path_next hpath
  obtain ⟨hn, hp, hl, hv, hlen, hal, hpan⟩ := removeRaw_heap g e a b hpe hne hae
  have hrem : g.remove e = g.removeRaw e := by simp [GoList.remove, hin]
  rw [hrem]
  refine ⟨by rw [hpan]; exact h.noPanic, ?_, ?_, ?_, ?_, ?_, ?_⟩
  · simp only [ids, List.map_append, List.map_cons, List.nodup_cons, List.nodup_append, List.mem_append,
      List.mem_cons] at hnd ⊢
    grind
  · intro i hi
    rw [hal]
    refine h.bound i ?_
    simp only [ids, List.map_append, List.map_cons, List.mem_append, List.mem_cons] at hi ⊢
    rcases hi with hi | hi
    · exact Or.inl hi
    · exact Or.inr (Or.inr hi)
  · rw [hP']
    refine path_remove hpath ?_ ?_ hn hp
    · rw [← hP, List.dropLast_concat]; exact hnd
    · rw [← hP]; exact rep_tail_nodup hnd
  · intro i
    rw [hl]
    by_cases hi : i = e
    · subst hi
      simp only [ids, List.map_append, List.map_cons, List.nodup_cons, List.nodup_append, List.mem_append,
        List.mem_cons] at hnd ⊢
      grind
    · rw [if_neg hi, h.inl i]; simp [ids, hi]
  · intro c hc
    rw [hv]
    exact h.vals c (by simp only [List.mem_append, List.mem_cons] at hc ⊢; rcases hc with hc | hc <;> simp [hc])
  · rw [hlen, h.len]; simp

theorem remove_not_inList (g : GoList) (e : Nat) (h : (g.heap e).inList = false) : g.remove e = g := by
  simp [GoList.remove, h]


/-! ### navigation under the invariant -/

theorem rep_zero_notMem {g : GoList} {cs : List (Nat × Tx)} (h : Rep g cs) : 0 ∉ ids cs :=
  (List.nodup_cons.1 h.nodup).1

theorem rep_front {g : GoList} {cs : List (Nat × Tx)} (h : Rep g cs) : g.front = cs.head?.map (·.1) := by
  cases cs with
  | nil => simp [GoList.front, h.len]
  | cons c r =>
    have hp := h.path
    have : (g.heap 0).next = some c.1 := path_next (X := []) hp
    simp [GoList.front, h.len, this]

theorem rep_back {g : GoList} {cs : List (Nat × Tx)} (h : Rep g cs) : g.back = cs.getLast?.map (·.1) := by
  rcases List.eq_nil_or_concat cs with hcs | ⟨r, c, hcs⟩
  · subst hcs; simp [GoList.back, h.len]
  · rw [List.concat_eq_append] at hcs; subst hcs
    have hp := h.path
    have : 0 :: ids (r ++ [c]) ++ [0] = (0 :: ids r) ++ c.1 :: 0 :: [] := by simp [ids]
    rw [this] at hp
    have : (g.heap 0).prev = some c.1 := path_prev hp
    simp [GoList.back, h.len, this]

theorem rep_mid {g : GoList} {pre post : List (Nat × Tx)} {e : Nat} {v : Tx} (h : Rep g (pre ++ (e, v) :: post)) :
    (g.heap e).inList = true ∧ (g.heap e).value = v ∧ e ≠ 0 := by
  refine ⟨(h.inl e).2 (by simp [ids]), h.vals (e, v) (by simp), ?_⟩
  intro he; subst he; exact rep_zero_notMem h (by simp [ids])

theorem rep_next {g : GoList} {pre post : List (Nat × Tx)} {e : Nat} {v : Tx} (h : Rep g (pre ++ (e, v) :: post)) :
    g.next e = post.head?.map (·.1) := by
  have hin := (rep_mid h).1
  have hp := h.path
  cases post with
  | nil =>
    have : 0 :: ids (pre ++ [(e, v)]) ++ [0] = (0 :: ids pre) ++ e :: 0 :: [] := by simp [ids]
    rw [this] at hp
    simp [GoList.next, hin, path_next hp]
  | cons c r =>
    have : 0 :: ids (pre ++ (e, v) :: c :: r) ++ [0] = (0 :: ids pre) ++ e :: c.1 :: (ids r ++ [0]) := by simp [ids]
    rw [this] at hp
    have hc : c.1 ≠ 0 := by
      intro hc; exact rep_zero_notMem h (by simp [ids, ← hc])
    simp [GoList.next, hin, path_next hp, hc]

theorem rep_prev {g : GoList} {pre post : List (Nat × Tx)} {e : Nat} {v : Tx} (h : Rep g (pre ++ (e, v) :: post)) :
    g.prev e = pre.getLast?.map (·.1) := by
  have hin := (rep_mid h).1
  have hp := h.path
  rcases List.eq_nil_or_concat pre with hcs | ⟨r, c, hcs⟩
  · subst hcs
    have : 0 :: ids ([] ++ (e, v) :: post) ++ [0] = [] ++ 0 :: e :: (ids post ++ [0]) := by simp [ids]
    rw [this] at hp
    simp [GoList.prev, hin, path_prev hp]
  · rw [List.concat_eq_append] at hcs; subst hcs
    have : 0 :: ids (r ++ [c] ++ (e, v) :: post) ++ [0] = (0 :: ids r) ++ c.1 :: e :: (ids post ++ [0]) := by
      simp [ids]
    rw [this] at hp
    have hc : c.1 ≠ 0 := by
      intro hc; exact rep_zero_notMem h (by simp [ids, ← hc])
    simp [GoList.prev, hin, path_prev hp, hc]

/-- walking forward from a position of the list yields the cells from there on, for ANY fuel ≥ their number -/
theorem rep_walk {g : GoList} : ∀ (post pre : List (Nat × Tx)) (n : Nat), Rep g (pre ++ post) → post.length ≤ n →
    g.walk n (post.head?.map (·.1)) = post
  | [], _, n, _, _ => by cases n <;> simp [GoList.walk]
  | (e, v) :: r, pre, 0, _, hn => by simp at hn
  | (e, v) :: r, pre, n + 1, h, hn => by
    have ih := rep_walk r (pre ++ [(e, v)]) n (by simpa using h) (by simpa using hn)
    simp only [List.head?_cons, Option.map_some, GoList.walk, rep_next h, (rep_mid h).2.1, ih]

theorem rep_cells {g : GoList} {cs : List (Nat × Tx)} (h : Rep g cs) : g.cells = cs := by
  rw [GoList.cells, rep_front h]
  exact rep_walk cs [] g.len h (by rw [h.len]; exact Nat.le_refl _)

/-- THE INVARIANT: the heap represents the list that the walk from `Front()` produces. -/
def WF (g : GoList) : Prop := Rep g g.cells

theorem WF.of_rep {g : GoList} {cs : List (Nat × Tx)} (h : Rep g cs) : WF g := by
  unfold WF; rw [rep_cells h]; exact h

theorem wf_iff (g : GoList) : WF g ↔ ∃ cs, Rep g cs := ⟨fun h => ⟨_, h⟩, fun ⟨_, h⟩ => WF.of_rep h⟩

/-- the fuel `len` of `cells` suffices: more fuel yields the same walk (the walk ended with `Next() == nil`) -/
theorem walk_fuel {g : GoList} (h : WF g) (n : Nat) (hn : g.len ≤ n) : g.walk n g.front = g.cells := by
  have hr : Rep g g.cells := h
  rw [rep_front hr]
  exact rep_walk g.cells [] n hr (by rw [← hr.len]; exact hn)

theorem wf_new : WF GoList.new := WF.of_rep rep_new
theorem cells_new : GoList.new.cells = [] := rfl

theorem wf_len {g : GoList} (h : WF g) : g.Len = g.toList.length := by
  have hr : Rep g g.cells := h
  simp [GoList.Len, GoList.toList, hr.len]

theorem wf_noPanic {g : GoList} (h : WF g) : g.panicked = false := Rep.noPanic h


/-! ### the library operations under `WF` -/

theorem mem_toIds_split {g : GoList} {m : Nat} (hm : m ∈ g.toIds) :
    ∃ pre vm post, g.cells = pre ++ (m, vm) :: post := by
  simp only [GoList.toIds, List.mem_map] at hm
  obtain ⟨⟨m', vm⟩, hmem, rfl⟩ := hm
  obtain ⟨pre, post, hsp⟩ := List.append_of_mem hmem
  exact ⟨pre, vm, post, hsp⟩

/-- `e.list == l` holds exactly for the elements visited by the walk from the front -/
theorem wf_inList_iff {g : GoList} (h : WF g) (e : Nat) : (g.heap e).inList = true ↔ e ∈ g.toIds := Rep.inl h e

/-- `next` and `prev` are mutually inverse on the in-list elements (the sentinel `0` closes the ring) -/
theorem wf_next_prev {g : GoList} (h : WF g) (e : Nat) (he : (g.heap e).inList = true) :
    (∃ n, (g.heap e).next = some n ∧ (g.heap n).prev = some e ∧ (n = 0 ∨ (g.heap n).inList = true)) ∧
    (∃ p, (g.heap e).prev = some p ∧ (g.heap p).next = some e ∧ (p = 0 ∨ (g.heap p).inList = true)) := by
  have hr : Rep g g.cells := h
  obtain ⟨pre, v, post, hsp⟩ := mem_toIds_split ((wf_inList_iff h e).1 he)
  rw [hsp] at hr
  have hp := hr.path
  constructor
  · cases post with
    | nil =>
      have : 0 :: ids (pre ++ [(e, v)]) ++ [0] = (0 :: ids pre) ++ e :: 0 :: [] := by simp [ids]
      rw [this] at hp
      have := ((path_append g _ e _).1 hp).2.1
      exact ⟨0, this.1, this.2, Or.inl rfl⟩
    | cons c r =>
      have : 0 :: ids (pre ++ (e, v) :: c :: r) ++ [0] = (0 :: ids pre) ++ e :: c.1 :: (ids r ++ [0]) := by simp [ids]
      rw [this] at hp
      have := ((path_append g _ e _).1 hp).2.1
      exact ⟨c.1, this.1, this.2, Or.inr ((hr.inl c.1).2 (by simp [ids]))⟩
  · rcases List.eq_nil_or_concat pre with hcs | ⟨r, c, hcs⟩
    · subst hcs
      have : 0 :: ids ([] ++ (e, v) :: post) ++ [0] = [] ++ 0 :: e :: (ids post ++ [0]) := by simp [ids]
      rw [this] at hp
      have := ((path_append g _ 0 _).1 hp).2.1
      exact ⟨0, this.2, this.1, Or.inl rfl⟩
    · rw [List.concat_eq_append] at hcs; subst hcs
      have : 0 :: ids (r ++ [c] ++ (e, v) :: post) ++ [0] = (0 :: ids r) ++ c.1 :: e :: (ids post ++ [0]) := by
        simp [ids]
      rw [this] at hp
      have := ((path_append g _ c.1 _).1 hp).2.1
      exact ⟨c.1, this.2, this.1, Or.inr ((hr.inl c.1).2 (by simp [ids]))⟩

/-- `lazyInit` does nothing on a well-formed list (`root.next` is never nil) -/
theorem rep_lazyInit {g : GoList} {cs : List (Nat × Tx)} (h : Rep g cs) : g.lazyInit = g := by
  have hp := h.path
  obtain ⟨x, Y, hx⟩ : ∃ x Y, ids cs ++ [0] = x :: Y := by
    cases cs with
    | nil => exact ⟨0, [], rfl⟩
    | cons c r => exact ⟨c.1, ids r ++ [0], rfl⟩
  have : 0 :: ids cs ++ [0] = [] ++ 0 :: x :: Y := by simp [← hx]
  rw [this] at hp
  simp [GoList.lazyInit, path_next hp]

theorem pushFront_eq {g : GoList} (h : WF g) (v : Tx) : g.pushFront v = g.insertValue v 0 := by
  simp [GoList.pushFront, rep_lazyInit h]

/-- `PushFront` : well-formedness is kept, the new (fresh) element is in front -/
theorem wf_pushFront {g : GoList} (h : WF g) (v : Tx) :
    WF (g.pushFront v).1 ∧ (g.pushFront v).1.cells = ((g.pushFront v).2, v) :: g.cells
      ∧ (g.pushFront v).2 ∉ g.toIds ∧ (g.pushFront v).2 ≠ 0 := by
  have hr : Rep g ([] ++ g.cells) := h
  have h' := rep_insert_core (X := []) (a := 0) hr v rfl
  rw [pushFront_eq h]
  refine ⟨WF.of_rep h', rep_cells h', ?_, by simp [insertValue_snd]⟩
  intro hmem
  have := Rep.bound h _ hmem
  simp [insertValue_snd] at this
  omega

theorem toList_pushFront {g : GoList} (h : WF g) (v : Tx) : (g.pushFront v).1.toList = v :: g.toList := by
  simp [GoList.toList, (wf_pushFront h v).2.1]

/-- `InsertAfter(v, mark)` for a mark of the list: the new (fresh) element sits right after the mark -/
theorem wf_insertAfter {g : GoList} (h : WF g) (v : Tx) {pre post : List (Nat × Tx)} {m : Nat} {vm : Tx}
    (hc : g.cells = pre ++ (m, vm) :: post) :
    WF (g.insertAfter v m).1 ∧ (g.insertAfter v m).2 = some (g.alloc + 1)
      ∧ (g.insertAfter v m).1.cells = pre ++ (m, vm) :: (g.alloc + 1, v) :: post
      ∧ g.alloc + 1 ∉ g.toIds := by
  have hr : Rep g g.cells := h
  have hin : (g.heap m).inList = true := (hr.inl m).2 (by rw [hc]; simp [ids])
  have hr2 : Rep g ((pre ++ [(m, vm)]) ++ post) := by rw [hc] at hr; simpa using hr
  have h' := rep_insert_core (X := 0 :: ids pre) (a := m) hr2 v (by simp [ids])
  have h'' : Rep (g.insertAfter v m).1 (pre ++ (m, vm) :: (g.alloc + 1, v) :: post) := by
    simpa [GoList.insertAfter, hin] using h'
  refine ⟨WF.of_rep h'', by simp [GoList.insertAfter, hin, insertValue_snd], rep_cells h'', ?_⟩
  intro hmem
  have := Rep.bound h _ hmem
  omega

theorem toList_insertAfter {g : GoList} (h : WF g) (v : Tx) {pre post : List Nat} {m : Nat}
    (hc : g.toIds = pre ++ m :: post) :
    (g.insertAfter v m).1.toList
      = g.toList.take (pre.length + 1) ++ v :: g.toList.drop (pre.length + 1) := by
  simp only [GoList.toIds] at hc
  obtain ⟨cpre, cr, hsp, hpre, hr⟩ := List.map_eq_append_iff.1 hc
  obtain ⟨c, cpost, hsp2, hm, hpost⟩ := List.map_eq_cons_iff.1 hr
  subst hsp2
  obtain ⟨m', vm⟩ := c
  simp only at hm; subst hm
  have hlen : pre.length = cpre.length := by rw [← hpre]; simp
  have := (wf_insertAfter h v hsp).2.2.1
  simp only [GoList.toList, this, hsp, hlen]
  have hA : (cpre.map (·.2) ++ [vm]).length = cpre.length + 1 := by simp
  have e1 : (cpre ++ (m', vm) :: cpost).map (·.2) = (cpre.map (·.2) ++ [vm]) ++ cpost.map (·.2) := by simp
  rw [e1, List.take_left' hA, List.drop_left' hA]; simp

/-- `InsertAfter(v, mark)` when `mark.list != l`: nothing happens -/
theorem insertAfter_not_inList (g : GoList) (v : Tx) (m : Nat) (h : (g.heap m).inList = false) :
    g.insertAfter v m = (g, none) := by simp [GoList.insertAfter, h]

/-- `Remove(e)` for an element of the list: that position is erased, nothing else moves -/
theorem wf_remove {g : GoList} (h : WF g) {pre post : List (Nat × Tx)} {e : Nat} {v : Tx}
    (hc : g.cells = pre ++ (e, v) :: post) :
    WF (g.remove e) ∧ (g.remove e).cells = pre ++ post := by
  have hr : Rep g g.cells := h
  rw [hc] at hr
  have h' := rep_remove hr
  exact ⟨WF.of_rep h', rep_cells h'⟩

theorem toList_remove {g : GoList} (h : WF g) {pre post : List Nat} {e : Nat} (hc : g.toIds = pre ++ e :: post) :
    (g.remove e).toList = g.toList.eraseIdx pre.length := by
  simp only [GoList.toIds] at hc
  obtain ⟨cpre, cr, hsp, hpre, hr⟩ := List.map_eq_append_iff.1 hc
  obtain ⟨c, cpost, hsp2, hm, hpost⟩ := List.map_eq_cons_iff.1 hr
  subst hsp2
  obtain ⟨m', vm⟩ := c
  simp only at hm; subst hm
  have hlen : pre.length = cpre.length := by rw [← hpre]; simp
  simp only [GoList.toList, (wf_remove h hsp).2, hsp, hlen]
  simp [List.eraseIdx_append_of_length_le]

/-- values are never modified by `Remove` -/
theorem setNext_value' (g : GoList) (p v : Option Nat) (i : Nat) :
    ((g.setNext p v).heap i).value = (g.heap i).value := by
  cases p with
  | none => rfl
  | some a => simp

theorem setPrev_value' (g : GoList) (p v : Option Nat) (i : Nat) :
    ((g.setPrev p v).heap i).value = (g.heap i).value := by
  cases p with
  | none => rfl
  | some a => simp

theorem remove_value (g : GoList) (e i : Nat) : ((g.remove e).heap i).value = (g.heap i).value := by
  unfold GoList.remove
  split
  · simp only [GoList.removeRaw, setList_value, setNext_value', setPrev_value']
  · rfl


/-! ## Part 4 — refinement of `txListForSender` to the list model -/

/-- invariant of `txListForSender`: the list is well formed and the byte counter is the sum of the sizes -/
def SWF (s : SenderList) : Prop := WF s.items ∧ s.totalBytes = (listBytes s.items.toList : Int)

/-- same, relative to explicit cells -/
def SRep (s : SenderList) (cs : List (Nat × Tx)) : Prop :=
  Rep s.items cs ∧ s.totalBytes = (listBytes (cs.map (·.2)) : Int)

theorem SWF.srep {s : SenderList} (h : SWF s) : SRep s s.items.cells := ⟨h.1, h.2⟩

theorem SRep.swf {s : SenderList} {cs : List (Nat × Tx)} (h : SRep s cs) : SWF s := by
  refine ⟨WF.of_rep h.1, ?_⟩
  rw [GoList.toList, rep_cells h.1]; exact h.2

theorem SRep.toList {s : SenderList} {cs : List (Nat × Tx)} (h : SRep s cs) : s.items.toList = cs.map (·.2) := by
  rw [GoList.toList, rep_cells h.1]

theorem swf_new : SWF SenderList.new := ⟨wf_new, rfl⟩

theorem listBytes_append (a b : List Tx) : listBytes (a ++ b) = listBytes a + listBytes b := by
  simp [listBytes, List.sum_append]

theorem listBytes_cons (a : Tx) (b : List Tx) : listBytes (a :: b) = a.size + listBytes b := by
  simp [listBytes]

/-- the code's `isCapacityExceeded` (byte counter, `Len()`) is the model's `senderExceeded` -/
theorem srep_exceeded {s : SenderList} {cs : List (Nat × Tx)} (h : SRep s cs) (cfg : Config) :
    s.isCapacityExceeded cfg = senderExceeded cfg (cs.map (·.2)) := by
  simp only [SenderList.isCapacityExceeded, senderExceeded, GoList.Len, h.1.len, h.2, List.length_map]
  congr 1
  exact decide_eq_decide.2 (by omega)

theorem swf_exceeded {s : SenderList} (h : SWF s) (cfg : Config) :
    s.isCapacityExceeded cfg = senderExceeded cfg s.items.toList := srep_exceeded h.srep cfg

theorem applyLoop_none (cfg : Config) (n : Nat) (s : SenderList) (acc : List Bytes) :
    applyLoop cfg n s none acc = (s, acc) := by cases n <;> rfl

/-- what the loop of `applySizeConstraints` amounts to: at most one `Remove(Back())` -/
def applyOnce (cfg : Config) (s : SenderList) : SenderList × List Bytes :=
  match s.items.back with
  | none => (s, [])
  | some e =>
    if s.isCapacityExceeded cfg then
      (⟨s.items.remove e, s.totalBytes - ((s.items.heap e).value.size : Int)⟩, [(s.items.heap e).value.hash])
    else (s, [])

/-- the loop of `applySizeConstraints` stops after one removal, whatever the fuel ≥ `len` -/
theorem srep_applyLoop {s : SenderList} {cs : List (Nat × Tx)} (h : SRep s cs) (cfg : Config) (n : Nat)
    (hn : cs.length ≤ n) : applyLoop cfg n s s.items.back [] = applyOnce cfg s := by
  rcases List.eq_nil_or_concat cs with hcs | ⟨r, c, hcs⟩
  · subst hcs
    have hb : s.items.back = none := by rw [rep_back h.1]; rfl
    simp [applyOnce, hb, applyLoop_none]
  · rw [List.concat_eq_append] at hcs; subst hcs
    obtain ⟨e, v⟩ := c
    have hb : s.items.back = some e := by rw [rep_back h.1]; simp
    obtain ⟨n', rfl⟩ : ∃ n', n = n' + 1 := ⟨n - 1, by simp at hn; omega⟩
    have hrep : Rep s.items (r ++ (e, v) :: []) := h.1
    have hrem := rep_remove hrep
    simp only [List.append_nil] at hrem
    have hnl : ((s.items.remove e).heap e).inList = false := by
      have hnm : e ∉ ids r := by
        have := hrep.nodup
        simp only [ids, List.map_append, List.map_cons, List.map_nil, List.nodup_cons, List.nodup_append,
          List.mem_append, List.mem_cons] at this ⊢
        grind
      cases hh : ((s.items.remove e).heap e).inList with
      | false => rfl
      | true => exact absurd ((hrem.inl e).1 hh) hnm
    -- `element.Prev()` after `Remove(element)` : `element.list == nil`, hence nil
    have hprev : (s.items.remove e).prev e = none := by simp [GoList.prev, hnl]
    simp only [applyOnce, hb, applyLoop]
    cases hex : s.isCapacityExceeded cfg
    · simp
    · simp [hprev, applyLoop_none, remove_value]

theorem srep_applyOnce {s : SenderList} {cs : List (Nat × Tx)} (h : SRep s cs) (cfg : Config) :
    (applyOnce cfg s).2 = (trim1 cfg (cs.map (·.2))).2.map (·.hash)
      ∧ ∃ cs', SRep (applyOnce cfg s).1 cs' ∧ cs'.map (·.2) = (trim1 cfg (cs.map (·.2))).1 := by
  rcases List.eq_nil_or_concat cs with hcs | ⟨r, c, hcs⟩
  · subst hcs
    have hb : s.items.back = none := by rw [rep_back h.1]; rfl
    simp only [applyOnce, hb]
    exact ⟨by simp [trim1], [], h, by simp [trim1]⟩
  · rw [List.concat_eq_append] at hcs; subst hcs
    obtain ⟨e, v⟩ := c
    have hb : s.items.back = some e := by rw [rep_back h.1]; simp
    have hrep : Rep s.items (r ++ (e, v) :: []) := h.1
    have hrem := rep_remove hrep
    simp only [List.append_nil] at hrem
    have hval : (s.items.heap e).value = v := (rep_mid hrep).2.1
    have hm : (r ++ [(e, v)]).map (·.2) = r.map (·.2) ++ [v] := by simp
    have hex := srep_exceeded h cfg
    rw [hm] at hex ⊢
    simp only [applyOnce, hb, hex, hval]
    cases hx : senderExceeded cfg (r.map (·.2) ++ [v])
    · refine ⟨by simp [trim1, hx], _, h, ?_⟩
      rw [hm]; simp [trim1, hx]
    · simp only [↓reduceIte]
      refine ⟨by simp [trim1, hx], r, ⟨hrem, ?_⟩, by simp [trim1, hx]⟩
      have := h.2
      rw [hm, listBytes_append, listBytes_cons] at this
      simp only [listBytes, List.map_nil, List.sum_nil] at this ⊢
      omega

/-- REFINEMENT of `applySizeConstraints` to `trim1` — finding F3 is a theorem about the transcribed loop:
    because `element.Prev()` is evaluated after `Remove(element)` (which sets `element.list = nil`),
    the loop ends after its first removal. -/
theorem applySizeConstraints_refines (cfg : Config) {s : SenderList} (h : SWF s) :
    SWF (s.applySizeConstraints cfg).1
    ∧ (s.applySizeConstraints cfg).1.items.toList = (trim1 cfg s.items.toList).1
    ∧ (s.applySizeConstraints cfg).2 = (trim1 cfg s.items.toList).2.map (·.hash) := by
  have hs := h.srep
  have he := srep_applyLoop hs cfg s.items.Len (by rw [GoList.Len, hs.1.len]; exact Nat.le_refl _)
  obtain ⟨h2, cs', hs', hl⟩ := srep_applyOnce hs cfg
  unfold SenderList.applySizeConstraints
  rw [he]
  exact ⟨hs'.swf, by rw [hs'.toList, hl]; rfl, h2⟩

/-- the fuel `Len()` of the loop suffices: any larger fuel gives the same result -/
theorem applyLoop_fuel (cfg : Config) {s : SenderList} (h : SWF s) (n : Nat) (hn : s.items.Len ≤ n) :
    applyLoop cfg n s s.items.back [] = s.applySizeConstraints cfg := by
  have hs := h.srep
  rw [srep_applyLoop hs cfg n (by rw [← hs.1.len]; exact hn)]
  exact (srep_applyLoop hs cfg s.items.Len (by rw [GoList.Len, hs.1.len]; exact Nat.le_refl _)).symm

/-- F3 as a theorem: one call of `applySizeConstraints` removes AT MOST ONE transaction, and it is the last one -/
theorem applySizeConstraints_removes_at_most_one (cfg : Config) {s : SenderList} (h : SWF s) :
    (s.applySizeConstraints cfg).2.length ≤ 1
    ∧ ((s.applySizeConstraints cfg).1.items.toList = s.items.toList ∧ (s.applySizeConstraints cfg).2 = []
       ∨ ∃ x, s.items.toList = (s.applySizeConstraints cfg).1.items.toList ++ [x]
             ∧ (s.applySizeConstraints cfg).2 = [x.hash]) := by
  obtain ⟨_, h1, h2⟩ := applySizeConstraints_refines cfg h
  rw [h1, h2]
  generalize s.items.toList = l
  unfold trim1
  split
  · rcases List.eq_nil_or_concat l with hl | ⟨r, x, hl⟩
    · subst hl; simp
    · rw [List.concat_eq_append] at hl; subst hl
      simp
  · simp


/-! ### the two nonce-directed removals -/

/-- the prefix removed by `removeTransactionsWithLowerOrEqualNonceReturnHashes` -/
def lowerPrefix (k : Nat) : List Tx → List Tx
  | [] => []
  | c :: rest => if c.nonce > k then [] else c :: lowerPrefix k rest

theorem lowerPrefix_append_drop (k : Nat) : ∀ l : List Tx, lowerPrefix k l ++ dropLowerOrEqual k l = l
  | [] => rfl
  | c :: rest => by
    unfold lowerPrefix dropLowerOrEqual
    split
    · rfl
    · simp [lowerPrefix_append_drop k rest]

/-- the removed prefix, written as in `SV.TxCache.removeTxByHash` -/
theorem lowerPrefix_eq_take (k : Nat) (l : List Tx) :
    lowerPrefix k l = l.take (l.length - (dropLowerOrEqual k l).length) := by
  have h := lowerPrefix_append_drop k l
  have hl : l.length = (lowerPrefix k l).length + (dropLowerOrEqual k l).length := by
    rw [← List.length_append, h]
  have : l.length - (dropLowerOrEqual k l).length = (lowerPrefix k l).length := by omega
  rw [this]
  have h2 := List.take_left' (l₁ := lowerPrefix k l) (l₂ := dropLowerOrEqual k l) rfl
  rw [h] at h2
  exact h2.symm

theorem lowerLoop_none (k n : Nat) (s : SenderList) (acc : List Bytes) : lowerLoop k n s none acc = (s, acc) := by
  cases n <;> rfl

theorem srep_remove_front {s : SenderList} {e : Nat} {v : Tx} {r : List (Nat × Tx)} (h : SRep s ((e, v) :: r)) :
    SRep ⟨s.items.remove e, s.totalBytes - (((s.items.remove e).heap e).value.size : Int)⟩ r := by
  have hrep : Rep s.items ([] ++ (e, v) :: r) := h.1
  refine ⟨rep_remove hrep, ?_⟩
  have := h.2
  rw [remove_value, (rep_mid hrep).2.1]
  rw [List.map_cons, listBytes_cons] at this
  show s.totalBytes - (v.size : Int) = _
  simp only at this
  omega

theorem srep_lowerLoop (k : Nat) : ∀ (cs : List (Nat × Tx)) (s : SenderList) (acc : List Bytes), SRep s cs →
    ∃ s', (∀ n, cs.length ≤ n →
            lowerLoop k n s (cs.head?.map (·.1)) acc = (s', acc ++ (lowerPrefix k (cs.map (·.2))).map (·.hash)))
      ∧ ∃ cs', SRep s' cs' ∧ cs'.map (·.2) = dropLowerOrEqual k (cs.map (·.2))
  | [], s, acc, h => ⟨s, fun n _ => by simp [lowerLoop_none, lowerPrefix], [], h, rfl⟩
  | (e, v) :: r, s, acc, h => by
    have hrep : Rep s.items ([] ++ (e, v) :: r) := h.1
    have hval : (s.items.heap e).value = v := (rep_mid hrep).2.1
    have hnext : s.items.next e = r.head?.map (·.1) := rep_next hrep
    by_cases hk : v.nonce > k
    · refine ⟨s, ?_, _, h, by simp [dropLowerOrEqual, hk]⟩
      intro n hn
      obtain ⟨n', rfl⟩ : ∃ n', n = n' + 1 := ⟨n - 1, by simp at hn; omega⟩
      simp [lowerLoop, hval, hk, lowerPrefix]
    · obtain ⟨s', hrun, hres⟩ := srep_lowerLoop k r _ (acc ++ [v.hash]) (srep_remove_front h)
      refine ⟨s', ?_, by simpa [dropLowerOrEqual, hk] using hres⟩
      intro n hn
      obtain ⟨n', rfl⟩ : ∃ n', n = n' + 1 := ⟨n - 1, by simp at hn; omega⟩
      have := hrun n' (by simp at hn; omega)
      simp only [List.head?_cons, Option.map_some, lowerLoop, hval, hk, if_false, hnext, this]
      simp [lowerPrefix, hk]

/-- REFINEMENT of `removeTransactionsWithLowerOrEqualNonceReturnHashes` to `dropLowerOrEqual`; the returned hashes
    are those of the dropped prefix, in list order -/
theorem removeLowerOrEqual_refines (k : Nat) {s : SenderList} (h : SWF s) :
    SWF (s.removeLowerOrEqual k).1
    ∧ (s.removeLowerOrEqual k).1.items.toList = dropLowerOrEqual k s.items.toList
    ∧ (s.removeLowerOrEqual k).2
        = (s.items.toList.take (s.items.toList.length - (dropLowerOrEqual k s.items.toList).length)).map (·.hash) := by
  have hs := h.srep
  obtain ⟨s', hrun, cs', hs', hl⟩ := srep_lowerLoop k _ s [] hs
  have := hrun s.items.Len (by rw [GoList.Len, hs.1.len]; exact Nat.le_refl _)
  rw [← rep_front hs.1] at this
  unfold SenderList.removeLowerOrEqual
  rw [this, ← lowerPrefix_eq_take]
  exact ⟨hs'.swf, by rw [hs'.toList, hl]; rfl, by simp [GoList.toList]⟩

theorem lowerLoop_fuel (k : Nat) {s : SenderList} (h : SWF s) (n : Nat) (hn : s.items.Len ≤ n) :
    lowerLoop k n s s.items.front [] = s.removeLowerOrEqual k := by
  have hs := h.srep
  obtain ⟨s', hrun, _⟩ := srep_lowerLoop k _ s [] hs
  unfold SenderList.removeLowerOrEqual
  rw [rep_front hs.1, hrun n (by rw [← hs.1.len]; exact hn),
    hrun s.items.Len (by rw [GoList.Len, hs.1.len]; exact Nat.le_refl _)]


/-- the prefix OF THE REVERSED LIST removed by `removeTransactionsWithHigherOrEqualNonce` (it scans from the back) -/
def higherPrefixRev (k : Nat) : List Tx → List Tx
  | [] => []
  | c :: rest => if c.nonce < k then [] else c :: higherPrefixRev k rest

theorem higherPrefixRev_append_drop (k : Nat) : ∀ r : List Tx, higherPrefixRev k r ++ dropHigherRev k r = r
  | [] => rfl
  | c :: rest => by
    unfold higherPrefixRev dropHigherRev
    split
    · rfl
    · simp [higherPrefixRev_append_drop k rest]

/-- the removed suffix, written as in `SV.TxCache.applyThreshold` (`l.drop kept.length`), from the back -/
theorem higherPrefixRev_eq_drop (k : Nat) (l : List Tx) :
    higherPrefixRev k l.reverse = (l.drop (keepLower k l).length).reverse := by
  have h := higherPrefixRev_append_drop k l.reverse
  have hl : l = (dropHigherRev k l.reverse).reverse ++ (higherPrefixRev k l.reverse).reverse := by
    rw [← List.reverse_append, h, List.reverse_reverse]
  have h2 := List.drop_left' (l₁ := (dropHigherRev k l.reverse).reverse) (l₂ := (higherPrefixRev k l.reverse).reverse) rfl
  rw [← hl] at h2
  unfold keepLower
  rw [h2, List.reverse_reverse]

theorem higherLoop_none (k n : Nat) (s : SenderList) (acc : List Bytes) : higherLoop k n s none acc = (s, acc) := by
  cases n <;> rfl

theorem srep_remove_back {s : SenderList} {e : Nat} {v : Tx} {r : List (Nat × Tx)} (h : SRep s (r ++ [(e, v)])) :
    SRep ⟨s.items.remove e, s.totalBytes - (((s.items.remove e).heap e).value.size : Int)⟩ r := by
  have hrep : Rep s.items (r ++ (e, v) :: []) := h.1
  have hrem := rep_remove hrep
  simp only [List.append_nil] at hrem
  refine ⟨hrem, ?_⟩
  have := h.2
  rw [remove_value, (rep_mid hrep).2.1]
  rw [List.map_append, listBytes_append, List.map_cons, listBytes_cons] at this
  show s.totalBytes - (v.size : Int) = _
  simp only [List.map_nil, listBytes, List.sum_nil] at this ⊢
  omega

theorem srep_higherLoop (k : Nat) : ∀ (rcs : List (Nat × Tx)) (s : SenderList) (acc : List Bytes), SRep s rcs.reverse →
    ∃ s', (∀ n, rcs.length ≤ n →
            higherLoop k n s (rcs.head?.map (·.1)) acc = (s', acc ++ (higherPrefixRev k (rcs.map (·.2))).map (·.hash)))
      ∧ ∃ cs', SRep s' cs' ∧ cs'.map (·.2) = (dropHigherRev k (rcs.map (·.2))).reverse
  | [], s, acc, h => ⟨s, fun n _ => by simp [higherLoop_none, higherPrefixRev], [], h, rfl⟩
  | (e, v) :: r, s, acc, h => by
    have hrep : Rep s.items (r.reverse ++ (e, v) :: []) := by simpa using h.1
    have hval : (s.items.heap e).value = v := (rep_mid hrep).2.1
    have hprev : s.items.prev e = r.head?.map (·.1) := by rw [rep_prev hrep, List.getLast?_reverse]
    by_cases hk : v.nonce < k
    · refine ⟨s, ?_, _, h, by simp [dropHigherRev, hk]⟩
      intro n hn
      obtain ⟨n', rfl⟩ : ∃ n', n = n' + 1 := ⟨n - 1, by simp at hn; omega⟩
      simp [higherLoop, hval, hk, higherPrefixRev]
    · obtain ⟨s', hrun, hres⟩ := srep_higherLoop k r _ (acc ++ [v.hash])
        (srep_remove_back (s := s) (e := e) (v := v) (by simpa using h))
      refine ⟨s', ?_, by simpa [dropHigherRev, hk] using hres⟩
      intro n hn
      obtain ⟨n', rfl⟩ : ∃ n', n = n' + 1 := ⟨n - 1, by simp at hn; omega⟩
      have := hrun n' (by simp at hn; omega)
      simp only [List.head?_cons, Option.map_some, higherLoop, hval, hk, if_false, hprev, this]
      simp [higherPrefixRev, hk]

/-- REFINEMENT of `removeTransactionsWithHigherOrEqualNonce` to `keepLower`; the returned hashes are those of the
    dropped suffix in the order the code appends them: from the back -/
theorem removeHigherOrEqual_refines (k : Nat) {s : SenderList} (h : SWF s) :
    SWF (s.removeHigherOrEqual k).1
    ∧ (s.removeHigherOrEqual k).1.items.toList = keepLower k s.items.toList
    ∧ (s.removeHigherOrEqual k).2
        = ((s.items.toList.drop (keepLower k s.items.toList).length).reverse).map (·.hash) := by
  have hs := h.srep
  obtain ⟨s', hrun, cs', hs', hl⟩ := srep_higherLoop k s.items.cells.reverse s [] (by simpa using hs)
  have := hrun s.items.Len (by rw [GoList.Len, hs.1.len]; simp)
  rw [List.head?_reverse, ← rep_back hs.1] at this
  unfold SenderList.removeHigherOrEqual
  rw [this, ← higherPrefixRev_eq_drop]
  refine ⟨hs'.swf, ?_, by simp [GoList.toList]⟩
  rw [hs'.toList, hl]; simp [keepLower, GoList.toList]

theorem higherLoop_fuel (k : Nat) {s : SenderList} (h : SWF s) (n : Nat) (hn : s.items.Len ≤ n) :
    higherLoop k n s s.items.back [] = s.removeHigherOrEqual k := by
  have hs := h.srep
  obtain ⟨s', hrun, _⟩ := srep_higherLoop k s.items.cells.reverse s [] (by simpa using hs)
  unfold SenderList.removeHigherOrEqual
  have e1 := hrun n (by simp; rw [← hs.1.len]; exact hn)
  have e2 := hrun s.items.Len (by rw [GoList.Len, hs.1.len]; simp)
  rw [List.head?_reverse, ← rep_back hs.1] at e1 e2
  rw [e1, e2]


/-! ### `findInsertionPlace` and the sorted insertion -/

/-- `findInsertionPlace` on the cells listed from the back -/
def findRev (t : Tx) : List (Nat × Tx) → Place
  | [] => .at_ none
  | (e, c) :: r =>
    if c.nonce = t.nonce then
      if c.gasPrice > t.gasPrice then .at_ (some e)
      else if c.gasPrice = t.gasPrice then
        if c.hash = t.hash then .err
        else if bytesLt c.hash t.hash then .at_ (some e)
        else findRev t r
      else findRev t r
    else if c.nonce < t.nonce then .at_ (some e)
    else findRev t r

theorem findLoop_none (g : GoList) (t : Tx) (n : Nat) : findLoop g t n none = .at_ none := by cases n <;> rfl

/-- the pointer walk of `findInsertionPlace` (via `Prev()`) computes `findRev`, for any fuel ≥ the number of cells left -/
theorem rep_findLoop {g : GoList} (t : Tx) : ∀ (rcs post : List (Nat × Tx)) (n : Nat),
    Rep g (rcs.reverse ++ post) → rcs.length ≤ n → findLoop g t n (rcs.head?.map (·.1)) = findRev t rcs
  | [], _, n, _, _ => by simp [findLoop_none, findRev]
  | (e, c) :: r, post, 0, _, hn => by simp at hn
  | (e, c) :: r, post, n + 1, h, hn => by
    have hrep : Rep g (r.reverse ++ (e, c) :: post) := by simpa using h
    have hval : (g.heap e).value = c := (rep_mid hrep).2.1
    have hprev : g.prev e = r.head?.map (·.1) := by rw [rep_prev hrep, List.getLast?_reverse]
    have ih := rep_findLoop t r ((e, c) :: post) n hrep (by simpa using hn)
    simp only [List.head?_cons, Option.map_some, findLoop, findRev, hval, hprev, ih]

/-- `findRev` against the model's `insertRev` -/
theorem findRev_spec (t : Tx) : ∀ (rcs : List (Nat × Tx)),
    match findRev t rcs with
    | .err => insertRev t (rcs.map (·.2)) = none
    | .at_ none => insertRev t (rcs.map (·.2)) = some (rcs.map (·.2) ++ [t])
    | .at_ (some m) => ∃ R1 cm R2, rcs = R1 ++ (m, cm) :: R2
        ∧ insertRev t (rcs.map (·.2)) = some (R1.map (·.2) ++ t :: cm :: R2.map (·.2))
  | [] => by simp [findRev, insertRev]
  | (e, c) :: r => by
    have ih := findRev_spec t r
    have hcont : findRev t ((e, c) :: r) = findRev t r →
        insertRev t (((e, c) :: r).map (·.2)) = (insertRev t (r.map (·.2))).map (c :: ·) →
        (match findRev t ((e, c) :: r) with
          | .err => insertRev t (((e, c) :: r).map (·.2)) = none
          | .at_ none => insertRev t (((e, c) :: r).map (·.2)) = some (((e, c) :: r).map (·.2) ++ [t])
          | .at_ (some m) => ∃ R1 cm R2, (e, c) :: r = R1 ++ (m, cm) :: R2
              ∧ insertRev t (((e, c) :: r).map (·.2)) = some (R1.map (·.2) ++ t :: cm :: R2.map (·.2))) := by
      intro h1 h2
      rw [h1, h2]
      cases hf : findRev t r with
      | err => rw [hf] at ih; simp only at ih ⊢; rw [ih]; rfl
      | at_ p =>
        cases p with
        | none => rw [hf] at ih; simp only at ih ⊢; rw [ih]; simp
        | some m =>
          rw [hf] at ih; simp only at ih ⊢
          obtain ⟨R1, cm, R2, hr, hi⟩ := ih
          exact ⟨(e, c) :: R1, cm, R2, by rw [hr]; rfl, by rw [hi]; simp⟩
    have hstop : findRev t ((e, c) :: r) = .at_ (some e) →
        insertRev t (((e, c) :: r).map (·.2)) = some (t :: c :: r.map (·.2)) →
        (match findRev t ((e, c) :: r) with
          | .err => insertRev t (((e, c) :: r).map (·.2)) = none
          | .at_ none => insertRev t (((e, c) :: r).map (·.2)) = some (((e, c) :: r).map (·.2) ++ [t])
          | .at_ (some m) => ∃ R1 cm R2, (e, c) :: r = R1 ++ (m, cm) :: R2
              ∧ insertRev t (((e, c) :: r).map (·.2)) = some (R1.map (·.2) ++ t :: cm :: R2.map (·.2))) := by
      intro h1 h2
      rw [h1]
      exact ⟨[], c, r, rfl, by rw [h2]; rfl⟩
    by_cases h1 : c.nonce = t.nonce
    · by_cases h2 : c.gasPrice > t.gasPrice
      · exact hstop (by simp [findRev, h1, h2]) (by simp [insertRev, h1, h2])
      · by_cases h3 : c.gasPrice = t.gasPrice
        · by_cases h4 : c.hash = t.hash
          · have : findRev t ((e, c) :: r) = .err := by simp [findRev, h1, h3, h4]
            rw [this]; simp [insertRev, h1, h3, h4]
          · by_cases h5 : bytesLt c.hash t.hash = true
            · exact hstop (by simp [findRev, h1, h3, h4, h5]) (by simp [insertRev, h1, h3, h4, h5])
            · exact hcont (by simp [findRev, h1, h3, h4, h5]) (by simp [insertRev, h1, h3, h4, h5])
        · exact hcont (by simp [findRev, h1, h2, h3]) (by simp [insertRev, h1, h2, h3])
    · by_cases h2 : c.nonce < t.nonce
      · exact hstop (by simp [findRev, h1, h2]) (by simp [insertRev, h1, h2])
      · exact hcont (by simp [findRev, h1, h2]) (by simp [insertRev, h1, h2])


/-- `findInsertionPlace` computes `findRev` of the cells listed from the back (fuel `Len()`; more fuel changes nothing) -/
theorem swf_findInsertionPlace {s : SenderList} (h : SWF s) (t : Tx) :
    s.findInsertionPlace t = findRev t s.items.cells.reverse
    ∧ ∀ n, s.items.Len ≤ n → findLoop s.items t n s.items.back = findRev t s.items.cells.reverse := by
  have hr : Rep s.items (s.items.cells.reverse.reverse ++ []) := by
    have : Rep s.items s.items.cells := h.1
    simpa using this
  have hb : s.items.back = s.items.cells.reverse.head?.map (·.1) := by
    rw [rep_back h.1, List.head?_reverse]
  have key : ∀ n, s.items.Len ≤ n → findLoop s.items t n s.items.back = findRev t s.items.cells.reverse := by
    intro n hn
    rw [hb]
    exact rep_findLoop t _ [] n hr (by simp; rw [← (Rep.len h.1)]; exact hn)
  exact ⟨key _ (Nat.le_refl _), key⟩

/-- REFINEMENT of the insertion of `AddTx` (`findInsertionPlace`, `PushFront`/`InsertAfter`, `onAddedTransaction`)
    to `insertTx`: the error is returned exactly when `insertTx` returns `none` (then nothing changes),
    otherwise the new content is the one `insertTx` computes. -/
theorem insert_refines {s : SenderList} (h : SWF s) (t : Tx) :
    match insertTx t s.items.toList with
    | none => s.insert t = (s, false)
    | some l' => (s.insert t).2 = true ∧ SWF (s.insert t).1 ∧ (s.insert t).1.items.toList = l' := by
  have hs := h.srep
  have hfind := (swf_findInsertionPlace h t).1
  have hspec := findRev_spec t s.items.cells.reverse
  have hrevl : s.items.toList.reverse = s.items.cells.reverse.map (·.2) := by simp [GoList.toList]
  unfold insertTx
  rw [hrevl]
  unfold SenderList.insert
  rw [hfind]
  cases hf : findRev t s.items.cells.reverse with
  | err => rw [hf] at hspec; simp only at hspec ⊢; rw [hspec]; simp
  | at_ p =>
    cases p with
    | none =>
      rw [hf] at hspec; simp only at hspec ⊢; rw [hspec]
      simp only [Option.map_some]
      obtain ⟨hw, hc, _, _⟩ := wf_pushFront h.1 t
      have htl : (s.items.pushFront t).1.toList = t :: s.items.toList := toList_pushFront h.1 t
      refine ⟨trivial, ⟨hw, ?_⟩, ?_⟩
      · show s.totalBytes + (t.size : Int) = _
        rw [htl, listBytes_cons, h.2]; omega
      · show (s.items.pushFront t).1.toList = _
        rw [htl]; simp [GoList.toList]
    | some m =>
      rw [hf] at hspec; simp only at hspec ⊢
      obtain ⟨R1, cm, R2, hsplit, hins⟩ := hspec
      rw [hins]
      simp only [Option.map_some]
      have hcells : s.items.cells = R2.reverse ++ (m, cm) :: R1.reverse := by
        have := congrArg List.reverse hsplit
        simpa using this
      obtain ⟨hw, _, hc, _⟩ := wf_insertAfter h.1 t hcells
      have htl : (s.items.insertAfter t m).1.toList
          = (R2.map (·.2)).reverse ++ cm :: t :: (R1.map (·.2)).reverse := by
        simp [GoList.toList, hc]
      have hold : s.items.toList = (R2.map (·.2)).reverse ++ cm :: (R1.map (·.2)).reverse := by
        simp [GoList.toList, hcells]
      refine ⟨trivial, ⟨hw, ?_⟩, ?_⟩
      · show s.totalBytes + (t.size : Int) = _
        rw [htl, h.2, hold]
        simp only [listBytes_append, listBytes_cons]; omega
      · show (s.items.insertAfter t m).1.toList = _
        rw [htl]; simp

/-- the form asked for: the content after the insertion step is `(insertTx t l).getD l` -/
theorem toList_insert {s : SenderList} (h : SWF s) (t : Tx) :
    (s.insert t).1.items.toList = (insertTx t s.items.toList).getD s.items.toList
    ∧ ((s.insert t).2 = false ↔ insertTx t s.items.toList = none)
    ∧ SWF (s.insert t).1 := by
  have := insert_refines h t
  cases hi : insertTx t s.items.toList with
  | none => rw [hi] at this; simp only at this; rw [this]; exact ⟨rfl, by simp, h⟩
  | some l' => rw [hi] at this; simp only at this; exact ⟨by simp [this.2.2], by simp [this.1], this.2.1⟩

/-- REFINEMENT of the whole `txListForSender.AddTx` to the fragment `match insertTx t l with … trim1 …` of
    `SV.TxCache.addTx` -/
theorem addTx_refines (cfg : Config) {s : SenderList} (h : SWF s) (t : Tx) :
    match insertTx t s.items.toList with
    | none => s.addTx cfg t = (s, false, [])
    | some l' => SWF (s.addTx cfg t).1 ∧ (s.addTx cfg t).1.items.toList = (trim1 cfg l').1
        ∧ (s.addTx cfg t).2 = (true, (trim1 cfg l').2.map (·.hash)) := by
  have := insert_refines h t
  cases hi : insertTx t s.items.toList with
  | none => rw [hi] at this; simp only at this ⊢; simp [SenderList.addTx, this]
  | some l' =>
    rw [hi] at this; simp only at this ⊢
    obtain ⟨h1, h2, h3⟩ := this
    have hadd : s.addTx cfg t = (((s.insert t).1.applySizeConstraints cfg).1, true,
        ((s.insert t).1.applySizeConstraints cfg).2) := by
      unfold SenderList.addTx
      generalize s.insert t = r at h1 ⊢
      obtain ⟨s1, b⟩ := r
      simp only at h1; subst h1; rfl
    obtain ⟨a1, a2, a3⟩ := applySizeConstraints_refines cfg h2
    rw [hadd]
    exact ⟨a1, by rw [a2, h3], by rw [a3, h3]⟩

/-! ### `getTxs`, `getTxsReversed` -/

theorem getLoopFwd_eq (g : GoList) : ∀ (n : Nat) (p : Option Nat) (acc : List Tx),
    getLoopFwd g n p acc = acc ++ (g.walk n p).map (·.2)
  | 0, _, acc => by simp [getLoopFwd, GoList.walk]
  | n + 1, none, acc => by simp [getLoopFwd, GoList.walk]
  | n + 1, some e, acc => by simp [getLoopFwd, GoList.walk, getLoopFwd_eq g n]

/-- `getTxs` is the walk that defines `toList` -/
theorem getTxs_eq (s : SenderList) : s.getTxs = s.items.toList := by
  simp [SenderList.getTxs, getLoopFwd_eq, GoList.toList, GoList.cells, GoList.Len]

theorem getLoopFwd_fuel {s : SenderList} (h : WF s.items) (n : Nat) (hn : s.items.Len ≤ n) :
    getLoopFwd s.items n s.items.front [] = s.items.toList := by
  rw [getLoopFwd_eq, walk_fuel h n hn]; simp [GoList.toList]

theorem getLoopBwd_none (g : GoList) (n : Nat) (acc : List Tx) : getLoopBwd g n none acc = acc := by cases n <;> rfl

theorem rep_getLoopBwd {g : GoList} : ∀ (rcs post : List (Nat × Tx)) (n : Nat) (acc : List Tx),
    Rep g (rcs.reverse ++ post) → rcs.length ≤ n →
    getLoopBwd g n (rcs.head?.map (·.1)) acc = acc ++ rcs.map (·.2)
  | [], _, n, acc, _, _ => by simp [getLoopBwd_none]
  | (e, c) :: r, post, 0, acc, _, hn => by simp at hn
  | (e, c) :: r, post, n + 1, acc, h, hn => by
    have hrep : Rep g (r.reverse ++ (e, c) :: post) := by simpa using h
    have hval : (g.heap e).value = c := (rep_mid hrep).2.1
    have hprev : g.prev e = r.head?.map (·.1) := by rw [rep_prev hrep, List.getLast?_reverse]
    have ih := rep_getLoopBwd r ((e, c) :: post) n (acc ++ [c]) hrep (by simpa using hn)
    simp only [List.head?_cons, Option.map_some, getLoopBwd, hval, hprev, ih]
    simp

/-- `getTxsReversed` returns the content reversed (any fuel ≥ `Len()` gives the same) -/
theorem getTxsReversed_eq {s : SenderList} (h : WF s.items) :
    s.getTxsReversed = s.items.toList.reverse
    ∧ ∀ n, s.items.Len ≤ n → getLoopBwd s.items n s.items.back [] = s.items.toList.reverse := by
  have hr : Rep s.items (s.items.cells.reverse.reverse ++ []) := by
    have : Rep s.items s.items.cells := h
    simpa using this
  have hb : s.items.back = s.items.cells.reverse.head?.map (·.1) := by
    rw [rep_back h, List.head?_reverse]
  have key : ∀ n, s.items.Len ≤ n → getLoopBwd s.items n s.items.back [] = s.items.toList.reverse := by
    intro n hn
    rw [hb, rep_getLoopBwd _ [] n [] hr (by simp; rw [← (Rep.len h)]; exact hn)]
    simp [GoList.toList]
  exact ⟨key _ (Nat.le_refl _), key⟩


/-! ## Non-vacuity: concrete runs of the transcribed code -/

def mkTx (h : UInt8) (nonce price size : Nat) : Tx := ⟨[h], [1], nonce, price, 50000, size, 0, 0, []⟩

/-- 250 bytes per sender, 100 transactions per sender -/
def demoCfg : Config := ⟨true, 1000000, 250, 1000, 100, 1⟩

/-- nonces 1, 3, 2 inserted in this order (elements 1, 2, 3) : content `[1, 2, 3]` held by elements `[1, 3, 2]` -/
def demo3 : SenderList :=
  (((SenderList.new.insert (mkTx 1 1 10 100)).1.insert (mkTx 3 3 10 100)).1.insert (mkTx 2 2 10 100)).1

/-- the hypotheses `SWF`/`WF` of the theorems are satisfiable: every state built by the code satisfies them -/
theorem swf_demo3 : SWF demo3 :=
  (toList_insert (toList_insert (toList_insert swf_new _).2.2 _).2.2 _).2.2

example : demo3.items.toList.map (·.nonce) = [1, 2, 3] ∧ demo3.items.toIds = [1, 3, 2] ∧ demo3.items.Len = 3
    ∧ demo3.totalBytes = 300 := by decide

/-- `PushFront` (nonce 0 goes to the front), `InsertAfter` in the middle (nonce 2 above), duplicate refused -/
example : ((demo3.insert (mkTx 0 0 10 100)).1.items.toList.map (·.nonce) = [0, 1, 2, 3])
    ∧ (demo3.insert (mkTx 2 2 10 100)).2 = false
    ∧ insertTx (mkTx 2 2 10 100) demo3.items.toList = none
    ∧ (insertTx (mkTx 0 0 10 100) demo3.items.toList).map (·.map (·.nonce)) = some [0, 1, 2, 3] := by decide

/-- instance of the hypothesis of `wf_insertAfter` / `wf_remove` (mark / element 3 in the middle) and their effect -/
example : demo3.items.cells = [(1, mkTx 1 1 10 100)] ++ (3, mkTx 2 2 10 100) :: [(2, mkTx 3 3 10 100)]
    ∧ (demo3.items.insertAfter (mkTx 9 9 9 9) 3).1.toList.map (·.nonce) = [1, 2, 9, 3]
    ∧ (demo3.items.remove 3).toList.map (·.nonce) = [1, 3]
    ∧ (demo3.items.remove 3).toIds = [1, 2] := by decide

/-- the library's guards: a removed element has `next = prev = list = nil`; `Remove` again and `InsertAfter` with it
    as mark do nothing; its `Prev()`/`Next()` are nil -/
example : ((demo3.items.remove 3).remove 3).toList = (demo3.items.remove 3).toList
    ∧ ((demo3.items.remove 3).insertAfter (mkTx 9 9 9 9) 3).2 = none
    ∧ ((demo3.items.remove 3).insertAfter (mkTx 9 9 9 9) 3).1.toList = (demo3.items.remove 3).toList
    ∧ (demo3.items.remove 3).prev 3 = none ∧ (demo3.items.remove 3).next 3 = none
    ∧ demo3.items.prev 3 = some 1 ∧ demo3.items.next 3 = some 2 := by decide

/-- F3, concretely: the 4th transaction brings the sender to 400 bytes against a limit of 250, so TWO drops would be
    needed; the transcribed `AddTx` (library + loop) drops exactly ONE (the last), the list stays over the limit,
    and this is what `trim1` says. -/
example :
    let r := demo3.addTx demoCfg (mkTx 4 4 10 100)
    r.1.items.toList.map (·.nonce) = [1, 2, 3] ∧ r.2 = (true, [[4]])
    ∧ senderExceeded demoCfg r.1.items.toList = true
    ∧ (insertTx (mkTx 4 4 10 100) demo3.items.toList).map (fun l => (trim1 demoCfg l).1.map (·.nonce)) = some [1, 2, 3]
    ∧ (insertTx (mkTx 4 4 10 100) demo3.items.toList).map (fun l => (trim1 demoCfg l).2.map (·.hash)) = some [[4]] := by
  decide

/-- the same on a 4-element list directly: `applySizeConstraints` with a limit two drops away -/
def demo4 : SenderList := (demo3.insert (mkTx 4 4 10 100)).1

example : demo4.items.toList.map (·.nonce) = [1, 2, 3, 4] ∧ demo4.totalBytes = 400
    ∧ (demo4.applySizeConstraints demoCfg).1.items.toList.map (·.nonce) = [1, 2, 3]
    ∧ (demo4.applySizeConstraints demoCfg).2 = [[4]]
    ∧ (demo4.applySizeConstraints demoCfg).1.isCapacityExceeded demoCfg = true
    ∧ (trim1 demoCfg demo4.items.toList).1.map (·.nonce) = [1, 2, 3]
    ∧ (trim1 demoCfg demo4.items.toList).2.map (·.hash) = [[4]] := by decide

/-- the two nonce-directed removals and the two read-outs -/
example : (demo4.removeLowerOrEqual 2).1.items.toList.map (·.nonce) = [3, 4] ∧ (demo4.removeLowerOrEqual 2).2 = [[1], [2]]
    ∧ (demo4.removeHigherOrEqual 2).1.items.toList.map (·.nonce) = [1] ∧ (demo4.removeHigherOrEqual 2).2 = [[4], [3], [2]]
    ∧ (dropLowerOrEqual 2 demo4.items.toList).map (·.nonce) = [3, 4]
    ∧ (keepLower 2 demo4.items.toList).map (·.nonce) = [1]
    ∧ demo4.getTxs.map (·.nonce) = [1, 2, 3, 4] ∧ demo4.getTxsReversed.map (·.nonce) = [4, 3, 2, 1] := by decide

end SV.TxCache.GoList
