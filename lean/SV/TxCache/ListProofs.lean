/-
  SV.TxCache.ListProofs — the per-sender list (C04, C06): the order `listLt`, the back-to-front insertion of the code
  against the reference `orderedInsert`, the one-step trimming `trim1` against the reference `trimAll` (finding F3),
  and the two removal helpers `dropLowerOrEqual` / `keepLower`.
-/
import SV.TxCache.Spec
import SV.CommonProofs
namespace SV.TxCache

/-! ### the order `listLt` -/

theorem listLt_iff (a b : Tx) :
    listLt a b = true ↔
      a.nonce < b.nonce ∨ (a.nonce = b.nonce ∧
        (a.gasPrice > b.gasPrice ∨ (a.gasPrice = b.gasPrice ∧ bytesLt a.hash b.hash = true))) := by
  simp [listLt]

theorem listLt_eq_false_iff (a b : Tx) : listLt a b = false ↔ ¬ (listLt a b = true) := by
  cases listLt a b <;> simp

-- listLt is a strict total order on transactions that differ in (nonce, gasPrice, hash)
theorem listLt_irrefl (a : Tx) : listLt a a = false := by
  rw [listLt_eq_false_iff, listLt_iff]
  have := bytesLt_irrefl a.hash
  simp [this]

theorem listLt_trans (a b c : Tx) : listLt a b = true → listLt b c = true → listLt a c = true := by
  simp only [listLt_iff]
  intro h1 h2
  rcases h1 with h1 | ⟨h1, h1' | ⟨h1', h1''⟩⟩ <;> rcases h2 with h2 | ⟨h2, h2' | ⟨h2', h2''⟩⟩
  · left; omega
  · left; omega
  · left; omega
  · left; omega
  · right; exact ⟨by omega, Or.inl (by omega)⟩
  · right; exact ⟨by omega, Or.inl (by omega)⟩
  · left; omega
  · right; exact ⟨by omega, Or.inl (by omega)⟩
  · right; exact ⟨by omega, Or.inr ⟨by omega, bytesLt_trans _ _ _ h1'' h2''⟩⟩

theorem listLt_asymm (a b : Tx) : listLt a b = true → listLt b a = false := by
  intro h
  cases hb : listLt b a with
  | false => rfl
  | true =>
    have := listLt_trans a b a h hb
    rw [listLt_irrefl] at this
    exact absurd this (by decide)

theorem listLt_total (a b : Tx) (h : ¬ (a.nonce = b.nonce ∧ a.gasPrice = b.gasPrice ∧ a.hash = b.hash)) :
    listLt a b = true ∨ listLt b a = true := by
  simp only [listLt_iff]
  by_cases c1 : a.nonce < b.nonce
  · exact Or.inl (Or.inl c1)
  by_cases c2 : b.nonce < a.nonce
  · exact Or.inr (Or.inl c2)
  have e1 : a.nonce = b.nonce := by omega
  by_cases c3 : a.gasPrice > b.gasPrice
  · exact Or.inl (Or.inr ⟨e1, Or.inl c3⟩)
  by_cases c4 : b.gasPrice > a.gasPrice
  · exact Or.inr (Or.inr ⟨e1.symm, Or.inl c4⟩)
  have e2 : a.gasPrice = b.gasPrice := by omega
  have hne : a.hash ≠ b.hash := fun e => h ⟨e1, e2, e⟩
  rcases bytesLt_total _ _ hne with hb | hb
  · exact Or.inl (Or.inr ⟨e1, Or.inr ⟨e2, hb⟩⟩)
  · exact Or.inr (Or.inr ⟨e1.symm, Or.inr ⟨e2.symm, hb⟩⟩)

/-- two transactions with the same key triple are not ordered -/
theorem listLt_of_key_eq (a b : Tx) (h : a.nonce = b.nonce ∧ a.gasPrice = b.gasPrice ∧ a.hash = b.hash) :
    listLt a b = false := by
  rw [listLt_eq_false_iff, listLt_iff]
  obtain ⟨h1, h2, h3⟩ := h
  have := bytesLt_irrefl b.hash
  rw [h3]
  simp [this]
  omega

theorem listLt_key_ne (a b : Tx) (h : listLt a b = true) :
    ¬ (a.nonce = b.nonce ∧ a.gasPrice = b.gasPrice ∧ a.hash = b.hash) := by
  intro hk
  rw [listLt_of_key_eq a b hk] at h
  exact absurd h (by decide)

theorem listLt_ne (a b : Tx) (h : listLt a b = true) : a ≠ b := by
  intro e; subst e; rw [listLt_irrefl] at h; exact absurd h (by decide)

theorem listLt_nonce_le (a b : Tx) (h : listLt a b = true) : a.nonce ≤ b.nonce := by
  rw [listLt_iff] at h
  omega

/-! ### sorted lists -/

/-- a strictly sorted list has no two entries with the same hash-key triple, in particular no hash twice among
    entries with equal nonce and price; with "hash determines content" (`hU`) it has no hash twice at all -/
theorem ListSorted.nodup {l : List Tx} (h : ListSorted l) : l.Nodup :=
  List.Pairwise.imp (fun {a b} hab => listLt_ne a b hab) h

/-- the stronger form: no two entries share the key triple (nonce, gas price, hash) -/
theorem ListSorted.keyNodup {l : List Tx} (h : ListSorted l) :
    l.Pairwise (fun a b => ¬ (a.nonce = b.nonce ∧ a.gasPrice = b.gasPrice ∧ a.hash = b.hash)) :=
  List.Pairwise.imp (fun {a b} hab => listLt_key_ne a b hab) h

theorem ListSorted.nonceSorted {l : List Tx} (h : ListSorted l) : l.Pairwise (fun a b => a.nonce ≤ b.nonce) :=
  List.Pairwise.imp (fun {a b} hab => listLt_nonce_le a b hab) h

theorem ListSorted.sublist {l l' : List Tx} (h : ListSorted l) (hs : l'.Sublist l) : ListSorted l' :=
  List.Pairwise.sublist hs h

/-! ### insertion -/

theorem orderedInsert_perm (t : Tx) (l : List Tx) : (orderedInsert t l).Perm (t :: l) := by
  induction l with
  | nil => exact List.Perm.refl _
  | cons c rest ih =>
    simp only [orderedInsert]
    split
    · exact List.Perm.refl _
    · exact ((List.Perm.cons c ih).trans (List.Perm.swap t c rest))

theorem mem_orderedInsert (t x : Tx) (l : List Tx) : x ∈ orderedInsert t l ↔ x = t ∨ x ∈ l := by
  rw [(orderedInsert_perm t l).mem_iff, List.mem_cons]

/-- `t` goes to the very end when nothing in the list has to come after it -/
theorem orderedInsert_eq_append (t : Tx) (l : List Tx) (h : ∀ x ∈ l, listLt t x = false) :
    orderedInsert t l = l ++ [t] := by
  induction l with
  | nil => rfl
  | cons c rest ih =>
    have hc : listLt t c = false := h c (List.mem_cons_self ..)
    simp only [orderedInsert, hc, List.cons_append]
    rw [ih (fun x hx => h x (List.mem_cons_of_mem _ hx))]
    simp

/-- an element that has to come after `t` at the end of the list does not matter for the insertion -/
theorem orderedInsert_concat_of_lt (t c : Tx) (xs : List Tx) (h : listLt t c = true) :
    orderedInsert t (xs ++ [c]) = orderedInsert t xs ++ [c] := by
  induction xs with
  | nil => simp [orderedInsert, h]
  | cons x xs ih =>
    simp only [List.cons_append, orderedInsert]
    split
    · rfl
    · rw [ih]; rfl

/-- one step of the back-to-front scan, in terms of the order -/
theorem insertRev_cons (t c : Tx) (rest : List Tx) :
    insertRev t (c :: rest) =
      if listLt c t = true then some (t :: c :: rest)
      else if (c.nonce = t.nonce ∧ c.gasPrice = t.gasPrice ∧ c.hash = t.hash) then none
      else (insertRev t rest).map (c :: ·) := by
  simp only [insertRev, listLt_iff]
  by_cases c1 : c.nonce = t.nonce
  · simp only [c1, if_true, Nat.lt_irrefl, false_or, true_and]
    by_cases c2 : c.gasPrice > t.gasPrice
    · simp [c2]
    · simp only [c2, if_false, false_or]
      by_cases c3 : c.gasPrice = t.gasPrice
      · simp only [c3, if_true, true_and]
        by_cases c4 : c.hash = t.hash
        · simp [c4, bytesLt_irrefl]
        · simp only [c4, if_false]
      · simp [c3]
  · simp only [c1, if_false, false_and, or_false]

theorem insertRev_spec (t : Tx) : ∀ (r : List Tx), ListSorted r.reverse →
    (insertRev t r).map List.reverse =
      if (∃ c ∈ r.reverse, c.nonce = t.nonce ∧ c.gasPrice = t.gasPrice ∧ c.hash = t.hash) then none
      else some (orderedInsert t r.reverse)
  | [], _ => by simp [insertRev, orderedInsert]
  | c :: rest, hs => by
    rw [List.reverse_cons] at hs ⊢
    have hs' := List.pairwise_append.mp hs
    obtain ⟨hsx, -, hxc⟩ := hs'
    have hxc' : ∀ x ∈ rest.reverse, listLt x c = true := fun x hx => hxc x hx c (List.mem_singleton.mpr rfl)
    rw [insertRev_cons]
    by_cases h1 : listLt c t = true
    · -- everything is below `t`
      have hall : ∀ x ∈ rest.reverse ++ [c], listLt x t = true := by
        intro x hx
        rcases List.mem_append.mp hx with hx | hx
        · exact listLt_trans _ _ _ (hxc' x hx) h1
        · rw [List.mem_singleton.mp hx]; exact h1
      have hno : ¬ ∃ c' ∈ rest.reverse ++ [c], c'.nonce = t.nonce ∧ c'.gasPrice = t.gasPrice ∧ c'.hash = t.hash := by
        rintro ⟨c', hc', hk⟩
        exact listLt_key_ne _ _ (hall c' hc') hk
      rw [if_pos h1, if_neg hno, orderedInsert_eq_append t _ (fun x hx => listLt_asymm _ _ (hall x hx))]
      simp
    · rw [if_neg h1]
      by_cases h2 : (c.nonce = t.nonce ∧ c.gasPrice = t.gasPrice ∧ c.hash = t.hash)
      · have hex : ∃ c' ∈ rest.reverse ++ [c], c'.nonce = t.nonce ∧ c'.gasPrice = t.gasPrice ∧ c'.hash = t.hash :=
          ⟨c, by simp, h2⟩
        rw [if_pos h2, if_pos hex]; rfl
      · rw [if_neg h2]
        have h3 : listLt t c = true := by
          rcases listLt_total c t h2 with h | h
          · exact absurd h h1
          · exact h
        have ih := insertRev_spec t rest hsx
        have hmap : (Option.map (fun x => c :: x) (insertRev t rest)).map List.reverse
            = ((insertRev t rest).map List.reverse).map (· ++ [c]) := by
          cases insertRev t rest <;> simp
        rw [hmap, ih, orderedInsert_concat_of_lt t c _ h3]
        have hiff : (∃ c' ∈ rest.reverse ++ [c], c'.nonce = t.nonce ∧ c'.gasPrice = t.gasPrice ∧ c'.hash = t.hash)
            ↔ (∃ c' ∈ rest.reverse, c'.nonce = t.nonce ∧ c'.gasPrice = t.gasPrice ∧ c'.hash = t.hash) := by
          constructor
          · rintro ⟨c', hc', hk⟩
            rcases List.mem_append.mp hc' with hc' | hc'
            · exact ⟨c', hc', hk⟩
            · rw [List.mem_singleton.mp hc'] at hk; exact absurd hk h2
          · rintro ⟨c', hc', hk⟩
            exact ⟨c', List.mem_append_left _ hc', hk⟩
        by_cases h4 : ∃ c' ∈ rest.reverse, c'.nonce = t.nonce ∧ c'.gasPrice = t.gasPrice ∧ c'.hash = t.hash
        · rw [if_pos h4, if_pos (hiff.mpr h4)]; rfl
        · rw [if_neg h4, if_neg (fun h => h4 (hiff.mp h))]; rfl

/-- the back-to-front insertion of the code is the reference ordered insertion; it refuses exactly the duplicates
    (same nonce, same gas price, same hash) -/
theorem insertTx_eq_orderedInsert (t : Tx) (l : List Tx) (hs : ListSorted l) :
    insertTx t l =
      if (∃ c ∈ l, c.nonce = t.nonce ∧ c.gasPrice = t.gasPrice ∧ c.hash = t.hash) then none
      else some (orderedInsert t l) := by
  have h := insertRev_spec t l.reverse (by rw [List.reverse_reverse]; exact hs)
  rw [List.reverse_reverse] at h
  exact h

theorem orderedInsert_sorted (t : Tx) (l : List Tx) (hs : ListSorted l)
    (hn : ¬ ∃ c ∈ l, c.nonce = t.nonce ∧ c.gasPrice = t.gasPrice ∧ c.hash = t.hash) :
    ListSorted (orderedInsert t l) := by
  induction l with
  | nil => simp [orderedInsert, ListSorted]
  | cons c rest ih =>
    unfold ListSorted at hs
    rw [List.pairwise_cons] at hs
    obtain ⟨hc, hrest⟩ := hs
    simp only [orderedInsert]
    split
    · next h1 =>
      unfold ListSorted
      refine List.pairwise_cons.mpr ⟨?_, List.pairwise_cons.mpr ⟨hc, hrest⟩⟩
      intro x hx
      rcases List.mem_cons.mp hx with hx | hx
      · rw [hx]; exact h1
      · exact listLt_trans _ _ _ h1 (hc x hx)
    · next h1 =>
      have hck : ¬ (c.nonce = t.nonce ∧ c.gasPrice = t.gasPrice ∧ c.hash = t.hash) :=
        fun hk => hn ⟨c, List.mem_cons_self .., hk⟩
      have h2 : listLt c t = true := by
        rcases listLt_total c t hck with h | h
        · exact h
        · exact absurd h h1
      have ih' := ih hrest (fun ⟨c', hc', hk⟩ => hn ⟨c', List.mem_cons_of_mem _ hc', hk⟩)
      unfold ListSorted
      refine List.pairwise_cons.mpr ⟨?_, ih'⟩
      intro x hx
      rcases (mem_orderedInsert t x rest).mp hx with hx | hx
      · rw [hx]; exact h2
      · exact hc x hx

/-! ### trimming -/

/-- per-sender trimming as coded (`trim1`): at most ONE transaction, the highest-ordered, is dropped, and only if the list is over a limit -/
theorem trim1_spec (cfg : Config) (l : List Tx) :
    trim1 cfg l = if senderExceeded cfg l then (l.dropLast, (l.getLast?).toList) else (l, []) := by
  unfold trim1
  split
  · obtain ⟨r, rfl⟩ : ∃ r, l = r.reverse := ⟨l.reverse, (List.reverse_reverse l).symm⟩
    rw [List.reverse_reverse]
    cases r with
    | nil => rfl
    | cons last ri =>
      simp only [List.reverse_cons, List.dropLast_concat, List.getLast?_concat, Option.toList]
  · rfl

theorem trim1_fst (cfg : Config) (l : List Tx) :
    (trim1 cfg l).1 = if senderExceeded cfg l then l.dropLast else l := by
  rw [trim1_spec]; split <;> rfl

/-- count limit: one in, at most one out (needs countPerSender ≥ 1 as enforced by the constructor) -/
theorem trim1_count (cfg : Config) (l : List Tx) (hc : l.length ≤ cfg.countPerSender + 1) :
    (trim1 cfg l).1.length ≤ cfg.countPerSender ∨ (trim1 cfg l).1.length = l.length - 1 := by
  have _ := hc   -- (not needed: an un-exceeded list is within the count limit by definition)
  rw [trim1_fst]
  split
  · right; exact List.length_dropLast
  · next h =>
    left
    simp only [senderExceeded, Bool.or_eq_true, decide_eq_true_eq, not_or] at h
    omega

theorem trimAll_of_not_exceeded (cfg : Config) (n : Nat) (l : List Tx) (h : senderExceeded cfg l = false) :
    trimAll cfg n l = l := by
  cases n with
  | zero => rfl
  | succ n => simp [trimAll, h]

/-- byte limit (PARTIAL, finding F3): when dropping the last element suffices, the coded trim agrees with the reference trim -/
theorem trim1_eq_trimAll_of_one_suffices (cfg : Config) (l : List Tx)
    (h : senderExceeded cfg l.dropLast = false) : (trim1 cfg l).1 = trimAll cfg (l.length + 1) l := by
  rw [trim1_fst]
  simp only [trimAll]
  split
  · rw [trimAll_of_not_exceeded cfg _ _ h]
  · rfl

/-- …and when it does not suffice the coded trim leaves the list over its limit: the deviation is real -/
theorem trim1_incomplete_example :
    ∃ (cfg : Config) (l : List Tx), senderExceeded cfg (trim1 cfg l).1 = true ∧ (trim1 cfg l).1 ≠ trimAll cfg (l.length + 1) l := by
  refine ⟨⟨true, 1000, 100, 1000, 10, 1⟩,
    [⟨[1], [7], 1, 5, 1, 60, 0, 0, []⟩, ⟨[2], [7], 2, 5, 1, 60, 0, 0, []⟩, ⟨[3], [7], 3, 5, 1, 60, 0, 0, []⟩], ?_, ?_⟩
  · decide
  · decide

theorem trim1_sorted (cfg : Config) (l : List Tx) (hs : ListSorted l) : ListSorted (trim1 cfg l).1 := by
  rw [trim1_fst]
  split
  · exact hs.sublist (List.dropLast_sublist l)
  · exact hs

/-! ### removal helpers -/

/-- removal by nonce (RemoveTxByHash): on a nonce-sorted list exactly the transactions with nonce ≤ n go -/
theorem dropLowerOrEqual_eq_filter (n : Nat) (l : List Tx) (hs : l.Pairwise (fun a b => a.nonce ≤ b.nonce)) :
    dropLowerOrEqual n l = l.filter (fun t => decide (t.nonce > n)) := by
  induction l with
  | nil => rfl
  | cons c rest ih =>
    rw [List.pairwise_cons] at hs
    obtain ⟨hc, hrest⟩ := hs
    simp only [dropLowerOrEqual]
    split
    · next h =>
      symm
      rw [List.filter_eq_self]
      intro a ha
      rcases List.mem_cons.mp ha with ha | ha
      · rw [ha]; simpa using h
      · have := hc a ha
        simp only [decide_eq_true_eq]; omega
    · next h =>
      rw [ih hrest, List.filter_cons_of_neg (by simpa using h)]

theorem dropLowerOrEqual_suffix (n : Nat) (l : List Tx) : ∃ pre, l = pre ++ dropLowerOrEqual n l ∧ ∀ t ∈ pre, t.nonce ≤ n := by
  induction l with
  | nil => exact ⟨[], rfl, by simp⟩
  | cons c rest ih =>
    simp only [dropLowerOrEqual]
    split
    · exact ⟨[], rfl, by simp⟩
    · next h =>
      obtain ⟨pre, hpre, hle⟩ := ih
      refine ⟨c :: pre, by rw [List.cons_append, ← hpre], ?_⟩
      intro t ht
      rcases List.mem_cons.mp ht with ht | ht
      · rw [ht]; omega
      · exact hle t ht

theorem dropHigherRev_spec (n : Nat) : ∀ (r : List Tx), r.reverse.Pairwise (fun a b => a.nonce ≤ b.nonce) →
    (dropHigherRev n r).reverse = r.reverse.filter (fun t => decide (t.nonce < n))
  | [], _ => rfl
  | c :: rest, hs => by
    simp only [dropHigherRev]
    split
    · next h =>
      symm
      rw [List.filter_eq_self]
      intro a ha
      rw [List.reverse_cons] at hs ha
      obtain ⟨-, -, hxc⟩ := List.pairwise_append.mp hs
      simp only [decide_eq_true_eq]
      rcases List.mem_append.mp ha with ha | ha
      · have := hxc a ha c (List.mem_singleton.mpr rfl); omega
      · rw [List.mem_singleton.mp ha]; exact h
    · next h =>
      rw [List.reverse_cons] at hs ⊢
      obtain ⟨hsx, -, -⟩ := List.pairwise_append.mp hs
      rw [dropHigherRev_spec n rest hsx, List.filter_append, List.filter_cons_of_neg (by simpa using h)]
      simp

/-- eviction helper: on a nonce-sorted list exactly the transactions with nonce < n stay, and they form a prefix -/
theorem keepLower_eq_filter (n : Nat) (l : List Tx) (hs : l.Pairwise (fun a b => a.nonce ≤ b.nonce)) :
    keepLower n l = l.filter (fun t => decide (t.nonce < n)) := by
  have h := dropHigherRev_spec n l.reverse (by rw [List.reverse_reverse]; exact hs)
  rw [List.reverse_reverse] at h
  exact h

theorem dropHigherRev_suffix (n : Nat) (r : List Tx) :
    ∃ pre, r = pre ++ dropHigherRev n r ∧ ∀ t ∈ pre, ¬ t.nonce < n := by
  induction r with
  | nil => exact ⟨[], rfl, by simp⟩
  | cons c rest ih =>
    simp only [dropHigherRev]
    split
    · exact ⟨[], rfl, by simp⟩
    · next h =>
      obtain ⟨pre, hpre, hge⟩ := ih
      refine ⟨c :: pre, by rw [List.cons_append, ← hpre], ?_⟩
      intro t ht
      rcases List.mem_cons.mp ht with ht | ht
      · rw [ht]; exact h
      · exact hge t ht

/-- the stronger form of `keepLower_prefix`: EVERY removed transaction has nonce ≥ n -/
theorem keepLower_prefix_all (n : Nat) (l : List Tx) :
    ∃ suf, l = keepLower n l ++ suf ∧ ∀ t ∈ suf, ¬ t.nonce < n := by
  obtain ⟨pre, hpre, hge⟩ := dropHigherRev_suffix n l.reverse
  refine ⟨pre.reverse, ?_, fun t ht => hge t (List.mem_reverse.mp ht)⟩
  unfold keepLower
  rw [← List.reverse_append, ← hpre, List.reverse_reverse]

theorem keepLower_prefix (n : Nat) (l : List Tx) : ∃ suf, l = keepLower n l ++ suf ∧ (∀ t ∈ suf, ¬ t.nonce < n → True) ∧
    (suf ≠ [] → ∀ t, suf.head? = some t → ¬ t.nonce < n) := by
  obtain ⟨suf, hl, hge⟩ := keepLower_prefix_all n l
  refine ⟨suf, hl, fun _ _ _ => trivial, ?_⟩
  intro _ t ht
  exact hge t (List.mem_of_mem_head? (by rw [ht]; exact rfl))

end SV.TxCache
