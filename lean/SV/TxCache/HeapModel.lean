/-
  SV.TxCache.HeapModel — justification of the `popBy` abstraction of Model.lean.

  A functional model of Go's `container/heap` (binary heap in a slice: children of `i` at `2i+1`, `2i+2`;
  `up`, `down`, `Push`, `Pop` transcribed from the Go source, loops by fuel) over an arbitrary element type with a
  comparison `less` ("`less a b`" = `a` must come out before `b`).

  * `HeapInv` is preserved by `push` and `pop`; both keep the content up to permutation; `pop` returns the root,
    which no remaining element beats (and which beats every remaining element when the content has no duplicates).
  * for `less a b := better a.cur b.cur` on `HItem`s with pairwise distinct `cur.hash`, `pop` returns exactly the item
    that `popBy better` returns on any list holding the same content, and the remainders are permutations.
  * `selectLoopHeap` (the selection loop threading the real heap) computes the same result as `selectLoop` with
    `popBest`.
-/
import SV.TxCache.OrderProofs
import SV.TxCache.SelOrderProofs
namespace SV.TxCache.Heap

variable {α : Type}

/-! ### the order hypotheses -/

/-- `less` is a strict order which is total on the (distinct) elements satisfying `S` -/
structure StrictTotal (less : α → α → Bool) (S : α → Prop) : Prop where
  irrefl : ∀ a, less a a = false
  trans : ∀ a b c, less a b = true → less b c = true → less a c = true
  total : ∀ a b, S a → S b → a ≠ b → less a b = true ∨ less b a = true

theorem StrictTotal.asymm {less : α → α → Bool} {S : α → Prop} (ho : StrictTotal less S) {a b : α}
    (h : less a b = true) : less b a = false := by
  cases hb : less b a with
  | false => rfl
  | true =>
    have := ho.trans a b a h hb
    rw [ho.irrefl] at this
    exact absurd this (by decide)

/-- "not beaten by" is transitive on the elements of `S` -/
theorem StrictTotal.ntrans {less : α → α → Bool} {S : α → Prop} (ho : StrictTotal less S) {x y z : α}
    (hx : S x) (hy : S y) (hz : S z) (h1 : less x y = false) (h2 : less y z = false) : less x z = false := by
  by_cases e1 : x = y
  · subst e1; exact h2
  · by_cases e2 : y = z
    · subst e2; exact h1
    · have h3 : less y x = true := by
        rcases ho.total x y hx hy e1 with h | h
        · rw [h1] at h; exact absurd h (by decide)
        · exact h
      have h4 : less z y = true := by
        rcases ho.total y z hy hz e2 with h | h
        · rw [h2] at h; exact absurd h (by decide)
        · exact h
      exact ho.asymm (ho.trans z y x h4 h3)

theorem StrictTotal.mono {less : α → α → Bool} {S S' : α → Prop} (ho : StrictTotal less S)
    (h : ∀ x, S' x → S x) : StrictTotal less S' :=
  ⟨ho.irrefl, ho.trans, fun a b ha hb => ho.total a b (h a ha) (h b hb)⟩

/-! ### the slice and the `heap.Interface` methods `Less(j, i)`, `Swap(i, j)` -/

/-- `h.Less(j, i)` (false outside the slice, where Go would panic; never reached by `up`/`down`) -/
def lessAt (less : α → α → Bool) (a : Array α) (j i : Nat) : Bool :=
  match a[j]?, a[i]? with
  | some x, some y => less x y
  | _, _ => false

/-- index `c` is a child of index `p` -/
def child (p c : Nat) : Prop := c = 2 * p + 1 ∨ c = 2 * p + 2

/-- the transposition of `i` and `j` -/
def tr (i j k : Nat) : Nat := if k = i then j else if k = j then i else k

theorem tr_left (i j : Nat) : tr i j i = j := by simp [tr]
theorem tr_right (i j : Nat) : tr i j j = i := by
  unfold tr
  split
  · rename_i h; exact h
  · simp
theorem tr_ne {i j k : Nat} (h1 : k ≠ i) (h2 : k ≠ j) : tr i j k = k := by simp [tr, h1, h2]

theorem getElem?_swap (a : Array α) {i j : Nat} (k : Nat) (hi : i < a.size) (hj : j < a.size) :
    (a.swapIfInBounds i j)[k]? = a[tr i j k]? := by
  rw [Array.swapIfInBounds_def, dif_pos hi, dif_pos hj, Array.getElem?_swap]
  unfold tr
  by_cases h1 : k = i
  · subst h1
    by_cases h2 : j = k
    · subst h2; simp
    · simp [h2, hj]
  · by_cases h2 : k = j
    · subst h2; simp [h1, hi]
    · have h1' : ¬ i = k := fun e => h1 e.symm
      have h2' : ¬ j = k := fun e => h2 e.symm
      simp [h1, h2, h1', h2']

theorem swap_perm (a : Array α) (i j : Nat) : (a.swapIfInBounds i j).toList.Perm a.toList := by
  rw [Array.swapIfInBounds_def]
  split
  · split
    · exact Array.perm_iff_toList_perm.mp (Array.swap_perm _ _)
    · exact List.Perm.refl _
  · exact List.Perm.refl _

theorem lessAt_swap (less : α → α → Bool) (a : Array α) {i j : Nat} (hi : i < a.size) (hj : j < a.size) (c p : Nat) :
    lessAt less (a.swapIfInBounds i j) c p = lessAt less a (tr i j c) (tr i j p) := by
  unfold lessAt
  rw [getElem?_swap a c hi hj, getElem?_swap a p hi hj]

theorem lessAt_bounds {less : α → α → Bool} {a : Array α} {j i : Nat} (h : lessAt less a j i = true) :
    j < a.size ∧ i < a.size := by
  unfold lessAt at h
  split at h
  · rename_i x y h1 h2
    exact ⟨(Array.getElem?_eq_some_iff.mp h1).1, (Array.getElem?_eq_some_iff.mp h2).1⟩
  · exact absurd h (by decide)

theorem lessAt_oob_left {less : α → α → Bool} {a : Array α} {j i : Nat} (h : a.size ≤ j) : lessAt less a j i = false := by
  cases e : lessAt less a j i with
  | false => rfl
  | true => have := (lessAt_bounds e).1; omega

theorem lessAt_eq {less : α → α → Bool} {a : Array α} {j i : Nat} {x y : α} (hj : a[j]? = some x) (hi : a[i]? = some y) :
    lessAt less a j i = less x y := by
  unfold lessAt
  rw [hj, hi]

section order
variable {less : α → α → Bool} {S : α → Prop}

theorem lessAt_irrefl (ho : StrictTotal less S) (a : Array α) (i : Nat) : lessAt less a i i = false := by
  unfold lessAt
  cases a[i]? with
  | none => rfl
  | some x => exact ho.irrefl x

theorem lessAt_trans (ho : StrictTotal less S) (a : Array α) {i j k : Nat}
    (h1 : lessAt less a i j = true) (h2 : lessAt less a j k = true) : lessAt less a i k = true := by
  unfold lessAt at *
  cases hi : a[i]? with
  | none => simp [hi] at h1
  | some x =>
    cases hj : a[j]? with
    | none => simp [hj] at h2
    | some y =>
      cases hk : a[k]? with
      | none => simp [hj, hk] at h2
      | some z =>
        simp only [hi, hj, hk] at h1 h2 ⊢
        exact ho.trans x y z h1 h2

theorem lessAt_asymm (ho : StrictTotal less S) (a : Array α) {i j : Nat}
    (h : lessAt less a i j = true) : lessAt less a j i = false := by
  cases e : lessAt less a j i with
  | false => rfl
  | true =>
    have := lessAt_trans ho a h e
    rw [lessAt_irrefl ho] at this
    exact absurd this (by decide)

theorem lessAt_ntrans (ho : StrictTotal less S) {a : Array α} (hS : ∀ x ∈ a.toList, S x) {i j k : Nat} (hj : j < a.size)
    (h1 : lessAt less a i j = false) (h2 : lessAt less a j k = false) : lessAt less a i k = false := by
  have hm : ∀ (n : Nat) (x : α), a[n]? = some x → S x := fun n x e =>
    hS x (Array.mem_toList_iff.mpr (Array.mem_of_getElem? e))
  unfold lessAt at *
  cases hi : a[i]? with
  | none => rfl
  | some x =>
    cases hk : a[k]? with
    | none => rfl
    | some z =>
      have hjy : a[j]? = some a[j] := Array.getElem?_eq_getElem hj
      simp only [hi, hjy, hk] at h1 h2 ⊢
      exact ho.ntrans (hm i x hi) (hm j _ hjy) (hm k z hk) h1 h2

end order

/-! ### `up`, `down`, `Push`, `Pop` (container/heap) -/

/-- `up(h, j)`; `(j-1)/2 == j` happens exactly for `j = 0` (Go's division truncates towards zero) -/
def up (less : α → α → Bool) : Nat → Array α → Nat → Array α
  | 0, a, _ => a
  | fuel + 1, a, j =>
    if j = 0 then a
    else if lessAt less a j ((j - 1) / 2) then up less fuel (a.swapIfInBounds ((j - 1) / 2) j) ((j - 1) / 2)
    else a

/-- `j := j1; if j2 := j1 + 1; j2 < n && h.Less(j2, j1) { j = j2 }` -/
def minChild (less : α → α → Bool) (n : Nat) (a : Array α) (i : Nat) : Nat :=
  if 2 * i + 2 < n && lessAt less a (2 * i + 2) (2 * i + 1) then 2 * i + 2 else 2 * i + 1

/-- `down(h, i, n)` (the boolean result is used only by `heap.Fix`/`heap.Remove` and is not modelled) -/
def down (less : α → α → Bool) (n : Nat) : Nat → Array α → Nat → Array α
  | 0, a, _ => a
  | fuel + 1, a, i =>
    if 2 * i + 1 ≥ n then a
    else if lessAt less a (minChild less n a i) i then
      down less n fuel (a.swapIfInBounds i (minChild less n a i)) (minChild less n a i)
    else a

/-- `heap.Push`: append, then `up(h, h.Len()-1)` -/
def push (less : α → α → Bool) (a : Array α) (x : α) : Array α := up less a.size (a.push x) a.size

/-- the slice after `h.Swap(0, n); down(h, 0, n)` with `n = h.Len() - 1` -/
def popArr (less : α → α → Bool) (a : Array α) : Array α :=
  down less (a.size - 1) (a.size - 1) (a.swapIfInBounds 0 (a.size - 1)) 0

/-- `heap.Pop`: `n := h.Len()-1; h.Swap(0, n); down(h, 0, n); return h.Pop()` (`none`: empty heap, where Go panics) -/
def pop (less : α → α → Bool) (a : Array α) : Option (α × Array α) :=
  if a.size = 0 then none
  else (popArr less a).back?.map (fun x => (x, (popArr less a).pop))

/-! ### the heap invariant -/

/-- among the first `n` positions no child beats its parent -/
def HeapUpto (less : α → α → Bool) (a : Array α) (n : Nat) : Prop :=
  ∀ p c, c < n → child p c → lessAt less a c p = false

/-- no child beats its parent -/
def HeapInv (less : α → α → Bool) (a : Array α) : Prop :=
  ∀ p c, child p c → lessAt less a c p = false

/-- `HeapInv` spelled out on the elements -/
theorem heapInv_iff (less : α → α → Bool) (a : Array α) :
    HeapInv less a ↔
      ∀ (p c : Nat) (hp : p < a.size) (hc : c < a.size), (c = 2 * p + 1 ∨ c = 2 * p + 2) → less a[c] a[p] = false := by
  constructor
  · intro h p c hp hc hpc
    have := h p c hpc
    rw [lessAt_eq (Array.getElem?_eq_getElem hc) (Array.getElem?_eq_getElem hp)] at this
    exact this
  · intro h p c hpc
    by_cases hc : c < a.size
    · have hp : p < a.size := by simp only [child] at hpc; omega
      rw [lessAt_eq (Array.getElem?_eq_getElem hc) (Array.getElem?_eq_getElem hp)]
      exact h p c hp hc hpc
    · exact lessAt_oob_left (by omega)

theorem HeapInv.of_upto {less : α → α → Bool} {a : Array α} (h : HeapUpto less a a.size) : HeapInv less a := by
  intro p c hpc
  by_cases hc : c < a.size
  · exact h p c hc hpc
  · exact lessAt_oob_left (by omega)

theorem heapInv_empty (less : α → α → Bool) : HeapInv less (#[] : Array α) := by
  intro p c _
  exact lessAt_oob_left (by simp)

section proofs
variable {less : α → α → Bool} {S : α → Prop}

/-! ### `down` -/

/-- the invariant of the `down` loop: the heap property may fail only between `i` and its children, and the children of
    `i` are not better than the parent of `i` -/
structure DownInv (less : α → α → Bool) (a : Array α) (n i : Nat) : Prop where
  other : ∀ p c, c < n → child p c → p ≠ i → lessAt less a c p = false
  grand : ∀ g c, child g i → child i c → c < n → lessAt less a c g = false

theorem minChild_spec (ho : StrictTotal less S) (a : Array α) (n i : Nat) (h : 2 * i + 1 < n) :
    child i (minChild less n a i) ∧ minChild less n a i < n ∧
      ∀ o, child i o → o < n → lessAt less a o (minChild less n a i) = false := by
  unfold minChild
  split
  · rename_i hc
    simp only [Bool.and_eq_true, decide_eq_true_eq] at hc
    refine ⟨Or.inr rfl, hc.1, ?_⟩
    intro o ho' hon
    rcases ho' with e | e
    · subst e; exact lessAt_asymm ho a hc.2
    · subst e; exact lessAt_irrefl ho a _
  · rename_i hc
    simp only [Bool.and_eq_true, decide_eq_true_eq, not_and, Bool.not_eq_true] at hc
    refine ⟨Or.inl rfl, h, ?_⟩
    intro o ho' hon
    rcases ho' with e | e
    · subst e; exact lessAt_irrefl ho a _
    · subst e; exact hc hon

theorem DownInv.leaf {a : Array α} {n i : Nat} (hinv : DownInv less a n i) (h : n ≤ 2 * i + 1) : HeapUpto less a n := by
  intro p c hc hpc
  apply hinv.other p c hc hpc
  intro e
  subst e
  simp only [child] at hpc
  omega

theorem DownInv.stop (ho : StrictTotal less S) {a : Array α} (hS : ∀ x ∈ a.toList, S x) {n i : Nat} (hn : n ≤ a.size)
    (hinv : DownInv less a n i) (h1 : 2 * i + 1 < n) (hlt : lessAt less a (minChild less n a i) i = false) :
    HeapUpto less a n := by
  obtain ⟨_, hjn, hmin⟩ := minChild_spec ho a n i h1
  intro p c hc hpc
  by_cases e : p = i
  · subst e
    exact lessAt_ntrans ho hS (by omega) (hmin c hpc hc) hlt
  · exact hinv.other p c hc hpc e

theorem DownInv.step (ho : StrictTotal less S) {a : Array α} {n i : Nat} (hn : n ≤ a.size)
    (hinv : DownInv less a n i) (h1 : 2 * i + 1 < n) (hlt : lessAt less a (minChild less n a i) i = true) :
    DownInv less (a.swapIfInBounds i (minChild less n a i)) n (minChild less n a i) := by
  obtain ⟨hc, hjn, hmin⟩ := minChild_spec ho a n i h1
  generalize minChild less n a i = j at *
  have hi : i < a.size := by simp only [child] at hc; omega
  have hj : j < a.size := by omega
  constructor
  · intro p c hcn hpc hpj
    rw [lessAt_swap less a hi hj]
    by_cases hpi : p = i
    · subst hpi
      rw [tr_left]
      by_cases hcj : c = j
      · subst hcj; rw [tr_right]; exact lessAt_asymm ho a hlt
      · rw [tr_ne (by simp only [child] at hpc; omega) hcj]; exact hmin c hpc hcn
    · rw [tr_ne hpi hpj]
      have hcj : c ≠ j := by simp only [child] at hpc hc; omega
      by_cases hci : c = i
      · subst hci; rw [tr_left]; exact hinv.grand p j hpc hc hjn
      · rw [tr_ne hci hcj]; exact hinv.other p c hcn hpc hpi
  · intro g c hgj hjc hcn
    have hgi : g = i := by simp only [child] at hgj hc; omega
    subst hgi
    have hcg : c ≠ g := by simp only [child] at hjc hc; omega
    have hcj : c ≠ j := by simp only [child] at hjc; omega
    rw [lessAt_swap less a hi hj, tr_left, tr_ne hcg hcj]
    exact hinv.other j c hcn hjc (by simp only [child] at hc; omega)

theorem down_size (n : Nat) : ∀ (fuel : Nat) (a : Array α) (i : Nat), (down less n fuel a i).size = a.size
  | 0, a, i => rfl
  | fuel + 1, a, i => by
    unfold down
    split
    · rfl
    · split
      · rw [down_size n fuel]; exact Array.size_swapIfInBounds
      · rfl

theorem down_perm (n : Nat) : ∀ (fuel : Nat) (a : Array α) (i : Nat), (down less n fuel a i).toList.Perm a.toList
  | 0, a, i => List.Perm.refl _
  | fuel + 1, a, i => by
    unfold down
    split
    · exact List.Perm.refl _
    · split
      · exact (down_perm n fuel _ _).trans (swap_perm a _ _)
      · exact List.Perm.refl _

/-- `down(h, i, n)` does not touch the positions `≥ n` -/
theorem down_getElem?_ge (ho : StrictTotal less S) (n : Nat) : ∀ (fuel : Nat) (a : Array α) (i : Nat), n ≤ a.size →
    ∀ k, n ≤ k → (down less n fuel a i)[k]? = a[k]?
  | 0, a, i, _, k, _ => rfl
  | fuel + 1, a, i, hn, k, hk => by
    unfold down
    split
    · rfl
    · split
      · rename_i h1 _
        obtain ⟨hc, hjn, _⟩ := minChild_spec ho a n i (by omega)
        have hi : i < a.size := by simp only [child] at hc; omega
        rw [down_getElem?_ge ho n fuel _ _ (by rw [Array.size_swapIfInBounds]; exact hn) k hk,
          getElem?_swap a k hi (by omega), tr_ne (by simp only [child] at hc; omega) (by omega)]
      · rfl

theorem down_heap (ho : StrictTotal less S) (n : Nat) : ∀ (fuel : Nat) (a : Array α) (i : Nat), n ≤ a.size →
    (∀ x ∈ a.toList, S x) → n ≤ i + fuel → DownInv less a n i → HeapUpto less (down less n fuel a i) n
  | 0, a, i, _, _, hf, hinv => by
    unfold down
    exact hinv.leaf (by omega)
  | fuel + 1, a, i, hn, hS, hf, hinv => by
    unfold down
    split
    · rename_i h1
      exact hinv.leaf h1
    · rename_i h1
      have h1 : 2 * i + 1 < n := by omega
      split
      · rename_i hlt
        have hc := (minChild_spec ho a n i h1).1
        apply down_heap ho n fuel
        · rw [Array.size_swapIfInBounds]; exact hn
        · intro x hx; exact hS x ((swap_perm a _ _).mem_iff.mp hx)
        · simp only [child] at hc; omega
        · exact hinv.step ho hn h1 hlt
      · rename_i hlt
        exact hinv.stop ho hS hn h1 (by simpa using hlt)

/-! ### `up` -/

/-- the invariant of the `up` loop: the heap property may fail only between `j` and its parent, and the children of
    `j` are not better than the parent of `j` -/
structure UpInv (less : α → α → Bool) (a : Array α) (j : Nat) : Prop where
  other : ∀ p c, child p c → c ≠ j → lessAt less a c p = false
  grand : ∀ g c, child g j → child j c → lessAt less a c g = false

theorem UpInv.root {a : Array α} (hinv : UpInv less a 0) : HeapInv less a := by
  intro p c hpc
  exact hinv.other p c hpc (by simp only [child] at hpc; omega)

theorem UpInv.stop {a : Array α} {j : Nat} (hinv : UpInv less a j) (hlt : lessAt less a j ((j - 1) / 2) = false) :
    HeapInv less a := by
  intro p c hpc
  by_cases e : c = j
  · subst e
    have : p = (c - 1) / 2 := by simp only [child] at hpc; omega
    subst this
    exact hlt
  · exact hinv.other p c hpc e

theorem UpInv.step (ho : StrictTotal less S) {a : Array α} (hS : ∀ x ∈ a.toList, S x) {j : Nat} (hj0 : j ≠ 0)
    (hinv : UpInv less a j) (hlt : lessAt less a j ((j - 1) / 2) = true) :
    UpInv less (a.swapIfInBounds ((j - 1) / 2) j) ((j - 1) / 2) := by
  have hc : child ((j - 1) / 2) j := by simp only [child]; omega
  generalize (j - 1) / 2 = i at *
  obtain ⟨hjs, his⟩ := lessAt_bounds hlt
  constructor
  · intro p c hpc hci
    rw [lessAt_swap less a his hjs]
    by_cases hcj : c = j
    · subst hcj
      have hpi : p = i := by simp only [child] at hpc hc; omega
      subst hpi
      rw [tr_right, tr_left]; exact lessAt_asymm ho a hlt
    · rw [tr_ne hci hcj]
      by_cases hpi : p = i
      · subst hpi
        rw [tr_left]
        cases h : lessAt less a c j with
        | false => rfl
        | true =>
          have := lessAt_trans ho a h hlt
          rw [hinv.other p c hpc hcj] at this
          exact absurd this (by decide)
      · by_cases hpj : p = j
        · subst hpj; rw [tr_right]; exact hinv.grand i c hc hpc
        · rw [tr_ne hpi hpj]; exact hinv.other p c hpc hcj
  · intro g c hgi hic
    have hg1 : g ≠ i := by simp only [child] at hgi; omega
    have hg2 : g ≠ j := by simp only [child] at hgi hc; omega
    rw [lessAt_swap less a his hjs, tr_ne hg1 hg2]
    have hig : lessAt less a i g = false := hinv.other g i hgi (by simp only [child] at hc; omega)
    by_cases hcj : c = j
    · subst hcj; rw [tr_right]; exact hig
    · have hci : c ≠ i := by simp only [child] at hic; omega
      rw [tr_ne hci hcj]
      exact lessAt_ntrans ho hS his (hinv.other i c hic hcj) hig

theorem up_perm : ∀ (fuel : Nat) (a : Array α) (j : Nat), (up less fuel a j).toList.Perm a.toList
  | 0, a, j => List.Perm.refl _
  | fuel + 1, a, j => by
    unfold up
    split
    · exact List.Perm.refl _
    · split
      · exact (up_perm fuel _ _).trans (swap_perm a _ _)
      · exact List.Perm.refl _

theorem up_heap (ho : StrictTotal less S) : ∀ (fuel : Nat) (a : Array α) (j : Nat),
    (∀ x ∈ a.toList, S x) → j ≤ fuel → UpInv less a j → HeapInv less (up less fuel a j)
  | 0, a, j, _, hf, hinv => by
    unfold up
    have : j = 0 := by omega
    subst this
    exact hinv.root
  | fuel + 1, a, j, hS, hf, hinv => by
    unfold up
    split
    · rename_i h0
      subst h0
      exact hinv.root
    · rename_i h0
      split
      · rename_i hlt
        apply up_heap ho fuel
        · intro x hx; exact hS x ((swap_perm a _ _).mem_iff.mp hx)
        · omega
        · exact hinv.step ho hS h0 hlt
      · rename_i hlt
        exact hinv.stop (by simpa using hlt)

/-! ### `heap.Push` -/

theorem push_perm (less : α → α → Bool) (a : Array α) (x : α) : (push less a x).toList.Perm (x :: a.toList) := by
  unfold push
  refine (up_perm _ _ _).trans ?_
  rw [Array.toList_push]
  exact List.perm_append_singleton x a.toList

theorem push_heap (ho : StrictTotal less S) (a : Array α) (x : α) (hS : ∀ y ∈ a.toList, S y) (hx : S x)
    (h : HeapInv less a) : HeapInv less (push less a x) := by
  unfold push
  apply up_heap ho
  · intro y hy
    rw [Array.toList_push] at hy
    rcases List.mem_append.mp hy with hy | hy
    · exact hS y hy
    · simp only [List.mem_singleton] at hy
      subst hy; exact hx
  · exact Nat.le_refl _
  · constructor
    · intro p c hpc hc
      by_cases hcs : c < a.size
      · have hps : p < a.size := by simp only [child] at hpc; omega
        have e1 : (a.push x)[c]? = a[c]? := by rw [Array.getElem?_push, if_neg (by omega)]
        have e2 : (a.push x)[p]? = a[p]? := by rw [Array.getElem?_push, if_neg (by omega)]
        have := h p c hpc
        unfold lessAt at this ⊢
        rw [e1, e2]; exact this
      · exact lessAt_oob_left (by rw [Array.size_push]; omega)
    · intro g c _ hjc
      exact lessAt_oob_left (by rw [Array.size_push]; simp only [child] at hjc; omega)

/-! ### `heap.Pop` -/

/-- in a heap nothing beats the root -/
theorem HeapInv.root_min (ho : StrictTotal less S) {a : Array α} (hS : ∀ x ∈ a.toList, S x) (h : HeapInv less a) :
    ∀ k, lessAt less a k 0 = false := by
  intro k
  induction k using Nat.strongRecOn with
  | ind k ih =>
    by_cases hk0 : k = 0
    · subst hk0; exact lessAt_irrefl ho a 0
    · by_cases hk : k < a.size
      · have hc : child ((k - 1) / 2) k := by simp only [child]; omega
        exact lessAt_ntrans ho hS (j := (k - 1) / 2) (by omega) (h _ _ hc) (ih _ (by omega))
      · exact lessAt_oob_left (by omega)

theorem toList_of_back? {a : Array α} {x : α} (h : a.back? = some x) : a.toList = a.pop.toList ++ [x] := by
  obtain ⟨ys, rfl⟩ := Array.back?_eq_some_iff.mp h
  rw [Array.pop_push, Array.toList_push]

/-- `heap.Pop` on a non-empty heap: returns the root `x` and a heap `r` with `x :: r` a permutation of the old
    content; no element of `r` beats `x` -/
theorem pop_spec (ho : StrictTotal less S) (a : Array α) (hS : ∀ x ∈ a.toList, S x) (hne : a.size ≠ 0)
    (h : HeapInv less a) :
    ∃ x r, pop less a = some (x, r) ∧ a[0]? = some x ∧ (x :: r.toList).Perm a.toList ∧ HeapInv less r ∧
      ∀ y ∈ r.toList, less y x = false := by
  have h0 : 0 < a.size := by omega
  have hn : a.size - 1 < a.size := by omega
  have hS1 : ∀ x ∈ (a.swapIfInBounds 0 (a.size - 1)).toList, S x :=
    fun x hx => hS x ((swap_perm a _ _).mem_iff.mp hx)
  have hsz1 : (a.swapIfInBounds 0 (a.size - 1)).size = a.size := Array.size_swapIfInBounds
  have hinv1 : DownInv less (a.swapIfInBounds 0 (a.size - 1)) (a.size - 1) 0 := by
    constructor
    · intro p c hc hpc hp0
      rw [lessAt_swap less a h0 hn, tr_ne (by simp only [child] at hpc; omega) (by omega),
        tr_ne hp0 (by simp only [child] at hpc; omega)]
      exact h p c hpc
    · intro g c hg
      simp only [child] at hg; omega
  have hheap : HeapUpto less (popArr less a) (a.size - 1) :=
    down_heap ho (a.size - 1) (a.size - 1) _ 0 (by omega) hS1 (by omega) hinv1
  have hsz : (popArr less a).size = a.size := by unfold popArr; rw [down_size]; exact hsz1
  have hperm : (popArr less a).toList.Perm a.toList := (down_perm _ _ _ _).trans (swap_perm a _ _)
  have hlast : (popArr less a)[a.size - 1]? = some a[0] := by
    unfold popArr
    rw [down_getElem?_ge ho _ _ _ _ (by omega) _ (Nat.le_refl _), getElem?_swap a _ h0 hn, tr_right]
    exact Array.getElem?_eq_getElem h0
  have hback : (popArr less a).back? = some a[0] := by
    rw [Array.back?_eq_getElem?, hsz]; exact hlast
  have hpermr : (a[0] :: (popArr less a).pop.toList).Perm a.toList := by
    refine List.Perm.trans ?_ hperm
    rw [toList_of_back? hback]
    exact (List.perm_append_singleton _ _).symm
  refine ⟨a[0], (popArr less a).pop, ?_, Array.getElem?_eq_getElem h0, hpermr, ?_, ?_⟩
  · unfold pop
    rw [if_neg hne, hback]; rfl
  · intro p c hpc
    by_cases hc : c < a.size - 1
    · have hp : p < a.size - 1 := by simp only [child] at hpc; omega
      have := hheap p c hc hpc
      unfold lessAt at this ⊢
      rw [Array.getElem?_pop, Array.getElem?_pop, hsz, if_pos hc, if_pos hp]
      exact this
    · exact lessAt_oob_left (by rw [Array.size_pop, hsz]; omega)
  · intro y hy
    have hya : y ∈ a.toList := hpermr.mem_iff.mp (List.mem_cons_of_mem _ hy)
    obtain ⟨k, hk⟩ := Array.mem_iff_getElem?.mp (Array.mem_toList_iff.mp hya)
    have := h.root_min ho hS k
    rw [lessAt_eq hk (Array.getElem?_eq_getElem h0)] at this
    exact this

theorem pop_none (less : α → α → Bool) (a : Array α) (h : a.size = 0) : pop less a = none := by
  unfold pop
  rw [if_pos h]

/-- without duplicates the popped element beats every remaining element -/
theorem pop_best (ho : StrictTotal less S) (a : Array α) (hS : ∀ x ∈ a.toList, S x) (hd : a.toList.Nodup)
    (h : HeapInv less a) (x : α) (r : Array α) (hp : pop less a = some (x, r)) :
    ∀ y ∈ r.toList, less x y = true := by
  have hne : a.size ≠ 0 := by
    intro e
    rw [pop_none less a e] at hp
    exact absurd hp (by simp)
  obtain ⟨x', r', hp', _, hperm, _, hmin⟩ := pop_spec ho a hS hne h
  rw [hp] at hp'
  simp only [Option.some.injEq, Prod.mk.injEq] at hp'
  obtain ⟨rfl, rfl⟩ := hp'
  intro y hy
  have hd' : (x :: r.toList).Nodup := hperm.nodup_iff.mpr hd
  have hne : x ≠ y := by
    intro e
    subst e
    exact (List.nodup_cons.mp hd').1 hy
  have hx : S x := hS x (hperm.mem_iff.mp List.mem_cons_self)
  have hy' : S y := hS y (hperm.mem_iff.mp (List.mem_cons_of_mem _ hy))
  rcases ho.total x y hx hy' hne with h1 | h1
  · exact h1
  · rw [hmin y hy] at h1
    exact absurd h1 (by decide)

end proofs

/-! ### the link to the model: `heap.Pop` returns what `popBy` returns -/

/-- the comparison of the transactions heap: items are compared by their current transaction -/
def lessH (better : Tx → Tx → Bool) (a b : HItem) : Bool := better a.cur b.cur

theorem nodup_map_inj {β γ : Type} (f : β → γ) : ∀ (l : List β), (l.map f).Nodup →
    ∀ a ∈ l, ∀ b ∈ l, f a = f b → a = b
  | [], _, a, ha, _, _, _ => by simp at ha
  | x :: xs, hd, a, ha, b, hb, e => by
    simp only [List.map_cons, List.nodup_cons] at hd
    rcases List.mem_cons.mp ha with rfl | ha'
    · rcases List.mem_cons.mp hb with rfl | hb'
      · rfl
      · exact absurd (List.mem_map.mpr ⟨b, hb', e.symm⟩) hd.1
    · rcases List.mem_cons.mp hb with rfl | hb'
      · exact absurd (List.mem_map.mpr ⟨a, ha', e⟩) hd.1
      · exact nodup_map_inj f xs hd.2 a ha' b hb' e

/-- a strict total order on the current transactions of items with distinct hashes is a strict total order on the items -/
theorem strictTotal_lessH (better : Tx → Tx → Bool) (l : List HItem) (ho : StrictTotalOn better l)
    (hd : (l.map (·.cur.hash)).Nodup) : StrictTotal (lessH better) (· ∈ l) :=
  ⟨fun a => ho.irrefl a.cur, fun a b c => ho.trans a.cur b.cur c.cur,
   fun a b ha hb hne => ho.total a ha b hb (fun e => hne (nodup_map_inj (·.cur.hash) l hd a ha b hb e))⟩

/-- `heap.Pop` on a heap whose content is (a permutation of) `l` returns the item `popBy` extracts from `l`; the
    remaining contents are permutations of each other and the remaining slice is again a heap -/
theorem pop_eq_popBy (better : Tx → Tx → Bool) (l : List HItem) (a : Array HItem)
    (ho : StrictTotalOn better l) (hd : (l.map (·.cur.hash)).Nodup)
    (hp : a.toList.Perm l) (hinv : HeapInv (lessH better) a)
    (b : HItem) (r : List HItem) (h : popBy better l = some (b, r)) :
    ∃ r', pop (lessH better) a = some (b, r') ∧ r'.toList.Perm r ∧ HeapInv (lessH better) r' := by
  have hst := strictTotal_lessH better l ho hd
  have hS : ∀ x ∈ a.toList, x ∈ l := fun x hx => hp.mem_iff.mp hx
  have hne : a.size ≠ 0 := by
    intro e
    have hl := hp.length_eq
    rw [Array.length_toList, e] at hl
    have : l = [] := List.eq_nil_of_length_eq_zero hl.symm
    subst this
    simp [popBy] at h
  obtain ⟨x, r', hpop, _, hperm, hheap, hmin⟩ := pop_spec hst a hS hne hinv
  have hbr := popBy_perm better l b r h
  have hbest := popBy_best better l b r ho hd h
  have hP : (x :: r'.toList).Perm (b :: r) := hperm.trans (hp.trans hbr.symm)
  have hxb : x = b := by
    rcases List.mem_cons.mp (hP.mem_iff.mp List.mem_cons_self) with e | hxr
    · exact e
    · rcases List.mem_cons.mp (hP.mem_iff.mpr List.mem_cons_self) with e | hbr'
      · exact e.symm
      · have h1 : better b.cur x.cur = true := hbest x hxr
        have h2 : better b.cur x.cur = false := hmin b hbr'
        rw [h1] at h2
        exact absurd h2 (by decide)
  subst hxb
  exact ⟨r', hpop, hP.cons_inv, hheap⟩

/-- both are empty together -/
theorem pop_none_of_popBy (better : Tx → Tx → Bool) (l : List HItem) (a : Array HItem) (hp : a.toList.Perm l)
    (h : popBy better l = none) : pop (lessH better) a = none := by
  have e := (popBy_none better l).mp h
  subst e
  apply pop_none
  have := hp.length_eq
  rw [Array.length_toList] at this
  exact this

/-! ### the selection loop on the real heap -/

/-- the comparison of `maxTransactionsHeap` -/
def lessV (v : Variant) : HItem → HItem → Bool := lessH (moreValuable v)

/-- building a heap by successive `heap.Push` -/
def ofPushes (less : α → α → Bool) (l : List α) : Array α := l.foldl (push less) #[]

theorem foldl_push {less : α → α → Bool} {S : α → Prop} (ho : StrictTotal less S) : ∀ (l : List α) (a : Array α),
    (∀ x ∈ a.toList, S x) → (∀ x ∈ l, S x) → HeapInv less a →
    HeapInv less (l.foldl (push less) a) ∧ (l.foldl (push less) a).toList.Perm (a.toList ++ l)
  | [], a, _, _, h => ⟨h, by simp⟩
  | x :: xs, a, hS, hl, h => by
    have hx : S x := hl x List.mem_cons_self
    have hS' : ∀ y ∈ (push less a x).toList, S y := by
      intro y hy
      rcases List.mem_cons.mp ((push_perm less a x).mem_iff.mp hy) with e | hy'
      · subst e; exact hx
      · exact hS y hy'
    obtain ⟨h1, h2⟩ := foldl_push ho xs (push less a x) hS' (fun y hy => hl y (List.mem_cons_of_mem _ hy))
      (push_heap ho a x hS hx h)
    refine ⟨h1, ?_⟩
    rw [List.foldl_cons]
    refine h2.trans ?_
    refine ((push_perm less a x).append_right xs).trans ?_
    exact List.perm_middle.symm

theorem ofPushes_spec {less : α → α → Bool} {S : α → Prop} (ho : StrictTotal less S) (l : List α) (hl : ∀ x ∈ l, S x) :
    HeapInv less (ofPushes less l) ∧ (ofPushes less l).toList.Perm l := by
  have := foldl_push ho l #[] (by simp) hl (heapInv_empty less)
  simpa [ofPushes] using this

/-- `selectLoop` of Model.lean, threading a `container/heap` instead of the abstract `popBest` -/
def selectLoopHeap (v : Variant) (s : Session) (q : SelParams) :
    Nat → Array HItem → (Bytes → Nat) → Nat → List Tx → List Tx × Nat
  | 0, _, _, acc, out => (out, acc)
  | fuel + 1, heap, consumed, acc, out =>
    match pop (lessV v) heap with
    | none => (out, acc)
    | some (it, heap') =>
      if gasExceeded v acc it.cur.gasLimit q.gasReq then (out, acc)
      else if out.length ≥ q.maxNum then (out, acc)
      else if out.length % q.interval = 0 && q.stop out.length then (out, acc)
      else
        match classify s consumed it with
        | .dropSender => selectLoopHeap v s q fuel heap' consumed acc out
        | .skipTx =>
          match it.advance with
          | none => selectLoopHeap v s q fuel heap' consumed acc out
          | some it' => selectLoopHeap v s q fuel (push (lessV v) heap' it') consumed acc out
        | .take =>
          let t := it.cur
          let consumed' := bump (bump consumed t.sender t.value) t.payer t.fee
          let acc' := if v.gasWraps then (acc + t.gasLimit) % two64 else acc + t.gasLimit
          let itS := { it with latest := some t.nonce }
          match itS.advance with
          | none => selectLoopHeap v s q fuel heap' consumed' acc' (out ++ [t])
          | some it' => selectLoopHeap v s q fuel (push (lessV v) heap' it') consumed' acc' (out ++ [t])

/-- `selectTransactionsFromBunches` with the real heap: `heap.Init` on the empty heap, one `heap.Push` per bunch -/
def selectFromBunchesHeap (v : Variant) (s : Session) (q : SelParams) (bunches : List (List Tx)) : List Tx × Nat :=
  selectLoopHeap v s q (bunchesTotal bunches + 1) (ofPushes (lessV v) (initHeap bunches)) (fun _ => 0) 0 []

theorem strictTotal_lessV (v : Variant) (l : List HItem) (hn : NodupH l) : StrictTotal (lessV v) (· ∈ l) :=
  strictTotal_lessH (moreValuable v) l (popBest_strictTotalOn v l) hn.curs

theorem push_step (v : Variant) {r' : Array HItem} {r : List HItem} {it' : HItem} (hrr : r'.toList.Perm r)
    (hn : NodupH (it' :: r)) (hheap : HeapInv (lessV v) r') :
    (push (lessV v) r' it').toList.Perm (it' :: r) ∧ HeapInv (lessV v) (push (lessV v) r' it') :=
  ⟨(push_perm _ _ _).trans (hrr.cons it'),
   push_heap (strictTotal_lessV v _ hn) r' it' (fun _ hy => List.mem_cons_of_mem _ (hrr.mem_iff.mp hy))
     List.mem_cons_self hheap⟩

/-- the loop on the real heap computes what the model's loop computes on any list with the same content -/
theorem selectLoopHeap_eq (v : Variant) (s : Session) (q : SelParams) :
    ∀ (fuel : Nat) (a : Array HItem) (l : List HItem) (consumed : Bytes → Nat) (acc : Nat) (out : List Tx),
      a.toList.Perm l → NodupH l → HeapInv (lessV v) a →
      selectLoopHeap v s q fuel a consumed acc out = selectLoop v (popBest v) s q fuel l consumed acc out := by
  intro fuel
  induction fuel with
  | zero => intros; rfl
  | succ n ih =>
    intro a l consumed acc out hp hn hinv
    cases hpk : popBest v l with
    | none =>
      have hpop : pop (lessV v) a = none := pop_none_of_popBy (moreValuable v) l a hp hpk
      simp only [selectLoopHeap, selectLoop, hpk, hpop]
    | some p =>
      obtain ⟨it, r⟩ := p
      obtain ⟨r', hpop, hrr, hheap⟩ :=
        pop_eq_popBy (moreValuable v) l a (popBest_strictTotalOn v l) hn.curs hp hinv it r hpk
      have hpop : pop (lessV v) a = some (it, r') := hpop
      have hn1 : NodupH (it :: r) := hn.perm (popBy_perm _ l it r hpk).symm
      have hnr : NodupH r := hn1.tail
      simp only [selectLoopHeap, selectLoop, hpk, hpop]
      split
      · rfl
      · split
        · rfl
        · split
          · rfl
          · cases classify s consumed it with
            | dropSender => exact ih r' r _ _ _ hrr hnr hheap
            | skipTx =>
              dsimp only
              cases ha : it.advance with
              | none => exact ih r' r _ _ _ hrr hnr hheap
              | some it' =>
                obtain ⟨h1, h2⟩ := push_step v hrr (hn1.advance rfl ha) hheap
                exact ih _ (it' :: r) _ _ _ h1 (hn1.advance rfl ha) h2
            | take =>
              dsimp only
              cases ha : HItem.advance { it with latest := some it.cur.nonce } with
              | none => exact ih r' r _ _ _ hrr hnr hheap
              | some it' =>
                have hn2 := hn1.advance (it2 := { it with latest := some it.cur.nonce }) rfl ha
                obtain ⟨h1, h2⟩ := push_step v hrr hn2 hheap
                exact ih _ (it' :: r) _ _ _ h1 hn2 h2

/-- end to end: selection with the real `container/heap` returns exactly what the model (`selectFromBunches`, with the
    abstract `popBest`) returns, for bunches whose transactions have pairwise distinct hashes -/
theorem selectFromBunchesHeap_eq (v : Variant) (s : Session) (q : SelParams) (bunches : List (List Tx))
    (hn : (bunches.flatten.map (·.hash)).Nodup) :
    selectFromBunchesHeap v s q bunches = selectFromBunches v s q bunches := by
  have hN : NodupH (initHeap bunches) := by
    unfold NodupH
    rw [heapTxs_initHeap]; exact hn
  obtain ⟨h1, h2⟩ := ofPushes_spec (strictTotal_lessV v _ hN) (initHeap bunches) (fun _ hx => hx)
  unfold selectFromBunchesHeap selectFromBunches
  exact selectLoopHeap_eq v s q _ _ _ _ _ _ h2 hN h1

/-! ### concrete runs (the slices are those printed by Go's `container/heap` for the same operations) -/

example : ofPushes (fun a b : Nat => decide (a < b)) [5, 3, 8, 1, 9, 2, 7, 3, 6, 4, 0, 11, 10]
    = #[0, 1, 2, 3, 3, 8, 7, 5, 6, 9, 4, 11, 10] := by decide

example : pop (fun a b : Nat => decide (a < b)) #[0, 1, 2, 3, 3, 8, 7, 5, 6, 9, 4, 11, 10]
    = some (0, #[1, 3, 2, 5, 3, 8, 7, 10, 6, 9, 4, 11]) := by decide

example : pop (fun a b : Nat => decide (a < b)) #[1, 3, 2, 5, 3, 8, 7, 10, 6, 9, 4, 11]
    = some (1, #[2, 3, 7, 5, 3, 8, 11, 10, 6, 9, 4]) := by decide

end SV.TxCache.Heap
