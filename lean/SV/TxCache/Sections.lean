/-
  SV.TxCache.Sections — property C14 (defect F13): the mempool under concurrency AT CRITICAL-SECTION GRANULARITY.

  `TxCache.AddTx`, `RemoveTxByHash`, `Clear` and the eviction run these critical sections under `mutTxOperation`:
    (A)  `AddTx`:   `txByHash.addTx(tx)` ; `txListBySender.addTxReturnEvicted(tx)`   — returns the trimmed hashes
    (A') `AddTx`:   AFTER the unlock `txByHash.RemoveTxsBulk(evicted)`               — not atomic with (A)
    (R)  `RemoveTxByHash` (whole body)
    (C)  `Clear`
    (E)  one pass of the eviction, for a victim list taken from a possibly STALE snapshot (an arbitrary list)
  A concurrent execution is, as far as the two indexes go, some interleaving of these sections, each (A') after its (A).

  Here: the sections (`addSection`, `dropSection`; the others are the sequential model functions), the interleaving
  system (`Conf`, `Step`, `Conf.step`, `Conf.run`), the ONE-SIDED invariant `NoOrphan` (every transaction reachable by
  hash is held by its sender's list, or its removal from the hash index is pending in an in-flight `AddTx`) with its
  companion well-formedness invariant `PoolOk` (hash index: keys are the hashes of their values, distinct, both counters
  truthful; sender index: well-formed, senders distinct, lists strictly sorted — hence duplicate free —, never empty,
  counter truthful), both inductive for ARBITRARY interleavings with ARBITRARY victim lists.

  The two-sided agreement of `Inv` does NOT hold in this system (`two_sided_fails`).
-/
import SV.TxCache.EvictInv
namespace SV.TxCache.Sections
open SV.TxCache.C5

/-! ### 1. the sections of `AddTx` -/

/-- `txByHash.addTx` -/
def hashAdd (p : Pool) (t : Tx) : Pool × Bool :=
  match alookup t.hash p.byHash with
  | some _ => (p, false)
  | none => ({ p with byHash := p.byHash ++ [(t.hash, t)], cntTx := p.cntTx + 1, numBytes := p.numBytes + t.size }, true)

/-- `getOrAddListForSender` -/
def fetchList (p : Pool) (s : Bytes) : Pool × List Tx :=
  match alookup s p.lists with
  | some l => (p, l)
  | none => ({ p with lists := p.lists ++ [(s, [])], cntSenders := p.cntSenders + 1 }, [])

/-- `txListBySender.addTxReturnEvicted`: sorted insert, trim of at most one transaction, `removeSenderIfEmpty`;
    the hashes of the trimmed transactions are RETURNED (they stay in the hash index) -/
def listSection (p : Pool) (addedByHash : Bool) (t : Tx) : Pool × Bool × List Bytes :=
  let pl := fetchList p t.sender
  match insertTx t pl.2 with
  | none => (pl.1, addedByHash, [])
  | some l' =>
    let tr := trim1 pl.1.cfg l'
    (removeSenderIfEmpty { pl.1 with lists := aset t.sender tr.1 pl.1.lists } t.sender, true, tr.2.map (·.hash))

/-- section (A) of `AddTx`, under `mutTxOperation`: → (pool, added, hashes of the trimmed transactions) -/
def addSection (p : Pool) (t : Tx) : Pool × Bool × List Bytes :=
  listSection (hashAdd p t).1 (hashAdd p t).2 t

/-- section (A') of `AddTx`, after the unlock -/
def dropSection (p : Pool) (hs : List Bytes) : Pool := removeBulk p hs

/-- the sequential model of the insertion is (A) immediately followed by (A') -/
theorem addTxCore_eq_sections (p : Pool) (t : Tx) :
    addTxCore Variant.current p t = (dropSection (addSection p t).1 (addSection p t).2.2, (addSection p t).2.1) := by
  unfold addTxCore addSection listSection hashAdd fetchList dropSection
  cases alookup t.hash p.byHash <;> dsimp only <;> cases alookup t.sender p.lists <;> dsimp only <;>
    split <;> simp_all [Variant.current]

/-! ### 2. the interleaving system -/

/-- the two indexes, and one entry per `AddTx` call that has done (A) but not yet (A'): the hashes it will remove -/
structure Conf where
  pool : Pool
  pending : List (List Bytes)

inductive Step where
  | add (t : Tx)                 -- (A) of a new `AddTx` call
  | drop (i : Nat)               -- (A') of the in-flight call number `i`
  | rm (h : Bytes)               -- (R)
  | clear                        -- (C)
  | evictPass (victims : List Tx) -- (E), for an ARBITRARY (possibly stale) victim list
  deriving DecidableEq

def Conf.step (c : Conf) : Step → Conf
  | .add t => ⟨(addSection c.pool t).1, c.pending ++ [(addSection c.pool t).2.2]⟩
  | .drop i =>
    match c.pending[i]? with
    | none => c
    | some hs => ⟨dropSection c.pool hs, c.pending.eraseIdx i⟩
  | .rm h => ⟨(removeTxByHash c.pool h).1, c.pending⟩
  | .clear => ⟨clear Variant.current c.pool, c.pending⟩
  | .evictPass victims => ⟨applyVictims Variant.current c.pool victims, c.pending⟩

def Conf.init (cfg : Config) : Conf := ⟨Pool.init cfg, []⟩

def Conf.run (cfg : Config) (steps : List Step) : Conf := steps.foldl Conf.step (Conf.init cfg)

/-! ### 3. the invariants -/

/-- every transaction reachable by hash is held by its sender's list, or its removal from the hash index is pending
    in an in-flight `AddTx` -/
def NoOrphan (c : Conf) : Prop :=
  ∀ h x, (h, x) ∈ c.pool.byHash → (∃ l, (x.sender, l) ∈ c.pool.lists ∧ x ∈ l) ∨ h ∈ c.pending.flatten

/-- the same, on a pool and a flat list of pending hashes -/
def NoOrphanP (p : Pool) (pend : List Bytes) : Prop :=
  ∀ h x, (h, x) ∈ p.byHash → (∃ l, (x.sender, l) ∈ p.lists ∧ x ∈ l) ∨ h ∈ pend

/-- the companion invariant: each index is well formed ON ITS OWN (nothing is said about their agreement).
    * hash index: a key is the hash of its value, a hash determines its transaction (`WfTx U`), keys are distinct,
      `cntTx` and `numBytes` are truthful;
    * sender index: members are well formed and filed under their sender, senders are distinct, lists are nonce
      sorted and never empty, `cntSenders` is truthful;
    * every list is strictly sorted (nonce ↑, gas price ↓, hash ↑), hence holds no transaction — no hash — twice. -/
structure PoolOk (U : Bytes → Tx) (p : Pool) : Prop where
  hashOk : HashOk U p
  listsOk : ListsOk U p
  sorted : ListsSorted p

/-- a list of a well-formed pool holds no hash twice -/
theorem PoolOk.hashes_nodup {U : Bytes → Tx} {p : Pool} (h : PoolOk U p) {s : Bytes} {l : List Tx}
    (hm : (s, l) ∈ p.lists) : (l.map (·.hash)).Nodup := by
  have hnd : l.Nodup := (h.sorted s l hm).nodup
  unfold List.Nodup
  rw [List.pairwise_map]
  refine List.Pairwise.imp_of_mem ?_ hnd
  intro a b ha hb hne e
  exact hne (wf_inj (h.listsOk.wfLists s l hm a ha).1 (h.listsOk.wfLists s l hm b hb).1 e)

theorem listsOk_of_eq {U : Bytes → Tx} {p q : Pool} (h : ListsOk U p) (e1 : q.lists = p.lists)
    (e2 : q.cntSenders = p.cntSenders) : ListsOk U q := by
  refine ⟨?_, ?_, ?_, ?_, ?_⟩
  · rw [e1]; exact h.wfLists
  · rw [e1]; exact h.sendersNodup
  · rw [e1]; exact h.nonceSorted
  · rw [e1]; exact h.nonEmpty
  · rw [e1, e2]; exact h.cntSenders

/-- the general step on the one-sided invariant: sender `s`'s list `l` (absent: `[]`) becomes `l'` (dropped when empty);
    what enters the hash index is in `l'` or pending; what leaves `l` is pending or left the hash index -/
theorem noOrphan_set {p r : Pool} {pend pend' : List Bytes} {s : Bytes} {l l' : List Tx}
    (hwf : ∀ h t, (h, t) ∈ p.byHash → t.hash = h) (hnd : (keys p.lists).Nodup)
    (hno : NoOrphanP p pend) (hpend : ∀ k ∈ pend, k ∈ pend')
    (hl : alookup s p.lists = some l ∨ (alookup s p.lists = none ∧ l = []))
    (hchar : ∀ s0 l0, (s0, l0) ∈ r.lists ↔ ((s0, l0) ∈ p.lists ∧ s0 ≠ s) ∨ (s0 = s ∧ l0 = l' ∧ l' ≠ []))
    (hB : ∀ k x, (k, x) ∈ r.byHash → (k, x) ∈ p.byHash ∨ (x.sender = s ∧ x ∈ l') ∨ k ∈ pend')
    (hcov : ∀ x ∈ l, x ∉ l' → x.hash ∈ pend' ∨ ∀ y, (x.hash, y) ∉ r.byHash) : NoOrphanP r pend' := by
  intro k x hx
  have listed : x.sender = s → x ∈ l' → (∃ l, (x.sender, l) ∈ r.lists ∧ x ∈ l) := by
    intro hs hxl
    exact ⟨l', (hchar _ _).mpr (Or.inr ⟨hs, rfl, List.ne_nil_of_mem hxl⟩), hxl⟩
  rcases hB k x hx with hp | ⟨hs, hxl⟩ | hk
  · rcases hno k x hp with ⟨l0, hm0, hx0⟩ | hk
    · by_cases hs : x.sender = s
      · have hl0 : l0 = l := by
          rcases hl with hl | ⟨hl, -⟩
          · have := alookup_of_mem hnd hm0
            rw [hs, hl] at this
            exact (Option.some.inj this).symm
          · rw [hs] at hm0; exact absurd hm0 (alookup_none_not_mem hl l0)
        subst hl0
        by_cases hxl : x ∈ l'
        · exact Or.inl (listed hs hxl)
        · rcases hcov x hx0 hxl with h' | h'
          · right; rw [← hwf k x hp]; exact h'
          · exact absurd (by rw [hwf k x hp]; exact hx) (h' x)
      · exact Or.inl ⟨l0, (hchar _ _).mpr (Or.inl ⟨hm0, hs⟩), hx0⟩
    · exact Or.inr (hpend k hk)
  · exact Or.inl (listed hs hxl)
  · exact Or.inr hk

/-- hashes leave the hash index (the lists stay): fine as long as what was pending is removed or still pending -/
theorem removeBulk_ok {U : Bytes → Tx} {p : Pool} {pend pend' : List Bytes} (hs : List Bytes) (hP : PoolOk U p)
    (hno : NoOrphanP p pend) (hpend : ∀ k ∈ pend, k ∈ hs ∨ k ∈ pend') :
    PoolOk U (removeBulk p hs) ∧ NoOrphanP (removeBulk p hs) pend' := by
  refine ⟨⟨hP.hashOk.removeBulk hs, listsOk_of_eq hP.listsOk (by simp) (by simp), ?_⟩, ?_⟩
  · intro s l hm
    rw [removeBulk_lists] at hm
    exact hP.sorted s l hm
  · intro k x hx
    rw [mem_removeBulk] at hx
    rcases hno k x hx.1 with ⟨l, hm, hxl⟩ | hk
    · exact Or.inl ⟨l, by rw [removeBulk_lists]; exact hm, hxl⟩
    · rcases hpend k hk with h' | h'
      · exact absurd h' hx.2
      · exact Or.inr h'

/-- the shrinking step of (R) and (E): `l` is cut down to a sub-list `l'`, the hashes of what was cut leave the index -/
theorem shrink_ok {U : Bytes → Tx} {p q0 : Pool} {pend : List Bytes} {s : Bytes} {l l' : List Tx} (hs : List Bytes)
    (hP : PoolOk U p) (hno : NoOrphanP p pend) (hl : alookup s p.lists = some l) (hsub : l'.Sublist l)
    (hcov : ∀ x ∈ l, x ∉ l' → x.hash ∈ hs)
    (e1 : q0.lists = aset s l' p.lists) (e2 : q0.cntSenders = p.cntSenders)
    (hH : HashOk U q0) (hB : ∀ k x, (k, x) ∈ q0.byHash → (k, x) ∈ p.byHash) :
    PoolOk U (removeBulk (removeSenderIfEmpty q0 s) hs) ∧
    NoOrphanP (removeBulk (removeSenderIfEmpty q0 s) hs) pend := by
  have hml : (s, l) ∈ p.lists := alookup_some_mem hl
  have hwf : ∀ t ∈ l', WfTx U t ∧ t.sender = s := fun t ht => hP.listsOk.wfLists s l hml t (hsub.subset ht)
  have hsorted : ListSorted l' := (hP.sorted s l hml).sublist hsub
  have e2' : q0.cntSenders = ((aset s l' p.lists).length : Int) := by
    rw [e2, length_aset_of_present l' (mem_keys_of_mem hml)]; exact hP.listsOk.cntSenders
  obtain ⟨hok, hchar⟩ := lists_set hP.listsOk hwf hsorted.nonceSorted e1 e2'
  have hH' : HashOk U (removeBulk (removeSenderIfEmpty q0 s) hs) :=
    (hH.of_eq (q := removeSenderIfEmpty q0 s) (by simp) (by simp) (by simp)).removeBulk hs
  refine ⟨⟨hH', listsOk_of_eq hok (by simp) (by simp), ?_⟩, ?_⟩
  · intro s0 l0 hm
    rw [removeBulk_lists] at hm
    rcases (hchar s0 l0).mp hm with ⟨hm', -⟩ | ⟨rfl, rfl, -⟩
    · exact hP.sorted s0 l0 hm'
    · exact hsorted
  · refine noOrphan_set (fun h t hm => (hP.hashOk.wfHash h t hm).1) hP.listsOk.sendersNodup hno (fun k hk => hk)
      (Or.inl hl) (by simpa using hchar) ?_ ?_
    · intro k x hx
      rw [mem_removeBulk, removeSenderIfEmpty_byHash] at hx
      exact Or.inl (hB k x hx.1)
    · intro x hx hxl
      right
      intro y hy
      rw [mem_removeBulk] at hy
      exact hy.2 (hcov x hx hxl)

/-! #### (R) -/

theorem rm_ok {U : Bytes → Tx} {p : Pool} {pend : List Bytes} (hsh : Bytes) (hP : PoolOk U p) (hno : NoOrphanP p pend) :
    PoolOk U (removeTxByHash p hsh).1 ∧ NoOrphanP (removeTxByHash p hsh).1 pend := by
  unfold removeTxByHash
  split
  · exact ⟨hP, hno⟩
  · next t hm =>
    have hH1 : HashOk U (byHashRemove p hsh) := hP.hashOk.byHashRemove hsh
    have hB1 : ∀ k x, (k, x) ∈ (byHashRemove p hsh).byHash → (k, x) ∈ p.byHash :=
      fun k x hx => (mem_byHashRemove.mp hx).1
    cases hl : alookup t.sender p.lists with
    | none =>
      simp only [byHashRemove_lists, hl]
      refine ⟨⟨hH1, listsOk_of_eq hP.listsOk (by simp) (by simp), ?_⟩, ?_⟩
      · intro s l hm'
        rw [byHashRemove_lists] at hm'
        exact hP.sorted s l hm'
      · intro k x hx
        rcases hno k x (hB1 k x hx) with ⟨l, hm', hxl⟩ | hk
        · exact Or.inl ⟨l, by rw [byHashRemove_lists]; exact hm', hxl⟩
        · exact Or.inr hk
    | some l =>
      simp only [byHashRemove_lists, hl]
      obtain ⟨pre, hpre, -⟩ := dropLowerOrEqual_suffix t.nonce l
      have htake : l.take (l.length - (dropLowerOrEqual t.nonce l).length) = pre := by
        have hlen : l.length - (dropLowerOrEqual t.nonce l).length = pre.length := by
          have := congrArg List.length hpre
          rw [List.length_append] at this
          omega
        rw [hlen]
        conv => lhs; rw [hpre]
        exact List.take_left
      rw [htake]
      have hsub : (dropLowerOrEqual t.nonce l).Sublist l := by
        conv => rhs; rw [hpre]
        exact List.sublist_append_right _ _
      refine shrink_ok
        (q0 := { byHashRemove p hsh with lists := aset t.sender (dropLowerOrEqual t.nonce l) p.lists })
        (pre.map (·.hash)) hP hno hl hsub ?_ rfl (by simp) (hH1.of_eq rfl rfl rfl) hB1
      intro x hx hn
      rw [hpre] at hx
      rcases List.mem_append.mp hx with hx | hx
      · exact List.mem_map.mpr ⟨x, hx, rfl⟩
      · exact absurd hx hn

/-! #### (E) -/

theorem applyThreshold_ok {U : Bytes → Tx} {p : Pool} {pend : List Bytes} (sn : Bytes × Nat) (hP : PoolOk U p)
    (hno : NoOrphanP p pend) :
    PoolOk U (applyThreshold Variant.current p sn) ∧ NoOrphanP (applyThreshold Variant.current p sn) pend := by
  unfold applyThreshold
  split
  · exact ⟨hP, hno⟩
  · next l hl =>
    simp only [Variant.current, Bool.false_eq_true, if_false]
    obtain ⟨suf, hsuf, -⟩ := keepLower_prefix_all sn.2 l
    have hdrop : l.drop (keepLower sn.2 l).length = suf := by
      have := congrArg (List.drop (keepLower sn.2 l).length) hsuf
      rw [List.drop_left] at this
      exact this
    rw [hdrop]
    have hsub : (keepLower sn.2 l).Sublist l := by
      conv => rhs; rw [hsuf]
      exact List.sublist_append_left _ _
    refine shrink_ok (q0 := { p with lists := aset sn.1 (keepLower sn.2 l) p.lists })
      (suf.map (·.hash)) hP hno hl hsub ?_ rfl rfl (hP.hashOk.of_eq rfl rfl rfl) (fun k x hx => hx)
    intro x hx hn
    rw [hsuf] at hx
    rcases List.mem_append.mp hx with hx | hx
    · exact absurd hx hn
    · exact List.mem_map.mpr ⟨x, hx, rfl⟩

theorem foldThreshold_ok {U : Bytes → Tx} {pend : List Bytes} (ths : List (Bytes × Nat)) : ∀ (p : Pool), PoolOk U p →
    NoOrphanP p pend →
    PoolOk U (ths.foldl (applyThreshold Variant.current) p) ∧
    NoOrphanP (ths.foldl (applyThreshold Variant.current) p) pend := by
  induction ths with
  | nil => intro p hP hno; exact ⟨hP, hno⟩
  | cons sn ths ih =>
    intro p hP hno
    obtain ⟨h1, h2⟩ := applyThreshold_ok sn hP hno
    exact ih _ h1 h2

/-- one eviction pass over an ARBITRARY victim list (nothing is assumed about the victims: not pooled, not well formed,
    not ordered) -/
theorem evictPass_ok {U : Bytes → Tx} {p : Pool} {pend : List Bytes} (victims : List Tx) (hP : PoolOk U p)
    (hno : NoOrphanP p pend) :
    PoolOk U (applyVictims Variant.current p victims) ∧ NoOrphanP (applyVictims Variant.current p victims) pend := by
  unfold applyVictims
  dsimp only
  obtain ⟨h1, h2⟩ := foldThreshold_ok (thresholds victims) p hP hno
  exact removeBulk_ok _ h1 h2 (fun k hk => Or.inr hk)

/-! #### (A) -/

theorem hashAdd_spec {U : Bytes → Tx} {p : Pool} {t : Tx} (hH : HashOk U p) (ht : WfTx U t) :
    HashOk U (hashAdd p t).1 ∧ (hashAdd p t).1.lists = p.lists ∧ (hashAdd p t).1.cntSenders = p.cntSenders ∧
    ∀ k x, (k, x) ∈ (hashAdd p t).1.byHash → (k, x) ∈ p.byHash ∨ (k = t.hash ∧ x = t) := by
  unfold hashAdd
  split
  · exact ⟨hH, rfl, rfl, fun k x h => Or.inl h⟩
  · next hn =>
    refine ⟨hashOk_append hH ht hn rfl rfl rfl, rfl, rfl, ?_⟩
    intro k x hx
    rcases List.mem_append.mp hx with hx | hx
    · exact Or.inl hx
    · simp only [List.mem_singleton, Prod.mk.injEq] at hx
      exact Or.inr hx

/-- the list part of (A) does not touch the hash index -/
theorem listSection_hashPart (p : Pool) (a : Bool) (t : Tx) :
    (listSection p a t).1.byHash = p.byHash ∧ (listSection p a t).1.cntTx = p.cntTx ∧
    (listSection p a t).1.numBytes = p.numBytes := by
  unfold listSection fetchList
  cases alookup t.sender p.lists <;> dsimp only <;> split <;> simp

/-- insertion of a transaction that is not yet in the list `l` of its sender (absent: `[]`), then the trim -/
theorem insert_trim {U : Bytes → Tx} {p q0 : Pool} {t : Tx} {l : List Tx} (cfg : Config) (hL : ListsOk U p)
    (hso : ListsSorted p) (ht : WfTx U t)
    (hl : alookup t.sender p.lists = some l ∨ (alookup t.sender p.lists = none ∧ l = []))
    (hnd : ¬ ∃ c ∈ l, c.nonce = t.nonce ∧ c.gasPrice = t.gasPrice ∧ c.hash = t.hash)
    (e1 : q0.lists = aset t.sender (trim1 cfg (orderedInsert t l)).1 p.lists)
    (e2 : q0.cntSenders = ((aset t.sender (trim1 cfg (orderedInsert t l)).1 p.lists).length : Int)) :
    (∀ x ∈ l, x ∈ (trim1 cfg (orderedInsert t l)).1 ∨ x.hash ∈ (trim1 cfg (orderedInsert t l)).2.map (·.hash)) ∧
    (t ∈ (trim1 cfg (orderedInsert t l)).1 ∨ t.hash ∈ (trim1 cfg (orderedInsert t l)).2.map (·.hash)) ∧
    ListsOk U (removeSenderIfEmpty q0 t.sender) ∧ ListsSorted (removeSenderIfEmpty q0 t.sender) ∧
    ∀ s0 l0, (s0, l0) ∈ (removeSenderIfEmpty q0 t.sender).lists ↔
      ((s0, l0) ∈ p.lists ∧ s0 ≠ t.sender) ∨
      (s0 = t.sender ∧ l0 = (trim1 cfg (orderedInsert t l)).1 ∧ (trim1 cfg (orderedInsert t l)).1 ≠ []) := by
  have hlmem : ∀ x ∈ l, (t.sender, l) ∈ p.lists := by
    intro x hx
    rcases hl with hl | ⟨-, rfl⟩
    · exact alookup_some_mem hl
    · simp at hx
  have hlsorted : ListSorted l := by
    rcases hl with hl | ⟨-, rfl⟩
    · exact hso _ _ (alookup_some_mem hl)
    · simp [ListSorted]
  have hmsorted : ListSorted (orderedInsert t l) := orderedInsert_sorted t l hlsorted hnd
  have happ := trim1_append cfg (orderedInsert t l)
  have hsub : (trim1 cfg (orderedInsert t l)).1.Sublist (orderedInsert t l) := by
    conv => rhs; rw [← happ]
    exact List.sublist_append_left _ _
  have hsplit : ∀ x ∈ orderedInsert t l,
      x ∈ (trim1 cfg (orderedInsert t l)).1 ∨ x.hash ∈ (trim1 cfg (orderedInsert t l)).2.map (·.hash) := by
    intro x hx
    rw [← happ] at hx
    rcases List.mem_append.mp hx with hx | hx
    · exact Or.inl hx
    · exact Or.inr (List.mem_map.mpr ⟨x, hx, rfl⟩)
  have hwf : ∀ x ∈ (trim1 cfg (orderedInsert t l)).1, WfTx U x ∧ x.sender = t.sender := by
    intro x hx
    rcases (mem_orderedInsert t x l).mp (hsub.subset hx) with rfl | hx
    · exact ⟨ht, rfl⟩
    · exact hL.wfLists _ _ (hlmem x hx) x hx
  have hsorted' : ListSorted (trim1 cfg (orderedInsert t l)).1 := hmsorted.sublist hsub
  obtain ⟨hok, hchar⟩ := lists_set hL hwf hsorted'.nonceSorted e1 e2
  refine ⟨fun x hx => hsplit x ((mem_orderedInsert t x l).mpr (Or.inr hx)),
    hsplit t ((mem_orderedInsert t t l).mpr (Or.inl rfl)), hok, ?_, hchar⟩
  intro s0 l0 hm
  rcases (hchar s0 l0).mp hm with ⟨hm', -⟩ | ⟨rfl, rfl, -⟩
  · exact hso s0 l0 hm'
  · exact hsorted'

/-- the list part of (A): the sender's list `l` (absent: `[]`) becomes `l'`; every member of `l`, and `t` itself, is in
    `l'` or among the returned hashes -/
theorem listSection_spec {U : Bytes → Tx} {p : Pool} {t : Tx} (a : Bool) (hL : ListsOk U p) (hso : ListsSorted p)
    (ht : WfTx U t) :
    ∃ l l', (alookup t.sender p.lists = some l ∨ (alookup t.sender p.lists = none ∧ l = [])) ∧
      (∀ x ∈ l, x ∈ l' ∨ x.hash ∈ (listSection p a t).2.2) ∧
      (t ∈ l' ∨ t.hash ∈ (listSection p a t).2.2) ∧
      ListsOk U (listSection p a t).1 ∧ ListsSorted (listSection p a t).1 ∧
      ∀ s0 l0, (s0, l0) ∈ (listSection p a t).1.lists ↔
        ((s0, l0) ∈ p.lists ∧ s0 ≠ t.sender) ∨ (s0 = t.sender ∧ l0 = l' ∧ l' ≠ []) := by
  rcases hlk : alookup t.sender p.lists with _ | l
  · -- a new sender
    have hins : insertTx t [] = some (orderedInsert t []) := rfl
    have heq : listSection p a t =
        (removeSenderIfEmpty { p with lists := aset t.sender (trim1 p.cfg (orderedInsert t [])).1 (p.lists ++ [(t.sender, [])]),
                                      cntSenders := p.cntSenders + 1 } t.sender,
         true, (trim1 p.cfg (orderedInsert t [])).2.map (·.hash)) := by
      simp only [listSection, fetchList, hlk, hins]
    rw [heq]
    have e1 : aset t.sender (trim1 p.cfg (orderedInsert t [])).1 (p.lists ++ [(t.sender, [])]) =
        aset t.sender (trim1 p.cfg (orderedInsert t [])).1 p.lists := by
      rw [← aset_of_absent [] hlk, aset_aset]
    have e2 : p.cntSenders + 1 = ((aset t.sender (trim1 p.cfg (orderedInsert t [])).1 p.lists).length : Int) := by
      rw [aset_of_absent _ hlk, List.length_append, hL.cntSenders]
      simp
    obtain ⟨h1, h2, h3, h4, h5⟩ := insert_trim (q0 := { p with
        lists := aset t.sender (trim1 p.cfg (orderedInsert t [])).1 (p.lists ++ [(t.sender, [])]),
        cntSenders := p.cntSenders + 1 }) p.cfg hL hso ht (Or.inr ⟨hlk, rfl⟩) (by simp) e1 e2
    exact ⟨[], _, Or.inr ⟨rfl, rfl⟩, h1, h2, h3, h4, h5⟩
  · have hml : (t.sender, l) ∈ p.lists := alookup_some_mem hlk
    have hlsorted : ListSorted l := hso _ _ hml
    have hins := insertTx_eq_orderedInsert t l hlsorted
    by_cases hd : ∃ c ∈ l, c.nonce = t.nonce ∧ c.gasPrice = t.gasPrice ∧ c.hash = t.hash
    · -- the transaction is already in the list: nothing changes
      rw [if_pos hd] at hins
      have heq : listSection p a t = (p, a, []) := by
        simp only [listSection, fetchList, hlk, hins]
      rw [heq]
      obtain ⟨c, hc, -, -, hch⟩ := hd
      have hct : c = t := wf_inj (hL.wfLists _ _ hml c hc).1 ht hch
      rw [hct] at hc
      refine ⟨l, l, Or.inl rfl, fun x hx => Or.inl hx, Or.inl hc, hL, hso, ?_⟩
      intro s0 l0
      constructor
      · intro hm
        by_cases hs : s0 = t.sender
        · subst hs
          have := alookup_of_mem hL.sendersNodup hm
          rw [hlk] at this
          exact Or.inr ⟨rfl, (Option.some.inj this).symm, List.ne_nil_of_mem hc⟩
        · exact Or.inl ⟨hm, hs⟩
      · rintro (⟨hm, -⟩ | ⟨rfl, rfl, -⟩)
        · exact hm
        · exact hml
    · rw [if_neg hd] at hins
      have heq : listSection p a t =
          (removeSenderIfEmpty { p with lists := aset t.sender (trim1 p.cfg (orderedInsert t l)).1 p.lists } t.sender,
           true, (trim1 p.cfg (orderedInsert t l)).2.map (·.hash)) := by
        simp only [listSection, fetchList, hlk, hins]
      rw [heq]
      have e2 : p.cntSenders = ((aset t.sender (trim1 p.cfg (orderedInsert t l)).1 p.lists).length : Int) := by
        rw [length_aset_of_present _ (mem_keys_of_mem hml)]
        exact hL.cntSenders
      obtain ⟨h1, h2, h3, h4, h5⟩ := insert_trim
        (q0 := { p with lists := aset t.sender (trim1 p.cfg (orderedInsert t l)).1 p.lists })
        p.cfg hL hso ht (Or.inl hlk) hd rfl e2
      exact ⟨l, _, Or.inl rfl, h1, h2, h3, h4, h5⟩

/-- section (A): both invariants are kept, the returned hashes becoming pending -/
theorem add_ok {U : Bytes → Tx} {p : Pool} {pend : List Bytes} {t : Tx} (hP : PoolOk U p) (hno : NoOrphanP p pend)
    (ht : WfTx U t) :
    PoolOk U (addSection p t).1 ∧ NoOrphanP (addSection p t).1 (pend ++ (addSection p t).2.2) := by
  obtain ⟨hH, el, ec, hmem⟩ := hashAdd_spec hP.hashOk ht
  have hL : ListsOk U (hashAdd p t).1 := listsOk_of_eq hP.listsOk el ec
  have hso : ListsSorted (hashAdd p t).1 := by
    intro s l hm
    rw [el] at hm
    exact hP.sorted s l hm
  obtain ⟨l, l', hl, hcov, htl, hLr, hsor, hchar⟩ := listSection_spec (hashAdd p t).2 hL hso ht
  obtain ⟨eb, ect, enb⟩ := listSection_hashPart (hashAdd p t).1 (hashAdd p t).2 t
  unfold addSection
  refine ⟨⟨hH.of_eq eb ect enb, hLr, hsor⟩, ?_⟩
  rw [el] at hl hchar
  refine noOrphan_set (fun h x hm => (hP.hashOk.wfHash h x hm).1) hP.listsOk.sendersNodup hno
    (fun k hk => List.mem_append_left _ hk) hl hchar ?_ ?_
  · intro k x hx
    rw [eb] at hx
    rcases hmem k x hx with hx | ⟨rfl, rfl⟩
    · exact Or.inl hx
    · rcases htl with h' | h'
      · exact Or.inr (Or.inl ⟨rfl, h'⟩)
      · exact Or.inr (Or.inr (List.mem_append_right _ h'))
  · intro x hx hxl
    rcases hcov x hx with h' | h'
    · exact absurd h' hxl
    · exact Or.inl (List.mem_append_right _ h')

/-! #### the system -/

/-- the companion invariant of a configuration -/
def WfConf (U : Bytes → Tx) (c : Conf) : Prop := PoolOk U c.pool

theorem noOrphan_iff (c : Conf) : NoOrphan c ↔ NoOrphanP c.pool c.pending.flatten := Iff.rfl

theorem init_ok (U : Bytes → Tx) (cfg : Config) : WfConf U (Conf.init cfg) ∧ NoOrphan (Conf.init cfg) := by
  refine ⟨⟨hashOk_of_inv (Inv.init U cfg), listsOk_of_inv (Inv.init U cfg), ListsSorted.init cfg⟩, ?_⟩
  intro h x hx
  simp [Conf.init, Pool.init] at hx

/-- BOTH invariants are inductive: every section keeps them (an added transaction has to be well formed) -/
theorem step_ok {U : Bytes → Tx} {c : Conf} (st : Step) (hw : ∀ t, st = Step.add t → WfTx U t)
    (hP : WfConf U c) (hno : NoOrphan c) : WfConf U (c.step st) ∧ NoOrphan (c.step st) := by
  unfold WfConf at hP ⊢
  rw [noOrphan_iff] at hno ⊢
  cases st with
  | add t =>
    have := add_ok hP hno (hw t rfl)
    simpa [Conf.step, List.flatten_append] using this
  | drop i =>
    simp only [Conf.step]
    split
    · exact ⟨hP, hno⟩
    · next hs hi =>
      refine removeBulk_ok hs hP hno ?_
      intro k hk
      by_cases hkh : k ∈ hs
      · exact Or.inl hkh
      · right
        obtain ⟨e, he, hke⟩ := List.mem_flatten.mp hk
        refine List.mem_flatten.mpr ⟨e, ?_, hke⟩
        obtain ⟨j, hj, hje⟩ := List.getElem_of_mem he
        refine List.mem_eraseIdx_iff_getElem.mpr ⟨j, hj, ?_, hje⟩
        intro hji
        subst hji
        rw [List.getElem?_eq_getElem hj] at hi
        simp only [Option.some.injEq] at hi
        rw [hi] at hje
        subst hje
        exact hkh hke
  | rm h => exact rm_ok h hP hno
  | clear =>
    refine ⟨⟨?_, ?_, ListsSorted.clear _ _⟩, ?_⟩
    · refine ⟨?_, ?_, ?_, ?_⟩ <;> simp [Conf.step, SV.TxCache.clear, Variant.current, sumSizes]
    · refine ⟨?_, ?_, ?_, ?_, ?_⟩ <;> simp [Conf.step, SV.TxCache.clear, Variant.current]
    · intro h x hx
      simp [Conf.step, SV.TxCache.clear] at hx
  | evictPass victims => exact evictPass_ok victims hP hno

theorem steps_ok {U : Bytes → Tx} (steps : List Step) : ∀ (c : Conf), (∀ t, Step.add t ∈ steps → WfTx U t) →
    WfConf U c → NoOrphan c → WfConf U (steps.foldl Conf.step c) ∧ NoOrphan (steps.foldl Conf.step c) := by
  induction steps with
  | nil => intro c _ hP hno; exact ⟨hP, hno⟩
  | cons st steps ih =>
    intro c hw hP hno
    rw [List.foldl_cons]
    obtain ⟨h1, h2⟩ := step_ok st (fun t e => hw t (by rw [e]; exact List.mem_cons_self ..)) hP hno
    exact ih _ (fun t ht => hw t (List.mem_cons_of_mem _ ht)) h1 h2

/-- the companion invariant holds after every interleaving of the sections -/
theorem wfConf_run (U : Bytes → Tx) (cfg : Config) (steps : List Step) (hw : ∀ t, Step.add t ∈ steps → WfTx U t) :
    WfConf U (Conf.run cfg steps) :=
  (steps_ok steps _ hw (init_ok U cfg).1 (init_ok U cfg).2).1

/-- C14 at section granularity: after EVERY interleaving of the critical sections of any number of concurrent `AddTx`,
    `RemoveTxByHash`, `Clear` and eviction passes (over arbitrary, possibly stale, victim lists), every transaction
    reachable by hash is held by its sender's list or its removal from the hash index is pending -/
theorem noOrphan_run (U : Bytes → Tx) (cfg : Config) (steps : List Step) (hw : ∀ t, Step.add t ∈ steps → WfTx U t) :
    NoOrphan (Conf.run cfg steps) :=
  (steps_ok steps _ hw (init_ok U cfg).1 (init_ok U cfg).2).2

/-- at quiescence (no `AddTx` in flight) nothing reachable by hash is unselectable / unevictable -/
theorem quiescent_no_orphan (U : Bytes → Tx) (cfg : Config) (steps : List Step)
    (hw : ∀ t, Step.add t ∈ steps → WfTx U t) (hq : (Conf.run cfg steps).pending = []) :
    ∀ h x, (h, x) ∈ (Conf.run cfg steps).pool.byHash →
      ∃ l, (x.sender, l) ∈ (Conf.run cfg steps).pool.lists ∧ x ∈ l := by
  intro h x hx
  rcases noOrphan_run U cfg steps hw h x hx with h' | h'
  · exact h'
  · rw [hq] at h'
    simp at h'

/-- the same in terms of the map look-ups of the code: `GetByTxHash` finds `x` ⇒ the list fetched for `x`'s sender holds `x` -/
theorem quiescent_lookup (U : Bytes → Tx) (cfg : Config) (steps : List Step)
    (hw : ∀ t, Step.add t ∈ steps → WfTx U t) (hq : (Conf.run cfg steps).pending = []) (h : Bytes) (x : Tx)
    (hx : alookup h (Conf.run cfg steps).pool.byHash = some x) :
    x.hash = h ∧ ∃ l, alookup x.sender (Conf.run cfg steps).pool.lists = some l ∧ x ∈ l := by
  have hP := wfConf_run U cfg steps hw
  have hm := alookup_some_mem hx
  obtain ⟨l, hml, hxl⟩ := quiescent_no_orphan U cfg steps hw hq h x hm
  exact ⟨(hP.hashOk.wfHash h x hm).1, l, alookup_of_mem hP.listsOk.sendersNodup hml, hxl⟩

/-! ### 4. the invariant is one-sided: `Inv`'s two-sided agreement fails at section granularity -/

namespace Ex

def cfg : Config := ⟨false, 100000, 100000, 100, 1, 1⟩      -- one transaction per sender
def x : Tx := ⟨[1], [0xa0], 1, 5, 1, 10, 10, 0, []⟩
def y : Tx := ⟨[2], [0xa0], 2, 5, 1, 10, 10, 0, []⟩
def w : Tx := ⟨[3], [0xb0], 1, 5, 1, 10, 10, 0, []⟩
def q : Tx := ⟨[4], [0xc0], 7, 5, 1, 10, 10, 0, []⟩           -- never added
def U (h : Bytes) : Tx := if h = [1] then x else if h = [2] then y else if h = [3] then w else q

theorem wf_x : WfTx U x := by unfold WfTx; decide
theorem wf_y : WfTx U y := by unfold WfTx; decide
theorem wf_w : WfTx U w := by unfold WfTx; decide

/-- call 0 adds `y` behind `x` and trims it at once (its hash stays indexed, the removal is pending); `x` is removed;
    call 1 adds `y` again: the hash index refuses it ("already there"), the list takes it; now call 0 performs its
    pending removal: `y` is LISTED BUT NOT HASHED — the "slight inconsistency" of the source comment.
    (Five steps: for `y` to be trimmed by its first insertion but not by its second, with the same limits, the list
    must hold something else at the first insertion only — one step to add it, one to remove it.) -/
def twoSided : List Step := [.add x, .add y, .rm x.hash, .add y, .drop 1]

theorem twoSided_wf : ∀ t, Step.add t ∈ twoSided → WfTx U t := by
  intro t ht
  simp only [twoSided, List.mem_cons, Step.add.injEq, List.not_mem_nil, or_false, reduceCtorEq, false_or] at ht
  rcases ht with rfl | rfl | rfl
  · exact wf_x
  · exact wf_y
  · exact wf_y

end Ex

/-- `y` ends up listed but not hashed (and stays so at quiescence, after the other calls have done their empty (A')):
    the two-sided agreement `Inv.same` of the sequential model is NOT an invariant of the concurrent system -/
theorem two_sided_fails :
    (Conf.run Ex.cfg Ex.twoSided).pool.lists = [([0xa0], [Ex.y])] ∧
    alookup Ex.y.hash (Conf.run Ex.cfg Ex.twoSided).pool.byHash = none ∧
    (Conf.run Ex.cfg (Ex.twoSided ++ [.drop 0, .drop 0])).pending = [] ∧
    (Conf.run Ex.cfg (Ex.twoSided ++ [.drop 0, .drop 0])).pool.lists = [([0xa0], [Ex.y])] ∧
    (Conf.run Ex.cfg (Ex.twoSided ++ [.drop 0, .drop 0])).pool.byHash = [] := by decide

theorem two_sided_fails_inv : ¬ Inv Ex.U (Conf.run Ex.cfg Ex.twoSided).pool := by
  intro hI
  have h1 := (hI.same Ex.y).mpr ⟨[0xa0], [Ex.y], by decide, by decide⟩
  revert h1
  decide

/-- …while the one-sided invariant and the companion invariant hold there, by the theorems -/
example : NoOrphan (Conf.run Ex.cfg Ex.twoSided) ∧ WfConf Ex.U (Conf.run Ex.cfg Ex.twoSided) :=
  ⟨noOrphan_run Ex.U Ex.cfg Ex.twoSided Ex.twoSided_wf, wfConf_run Ex.U Ex.cfg Ex.twoSided Ex.twoSided_wf⟩

/-! ### 5. non-vacuity: an eviction pass over a stale victim list, with a removal pending -/

namespace Ex

/-- `y` is trimmed by its own `AddTx` (removal pending); the eviction pass works on a STALE snapshot: `y` (no longer
    listed), `w` (pooled) and `q` (never pooled) -/
def stale : List Step := [.add x, .add w, .add y, .evictPass [y, w, q]]

theorem stale_wf : ∀ t, Step.add t ∈ stale → WfTx U t := by
  intro t ht
  simp only [stale, List.mem_cons, Step.add.injEq, List.not_mem_nil, or_false, reduceCtorEq] at ht
  rcases ht with rfl | rfl | rfl
  · exact wf_x
  · exact wf_w
  · exact wf_y

/-- …followed by the pending (A') sections -/
def staleQ : List Step := [.add x, .add w, .add y, .evictPass [y, w, q], .drop 2, .drop 7, .drop 0, .drop 0]

theorem staleQ_wf : ∀ t, Step.add t ∈ staleQ → WfTx U t := by
  intro t ht
  simp only [staleQ, List.mem_cons, Step.add.injEq, List.not_mem_nil, or_false, reduceCtorEq] at ht
  rcases ht with rfl | rfl | rfl
  · exact wf_x
  · exact wf_w
  · exact wf_y

end Ex

/-- before the pass: `y` is reachable by hash, held by NO list, and its hash is pending — the second disjunct of
    `NoOrphan` is needed -/
example :
    alookup Ex.y.hash (Conf.run Ex.cfg [.add Ex.x, .add Ex.w, .add Ex.y]).pool.byHash = some Ex.y ∧
    (∀ e ∈ (Conf.run Ex.cfg [.add Ex.x, .add Ex.w, .add Ex.y]).pool.lists, Ex.y ∉ e.2) ∧
    (Conf.run Ex.cfg [.add Ex.x, .add Ex.w, .add Ex.y]).pending = [[], [], [Ex.y.hash]] := by decide

/-- after the pass over the stale victims: `w`'s list is gone, `y`'s hash is gone, `x` stays in both indexes, the
    removal of `y`'s hash is still pending; then the pending sections run and the system is quiescent -/
example :
    (Conf.run Ex.cfg Ex.stale).pool.lists = [([0xa0], [Ex.x])] ∧
    (Conf.run Ex.cfg Ex.stale).pool.byHash = [([1], Ex.x)] ∧
    (Conf.run Ex.cfg Ex.stale).pending = [[], [], [Ex.y.hash]] ∧
    (Conf.run Ex.cfg Ex.staleQ).pending = [] ∧
    (Conf.run Ex.cfg Ex.staleQ).pool.byHash = [([1], Ex.x)] := by decide

/-- the hypotheses of `noOrphan_run` are met by that run -/
example : NoOrphan (Conf.run Ex.cfg Ex.stale) := noOrphan_run Ex.U Ex.cfg Ex.stale Ex.stale_wf

/-- …and those of `quiescent_no_orphan` / `quiescent_lookup` by its quiescent continuation -/
example : Ex.x.hash = [1] ∧ ∃ l, alookup Ex.x.sender (Conf.run Ex.cfg Ex.staleQ).pool.lists = some l ∧ Ex.x ∈ l :=
  quiescent_lookup Ex.U Ex.cfg Ex.staleQ Ex.staleQ_wf (by decide) [1] Ex.x (by decide)

example : ∀ h x, (h, x) ∈ (Conf.run Ex.cfg Ex.staleQ).pool.byHash →
    ∃ l, (x.sender, l) ∈ (Conf.run Ex.cfg Ex.staleQ).pool.lists ∧ x ∈ l :=
  quiescent_no_orphan Ex.U Ex.cfg Ex.staleQ Ex.staleQ_wf (by decide)

/-- the sequential insertion is the special case "(A) immediately followed by its (A')" of the system -/
theorem step_add_drop (c : Conf) (t : Tx) :
    ((c.step (.add t)).step (.drop c.pending.length)).pool = (addTxCore Variant.current c.pool t).1 ∧
    ((c.step (.add t)).step (.drop c.pending.length)).pending = c.pending := by
  have h1 : (c.pending ++ [(addSection c.pool t).2.2])[c.pending.length]? = some (addSection c.pool t).2.2 := by
    simp
  have h2 : (c.pending ++ [(addSection c.pool t).2.2]).eraseIdx c.pending.length = c.pending := by
    rw [List.eraseIdx_append_of_length_le (Nat.le_refl _)]
    simp
  simp only [Conf.step, h1, h2, addTxCore_eq_sections, and_self]

end SV.TxCache.Sections

