/-
  SV.TxCache.SessionWrapper — the selection session wrapper (`selectionSessionWrapper.go`): ONE lazily filled memo
  table `recordsByAddress : address ↦ {initialNonce, initialBalance, consumedBalance}` in front of an arbitrary
  (stateful, possibly inconsistent) external session.  The loop `selectLoopW` consults the table exactly where
  `selection.go` / `transactionsHeapItem.go` do and in the same order; it is proved to REFINE the pure loop
  `selectLoop` of `Model.lean` for the session made of the first answer the oracle gave for each address
  (properties C01, C02: "all session answers").

  Modelling notes
  * `Oracle n a` is the answer of the `n`-th `GetAccountState` call (counted over the whole run, all addresses)
    when that call is made for address `a`; `none` = error.  Nothing is assumed about it.
  * The Go table holds POINTERS to records; a record is reachable only through the table, is stored once (on the
    miss) and never replaced.  Hence "mutate through the pointer" = "update the entry of that address", and two
    pointers alias exactly when the two addresses are equal (`W.addConsumed` by address, applied twice).
  * Like `classify`, the wrapper loop uses `it.cur.sender` for `item.sender` (one bunch = one sender, `ItemOk`).
  * `IsIncorrectlyGuarded` stays a pure function `guard : Tx → Bool` (asked once per transaction).
-/
import SV.TxCache.SelProofs
import SV.TxCache.PoolInv
namespace SV.TxCache
namespace SW

/-! ### 1. the wrapper state -/

/-- answer of the `n`-th `GetAccountState` call if it is made for this address: `some (nonce, balance)` or an error -/
abbrev Oracle := Nat → Bytes → Option (Nat × Nat)

/-- `accountRecord` -/
structure Rec where
  nonce : Nat
  balance : Nat
  consumed : Nat
  deriving Repr, DecidableEq

/-- the record built from an answer: on error nonce 0, balance 0; consumed balance 0 -/
def Rec.ofAnswer : Option (Nat × Nat) → Rec
  | some (n, b) => ⟨n, b, 0⟩
  | none => ⟨0, 0, 0⟩

/-- `selectionSessionWrapper`: the memo table, and the number of `GetAccountState` calls made so far -/
structure W where
  records : List (Bytes × Rec)
  calls : Nat
  deriving Repr, DecidableEq

def W.empty : W := ⟨[], 0⟩

/-- `getAccountRecord`: memo hit — state unchanged, the oracle is not consulted; miss — ask once, store -/
def W.getRecord (o : Oracle) (w : W) (a : Bytes) : W × Rec :=
  match alookup a w.records with
  | some r => (w, r)
  | none =>
    let r := Rec.ofAnswer (o w.calls a)
    ({ records := aset a r w.records, calls := w.calls + 1 }, r)

/-- `record.consumedBalance.Add(record.consumedBalance, d)` through the pointer stored for address `a` -/
def W.addConsumed (w : W) (a : Bytes) (d : Nat) : W :=
  match alookup a w.records with
  | some r => { w with records := aset a { r with consumed := r.consumed + d } w.records }
  | none => w

/-- `accumulateConsumedBalance`: two `getAccountRecord` calls (sender, then fee payer), then the two updates.
    When sender = fee payer both pointers are the same record: the second update sees the first. -/
def W.accumulate (o : Oracle) (w : W) (t : Tx) : W :=
  let w1 := (w.getRecord o t.sender).1
  let w2 := (w1.getRecord o t.payer).1
  (w2.addConsumed t.sender t.value).addConsumed t.payer t.fee

/-! ### 2. the loop over the wrapper -/

/-- `detectSkippableSender` then `detectSkippableTransaction`, with the table threaded through:
    `getNonce(sender)`; gaps; `detectWillFeeExceedBalance` (record of the fee payer — only reached when there is no
    gap); `getNonce(sender)` again; lower nonce; guard; duplicate. -/
def classifyW (o : Oracle) (guard : Tx → Bool) (w : W) (it : HItem) : W × Verdict :=
  let g1 := w.getRecord o it.cur.sender
  if (it.latest.isNone && decide (it.cur.nonce > g1.2.nonce)) then (g1.1, .dropSender)
  else if (match it.latest with | some l => decide (it.cur.nonce > l + 1) | none => false) then (g1.1, .dropSender)
  else
    let g2 := g1.1.getRecord o it.cur.payer
    if decide (g2.2.consumed + it.cur.fee > g2.2.balance) then (g2.1, .dropSender)
    else
      let g3 := g2.1.getRecord o it.cur.sender
      if decide (it.cur.nonce < g3.2.nonce) then (g3.1, .skipTx)
      else if guard it.cur then (g3.1, .skipTx)
      else if (match it.latest with | some l => decide (it.cur.nonce = l) | none => false) then (g3.1, .skipTx)
      else (g3.1, .take)

/-- the selection loop over the wrapper; returns the result AND the final wrapper state -/
def selectLoopWS (v : Variant) (pick : List HItem → Option (HItem × List HItem)) (o : Oracle) (guard : Tx → Bool)
    (q : SelParams) : Nat → List HItem → W → Nat → List Tx → (List Tx × Nat) × W
  | 0, _, w, acc, out => ((out, acc), w)
  | fuel + 1, heap, w, acc, out =>
    match pick heap with
    | none => ((out, acc), w)
    | some (it, heap') =>
      if gasExceeded v acc it.cur.gasLimit q.gasReq then ((out, acc), w)
      else if out.length ≥ q.maxNum then ((out, acc), w)
      else if out.length % q.interval = 0 && q.stop out.length then ((out, acc), w)
      else
        let c := classifyW o guard w it
        match c.2 with
        | .dropSender => selectLoopWS v pick o guard q fuel heap' c.1 acc out
        | .skipTx =>
          match it.advance with
          | none => selectLoopWS v pick o guard q fuel heap' c.1 acc out
          | some it' => selectLoopWS v pick o guard q fuel (it' :: heap') c.1 acc out
        | .take =>
          let t := it.cur
          let w' := c.1.accumulate o t
          let acc' := if v.gasWraps then (acc + t.gasLimit) % two64 else acc + t.gasLimit
          let itS := { it with latest := some t.nonce }
          match itS.advance with
          | none => selectLoopWS v pick o guard q fuel heap' w' acc' (out ++ [t])
          | some it' => selectLoopWS v pick o guard q fuel (it' :: heap') w' acc' (out ++ [t])

/-- what `selectTransactionsFromBunches` returns: the selected transactions and the accumulated gas -/
def selectLoopW (v : Variant) (pick : List HItem → Option (HItem × List HItem)) (o : Oracle) (guard : Tx → Bool)
    (q : SelParams) (fuel : Nat) (heap : List HItem) (w : W) (acc : Nat) (out : List Tx) : List Tx × Nat :=
  (selectLoopWS v pick o guard q fuel heap w acc out).1

/-- the memo table at the end of the run -/
def finalW (v : Variant) (pick : List HItem → Option (HItem × List HItem)) (o : Oracle) (guard : Tx → Bool)
    (q : SelParams) (fuel : Nat) (heap : List HItem) (w : W) (acc : Nat) (out : List Tx) : W :=
  (selectLoopWS v pick o guard q fuel heap w acc out).2

/-- `selectTransactionsFromBunches` over the wrapper -/
def selectFromBunchesW (v : Variant) (o : Oracle) (guard : Tx → Bool) (q : SelParams) (bunches : List (List Tx)) :
    List Tx × Nat :=
  selectLoopW v (popBest v) o guard q (bunchesTotal bunches + 1) (initHeap bunches) W.empty 0 []

/-! ### 3. the abstraction -/

/-- the pure session a wrapper state stands for: the memo table where it has an entry, `s₀` elsewhere -/
def W.session (w : W) (s₀ : Session) : Session where
  nonce a := match alookup a w.records with | some r => r.nonce | none => s₀.nonce a
  balance a := match alookup a w.records with | some r => r.balance | none => s₀.balance a
  badGuard := s₀.badGuard

/-- the consumed balances a wrapper state stands for -/
def W.consumed (w : W) : Bytes → Nat :=
  fun a => match alookup a w.records with | some r => r.consumed | none => 0

/-- the default session: every account unresolved (nonce 0, balance 0) -/
def zeroSession (guard : Tx → Bool) : Session := ⟨fun _ => 0, fun _ => 0, guard⟩

/-- every memoised entry agrees with the pure session `s` -/
def Agree (w : W) (s : Session) : Prop :=
  ∀ a r, alookup a w.records = some r → s.nonce a = r.nonce ∧ s.balance a = r.balance

/-- the table is only ever extended: an entry keeps its nonce and balance for ever -/
def Ext (w w' : W) : Prop :=
  ∀ a r, alookup a w.records = some r → ∃ r', alookup a w'.records = some r' ∧ r'.nonce = r.nonce ∧ r'.balance = r.balance

/-- the table is the log of the oracle calls: entry number `i` was filled by call number `i`, for that address,
    and no address occurs twice -/
def okFrom (o : Oracle) : Nat → List (Bytes × Rec) → Prop
  | _, [] => True
  | i, (a, r) :: rest =>
    r.nonce = (Rec.ofAnswer (o i a)).nonce ∧ r.balance = (Rec.ofAnswer (o i a)).balance ∧
    alookup a rest = none ∧ okFrom o (i + 1) rest

structure W.Ok (o : Oracle) (w : W) : Prop where
  calls : w.calls = w.records.length
  log : okFrom o 0 w.records

/-! ### basic facts about `Ext`, `Agree` -/

theorem Ext.refl (w : W) : Ext w w := fun _ r h => ⟨r, h, rfl, rfl⟩

theorem Ext.trans {a b c : W} (h1 : Ext a b) (h2 : Ext b c) : Ext a c := by
  intro x r h
  obtain ⟨r1, e1, n1, b1⟩ := h1 x r h
  obtain ⟨r2, e2, n2, b2⟩ := h2 x r1 e1
  exact ⟨r2, e2, n2.trans n1, b2.trans b1⟩

/-- a session that agrees with a later table agrees with every earlier one -/
theorem Agree.of_ext {w w' : W} {s : Session} (h : Agree w' s) (e : Ext w w') : Agree w s := by
  intro a r hr
  obtain ⟨r', e', n, b⟩ := e a r hr
  have := h a r' e'
  exact ⟨this.1.trans n, this.2.trans b⟩

theorem agree_session (w : W) (s₀ : Session) : Agree w (W.session w s₀) := by
  intro a r h
  simp [W.session, h]

theorem consumed_of_lookup {w : W} {a : Bytes} {r : Rec} (h : alookup a w.records = some r) :
    W.consumed w a = r.consumed := by
  simp [W.consumed, h]

/-! ### `okFrom` -/

theorem length_aset_absent {a : Bytes} (r : Rec) {l : List (Bytes × Rec)} (h : alookup a l = none) :
    (aset a r l).length = l.length + 1 := by
  rw [C5.aset_of_absent r h]; simp

theorem length_aset_present {a : Bytes} (r : Rec) {l : List (Bytes × Rec)} {r0 : Rec} (h : alookup a l = some r0) :
    (aset a r l).length = l.length := by
  apply C5.length_aset_of_present
  apply Classical.byContradiction
  intro hn
  rw [(C5.alookup_none_iff).mpr hn] at h
  cases h

theorem okFrom_aset_absent (o : Oracle) {a : Bytes} :
    ∀ (l : List (Bytes × Rec)) (i : Nat), okFrom o i l → alookup a l = none →
      okFrom o i (aset a (Rec.ofAnswer (o (i + l.length) a)) l) := by
  intro l
  induction l with
  | nil => intro i _ _; simp [aset, okFrom, alookup]
  | cons e rest ih =>
    intro i h hn
    obtain ⟨k, rk⟩ := e
    obtain ⟨h1, h2, h3, h4⟩ := h
    simp only [alookup] at hn
    split at hn
    · cases hn
    · rename_i hk
      have hne : k ≠ a := fun e => hk (by simp [e])
      simp only [aset, hk]
      refine ⟨h1, h2, ?_, ?_⟩
      · rw [C5.alookup_aset_ne _ _ hne]; exact h3
      · have := ih (i + 1) h4 hn
        have e : i + 1 + rest.length = i + (List.length ((k, rk) :: rest)) := by simp; omega
        rw [e] at this
        exact this

theorem okFrom_aset_present (o : Oracle) {a : Bytes} {r r' : Rec} (hn : r'.nonce = r.nonce) (hb : r'.balance = r.balance) :
    ∀ (l : List (Bytes × Rec)) (i : Nat), okFrom o i l → alookup a l = some r → okFrom o i (aset a r' l) := by
  intro l
  induction l with
  | nil => intro i _ h; simp [alookup] at h
  | cons e rest ih =>
    intro i h hl
    obtain ⟨k, rk⟩ := e
    obtain ⟨h1, h2, h3, h4⟩ := h
    simp only [alookup] at hl
    split at hl
    · rename_i hk
      have e := eq_of_beq hk
      subst e
      simp only [Option.some.injEq] at hl
      subst hl
      simp only [aset, hk]
      exact ⟨hn.trans h1, hb.trans h2, h3, h4⟩
    · rename_i hk
      have hne : k ≠ a := fun e => hk (by simp [e])
      simp only [aset, hk]
      refine ⟨h1, h2, ?_, ih (i + 1) h4 hl⟩
      rw [C5.alookup_aset_ne _ _ hne]; exact h3

/-- an entry of a well-formed log is the answer of the call with the entry's index -/
theorem okFrom_lookup (o : Oracle) {a : Bytes} {r : Rec} :
    ∀ (l : List (Bytes × Rec)) (i : Nat), okFrom o i l → alookup a l = some r →
      ∃ k, i ≤ k ∧ k < i + l.length ∧
        r.nonce = (Rec.ofAnswer (o k a)).nonce ∧ r.balance = (Rec.ofAnswer (o k a)).balance := by
  intro l
  induction l with
  | nil => intro i _ h; simp [alookup] at h
  | cons e rest ih =>
    intro i h hl
    obtain ⟨k, rk⟩ := e
    obtain ⟨h1, h2, _, h4⟩ := h
    simp only [alookup] at hl
    split at hl
    · rename_i hk
      have e := eq_of_beq hk
      subst e
      simp only [Option.some.injEq] at hl
      subst hl
      exact ⟨i, Nat.le_refl _, by simp, h1, h2⟩
    · obtain ⟨j, j1, j2, j3⟩ := ih (i + 1) h4 hl
      exact ⟨j, by omega, by simp; omega, j3⟩

theorem okFrom_nodup (o : Oracle) :
    ∀ (l : List (Bytes × Rec)) (i : Nat), okFrom o i l → (l.map (·.1)).Nodup := by
  intro l
  induction l with
  | nil => intro _ _; simp
  | cons e rest ih =>
    intro i h
    obtain ⟨k, rk⟩ := e
    obtain ⟨_, _, h3, h4⟩ := h
    simp only [List.map_cons, List.nodup_cons]
    exact ⟨(C5.alookup_none_iff).mp h3, ih (i + 1) h4⟩

theorem ok_empty (o : Oracle) : W.Ok o W.empty := ⟨rfl, trivial⟩

/-! ### `getRecord` -/

theorem getRecord_hit {o : Oracle} {w : W} {a : Bytes} {r : Rec} (h : alookup a w.records = some r) :
    w.getRecord o a = (w, r) := by
  simp [W.getRecord, h]

/-- a miss appends the answer of call number `w.calls` at the end of the table -/
theorem getRecord_miss {o : Oracle} {w : W} {a : Bytes} (h : alookup a w.records = none) :
    w.getRecord o a =
      (⟨w.records ++ [(a, Rec.ofAnswer (o w.calls a))], w.calls + 1⟩, Rec.ofAnswer (o w.calls a)) := by
  simp [W.getRecord, h, C5.aset_of_absent _ h]

theorem getRecord_miss' {o : Oracle} {w : W} {a : Bytes} (h : alookup a w.records = none) :
    w.getRecord o a =
      (⟨aset a (Rec.ofAnswer (o w.calls a)) w.records, w.calls + 1⟩, Rec.ofAnswer (o w.calls a)) := by
  simp [W.getRecord, h]

/-- a memo hit does not depend on the oracle at all -/
theorem getRecord_hit_indep {o o' : Oracle} {w : W} {a : Bytes} {r : Rec} (h : alookup a w.records = some r) :
    w.getRecord o a = w.getRecord o' a := by
  rw [getRecord_hit h, getRecord_hit h]

theorem getRecord_lookup (o : Oracle) (w : W) (a : Bytes) :
    alookup a (w.getRecord o a).1.records = some (w.getRecord o a).2 := by
  cases h : alookup a w.records with
  | some r => rw [getRecord_hit h]; exact h
  | none => rw [getRecord_miss' h]; exact C5.alookup_aset_self _ _ _

theorem getRecord_lookup_ne (o : Oracle) (w : W) {a b : Bytes} (hne : b ≠ a) :
    alookup b (w.getRecord o a).1.records = alookup b w.records := by
  cases h : alookup a w.records with
  | some r => rw [getRecord_hit h]
  | none => rw [getRecord_miss' h]; exact C5.alookup_aset_ne _ _ hne

theorem getRecord_ext (o : Oracle) (w : W) (a : Bytes) : Ext w (w.getRecord o a).1 := by
  intro b r hb
  by_cases hba : b = a
  · subst hba
    rw [getRecord_hit hb]
    exact ⟨r, hb, rfl, rfl⟩
  · exact ⟨r, by rw [getRecord_lookup_ne o w hba]; exact hb, rfl, rfl⟩

theorem getRecord_consumed (o : Oracle) (w : W) (a : Bytes) : W.consumed (w.getRecord o a).1 = W.consumed w := by
  funext b
  by_cases hba : b = a
  · subst hba
    cases h : alookup b w.records with
    | some r => rw [getRecord_hit h]
    | none =>
      have := getRecord_lookup o w b
      rw [getRecord_miss' h] at this ⊢
      simp only [W.consumed, this, h]
      cases o w.calls b with
      | none => rfl
      | some p => rfl
  · simp only [W.consumed, getRecord_lookup_ne o w hba]

theorem getRecord_ok {o : Oracle} {w : W} (a : Bytes) (h : W.Ok o w) : W.Ok o (w.getRecord o a).1 := by
  cases hl : alookup a w.records with
  | some r => rw [getRecord_hit hl]; exact h
  | none =>
    rw [getRecord_miss' hl]
    constructor
    · simp only; rw [length_aset_absent _ hl, h.calls]
    · have := okFrom_aset_absent o w.records 0 h.log hl
      simp only [Nat.zero_add] at this
      simp only
      rw [h.calls]
      exact this

/-! ### `addConsumed`, `accumulate` -/

theorem addConsumed_lookup_self {w : W} {a : Bytes} {r : Rec} (d : Nat) (h : alookup a w.records = some r) :
    alookup a (w.addConsumed a d).records = some { r with consumed := r.consumed + d } := by
  simp only [W.addConsumed, h]
  exact C5.alookup_aset_self _ _ _

theorem addConsumed_lookup_ne (w : W) (a : Bytes) (d : Nat) {b : Bytes} (hne : b ≠ a) :
    alookup b (w.addConsumed a d).records = alookup b w.records := by
  unfold W.addConsumed
  split
  · exact C5.alookup_aset_ne _ _ hne
  · rfl

theorem addConsumed_ext (w : W) (a : Bytes) (d : Nat) : Ext w (w.addConsumed a d) := by
  intro b r hb
  by_cases hba : b = a
  · subst hba
    exact ⟨_, addConsumed_lookup_self d hb, rfl, rfl⟩
  · exact ⟨r, by rw [addConsumed_lookup_ne w a d hba]; exact hb, rfl, rfl⟩

theorem addConsumed_consumed {w : W} {a : Bytes} {r : Rec} (d : Nat) (h : alookup a w.records = some r) :
    W.consumed (w.addConsumed a d) = bump (W.consumed w) a d := by
  funext b
  by_cases hba : b = a
  · subst hba
    simp [W.consumed, bump, addConsumed_lookup_self d h, h]
  · simp [W.consumed, bump, addConsumed_lookup_ne w a d hba, hba]

theorem addConsumed_ok {o : Oracle} {w : W} (a : Bytes) (d : Nat) (h : W.Ok o w) : W.Ok o (w.addConsumed a d) := by
  unfold W.addConsumed
  split
  · rename_i r hl
    constructor
    · simp only; rw [length_aset_present _ hl]; exact h.calls
    · exact okFrom_aset_present o (r := r) (r' := { r with consumed := r.consumed + d }) rfl rfl w.records 0 h.log hl
  · exact h

theorem accumulate_ext (o : Oracle) (w : W) (t : Tx) : Ext w (w.accumulate o t) := by
  unfold W.accumulate
  exact ((getRecord_ext o w _).trans (getRecord_ext o _ _)).trans
    ((addConsumed_ext _ _ _).trans (addConsumed_ext _ _ _))

theorem accumulate_ok {o : Oracle} {w : W} (t : Tx) (h : W.Ok o w) : W.Ok o (w.accumulate o t) := by
  unfold W.accumulate
  exact addConsumed_ok _ _ (addConsumed_ok _ _ (getRecord_ok _ (getRecord_ok _ h)))

/-- `accumulateConsumedBalance` is `bump … sender value` then `bump … payer fee` on the abstract consumed map —
    also when sender and fee payer are the same account -/
theorem accumulate_consumed (o : Oracle) (w : W) (t : Tx) :
    W.consumed (w.accumulate o t) = bump (bump (W.consumed w) t.sender t.value) t.payer t.fee := by
  unfold W.accumulate
  dsimp only
  -- after the two `getRecord`s both addresses are memoised
  obtain ⟨rs, hs, _, _⟩ := getRecord_ext o (w.getRecord o t.sender).1 t.payer t.sender _ (getRecord_lookup o w t.sender)
  have hp := getRecord_lookup o (w.getRecord o t.sender).1 t.payer
  obtain ⟨rp, hp', _, _⟩ := addConsumed_ext _ t.sender t.value _ _ hp
  rw [addConsumed_consumed _ hp', addConsumed_consumed _ hs, getRecord_consumed, getRecord_consumed]

end SW
end SV.TxCache
