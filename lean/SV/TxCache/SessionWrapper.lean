/-
  SV.TxCache.SessionWrapper — the selection session wrapper (`selectionSessionWrapper.go`): ONE lazily filled memo
  table `recordsByAddress : address ↦ {initialNonce, initialBalance, consumedBalance}` in front of an arbitrary
  (stateful, possibly inconsistent) external session.  The loop `selectLoopW` consults the table exactly where
  `selection.go` / `transactionsHeapItem.go` do and in the same order; it is proved to REFINE the pure loop
  `selectLoop` of `Model.lean` for the session made of the first answer the oracle gave for each address
  (properties C01, C02: "all session answers").

  Modelling notes
  * `Oracle n a` is the answer of the `n`-th `GetAccountState` call (counted over the whole run, all addresses)
    when that call is made for address `a`; `none` = error.  Nothing is assumed about it.
  * The Go table holds POINTERS to records; a record is reachable only through the table, is stored once (on the
    miss) and never replaced.  Hence "mutate through the pointer" = "update the entry of that address", and two
    pointers alias exactly when the two addresses are equal (`W.addConsumed` by address, applied twice).
  * Like `classify`, the wrapper loop uses `it.cur.sender` for `item.sender` (one bunch = one sender, `ItemOk`).
  * `IsIncorrectlyGuarded` stays a pure function `guard : Tx → Bool` (asked once per transaction).
-/
import SV.TxCache.SelProofs
import SV.TxCache.PoolInv
namespace SV.TxCache
namespace SW

/-! ### 1. the wrapper state -/

/-- answer of the `n`-th `GetAccountState` call if it is made for this address: `some (nonce, balance)` or an error -/
abbrev Oracle := Nat → Bytes → Option (Nat × Nat)

/-- `accountRecord` -/
structure Rec where
  nonce : Nat
  balance : Nat
  consumed : Nat
  deriving Repr, DecidableEq

/-- the record built from an answer: on error nonce 0, balance 0; consumed balance 0 -/
def Rec.ofAnswer : Option (Nat × Nat) → Rec
  | some (n, b) => ⟨n, b, 0⟩
  | none => ⟨0, 0, 0⟩

/-- `selectionSessionWrapper`: the memo table, and the number of `GetAccountState` calls made so far -/
structure W where
  records : List (Bytes × Rec)
  calls : Nat
  deriving Repr, DecidableEq

def W.empty : W := ⟨[], 0⟩

/-- `getAccountRecord`: memo hit — state unchanged, the oracle is not consulted; miss — ask once, store -/
def W.getRecord (o : Oracle) (w : W) (a : Bytes) : W × Rec :=
  match alookup a w.records with
  | some r => (w, r)
  | none =>
    let r := Rec.ofAnswer (o w.calls a)
    ({ records := aset a r w.records, calls := w.calls + 1 }, r)

/-- `record.consumedBalance.Add(record.consumedBalance, d)` through the pointer stored for address `a` -/
def W.addConsumed (w : W) (a : Bytes) (d : Nat) : W :=
  match alookup a w.records with
  | some r => { w with records := aset a { r with consumed := r.consumed + d } w.records }
  | none => w

/-- `accumulateConsumedBalance`: two `getAccountRecord` calls (sender, then fee payer), then the two updates.
    When sender = fee payer both pointers are the same record: the second update sees the first. -/
def W.accumulate (o : Oracle) (w : W) (t : Tx) : W :=
  let w1 := (w.getRecord o t.sender).1
  let w2 := (w1.getRecord o t.payer).1
  (w2.addConsumed t.sender t.value).addConsumed t.payer t.fee

/-! ### 2. the loop over the wrapper -/

/-- `detectSkippableSender` then `detectSkippableTransaction`, with the table threaded through:
    `getNonce(sender)`; gaps; `detectWillFeeExceedBalance` (record of the fee payer — only reached when there is no
    gap); `getNonce(sender)` again; lower nonce; guard; duplicate. -/
def classifyW (o : Oracle) (guard : Tx → Bool) (w : W) (it : HItem) : W × Verdict :=
  let g1 := w.getRecord o it.cur.sender
  if (it.latest.isNone && decide (it.cur.nonce > g1.2.nonce)) then (g1.1, .dropSender)
  else if (match it.latest with | some l => decide (it.cur.nonce > l + 1) | none => false) then (g1.1, .dropSender)
  else
    let g2 := g1.1.getRecord o it.cur.payer
    if decide (g2.2.consumed + it.cur.fee > g2.2.balance) then (g2.1, .dropSender)
    else
      let g3 := g2.1.getRecord o it.cur.sender
      if decide (it.cur.nonce < g3.2.nonce) then (g3.1, .skipTx)
      else if guard it.cur then (g3.1, .skipTx)
      else if (match it.latest with | some l => decide (it.cur.nonce = l) | none => false) then (g3.1, .skipTx)
      else (g3.1, .take)

/-- the selection loop over the wrapper; returns the result AND the final wrapper state -/
def selectLoopWS (v : Variant) (pick : List HItem → Option (HItem × List HItem)) (o : Oracle) (guard : Tx → Bool)
    (q : SelParams) : Nat → List HItem → W → Nat → List Tx → (List Tx × Nat) × W
  | 0, _, w, acc, out => ((out, acc), w)
  | fuel + 1, heap, w, acc, out =>
    match pick heap with
    | none => ((out, acc), w)
    | some (it, heap') =>
      if gasExceeded v acc it.cur.gasLimit q.gasReq then ((out, acc), w)
      else if out.length ≥ q.maxNum then ((out, acc), w)
      else if out.length % q.interval = 0 && q.stop out.length then ((out, acc), w)
      else
        let c := classifyW o guard w it
        match c.2 with
        | .dropSender => selectLoopWS v pick o guard q fuel heap' c.1 acc out
        | .skipTx =>
          match it.advance with
          | none => selectLoopWS v pick o guard q fuel heap' c.1 acc out
          | some it' => selectLoopWS v pick o guard q fuel (it' :: heap') c.1 acc out
        | .take =>
          let t := it.cur
          let w' := c.1.accumulate o t
          let acc' := if v.gasWraps then (acc + t.gasLimit) % two64 else acc + t.gasLimit
          let itS := { it with latest := some t.nonce }
          match itS.advance with
          | none => selectLoopWS v pick o guard q fuel heap' w' acc' (out ++ [t])
          | some it' => selectLoopWS v pick o guard q fuel (it' :: heap') w' acc' (out ++ [t])

/-- what `selectTransactionsFromBunches` returns: the selected transactions and the accumulated gas -/
def selectLoopW (v : Variant) (pick : List HItem → Option (HItem × List HItem)) (o : Oracle) (guard : Tx → Bool)
    (q : SelParams) (fuel : Nat) (heap : List HItem) (w : W) (acc : Nat) (out : List Tx) : List Tx × Nat :=
  (selectLoopWS v pick o guard q fuel heap w acc out).1

/-- the memo table at the end of the run -/
def finalW (v : Variant) (pick : List HItem → Option (HItem × List HItem)) (o : Oracle) (guard : Tx → Bool)
    (q : SelParams) (fuel : Nat) (heap : List HItem) (w : W) (acc : Nat) (out : List Tx) : W :=
  (selectLoopWS v pick o guard q fuel heap w acc out).2

/-- `selectTransactionsFromBunches` over the wrapper -/
def selectFromBunchesW (v : Variant) (o : Oracle) (guard : Tx → Bool) (q : SelParams) (bunches : List (List Tx)) :
    List Tx × Nat :=
  selectLoopW v (popBest v) o guard q (bunchesTotal bunches + 1) (initHeap bunches) W.empty 0 []

/-! ### 3. the abstraction -/

/-- the pure session a wrapper state stands for: the memo table where it has an entry, `s₀` elsewhere -/
def W.session (w : W) (s₀ : Session) : Session where
  nonce a := match alookup a w.records with | some r => r.nonce | none => s₀.nonce a
  balance a := match alookup a w.records with | some r => r.balance | none => s₀.balance a
  badGuard := s₀.badGuard

/-- the consumed balances a wrapper state stands for -/
def W.consumed (w : W) : Bytes → Nat :=
  fun a => match alookup a w.records with | some r => r.consumed | none => 0

/-- the default session: every account unresolved (nonce 0, balance 0) -/
def zeroSession (guard : Tx → Bool) : Session := ⟨fun _ => 0, fun _ => 0, guard⟩

/-- every memoised entry agrees with the pure session `s` -/
def Agree (w : W) (s : Session) : Prop :=
  ∀ a r, alookup a w.records = some r → s.nonce a = r.nonce ∧ s.balance a = r.balance

/-- the table is only ever extended: an entry keeps its nonce and balance for ever -/
def Ext (w w' : W) : Prop :=
  ∀ a r, alookup a w.records = some r → ∃ r', alookup a w'.records = some r' ∧ r'.nonce = r.nonce ∧ r'.balance = r.balance

/-- the table is the log of the oracle calls: entry number `i` was filled by call number `i`, for that address,
    and no address occurs twice -/
def okFrom (o : Oracle) : Nat → List (Bytes × Rec) → Prop
  | _, [] => True
  | i, (a, r) :: rest =>
    r.nonce = (Rec.ofAnswer (o i a)).nonce ∧ r.balance = (Rec.ofAnswer (o i a)).balance ∧
    alookup a rest = none ∧ okFrom o (i + 1) rest

structure W.Ok (o : Oracle) (w : W) : Prop where
  calls : w.calls = w.records.length
  log : okFrom o 0 w.records

/-! ### basic facts about `Ext`, `Agree` -/

theorem Ext.refl (w : W) : Ext w w := fun _ r h => ⟨r, h, rfl, rfl⟩

theorem Ext.trans {a b c : W} (h1 : Ext a b) (h2 : Ext b c) : Ext a c := by
  intro x r h
  obtain ⟨r1, e1, n1, b1⟩ := h1 x r h
  obtain ⟨r2, e2, n2, b2⟩ := h2 x r1 e1
  exact ⟨r2, e2, n2.trans n1, b2.trans b1⟩

/-- a session that agrees with a later table agrees with every earlier one -/
theorem Agree.of_ext {w w' : W} {s : Session} (h : Agree w' s) (e : Ext w w') : Agree w s := by
  intro a r hr
  obtain ⟨r', e', n, b⟩ := e a r hr
  have := h a r' e'
  exact ⟨this.1.trans n, this.2.trans b⟩

theorem agree_session (w : W) (s₀ : Session) : Agree w (W.session w s₀) := by
  intro a r h
  simp [W.session, h]

theorem consumed_of_lookup {w : W} {a : Bytes} {r : Rec} (h : alookup a w.records = some r) :
    W.consumed w a = r.consumed := by
  simp [W.consumed, h]

/-! ### `okFrom` -/

theorem length_aset_absent {a : Bytes} (r : Rec) {l : List (Bytes × Rec)} (h : alookup a l = none) :
    (aset a r l).length = l.length + 1 := by
  rw [C5.aset_of_absent r h]; simp

theorem length_aset_present {a : Bytes} (r : Rec) {l : List (Bytes × Rec)} {r0 : Rec} (h : alookup a l = some r0) :
    (aset a r l).length = l.length := by
  apply C5.length_aset_of_present
  apply Classical.byContradiction
  intro hn
  rw [(C5.alookup_none_iff).mpr hn] at h
  cases h

theorem okFrom_aset_absent (o : Oracle) {a : Bytes} :
    ∀ (l : List (Bytes × Rec)) (i : Nat), okFrom o i l → alookup a l = none →
      okFrom o i (aset a (Rec.ofAnswer (o (i + l.length) a)) l) := by
  intro l
  induction l with
  | nil => intro i _ _; simp [aset, okFrom, alookup]
  | cons e rest ih =>
    intro i h hn
    obtain ⟨k, rk⟩ := e
    obtain ⟨h1, h2, h3, h4⟩ := h
    simp only [alookup] at hn
    split at hn
    · cases hn
    · rename_i hk
      have hne : k ≠ a := fun e => hk (by simp [e])
      simp only [aset, hk]
      refine ⟨h1, h2, ?_, ?_⟩
      · rw [C5.alookup_aset_ne _ _ hne]; exact h3
      · have := ih (i + 1) h4 hn
        have e : i + 1 + rest.length = i + (List.length ((k, rk) :: rest)) := by simp; omega
        rw [e] at this
        exact this

theorem okFrom_aset_present (o : Oracle) {a : Bytes} {r r' : Rec} (hn : r'.nonce = r.nonce) (hb : r'.balance = r.balance) :
    ∀ (l : List (Bytes × Rec)) (i : Nat), okFrom o i l → alookup a l = some r → okFrom o i (aset a r' l) := by
  intro l
  induction l with
  | nil => intro i _ h; simp [alookup] at h
  | cons e rest ih =>
    intro i h hl
    obtain ⟨k, rk⟩ := e
    obtain ⟨h1, h2, h3, h4⟩ := h
    simp only [alookup] at hl
    split at hl
    · rename_i hk
      have e := eq_of_beq hk
      subst e
      simp only [Option.some.injEq] at hl
      subst hl
      simp only [aset, hk]
      exact ⟨hn.trans h1, hb.trans h2, h3, h4⟩
    · rename_i hk
      have hne : k ≠ a := fun e => hk (by simp [e])
      simp only [aset, hk]
      refine ⟨h1, h2, ?_, ih (i + 1) h4 hl⟩
      rw [C5.alookup_aset_ne _ _ hne]; exact h3

/-- an entry of a well-formed log is the answer of the call with the entry's index -/
theorem okFrom_lookup (o : Oracle) {a : Bytes} {r : Rec} :
    ∀ (l : List (Bytes × Rec)) (i : Nat), okFrom o i l → alookup a l = some r →
      ∃ k, i ≤ k ∧ k < i + l.length ∧
        r.nonce = (Rec.ofAnswer (o k a)).nonce ∧ r.balance = (Rec.ofAnswer (o k a)).balance := by
  intro l
  induction l with
  | nil => intro i _ h; simp [alookup] at h
  | cons e rest ih =>
    intro i h hl
    obtain ⟨k, rk⟩ := e
    obtain ⟨h1, h2, _, h4⟩ := h
    simp only [alookup] at hl
    split at hl
    · rename_i hk
      have e := eq_of_beq hk
      subst e
      simp only [Option.some.injEq] at hl
      subst hl
      exact ⟨i, Nat.le_refl _, by simp, h1, h2⟩
    · obtain ⟨j, j1, j2, j3⟩ := ih (i + 1) h4 hl
      exact ⟨j, by omega, by simp; omega, j3⟩

theorem okFrom_nodup (o : Oracle) :
    ∀ (l : List (Bytes × Rec)) (i : Nat), okFrom o i l → (l.map (·.1)).Nodup := by
  intro l
  induction l with
  | nil => intro _ _; simp
  | cons e rest ih =>
    intro i h
    obtain ⟨k, rk⟩ := e
    obtain ⟨_, _, h3, h4⟩ := h
    simp only [List.map_cons, List.nodup_cons]
    exact ⟨(C5.alookup_none_iff).mp h3, ih (i + 1) h4⟩

theorem ok_empty (o : Oracle) : W.Ok o W.empty := ⟨rfl, trivial⟩

/-! ### `getRecord` -/

theorem getRecord_hit {o : Oracle} {w : W} {a : Bytes} {r : Rec} (h : alookup a w.records = some r) :
    w.getRecord o a = (w, r) := by
  simp [W.getRecord, h]

/-- a miss appends the answer of call number `w.calls` at the end of the table -/
theorem getRecord_miss {o : Oracle} {w : W} {a : Bytes} (h : alookup a w.records = none) :
    w.getRecord o a =
      (⟨w.records ++ [(a, Rec.ofAnswer (o w.calls a))], w.calls + 1⟩, Rec.ofAnswer (o w.calls a)) := by
  simp [W.getRecord, h, C5.aset_of_absent _ h]

theorem getRecord_miss' {o : Oracle} {w : W} {a : Bytes} (h : alookup a w.records = none) :
    w.getRecord o a =
      (⟨aset a (Rec.ofAnswer (o w.calls a)) w.records, w.calls + 1⟩, Rec.ofAnswer (o w.calls a)) := by
  simp [W.getRecord, h]

/-- a memo hit does not depend on the oracle at all -/
theorem getRecord_hit_indep {o o' : Oracle} {w : W} {a : Bytes} {r : Rec} (h : alookup a w.records = some r) :
    w.getRecord o a = w.getRecord o' a := by
  rw [getRecord_hit h, getRecord_hit h]

theorem getRecord_lookup (o : Oracle) (w : W) (a : Bytes) :
    alookup a (w.getRecord o a).1.records = some (w.getRecord o a).2 := by
  cases h : alookup a w.records with
  | some r => rw [getRecord_hit h]; exact h
  | none => rw [getRecord_miss' h]; exact C5.alookup_aset_self _ _ _

theorem getRecord_lookup_ne (o : Oracle) (w : W) {a b : Bytes} (hne : b ≠ a) :
    alookup b (w.getRecord o a).1.records = alookup b w.records := by
  cases h : alookup a w.records with
  | some r => rw [getRecord_hit h]
  | none => rw [getRecord_miss' h]; exact C5.alookup_aset_ne _ _ hne

theorem getRecord_ext (o : Oracle) (w : W) (a : Bytes) : Ext w (w.getRecord o a).1 := by
  intro b r hb
  by_cases hba : b = a
  · subst hba
    rw [getRecord_hit hb]
    exact ⟨r, hb, rfl, rfl⟩
  · exact ⟨r, by rw [getRecord_lookup_ne o w hba]; exact hb, rfl, rfl⟩

theorem getRecord_consumed (o : Oracle) (w : W) (a : Bytes) : W.consumed (w.getRecord o a).1 = W.consumed w := by
  funext b
  by_cases hba : b = a
  · subst hba
    cases h : alookup b w.records with
    | some r => rw [getRecord_hit h]
    | none =>
      have := getRecord_lookup o w b
      rw [getRecord_miss' h] at this ⊢
      simp only [W.consumed, this, h]
      cases o w.calls b with
      | none => rfl
      | some p => rfl
  · simp only [W.consumed, getRecord_lookup_ne o w hba]

theorem getRecord_ok {o : Oracle} {w : W} (a : Bytes) (h : W.Ok o w) : W.Ok o (w.getRecord o a).1 := by
  cases hl : alookup a w.records with
  | some r => rw [getRecord_hit hl]; exact h
  | none =>
    rw [getRecord_miss' hl]
    constructor
    · simp only; rw [length_aset_absent _ hl, h.calls]
    · have := okFrom_aset_absent o w.records 0 h.log hl
      simp only [Nat.zero_add] at this
      simp only
      rw [h.calls]
      exact this

/-! ### `addConsumed`, `accumulate` -/

theorem addConsumed_lookup_self {w : W} {a : Bytes} {r : Rec} (d : Nat) (h : alookup a w.records = some r) :
    alookup a (w.addConsumed a d).records = some { r with consumed := r.consumed + d } := by
  simp only [W.addConsumed, h]
  exact C5.alookup_aset_self _ _ _

theorem addConsumed_lookup_ne (w : W) (a : Bytes) (d : Nat) {b : Bytes} (hne : b ≠ a) :
    alookup b (w.addConsumed a d).records = alookup b w.records := by
  unfold W.addConsumed
  split
  · exact C5.alookup_aset_ne _ _ hne
  · rfl

theorem addConsumed_ext (w : W) (a : Bytes) (d : Nat) : Ext w (w.addConsumed a d) := by
  intro b r hb
  by_cases hba : b = a
  · subst hba
    exact ⟨_, addConsumed_lookup_self d hb, rfl, rfl⟩
  · exact ⟨r, by rw [addConsumed_lookup_ne w a d hba]; exact hb, rfl, rfl⟩

theorem addConsumed_consumed {w : W} {a : Bytes} {r : Rec} (d : Nat) (h : alookup a w.records = some r) :
    W.consumed (w.addConsumed a d) = bump (W.consumed w) a d := by
  funext b
  by_cases hba : b = a
  · subst hba
    simp [W.consumed, bump, addConsumed_lookup_self d h, h]
  · simp [W.consumed, bump, addConsumed_lookup_ne w a d hba, hba]

theorem addConsumed_ok {o : Oracle} {w : W} (a : Bytes) (d : Nat) (h : W.Ok o w) : W.Ok o (w.addConsumed a d) := by
  unfold W.addConsumed
  split
  · rename_i r hl
    constructor
    · simp only; rw [length_aset_present _ hl]; exact h.calls
    · exact okFrom_aset_present o (r := r) (r' := { r with consumed := r.consumed + d }) rfl rfl w.records 0 h.log hl
  · exact h

theorem accumulate_ext (o : Oracle) (w : W) (t : Tx) : Ext w (w.accumulate o t) := by
  unfold W.accumulate
  exact ((getRecord_ext o w _).trans (getRecord_ext o _ _)).trans
    ((addConsumed_ext _ _ _).trans (addConsumed_ext _ _ _))

theorem accumulate_ok {o : Oracle} {w : W} (t : Tx) (h : W.Ok o w) : W.Ok o (w.accumulate o t) := by
  unfold W.accumulate
  exact addConsumed_ok _ _ (addConsumed_ok _ _ (getRecord_ok _ (getRecord_ok _ h)))

/-- `accumulateConsumedBalance` is `bump … sender value` then `bump … payer fee` on the abstract consumed map —
    also when sender and fee payer are the same account -/
theorem accumulate_consumed (o : Oracle) (w : W) (t : Tx) :
    W.consumed (w.accumulate o t) = bump (bump (W.consumed w) t.sender t.value) t.payer t.fee := by
  unfold W.accumulate
  dsimp only
  -- after the two `getRecord`s both addresses are memoised
  obtain ⟨rs, hs, _, _⟩ := getRecord_ext o (w.getRecord o t.sender).1 t.payer t.sender _ (getRecord_lookup o w t.sender)
  have hp := getRecord_lookup o (w.getRecord o t.sender).1 t.payer
  obtain ⟨rp, hp', _, _⟩ := addConsumed_ext _ t.sender t.value _ _ hp
  rw [addConsumed_consumed _ hp', addConsumed_consumed _ hs, getRecord_consumed, getRecord_consumed]

/-! ### one classification step -/

/-- classification only extends the table; consumed balances are untouched -/
theorem classifyW_ext (o : Oracle) (guard : Tx → Bool) (w : W) (it : HItem) :
    Ext w (classifyW o guard w it).1 ∧ W.consumed (classifyW o guard w it).1 = W.consumed w ∧
    (W.Ok o w → W.Ok o (classifyW o guard w it).1) := by
  have e1 := getRecord_ext o w it.cur.sender
  have c1 := getRecord_consumed o w it.cur.sender
  have e2 := getRecord_ext o (w.getRecord o it.cur.sender).1 it.cur.payer
  have c2 := getRecord_consumed o (w.getRecord o it.cur.sender).1 it.cur.payer
  have e3 := getRecord_ext o ((w.getRecord o it.cur.sender).1.getRecord o it.cur.payer).1 it.cur.sender
  have c3 := getRecord_consumed o ((w.getRecord o it.cur.sender).1.getRecord o it.cur.payer).1 it.cur.sender
  have r1 : Ext w (w.getRecord o it.cur.sender).1 ∧ W.consumed (w.getRecord o it.cur.sender).1 = W.consumed w ∧
      (W.Ok o w → W.Ok o (w.getRecord o it.cur.sender).1) := ⟨e1, c1, fun h => getRecord_ok _ h⟩
  have r2 : Ext w ((w.getRecord o it.cur.sender).1.getRecord o it.cur.payer).1 ∧
      W.consumed ((w.getRecord o it.cur.sender).1.getRecord o it.cur.payer).1 = W.consumed w ∧
      (W.Ok o w → W.Ok o ((w.getRecord o it.cur.sender).1.getRecord o it.cur.payer).1) :=
    ⟨e1.trans e2, c2.trans c1, fun h => getRecord_ok _ (getRecord_ok _ h)⟩
  have r3 : Ext w (((w.getRecord o it.cur.sender).1.getRecord o it.cur.payer).1.getRecord o it.cur.sender).1 ∧
      W.consumed (((w.getRecord o it.cur.sender).1.getRecord o it.cur.payer).1.getRecord o it.cur.sender).1
        = W.consumed w ∧
      (W.Ok o w → W.Ok o (((w.getRecord o it.cur.sender).1.getRecord o it.cur.payer).1.getRecord o it.cur.sender).1) :=
    ⟨(e1.trans e2).trans e3, c3.trans (c2.trans c1), fun h => getRecord_ok _ (getRecord_ok _ (getRecord_ok _ h))⟩
  unfold classifyW
  dsimp only
  repeat' split
  all_goals first | exact r1 | exact r2 | exact r3

set_option linter.unusedSimpArgs false in
/-- the verdict of the wrapper is the verdict of the pure `classify` for EVERY pure session that agrees with the
    table as it is after the step: the step looks at the session only through addresses it has memoised -/
theorem classifyW_sound (o : Oracle) (guard : Tx → Bool) (w : W) (it : HItem) (s : Session)
    (hg : s.badGuard = guard) (ha : Agree (classifyW o guard w it).1 s) :
    classify s (W.consumed w) it = (classifyW o guard w it).2 := by
  obtain ⟨cur, rest, latest⟩ := it
  have l1 := getRecord_lookup o w cur.sender
  have c1 := getRecord_consumed o w cur.sender
  have e2 := getRecord_ext o (w.getRecord o cur.sender).1 cur.payer
  have l2 := getRecord_lookup o (w.getRecord o cur.sender).1 cur.payer
  have c2 := getRecord_consumed o (w.getRecord o cur.sender).1 cur.payer
  have e3 := getRecord_ext o ((w.getRecord o cur.sender).1.getRecord o cur.payer).1 cur.sender
  have l3 := getRecord_lookup o ((w.getRecord o cur.sender).1.getRecord o cur.payer).1 cur.sender
  have hcons : W.consumed w cur.payer = ((w.getRecord o cur.sender).1.getRecord o cur.payer).2.consumed := by
    rw [← consumed_of_lookup l2, c2, c1]
  unfold classifyW at ha ⊢
  unfold classify
  cases latest
  all_goals
    simp only [Option.isNone_none, Option.isNone_some, Bool.true_and, Bool.false_and, Bool.false_eq_true,
      if_false] at ha ⊢
    rw [hg]
    repeat' split at ha
  all_goals
    dsimp only at ha
    first
    | (have hn := (ha _ _ l1).1
       simp only [*, if_true, if_false, Bool.false_eq_true])
    | (have hn := ((ha.of_ext e2) _ _ l1).1
       have hb := (ha _ _ l2).2
       simp only [*, if_true, if_false, Bool.false_eq_true])
    | (have hn := ((ha.of_ext (e2.trans e3)) _ _ l1).1
       have hb := ((ha.of_ext e3) _ _ l2).2
       have hn3 := (ha _ _ l3).1
       rw [hn] at hn3
       simp only [← hn3] at *
       simp only [*, if_true, if_false, Bool.false_eq_true])

/-! ### the loop -/

theorem ext_step {o : Oracle} {w w1 wf : W} (e : Ext w w1) (ok : W.Ok o w → W.Ok o w1)
    (r : Ext w1 wf ∧ (W.Ok o w1 → W.Ok o wf)) : Ext w wf ∧ (W.Ok o w → W.Ok o wf) :=
  ⟨e.trans r.1, fun h => r.2 (ok h)⟩

/-- along the loop the table is only extended (an entry never changes its nonce/balance) and stays a faithful
    log of the oracle calls -/
theorem selectLoopWS_ext (v : Variant) (pick : List HItem → Option (HItem × List HItem)) (o : Oracle)
    (guard : Tx → Bool) (q : SelParams) :
    ∀ fuel heap w acc out,
      Ext w (selectLoopWS v pick o guard q fuel heap w acc out).2 ∧
      (W.Ok o w → W.Ok o (selectLoopWS v pick o guard q fuel heap w acc out).2) := by
  intro fuel
  induction fuel with
  | zero => intro heap w acc out; exact ⟨Ext.refl _, id⟩
  | succ fuel ih =>
    intro heap w acc out
    unfold selectLoopWS
    split
    · exact ⟨Ext.refl _, id⟩
    · rename_i it heap' hp
      obtain ⟨ce, _, cok⟩ := classifyW_ext o guard w it
      have ae := accumulate_ext o (classifyW o guard w it).1 it.cur
      have aok : W.Ok o (classifyW o guard w it).1 → W.Ok o ((classifyW o guard w it).1.accumulate o it.cur) :=
        fun h => accumulate_ok _ h
      split
      · exact ⟨Ext.refl _, id⟩
      split
      · exact ⟨Ext.refl _, id⟩
      split
      · exact ⟨Ext.refl _, id⟩
      dsimp only
      split
      · exact ext_step ce cok (ih _ _ _ _)
      · split
        · exact ext_step ce cok (ih _ _ _ _)
        · exact ext_step ce cok (ih _ _ _ _)
      · split
        · exact ext_step ce cok (ext_step ae aok (ih _ _ _ _))
        · exact ext_step ce cok (ext_step ae aok (ih _ _ _ _))

/-- THE INVARIANT.  Started in any wrapper state `w`, the wrapper loop computes what the pure loop computes for
    EVERY pure session `s` that agrees with the FINAL memo table (and has the same guard verdicts), started with the
    consumed balances `W.consumed w`.  In particular the loop never looks at the session outside the addresses it has
    memoised, and what it has memoised never changes (`selectLoopWS_ext`). -/
theorem selectLoopWS_refines (v : Variant) (pick : List HItem → Option (HItem × List HItem)) (o : Oracle)
    (guard : Tx → Bool) (q : SelParams) :
    ∀ fuel heap w acc out (s : Session) (r : (List Tx × Nat) × W), s.badGuard = guard →
      selectLoopWS v pick o guard q fuel heap w acc out = r → Agree r.2 s →
      r.1 = selectLoop v pick s q fuel heap (W.consumed w) acc out := by
  intro fuel
  induction fuel with
  | zero =>
    intro heap w acc out s r _ hr _
    subst hr
    simp [selectLoopWS, selectLoop]
  | succ fuel ih =>
    intro heap w acc out s r hg hr ha
    unfold selectLoopWS at hr
    unfold selectLoop
    split at hr
    · rename_i hp
      subst hr
      simp only [hp]
    · rename_i it heap' hp
      simp only [hp]
      obtain ⟨ce, cc, _⟩ := classifyW_ext o guard w it
      have acons := accumulate_consumed o (classifyW o guard w it).1 it.cur
      rw [cc] at acons
      split at hr
      · rename_i h1; subst hr; rw [if_pos h1]
      rename_i h1
      rw [if_neg h1]
      split at hr
      · rename_i h2; subst hr; rw [if_pos h2]
      rename_i h2
      rw [if_neg h2]
      split at hr
      · rename_i h3; subst hr; rw [if_pos h3]
      rename_i h3
      rw [if_neg h3]
      dsimp only at hr
      -- the verdict: the final table extends the table after the classification step
      have hcl : ∀ wf, Ext (classifyW o guard w it).1 wf → Agree wf s →
          classify s (W.consumed w) it = (classifyW o guard w it).2 :=
        fun wf e a => classifyW_sound o guard w it s hg (a.of_ext e)
      split at hr
      · rename_i hv
        have e := (selectLoopWS_ext v pick o guard q fuel heap' (classifyW o guard w it).1 acc out).1
        rw [hr] at e
        rw [hcl _ e ha, hv]
        have := ih _ _ _ _ s r hg hr ha
        rw [cc] at this
        exact this
      · rename_i hv
        split at hr
        · rename_i hadv
          have e := (selectLoopWS_ext v pick o guard q fuel heap' (classifyW o guard w it).1 acc out).1
          rw [hr] at e
          rw [hcl _ e ha, hv]
          have := ih _ _ _ _ s r hg hr ha
          rw [cc] at this
          simp only [hadv]
          exact this
        · rename_i it' hadv
          have e := (selectLoopWS_ext v pick o guard q fuel (it' :: heap') (classifyW o guard w it).1 acc out).1
          rw [hr] at e
          rw [hcl _ e ha, hv]
          have := ih _ _ _ _ s r hg hr ha
          rw [cc] at this
          simp only [hadv]
          exact this
      · rename_i hv
        have ae := accumulate_ext o (classifyW o guard w it).1 it.cur
        split at hr
        · rename_i hadv
          have e := (selectLoopWS_ext v pick o guard q fuel heap'
            ((classifyW o guard w it).1.accumulate o it.cur)
            (if v.gasWraps then (acc + it.cur.gasLimit) % two64 else acc + it.cur.gasLimit) (out ++ [it.cur])).1
          rw [hr] at e
          rw [hcl _ (ae.trans e) ha, hv]
          have := ih _ _ _ _ s r hg hr ha
          rw [acons] at this
          simp only [hadv]
          exact this
        · rename_i it' hadv
          have e := (selectLoopWS_ext v pick o guard q fuel (it' :: heap')
            ((classifyW o guard w it).1.accumulate o it.cur)
            (if v.gasWraps then (acc + it.cur.gasLimit) % two64 else acc + it.cur.gasLimit) (out ++ [it.cur])).1
          rw [hr] at e
          rw [hcl _ (ae.trans e) ha, hv]
          have := ih _ _ _ _ s r hg hr ha
          rw [acons] at this
          simp only [hadv]
          exact this

/-! ### 4. the refinement theorem -/

/-- the pure session the run stands for, read off the final memo table: for each address the first (and only)
    answer the oracle gave for it during this run; nonce 0 / balance 0 for addresses never asked (or answered
    with an error, see `Rec.ofAnswer`).  `firstAnswers_eq_oracle` spells it out in terms of the oracle. -/
def firstAnswers (v : Variant) (pick : List HItem → Option (HItem × List HItem)) (o : Oracle) (guard : Tx → Bool)
    (q : SelParams) (fuel : Nat) (heap : List HItem) : Session :=
  W.session (finalW v pick o guard q fuel heap W.empty 0 []) (zeroSession guard)

/-- general form, from any wrapper state and for any default session -/
theorem selectLoopW_refines_from (v : Variant) (pick : List HItem → Option (HItem × List HItem)) (o : Oracle)
    (s₀ : Session) (q : SelParams) (fuel : Nat) (heap : List HItem) (w : W) (acc : Nat) (out : List Tx) :
    selectLoopW v pick o s₀.badGuard q fuel heap w acc out =
      selectLoop v pick (W.session (finalW v pick o s₀.badGuard q fuel heap w acc out) s₀) q fuel heap
        (W.consumed w) acc out :=
  selectLoopWS_refines v pick o s₀.badGuard q fuel heap w acc out _ _ rfl rfl (agree_session _ _)

/-- **Refinement.**  Whatever the external session answers (stateful, inconsistent, failing), the selection over the
    memoising wrapper returns exactly (transactions and gas) what the pure loop of the model returns for the pure
    session of first answers. -/
theorem selectLoopW_refines (v : Variant) (pick : List HItem → Option (HItem × List HItem)) (o : Oracle)
    (guard : Tx → Bool) (q : SelParams) (fuel : Nat) (heap : List HItem) :
    selectLoopW v pick o guard q fuel heap W.empty 0 [] =
      selectLoop v pick (firstAnswers v pick o guard q fuel heap) q fuel heap (fun _ => 0) 0 [] :=
  selectLoopW_refines_from v pick o (zeroSession guard) q fuel heap W.empty 0 []

theorem firstAnswers_guard (v : Variant) (pick : List HItem → Option (HItem × List HItem)) (o : Oracle)
    (guard : Tx → Bool) (q : SelParams) (fuel : Nat) (heap : List HItem) :
    (firstAnswers v pick o guard q fuel heap).badGuard = guard := rfl

/-- `selectTransactionsFromBunches` -/
theorem selectFromBunchesW_refines (v : Variant) (o : Oracle) (guard : Tx → Bool) (q : SelParams)
    (bunches : List (List Tx)) :
    selectFromBunchesW v o guard q bunches =
      selectFromBunches v (firstAnswers v (popBest v) o guard q (bunchesTotal bunches + 1) (initHeap bunches)) q bunches :=
  selectLoopW_refines v (popBest v) o guard q _ _

/-! ### 6. each address is asked at most once; the session of first answers in terms of the oracle -/

/-- the final table of a run started from a faithful log is a faithful log -/
theorem finalW_ok (v : Variant) (pick : List HItem → Option (HItem × List HItem)) (o : Oracle) (guard : Tx → Bool)
    (q : SelParams) (fuel : Nat) (heap : List HItem) (w : W) (acc : Nat) (out : List Tx) (h : W.Ok o w) :
    W.Ok o (finalW v pick o guard q fuel heap w acc out) :=
  (selectLoopWS_ext v pick o guard q fuel heap w acc out).2 h

/-- **At most one `GetAccountState` per address.**  The only place where the oracle is consulted is the miss branch of
    `getRecord` (`getRecord_hit_indep`), which uses call number `calls`, appends the address at the end of the table
    (`getRecord_miss`) and increments `calls`.  At the end of any run the number of calls made is the number of
    memoised addresses, and these are pairwise distinct. -/
theorem getRecord_at_most_once (v : Variant) (pick : List HItem → Option (HItem × List HItem)) (o : Oracle)
    (guard : Tx → Bool) (q : SelParams) (fuel : Nat) (heap : List HItem) :
    (finalW v pick o guard q fuel heap W.empty 0 []).calls
        = ((finalW v pick o guard q fuel heap W.empty 0 []).records.map (·.1)).length ∧
    ((finalW v pick o guard q fuel heap W.empty 0 []).records.map (·.1)).Nodup := by
  have h := finalW_ok v pick o guard q fuel heap W.empty 0 [] (ok_empty o)
  exact ⟨by rw [h.calls]; simp, okFrom_nodup o _ 0 h.log⟩

/-- position of an address in the table = number of the call that asked for it -/
def posOf (a : Bytes) : List (Bytes × Rec) → Nat → Option Nat
  | [], _ => none
  | (k, _) :: rest, i => if k == a then some i else posOf a rest (i + 1)

/-- the number of the (only) call made for address `a`, if any -/
def W.queryIndex (w : W) (a : Bytes) : Option Nat := posOf a w.records 0

/-- the session of first answers, spelled out with the oracle: the answer of the call that asked for the address -/
def oracleSession (o : Oracle) (guard : Tx → Bool) (w : W) : Session where
  nonce a := match w.queryIndex a with | some k => ((o k a).map (·.1)).getD 0 | none => 0
  balance a := match w.queryIndex a with | some k => ((o k a).map (·.2)).getD 0 | none => 0
  badGuard := guard

theorem ofAnswer_nonce (x : Option (Nat × Nat)) : (Rec.ofAnswer x).nonce = (x.map (·.1)).getD 0 := by
  cases x with
  | none => rfl
  | some p => rfl

theorem ofAnswer_balance (x : Option (Nat × Nat)) : (Rec.ofAnswer x).balance = (x.map (·.2)).getD 0 := by
  cases x with
  | none => rfl
  | some p => rfl

theorem posOf_spec (a : Bytes) : ∀ (l : List (Bytes × Rec)) (i : Nat),
    (∀ k, posOf a l i = some k → i ≤ k ∧ ∃ r, l[k - i]? = some (a, r)) ∧
    (posOf a l i = none ↔ alookup a l = none) := by
  intro l
  induction l with
  | nil => intro i; simp [posOf, alookup]
  | cons e rest ih =>
    intro i
    obtain ⟨k0, r0⟩ := e
    simp only [posOf, alookup]
    split
    · rename_i hk
      have e := eq_of_beq hk
      subst e
      refine ⟨?_, by simp⟩
      intro k hk'
      simp only [Option.some.injEq] at hk'
      subst hk'
      exact ⟨Nat.le_refl _, r0, by simp⟩
    · refine ⟨?_, (ih (i + 1)).2⟩
      intro k hk'
      obtain ⟨h1, r, h2⟩ := (ih (i + 1)).1 k hk'
      refine ⟨by omega, r, ?_⟩
      have e : k - i = (k - (i + 1)) + 1 := by omega
      rw [e, List.getElem?_cons_succ]
      exact h2

/-- `queryIndex w a = some k`: entry number `k` of the table (filled by call number `k`) is the one of `a` -/
theorem queryIndex_some {w : W} {a : Bytes} {k : Nat} (h : w.queryIndex a = some k) :
    ∃ r, w.records[k]? = some (a, r) := by
  obtain ⟨_, r, hr⟩ := (posOf_spec a w.records 0).1 k h
  exact ⟨r, by simpa using hr⟩

/-- `queryIndex w a = none`: the address was never asked -/
theorem queryIndex_none {w : W} {a : Bytes} : w.queryIndex a = none ↔ alookup a w.records = none :=
  (posOf_spec a w.records 0).2

theorem okFrom_posOf (o : Oracle) (a : Bytes) : ∀ (l : List (Bytes × Rec)) (i : Nat), okFrom o i l →
    (match alookup a l with | some r => r.nonce | none => 0)
      = (match posOf a l i with | some k => ((o k a).map (·.1)).getD 0 | none => 0) ∧
    (match alookup a l with | some r => r.balance | none => 0)
      = (match posOf a l i with | some k => ((o k a).map (·.2)).getD 0 | none => 0) := by
  intro l
  induction l with
  | nil => intro i _; simp [posOf, alookup]
  | cons e rest ih =>
    intro i h
    obtain ⟨k0, r0⟩ := e
    obtain ⟨h1, h2, _, h4⟩ := h
    simp only [posOf, alookup]
    by_cases hk : (k0 == a) = true
    · have e := eq_of_beq hk
      subst e
      simp only [hk, if_true]
      rw [h1, h2, ofAnswer_nonce, ofAnswer_balance]
      exact ⟨rfl, rfl⟩
    · simp only [hk, if_false, Bool.false_eq_true]
      exact ih (i + 1) h4

/-- on a faithful log the table-based session IS the oracle-based one -/
theorem session_eq_oracleSession {o : Oracle} {w : W} (guard : Tx → Bool) (h : W.Ok o w) :
    W.session w (zeroSession guard) = oracleSession o guard w := by
  unfold W.session oracleSession zeroSession W.queryIndex
  simp only [Session.mk.injEq, and_true]
  exact ⟨funext fun a => (okFrom_posOf o a w.records 0 h.log).1,
         funext fun a => (okFrom_posOf o a w.records 0 h.log).2⟩

/-- the session of `selectLoopW_refines`, in terms of the oracle alone: `nonce a` / `balance a` is the answer of the
    call number `queryIndex a` — the only call of the run made for `a` — and 0 if `a` was never asked or the
    answer was an error -/
theorem firstAnswers_eq_oracle (v : Variant) (pick : List HItem → Option (HItem × List HItem)) (o : Oracle)
    (guard : Tx → Bool) (q : SelParams) (fuel : Nat) (heap : List HItem) :
    firstAnswers v pick o guard q fuel heap
      = oracleSession o guard (finalW v pick o guard q fuel heap W.empty 0 []) :=
  session_eq_oracleSession guard (finalW_ok v pick o guard q fuel heap W.empty 0 [] (ok_empty o))

/-! ### 5. corollaries -/

/-- the pure session of an honest (consistent) external session -/
def honestSession (o : Oracle) (guard : Tx → Bool) : Session where
  nonce a := ((o 0 a).map (·.1)).getD 0
  balance a := ((o 0 a).map (·.2)).getD 0
  badGuard := guard

/-- for an honest session the wrapper adds no behaviour -/
theorem selectLoopW_consistent (v : Variant) (pick : List HItem → Option (HItem × List HItem)) (o : Oracle)
    (hc : ∀ n m a, o n a = o m a) (guard : Tx → Bool) (q : SelParams) (fuel : Nat) (heap : List HItem) :
    selectLoopW v pick o guard q fuel heap W.empty 0 [] =
      selectLoop v pick (honestSession o guard) q fuel heap (fun _ => 0) 0 [] := by
  refine selectLoopWS_refines v pick o guard q fuel heap W.empty 0 [] (honestSession o guard) _ rfl rfl ?_
  have h := finalW_ok v pick o guard q fuel heap W.empty 0 [] (ok_empty o)
  intro a r hr
  obtain ⟨k, _, _, hn, hb⟩ := okFrom_lookup o _ 0 h.log hr
  rw [hn, hb, ofAnswer_nonce, ofAnswer_balance, hc k 0 a]
  exact ⟨rfl, rfl⟩

/-- C01 over the wrapper, ANY oracle: per sender the selected nonces are consecutive and start at the nonce the
    oracle reported at its FIRST (only) query for that sender — 0 on error or if the sender was never looked up -/
theorem selectLoopW_nonce_run (v : Variant) (pick : List HItem → Option (HItem × List HItem)) (hp : PickOk pick)
    (o : Oracle) (guard : Tx → Bool) (q : SelParams) (bunches : List (List Tx))
    (hb : ∀ b ∈ bunches, BunchOk b) (hd : BunchesDistinct bunches) (fuel : Nat) (snd : Bytes) :
    ∃ k, noncesOf snd (selectLoopW v pick o guard q fuel (initHeap bunches) W.empty 0 []).1 =
      List.range'
        (match (finalW v pick o guard q fuel (initHeap bunches) W.empty 0 []).queryIndex snd with
          | some i => ((o i snd).map (·.1)).getD 0
          | none => 0) k := by
  have h := selectLoop_nonce_run v pick hp (firstAnswers v pick o guard q fuel (initHeap bunches)) q bunches hb hd fuel snd
  rw [← selectLoopW_refines, firstAnswers_eq_oracle] at h
  exact h

/-- C02 (balances) over the wrapper, ANY oracle: walking the result in order, the balance first reported for the fee
    payer covers this fee on top of everything earlier transactions of the result committed to that account -/
theorem selectLoopW_balances_cover (v : Variant) (pick : List HItem → Option (HItem × List HItem))
    (o : Oracle) (guard : Tx → Bool) (q : SelParams) (heap : List HItem) (fuel : Nat) :
    let out := (selectLoopW v pick o guard q fuel heap W.empty 0 []).1
    ∀ i (hi : i < out.length), committed (out.take i) (out[i]).payer + (out[i]).fee ≤
      (match (finalW v pick o guard q fuel heap W.empty 0 []).queryIndex (out[i]).payer with
        | some k => ((o k (out[i]).payer).map (·.2)).getD 0
        | none => 0) := by
  have h := selectLoop_balance v pick (firstAnswers v pick o guard q fuel heap) q heap fuel
  rw [← selectLoopW_refines, firstAnswers_eq_oracle] at h
  exact h

/-- C02 (count) over the wrapper -/
theorem selectLoopW_count (v : Variant) (pick : List HItem → Option (HItem × List HItem))
    (o : Oracle) (guard : Tx → Bool) (q : SelParams) (heap : List HItem) (fuel : Nat) :
    (selectLoopW v pick o guard q fuel heap W.empty 0 []).1.length ≤ q.maxNum := by
  rw [selectLoopW_refines]; exact selectLoop_count v pick _ q heap fuel

/-- C02 (gas) over the wrapper -/
theorem selectLoopW_gas (v : Variant) (hv : v.gasWraps = false) (pick : List HItem → Option (HItem × List HItem))
    (o : Oracle) (guard : Tx → Bool) (q : SelParams) (heap : List HItem) (fuel : Nat) :
    let r := selectLoopW v pick o guard q fuel heap W.empty 0 []
    (r.1.map (·.gasLimit)).sum = r.2 ∧ r.2 ≤ q.gasReq := by
  rw [selectLoopW_refines]; exact selectLoop_gas v hv pick _ q heap fuel

/-- C02 (guard) over the wrapper -/
theorem selectLoopW_guard (v : Variant) (pick : List HItem → Option (HItem × List HItem))
    (o : Oracle) (guard : Tx → Bool) (q : SelParams) (heap : List HItem) (fuel : Nat) :
    ∀ t ∈ (selectLoopW v pick o guard q fuel heap W.empty 0 []).1, guard t = false := by
  rw [selectLoopW_refines]
  exact selectLoop_guard v pick (firstAnswers v pick o guard q fuel heap) q heap fuel

/-- C02 (members, no duplicates) over the wrapper -/
theorem selectLoopW_members (v : Variant) (pick : List HItem → Option (HItem × List HItem)) (hp : PickOk pick)
    (o : Oracle) (guard : Tx → Bool) (q : SelParams) (bunches : List (List Tx)) (hn : bunches.flatten.Nodup)
    (fuel : Nat) :
    let out := (selectLoopW v pick o guard q fuel (initHeap bunches) W.empty 0 []).1
    out.Nodup ∧ ∀ t ∈ out, t ∈ bunches.flatten := by
  rw [selectLoopW_refines]; exact selectLoop_members v pick hp _ q bunches hn fuel

/-! ### 6'. the run depends on the oracle only through the logged calls -/

/-- the table only grows: calls are only added, entry number `k` stays the entry of the same address -/
def Grow (w w' : W) : Prop :=
  w.calls ≤ w'.calls ∧ ∀ (k : Nat) (a : Bytes) (r : Rec), w.records[k]? = some (a, r) → ∃ r', w'.records[k]? = some (a, r')

theorem Grow.refl (w : W) : Grow w w := ⟨Nat.le_refl _, fun _ _ r h => ⟨r, h⟩⟩

theorem Grow.trans {a b c : W} (h1 : Grow a b) (h2 : Grow b c) : Grow a c := by
  refine ⟨Nat.le_trans h1.1 h2.1, ?_⟩
  intro k x r h
  obtain ⟨r1, e1⟩ := h1.2 k x r h
  exact h2.2 k x r1 e1

theorem aset_keeps_keys (b : Bytes) (x : Rec) : ∀ (l : List (Bytes × Rec)) (k : Nat) (a : Bytes) (r : Rec),
    l[k]? = some (a, r) → ∃ r', (aset b x l)[k]? = some (a, r') := by
  intro l
  induction l with
  | nil => intro k a r h; simp at h
  | cons e rest ih =>
    intro k a r h
    obtain ⟨k0, r0⟩ := e
    simp only [aset]
    by_cases hk : (k0 == b) = true
    · simp only [hk, if_true]
      cases k with
      | zero =>
        have e := eq_of_beq hk
        simp only [List.getElem?_cons_zero, Option.some.injEq, Prod.mk.injEq] at h
        exact ⟨x, by simp [← h.1, e]⟩
      | succ k => exact ⟨r, by simpa using h⟩
    · simp only [hk, if_false, Bool.false_eq_true]
      cases k with
      | zero => exact ⟨r, by simpa using h⟩
      | succ k =>
        simp only [List.getElem?_cons_succ] at h ⊢
        exact ih k a r h

theorem getRecord_grow (o : Oracle) (w : W) (a : Bytes) : Grow w (w.getRecord o a).1 := by
  cases h : alookup a w.records with
  | some r => rw [getRecord_hit h]; exact Grow.refl _
  | none => rw [getRecord_miss' h]; exact ⟨Nat.le_succ _, aset_keeps_keys _ _ _⟩

theorem addConsumed_grow (w : W) (a : Bytes) (d : Nat) : Grow w (w.addConsumed a d) := by
  unfold W.addConsumed
  split
  · exact ⟨Nat.le_refl _, aset_keeps_keys _ _ _⟩
  · exact Grow.refl _

theorem accumulate_grow (o : Oracle) (w : W) (t : Tx) : Grow w (w.accumulate o t) := by
  unfold W.accumulate
  exact ((getRecord_grow o w _).trans (getRecord_grow o _ _)).trans
    ((addConsumed_grow _ _ _).trans (addConsumed_grow _ _ _))

theorem classifyW_grow (o : Oracle) (guard : Tx → Bool) (w : W) (it : HItem) : Grow w (classifyW o guard w it).1 := by
  have r1 := getRecord_grow o w it.cur.sender
  have r2 := r1.trans (getRecord_grow o (w.getRecord o it.cur.sender).1 it.cur.payer)
  have r3 := r2.trans (getRecord_grow o ((w.getRecord o it.cur.sender).1.getRecord o it.cur.payer).1 it.cur.sender)
  unfold classifyW
  dsimp only
  repeat' split
  all_goals first | exact r1 | exact r2 | exact r3

theorem selectLoopWS_grow (v : Variant) (pick : List HItem → Option (HItem × List HItem)) (o : Oracle)
    (guard : Tx → Bool) (q : SelParams) :
    ∀ fuel heap w acc out, Grow w (selectLoopWS v pick o guard q fuel heap w acc out).2 := by
  intro fuel
  induction fuel with
  | zero => intro heap w acc out; exact Grow.refl _
  | succ fuel ih =>
    intro heap w acc out
    unfold selectLoopWS
    split
    · exact Grow.refl _
    · rename_i it heap' hp
      have ce := classifyW_grow o guard w it
      have ae := accumulate_grow o (classifyW o guard w it).1 it.cur
      split
      · exact Grow.refl _
      split
      · exact Grow.refl _
      split
      · exact Grow.refl _
      dsimp only
      split
      · exact ce.trans (ih _ _ _ _)
      · split
        · exact ce.trans (ih _ _ _ _)
        · exact ce.trans (ih _ _ _ _)
      · split
        · exact ce.trans (ae.trans (ih _ _ _ _))
        · exact ce.trans (ae.trans (ih _ _ _ _))

/-- `o'` gives the same answers as `o` at the calls logged in `wf` from call number `lo` on -/
def AgreeOn (o o' : Oracle) (wf : W) (lo : Nat) : Prop :=
  ∀ (k : Nat) (a : Bytes) (r : Rec), lo ≤ k → wf.records[k]? = some (a, r) → o' k a = o k a

theorem AgreeOn.mono {o o' : Oracle} {wf : W} {lo lo' : Nat} (h : AgreeOn o o' wf lo) (hle : lo ≤ lo') :
    AgreeOn o o' wf lo' := fun k a r hk => h k a r (Nat.le_trans hle hk)

theorem getRecord_congr {o o' : Oracle} {w wf : W} {a : Bytes} (hc : w.calls = w.records.length)
    (hg : Grow (w.getRecord o a).1 wf) (hag : AgreeOn o o' wf w.calls) :
    w.getRecord o' a = w.getRecord o a := by
  cases h : alookup a w.records with
  | some r => exact getRecord_hit_indep h
  | none =>
    rw [getRecord_miss h] at hg
    obtain ⟨r', hr'⟩ := hg.2 w.calls a _ (by rw [hc]; exact List.getElem?_concat_length)
    have := hag _ _ _ (Nat.le_refl _) hr'
    rw [getRecord_miss h, getRecord_miss h, this]


theorem accumulate_congr {o o' : Oracle} {w wf : W} (t : Tx) (hok : W.Ok o w)
    (hg : Grow (w.accumulate o t) wf) (hag : AgreeOn o o' wf w.calls) :
    w.accumulate o' t = w.accumulate o t := by
  have g1 := getRecord_grow o w t.sender
  have g2 := getRecord_grow o (w.getRecord o t.sender).1 t.payer
  have g34 : Grow ((w.getRecord o t.sender).1.getRecord o t.payer).1 (w.accumulate o t) :=
    (addConsumed_grow _ _ _).trans (addConsumed_grow _ _ _)
  have e1 : w.getRecord o' t.sender = w.getRecord o t.sender :=
    getRecord_congr hok.calls (g2.trans (g34.trans hg)) hag
  have e2 : (w.getRecord o t.sender).1.getRecord o' t.payer = (w.getRecord o t.sender).1.getRecord o t.payer :=
    getRecord_congr (getRecord_ok _ hok).calls (g34.trans hg) (hag.mono g1.1)
  unfold W.accumulate
  dsimp only
  rw [e1, e2]

set_option linter.unusedSimpArgs false in
theorem classifyW_congr {o o' : Oracle} (guard : Tx → Bool) {w wf : W} (it : HItem) (hok : W.Ok o w)
    (hg : Grow (classifyW o guard w it).1 wf) (hag : AgreeOn o o' wf w.calls) :
    classifyW o' guard w it = classifyW o guard w it := by
  obtain ⟨cur, rest, latest⟩ := it
  have g1 := getRecord_grow o w cur.sender
  have g2 := getRecord_grow o (w.getRecord o cur.sender).1 cur.payer
  have g3 := getRecord_grow o ((w.getRecord o cur.sender).1.getRecord o cur.payer).1 cur.sender
  have ok1 := getRecord_ok (o := o) cur.sender hok
  have ok2 := getRecord_ok (o := o) cur.payer ok1
  have hag1 := hag.mono g1.1
  have hag2 := hag.mono (g1.trans g2).1
  unfold classifyW at hg ⊢
  cases latest
  all_goals
    simp only [Option.isNone_none, Option.isNone_some, Bool.true_and, Bool.false_and, Bool.false_eq_true,
      if_false] at hg ⊢
    have e1 : w.getRecord o' cur.sender = w.getRecord o cur.sender := by
      refine getRecord_congr hok.calls ?_ hag
      revert hg
      repeat' split
      all_goals intro hg
      all_goals first | exact hg | exact g2.trans hg | exact (g2.trans g3).trans hg
    rw [e1]
    repeat' split at hg
  all_goals
    dsimp only at hg
    first
    | (have e2 := getRecord_congr ok1.calls (g3.trans hg) hag1
       have e3 := getRecord_congr ok2.calls hg hag2
       rw [e2, e3])
    | (have e2 := getRecord_congr ok1.calls hg hag1
       rw [e2]
       simp only [*, if_true, if_false, Bool.false_eq_true])
    | simp only [*, if_true, if_false, Bool.false_eq_true]

/-- **The oracle is consulted only at the logged calls.**  Let `r` be the outcome of a run with oracle `o` from a
    faithful state `w`.  Any oracle `o'` that answers like `o` at the calls logged in the final table from call number
    `w.calls` on — call `k` asked for the address of entry `k` — produces the very same run (result, gas and table),
    however different it is anywhere else. -/
theorem selectLoopWS_oracle_indep (v : Variant) (pick : List HItem → Option (HItem × List HItem)) (o o' : Oracle)
    (guard : Tx → Bool) (q : SelParams) :
    ∀ fuel heap w acc out (r : (List Tx × Nat) × W), W.Ok o w →
      selectLoopWS v pick o guard q fuel heap w acc out = r → AgreeOn o o' r.2 w.calls →
      selectLoopWS v pick o' guard q fuel heap w acc out = r := by
  intro fuel
  induction fuel with
  | zero =>
    intro heap w acc out r _ hr _
    subst hr
    simp [selectLoopWS]
  | succ fuel ih =>
    intro heap w acc out r hok hr hag
    unfold selectLoopWS at hr ⊢
    split at hr
    · rename_i hp
      subst hr
      simp only []
    · rename_i it heap' hp
      simp only []
      have cg := classifyW_grow o guard w it
      have cok := (classifyW_ext o guard w it).2.2 hok
      split at hr
      · rename_i h1; subst hr; rw [if_pos h1]
      rename_i h1
      rw [if_neg h1]
      split at hr
      · rename_i h2; subst hr; rw [if_pos h2]
      rename_i h2
      rw [if_neg h2]
      split at hr
      · rename_i h3; subst hr; rw [if_pos h3]
      rename_i h3
      rw [if_neg h3]
      dsimp only at hr ⊢
      split at hr
      · rename_i hv
        have e := selectLoopWS_grow v pick o guard q fuel heap' (classifyW o guard w it).1 acc out
        rw [hr] at e
        rw [classifyW_congr guard it hok e hag, hv]
        exact ih _ _ _ _ r cok hr (hag.mono cg.1)
      · rename_i hv
        split at hr
        · rename_i hadv
          have e := selectLoopWS_grow v pick o guard q fuel heap' (classifyW o guard w it).1 acc out
          rw [hr] at e
          rw [classifyW_congr guard it hok e hag, hv]
          simp only []
          exact ih _ _ _ _ r cok hr (hag.mono cg.1)
        · rename_i it' hadv
          have e := selectLoopWS_grow v pick o guard q fuel (it' :: heap') (classifyW o guard w it).1 acc out
          rw [hr] at e
          rw [classifyW_congr guard it hok e hag, hv]
          simp only []
          exact ih _ _ _ _ r cok hr (hag.mono cg.1)
      · rename_i hv
        have ag := accumulate_grow o (classifyW o guard w it).1 it.cur
        have aok := accumulate_ok (o := o) it.cur cok
        split at hr
        · rename_i hadv
          have e := selectLoopWS_grow v pick o guard q fuel heap'
            ((classifyW o guard w it).1.accumulate o it.cur)
            (if v.gasWraps then (acc + it.cur.gasLimit) % two64 else acc + it.cur.gasLimit) (out ++ [it.cur])
          rw [hr] at e
          rw [classifyW_congr guard it hok (ag.trans e) hag, hv]
          simp only []
          rw [accumulate_congr it.cur cok e (hag.mono cg.1)]
          exact ih _ _ _ _ r aok hr (hag.mono (cg.trans ag).1)
        · rename_i it' hadv
          have e := selectLoopWS_grow v pick o guard q fuel (it' :: heap')
            ((classifyW o guard w it).1.accumulate o it.cur)
            (if v.gasWraps then (acc + it.cur.gasLimit) % two64 else acc + it.cur.gasLimit) (out ++ [it.cur])
          rw [hr] at e
          rw [classifyW_congr guard it hok (ag.trans e) hag, hv]
          simp only []
          rw [accumulate_congr it.cur cok e (hag.mono cg.1)]
          exact ih _ _ _ _ r aok hr (hag.mono (cg.trans ag).1)

/-- the run from the empty table depends on the oracle only through `o k aₖ`, `k < calls`, where `aₖ` is the address
    of entry `k` of the final table — `calls` queries, for pairwise distinct addresses (`getRecord_at_most_once`) -/
theorem selectLoopW_oracle_indep (v : Variant) (pick : List HItem → Option (HItem × List HItem)) (o o' : Oracle)
    (guard : Tx → Bool) (q : SelParams) (fuel : Nat) (heap : List HItem)
    (h : ∀ (k : Nat) (a : Bytes) (r : Rec),
      (finalW v pick o guard q fuel heap W.empty 0 []).records[k]? = some (a, r) → o' k a = o k a) :
    selectLoopW v pick o' guard q fuel heap W.empty 0 [] = selectLoopW v pick o guard q fuel heap W.empty 0 [] ∧
    finalW v pick o' guard q fuel heap W.empty 0 [] = finalW v pick o guard q fuel heap W.empty 0 [] := by
  have := selectLoopWS_oracle_indep v pick o o' guard q fuel heap W.empty 0 [] _ (ok_empty o) rfl
    (fun k a r _ hk => h k a r hk)
  unfold selectLoopW finalW
  rw [this]
  exact ⟨rfl, rfl⟩

/-! ### non-vacuity: an inconsistent oracle -/

namespace Ex

def A : Bytes := [1]
def B : Bytes := [2]

def mk (hash : Bytes) (sender : Bytes) (nonce : Nat) : Tx :=
  { hash := hash, sender := sender, nonce := nonce, gasPrice := 1, gasLimit := 10, size := 0, fee := 10, value := 7,
    relayer := [] }

def a5 : Tx := mk [1] A 5
def a6 : Tx := mk [2] A 6
def a9 : Tx := mk [3] A 9
def b0 : Tx := mk [4] B 0

/-- 4 transactions, 2 senders -/
def bunches : List (List Tx) := [[a5, a6, a9], [b0]]

def q : SelParams := { gasReq := 1000, maxNum := 10, stop := fun _ => false }

/-- an INCONSISTENT session: account `A` has nonce 5 when asked by the very first call, nonce 9 at every later call -/
def liar : Oracle := fun n a =>
  if a = A then (if n = 0 then some (5, 1000) else some (9, 1000)) else some (0, 1000)

/-- the pure session of the FIRST answers / of the LATER answers -/
def sFirst : Session := ⟨fun a => if a = A then 5 else 0, fun _ => 1000, fun _ => false⟩
def sLater : Session := ⟨fun a => if a = A then 9 else 0, fun _ => 1000, fun _ => false⟩

/-- the wrapper's result is the one of the first answers: `A`'s run is 5, 6 (then the gap to 9 drops the sender) -/
example : selectFromBunchesW Variant.current liar (fun _ => false) q bunches = ([a5, a6, b0], 30) := by decide

example : selectFromBunches Variant.current sFirst q bunches = ([a5, a6, b0], 30) := by decide

/-- had the second answer (nonce 9) been used, the result would be different -/
example : selectFromBunches Variant.current sLater q bunches = ([a9, b0], 20) := by decide

example : selectFromBunchesW Variant.current liar (fun _ => false) q bunches
    ≠ selectFromBunches Variant.current sLater q bunches := by decide

/-- the final memo table of that run: two calls, two addresses; `A` keeps the FIRST answer, and (sender = fee payer,
    both pointers alias one record) has consumed value + fee of both its transactions -/
example : finalW Variant.current (popBest Variant.current) liar (fun _ => false) q 5 (initHeap bunches) W.empty 0 []
    = ⟨[(A, ⟨5, 1000, 34⟩), (B, ⟨0, 1000, 17⟩)], 2⟩ := by decide

/-- the session of `selectLoopW_refines` for that run is `sFirst` on the addresses involved -/
example : (firstAnswers Variant.current (popBest Variant.current) liar (fun _ => false) q 5 (initHeap bunches)).nonce A = 5
    ∧ (firstAnswers Variant.current (popBest Variant.current) liar (fun _ => false) q 5 (initHeap bunches)).nonce B = 0
    ∧ (finalW Variant.current (popBest Variant.current) liar (fun _ => false) q 5 (initHeap bunches) W.empty 0 []).queryIndex A
        = some 0 := by decide

/-- aliasing in `accumulateConsumedBalance`: sender = fee payer, one record, both amounts -/
example : (W.empty.accumulate liar a5).records = [(A, ⟨5, 1000, 17⟩)] := by decide

/-- … and a relayed transaction: two records -/
example : (W.empty.accumulate liar { a5 with relayer := B }).records = [(A, ⟨5, 1000, 7⟩), (B, ⟨0, 1000, 10⟩)] := by
  decide

/-- a lookup error is memoised as nonce 0 / balance 0: the sender's first transaction (fee 10) is not affordable -/
example : selectFromBunchesW Variant.current (fun _ _ => none) (fun _ => false) q bunches = ([], 0) := by decide

/-- the hypotheses of `selectLoopW_nonce_run` / `selectLoopW_members` are met by the example -/
example : (∀ b ∈ bunches, BunchOk b) ∧ BunchesDistinct bunches ∧ bunches.flatten.Nodup := by
  refine ⟨?_, ?_, by decide⟩
  · intro b hb
    simp only [bunches, List.mem_cons, List.not_mem_nil, or_false] at hb
    rcases hb with rfl | rfl
    · exact ⟨by decide, by decide⟩
    · exact ⟨by decide, by decide⟩
  · unfold BunchesDistinct bunches
    decide

/-- a consistent oracle satisfying the hypothesis of `selectLoopW_consistent` -/
example : ∀ n m a, (fun (_ : Nat) (a : Bytes) => if a = A then some (5, 1000) else none) n a
    = (fun (_ : Nat) (a : Bytes) => if a = A then some (5, 1000) else none) m a := fun _ _ _ => rfl

example : selectFromBunchesW Variant.current (fun _ a => if a = A then some (5, 1000) else none) (fun _ => false) q bunches
    = ([a5, a6], 20) := by decide

/-- the hypothesis of `selectLoopW_oracle_indep` met by a genuinely different oracle: it agrees with `liar` at the two
    logged calls (call 0 for `A`, call 1 for `B`) and nowhere else need it -/
def liar' : Oracle := fun n a => if n = 0 then some (5, 1000) else if a = B then some (0, 1000) else none

example : liar' 1 A ≠ liar 1 A := by decide

example : ∀ (k : Nat) (a : Bytes) (r : Rec),
    (finalW Variant.current (popBest Variant.current) liar (fun _ => false) q 5 (initHeap bunches) W.empty 0 []).records[k]?
      = some (a, r) → liar' k a = liar k a := by
  have e : finalW Variant.current (popBest Variant.current) liar (fun _ => false) q 5 (initHeap bunches) W.empty 0 []
      = ⟨[(A, ⟨5, 1000, 34⟩), (B, ⟨0, 1000, 17⟩)], 2⟩ := by decide
  rw [e]
  intro k a r h
  match k with
  | 0 => simp at h; obtain ⟨rfl, _⟩ := h; decide
  | 1 => simp at h; obtain ⟨rfl, _⟩ := h; decide
  | k + 2 => simp at h

end Ex

end SW
end SV.TxCache
