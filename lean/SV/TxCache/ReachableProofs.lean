/-
  SV.TxCache.ReachableProofs — the end-to-end composition for C01–C04: the hypotheses under which the selection
  theorems (`SelProofs`, `SelOrderProofs`, `GreedySpec`) are stated — single-sender nonce-sorted bunches, different
  senders in different bunches, no hash twice — are met by the sender lists of EVERY pool reachable from the empty
  pool by any history of AddTx / RemoveTxByHash / Clear, so their conclusions hold for
  `select Variant.current (ops.foldl applyOp (Pool.init cfg)) s q`.  Second part: with eviction disabled the sender lists
  of a reachable pool are those of a pure reference machine (`specLists`) that never mentions `addTx`/`removeTxByHash`.
-/
import SV.TxCache.SelProofs
import SV.TxCache.OrderProofs
import SV.TxCache.SelOrderProofs
import SV.TxCache.GreedySpec
import SV.TxCache.ListsInvProofs
import SV.TxCache.EvictInv
import SV.TxCache.EvictPost
namespace SV.TxCache
open C5

/-! ### the bunches handed to the selection -/

/-- the bunches `select` takes from a pool: the sender lists, in map order -/
def bunchesOf (p : Pool) : List (List Tx) := p.lists.map (·.2)

theorem select_eq_bunches (v : Variant) (p : Pool) (s : Session) (q : SelParams) :
    select v p s q = selectFromBunches v s q (bunchesOf p) := rfl

theorem mem_bunchesOf {p : Pool} {b : List Tx} (h : b ∈ bunchesOf p) : ∃ s, (s, b) ∈ p.lists := by
  obtain ⟨⟨s, l⟩, hm, rfl⟩ := List.mem_map.mp h
  exact ⟨s, hm⟩

theorem mem_flatten_bunchesOf {p : Pool} {t : Tx} : t ∈ (bunchesOf p).flatten ↔ ∃ s l, (s, l) ∈ p.lists ∧ t ∈ l := by
  constructor
  · intro h
    obtain ⟨b, hb, ht⟩ := List.mem_flatten.mp h
    obtain ⟨s, hs⟩ := mem_bunchesOf hb
    exact ⟨s, b, hs, ht⟩
  · rintro ⟨s, l, hm, ht⟩
    exact List.mem_flatten.mpr ⟨l, List.mem_map.mpr ⟨(s, l), hm, rfl⟩, ht⟩

/-- a relation that holds between the lists of two different senders holds pairwise between the bunches -/
theorem pairwise_snd_of_keys_nodup {L : List (Bytes × List Tx)} (hnd : (L.map (·.1)).Nodup)
    (R : List Tx → List Tx → Prop)
    (hR : ∀ s l s' l', (s, l) ∈ L → (s', l') ∈ L → s ≠ s' → R l l') : (L.map (·.2)).Pairwise R := by
  induction L with
  | nil => exact List.Pairwise.nil
  | cons a r ih =>
    obtain ⟨s, l⟩ := a
    simp only [List.map_cons, List.nodup_cons] at hnd
    rw [List.map_cons, List.pairwise_cons]
    refine ⟨?_, ih hnd.2 (fun s l s' l' h h' => hR s l s' l' (List.mem_cons_of_mem _ h) (List.mem_cons_of_mem _ h'))⟩
    intro l' hl'
    obtain ⟨⟨s', l''⟩, hm, rfl⟩ := List.mem_map.mp hl'
    refine hR s l s' l'' (List.mem_cons_self ..) (List.mem_cons_of_mem _ hm) ?_
    intro e
    exact hnd.1 (List.mem_map.mpr ⟨(s', l''), hm, e.symm⟩)

/-- the invariant and strict sortedness give everything the selection theorems ask of the bunches -/
theorem bunches_ok_of_inv (U : Bytes → Tx) (p : Pool) (h : Inv U p) (hso : ListsSorted p) :
    (∀ b ∈ bunchesOf p, BunchOk b) ∧ BunchesDistinct (bunchesOf p) ∧
    ((bunchesOf p).flatten.map (·.hash)).Nodup ∧ (bunchesOf p).flatten.Nodup := by
  have hhash : (bunchesOf p).flatten.Pairwise (fun a b => a.hash ≠ b.hash) := by
    rw [List.pairwise_flatten]
    constructor
    · intro b hb
      obtain ⟨s, hs⟩ := mem_bunchesOf hb
      refine List.Pairwise.imp_of_mem ?_ (hso s b hs)
      intro x y hx hy hlt e
      exact listLt_ne x y hlt (wf_inj (h.wfLists s b hs x hx).1 (h.wfLists s b hs y hy).1 e)
    · refine pairwise_snd_of_keys_nodup h.sendersNodup _ ?_
      intro s l s' l' hm hm' hne x hx y hy e
      have exy := wf_inj (h.wfLists s l hm x hx).1 (h.wfLists s' l' hm' y hy).1 e
      apply hne
      rw [← (h.wfLists s l hm x hx).2, ← (h.wfLists s' l' hm' y hy).2, exy]
  refine ⟨?_, ?_, ?_, ?_⟩
  · intro b hb
    obtain ⟨s, hs⟩ := mem_bunchesOf hb
    refine ⟨?_, h.nonceSorted s b hs⟩
    intro x hx y hy
    rw [(h.wfLists s b hs x hx).2, (h.wfLists s b hs y hy).2]
  · refine pairwise_snd_of_keys_nodup h.sendersNodup _ ?_
    intro s l s' l' hm hm' hne x hx y hy
    rw [(h.wfLists s l hm x hx).2, (h.wfLists s' l' hm' y hy).2]
    exact hne
  · unfold List.Nodup
    rw [List.pairwise_map]
    exact hhash
  · exact hhash.imp (fun hne e => hne (by rw [e]))

/-- (1) the bunches of every reachable pool satisfy the hypotheses of the selection theorems -/
theorem reachable_bunches_ok (U : Bytes → Tx) (cfg : Config) (ops : List Op) (hw : ∀ t, Op.add t ∈ ops → WfTx U t) :
    let bunches := (ops.foldl applyOp (Pool.init cfg)).lists.map (·.2)
    (∀ b ∈ bunches, BunchOk b) ∧ BunchesDistinct bunches ∧
    (bunches.flatten.map (·.hash)).Nodup ∧ bunches.flatten.Nodup :=
  bunches_ok_of_inv U _ (Inv.reachable U cfg ops hw) (ListsSorted.reachable U cfg ops hw)

/-! ### C01, C02, C03 over reachable pools -/

/-- (2) C01 end-to-end: whatever the history, the session and the limits, the nonces selected for a sender are
    `accountNonce, accountNonce+1, …` in result order -/
theorem reachable_nonce_run (U : Bytes → Tx) (cfg : Config) (ops : List Op) (hw : ∀ t, Op.add t ∈ ops → WfTx U t)
    (s : Session) (q : SelParams) (snd : Bytes) :
    ∃ k, noncesOf snd (select Variant.current (ops.foldl applyOp (Pool.init cfg)) s q).1
      = List.range' (s.nonce snd) k := by
  obtain ⟨hb, hd, -, -⟩ := reachable_bunches_ok U cfg ops hw
  exact selectLoop_nonce_run Variant.current (popBest Variant.current) (popBest_pickOk _) s q _ hb hd _ snd

/-- (3) C02 end-to-end: the selection from a reachable pool is duplicate-free, consists of pooled transactions (listed
    under some sender AND reachable by hash), respects `maxNum` and `gasReq` (true sum in ℕ = returned gas), contains no
    badly guarded transaction, and each fee payer's balance covers, in result order, the fee on top of everything the
    earlier results committed to that account -/
theorem reachable_selection_constraints (U : Bytes → Tx) (cfg : Config) (ops : List Op)
    (hw : ∀ t, Op.add t ∈ ops → WfTx U t) (s : Session) (q : SelParams) :
    let p := ops.foldl applyOp (Pool.init cfg)
    let r := select Variant.current p s q
    r.1.Nodup ∧
    (∀ t ∈ r.1, (∃ snd l, (snd, l) ∈ p.lists ∧ t ∈ l) ∧ alookup t.hash p.byHash = some t) ∧
    r.1.length ≤ q.maxNum ∧
    (r.1.map (·.gasLimit)).sum = r.2 ∧ r.2 ≤ q.gasReq ∧
    (∀ t ∈ r.1, s.badGuard t = false) ∧
    (∀ i (hi : i < r.1.length), committed (r.1.take i) (r.1[i]).payer + (r.1[i]).fee ≤ s.balance (r.1[i]).payer) := by
  intro p r
  have hI : Inv U p := Inv.reachable U cfg ops hw
  obtain ⟨-, -, -, hn⟩ := reachable_bunches_ok U cfg ops hw
  have hmem := selectLoop_members Variant.current (popBest Variant.current) (popBest_pickOk _) s q (bunchesOf p) hn
    (bunchesTotal (bunchesOf p) + 1)
  have hgas := selectLoop_gas Variant.current rfl (popBest Variant.current) s q (initHeap (bunchesOf p))
    (bunchesTotal (bunchesOf p) + 1)
  refine ⟨hmem.1, ?_, selectLoop_count _ _ s q _ _, hgas.1, hgas.2, selectLoop_guard _ _ s q _ _,
    selectLoop_balance _ _ s q _ _⟩
  intro t ht
  obtain ⟨snd, l, hm, htl⟩ := mem_flatten_bunchesOf.mp (hmem.2 t ht)
  exact ⟨⟨snd, l, hm, htl⟩, alookup_of_mem hI.keysNodup ((hI.same t).mpr ⟨snd, l, hm, htl⟩)⟩

/-- (3, corollary) every selected transaction is found by hash under its own sender's list -/
theorem reachable_selected_listed_under_sender (U : Bytes → Tx) (cfg : Config) (ops : List Op)
    (hw : ∀ t, Op.add t ∈ ops → WfTx U t) (s : Session) (q : SelParams) :
    let p := ops.foldl applyOp (Pool.init cfg)
    ∀ t ∈ (select Variant.current p s q).1, ∃ l, alookup t.sender p.lists = some l ∧ t ∈ l := by
  intro p t ht
  have hI : Inv U p := Inv.reachable U cfg ops hw
  exact Inv.no_ghost U p hI t.hash t ((reachable_selection_constraints U cfg ops hw s q).2.1 t ht).2

/-- (4) C03 end-to-end: on every reachable pool the selection IS the documented greedy procedure, and it depends only on
    the SET of sender lists: any pool whose `lists` are a permutation (other map iteration order, other insertion order
    of the senders) yields the same result -/
theorem reachable_selection_is_greedy (U : Bytes → Tx) (cfg : Config) (ops : List Op)
    (hw : ∀ t, Op.add t ∈ ops → WfTx U t) (s : Session) (q : SelParams) :
    let p := ops.foldl applyOp (Pool.init cfg)
    select Variant.current p s q = greedy Variant.current s q (p.lists.map (·.2)) ∧
    (∀ L' : List (Bytes × List Tx), L'.Perm p.lists →
      selectFromBunches Variant.current s q (L'.map (·.2)) = select Variant.current p s q) ∧
    (∀ p' : Pool, p'.lists.Perm p.lists → select Variant.current p' s q = select Variant.current p s q) := by
  intro p
  obtain ⟨-, -, hn, -⟩ := reachable_bunches_ok U cfg ops hw
  have hperm : ∀ L' : List (Bytes × List Tx), L'.Perm p.lists →
      selectFromBunches Variant.current s q (L'.map (·.2)) = select Variant.current p s q := by
    intro L' hp
    exact (selectFromBunches_perm Variant.current s q _ _ (hp.symm.map (·.2)) hn).symm
  exact ⟨selectFromBunches_eq_greedy Variant.current s q _ hn, hperm, fun p' hp => hperm p'.lists hp⟩

/-! ### C04: global refinement of the sender lists (eviction disabled)

The reference machine keeps, per sender, a list of transactions (a total function, `[]` for an unknown sender) and the
finite set of senders it has ever stored something for (only used to SEARCH the reference for a hash).  It is written
with `orderedInsert`, `trim1`, `List.filter` and `[]` only. -/

/-- state of the reference machine -/
structure Ref where
  /-- senders that may hold a non-empty list (the finite support of `lists`) -/
  senders : List Bytes
  lists : Bytes → List Tx

def Ref.init : Ref := ⟨[], fun _ => []⟩

/-- "is a transaction with hash `h` pooled, and which one": search of the reference itself -/
def Ref.find (r : Ref) (h : Bytes) : Option Tx :=
  r.senders.findSome? (fun s => (r.lists s).find? (fun x => x.hash == h))

/-- one operation of the history on the reference:
    * add `t`: nothing if the hash is already pooled, else ordered insertion into the sender's list, then the trim;
    * remove `h`: nothing if the hash is not pooled, else the sender of the pooled transaction keeps its higher nonces;
    * clear: everything is `[]`. -/
def specStep (cfg : Config) (r : Ref) : Op → Ref
  | .add t =>
    if (r.find t.hash).isSome then r
    else ⟨t.sender :: r.senders,
          fun s => if s = t.sender then (trim1 cfg (orderedInsert t (r.lists s))).1 else r.lists s⟩
  | .rm h =>
    match r.find h with
    | none => r
    | some t =>
      ⟨r.senders, fun s => if s = t.sender then (r.lists s).filter (fun x => decide (x.nonce > t.nonce)) else r.lists s⟩
  | .clear => Ref.init

def specState (cfg : Config) (ops : List Op) : Ref := ops.foldl (specStep cfg) Ref.init

/-- the reference content of sender `s` after the history `ops` -/
def specLists (cfg : Config) (ops : List Op) (s : Bytes) : List Tx := (specState cfg ops).lists s

/-- the recursion over the history, spelled out: the last operation acts on the reference of the earlier ones -/
theorem specState_snoc (cfg : Config) (ops : List Op) (op : Op) :
    specState cfg (ops ++ [op]) = specStep cfg (specState cfg ops) op := by
  unfold specState
  rw [List.foldl_append]
  rfl

theorem specLists_nil (cfg : Config) (s : Bytes) : specLists cfg [] s = [] := rfl

theorem specLists_snoc_clear (cfg : Config) (ops : List Op) (s : Bytes) : specLists cfg (ops ++ [Op.clear]) s = [] := by
  unfold specLists
  rw [specState_snoc]
  rfl

theorem specLists_snoc_add (cfg : Config) (ops : List Op) (t : Tx) (s : Bytes) :
    specLists cfg (ops ++ [Op.add t]) s =
      if ((specState cfg ops).find t.hash).isSome then specLists cfg ops s
      else if s = t.sender then (trim1 cfg (orderedInsert t (specLists cfg ops s))).1 else specLists cfg ops s := by
  unfold specLists
  rw [specState_snoc]
  simp only [specStep]
  split <;> rfl

theorem specLists_snoc_rm (cfg : Config) (ops : List Op) (h : Bytes) (s : Bytes) :
    specLists cfg (ops ++ [Op.rm h]) s =
      match (specState cfg ops).find h with
      | none => specLists cfg ops s
      | some t =>
        if s = t.sender then (specLists cfg ops s).filter (fun x => decide (x.nonce > t.nonce)) else specLists cfg ops s := by
  unfold specLists
  rw [specState_snoc]
  simp only [specStep]
  split <;> rfl

/-- pool and reference hold the same lists, and the reference's sender set covers its non-empty lists -/
structure Agree (p : Pool) (r : Ref) : Prop where
  lists : ∀ s, (alookup s p.lists).getD [] = r.lists s
  dom : ∀ s, r.lists s ≠ [] → s ∈ r.senders

theorem Agree.init (cfg : Config) : Agree (Pool.init cfg) Ref.init :=
  ⟨fun _ => rfl, fun _ h => absurd rfl h⟩

theorem Agree.mem_lists {p : Pool} {r : Ref} (a : Agree p r) {s : Bytes} {x : Tx} (hx : x ∈ r.lists s) :
    ∃ l, alookup s p.lists = some l ∧ x ∈ l := by
  rw [← a.lists s] at hx
  cases hl : alookup s p.lists with
  | none => rw [hl] at hx; simp at hx
  | some l => rw [hl] at hx; exact ⟨l, rfl, hx⟩

/-- searching the reference for a hash gives what the pool's hash index gives -/
theorem Agree.find_eq {U : Bytes → Tx} {p : Pool} {r : Ref} (hI : Inv U p) (a : Agree p r) (k : Bytes) :
    r.find k = alookup k p.byHash := by
  have h1 : ∀ x, r.find k = some x → alookup k p.byHash = some x := by
    intro x hx
    obtain ⟨s', -, hf⟩ := List.exists_of_findSome?_eq_some hx
    have hpx := List.find?_some hf
    have hxm := List.mem_of_find?_eq_some hf
    obtain ⟨l, hl, hxl⟩ := a.mem_lists hxm
    have := Inv.listed_is_hashed U p hI s' l x hl hxl
    rw [eq_of_beq hpx] at this
    exact this
  have h2 : ∀ t, alookup k p.byHash = some t → r.find k ≠ none := by
    intro t ht hnone
    have hk : t.hash = k := (hI.wfHash k t (alookup_some_mem ht)).1
    obtain ⟨l, hl, htl⟩ := Inv.no_ghost U p hI k t ht
    have htr : t ∈ r.lists t.sender := by rw [← a.lists, hl]; exact htl
    have hs : t.sender ∈ r.senders := a.dom _ (List.ne_nil_of_mem htr)
    have hnone' := List.findSome?_eq_none_iff.mp hnone t.sender hs
    have := List.find?_eq_none.mp hnone' t htr
    exact this (by simp [hk])
  cases hf : r.find k with
  | some x => exact (h1 x hf).symm
  | none =>
    cases hb : alookup k p.byHash with
    | none => rfl
    | some t => exact absurd hf (h2 t hb)

/-- one operation keeps pool and reference in agreement (eviction disabled) -/
theorem Agree.step (U : Bytes → Tx) (cfg : Config) (p : Pool) (r : Ref) (op : Op)
    (hI : Inv U p) (hso : ListsSorted p) (hcfg : p.cfg = cfg) (he : cfg.evictionEnabled = false)
    (hw : ∀ t, op = Op.add t → WfTx U t) (a : Agree p r) : Agree (applyOp p op) (specStep cfg r op) := by
  have he' : p.cfg.evictionEnabled = false := by rw [hcfg]; exact he
  cases op with
  | add t =>
    have ht : WfTx U t := hw t rfl
    have hadd := (addTx_lists_noEvict U p t hI hso ht he').2
    have hother := evict_not_called_when_disabled U p t hI hso ht he'
    simp only [applyOp, specStep]
    rw [a.find_eq hI]
    cases hb : alookup t.hash p.byHash with
    | some x =>
      rw [hb] at hadd
      simp only [Option.isSome_some, if_true] at hadd ⊢
      refine ⟨?_, a.dom⟩
      intro s
      by_cases hs : s = t.sender
      · subst hs; rw [hadd]; exact a.lists _
      · rw [hother s hs]; exact a.lists s
    | none =>
      rw [hb] at hadd
      simp only [Option.isSome_none, Bool.false_eq_true, if_false] at hadd ⊢
      constructor
      · intro s
        dsimp only
        by_cases hs : s = t.sender
        · subst hs; rw [if_pos rfl, hadd, a.lists, hcfg]
        · rw [if_neg hs, hother s hs]; exact a.lists s
      · intro s hne
        dsimp only at hne ⊢
        by_cases hs : s = t.sender
        · subst hs; exact List.mem_cons_self ..
        · rw [if_neg hs] at hne
          exact List.mem_cons_of_mem _ (a.dom s hne)
  | rm k =>
    have hrm := removeTxByHash_lists U p k hI
    simp only [applyOp, specStep]
    rw [a.find_eq hI]
    cases hb : alookup k p.byHash with
    | none =>
      simp only [hb] at hrm
      rw [hrm]
      exact a
    | some t =>
      simp only [hb] at hrm
      obtain ⟨-, hother, hself⟩ := hrm
      constructor
      · intro s
        dsimp only
        by_cases hs : s = t.sender
        · subst hs; rw [if_pos rfl, hself, a.lists]
        · rw [if_neg hs, hother s hs]; exact a.lists s
      · intro s hne
        dsimp only at hne ⊢
        by_cases hs : s = t.sender
        · subst hs
          rw [if_pos rfl] at hne
          apply a.dom
          intro e
          rw [e] at hne
          exact hne rfl
        · rw [if_neg hs] at hne
          exact a.dom s hne
  | clear => exact ⟨fun _ => rfl, fun _ h => absurd rfl h⟩

theorem Agree.fold (U : Bytes → Tx) (cfg : Config) (he : cfg.evictionEnabled = false) (ops : List Op) :
    ∀ (p : Pool) (r : Ref), Inv U p → ListsSorted p → p.cfg = cfg → Agree p r →
      (∀ t, Op.add t ∈ ops → WfTx U t) → Agree (ops.foldl applyOp p) (ops.foldl (specStep cfg) r) := by
  induction ops with
  | nil => intro p r _ _ _ a _; exact a
  | cons op ops ih =>
    intro p r hI hso hcfg a hw
    rw [List.foldl_cons, List.foldl_cons]
    have hw' : ∀ t, Op.add t ∈ ops → WfTx U t := fun t ht => hw t (List.mem_cons_of_mem _ ht)
    have ha := Agree.step U cfg p r op hI hso hcfg he (fun t e => hw t (e ▸ List.mem_cons_self ..)) a
    cases op with
    | add t =>
      have ht := hw t (List.mem_cons_self ..)
      exact ih _ _ (Inv.addTx U p t hI hso ht) (ListsSorted.addTx U p t hI hso ht)
        ((cfg_addTx Variant.current p t).trans hcfg) ha hw'
    | rm k =>
      exact ih _ _ (Inv.removeTxByHash U p k hI) (ListsSorted.removeTxByHash U p k hI hso)
        ((cfg_removeTxByHash p k).trans hcfg) ha hw'
    | clear => exact ih _ _ (Inv.clear U p hI) (ListsSorted.clear _ p) hcfg ha hw'

/-- (5) C04 global refinement: with eviction disabled, after ANY history of well-formed insertions, removals and
    clears, every sender's list in the pool is exactly the reference list (a sender without an entry ≙ `[]`).
    No hypothesis on the limits is needed (with `countPerSender = 0` both sides trim the inserted transaction away). -/
theorem reachable_lists_eq_spec (U : Bytes → Tx) (cfg : Config) (ops : List Op)
    (he : cfg.evictionEnabled = false) (hw : ∀ t, Op.add t ∈ ops → WfTx U t) (s : Bytes) :
    (alookup s (ops.foldl applyOp (Pool.init cfg)).lists).getD [] = specLists cfg ops s :=
  (Agree.fold U cfg he ops _ _ (Inv.init U cfg) (ListsSorted.init cfg) rfl (Agree.init cfg) hw).lists s

/-- (5, companion) the reference's hash search is the pool's hash index: `added` of AddTx and `found` of RemoveTxByHash
    are determined by the reference as well -/
theorem reachable_find_eq_spec (U : Bytes → Tx) (cfg : Config) (ops : List Op)
    (he : cfg.evictionEnabled = false) (hw : ∀ t, Op.add t ∈ ops → WfTx U t) (k : Bytes) :
    alookup k (ops.foldl applyOp (Pool.init cfg)).byHash = (specState cfg ops).find k :=
  ((Agree.fold U cfg he ops _ _ (Inv.init U cfg) (ListsSorted.init cfg) rfl (Agree.init cfg) hw).find_eq
    (Inv.reachable U cfg ops hw) k).symm

/-! ### non-vacuity: a concrete history -/

namespace ReachEx

def tx (h s : UInt8) (n gp : Nat) : Tx := ⟨[h], [s], n, gp, 10, 1, 10 * gp, 0, []⟩

def t1 := tx 1 0xa0 0 1
def t2 := tx 2 0xa0 1 1
def t3 := tx 3 0xa0 1 2   -- same sender, same nonce as t2, higher gas price: goes in front of t2
def t4 := tx 4 0xb0 0 1
def t5 := tx 5 0xa0 2 1

/-- six operations: two senders, a duplicate nonce (t2/t3) and a removal (by the hash of t1) -/
def history : List Op := [.add t1, .add t2, .add t3, .add t4, .rm [1], .add t5]

def cfg : Config := ⟨false, 100000, 100000, 100, 3, 1⟩

/-- "the" transaction of a hash -/
def U (h : Bytes) : Tx := (([t1, t2, t3, t4, t5] : List Tx).find? (fun x => x.hash == h)).getD t1

theorem history_wf : ∀ t, Op.add t ∈ history → WfTx U t := by
  intro t ht
  simp only [history, List.mem_cons, Op.add.injEq, List.not_mem_nil, or_false, reduceCtorEq, false_or] at ht
  rcases ht with rfl | rfl | rfl | rfl | rfl <;> (unfold WfTx; decide)

def session : Session := ⟨fun _ => 1, fun _ => 1000, fun _ => false⟩
def params : SelParams := ⟨1000, 10, fun _ => false, 10⟩

-- both sides of `reachable_lists_eq_spec`, evaluated: sender a0 lost nonce 0 by the removal, holds the duplicate
-- nonce 1 (dearer first) and nonce 2; sender b0 is untouched; an unknown sender has `[]`
example : (alookup [0xa0] (history.foldl applyOp (Pool.init cfg)).lists).getD [] = [t3, t2, t5] := by decide
example : specLists cfg history [0xa0] = [t3, t2, t5] := by decide
example : (alookup [0xb0] (history.foldl applyOp (Pool.init cfg)).lists).getD [] = [t4] := by decide
example : specLists cfg history [0xb0] = [t4] := by decide
example : specLists cfg history [0xc0] = [] := by decide
-- re-inserting a pooled hash changes nothing, on either side
example : (alookup [0xa0] ((history ++ [Op.add t2]).foldl applyOp (Pool.init cfg)).lists).getD [] = [t3, t2, t5] := by
  decide
example : specLists cfg (history ++ [Op.add t2]) [0xa0] = [t3, t2, t5] := by decide
-- with the per-sender limit hit (countPerSender = 3 and a fourth insertion) the trim shows on both sides
example : (alookup [0xa0] ([Op.add t1, .add t2, .add t3, .add t5].foldl applyOp (Pool.init cfg)).lists).getD []
    = [t1, t3, t2] := by decide
example : specLists cfg [Op.add t1, .add t2, .add t3, .add t5] [0xa0] = [t1, t3, t2] := by decide

-- the theorems instantiated (hypotheses are satisfiable)
example (s : Bytes) : (alookup s (history.foldl applyOp (Pool.init cfg)).lists).getD [] = specLists cfg history s :=
  reachable_lists_eq_spec U cfg history rfl history_wf s

example : ∃ k, noncesOf [0xa0] (select Variant.current (history.foldl applyOp (Pool.init cfg)) session params).1
    = List.range' 1 k :=
  reachable_nonce_run U cfg history history_wf session params [0xa0]

example :
    let bunches := (history.foldl applyOp (Pool.init cfg)).lists.map (·.2)
    (∀ b ∈ bunches, BunchOk b) ∧ BunchesDistinct bunches ∧
    (bunches.flatten.map (·.hash)).Nodup ∧ bunches.flatten.Nodup :=
  reachable_bunches_ok U cfg history history_wf

example : (history.foldl applyOp (Pool.init cfg)).lists.map (·.2) = [[t3, t2, t5], [t4]] := by decide

example : (select Variant.current (history.foldl applyOp (Pool.init cfg)) session params).1.Nodup :=
  (reachable_selection_constraints U cfg history history_wf session params).1

-- … and what the selection actually returns here: b0's nonce 0 is below the account nonce 1 (skipped), a0 starts at
-- nonce 1 with the dearer duplicate, the cheaper duplicate is skipped, then nonce 2
example : ((select Variant.current (history.foldl applyOp (Pool.init cfg)) session params).1.map (·.hash))
    = [[3], [5]] := by decide

example : select Variant.current (history.foldl applyOp (Pool.init cfg)) session params
    = greedy Variant.current session params ((history.foldl applyOp (Pool.init cfg)).lists.map (·.2)) :=
  (reachable_selection_is_greedy U cfg history history_wf session params).1

/-- the well-formedness hypothesis (a hash determines the transaction) is needed for the refinement: when two DIFFERENT
    transactions carry the same hash, AddTx refuses the second in the hash index but still files it under its sender,
    while the reference (like the documented semantics) ignores an insertion whose hash is pooled -/
theorem refinement_needs_wf :
    let t4' : Tx := { t4 with hash := [1] }   -- sender b0, but the hash of t1
    (alookup [0xb0] ([Op.add t1, Op.add t4'].foldl applyOp (Pool.init cfg)).lists).getD [] = [t4'] ∧
    specLists cfg [Op.add t1, Op.add t4'] [0xb0] = [] := by decide

end ReachEx

end SV.TxCache
