/-
  SV.TxCache.EvictPost — post-conditions of eviction (C06, C07) and of the list-level effect of AddTx / RemoveTxByHash (C04).
-/
import SV.TxCache.EvictInv
import SV.TxCache.ListsInvProofs
import SV.TxCache.OrderProofs
namespace SV.TxCache
open C5

namespace C5

/-! ### a few more association-list facts -/

theorem alookup_aerase_ne {α β : Type} [BEq α] [LawfulBEq α] {k k' : α} (l : List (α × β)) (hne : k' ≠ k) :
    alookup k' (aerase k l) = alookup k' l := by
  induction l with
  | nil => rfl
  | cons a r ih =>
    obtain ⟨k'', v''⟩ := a
    simp only [aerase]
    split
    · next hk =>
      have e := eq_of_beq hk
      subst e
      have : (k'' == k') = false := by
        cases hb : (k'' == k') with
        | false => rfl
        | true => exact absurd (eq_of_beq hb).symm hne
      simp [alookup, this, ih]
    · simp [alookup, ih]

theorem alookup_aerase_self {α β : Type} [BEq α] [LawfulBEq α] (k : α) (l : List (α × β)) :
    alookup k (aerase k l) = none := by
  rw [alookup_none_iff]
  intro hk
  obtain ⟨v, hv⟩ := exists_of_mem_keys hk
  exact (mem_aerase.mp hv).2 rfl

theorem alookup_append_ne {α β : Type} [BEq α] [LawfulBEq α] {k k' : α} (v : β) (l : List (α × β)) (hne : k' ≠ k) :
    alookup k' (l ++ [(k, v)]) = alookup k' l := by
  induction l with
  | nil =>
    have : (k == k') = false := by
      cases hb : (k == k') with
      | false => rfl
      | true => exact absurd (eq_of_beq hb).symm hne
    simp [alookup, this]
  | cons a r ih =>
    obtain ⟨k'', v''⟩ := a
    simp only [List.cons_append, alookup, ih]

theorem alookup_removeSenderIfEmpty_ne (p : Pool) {s s' : Bytes} (hne : s' ≠ s) :
    alookup s' (removeSenderIfEmpty p s).lists = alookup s' p.lists := by
  unfold removeSenderIfEmpty
  split
  · exact alookup_aerase_ne _ hne
  · rfl

theorem alookup_removeSenderIfEmpty_self (p : Pool) (s : Bytes) :
    (alookup s (removeSenderIfEmpty p s).lists).getD [] = (alookup s p.lists).getD [] := by
  unfold removeSenderIfEmpty
  split
  · next h => rw [h]; simp only [alookup_aerase_self]; rfl
  · rfl

/-! ### counters only go down in the removal helpers -/

theorem byHashRemove_cntTx_le (p : Pool) (h : Bytes) : (byHashRemove p h).cntTx ≤ p.cntTx := by
  unfold byHashRemove; split
  · exact Int.le_refl _
  · simp only; omega

theorem byHashRemove_numBytes_le (p : Pool) (h : Bytes) : (byHashRemove p h).numBytes ≤ p.numBytes := by
  unfold byHashRemove; split
  · exact Int.le_refl _
  · simp only; omega

theorem removeBulk_cntTx_le (p : Pool) (hs : List Bytes) : (removeBulk p hs).cntTx ≤ p.cntTx := by
  induction hs generalizing p with
  | nil => exact Int.le_refl _
  | cons h hs ih => rw [removeBulk_cons]; exact Int.le_trans (ih _) (byHashRemove_cntTx_le p h)

theorem removeBulk_numBytes_le (p : Pool) (hs : List Bytes) : (removeBulk p hs).numBytes ≤ p.numBytes := by
  induction hs generalizing p with
  | nil => exact Int.le_refl _
  | cons h hs ih => rw [removeBulk_cons]; exact Int.le_trans (ih _) (byHashRemove_numBytes_le p h)

theorem removeSenderIfEmpty_cntSenders_le (p : Pool) (s : Bytes) : (removeSenderIfEmpty p s).cntSenders ≤ p.cntSenders := by
  unfold removeSenderIfEmpty; split
  · simp only; omega
  · exact Int.le_refl _

/-! ### one collecting pass: how many victims, and what is left in the heap -/

/-- the number of transactions the heap can still deliver -/
def hmeasure (heap : List HItem) : Nat := (heap.map (fun it => it.rest.length + 1)).sum

theorem hmeasure_cons (it : HItem) (heap : List HItem) : hmeasure (it :: heap) = it.rest.length + 1 + hmeasure heap := by
  simp [hmeasure]

theorem hmeasure_perm {l₁ l₂ : List HItem} (hp : l₁.Perm l₂) : hmeasure l₁ = hmeasure l₂ :=
  (hp.map _).sum_nat

theorem hmeasure_eq_zero {heap : List HItem} (h : hmeasure heap = 0) : heap = [] := by
  cases heap with
  | nil => rfl
  | cons it heap => rw [hmeasure_cons] at h; omega

/-- a transaction the heap can still deliver -/
def InHeap (heap : List HItem) (x : Tx) : Prop := ∃ it ∈ heap, x ∈ it.cur :: it.rest

theorem collectVictims_spec (v : Variant) (hv : v.evictionDropsPopped = false) : ∀ (n : Nat) (heap : List HItem) (acc : List Tx),
    (collectVictims v n heap acc).1.length = acc.length + min n (hmeasure heap) ∧
    (collectVictims v n heap acc).1.length + hmeasure (collectVictims v n heap acc).2 = acc.length + hmeasure heap ∧
    (∀ x, x ∈ acc ∨ InHeap heap x →
      x ∈ (collectVictims v n heap acc).1 ∨ InHeap (collectVictims v n heap acc).2 x) := by
  intro n
  induction n with
  | zero =>
    intro heap acc
    have e : collectVictims v 0 heap acc = (acc, heap) := by
      simp only [collectVictims, hv, Bool.false_eq_true, if_false]
    rw [e]
    exact ⟨by simp, rfl, fun x hx => hx⟩
  | succ n ih =>
    intro heap acc
    unfold collectVictims
    split
    · next hpop =>
      have : heap = [] := C5.popBy_none hpop
      subst this
      exact ⟨by simp [hmeasure], rfl, fun x hx => hx⟩
    · next it heap' hpop =>
      have hperm : (it :: heap').Perm heap := C5.popBy_perm hpop
      have hm : hmeasure heap = it.rest.length + 1 + hmeasure heap' := by
        rw [← hmeasure_perm hperm, hmeasure_cons]
      have hin : ∀ x, InHeap heap x → x = it.cur ∨ x ∈ it.rest ∨ InHeap heap' x := by
        rintro x ⟨j, hj, hx⟩
        rcases List.mem_cons.mp (hperm.mem_iff.mpr hj) with rfl | hj'
        · rcases List.mem_cons.mp hx with hx | hx
          · exact Or.inl hx
          · exact Or.inr (Or.inl hx)
        · exact Or.inr (Or.inr ⟨j, hj', hx⟩)
      cases hr : it.rest with
      | nil =>
        have hadv : it.advance = none := by unfold HItem.advance; rw [hr]
        simp only [hadv]
        obtain ⟨h1, h2, h3⟩ := ih heap' (acc ++ [it.cur])
        rw [hr] at hm hin
        refine ⟨?_, ?_, ?_⟩
        · rw [h1, List.length_append, hm]; simp only [List.length_cons, List.length_nil]; omega
        · rw [h2, List.length_append, hm]; simp only [List.length_cons, List.length_nil]; omega
        · intro x hx
          apply h3
          rcases hx with hx | hx
          · exact Or.inl (List.mem_append_left _ hx)
          · rcases hin x hx with rfl | hx | hx
            · exact Or.inl (List.mem_append_right _ (List.mem_singleton.mpr rfl))
            · simp at hx
            · exact Or.inr hx
      | cons t ts =>
        have hadv : it.advance = some { it with cur := t, rest := ts } := by unfold HItem.advance; rw [hr]
        simp only [hadv]
        obtain ⟨h1, h2, h3⟩ := ih ({ it with cur := t, rest := ts } :: heap') (acc ++ [it.cur])
        rw [hr] at hm hin
        rw [hmeasure_cons] at h1 h2
        refine ⟨?_, ?_, ?_⟩
        · rw [h1, List.length_append, hm]; simp only [List.length_cons, List.length_nil]; omega
        · rw [h2, List.length_append, hm]; simp only [List.length_cons, List.length_nil]; omega
        · intro x hx
          apply h3
          rcases hx with hx | hx
          · exact Or.inl (List.mem_append_left _ hx)
          · rcases hin x hx with rfl | hx | ⟨j, hj, hx⟩
            · exact Or.inl (List.mem_append_right _ (List.mem_singleton.mpr rfl))
            · exact Or.inr ⟨_, List.mem_cons_self .., hx⟩
            · exact Or.inr ⟨j, List.mem_cons_of_mem _ hj, hx⟩

end C5

/-- C07: each pass takes exactly NumItemsToPreemptivelyEvict victims, or all that is left in the heap -/
theorem collectVictims_length (v : Variant) (hv : v.evictionDropsPopped = false) (n : Nat) (heap : List HItem) (acc : List Tx) :
    (collectVictims v n heap acc).1.length = acc.length + min n ((heap.map (fun it => it.rest.length + 1)).sum) :=
  (collectVictims_spec v hv n heap acc).1

/-- C07: the victim taken at each step is the least valuable among the heads of all walks -/
theorem popWorst_is_least_valuable (v : Variant) (heap : List HItem) (it : HItem) (rest : List HItem)
    (hd : (heap.map (·.cur.hash)).Nodup) (h : popWorst v heap = some (it, rest)) :
    ∀ other ∈ rest, moreValuable v other.cur it.cur = true :=
  popBy_best (fun a b => moreValuable v b a) heap it rest (popWorst_strictTotalOn v heap) hd h

/-- C07: an eviction pass runs only while the pool is over a threshold (no more than needed, batch-wise) -/
theorem evictLoop_stops (v : Variant) (fuel : Nat) (p : Pool) (heap : List HItem) (h : p.exceeded = false) :
    evictLoop v fuel p heap = p := by
  cases fuel with
  | zero => rfl
  | succ fuel => unfold evictLoop; simp [h]

/-! ### eviction ends within the thresholds, or with an empty pool -/

namespace C5

/-- the heap snapshot still delivers every pooled transaction -/
def Cover (p : Pool) (heap : List HItem) : Prop := ∀ x, Pooled p x → InHeap heap x

theorem applyVictims_pooled (U : Bytes → Tx) (p : Pool) (victims : List Tx) (h : Inv U p)
    (hord : victims.Pairwise (fun a b => a.sender = b.sender → b.nonce ≤ a.nonce)) :
    ∀ x, Pooled (applyVictims Variant.current p victims) x → Pooled p x ∧ x ∉ victims := by
  intro x hx
  unfold applyVictims Pooled at hx
  dsimp only at hx
  rw [removeBulk_lists] at hx
  obtain ⟨-, -, hp1⟩ := foldThreshold_all U (thresholds victims) p h
  obtain ⟨hxp, hno⟩ := hp1 x hx
  refine ⟨hxp, ?_⟩
  intro hv
  obtain ⟨n, hn, hle⟩ := thresholds_le victims [] hord x hv
  exact hno (x.sender, n) (alookup_some_mem hn) ⟨rfl, hle⟩

theorem pool_empty_of_no_pooled {U : Bytes → Tx} {p : Pool} (h : Inv U p) (hno : ∀ x, ¬ Pooled p x) :
    p.byHash = [] ∧ p.lists = [] := by
  constructor
  · cases hb : p.byHash with
    | nil => rfl
    | cons a r =>
      obtain ⟨k, t⟩ := a
      have hm : (k, t) ∈ p.byHash := by rw [hb]; exact List.mem_cons_self ..
      have hk := (h.wfHash k t hm).1
      subst hk
      exact absurd ((h.same t).mp hm) (hno t)
  · cases hl : p.lists with
    | nil => rfl
    | cons a r =>
      obtain ⟨s, l⟩ := a
      have hm : (s, l) ∈ p.lists := by rw [hl]; exact List.mem_cons_self ..
      cases l with
      | nil => exact absurd rfl (h.nonEmpty s [] hm)
      | cons t ts => exact absurd ⟨s, t :: ts, hm, List.mem_cons_self ..⟩ (hno t)

theorem evictLoop_post (U : Bytes → Tx) : ∀ (fuel : Nat) (p : Pool) (heap : List HItem), Inv U p → HeapOk U heap →
    Cover p heap → hmeasure heap < fuel → 1 ≤ p.cfg.numItemsToEvict →
    (evictLoop Variant.current fuel p heap).exceeded = false ∨
      ((evictLoop Variant.current fuel p heap).byHash = [] ∧ (evictLoop Variant.current fuel p heap).lists = []) := by
  intro fuel
  induction fuel with
  | zero => intro p heap _ _ _ hm; omega
  | succ fuel ih =>
    intro p heap h hh hcov hm hn
    unfold evictLoop
    split
    · have hcv : CV U [] heap := ⟨hh, by simp, List.Pairwise.nil, by simp⟩
      have hres := collectVictims_ok p.cfg.numItemsToEvict heap [] hcv
      obtain ⟨hlen, hmeas, hpart⟩ := collectVictims_spec Variant.current rfl p.cfg.numItemsToEvict heap []
      cases hc : collectVictims Variant.current p.cfg.numItemsToEvict heap [] with
      | mk victims heap' =>
        rw [hc] at hres hlen hmeas hpart
        dsimp only at hlen hmeas hpart ⊢
        simp only [List.length_nil, Nat.zero_add] at hlen hmeas
        split
        · next hemp =>
          -- no victim although at least one was asked for: the heap is exhausted, hence the pool is empty
          right
          have hv : victims = [] := by simpa using hemp
          rw [hv, List.length_nil] at hlen
          have hz : hmeasure heap = 0 := by omega
          have hheap : heap = [] := hmeasure_eq_zero hz
          apply pool_empty_of_no_pooled h
          intro x hx
          obtain ⟨it, hit, -⟩ := hcov x hx
          rw [hheap] at hit
          simp at hit
        · next hemp =>
          have hvlen : 1 ≤ victims.length := by
            cases victims with
            | nil => simp at hemp
            | cons a r => simp
          obtain ⟨ha, -⟩ := applyVictims_all U p victims h hres.wf hres.ord
          refine ih (applyVictims Variant.current p victims) heap' ha hres.heapOk ?_ (by omega) ?_
          · intro x hx
            obtain ⟨hxp, hxv⟩ := applyVictims_pooled U p victims h hres.ord x hx
            rcases hpart x (Or.inr (hcov x hxp)) with hx' | hx'
            · exact absurd hx' hxv
            · exact hx'
          · rw [cfg_applyVictims]; exact hn
    · next hne =>
      left
      cases he : p.exceeded with
      | false => rfl
      | true => exact absurd he hne

theorem initHeap_cover (L : List (Bytes × List Tx)) {s : Bytes} {l : List Tx} {x : Tx} (hm : (s, l) ∈ L) (hx : x ∈ l) :
    InHeap (initHeap (L.map (·.2.reverse))) x := by
  cases hr : l.reverse with
  | nil =>
    have : x ∈ l.reverse := List.mem_reverse.mpr hx
    rw [hr] at this
    simp at this
  | cons t ts =>
    refine ⟨{ cur := t, rest := ts }, ?_, ?_⟩
    · unfold initHeap
      refine List.mem_filterMap.mpr ⟨l.reverse, List.mem_map.mpr ⟨(s, l), hm, rfl⟩, ?_⟩
      rw [hr]
      rfl
    · show x ∈ t :: ts
      rw [← hr]
      exact List.mem_reverse.mpr hx

theorem hmeasure_initHeap (L : List (Bytes × List Tx)) :
    hmeasure (initHeap (L.map (·.2.reverse))) = (L.map (·.2.length)).sum := by
  induction L with
  | nil => rfl
  | cons a L ih =>
    obtain ⟨s, l⟩ := a
    show hmeasure (initHeap (l.reverse :: L.map (·.2.reverse))) = _
    unfold initHeap
    rw [List.filterMap_cons]
    have hlen : l.reverse.length = l.length := List.length_reverse
    cases hr : l.reverse with
    | nil =>
      rw [hr] at hlen
      simp only [HItem.ofBunch, List.map_cons, List.sum_cons]
      have := ih
      unfold initHeap at this
      rw [this]
      simp only [List.length_nil] at hlen
      omega
    | cons t ts =>
      rw [hr] at hlen
      simp only [HItem.ofBunch, List.map_cons, List.sum_cons]
      rw [hmeasure_cons]
      have := ih
      unfold initHeap at this
      rw [this]
      simp only [List.length_cons] at hlen
      dsimp only
      omega

end C5

/-- C06: eviction ends with the pool within its thresholds, or empty (sequentially the snapshot covers the whole pool,
    so when the heap is exhausted everything has been evicted) -/
theorem evict_post (U : Bytes → Tx) (p : Pool) (h : Inv U p) (hso : ListsSorted p) (hn : 1 ≤ p.cfg.numItemsToEvict) :
    (evict Variant.current p).exceeded = false ∨ ((evict Variant.current p).byHash = [] ∧ (evict Variant.current p).lists = []) := by
  have _ := hso
  unfold evict
  split
  · refine evictLoop_post U _ p _ h (initHeap_ok p.lists h.wfLists h.nonceSorted h.sendersNodup) ?_ ?_ hn
    · rintro x ⟨s, l, hm, hx⟩
      exact initHeap_cover p.lists hm hx
    · rw [hmeasure_initHeap]
      unfold totalTxs
      omega
  · next hne =>
    left
    cases he : p.exceeded with
    | false => rfl
    | true => exact absurd he hne

/-! ### pool-wide bounds after an insertion -/

namespace C5

theorem trimStep_bounds (q0 : Pool) (s : Bytes) (hs : List Bytes) (a b c : Int)
    (h1 : q0.cntTx ≤ a) (h2 : q0.cntSenders ≤ b) (h3 : q0.numBytes ≤ c) :
    (removeBulk (removeSenderIfEmpty q0 s) hs).cntTx ≤ a ∧
    (removeBulk (removeSenderIfEmpty q0 s) hs).cntSenders ≤ b ∧
    (removeBulk (removeSenderIfEmpty q0 s) hs).numBytes ≤ c := by
  refine ⟨?_, ?_, ?_⟩
  · have := removeBulk_cntTx_le (removeSenderIfEmpty q0 s) hs
    rw [removeSenderIfEmpty_cntTx] at this
    omega
  · rw [removeBulk_cntSenders]
    have := removeSenderIfEmpty_cntSenders_le q0 s
    omega
  · have := removeBulk_numBytes_le (removeSenderIfEmpty q0 s) hs
    rw [removeSenderIfEmpty_numBytes] at this
    omega

/-- the insertion proper adds at most one hash (and its bytes) and at most one sender -/
theorem addTxCore_bounds (p : Pool) (t : Tx) :
    (addTxCore Variant.current p t).1.cntTx ≤ p.cntTx + 1 ∧
    (addTxCore Variant.current p t).1.cntSenders ≤ p.cntSenders + 1 ∧
    (addTxCore Variant.current p t).1.numBytes ≤ p.numBytes + (t.size : Int) := by
  cases hb : alookup t.hash p.byHash <;> cases hl : alookup t.sender p.lists
  · cases hi : insertTx t []
    · simp only [addTxCore, hb, hl, hi]
      omega
    · simp only [addTxCore, hb, hl, hi, Variant.current, Bool.false_eq_true, if_false]
      exact trimStep_bounds _ _ _ _ _ _ (by dsimp only; omega) (by dsimp only; omega) (by dsimp only; omega)
  · next l =>
    cases hi : insertTx t l
    · simp only [addTxCore, hb, hl, hi]
      omega
    · simp only [addTxCore, hb, hl, hi, Variant.current, Bool.false_eq_true, if_false]
      exact trimStep_bounds _ _ _ _ _ _ (by dsimp only; omega) (by dsimp only; omega) (by dsimp only; omega)
  · cases hi : insertTx t []
    · simp only [addTxCore, hb, hl, hi]
      omega
    · simp only [addTxCore, hb, hl, hi, Variant.current, Bool.false_eq_true, if_false]
      exact trimStep_bounds _ _ _ _ _ _ (by dsimp only; omega) (by dsimp only; omega) (by dsimp only; omega)
  · next l =>
    cases hi : insertTx t l
    · simp only [addTxCore, hb, hl, hi]
      omega
    · simp only [addTxCore, hb, hl, hi, Variant.current, Bool.false_eq_true, if_false]
      exact trimStep_bounds _ _ _ _ _ _ (by dsimp only; omega) (by dsimp only; omega) (by dsimp only; omega)

end C5

/-- C06: with eviction enabled, after an insertion the pool exceeds each pool-wide threshold by at most the one
    transaction just added -/
theorem addTx_pool_bounds (U : Bytes → Tx) (p : Pool) (t : Tx) (h : Inv U p) (hso : ListsSorted p) (ht : WfTx U t)
    (he : p.cfg.evictionEnabled = true) (hn : 1 ≤ p.cfg.numItemsToEvict) :
    let p' := (addTx Variant.current p t).1
    p'.cntTx ≤ (p.cfg.countThreshold : Int) + 1 ∧ p'.cntSenders ≤ (p.cfg.countThreshold : Int) + 1 ∧
    p'.numBytes ≤ (p.cfg.numBytesThreshold : Int) + (t.size : Int) := by
  have _ := ht
  intro p'
  have hp' : p' = (addTxCore Variant.current (evict Variant.current p) t).1 := by
    show (addTx Variant.current p t).1 = _
    rw [addTx_eq_core, he]
    rfl
  rw [hp']
  obtain ⟨b1, b2, b3⟩ := addTxCore_bounds (evict Variant.current p) t
  have hI := Inv.evict U p h
  rcases evict_post U p h hso hn with hne | ⟨hb, -⟩
  · simp only [Pool.exceeded, cfg_evict, clampNat, Bool.or_eq_false_iff, decide_eq_false_iff_not] at hne
    obtain ⟨⟨e1, e2⟩, e3⟩ := hne
    refine ⟨?_, ?_, ?_⟩ <;> omega
  · obtain ⟨-, z1, z2, z3⟩ := Inv.empty_reports_zero U _ hI hb
    refine ⟨?_, ?_, ?_⟩ <;> omega

/-! ### the list-level effect of AddTx and RemoveTxByHash (C04) -/

namespace C5

/-- the insertion proper touches no other sender's list (for any pool) -/
theorem addTxCore_lists_other (p : Pool) (t : Tx) (s : Bytes) (hs : s ≠ t.sender) :
    alookup s (addTxCore Variant.current p t).1.lists = alookup s p.lists := by
  cases hb : alookup t.hash p.byHash <;> cases hl : alookup t.sender p.lists
  · cases hi : insertTx t []
    · simp only [addTxCore, hb, hl, hi]
      exact alookup_append_ne _ _ hs
    · simp only [addTxCore, hb, hl, hi, Variant.current, Bool.false_eq_true, if_false]
      rw [removeBulk_lists, alookup_removeSenderIfEmpty_ne _ hs]
      dsimp only
      rw [alookup_aset_ne _ _ hs, alookup_append_ne _ _ hs]
  · next l =>
    cases hi : insertTx t l
    · simp only [addTxCore, hb, hl, hi]
    · simp only [addTxCore, hb, hl, hi, Variant.current, Bool.false_eq_true, if_false]
      rw [removeBulk_lists, alookup_removeSenderIfEmpty_ne _ hs]
      dsimp only
      rw [alookup_aset_ne _ _ hs]
  · cases hi : insertTx t []
    · simp only [addTxCore, hb, hl, hi]
      exact alookup_append_ne _ _ hs
    · simp only [addTxCore, hb, hl, hi, Variant.current, Bool.false_eq_true, if_false]
      rw [removeBulk_lists, alookup_removeSenderIfEmpty_ne _ hs]
      dsimp only
      rw [alookup_aset_ne _ _ hs, alookup_append_ne _ _ hs]
  · next l =>
    cases hi : insertTx t l
    · simp only [addTxCore, hb, hl, hi]
    · simp only [addTxCore, hb, hl, hi, Variant.current, Bool.false_eq_true, if_false]
      rw [removeBulk_lists, alookup_removeSenderIfEmpty_ne _ hs]
      dsimp only
      rw [alookup_aset_ne _ _ hs]

end C5

/-- C06: with eviction disabled nothing is ever dropped for pool-wide reasons: the lists of the other senders are untouched -/
theorem evict_not_called_when_disabled (U : Bytes → Tx) (p : Pool) (t : Tx) (h : Inv U p) (hso : ListsSorted p) (ht : WfTx U t)
    (he : p.cfg.evictionEnabled = false) (s : Bytes) (hs : s ≠ t.sender) :
    alookup s (addTx Variant.current p t).1.lists = alookup s p.lists := by
  have _ := h; have _ := hso; have _ := ht
  rw [addTx_eq_core, he]
  exact addTxCore_lists_other p t s hs

/-- C04: what AddTx does to the lists when eviction is disabled: the flag says whether the hash was new; other senders
    are untouched; the sender's list is the ordered insertion followed by the (one-step) trim -/
theorem addTx_lists_noEvict (U : Bytes → Tx) (p : Pool) (t : Tx) (h : Inv U p) (hso : ListsSorted p) (ht : WfTx U t)
    (he : p.cfg.evictionEnabled = false) :
    let r := addTx Variant.current p t
    let l := (alookup t.sender p.lists).getD []
    r.2 = (alookup t.hash p.byHash).isNone ∧
    (alookup t.sender r.1.lists).getD [] =
      (if (alookup t.hash p.byHash).isSome then l else (trim1 p.cfg (orderedInsert t l)).1) := by
  dsimp only
  rw [addTx_eq_core, he]
  simp only [Bool.false_eq_true, if_false]
  cases hb : alookup t.hash p.byHash with
  | some x =>
    obtain ⟨hh, hw, l, hl, hxl⟩ := hashed_listed h hb
    have hxt : x = t := wf_inj hw ht hh
    subst hxt
    have hins : insertTx x l = none := by
      rw [insertTx_eq_orderedInsert x l (hso _ _ (alookup_some_mem hl)), if_pos ⟨x, hxl, rfl, rfl, rfl⟩]
    simp only [addTxCore, hb, hl, hins]
    simp
  | none =>
    cases hl : alookup t.sender p.lists with
    | some l =>
      have hins := fresh_insertTx h hso ht hb (Or.inl hl)
      simp only [addTxCore, hb, hl, hins, Variant.current, Bool.false_eq_true, if_false]
      refine ⟨rfl, ?_⟩
      rw [removeBulk_lists, alookup_removeSenderIfEmpty_self]
      dsimp only
      rw [alookup_aset_self]
      simp
    | none =>
      have hins := fresh_insertTx (l := []) h hso ht hb (Or.inr ⟨hl, rfl⟩)
      simp only [addTxCore, hb, hl, hins, Variant.current, Bool.false_eq_true, if_false]
      refine ⟨rfl, ?_⟩
      rw [removeBulk_lists, alookup_removeSenderIfEmpty_self]
      dsimp only
      rw [alookup_aset_self]
      simp

/-- C04: RemoveTxByHash drops exactly the sender's transactions with a nonce ≤ the removed one's, nothing else -/
theorem removeTxByHash_lists (U : Bytes → Tx) (p : Pool) (hsh : Bytes) (h : Inv U p) :
    match alookup hsh p.byHash with
    | none => removeTxByHash p hsh = (p, false)
    | some t =>
      (removeTxByHash p hsh).2 = true ∧
      (∀ s, s ≠ t.sender → alookup s (removeTxByHash p hsh).1.lists = alookup s p.lists) ∧
      (alookup t.sender (removeTxByHash p hsh).1.lists).getD [] =
        ((alookup t.sender p.lists).getD []).filter (fun x => decide (x.nonce > t.nonce)) := by
  split
  · next hn => unfold removeTxByHash; rw [hn]
  · next t hm =>
    obtain ⟨-, -, l, hl, -⟩ := hashed_listed h hm
    have hsorted := h.nonceSorted _ _ (alookup_some_mem hl)
    unfold removeTxByHash
    simp only [hm, byHashRemove_lists, hl]
    refine ⟨trivial, ?_, ?_⟩
    · intro s hs
      rw [removeBulk_lists, alookup_removeSenderIfEmpty_ne _ hs]
      dsimp only
      rw [alookup_aset_ne _ _ hs]
    · rw [removeBulk_lists, alookup_removeSenderIfEmpty_self]
      dsimp only
      rw [alookup_aset_self]
      simp only [Option.getD_some]
      exact dropLowerOrEqual_eq_filter t.nonce l hsorted

end SV.TxCache
