/-
  SV.TxCache.ReachableSize — the SIZE properties of the mempool (C06, C07) stated END-TO-END: over every pool reachable
  from the empty pool by any history of AddTx / RemoveTxByHash / Clear (`run cfg ops`) and for every configuration
  accepted by `NewTxCache` (`GenProofs.txAccepted`, the translated `ConfigSourceMe.verify`).  The single-step statements
  of `SV/Props/C06.lean`, `C07.lean` carry the hypotheses `Inv U p`, `ListsSorted p`, `ListsInv p`, `1 ≤ numItemsToEvict`;
  here they are discharged: the only hypotheses left are on the INPUTS (accepted configuration, a hash determines its
  transaction), and where even those are not needed they are dropped (see the `_anyConfig` versions).

  Findings recorded here:
  * `ListsInv` (strict sortedness + per-sender count bound) needs NOTHING of the configuration, not even
    `1 ≤ countPerSender`: with limit 0 the inserted transaction is trimmed away again (`reachable_listsInv_anyConfig`);
    it does not need well-formed inputs either.
  * The disjunction "within thresholds OR empty" of `evict_post` collapses on reachable pools: an empty pool reports zero
    counters (C05), hence is within the thresholds too (`reachable_within_thresholds_after_eviction`).
  * `1 ≤ numItemsToEvict` (guaranteed by the constructor's validity test) IS needed for the eviction post-condition and
    for the bound after an insertion: `bounds_need_positive_batch` is a concrete history with a batch size of 0.
-/
import SV.TxCache.EvictPost
import SV.GenProofs.Config
namespace SV.TxCache
open C5

/-- the pool after the history `ops`, starting from the empty pool created with configuration `cfg` -/
def run (cfg : Config) (ops : List Op) : Pool := ops.foldl applyOp (Pool.init cfg)

theorem run_nil (cfg : Config) : run cfg [] = Pool.init cfg := rfl

theorem run_snoc (cfg : Config) (ops : List Op) (op : Op) : run cfg (ops ++ [op]) = applyOp (run cfg ops) op := by
  unfold run
  rw [List.foldl_append]
  rfl

/-! ### (2) the configuration never changes -/

theorem ReachSize.cfg_applyOp (p : Pool) (op : Op) : (applyOp p op).cfg = p.cfg := by
  cases op with
  | add t => exact cfg_addTx Variant.current p t
  | rm h => exact cfg_removeTxByHash p h
  | clear => rfl

theorem ReachSize.cfg_foldl_applyOp (ops : List Op) (p : Pool) : (ops.foldl applyOp p).cfg = p.cfg := by
  induction ops generalizing p with
  | nil => rfl
  | cons op ops ih => rw [List.foldl_cons, ih, ReachSize.cfg_applyOp]

/-- every reachable pool still carries the configuration it was created with -/
theorem reachable_cfg (cfg : Config) (ops : List Op) : (run cfg ops).cfg = cfg :=
  ReachSize.cfg_foldl_applyOp ops (Pool.init cfg)

/-! ### (1) per-sender lists: strictly sorted, at most `countPerSender` transactions -/

theorem ReachSize.listsInv_applyOp (p : Pool) (op : Op) (hi : ListsInv p) : ListsInv (applyOp p op) := by
  cases op with
  | add t =>
    -- `ListsInv.addTx` asks for `1 ≤ countPerSender` but does not use it; go through its stages to avoid the hypothesis
    show ListsInv (addTx Variant.current p t).1
    rw [addTx_eq]
    have h1 := hi.addS1 Variant.current p
    have h2 : ListsInv (addS2 (addS1 Variant.current p) t).1 :=
      h1.of_sub (cfg_addS2 _ t) (by rw [lists_addS2]; exact SubLists.refl _)
    obtain ⟨h3, h3s, h3c⟩ := h2.addS3 _ t
    rw [← cfg_addS3 _ t] at h3c
    exact h3.addS4 Variant.current _ t _ _ h3s h3c
  | rm h => exact hi.removeTxByHash p h
  | clear => exact ListsInv.clear Variant.current p

theorem ReachSize.listsInv_foldl (ops : List Op) (p : Pool) (hi : ListsInv p) : ListsInv (ops.foldl applyOp p) := by
  induction ops generalizing p with
  | nil => exact hi
  | cons op ops ih => rw [List.foldl_cons]; exact ih _ (ReachSize.listsInv_applyOp p op hi)

/-- (1, full strength) `ListsInv` holds on every reachable pool of EVERY configuration (accepted or not) and for every
    history (well-formed or not) -/
theorem reachable_listsInv_anyConfig (cfg : Config) (ops : List Op) : ListsInv (run cfg ops) :=
  ReachSize.listsInv_foldl ops _ (ListsInv.init cfg)

/-- (1) C06/C04: for every accepted configuration, every sender's list of every reachable pool is strictly sorted and holds
    at most `countPerSender` transactions.  (Neither hypothesis is used: see `reachable_listsInv_anyConfig`.) -/
theorem reachable_listsInv (U : Bytes → Tx) (cfg : Config) (ops : List Op) (nameLen numChunks : Nat)
    (hacc : GenProofs.txAccepted cfg nameLen numChunks = true) (hw : ∀ t, Op.add t ∈ ops → WfTx U t) :
    ListsInv (run cfg ops) := by
  have _ := hacc; have _ := hw
  exact reachable_listsInv_anyConfig cfg ops

/-- (1, spelled out against the creation-time configuration) on a reachable pool of an accepted configuration each
    registered sender holds between 1 and `cfg.countPerSender` transactions (the limit itself is at least 1), strictly
    sorted by (nonce ↑, gas price ↓, hash ↑), all of them its own -/
theorem reachable_sender_lists (U : Bytes → Tx) (cfg : Config) (ops : List Op) (nameLen numChunks : Nat)
    (hacc : GenProofs.txAccepted cfg nameLen numChunks = true) (hw : ∀ t, Op.add t ∈ ops → WfTx U t)
    (s : Bytes) (l : List Tx) (hm : (s, l) ∈ (run cfg ops).lists) :
    ListSorted l ∧ 1 ≤ l.length ∧ l.length ≤ cfg.countPerSender ∧ 1 ≤ cfg.countPerSender ∧ ∀ t ∈ l, t.sender = s := by
  have hi := reachable_listsInv_anyConfig cfg ops
  have hI : Inv U (run cfg ops) := Inv.reachable U cfg ops hw
  have hb := GenProofs.txAccepted_bounds cfg nameLen numChunks hacc
  have hc := hi.count s l hm
  rw [reachable_cfg] at hc
  refine ⟨hi.sorted s l hm, ?_, hc, hb.2.2.2.2.2.1, fun t ht => (hI.wfLists s l hm t ht).2⟩
  have := hI.nonEmpty s l hm
  cases l with
  | nil => exact absurd rfl this
  | cons a r => simp

/-! ### (3) C06: pool-wide bounds after every insertion of every history -/

/-- (3) C06: eviction enabled, accepted configuration: after the insertion of ANY (well-formed) transaction into ANY
    reachable pool the counters exceed the pool-wide thresholds by at most the transaction just added -/
theorem reachable_pool_bounds_after_every_add (U : Bytes → Tx) (cfg : Config) (ops : List Op) (nameLen numChunks : Nat)
    (hacc : GenProofs.txAccepted cfg nameLen numChunks = true) (hw : ∀ t, Op.add t ∈ ops → WfTx U t)
    (he : cfg.evictionEnabled = true) (t : Tx) (ht : WfTx U t) :
    let p' := (addTx Variant.current (run cfg ops) t).1
    p'.cntTx ≤ (cfg.countThreshold : Int) + 1 ∧ p'.cntSenders ≤ (cfg.countThreshold : Int) + 1 ∧
    p'.numBytes ≤ (cfg.numBytesThreshold : Int) + (t.size : Int) := by
  have hb := GenProofs.txAccepted_bounds cfg nameLen numChunks hacc
  have hcfg := reachable_cfg cfg ops
  have h := addTx_pool_bounds U (run cfg ops) t (Inv.reachable U cfg ops hw) (ListsSorted.reachable U cfg ops hw) ht
    (by rw [hcfg]; exact he) (by rw [hcfg]; exact hb.2.2.2.2.2.2.2.2.2)
  rw [hcfg] at h
  exact h

/-- (3, as a statement about the history itself) at EVERY insertion point of EVERY well-formed history the pool right
    after that insertion is within `threshold + the transaction just added`, as reported by the (clamped, unsigned)
    counters `CountTx`, `CountSenders`, `NumBytes` as well -/
theorem reachable_pool_bounds_at_every_add_of_history (U : Bytes → Tx) (cfg : Config) (ops : List Op)
    (nameLen numChunks : Nat) (hacc : GenProofs.txAccepted cfg nameLen numChunks = true)
    (hw : ∀ t, Op.add t ∈ ops → WfTx U t) (he : cfg.evictionEnabled = true)
    (pre post : List Op) (t : Tx) (hsplit : ops = pre ++ Op.add t :: post) :
    let p' := run cfg (pre ++ [Op.add t])
    clampNat p'.cntTx ≤ cfg.countThreshold + 1 ∧ clampNat p'.cntSenders ≤ cfg.countThreshold + 1 ∧
    clampNat p'.numBytes ≤ cfg.numBytesThreshold + t.size := by
  intro p'
  have hwpre : ∀ x, Op.add x ∈ pre → WfTx U x := fun x hx => hw x (by rw [hsplit]; exact List.mem_append_left _ hx)
  have ht : WfTx U t := hw t (by rw [hsplit]; exact List.mem_append_right _ (List.mem_cons_self ..))
  have hp' : p' = (addTx Variant.current (run cfg pre) t).1 := run_snoc cfg pre (Op.add t)
  obtain ⟨h1, h2, h3⟩ := reachable_pool_bounds_after_every_add U cfg pre nameLen numChunks hacc hwpre he t ht
  rw [← hp'] at h1 h2 h3
  unfold clampNat
  refine ⟨?_, ?_, ?_⟩ <;> omega

/-- (3, full strength) C06: on a reachable pool of an accepted configuration eviction ALWAYS ends within the three
    thresholds (the "or empty" alternative of `evict_post` is within them too: an empty pool reports zero counters) -/
theorem reachable_within_thresholds_after_eviction (U : Bytes → Tx) (cfg : Config) (ops : List Op) (nameLen numChunks : Nat)
    (hacc : GenProofs.txAccepted cfg nameLen numChunks = true) (hw : ∀ t, Op.add t ∈ ops → WfTx U t) :
    let q := evict Variant.current (run cfg ops)
    q.exceeded = false ∧ q.cntTx ≤ (cfg.countThreshold : Int) ∧ q.cntSenders ≤ (cfg.countThreshold : Int) ∧
    q.numBytes ≤ (cfg.numBytesThreshold : Int) := by
  dsimp only
  have hb := GenProofs.txAccepted_bounds cfg nameLen numChunks hacc
  have hcfg := reachable_cfg cfg ops
  have hI : Inv U (run cfg ops) := Inv.reachable U cfg ops hw
  have hIq : Inv U (evict Variant.current (run cfg ops)) := Inv.evict U _ hI
  have hqcfg : (evict Variant.current (run cfg ops)).cfg = cfg := (cfg_evict Variant.current (run cfg ops)).trans hcfg
  have key : (evict Variant.current (run cfg ops)).cntTx ≤ (cfg.countThreshold : Int) ∧
      (evict Variant.current (run cfg ops)).cntSenders ≤ (cfg.countThreshold : Int) ∧
      (evict Variant.current (run cfg ops)).numBytes ≤ (cfg.numBytesThreshold : Int) := by
    rcases evict_post U (run cfg ops) hI (ListsSorted.reachable U cfg ops hw) (by rw [hcfg]; exact hb.2.2.2.2.2.2.2.2.2)
      with hne | ⟨hbh, -⟩
    · simp only [Pool.exceeded, cfg_evict, clampNat, Bool.or_eq_false_iff, decide_eq_false_iff_not] at hne
      rw [hcfg] at hne
      obtain ⟨⟨e1, e2⟩, e3⟩ := hne
      refine ⟨?_, ?_, ?_⟩ <;> omega
    · obtain ⟨-, z1, z2, z3⟩ := Inv.empty_reports_zero U _ hIq hbh
      refine ⟨?_, ?_, ?_⟩ <;> omega
  refine ⟨?_, key⟩
  obtain ⟨k1, k2, k3⟩ := key
  simp only [Pool.exceeded, hqcfg, clampNat, Bool.or_eq_false_iff, decide_eq_false_iff_not]
  refine ⟨⟨?_, ?_⟩, ?_⟩ <;> omega

/-- (3) C06: whatever excess the last insertion left is gone after the next eviction (the one the next insertion starts
    with): the evicted pool is within its thresholds, or empty -/
theorem reachable_excess_gone_after_next_eviction (U : Bytes → Tx) (cfg : Config) (ops : List Op) (nameLen numChunks : Nat)
    (hacc : GenProofs.txAccepted cfg nameLen numChunks = true) (hw : ∀ t, Op.add t ∈ ops → WfTx U t) :
    (evict Variant.current (run cfg ops)).exceeded = false ∨
      ((evict Variant.current (run cfg ops)).byHash = [] ∧ (evict Variant.current (run cfg ops)).lists = []) :=
  Or.inl (reachable_within_thresholds_after_eviction U cfg ops nameLen numChunks hacc hw).1

/-! ### (4) C06: eviction disabled -/

/-- (4) C06: with eviction disabled an insertion into a reachable pool changes no other sender's list — nothing is ever
    dropped for pool-wide reasons.  Holds for every configuration and every history (no well-formedness needed). -/
theorem reachable_no_pool_wide_drop_when_disabled (cfg : Config) (ops : List Op) (he : cfg.evictionEnabled = false)
    (t : Tx) (s : Bytes) (hs : s ≠ t.sender) :
    alookup s (addTx Variant.current (run cfg ops) t).1.lists = alookup s (run cfg ops).lists := by
  rw [addTx_eq_core, reachable_cfg, he]
  exact addTxCore_lists_other (run cfg ops) t s hs

/-- (4, corollary) with eviction disabled an insertion makes no transaction of another sender unreachable by hash either
    (both indexes keep everything that does not belong to the inserting sender) -/
theorem reachable_no_pool_wide_drop_when_disabled_byHash (U : Bytes → Tx) (cfg : Config) (ops : List Op)
    (hw : ∀ t, Op.add t ∈ ops → WfTx U t) (he : cfg.evictionEnabled = false) (t : Tx) (ht : WfTx U t)
    (x : Tx) (hx : alookup x.hash (run cfg ops).byHash = some x) (hs : x.sender ≠ t.sender) :
    alookup x.hash (addTx Variant.current (run cfg ops) t).1.byHash = some x := by
  have hI : Inv U (run cfg ops) := Inv.reachable U cfg ops hw
  have hI' : Inv U (addTx Variant.current (run cfg ops) t).1 :=
    Inv.addTx U _ t hI (ListsSorted.reachable U cfg ops hw) ht
  obtain ⟨l, hl, hxl⟩ := Inv.no_ghost U _ hI x.hash x hx
  rw [← reachable_no_pool_wide_drop_when_disabled cfg ops he t x.sender hs] at hl
  exact Inv.listed_is_hashed U _ hI' x.sender l x hl hxl

/-! ### (5) C07 -/

/-- (5) C07: eviction of a reachable pool leaves every surviving sender list a PREFIX of the old one, and every kept nonce
    is strictly below every cut nonce (per-sender nonce suffixes; same-nonce siblings go together).  Holds for every
    configuration and every history. -/
theorem reachable_eviction_cuts_nonce_suffixes (cfg : Config) (ops : List Op) (s : Bytes) (l' : List Tx)
    (h : (s, l') ∈ (evict Variant.current (run cfg ops)).lists) :
    ∃ l suf, (s, l) ∈ (run cfg ops).lists ∧ l = l' ++ suf ∧ ∀ a ∈ l', ∀ b ∈ suf, a.nonce < b.nonce :=
  evict_lists_prefix Variant.current (run cfg ops) (reachable_listsInv_anyConfig cfg ops) s l' h

/-- (5) C07: nothing is evicted from a reachable pool that is within its thresholds -/
theorem reachable_eviction_noop_within_thresholds (cfg : Config) (ops : List Op) (h : (run cfg ops).exceeded = false) :
    evict Variant.current (run cfg ops) = run cfg ops :=
  evict_noop Variant.current (run cfg ops) h

/-- (5) C07: after eviction of a reachable pool both indexes and the counters agree again (`Inv`), and a transaction of
    the pool that is no longer in any sender list is not reachable by hash either -/
theorem reachable_evicted_disappear_everywhere (U : Bytes → Tx) (cfg : Config) (ops : List Op)
    (hw : ∀ t, Op.add t ∈ ops → WfTx U t) :
    Inv U (evict Variant.current (run cfg ops)) ∧
    ∀ t, (∃ s l, (s, l) ∈ (run cfg ops).lists ∧ t ∈ l) →
      (¬ ∃ s l, (s, l) ∈ (evict Variant.current (run cfg ops)).lists ∧ t ∈ l) →
      alookup t.hash (evict Variant.current (run cfg ops)).byHash = none := by
  have hI : Inv U (run cfg ops) := Inv.reachable U cfg ops hw
  have hIq : Inv U (evict Variant.current (run cfg ops)) := Inv.evict U _ hI
  refine ⟨hIq, ?_⟩
  rintro t ⟨s, l, hm, htl⟩ hgone
  cases hx : alookup t.hash (evict Variant.current (run cfg ops)).byHash with
  | none => rfl
  | some x =>
    exfalso
    have hmem := alookup_some_mem hx
    obtain ⟨hxh, hxw⟩ := hIq.wfHash _ _ hmem
    have e : x = t := wf_inj hxw (hI.wfLists s l hm t htl).1 hxh
    obtain ⟨lx, hlx, hxlx⟩ := Inv.no_ghost U _ hIq t.hash x hx
    exact hgone ⟨x.sender, lx, alookup_some_mem hlx, e ▸ hxlx⟩

/-- (5, converse) what survives the eviction is still found by hash -/
theorem reachable_survivors_stay_hashed (U : Bytes → Tx) (cfg : Config) (ops : List Op)
    (hw : ∀ t, Op.add t ∈ ops → WfTx U t) (s : Bytes) (l : List Tx) (t : Tx)
    (hm : (s, l) ∈ (evict Variant.current (run cfg ops)).lists) (ht : t ∈ l) :
    alookup t.hash (evict Variant.current (run cfg ops)).byHash = some t := by
  have hIq : Inv U (evict Variant.current (run cfg ops)) := Inv.evict U _ (Inv.reachable U cfg ops hw)
  exact alookup_of_mem hIq.keysNodup ((hIq.same t).mpr ⟨s, l, hm, ht⟩)

/-! ### non-vacuity: the smallest accepted configuration, a 7-operation history that triggers evictions -/

namespace SizeEx

/-- fee per gas unit = `gp`, one byte each (the smallest accepted per-sender byte limit is 1) -/
def tx (h s : UInt8) (n gp : Nat) : Tx := ⟨[h], [s], n, gp, 10, 1, 10 * gp, 0, []⟩

def t1 := tx 1 0xa1 0 5
def t2 := tx 2 0xa2 0 3
def t3 := tx 3 0xa3 0 7
def t4 := tx 4 0xa4 0 1
def t5 := tx 5 0xa5 0 4
def t6 := tx 6 0xa6 0 6
def t7 := tx 7 0xa7 0 2
def t8 := tx 8 0xa8 0 8

/-- evictionEnabled, numBytesThreshold = 4, numBytesPerSender = 1, countThreshold = 4, countPerSender = 1, numItemsToEvict = 1:
    every field at the lower bound the constructor accepts -/
def cfgMin : Config := ⟨true, 4, 1, 4, 1, 1⟩

example : GenProofs.txAccepted cfgMin 1 1 = true := by decide

/-- seven insertions by seven senders: the fifth takes the pool over the count and the byte threshold (5 > 4), the sixth
    and the seventh each start with an eviction of one transaction (the least valuable one: t4, then t2) -/
def history : List Op := [.add t1, .add t2, .add t3, .add t4, .add t5, .add t6, .add t7]

def U (h : Bytes) : Tx := (([t1, t2, t3, t4, t5, t6, t7, t8] : List Tx).find? (fun x => x.hash == h)).getD t1

theorem history_wf : ∀ t, Op.add t ∈ history → WfTx U t := by
  intro t ht
  simp only [history, List.mem_cons, Op.add.injEq, List.not_mem_nil, or_false] at ht
  rcases ht with rfl | rfl | rfl | rfl | rfl | rfl | rfl <;> (unfold WfTx; decide)

theorem t8_wf : WfTx U t8 := by unfold WfTx; decide

-- what happens along the history: hashes in the pool after 5, 6 and 7 operations
example : (run cfgMin (history.take 5)).byHash.map (·.1) = [[1], [2], [3], [4], [5]] := by decide
example : (run cfgMin (history.take 6)).byHash.map (·.1) = [[1], [2], [3], [5], [6]] := by decide   -- t4 (1/gas) evicted
example : (run cfgMin history).byHash.map (·.1) = [[1], [3], [5], [6], [7]] := by decide              -- t2 (3/gas) evicted
-- the reachable pool is over its thresholds (by exactly the last insertion) …
example : (run cfgMin history).exceeded = true := by decide
example : ((run cfgMin history).cntTx, (run cfgMin history).cntSenders, (run cfgMin history).numBytes) = (5, 5, 5) := by
  decide
-- … the next eviction brings it back within them (it removes t7, 2/gas) …
example : (evict Variant.current (run cfgMin history)).byHash.map (·.1) = [[1], [3], [5], [6]] := by decide
example : (evict Variant.current (run cfgMin history)).exceeded = false := by decide
-- … and a further insertion ends at threshold + 1 again
example :
    let p' := (addTx Variant.current (run cfgMin history) t8).1
    (p'.cntTx, p'.cntSenders, p'.numBytes) = (5, 5, 5) ∧ p'.byHash.map (·.1) = [[1], [3], [5], [6], [8]] := by decide
example :
    let p' := (addTx Variant.current (run cfgMin history) t8).1
    p'.cntTx ≤ (cfgMin.countThreshold : Int) + 1 ∧ p'.cntSenders ≤ (cfgMin.countThreshold : Int) + 1 ∧
    p'.numBytes ≤ (cfgMin.numBytesThreshold : Int) + (t8.size : Int) := by decide

-- the theorems instantiated (all hypotheses met)
example : ListsInv (run cfgMin history) := reachable_listsInv U cfgMin history 1 1 (by decide) history_wf
example : (run cfgMin history).cfg = cfgMin := reachable_cfg cfgMin history
example :
    let p' := (addTx Variant.current (run cfgMin history) t8).1
    p'.cntTx ≤ (cfgMin.countThreshold : Int) + 1 ∧ p'.cntSenders ≤ (cfgMin.countThreshold : Int) + 1 ∧
    p'.numBytes ≤ (cfgMin.numBytesThreshold : Int) + (t8.size : Int) :=
  reachable_pool_bounds_after_every_add U cfgMin history 1 1 (by decide) history_wf rfl t8 t8_wf
example :
    let p' := run cfgMin ([.add t1, .add t2, .add t3, .add t4, .add t5] ++ [Op.add t6])
    clampNat p'.cntTx ≤ cfgMin.countThreshold + 1 ∧ clampNat p'.cntSenders ≤ cfgMin.countThreshold + 1 ∧
    clampNat p'.numBytes ≤ cfgMin.numBytesThreshold + t6.size :=
  reachable_pool_bounds_at_every_add_of_history U cfgMin history 1 1 (by decide) history_wf rfl
    [.add t1, .add t2, .add t3, .add t4, .add t5] [.add t7] t6 rfl
example : (evict Variant.current (run cfgMin history)).exceeded = false :=
  (reachable_within_thresholds_after_eviction U cfgMin history 1 1 (by decide) history_wf).1
example : (evict Variant.current (run cfgMin history)).exceeded = false ∨
    ((evict Variant.current (run cfgMin history)).byHash = [] ∧ (evict Variant.current (run cfgMin history)).lists = []) :=
  reachable_excess_gone_after_next_eviction U cfgMin history 1 1 (by decide) history_wf
example : ∀ t, (∃ s l, (s, l) ∈ (run cfgMin history).lists ∧ t ∈ l) →
      (¬ ∃ s l, (s, l) ∈ (evict Variant.current (run cfgMin history)).lists ∧ t ∈ l) →
      alookup t.hash (evict Variant.current (run cfgMin history)).byHash = none :=
  (reachable_evicted_disappear_everywhere U cfgMin history history_wf).2
-- t7 was pooled, is evicted, and is gone from the hash index
example : alookup t7.hash (run cfgMin history).byHash = some t7 ∧
    alookup t7.hash (evict Variant.current (run cfgMin history)).byHash = none := by decide

/-- the side condition `1 ≤ numItemsToEvict` that acceptance provides IS needed: the same history under the (rejected)
    configuration with a batch size of 0 — eviction never removes anything, the pool grows to 7 > 4 + 1 transactions,
    and eviction ends over the thresholds with a non-empty pool -/
theorem bounds_need_positive_batch :
    let cfg0 : Config := ⟨true, 4, 1, 4, 1, 0⟩
    GenProofs.txAccepted cfg0 1 1 = false ∧
    (run cfg0 history).cntTx = 7 ∧
    (evict Variant.current (run cfg0 history)).exceeded = true ∧
    (evict Variant.current (run cfg0 history)).byHash ≠ [] := by decide

/-! #### eviction disabled -/

def cfgOff : Config := ⟨false, 4, 1, 4, 1, 1⟩

example : GenProofs.txAccepted cfgOff 1 1 = true := by decide
-- nothing is ever dropped for pool-wide reasons: all seven stay
example : (run cfgOff history).byHash.map (·.1) = [[1], [2], [3], [4], [5], [6], [7]] := by decide
example : alookup t4.sender (addTx Variant.current (run cfgOff history) t8).1.lists = some [t4] := by decide
example (s : Bytes) (hs : s ≠ t8.sender) :
    alookup s (addTx Variant.current (run cfgOff history) t8).1.lists = alookup s (run cfgOff history).lists :=
  reachable_no_pool_wide_drop_when_disabled cfgOff history rfl t8 s hs

/-! #### C07: a sender with several transactions, a same-nonce sibling, removal and clear in the history -/

def a0 := tx 0x10 0xa0 0 9
def a1 := tx 0x11 0xa0 1 9     -- nonce 1, valuable …
def a1' := tx 0x12 0xa0 1 1    -- … and its same-nonce sibling, the least valuable transaction of the pool
def b0 := tx 0x20 0xb0 0 5
def c0 := tx 0x30 0xc0 0 5
def d0 := tx 0x40 0xd0 0 5

/-- count limit 4, up to 3 transactions per sender, one victim per pass -/
def cfg7 : Config := ⟨true, 100, 100, 4, 3, 1⟩

example : GenProofs.txAccepted cfg7 1 1 = true := by decide

/-- nine operations, among them a clear and a removal; five transactions are left at the end (count threshold 4) -/
def history7 : List Op := [.add d0, .clear, .add b0, .rm [0x20], .add a0, .add a1, .add b0, .add a1', .add c0]

def U7 (h : Bytes) : Tx := (([a0, a1, a1', b0, c0, d0] : List Tx).find? (fun x => x.hash == h)).getD a0

theorem history7_wf : ∀ t, Op.add t ∈ history7 → WfTx U7 t := by
  intro t ht
  simp only [history7, List.mem_cons, Op.add.injEq, List.not_mem_nil, or_false, reduceCtorEq, false_or] at ht
  rcases ht with rfl | rfl | rfl | rfl | rfl | rfl | rfl <;> (unfold WfTx; decide)

example : (run cfg7 (history7.take 3)).lists = [([0xb0], [b0])] := by decide   -- d0 cleared away
example : (run cfg7 (history7.take 4)).lists = [] := by decide                 -- b0 removed by hash (re-added later)
example : (run cfg7 history7).lists = [([0xa0], [a0, a1, a1']), ([0xb0], [b0]), ([0xc0], [c0])] := by decide
example : (run cfg7 history7).exceeded = true := by decide
-- the single victim is a1' (1/gas); its sender loses the whole nonce-1 suffix, i.e. the valuable sibling a1 as well
example : (evict Variant.current (run cfg7 history7)).lists = [([0xa0], [a0]), ([0xb0], [b0]), ([0xc0], [c0])] := by decide
example : ∃ l suf, (([0xa0] : Bytes), l) ∈ (run cfg7 history7).lists ∧ l = [a0] ++ suf ∧
    ∀ a ∈ [a0], ∀ b ∈ suf, a.nonce < b.nonce :=
  reachable_eviction_cuts_nonce_suffixes cfg7 history7 [0xa0] [a0] (by decide)
example : alookup a1.hash (evict Variant.current (run cfg7 history7)).byHash = none :=
  (reachable_evicted_disappear_everywhere U7 cfg7 history7 history7_wf).2 a1 ⟨[0xa0], [a0, a1, a1'], by decide, by decide⟩
    (by
      have key : ∀ e ∈ (evict Variant.current (run cfg7 history7)).lists, a1 ∉ e.2 := by decide
      rintro ⟨s, l, hm, hl⟩
      exact key (s, l) hm hl)
example : alookup a0.hash (evict Variant.current (run cfg7 history7)).byHash = some a0 :=
  reachable_survivors_stay_hashed U7 cfg7 history7 history7_wf [0xa0] [a0] a0 (by decide) (by decide)
example : Inv U7 (evict Variant.current (run cfg7 history7)) :=
  (reachable_evicted_disappear_everywhere U7 cfg7 history7 history7_wf).1
-- within the thresholds nothing is evicted (the pool after eight of the nine operations holds four transactions)
example : (run cfg7 (history7.take 8)).exceeded = false := by decide
example : evict Variant.current (run cfg7 (history7.take 8)) = run cfg7 (history7.take 8) :=
  reachable_eviction_noop_within_thresholds cfg7 (history7.take 8) (by decide)
example (s : Bytes) (l : List Tx) (hm : (s, l) ∈ (run cfg7 history7).lists) :
    ListSorted l ∧ 1 ≤ l.length ∧ l.length ≤ cfg7.countPerSender ∧ 1 ≤ cfg7.countPerSender ∧ ∀ t ∈ l, t.sender = s :=
  reachable_sender_lists U7 cfg7 history7 1 1 (by decide) history7_wf s l hm

end SizeEx

end SV.TxCache
