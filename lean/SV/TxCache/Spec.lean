/-
  SV.TxCache.Spec — definitions used to STATE the mempool properties (C01–C07): reference orders,
  reference list operations, the pool invariant.  No proofs here.
-/
import SV.TxCache.Model
namespace SV.TxCache

/-! ### selection (C01, C02) -/

/-- nonces of sender `snd` in result order -/
def noncesOf (snd : Bytes) (out : List Tx) : List Nat :=
  (out.filter (fun t => t.sender = snd)).map (·.nonce)

/-- a bunch as delivered by a sender list: one sender, nonces non-decreasing -/
def BunchOk (b : List Tx) : Prop :=
  (∀ x ∈ b, ∀ y ∈ b, x.sender = y.sender) ∧ b.Pairwise (fun a b => a.nonce ≤ b.nonce)

/-- different bunches belong to different senders -/
def BunchesDistinct (bs : List (List Tx)) : Prop :=
  bs.Pairwise (fun a b => ∀ x ∈ a, ∀ y ∈ b, x.sender ≠ y.sender)

/-- what earlier transactions of the result have committed to account `a`: fees it pays + values it sends -/
def committed (pre : List Tx) (a : Bytes) : Nat :=
  ((pre.filter (fun t => t.payer = a)).map (·.fee)).sum + ((pre.filter (fun t => t.sender = a)).map (·.value)).sum

/-- a pop policy: returns one element and the others, as a permutation of the heap -/
def PickOk (pick : List HItem → Option (HItem × List HItem)) : Prop :=
  ∀ l it r, pick l = some (it, r) → (it :: r).Perm l

/-! ### per-sender order (C04) -/

/-- strict order inside a sender list: nonce ↑, gas price ↓, hash ↑ -/
def listLt (a b : Tx) : Bool :=
  decide (a.nonce < b.nonce) ||
  (decide (a.nonce = b.nonce) &&
    (decide (a.gasPrice > b.gasPrice) || (decide (a.gasPrice = b.gasPrice) && bytesLt a.hash b.hash)))

def ListSorted (l : List Tx) : Prop := l.Pairwise (fun a b => listLt a b = true)

/-- reference insertion (front-to-back) -/
def orderedInsert (t : Tx) : List Tx → List Tx
  | [] => [t]
  | c :: rest => if listLt t c then t :: c :: rest else c :: orderedInsert t rest

/-- reference trimming: drop highest-ordered transactions until the sender fits (what C04/C06 ask for) -/
def trimAll (cfg : Config) : Nat → List Tx → List Tx
  | 0, l => l
  | fuel + 1, l => if senderExceeded cfg l then trimAll cfg fuel l.dropLast else l

/-! ### pool invariant (C05) -/

/-- `U h` is "the" transaction with hash `h` (hash determines content) -/
def WfTx (U : Bytes → Tx) (t : Tx) : Prop := U t.hash = t

def sumSizes (l : List (Bytes × Tx)) : Nat := (l.map (·.2.size)).sum

structure Inv (U : Bytes → Tx) (p : Pool) : Prop where
  wfLists : ∀ s l, (s, l) ∈ p.lists → ∀ t ∈ l, WfTx U t ∧ t.sender = s
  wfHash : ∀ h t, (h, t) ∈ p.byHash → t.hash = h ∧ WfTx U t
  keysNodup : (p.byHash.map (·.1)).Nodup
  sendersNodup : (p.lists.map (·.1)).Nodup
  nonceSorted : ∀ s l, (s, l) ∈ p.lists → l.Pairwise (fun a b => a.nonce ≤ b.nonce)
  nonEmpty : ∀ s l, (s, l) ∈ p.lists → l ≠ []
  /-- the two indexes hold the same transactions -/
  same : ∀ t, (t.hash, t) ∈ p.byHash ↔ ∃ s l, (s, l) ∈ p.lists ∧ t ∈ l
  cntTx : p.cntTx = (p.byHash.length : Int)
  numBytes : p.numBytes = (sumSizes p.byHash : Int)
  cntSenders : p.cntSenders = (p.lists.length : Int)

/-- strict sortedness and per-sender limits of every list (C04, C06) -/
structure ListsInv (p : Pool) : Prop where
  sorted : ∀ s l, (s, l) ∈ p.lists → ListSorted l
  count : ∀ s l, (s, l) ∈ p.lists → l.length ≤ p.cfg.countPerSender

/-- all transactions of the pool, list by list -/
def Pool.allTxs (p : Pool) : List Tx := p.lists.flatMap (·.2)

end SV.TxCache
