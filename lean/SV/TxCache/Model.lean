/-
  SV.TxCache.Model — executable model of txcache (TxCache, txListForSender, txListBySenderMap,
  txByHashMap, eviction.go, selection.go, selectionSessionWrapper.go, wrappedTransaction.go).

  The two indexes and the three counters are kept SEPARATE, exactly as in the code (their agreement
  is property C05, not a modelling assumption).  Go maps are association lists; iteration order never
  influences a result (popBest/popWorst pick the unique extremum of a strict total order).

  `Variant` keeps the pre-repair behaviours (DESIGN.md section 9) selectable, so that the legacy
  counter-examples are theorems about the same definitions.
-/
import SV.Common
namespace SV.TxCache

structure Variant where
  gasWraps : Bool          -- F1: accumulatedGas+gasLimit computed in uint64
  ppuTruncates : Bool      -- F2: PricePerUnit from the low 64 bits of the fee
  clearKeepsBytes : Bool   -- F4: Clear does not reset numBytes
  keepsEmptySender : Bool  -- F5: a sender list emptied by trimming stays registered
  evictionGhosts : Bool    -- F6: eviction removes from the hash index only the popped victims
  evictionDropsPopped : Bool -- F7: the item popped when the batch is full is lost
  deriving Repr, DecidableEq

def Variant.legacy : Variant := ⟨true, true, true, true, true, true⟩
def Variant.current : Variant := ⟨false, false, false, false, false, false⟩

def two64 : Nat := 18446744073709551616

structure Tx where
  hash : Bytes
  sender : Bytes
  nonce : Nat
  gasPrice : Nat
  gasLimit : Nat
  size : Nat
  fee : Nat        -- host.ComputeTxFee (non-nil, ≥ 0)
  value : Nat      -- host.GetTransferredValue (nil ≡ 0)
  relayer : Bytes  -- empty: not relayed
  deriving Repr, DecidableEq

/-- `decideFeePayer` -/
def Tx.payer (t : Tx) : Bytes := if t.relayer.isEmpty then t.sender else t.relayer

/-- price per gas unit as used for ORDERING: `floor(fee/gasLimit)`.  (The uint64 field `PricePerUnit` saturates at
    2^64−1, but `isTransactionMoreValuableForNetwork` falls back to the exact big-integer quotient when it is saturated,
    so the order is by the exact quotient.)  Legacy: computed from the low 64 bits of the fee. -/
def Tx.ppu (v : Variant) (t : Tx) : Nat :=
  if t.gasLimit = 0 then 0
  else if v.ppuTruncates then (t.fee % two64) / t.gasLimit
  else t.fee / t.gasLimit

/-- `isTransactionMoreValuableForNetwork` -/
def moreValuable (v : Variant) (a b : Tx) : Bool :=
  if a.ppu v ≠ b.ppu v then decide (a.ppu v > b.ppu v)
  else if a.gasLimit ≠ b.gasLimit then decide (a.gasLimit > b.gasLimit)
  else bytesLt a.hash b.hash

structure Config where
  evictionEnabled : Bool
  numBytesThreshold : Nat
  numBytesPerSender : Nat
  countThreshold : Nat
  countPerSender : Nat
  numItemsToEvict : Nat
  deriving Repr

structure Pool where
  cfg : Config
  lists : List (Bytes × List Tx)   -- txListBySender.backingMap (an entry may hold an empty list)
  byHash : List (Bytes × Tx)       -- txByHash.backingMap
  cntTx : Int                      -- txByHash.counter
  numBytes : Int                   -- txByHash.numBytes
  cntSenders : Int                 -- txListBySender.counter
  deriving Repr

def Pool.init (cfg : Config) : Pool := ⟨cfg, [], [], 0, 0, 0⟩

def clampNat (i : Int) : Nat := i.toNat   -- atomic.Counter.GetUint64

/-! ### per-sender list -/

/-- `findInsertionPlace` + insertion, on the list reversed (the code scans from the back).
    `none` = errItemAlreadyInCache. -/
def insertRev (t : Tx) : List Tx → Option (List Tx)
  | [] => some [t]
  | c :: rest =>
    if c.nonce = t.nonce then
      if c.gasPrice > t.gasPrice then some (t :: c :: rest)
      else if c.gasPrice = t.gasPrice then
        if c.hash = t.hash then none
        else if bytesLt c.hash t.hash then some (t :: c :: rest)
        else (insertRev t rest).map (c :: ·)
      else (insertRev t rest).map (c :: ·)
    else if c.nonce < t.nonce then some (t :: c :: rest)
    else (insertRev t rest).map (c :: ·)

def insertTx (t : Tx) (l : List Tx) : Option (List Tx) := (insertRev t l.reverse).map List.reverse

def listBytes (l : List Tx) : Nat := (l.map (·.size)).sum

def senderExceeded (cfg : Config) (l : List Tx) : Bool :=
  decide (listBytes l > cfg.numBytesPerSender) || decide (l.length > cfg.countPerSender)

/-- `applySizeConstraints`: the loop removes AT MOST ONE element (after `items.Remove(e)`, `e.Prev()` is nil).
    Returns the new list and the evicted transactions. -/
def trim1 (cfg : Config) (l : List Tx) : List Tx × List Tx :=
  if senderExceeded cfg l then
    match l.reverse with
    | [] => (l, [])
    | last :: revInit => (revInit.reverse, [last])
  else (l, [])

/-! ### hash index -/

def byHashRemove (p : Pool) (h : Bytes) : Pool :=
  match alookup h p.byHash with
  | none => p
  | some t => { p with byHash := aerase h p.byHash, cntTx := p.cntTx - 1, numBytes := p.numBytes - t.size }

def removeBulk (p : Pool) (hs : List Bytes) : Pool := hs.foldl byHashRemove p

/-- `removeSenderIfEmpty` -/
def removeSenderIfEmpty (p : Pool) (s : Bytes) : Pool :=
  match alookup s p.lists with
  | some [] => { p with lists := aerase s p.lists, cntSenders := p.cntSenders - 1 }
  | _ => p

/-! ### eviction -/

structure HItem where
  cur : Tx
  rest : List Tx
  latest : Option Nat := none
  deriving Repr

def HItem.ofBunch : List Tx → Option HItem
  | [] => none
  | t :: ts => some { cur := t, rest := ts }

def HItem.advance (it : HItem) : Option HItem :=
  match it.rest with
  | [] => none
  | t :: ts => some { it with cur := t, rest := ts }

/-- extract the item no other item beats under `better` (heap.Pop); order of the rest is irrelevant -/
def popBy (better : Tx → Tx → Bool) : List HItem → Option (HItem × List HItem)
  | [] => none
  | i :: is =>
    match popBy better is with
    | none => some (i, [])
    | some (b, r) => if better i.cur b.cur then some (i, is) else some (b, i :: r)

def popBest (v : Variant) := popBy (moreValuable v)
def popWorst (v : Variant) := popBy (fun a b => moreValuable v b a)

def Pool.exceeded (p : Pool) : Bool :=
  decide (clampNat p.numBytes > p.cfg.numBytesThreshold)
  || decide (clampNat p.cntSenders > p.cfg.countThreshold)
  || decide (clampNat p.cntTx > p.cfg.countThreshold)

/-- one pass: pop up to `n` victims -/
def collectVictims (v : Variant) : Nat → List HItem → List Tx → List Tx × List HItem
  | 0, heap, acc =>
    if v.evictionDropsPopped then
      match popWorst v heap with
      | none => (acc, heap)
      | some (_, heap') => (acc, heap')
    else (acc, heap)
  | n + 1, heap, acc =>
    match popWorst v heap with
    | none => (acc, heap)
    | some (it, heap') =>
      match it.advance with
      | none => collectVictims v n heap' (acc ++ [it.cur])
      | some it' => collectVictims v n (it' :: heap') (acc ++ [it.cur])

/-- `lowestToEvictBySender`: the last victim of a sender wins -/
def thresholds (victims : List Tx) : List (Bytes × Nat) :=
  victims.foldl (fun m t => aset t.sender t.nonce m) []

/-- `removeTransactionsWithHigherOrEqualNonce` on one list (scans from the back) -/
def dropHigherRev (n : Nat) : List Tx → List Tx
  | [] => []
  | c :: rest => if c.nonce < n then c :: rest else dropHigherRev n rest

def keepLower (n : Nat) (l : List Tx) : List Tx := (dropHigherRev n l.reverse).reverse

def applyThreshold (v : Variant) (p : Pool) (sn : Bytes × Nat) : Pool :=
  match alookup sn.1 p.lists with
  | none => p
  | some l =>
    let kept := keepLower sn.2 l
    let removed := l.drop kept.length
    let p1 := { p with lists := aset sn.1 kept p.lists }
    let p2 := removeSenderIfEmpty p1 sn.1
    if v.evictionGhosts then p2 else removeBulk p2 (removed.map (·.hash))

def applyVictims (v : Variant) (p : Pool) (victims : List Tx) : Pool :=
  let p1 := (thresholds victims).foldl (applyThreshold v) p
  removeBulk p1 (victims.map (·.hash))

def evictLoop (v : Variant) : Nat → Pool → List HItem → Pool
  | 0, p, _ => p
  | fuel + 1, p, heap =>
    if p.exceeded then
      let (victims, heap') := collectVictims v p.cfg.numItemsToEvict heap []
      if victims.isEmpty then p
      else evictLoop v fuel (applyVictims v p victims) heap'
    else p

def initHeap (bunches : List (List Tx)) : List HItem := bunches.filterMap HItem.ofBunch

def totalTxs (p : Pool) : Nat := (p.lists.map (·.2.length)).sum

/-- `doEviction` -/
def evict (v : Variant) (p : Pool) : Pool :=
  if p.exceeded then
    evictLoop v (totalTxs p + 1) p (initHeap (p.lists.map (·.2.reverse)))
  else p

/-! ### public operations -/

/-- `TxCache.AddTx` → (pool, added) ; `ok` is always true for a non-nil transaction -/
def addTx (v : Variant) (p0 : Pool) (t : Tx) : Pool × Bool :=
  let p := if p0.cfg.evictionEnabled then evict v p0 else p0
  -- txByHash.addTx
  let (p, addedByHash) :=
    match alookup t.hash p.byHash with
    | some _ => (p, false)
    | none => ({ p with byHash := p.byHash ++ [(t.hash, t)], cntTx := p.cntTx + 1, numBytes := p.numBytes + t.size }, true)
  -- txListBySender.addTxReturnEvicted
  let (p, l) :=
    match alookup t.sender p.lists with
    | some l => (p, l)
    | none => ({ p with lists := p.lists ++ [(t.sender, [])], cntSenders := p.cntSenders + 1 }, [])
  match insertTx t l with
  | none => (p, addedByHash)
  | some l' =>
    let (l'', dropped) := trim1 p.cfg l'
    let p := { p with lists := aset t.sender l'' p.lists }
    let p := if v.keepsEmptySender then p else removeSenderIfEmpty p t.sender
    (removeBulk p (dropped.map (·.hash)), true)

/-- `removeTransactionsWithLowerOrEqualNonceReturnHashes` on one list -/
def dropLowerOrEqual (n : Nat) : List Tx → List Tx
  | [] => []
  | c :: rest => if c.nonce > n then c :: rest else dropLowerOrEqual n rest

/-- `TxCache.RemoveTxByHash` -/
def removeTxByHash (p : Pool) (h : Bytes) : Pool × Bool :=
  match alookup h p.byHash with
  | none => (p, false)
  | some t =>
    let p := byHashRemove p h
    match alookup t.sender p.lists with
    | none => (p, true)
    | some l =>
      let kept := dropLowerOrEqual t.nonce l
      let removed := l.take (l.length - kept.length)
      let p := { p with lists := aset t.sender kept p.lists }
      let p := removeSenderIfEmpty p t.sender
      (removeBulk p (removed.map (·.hash)), true)

/-- `TxCache.Clear` -/
def clear (v : Variant) (p : Pool) : Pool :=
  { p with lists := [], byHash := [], cntTx := 0, cntSenders := 0,
           numBytes := if v.clearKeepsBytes then p.numBytes else 0 }

/-! ### selection -/

structure Session where
  nonce : Bytes → Nat      -- account nonce; 0 when the account cannot be resolved
  balance : Bytes → Nat    -- balance; 0 when the account cannot be resolved
  badGuard : Tx → Bool

inductive Verdict | dropSender | skipTx | take
  deriving DecidableEq, Repr

/-- `detectSkippableSender` then `detectSkippableTransaction` -/
def classify (s : Session) (consumed : Bytes → Nat) (it : HItem) : Verdict :=
  let n := s.nonce it.cur.sender
  if (it.latest.isNone && decide (it.cur.nonce > n)) then .dropSender
  else if (match it.latest with | some l => decide (it.cur.nonce > l + 1) | none => false) then .dropSender
  else if decide (consumed it.cur.payer + it.cur.fee > s.balance it.cur.payer) then .dropSender
  else if decide (it.cur.nonce < n) then .skipTx
  else if s.badGuard it.cur then .skipTx
  else if (match it.latest with | some l => decide (it.cur.nonce = l) | none => false) then .skipTx
  else .take

def bump (f : Bytes → Nat) (a : Bytes) (d : Nat) : Bytes → Nat := fun x => if x = a then f x + d else f x

/-- gas budget test `accumulatedGas+gasLimit > gasRequested` -/
def gasExceeded (v : Variant) (acc gasLimit gasReq : Nat) : Bool :=
  if v.gasWraps then decide ((acc + gasLimit) % two64 > gasReq) else decide (acc + gasLimit > gasReq)

structure SelParams where
  gasReq : Nat
  maxNum : Nat                -- `max 0 maxNum`
  stop : Nat → Bool           -- time budget oracle, consulted with |selected| when |selected| % interval = 0
  interval : Nat := 10

/-- the selection loop, generalised over the pop policy `pick` (the code uses `popBest`) -/
def selectLoop (v : Variant) (pick : List HItem → Option (HItem × List HItem)) (s : Session) (q : SelParams) :
    Nat → List HItem → (Bytes → Nat) → Nat → List Tx → List Tx × Nat
  | 0, _, _, acc, out => (out, acc)
  | fuel + 1, heap, consumed, acc, out =>
    match pick heap with
    | none => (out, acc)
    | some (it, heap') =>
      if gasExceeded v acc it.cur.gasLimit q.gasReq then (out, acc)
      else if out.length ≥ q.maxNum then (out, acc)
      else if out.length % q.interval = 0 && q.stop out.length then (out, acc)
      else
        match classify s consumed it with
        | .dropSender => selectLoop v pick s q fuel heap' consumed acc out
        | .skipTx =>
          match it.advance with
          | none => selectLoop v pick s q fuel heap' consumed acc out
          | some it' => selectLoop v pick s q fuel (it' :: heap') consumed acc out
        | .take =>
          let t := it.cur
          let consumed' := bump (bump consumed t.sender t.value) t.payer t.fee
          let acc' := if v.gasWraps then (acc + t.gasLimit) % two64 else acc + t.gasLimit
          let itS := { it with latest := some t.nonce }
          match itS.advance with
          | none => selectLoop v pick s q fuel heap' consumed' acc' (out ++ [t])
          | some it' => selectLoop v pick s q fuel (it' :: heap') consumed' acc' (out ++ [t])

def bunchesTotal (bunches : List (List Tx)) : Nat := (bunches.map List.length).sum

/-- `selectTransactionsFromBunches` -/
def selectFromBunches (v : Variant) (s : Session) (q : SelParams) (bunches : List (List Tx)) : List Tx × Nat :=
  selectLoop v (popBest v) s q (bunchesTotal bunches + 1) (initHeap bunches) (fun _ => 0) 0 []

/-- `TxCache.SelectTransactions` (the pool is not modified) -/
def select (v : Variant) (p : Pool) (s : Session) (q : SelParams) : List Tx × Nat :=
  selectFromBunches v s q (p.lists.map (·.2))

end SV.TxCache
