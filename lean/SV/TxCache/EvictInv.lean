/-
  SV.TxCache.EvictInv — property C05, part 2: eviction keeps the pool invariant `Inv`, hence insertion with
  eviction does, hence every reachable pool satisfies it; the pre-repair variants do not (concrete counter-examples).
-/
import SV.TxCache.PoolInv
namespace SV.TxCache
open C5

/-- `x` is held by some sender list -/
def Pooled (p : Pool) (x : Tx) : Prop := ∃ s l, (s, l) ∈ p.lists ∧ x ∈ l

/-! ### `applyThreshold` -/

namespace C5

theorem applyThreshold_all (U : Bytes → Tx) (p : Pool) (sn : Bytes × Nat) (h : Inv U p) :
    Inv U (applyThreshold Variant.current p sn) ∧
    (ListsSorted p → ListsSorted (applyThreshold Variant.current p sn)) ∧
    (∀ x, Pooled (applyThreshold Variant.current p sn) x → Pooled p x ∧ ¬ (x.sender = sn.1 ∧ sn.2 ≤ x.nonce)) := by
  unfold applyThreshold
  split
  · next hn =>
    refine ⟨h, id, ?_⟩
    rintro x ⟨s, l, hm, hx⟩
    refine ⟨⟨s, l, hm, hx⟩, ?_⟩
    rintro ⟨hs, -⟩
    rw [(h.wfLists s l hm x hx).2] at hs
    subst hs
    exact alookup_none_not_mem hn l hm
  · next l hl =>
    simp only [Variant.current, Bool.false_eq_true, if_false]
    have hml : (sn.1, l) ∈ p.lists := alookup_some_mem hl
    have hsorted := h.nonceSorted _ _ hml
    obtain ⟨suf, hsuf, hge⟩ := keepLower_prefix_all sn.2 l
    have hlt := keepLower_lt (n := sn.2) hsorted
    have hdrop : l.drop (keepLower sn.2 l).length = suf := by
      have := congrArg (List.drop (keepLower sn.2 l).length) hsuf
      rw [List.drop_left] at this
      exact this
    rw [hdrop]
    have hsub : (keepLower sn.2 l).Sublist l := by
      conv => rhs; rw [hsuf]
      exact List.sublist_append_left _ _
    refine ⟨Inv.shrink_split (q0 := { p with lists := aset sn.1 (keepLower sn.2 l) p.lists })
        h hl hsub ?_ ?_ rfl rfl rfl rfl rfl,
      fun hso => shrink_sorted (q0 := { p with lists := aset sn.1 (keepLower sn.2 l) p.lists })
        h hso hl hsub rfl rfl _, ?_⟩
    · intro x hx
      rw [hsuf] at hx
      exact List.mem_append.mp hx
    · intro x hx
      refine ⟨by rw [hsuf]; exact List.mem_append_right _ hx, ?_⟩
      intro hk
      exact hge x hx (hlt x hk)
    · obtain ⟨-, hchar⟩ := shrink_lists (q0 := { p with lists := aset sn.1 (keepLower sn.2 l) p.lists })
        h hl hsub rfl rfl (suf.map (·.hash))
      rintro x ⟨s0, l0, hm, hx⟩
      rcases (hchar s0 l0).mp hm with ⟨hm', hne⟩ | ⟨rfl, rfl, -⟩
      · refine ⟨⟨s0, l0, hm', hx⟩, ?_⟩
        rintro ⟨hs, -⟩
        rw [(h.wfLists s0 l0 hm' x hx).2] at hs
        exact hne hs
      · refine ⟨⟨_, l, hml, hsub.subset hx⟩, ?_⟩
        rintro ⟨-, hle⟩
        have := hlt x hx
        omega

theorem foldThreshold_all (U : Bytes → Tx) (ths : List (Bytes × Nat)) : ∀ (p : Pool), Inv U p →
    Inv U (ths.foldl (applyThreshold Variant.current) p) ∧
    (ListsSorted p → ListsSorted (ths.foldl (applyThreshold Variant.current) p)) ∧
    (∀ x, Pooled (ths.foldl (applyThreshold Variant.current) p) x →
      Pooled p x ∧ ∀ sn ∈ ths, ¬ (x.sender = sn.1 ∧ sn.2 ≤ x.nonce)) := by
  induction ths with
  | nil =>
    intro p h
    exact ⟨h, id, fun x hx => ⟨hx, by simp⟩⟩
  | cons sn ths ih =>
    intro p h
    obtain ⟨h1, hs1, hp1⟩ := applyThreshold_all U p sn h
    obtain ⟨h2, hs2, hp2⟩ := ih _ h1
    refine ⟨h2, fun hso => hs2 (hs1 hso), ?_⟩
    intro x hx
    obtain ⟨hx1, hrest⟩ := hp2 x hx
    obtain ⟨hx0, hsn⟩ := hp1 x hx1
    refine ⟨hx0, ?_⟩
    intro sn' hsn'
    rcases List.mem_cons.mp hsn' with rfl | hsn'
    · exact hsn
    · exact hrest sn' hsn'

end C5

/-- removing, for ANY sender and ANY nonce threshold, the suffix with nonce ≥ threshold from both indexes keeps the invariant -/
theorem Inv.applyThreshold (U : Bytes → Tx) (p : Pool) (sn : Bytes × Nat) (h : Inv U p) :
    Inv U (applyThreshold Variant.current p sn) := (applyThreshold_all U p sn h).1

/-! ### the eviction heap -/

namespace C5

theorem popBy_none {better : Tx → Tx → Bool} {l : List HItem} (h : popBy better l = none) : l = [] := by
  cases l with
  | nil => rfl
  | cons i is =>
    simp only [popBy] at h
    split at h
    · simp at h
    · split at h <;> simp at h

theorem popBy_perm {better : Tx → Tx → Bool} : ∀ {l : List HItem} {b : HItem} {r : List HItem},
    popBy better l = some (b, r) → (b :: r).Perm l := by
  intro l
  induction l with
  | nil => intro b r h; simp [popBy] at h
  | cons i is ih =>
    intro b r h
    simp only [popBy] at h
    split at h
    · next hn =>
      simp only [Option.some.injEq, Prod.mk.injEq] at h
      obtain ⟨rfl, rfl⟩ := h
      rw [popBy_none hn]
    · next b' r' hs =>
      split at h
      · simp only [Option.some.injEq, Prod.mk.injEq] at h
        obtain ⟨rfl, rfl⟩ := h
        exact List.Perm.refl _
      · simp only [Option.some.injEq, Prod.mk.injEq] at h
        obtain ⟨rfl, rfl⟩ := h
        exact (List.Perm.swap i b' r').trans ((ih hs).cons i)

/-- an item walks one sender's list backwards: its transactions are well-formed, of one sender, nonce non-increasing -/
def ItemOk (U : Bytes → Tx) (it : HItem) : Prop :=
  (∀ x ∈ it.cur :: it.rest, WfTx U x ∧ x.sender = it.cur.sender) ∧
  (it.cur :: it.rest).Pairwise (fun a b => b.nonce ≤ a.nonce)

/-- the heap invariant: every item is fine, different items belong to different senders.
    (Items may be stale — nothing is claimed about their transactions still being pooled.) -/
def HeapOk (U : Bytes → Tx) (heap : List HItem) : Prop :=
  (∀ it ∈ heap, ItemOk U it) ∧ heap.Pairwise (fun a b => a.cur.sender ≠ b.cur.sender)

theorem HeapOk.perm {U : Bytes → Tx} {l₁ l₂ : List HItem} (hp : l₁.Perm l₂) (h : HeapOk U l₁) : HeapOk U l₂ := by
  refine ⟨fun it hit => h.1 it (hp.mem_iff.mpr hit), ?_⟩
  exact (hp.pairwise_iff (fun {x y} (hxy : x.cur.sender ≠ y.cur.sender) => fun e => hxy e.symm)).mp h.2

/-- state of one collecting pass: the victims so far (`acc`) and the heap -/
structure CV (U : Bytes → Tx) (acc : List Tx) (heap : List HItem) : Prop where
  heapOk : HeapOk U heap
  wf : ∀ t ∈ acc, WfTx U t
  ord : acc.Pairwise (fun a b => a.sender = b.sender → b.nonce ≤ a.nonce)
  link : ∀ a ∈ acc, ∀ it ∈ heap, a.sender = it.cur.sender → ∀ x ∈ it.cur :: it.rest, x.nonce ≤ a.nonce

theorem CV.perm {U : Bytes → Tx} {acc : List Tx} {l₁ l₂ : List HItem} (hp : l₁.Perm l₂) (h : CV U acc l₁) :
    CV U acc l₂ :=
  ⟨h.heapOk.perm hp, h.wf, h.ord, fun a ha it hit => h.link a ha it (hp.mem_iff.mpr hit)⟩

/-- one victim is taken from the item `it` -/
theorem CV.step {U : Bytes → Tx} {acc : List Tx} {it : HItem} {heap : List HItem} (h : CV U acc (it :: heap)) :
    CV U (acc ++ [it.cur]) (match it.advance with | none => heap | some it' => it' :: heap) := by
  obtain ⟨⟨hitems, hdist⟩, hwf, hord, hlink⟩ := h
  rw [List.pairwise_cons] at hdist
  obtain ⟨hdistIt, hdistHeap⟩ := hdist
  have hitOk : ItemOk U it := hitems it (List.mem_cons_self ..)
  have hwf' : ∀ t ∈ acc ++ [it.cur], WfTx U t := by
    intro t ht
    rcases List.mem_append.mp ht with ht | ht
    · exact hwf t ht
    · rw [List.mem_singleton.mp ht]; exact (hitOk.1 it.cur (List.mem_cons_self ..)).1
  have hord' : (acc ++ [it.cur]).Pairwise (fun a b => a.sender = b.sender → b.nonce ≤ a.nonce) := by
    refine List.pairwise_append.mpr ⟨hord, by simp, ?_⟩
    intro a ha b hb
    rw [List.mem_singleton.mp hb]
    intro e
    exact hlink a ha it (List.mem_cons_self ..) e it.cur (List.mem_cons_self ..)
  -- links with the items that stay
  have hlinkHeap : ∀ a ∈ acc ++ [it.cur], ∀ j ∈ heap, a.sender = j.cur.sender →
      ∀ x ∈ j.cur :: j.rest, x.nonce ≤ a.nonce := by
    intro a ha j hj e
    rcases List.mem_append.mp ha with ha | ha
    · exact hlink a ha j (List.mem_cons_of_mem _ hj) e
    · rw [List.mem_singleton.mp ha] at e
      exact absurd e (hdistIt j hj)
  cases hr : it.rest with
  | nil =>
    have hadv : it.advance = none := by unfold HItem.advance; rw [hr]
    rw [hadv]
    exact ⟨⟨fun j hj => hitems j (List.mem_cons_of_mem _ hj), hdistHeap⟩, hwf', hord', hlinkHeap⟩
  | cons t ts =>
    have hadv : it.advance = some { it with cur := t, rest := ts } := by unfold HItem.advance; rw [hr]
    rw [hadv]
    have hsub : ∀ x ∈ t :: ts, x ∈ it.cur :: it.rest := by
      intro x hx; rw [hr]; exact List.mem_cons_of_mem _ hx
    have hts : t.sender = it.cur.sender := (hitOk.1 t (hsub t (List.mem_cons_self ..))).2
    have hpw := hitOk.2
    rw [hr, List.pairwise_cons] at hpw
    refine ⟨⟨?_, ?_⟩, hwf', hord', ?_⟩
    · intro j hj
      rcases List.mem_cons.mp hj with rfl | hj
      · refine ⟨?_, hpw.2⟩
        intro x hx
        have := hitOk.1 x (hsub x hx)
        exact ⟨this.1, by rw [this.2]; exact hts.symm⟩
      · exact hitems j (List.mem_cons_of_mem _ hj)
    · refine List.pairwise_cons.mpr ⟨?_, hdistHeap⟩
      intro j hj
      show t.sender ≠ j.cur.sender
      rw [hts]
      exact hdistIt j hj
    · intro a ha j hj e
      rcases List.mem_cons.mp hj with rfl | hj
      · intro x hx
        have hx' : x ∈ t :: ts := hx
        rcases List.mem_append.mp ha with ha | ha
        · exact hlink a ha it (List.mem_cons_self ..) (by rw [e]; exact hts) x (hsub x hx')
        · rw [List.mem_singleton.mp ha]
          exact hpw.1 x hx'
      · exact hlinkHeap a ha j hj e

theorem collectVictims_ok {U : Bytes → Tx} : ∀ (n : Nat) (heap : List HItem) (acc : List Tx), CV U acc heap →
    CV U (collectVictims Variant.current n heap acc).1 (collectVictims Variant.current n heap acc).2 := by
  intro n
  induction n with
  | zero =>
    intro heap acc h
    simp only [collectVictims, Variant.current, Bool.false_eq_true, if_false]
    exact h
  | succ n ih =>
    intro heap acc h
    unfold collectVictims
    split
    · exact h
    · next it heap' hpop =>
      have hperm : (it :: heap').Perm heap := popBy_perm hpop
      have hstep := (h.perm hperm.symm).step
      split
      · next hadv => rw [hadv] at hstep; exact ih _ _ hstep
      · next it' hadv => rw [hadv] at hstep; exact ih _ _ hstep

/-! ### thresholds -/

theorem thresholds_lookup_absent (s : Bytes) : ∀ (vs : List Tx) (m : List (Bytes × Nat)),
    (∀ r ∈ vs, r.sender ≠ s) →
    alookup s (vs.foldl (fun m t => aset t.sender t.nonce m) m) = alookup s m := by
  intro vs
  induction vs with
  | nil => intro m _; rfl
  | cons v vs ih =>
    intro m h
    rw [List.foldl_cons, ih _ (fun r hr => h r (List.mem_cons_of_mem _ hr))]
    exact alookup_aset_ne _ _ (fun e => h v (List.mem_cons_self ..) e.symm)

/-- each victim's nonce is at least the threshold recorded for its sender (the nonce of that sender's LAST victim) -/
theorem thresholds_le : ∀ (vs : List Tx) (m : List (Bytes × Nat)),
    vs.Pairwise (fun a b => a.sender = b.sender → b.nonce ≤ a.nonce) →
    ∀ t ∈ vs, ∃ n, alookup t.sender (vs.foldl (fun m t => aset t.sender t.nonce m) m) = some n ∧ n ≤ t.nonce := by
  intro vs
  induction vs with
  | nil => intro m _ t ht; simp at ht
  | cons v vs ih =>
    intro m hpw t ht
    rw [List.pairwise_cons] at hpw
    rw [List.foldl_cons]
    rcases List.mem_cons.mp ht with rfl | ht
    · by_cases hex : ∃ r ∈ vs, r.sender = t.sender
      · obtain ⟨r, hr, hrs⟩ := hex
        obtain ⟨n, hn, hle⟩ := ih (aset t.sender t.nonce m) hpw.2 r hr
        refine ⟨n, by rw [← hn, hrs], ?_⟩
        have := hpw.1 r hr hrs.symm
        omega
      · refine ⟨t.nonce, ?_, Nat.le_refl _⟩
        rw [thresholds_lookup_absent t.sender vs _ (fun r hr e => hex ⟨r, hr, e⟩)]
        exact alookup_aset_self ..
    · exact ih _ hpw.2 t ht

/-! ### one eviction pass, the loop -/

theorem applyVictims_all (U : Bytes → Tx) (p : Pool) (victims : List Tx) (h : Inv U p)
    (hwf : ∀ t ∈ victims, WfTx U t)
    (hord : victims.Pairwise (fun a b => a.sender = b.sender → b.nonce ≤ a.nonce)) :
    Inv U (applyVictims Variant.current p victims) ∧
    (ListsSorted p → ListsSorted (applyVictims Variant.current p victims)) := by
  unfold applyVictims
  dsimp only
  obtain ⟨h1, hs1, hp1⟩ := foldThreshold_all U (thresholds victims) p h
  have habs : ∀ k ∈ victims.map (·.hash),
      alookup k ((thresholds victims).foldl (applyThreshold Variant.current) p).byHash = none := by
    intro k hk
    obtain ⟨t, ht, rfl⟩ := List.mem_map.mp hk
    cases hlk : alookup t.hash ((thresholds victims).foldl (applyThreshold Variant.current) p).byHash with
    | none => rfl
    | some x =>
      exfalso
      obtain ⟨hh, hw, l, hl, hxl⟩ := hashed_listed h1 hlk
      have hxt : x = t := wf_inj hw (hwf t ht) hh
      subst hxt
      obtain ⟨-, hno⟩ := hp1 x ⟨_, l, alookup_some_mem hl, hxl⟩
      obtain ⟨n, hn, hle⟩ := thresholds_le victims [] hord x ht
      exact hno (x.sender, n) (alookup_some_mem hn) ⟨rfl, hle⟩
  rw [removeBulk_absent habs]
  exact ⟨h1, hs1⟩

theorem evictLoop_all (U : Bytes → Tx) : ∀ (fuel : Nat) (p : Pool) (heap : List HItem), Inv U p → HeapOk U heap →
    Inv U (evictLoop Variant.current fuel p heap) ∧
    (ListsSorted p → ListsSorted (evictLoop Variant.current fuel p heap)) := by
  intro fuel
  induction fuel with
  | zero => intro p heap h _; exact ⟨h, id⟩
  | succ fuel ih =>
    intro p heap h hh
    unfold evictLoop
    split
    · have hcv : CV U [] heap := ⟨hh, by simp, List.Pairwise.nil, by simp⟩
      have hres := collectVictims_ok p.cfg.numItemsToEvict heap [] hcv
      cases hc : collectVictims Variant.current p.cfg.numItemsToEvict heap [] with
      | mk victims heap' =>
        rw [hc] at hres
        dsimp only
        split
        · exact ⟨h, id⟩
        · obtain ⟨ha, hsa⟩ := applyVictims_all U p victims h hres.wf hres.ord
          obtain ⟨hb, hsb⟩ := ih (applyVictims Variant.current p victims) heap' ha hres.heapOk
          exact ⟨hb, fun hso => hsb (hsa hso)⟩
    · exact ⟨h, id⟩

theorem initHeap_mem {L : List (Bytes × List Tx)} {j : HItem} (hj : j ∈ initHeap (L.map (·.2.reverse))) :
    ∃ s l, (s, l) ∈ L ∧ j.cur :: j.rest = l.reverse := by
  unfold initHeap at hj
  obtain ⟨b, hb, hof⟩ := List.mem_filterMap.mp hj
  obtain ⟨⟨s, l⟩, hm, rfl⟩ := List.mem_map.mp hb
  refine ⟨s, l, hm, ?_⟩
  dsimp only at hof
  cases hr : l.reverse with
  | nil => rw [hr] at hof; simp [HItem.ofBunch] at hof
  | cons t ts =>
    rw [hr] at hof
    simp only [HItem.ofBunch, Option.some.injEq] at hof
    subst hof
    rfl

theorem initHeap_ok {U : Bytes → Tx} : ∀ (L : List (Bytes × List Tx)),
    (∀ s l, (s, l) ∈ L → ∀ t ∈ l, WfTx U t ∧ t.sender = s) →
    (∀ s l, (s, l) ∈ L → l.Pairwise (fun a b => a.nonce ≤ b.nonce)) →
    (keys L).Nodup → HeapOk U (initHeap (L.map (·.2.reverse))) := by
  intro L hwf hso hnd
  constructor
  · intro j hj
    obtain ⟨s, l, hm, hjl⟩ := initHeap_mem hj
    unfold ItemOk
    rw [hjl]
    have hcur : j.cur ∈ l := by
      have : j.cur ∈ l.reverse := by rw [← hjl]; exact List.mem_cons_self ..
      exact List.mem_reverse.mp this
    refine ⟨?_, ?_⟩
    · intro x hx
      have hx' := hwf s l hm x (List.mem_reverse.mp hx)
      exact ⟨hx'.1, by rw [hx'.2, (hwf s l hm _ hcur).2]⟩
    · rw [List.pairwise_reverse]
      exact hso s l hm
  · induction L with
    | nil => simp [initHeap]
    | cons a L ih =>
      obtain ⟨s, l⟩ := a
      simp only [keys_cons, List.nodup_cons] at hnd
      have ih' := ih (fun s' l' hm => hwf s' l' (List.mem_cons_of_mem _ hm))
        (fun s' l' hm => hso s' l' (List.mem_cons_of_mem _ hm)) hnd.2
      show (initHeap (l.reverse :: L.map (·.2.reverse))).Pairwise _
      unfold initHeap
      rw [List.filterMap_cons]
      cases hr : HItem.ofBunch l.reverse with
      | none => exact ih'
      | some it =>
        dsimp only
        refine List.pairwise_cons.mpr ⟨?_, ih'⟩
        intro j hj
        obtain ⟨s', l', hm', hjl'⟩ := initHeap_mem (L := L) hj
        have hitl : it.cur ∈ l := by
          cases hrr : l.reverse with
          | nil => rw [hrr] at hr; simp [HItem.ofBunch] at hr
          | cons t ts =>
            rw [hrr] at hr
            simp only [HItem.ofBunch, Option.some.injEq] at hr
            subst hr
            have : t ∈ l.reverse := by rw [hrr]; exact List.mem_cons_self ..
            exact List.mem_reverse.mp this
        have hjl : j.cur ∈ l' := by
          have : j.cur ∈ l'.reverse := by rw [← hjl']; exact List.mem_cons_self ..
          exact List.mem_reverse.mp this
        rw [(hwf s l (List.mem_cons_self ..) _ hitl).2, (hwf s' l' (List.mem_cons_of_mem _ hm') _ hjl).2]
        intro e
        subst e
        exact hnd.1 (mem_keys_of_mem hm')

theorem evict_all (U : Bytes → Tx) (p : Pool) (h : Inv U p) :
    Inv U (evict Variant.current p) ∧ (ListsSorted p → ListsSorted (evict Variant.current p)) := by
  unfold evict
  split
  · exact evictLoop_all U _ p _ h (initHeap_ok p.lists h.wfLists h.nonceSorted h.sendersNodup)
  · exact ⟨h, id⟩

end C5

/-! ### the main statements -/

/-- eviction keeps the invariant -/
theorem Inv.evict (U : Bytes → Tx) (p : Pool) (h : Inv U p) : Inv U (evict Variant.current p) :=
  (evict_all U p h).1

theorem ListsSorted.evict (U : Bytes → Tx) (p : Pool) (h : Inv U p) (hso : ListsSorted p) :
    ListsSorted (SV.TxCache.evict Variant.current p) := (evict_all U p h).2 hso

theorem ListsSorted.applyThreshold (U : Bytes → Tx) (p : Pool) (sn : Bytes × Nat) (h : Inv U p) (hso : ListsSorted p) :
    ListsSorted (SV.TxCache.applyThreshold Variant.current p sn) := (applyThreshold_all U p sn h).2.1 hso

theorem addTx_all (U : Bytes → Tx) (p : Pool) (t : Tx) (h : Inv U p) (hso : ListsSorted p) (ht : WfTx U t) :
    Inv U (addTx Variant.current p t).1 ∧ ListsSorted (addTx Variant.current p t).1 := by
  rw [addTx_eq_core]
  split
  · exact Inv.addTxCore U _ t (Inv.evict U p h) (ListsSorted.evict U p h hso) ht
  · exact Inv.addTxCore U p t h hso ht

/-- insertion, with or without eviction.
    NOTE the extra hypothesis `hso` (strict sortedness of the sender lists), see `Inv.addTx_noEvict` and the
    counter-example `addTx_noEvict_needs_sorted` in `PoolInv.lean`; reachable pools satisfy it. -/
theorem Inv.addTx (U : Bytes → Tx) (p : Pool) (t : Tx) (h : Inv U p) (hso : ListsSorted p) (ht : WfTx U t) :
    Inv U (addTx Variant.current p t).1 := (addTx_all U p t h hso ht).1

theorem ListsSorted.addTx (U : Bytes → Tx) (p : Pool) (t : Tx) (h : Inv U p) (hso : ListsSorted p) (ht : WfTx U t) :
    ListsSorted (SV.TxCache.addTx Variant.current p t).1 := (addTx_all U p t h hso ht).2

inductive Op where
  | add (t : Tx) | rm (h : Bytes) | clear

def applyOp (p : Pool) : Op → Pool
  | .add t => (addTx Variant.current p t).1
  | .rm h => (removeTxByHash p h).1
  | .clear => SV.TxCache.clear Variant.current p

theorem reachable_all (U : Bytes → Tx) (ops : List Op) : ∀ (p : Pool), Inv U p → ListsSorted p →
    (∀ t, Op.add t ∈ ops → WfTx U t) → Inv U (ops.foldl applyOp p) ∧ ListsSorted (ops.foldl applyOp p) := by
  induction ops with
  | nil => intro p h hso _; exact ⟨h, hso⟩
  | cons op ops ih =>
    intro p h hso hw
    rw [List.foldl_cons]
    have hw' : ∀ t, Op.add t ∈ ops → WfTx U t := fun t ht => hw t (List.mem_cons_of_mem _ ht)
    cases op with
    | add t =>
      have ht := hw t (List.mem_cons_self ..)
      exact ih _ (Inv.addTx U p t h hso ht) (ListsSorted.addTx U p t h hso ht) hw'
    | rm k => exact ih _ (Inv.removeTxByHash U p k h) (ListsSorted.removeTxByHash U p k h hso) hw'
    | clear => exact ih _ (Inv.clear U p h) (ListsSorted.clear _ p) hw'

/-- every reachable pool satisfies the invariant (selection does not modify the pool, it is a pure function of it) -/
theorem Inv.reachable (U : Bytes → Tx) (cfg : Config) (ops : List Op) (hw : ∀ t, Op.add t ∈ ops → WfTx U t) :
    Inv U (ops.foldl applyOp (Pool.init cfg)) :=
  (reachable_all U ops _ (Inv.init U cfg) (ListsSorted.init cfg) hw).1

/-- …and its sender lists are strictly sorted -/
theorem ListsSorted.reachable (U : Bytes → Tx) (cfg : Config) (ops : List Op) (hw : ∀ t, Op.add t ∈ ops → WfTx U t) :
    ListsSorted (ops.foldl applyOp (Pool.init cfg)) :=
  (reachable_all U ops _ (Inv.init U cfg) (ListsSorted.init cfg) hw).2

/-! ### the pre-repair variants break the invariant -/

/-- the pre-repair variants break the invariant: concrete counter-examples (clear keeps numBytes; an emptied sender list
    stays registered; eviction leaves a same-nonce sibling in the hash index) -/
theorem legacy_clear_counterexample : ∃ (cfg : Config) (t : Tx),
    let p := SV.TxCache.clear Variant.legacy (addTx Variant.legacy (Pool.init cfg) t).1
    p.byHash = [] ∧ p.numBytes ≠ 0 :=
  ⟨⟨false, 1000, 1000, 10, 10, 1⟩, ⟨[1], [0xa0], 1, 2, 1, 10, 10, 0, []⟩, by decide⟩

theorem legacy_empty_sender_counterexample : ∃ (cfg : Config) (t : Tx),
    let p := (addTx Variant.legacy (Pool.init cfg) t).1
    p.byHash = [] ∧ p.cntSenders ≠ 0 :=
  ⟨⟨false, 1000, 1000, 10, 0, 1⟩, ⟨[1], [0xa0], 1, 2, 1, 10, 10, 0, []⟩, by decide⟩

theorem legacy_ghost_counterexample : ∃ (cfg : Config) (ts : List Tx) (g : Tx),
    let p := ts.foldl (fun p t => (addTx Variant.legacy p t).1) (Pool.init cfg)
    alookup g.hash p.byHash = some g ∧ ∀ s l, (s, l) ∈ p.lists → g ∉ l := by
  refine ⟨⟨true, 100000, 100000, 2, 100, 1⟩,
    [⟨[1], [0xa0], 1, 2, 1, 10, 10, 0, []⟩, ⟨[2], [0xa0], 1, 1, 1, 10, 0, 0, []⟩,
     ⟨[3], [0xb0], 1, 1, 1, 10, 100, 0, []⟩, ⟨[4], [0xc0], 1, 1, 1, 10, 100, 0, []⟩],
    ⟨[1], [0xa0], 1, 2, 1, 10, 10, 0, []⟩, ?_⟩
  dsimp only
  refine ⟨by decide, ?_⟩
  have key : ∀ e ∈ ([⟨[1], [0xa0], 1, 2, 1, 10, 10, 0, []⟩, ⟨[2], [0xa0], 1, 1, 1, 10, 0, 0, []⟩,
     ⟨[3], [0xb0], 1, 1, 1, 10, 100, 0, []⟩, ⟨[4], [0xc0], 1, 1, 1, 10, 100, 0, []⟩] : List Tx).foldl
       (fun p t => (addTx Variant.legacy p t).1) (Pool.init ⟨true, 100000, 100000, 2, 100, 1⟩) |>.lists,
      (⟨[1], [0xa0], 1, 2, 1, 10, 10, 0, []⟩ : Tx) ∉ e.2 := by decide
  exact fun s l hm => key (s, l) hm

end SV.TxCache
