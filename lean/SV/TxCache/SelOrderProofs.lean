/-
  SV.TxCache.SelOrderProofs — property C03 of the selection loop:
  the result does not depend on the order of the heap / of the bunches, and lowering the limits
  (count, gas, time budget) yields a prefix of the result.
-/
import SV.TxCache.OrderProofs
namespace SV.TxCache

/-- all transactions still reachable from a heap -/
def heapTxs (heap : List HItem) : List Tx := heap.flatMap (fun it => it.cur :: it.rest)

/-! ### bookkeeping: distinct hashes in a heap -/

/-- the hashes of all transactions reachable from the heap are pairwise different -/
def NodupH (heap : List HItem) : Prop := ((heapTxs heap).map (·.hash)).Nodup

theorem heapTxs_cons (it : HItem) (r : List HItem) : heapTxs (it :: r) = it.cur :: (it.rest ++ heapTxs r) := by
  simp [heapTxs, List.flatMap_cons]

theorem heapTxs_perm {heap heap' : List HItem} (hp : heap.Perm heap') : (heapTxs heap).Perm (heapTxs heap') :=
  List.Perm.flatMap_right _ hp

theorem NodupH.perm {heap heap' : List HItem} (hn : NodupH heap) (hp : heap.Perm heap') : NodupH heap' :=
  (((heapTxs_perm hp).map (fun t : Tx => t.hash)).nodup_iff).mp hn

theorem NodupH.of_sublist {heap heap' : List HItem} (hn : NodupH heap) (hs : (heapTxs heap').Sublist (heapTxs heap)) :
    NodupH heap' :=
  List.Nodup.sublist (hs.map (fun t : Tx => t.hash)) hn

theorem NodupH.tail {it : HItem} {r : List HItem} (hn : NodupH (it :: r)) : NodupH r := by
  apply hn.of_sublist
  rw [heapTxs_cons]
  exact (List.sublist_append_right _ _).cons _

theorem advance_eq {it it' : HItem} (h : it.advance = some it') : it'.cur :: it'.rest = it.rest := by
  unfold HItem.advance at h
  split at h
  · simp at h
  · rename_i t ts hr
    simp only [Option.some.injEq] at h
    subst h
    exact hr.symm

/-- advancing (a relabelled copy of) the popped item keeps the hashes distinct -/
theorem NodupH.advance {it it2 it' : HItem} {r : List HItem} (hn : NodupH (it :: r)) (hr : it2.rest = it.rest)
    (h : it2.advance = some it') : NodupH (it' :: r) := by
  apply hn.of_sublist
  have e := advance_eq h
  rw [heapTxs_cons, heapTxs_cons, ← List.cons_append, e, hr]
  exact (List.Sublist.refl _).cons _

theorem curs_sublist : ∀ heap : List HItem, (heap.map (·.cur)).Sublist (heapTxs heap)
  | [] => by simp [heapTxs]
  | it :: r => by
    rw [heapTxs_cons, List.map_cons]
    exact ((curs_sublist r).trans (List.sublist_append_right _ _)).cons_cons _

theorem NodupH.curs {heap : List HItem} (hn : NodupH heap) : (heap.map (·.cur.hash)).Nodup := by
  have h := List.Nodup.sublist ((curs_sublist heap).map (fun t : Tx => t.hash)) hn
  rw [List.map_map] at h
  exact h

/-! ### order independence -/

/-- the loop's result does not depend on how the heap list is ordered -/
theorem selectLoop_perm (v : Variant) (s : Session) (q : SelParams) :
    ∀ (fuel : Nat) (heap heap' : List HItem) (consumed : Bytes → Nat) (acc : Nat) (out : List Tx),
      heap.Perm heap' → ((heapTxs heap).map (·.hash)).Nodup →
      selectLoop v (popBest v) s q fuel heap consumed acc out = selectLoop v (popBest v) s q fuel heap' consumed acc out := by
  intro fuel
  induction fuel with
  | zero => intros; rfl
  | succ n ih =>
    intro heap heap' consumed acc out hp hn
    have hn : NodupH heap := hn
    cases hpk : popBest v heap with
    | none =>
      have e := (popBy_none _ heap).mp hpk
      subst e
      have e' := hp.nil_eq
      subst e'
      rfl
    | some p =>
      obtain ⟨it, r⟩ := p
      obtain ⟨r', hpk', hrr⟩ :=
        popBy_perm_invariant (moreValuable v) heap heap' it r (popBest_strictTotalOn v heap) hn.curs hp hpk
      have hpk' : popBest v heap' = some (it, r') := hpk'
      have hn1 : NodupH (it :: r) := hn.perm (popBy_perm _ heap it r hpk).symm
      have hnr : NodupH r := hn1.tail
      simp only [selectLoop, hpk, hpk']
      split
      · rfl
      · split
        · rfl
        · split
          · rfl
          · cases classify s consumed it with
            | dropSender => exact ih r r' _ _ _ hrr hnr
            | skipTx =>
              dsimp only
              cases ha : it.advance with
              | none => exact ih r r' _ _ _ hrr hnr
              | some it' => exact ih (it' :: r) (it' :: r') _ _ _ (hrr.cons it') (hn1.advance rfl ha)
            | take =>
              dsimp only
              cases ha : HItem.advance { it with latest := some it.cur.nonce } with
              | none => exact ih r r' _ _ _ hrr hnr
              | some it' =>
                exact ih (it' :: r) (it' :: r') _ _ _ (hrr.cons it')
                  (hn1.advance (it2 := { it with latest := some it.cur.nonce }) rfl ha)

theorem heapTxs_initHeap : ∀ bunches : List (List Tx), heapTxs (initHeap bunches) = bunches.flatten
  | [] => rfl
  | b :: bs => by
    have ih := heapTxs_initHeap bs
    unfold initHeap at ih ⊢
    cases b with
    | nil => simpa [List.filterMap_cons, HItem.ofBunch] using ih
    | cons t ts =>
      simp only [List.filterMap_cons, HItem.ofBunch, heapTxs_cons, ih, List.flatten_cons, List.cons_append]

theorem bunchesTotal_perm {bunches bunches' : List (List Tx)} (hp : bunches.Perm bunches') :
    bunchesTotal bunches = bunchesTotal bunches' :=
  (hp.map List.length).sum_nat

/-- C03: selection is independent of the order of the bunches (map iteration order, insertion order, chunk count) -/
theorem selectFromBunches_perm (v : Variant) (s : Session) (q : SelParams) (bunches bunches' : List (List Tx))
    (hp : bunches.Perm bunches') (hn : (bunches.flatten.map (·.hash)).Nodup) :
    selectFromBunches v s q bunches = selectFromBunches v s q bunches' := by
  unfold selectFromBunches
  rw [← bunchesTotal_perm hp]
  apply selectLoop_perm
  · exact hp.filterMap _
  · rw [heapTxs_initHeap]; exact hn

/-! ### prefix properties -/

/-- q' is at least as strict as q: lower count, lower gas, stops at least whenever q stops -/
structure Stricter (q' q : SelParams) : Prop where
  maxNum : q'.maxNum ≤ q.maxNum
  gasReq : q'.gasReq ≤ q.gasReq
  stop : ∀ n, q.stop n = true → q'.stop n = true
  interval : q'.interval = q.interval

/-- the loop only ever appends to `out` -/
theorem selectLoop_extends (v : Variant) (pick : List HItem → Option (HItem × List HItem)) (s : Session) (q : SelParams) :
    ∀ (fuel : Nat) (heap : List HItem) (consumed : Bytes → Nat) (acc : Nat) (out : List Tx),
      out <+: (selectLoop v pick s q fuel heap consumed acc out).1 := by
  intro fuel
  induction fuel with
  | zero => intros; exact List.prefix_refl _
  | succ n ih =>
    intro heap consumed acc out
    simp only [selectLoop]
    cases pick heap with
    | none => exact List.prefix_refl _
    | some p =>
      obtain ⟨it, r⟩ := p
      dsimp only
      split
      · exact List.prefix_refl _
      · split
        · exact List.prefix_refl _
        · split
          · exact List.prefix_refl _
          · cases classify s consumed it with
            | dropSender => exact ih _ _ _ _
            | skipTx =>
              dsimp only
              cases it.advance with
              | none => exact ih _ _ _ _
              | some it' => exact ih _ _ _ _
            | take =>
              dsimp only
              cases HItem.advance { it with latest := some it.cur.nonce } with
              | none => exact (List.prefix_append _ _).trans (ih _ _ _ _)
              | some it' => exact (List.prefix_append _ _).trans (ih _ _ _ _)

/-- C03: lowering maxNum, gasRequested or the time budget yields a prefix of the result -/
theorem selectLoop_prefix (v : Variant) (hv : v.gasWraps = false) (pick : List HItem → Option (HItem × List HItem))
    (s : Session) (q' q : SelParams) (hs : Stricter q' q) :
    ∀ (fuel : Nat) (heap : List HItem) (consumed : Bytes → Nat) (acc : Nat) (out : List Tx),
      (selectLoop v pick s q' fuel heap consumed acc out).1 <+: (selectLoop v pick s q fuel heap consumed acc out).1 := by
  intro fuel
  induction fuel with
  | zero => intros; exact List.prefix_refl _
  | succ n ih =>
    intro heap consumed acc out
    have hext := selectLoop_extends v pick s q (n + 1) heap consumed acc out
    cases hpk : pick heap with
    | none =>
      simp only [selectLoop, hpk]
      exact List.prefix_refl _
    | some p =>
      obtain ⟨it, r⟩ := p
      by_cases c1 : gasExceeded v acc it.cur.gasLimit q'.gasReq = true
      · have e : selectLoop v pick s q' (n + 1) heap consumed acc out = (out, acc) := by
          simp only [selectLoop, hpk, c1, if_true]
        rw [e]; exact hext
      · by_cases c2 : out.length ≥ q'.maxNum
        · have e : selectLoop v pick s q' (n + 1) heap consumed acc out = (out, acc) := by
            simp only [selectLoop, hpk, c2, if_true, ite_self]
          rw [e]; exact hext
        · by_cases c3 : (out.length % q'.interval = 0 && q'.stop out.length) = true
          · have e : selectLoop v pick s q' (n + 1) heap consumed acc out = (out, acc) := by
              simp only [selectLoop, hpk, c3, if_true, ite_self]
            rw [e]; exact hext
          · have d1 : ¬ gasExceeded v acc it.cur.gasLimit q.gasReq = true := by
              have := hs.gasReq
              simp [gasExceeded, hv] at c1 ⊢
              omega
            have d2 : ¬ out.length ≥ q.maxNum := by
              have := hs.maxNum
              omega
            have d3 : ¬ (out.length % q.interval = 0 && q.stop out.length) = true := by
              intro h
              apply c3
              simp only [Bool.and_eq_true, decide_eq_true_eq] at h ⊢
              exact ⟨by rw [hs.interval]; exact h.1, hs.stop _ h.2⟩
            simp only [selectLoop, hpk, c1, c2, c3, d1, d2, d3, if_false]
            cases classify s consumed it with
            | dropSender => exact ih _ _ _ _
            | skipTx =>
              dsimp only
              cases it.advance with
              | none => exact ih _ _ _ _
              | some it' => exact ih _ _ _ _
            | take =>
              dsimp only
              cases HItem.advance { it with latest := some it.cur.nonce } with
              | none => exact ih _ _ _ _
              | some it' => exact ih _ _ _ _

theorem selectFromBunches_prefix (v : Variant) (hv : v.gasWraps = false) (s : Session) (q' q : SelParams) (hs : Stricter q' q)
    (bunches : List (List Tx)) : (selectFromBunches v s q' bunches).1 <+: (selectFromBunches v s q bunches).1 :=
  selectLoop_prefix v hv (popBest v) s q' q hs _ _ _ _ _

end SV.TxCache
