/-
  SV.Persist.CrashProofs — crash algebra for the batching persisters (property C10), theorems.

  Assumed engine contract (built into `crashImage`, see SV/Persist/Crash.lean): a synced LevelDB `Write(batch)` is
  all-or-nothing and durable once returned.  Under that contract, for every `maxBatch ≥ 1`, every history and every
  crash point, the recovered directory is EXACTLY the logical map as of some flush boundary, that boundary is not
  older than the last completed flush, and an acknowledged write stays at risk for fewer than `maxBatch` updates.
-/
import SV.Persist.Crash
namespace SV.Persist
open SV

/-! ### one step -/

/-- an operation either issues ONE write carrying the whole pending batch (including itself) and leaves nothing
    pending, or is an acknowledged Put/Remove that only extends the pending batch and does not touch LevelDB -/
theorem step_cases (p : P) (o : Op) :
    (issuesWrite p o = true ∧ (p.step o).ops = [] ∧ (p.step o).db = applyBatch p.db (inflightBatch p o)) ∨
    (issuesWrite p o = false ∧ o.isUpdate = true ∧ (p.step o).ops = inflightBatch p o ∧ (p.step o).db = p.db) := by
  cases o with
  | put k v =>
    simp only [P.step, issuesWrite, inflightBatch, Op.bops, Op.isUpdate]
    unfold P.put P.bump
    dsimp only
    split
    · right; simp [*]
    · left; simp [*, P.flush]
  | rm k =>
    simp only [P.step, issuesWrite, inflightBatch, Op.bops, Op.isUpdate]
    unfold P.remove P.bump
    dsimp only
    split
    · right; simp [*]
    · left; simp [*, P.flush]
  | tick => left; simp [P.step, issuesWrite, inflightBatch, Op.bops, P.flush]
  | reopen => left; simp [P.step, issuesWrite, inflightBatch, Op.bops, P.flush, P.reopen, P.init]

/-- Theorem 4.  The LevelDB state changes only by whole batches: every operation leaves the flushed state untouched or
    replaces it by the whole pending batch (all acknowledged operations since the last flush, in order, including
    this one) applied on top of it.  Generalises `put_db_atomic` / `remove_db_atomic` of SV/Props/C10.lean. -/
theorem db_only_changes_by_whole_batches (p : P) (o : Op) :
    (p.step o).db = p.db ∨ (p.step o).db = applyBatch p.db (p.ops ++ o.bops) := by
  rcases step_cases p o with h | h
  · exact Or.inr h.2.2
  · exact Or.inl h.2.2.2

/-- sharper form: which of the two happens is decided by `issuesWrite` -/
theorem db_step_eq (p : P) (o : Op) :
    (p.step o).db = if issuesWrite p o then applyBatch p.db (p.ops ++ o.bops) else p.db := by
  rcases step_cases p o with h | h
  · rw [h.1, if_pos rfl]; exact h.2.2
  · rw [h.1]; exact h.2.2.2

theorem put_db_atomic' (p : P) (k : Bytes) (v : Val) :
    (p.put k v).db = p.db ∨ (p.put k v).db = applyBatch p.db (p.ops ++ [.put k v.bytes]) :=
  db_only_changes_by_whole_batches p (.put k v)

theorem remove_db_atomic' (p : P) (k : Bytes) :
    (p.remove k).db = p.db ∨ (p.remove k).db = applyBatch p.db (p.ops ++ [.del k]) :=
  db_only_changes_by_whole_batches p (.rm k)

/-- a write of an empty batch (timer or Close with nothing pending) changes nothing, whether it survives or not -/
theorem empty_write_no_change (p : P) (o : Op) (h : inflightBatch p o = []) : (p.step o).db = p.db := by
  rcases step_cases p o with hc | hc
  · rw [hc.2.2, h]; rfl
  · exact hc.2.2.2

/-! ### histories -/

theorem run_nil (mb : Nat) : run mb [] = P.init mb [] := rfl

theorem run_snoc (mb : Nat) (l : List Op) (o : Op) : run mb (l ++ [o]) = (run mb l).step o := by
  simp [run, List.foldl_append]

theorem take_succ_some {ops : List Op} {i : Nat} {o : Op} (h : ops[i]? = some o) :
    ops.take (i + 1) = ops.take i ++ [o] := by
  rw [List.take_add_one, h]; rfl

theorem take_succ_none {ops : List Op} {i : Nat} (h : ops[i]? = none) : ops.take (i + 1) = ops.take i := by
  rw [List.take_add_one, h]; simp

theorem run_take_succ (mb : Nat) {ops : List Op} {i : Nat} {o : Op} (h : ops[i]? = some o) :
    run mb (ops.take (i + 1)) = (run mb (ops.take i)).step o := by
  rw [take_succ_some h, run_snoc]

theorem BInv.run (mb : Nat) (hm : 1 ≤ mb) (ops : List Op) : BInv (run mb ops) :=
  (run_refines ops (P.init mb []) (fun _ => none) (BInv.init mb [] hm (by simp))
    (by intro x; simp [P.init, P.abs, alookup])).1

theorem abs_run (mb : Nat) (hm : 1 ≤ mb) (ops : List Op) (k : Bytes) :
    (run mb ops).abs k = ops.foldl specStep (fun _ => none) k :=
  (run_refines ops (P.init mb []) (fun _ => none) (BInv.init mb [] hm (by simp))
    (by intro x; simp [P.init, P.abs, alookup])).2 k

/-- at a flush boundary the LevelDB state IS the logical map (plain-map semantics of all acknowledged operations) -/
theorem boundary_db_is_spec (mb : Nat) (hm : 1 ≤ mb) (ops : List Op) (j : Nat) (hb : Boundary mb ops j) (k : Bytes) :
    alookup k (run mb (ops.take j)).db = (ops.take j).foldl specStep (fun _ => none) k := by
  have h := (BInv.run mb hm (ops.take j)).replay k
  unfold Boundary at hb
  rw [hb] at h
  rw [← abs_run mb hm]
  exact h

/-! ### flush boundaries -/

theorem boundary_zero (mb : Nat) (ops : List Op) : Boundary mb ops 0 := by
  simp [Boundary, run, P.init]

theorem boundary_succ_of_write (mb : Nat) {ops : List Op} {i : Nat} {o : Op} (h : ops[i]? = some o)
    (hw : issuesWrite (run mb (ops.take i)) o = true) : Boundary mb ops (i + 1) := by
  unfold Boundary
  rw [run_take_succ mb h]
  rcases step_cases (run mb (ops.take i)) o with hc | hc
  · exact hc.2.1
  · rw [hc.1] at hw; cases hw

/-- Theorem 3b.  Right after every timer event and every close/reopen cycle nothing is pending. -/
theorem boundary_after_tick_reopen (mb : Nat) (ops : List Op) (i : Nat)
    (h : ops[i]? = some .tick ∨ ops[i]? = some .reopen) : Boundary mb ops (i + 1) := by
  rcases h with h | h <;> exact boundary_succ_of_write mb h rfl

theorem lastBoundary_le (mb : Nat) (ops : List Op) (i : Nat) : lastBoundary mb ops i ≤ i := by
  induction i with
  | zero => simp [lastBoundary]
  | succ i ih =>
    unfold lastBoundary
    split
    · exact Nat.le_refl _
    · omega

theorem lastBoundary_boundary (mb : Nat) (ops : List Op) (i : Nat) : Boundary mb ops (lastBoundary mb ops i) := by
  induction i with
  | zero => exact boundary_zero mb ops
  | succ i ih =>
    unfold lastBoundary
    split
    · assumption
    · exact ih

/-- `lastBoundary … i` is the LAST boundary at or before `i` -/
theorem lastBoundary_max (mb : Nat) (ops : List Op) (i j : Nat) (hj : j ≤ i) (hb : Boundary mb ops j) :
    j ≤ lastBoundary mb ops i := by
  induction i with
  | zero => omega
  | succ i ih =>
    unfold lastBoundary
    split
    · exact hj
    · rename_i hnb
      by_cases he : j = i + 1
      · subst he; exact absurd hb hnb
      · exact ih (by omega)

theorem lastBoundary_of_boundary (mb : Nat) (ops : List Op) (i : Nat) (hb : Boundary mb ops i) :
    lastBoundary mb ops i = i :=
  Nat.le_antisymm (lastBoundary_le mb ops i) (lastBoundary_max mb ops i i (Nat.le_refl _) hb)

theorem lastBoundary_mono (mb : Nat) (ops : List Op) (i : Nat) :
    lastBoundary mb ops i ≤ lastBoundary mb ops (i + 1) :=
  lastBoundary_max mb ops (i + 1) _ (Nat.le_trans (lastBoundary_le mb ops i) (Nat.le_succ i))
    (lastBoundary_boundary mb ops i)

/-- between two flush boundaries the LevelDB state does not move -/
theorem db_lastBoundary (mb : Nat) (ops : List Op) (i : Nat) :
    (run mb (ops.take i)).db = (run mb (ops.take (lastBoundary mb ops i))).db := by
  induction i with
  | zero => rfl
  | succ i ih =>
    unfold lastBoundary
    split
    · rfl
    · rename_i hnb
      rw [← ih]
      cases ho : ops[i]? with
      | none => rw [take_succ_none ho]
      | some o =>
        rw [run_take_succ mb ho]
        rcases step_cases (run mb (ops.take i)) o with hc | hc
        · exact absurd (boundary_succ_of_write mb ho hc.1) hnb
        · exact hc.2.2.2

/-- the pending batch is exactly what the operations since the last flush boundary appended, in order,
    and all of these operations are Put/Remove -/
theorem pending_since_lastBoundary (mb : Nat) (ops : List Op) (i : Nat) :
    (∀ o ∈ (ops.take i).drop (lastBoundary mb ops i), o.isUpdate = true) ∧
    (run mb (ops.take i)).ops = ((ops.take i).drop (lastBoundary mb ops i)).flatMap Op.bops := by
  induction i with
  | zero => simp [lastBoundary, run, P.init]
  | succ i ih =>
    unfold lastBoundary
    split
    · rename_i hb
      have hlen : (ops.take (i + 1)).length ≤ i + 1 := by simp [List.length_take]; omega
      rw [List.drop_eq_nil_of_le hlen]
      exact ⟨by simp, hb⟩
    · rename_i hnb
      cases ho : ops[i]? with
      | none => rw [take_succ_none ho]; exact ih
      | some o =>
        have hi : i < ops.length := by
          rcases Nat.lt_or_ge i ops.length with h | h
          · exact h
          · rw [List.getElem?_eq_none h] at ho; cases ho
        have hlb : lastBoundary mb ops i ≤ (ops.take i).length := by
          rw [List.length_take]; have := lastBoundary_le mb ops i; omega
        rw [run_take_succ mb ho, take_succ_some ho, List.drop_append_of_le_length hlb]
        rcases step_cases (run mb (ops.take i)) o with hc | hc
        · exact absurd (boundary_succ_of_write mb ho hc.1) hnb
        · refine ⟨?_, ?_⟩
          · intro x hx
            rcases List.mem_append.mp hx with hx | hx
            · exact ih.1 x hx
            · rw [List.mem_singleton.mp hx]; exact hc.2.1
          · rw [hc.2.2.1, inflightBatch, ih.2]; simp

theorem bops_length_of_isUpdate (o : Op) (h : o.isUpdate = true) : o.bops.length = 1 := by
  cases o <;> first | rfl | cases h

theorem flatMap_bops_length (l : List Op) (h : ∀ o ∈ l, o.isUpdate = true) :
    (l.flatMap Op.bops).length = l.length := by
  induction l with
  | nil => rfl
  | cons a r ih =>
    rw [List.flatMap_cons, List.length_append, ih (fun o ho => h o (List.mem_cons_of_mem _ ho)),
      bops_length_of_isUpdate a (h a List.mem_cons_self)]
    simp; omega

theorem countP_eq_length_of_all {α} (p : α → Bool) (l : List α) (h : ∀ o ∈ l, p o = true) : l.countP p = l.length :=
  List.countP_eq_length.mpr h

/-- number of pending goleveldb operations = number of Put/Remove since the last flush boundary -/
theorem pending_length (mb : Nat) (ops : List Op) (i : Nat) :
    (run mb (ops.take i)).ops.length = ((ops.take i).drop (lastBoundary mb ops i)).countP Op.isUpdate := by
  have h := pending_since_lastBoundary mb ops i
  rw [h.2, flatMap_bops_length _ h.1, countP_eq_length_of_all _ _ h.1]

/-! ### Theorem 3: the at-risk window -/

/-- Theorem 3a.  At every instant fewer than `maxBatch` Put/Remove operations have been acknowledged since the last
    flush boundary: these (and only these) are what a crash can lose. -/
theorem at_risk_window (mb : Nat) (hm : 1 ≤ mb) (ops : List Op) (i : Nat) :
    ((ops.take i).drop (lastBoundary mb ops i)).countP Op.isUpdate < mb := by
  rw [← pending_length]
  have h := pending_bounded _ (BInv.run mb hm (ops.take i))
  have hmb : (run mb (ops.take i)).maxBatch = mb := by
    have : ∀ (l : List Op) (p : P), (l.foldl P.step p).maxBatch = p.maxBatch := by
      intro l
      induction l with
      | nil => intro p; rfl
      | cons o r ih =>
        intro p
        rw [List.foldl_cons, ih]
        cases o with
        | put k v => simp only [P.step, P.put, P.bump]; split <;> rfl
        | rm k => simp only [P.step, P.remove, P.bump]; split <;> rfl
        | tick => rfl
        | reopen => rfl
    exact this _ _
  rwa [hmb] at h

/-- all operations since the last flush boundary are Put/Remove (a tick or a reopen is itself a boundary), so the
    window is also fewer than `maxBatch` operations of any kind -/
theorem at_risk_window_length (mb : Nat) (hm : 1 ≤ mb) (ops : List Op) (i : Nat) (hi : i ≤ ops.length) :
    i - lastBoundary mb ops i < mb := by
  have h := at_risk_window mb hm ops i
  rw [countP_eq_length_of_all _ _ (pending_since_lastBoundary mb ops i).1] at h
  simpa [List.length_drop, List.length_take, Nat.min_eq_left hi] using h

/-- Theorem 3c (the "equivalently" form).  The write acknowledged by operation `j` is flushed at the latest by the
    `(maxBatch − 1)`-th further Put/Remove: if at least `maxBatch − 1` Put/Remove operations follow operation `j`
    among the first `i`, a flush boundary lies in `(j, i]`. -/
theorem write_flushed_within (mb : Nat) (hm : 1 ≤ mb) (ops : List Op) (i j : Nat) (hji : j < i) (hi : i ≤ ops.length)
    (hcnt : mb ≤ ((ops.take i).drop (j + 1)).countP Op.isUpdate + 1) :
    ∃ j', j < j' ∧ j' ≤ i ∧ Boundary mb ops j' := by
  rcases Nat.lt_or_ge j (lastBoundary mb ops i) with hlt | hge
  · exact ⟨_, hlt, lastBoundary_le mb ops i, lastBoundary_boundary mb ops i⟩
  · exfalso
    have hw := at_risk_window mb hm ops i
    have hall := (pending_since_lastBoundary mb ops i).1
    rw [countP_eq_length_of_all _ _ hall] at hw
    have h1 : ((ops.take i).drop (j + 1)).countP Op.isUpdate ≤ ((ops.take i).drop (j + 1)).length :=
      List.countP_le_length
    simp only [List.length_drop, List.length_take, Nat.min_eq_left hi] at hw h1
    omega

/-! ### Theorems 1, 2: the crash image -/

theorem crashImage_eq (mb : Nat) (ops : List Op) (i : Nat) (s : Bool) :
    crashImage mb ops i s = (run mb (ops.take (crashPoint mb ops i s))).db := by
  unfold crashImage crashPoint
  split
  · split
    · rfl
    · exact db_lastBoundary mb ops i
  · exact db_lastBoundary mb ops i

theorem crashPoint_boundary (mb : Nat) (ops : List Op) (i : Nat) (s : Bool) :
    Boundary mb ops (crashPoint mb ops i s) := by
  unfold crashPoint
  split
  · rename_i o ho
    split
    · rename_i hc
      simp only [Bool.and_eq_true] at hc
      exact boundary_succ_of_write mb ho hc.2
    · exact lastBoundary_boundary mb ops i
  · exact lastBoundary_boundary mb ops i

theorem crashPoint_le (mb : Nat) (ops : List Op) (i : Nat) (s : Bool) : crashPoint mb ops i s ≤ i + 1 := by
  have := lastBoundary_le mb ops i
  unfold crashPoint
  split
  · split <;> omega
  · omega

theorem lastBoundary_le_crashPoint (mb : Nat) (ops : List Op) (i : Nat) (s : Bool) :
    lastBoundary mb ops i ≤ crashPoint mb ops i s := by
  have := lastBoundary_le mb ops i
  unfold crashPoint
  split
  · split <;> omega
  · omega

/-- the crash point is a position inside the history -/
theorem crashPoint_le_length (mb : Nat) (ops : List Op) (i : Nat) (s : Bool) (hi : i ≤ ops.length) :
    crashPoint mb ops i s ≤ ops.length := by
  have := lastBoundary_le mb ops i
  unfold crashPoint
  split
  · rename_i o ho
    have : i < ops.length := by
      rcases Nat.lt_or_ge i ops.length with h | h
      · exact h
      · rw [List.getElem?_eq_none h] at ho; cases ho
    split <;> omega
  · omega

/-- the simple reading of `crashImage`: whether or not the operation writes, the image is the flushed state before the
    operation, or after it when the in-flight write survived -/
theorem crashImage_eq_before_or_after (mb : Nat) (ops : List Op) (i : Nat) (s : Bool) :
    crashImage mb ops i s = (run mb (ops.take i)).db ∨
    (s = true ∧ crashImage mb ops i s = (run mb (ops.take (i + 1))).db) := by
  unfold crashImage
  split
  · split
    · rename_i hc
      simp only [Bool.and_eq_true] at hc
      exact Or.inr ⟨hc.1, rfl⟩
    · exact Or.inl rfl
  · exact Or.inl rfl

/-- an operation that issues no write leaves the same image whatever `survived` says -/
theorem crashImage_no_write (mb : Nat) (ops : List Op) (i : Nat) (o : Op) (ho : ops[i]? = some o)
    (hw : issuesWrite (run mb (ops.take i)) o = false) (s : Bool) :
    crashImage mb ops i s = (run mb (ops.take i)).db ∧ (run mb (ops.take (i + 1))).db = (run mb (ops.take i)).db := by
  constructor
  · unfold crashImage; rw [ho]; simp [hw]
  · rw [run_take_succ mb ho, db_step_eq, hw]; rfl

/-- Theorem 1.  Whatever the crash instant and whatever happens to the in-flight write, the recovered directory is the
    LevelDB state of some flush boundary `j ≤ i + 1`, and as a map it is EXACTLY the logical map (plain-map semantics of
    all acknowledged Put/Remove) as of that boundary: nothing of a later batch, everything of all earlier ones, in order. -/
theorem crash_image_is_flush_boundary (mb : Nat) (hm : 1 ≤ mb) (ops : List Op) (i : Nat) (survived : Bool) :
    ∃ j, j ≤ i + 1 ∧ Boundary mb ops j ∧
      crashImage mb ops i survived = (run mb (ops.take j)).db ∧
      ∀ k, alookup k (crashImage mb ops i survived) = (ops.take j).foldl specStep (fun _ => none) k := by
  refine ⟨crashPoint mb ops i survived, crashPoint_le mb ops i survived, crashPoint_boundary mb ops i survived,
    crashImage_eq mb ops i survived, ?_⟩
  intro k
  rw [crashImage_eq]
  exact boundary_db_is_spec mb hm ops _ (crashPoint_boundary mb ops i survived) k

/-- Theorem 2.  That boundary (`crashPoint`) is at least the last boundary at or before `i`: a batch whose flush
    completed before the crash is fully present, whatever happens to the in-flight write. -/
theorem completed_flushes_survive (mb : Nat) (ops : List Op) (i : Nat) (survived : Bool)
    (j' : Nat) (hj' : j' ≤ i) (hb : Boundary mb ops j') : j' ≤ crashPoint mb ops i survived :=
  Nat.le_trans (lastBoundary_max mb ops i j' hj' hb) (lastBoundary_le_crashPoint mb ops i survived)

/-- Theorems 1 and 2 in one statement, about one and the same `j` -/
theorem crash_recovers_a_recent_flush_boundary (mb : Nat) (hm : 1 ≤ mb) (ops : List Op) (i : Nat) (survived : Bool) :
    ∃ j, j ≤ i + 1 ∧ Boundary mb ops j ∧
      (∀ j', j' ≤ i → Boundary mb ops j' → j' ≤ j) ∧
      crashImage mb ops i survived = (run mb (ops.take j)).db ∧
      ∀ k, alookup k (crashImage mb ops i survived) = (ops.take j).foldl specStep (fun _ => none) k := by
  refine ⟨crashPoint mb ops i survived, crashPoint_le mb ops i survived, crashPoint_boundary mb ops i survived,
    fun j' h1 h2 => completed_flushes_survive mb ops i survived j' h1 h2, crashImage_eq mb ops i survived, ?_⟩
  intro k
  rw [crashImage_eq]
  exact boundary_db_is_spec mb hm ops _ (crashPoint_boundary mb ops i survived) k

/-- what is lost: only acknowledged operations after the crash point, and these are fewer than `maxBatch` Put/Remove
    (plus, when the in-flight write did not survive, the operation in progress, which was never acknowledged) -/
theorem lost_updates_bounded (mb : Nat) (hm : 1 ≤ mb) (ops : List Op) (i : Nat) (survived : Bool) :
    ((ops.take i).drop (crashPoint mb ops i survived)).countP Op.isUpdate < mb := by
  have h := at_risk_window mb hm ops i
  have hle := lastBoundary_le_crashPoint mb ops i survived
  have : (ops.take i).drop (crashPoint mb ops i survived) =
      ((ops.take i).drop (lastBoundary mb ops i)).drop (crashPoint mb ops i survived - lastBoundary mb ops i) := by
    rw [List.drop_drop]; congr 1; omega
  rw [this]
  exact Nat.lt_of_le_of_lt ((List.drop_sublist _ _).countP_le) h

/-! ### Theorem 5: the judgement used by the driver -/

theorem allowedImages_length_le_two (mb : Nat) (ops : List Op) (i : Nat) : (allowedImages mb ops i).length ≤ 2 := by
  unfold allowedImages
  split
  · split <;> simp
  · simp

theorem crashImage_mem_allowedImages (mb : Nat) (ops : List Op) (i : Nat) (survived : Bool) :
    crashImage mb ops i survived ∈ allowedImages mb ops i := by
  unfold crashImage allowedImages
  split
  · rename_i o ho
    cases hw : issuesWrite (run mb (ops.take i)) o <;> cases survived <;> simp
  · simp

/-- conversely every allowed image is the image of some crash: the list contains nothing superfluous -/
theorem allowedImages_all_reachable (mb : Nat) (ops : List Op) (i : Nat) (img : Store)
    (h : img ∈ allowedImages mb ops i) : ∃ survived, img = crashImage mb ops i survived := by
  unfold allowedImages at h
  unfold crashImage
  split at h
  · rename_i o ho
    split at h
    · rename_i hw
      simp only [List.mem_cons, List.not_mem_nil, or_false] at h
      rcases h with h | h
      · exact ⟨false, by simp [h]⟩
      · exact ⟨true, by simp [h, hw]⟩
    · rename_i hw
      simp only [List.mem_singleton] at h
      exact ⟨false, by simp [h]⟩
  · simp only [List.mem_singleton] at h
    exact ⟨false, h⟩

/-- Theorem 5.  Every allowed image satisfies the characterisation of Theorems 1 and 2. -/
theorem allowedImages_characterised (mb : Nat) (hm : 1 ≤ mb) (ops : List Op) (i : Nat) (img : Store)
    (h : img ∈ allowedImages mb ops i) :
    ∃ j, j ≤ i + 1 ∧ Boundary mb ops j ∧
      (∀ j', j' ≤ i → Boundary mb ops j' → j' ≤ j) ∧
      img = (run mb (ops.take j)).db ∧
      ∀ k, alookup k img = (ops.take j).foldl specStep (fun _ => none) k := by
  obtain ⟨s, rfl⟩ := allowedImages_all_reachable mb ops i img h
  exact crash_recovers_a_recent_flush_boundary mb hm ops i s

theorem sameMap_iff (a b : Store) : sameMap a b = true ↔ ∀ k, alookup k a = alookup k b := by
  have hnone : ∀ (l : Store) (k : Bytes), k ∉ l.map (·.1) → alookup k l = none := by
    intro l k
    induction l with
    | nil => intro _; rfl
    | cons x r ih =>
      obtain ⟨k1, v1⟩ := x
      intro hk
      simp only [List.map_cons, List.mem_cons, not_or] at hk
      have : ¬ ((k1 == k) = true) := by simpa using fun e => hk.1 e.symm
      simp only [alookup, if_neg this]
      exact ih hk.2
  unfold sameMap
  rw [List.all_eq_true]
  constructor
  · intro h k
    by_cases hk : k ∈ a.map (·.1) ++ b.map (·.1)
    · simpa using h k hk
    · simp only [List.mem_append, not_or] at hk
      rw [hnone a k hk.1, hnone b k hk.2]
  · intro h k _
    simp [h k]

/-- soundness of the driver's judgement: an image accepted by `imageAllowed` is, as a map, exactly the logical map at
    a flush boundary `j ≤ i + 1` not older than the last flush completed before the crash -/
theorem imageAllowed_sound (mb : Nat) (hm : 1 ≤ mb) (ops : List Op) (i : Nat) (img : Store)
    (h : imageAllowed mb ops i img = true) :
    ∃ j, j ≤ i + 1 ∧ Boundary mb ops j ∧
      (∀ j', j' ≤ i → Boundary mb ops j' → j' ≤ j) ∧
      ∀ k, alookup k img = (ops.take j).foldl specStep (fun _ => none) k := by
  unfold imageAllowed at h
  rw [List.any_eq_true] at h
  obtain ⟨x, hx, hs⟩ := h
  obtain ⟨j, h1, h2, h3, _, h5⟩ := allowedImages_characterised mb hm ops i x hx
  refine ⟨j, h1, h2, h3, fun k => ?_⟩
  rw [(sameMap_iff img x).mp hs k]
  exact h5 k

/-- completeness: every image the contract permits is accepted -/
theorem imageAllowed_crashImage (mb : Nat) (ops : List Op) (i : Nat) (survived : Bool) :
    imageAllowed mb ops i (crashImage mb ops i survived) = true := by
  unfold imageAllowed
  rw [List.any_eq_true]
  exact ⟨_, crashImage_mem_allowedImages mb ops i survived, (sameMap_iff _ _).mpr fun _ => rfl⟩

/-- completeness up to map equality: any store denoting the logical map at the crash point is accepted -/
theorem imageAllowed_of_spec (mb : Nat) (hm : 1 ≤ mb) (ops : List Op) (i : Nat) (survived : Bool) (img : Store)
    (h : ∀ k, alookup k img =
      (ops.take (crashPoint mb ops i survived)).foldl specStep (fun _ => none) k) :
    imageAllowed mb ops i img = true := by
  unfold imageAllowed
  rw [List.any_eq_true]
  refine ⟨_, crashImage_mem_allowedImages mb ops i survived, (sameMap_iff _ _).mpr fun k => ?_⟩
  rw [h k, crashImage_eq]
  exact (boundary_db_is_spec mb hm ops _ (crashPoint_boundary mb ops i survived) k).symm

/-- `allowedPoints` names the boundaries of the allowed images, in the same order -/
theorem allowedImages_eq_map_allowedPoints (mb : Nat) (ops : List Op) (i : Nat) :
    allowedImages mb ops i = (allowedPoints mb ops i).map fun j => (run mb (ops.take j)).db := by
  unfold allowedPoints allowedImages
  split
  · split <;> simp [← db_lastBoundary]
  · simp [← db_lastBoundary]

/-! ### non-vacuity -/

section examples

private def v (n : UInt8) : Val := ⟨false, [n]⟩

/-- maxBatch = 3: two puts, a tick, then put / rm / put (the third one flushes by size), a tick, a put, a reopen -/
def crashDemo : List Op :=
  [.put [1] (v 10), .put [2] (v 20), .tick, .put [3] (v 30), .rm [1], .put [4] (v 40), .tick, .put [5] (v 50), .reopen]

/-- the hypotheses of all theorems are met: `1 ≤ 3`, and the crash point `5 < crashDemo.length` -/
example : 1 ≤ 3 ∧ 5 < crashDemo.length := by decide

/-- the flushing put (operation 5) issues a write … -/
example : issuesWrite (run 3 (crashDemo.take 5)) (.put [4] (v 40)) = true := by decide
/-- … so a crash during it leaves either of two DIFFERENT stores: the batch [put 3, rm 1, put 4] wholly absent or
    wholly present -/
example : crashImage 3 crashDemo 5 false = [([1], [10]), ([2], [20])] := by decide
example : crashImage 3 crashDemo 5 true = [([2], [20]), ([3], [30]), ([4], [40])] := by decide
example : crashImage 3 crashDemo 5 false ≠ crashImage 3 crashDemo 5 true := by decide
example : allowedImages 3 crashDemo 5 = [[([1], [10]), ([2], [20])], [([2], [20]), ([3], [30]), ([4], [40])]] := by decide
example : allowedPoints 3 crashDemo 5 = [3, 6] := by decide
example : crashPoint 3 crashDemo 5 false = 3 ∧ crashPoint 3 crashDemo 5 true = 6 := by decide
/-- the flush boundaries of the history are exactly 0, 3, 6, 7, 9 -/
example : (List.range (crashDemo.length + 1)).filter (fun j => decide (Boundary 3 crashDemo j)) = [0, 3, 6, 7, 9] := by decide
/-- a non-flushing operation (operation 4, the rm) issues no write: one possible image, the previous boundary;
    the acknowledged put of key 3 is at risk -/
example : allowedImages 3 crashDemo 4 = [[([1], [10]), ([2], [20])]] := by decide
/-- a partially applied batch, a reordered one and a stale one are rejected; key order is irrelevant -/
example : imageAllowed 3 crashDemo 5 [([4], [40]), ([3], [30]), ([2], [20])] = true := by decide
example : imageAllowed 3 crashDemo 5 [([1], [10]), ([2], [20]), ([3], [30])] = false := by decide
example : imageAllowed 3 crashDemo 5 [([2], [20]), ([3], [30])] = false := by decide
example : imageAllowed 3 crashDemo 5 [([1], [10])] = false := by decide
/-- Theorem 2 is not vacuous: boundary 3 ≤ 5 exists and both crash points are ≥ 3 -/
example : Boundary 3 crashDemo 3 ∧ 3 ≤ crashPoint 3 crashDemo 5 false ∧ 3 ≤ crashPoint 3 crashDemo 5 true := by decide
/-- Theorem 3: after 5 operations two updates (put 3, rm 1) are at risk, 2 < 3 -/
example : ((crashDemo.take 5).drop (lastBoundary 3 crashDemo 5)).countP Op.isUpdate = 2 := by decide
/-- Theorem 3c: hypotheses satisfiable (j = 3, i = 6: two further updates follow the put of key 3, 3 ≤ 2 + 1) -/
example : 3 < 6 ∧ 6 ≤ crashDemo.length ∧ 3 ≤ ((crashDemo.take 6).drop (3 + 1)).countP Op.isUpdate + 1 := by decide

end examples

end SV.Persist
