/-
  SV.Persist.ShardedProofs — the sharded persister over batching persisters behaves as ONE map over whole
  histories (Put / Remove / timer flush of every shard / Close + reopen of every shard), and RangeKeys after a
  flush visits exactly that map, each key once (C08, C09, C19).
-/
import SV.Persist.Proofs
namespace SV.Persist
open SV

/-! ### association lists: lookups through concatenations -/

section alist
variable {β : Type}

theorem alookup_eq_none_of_not_mem (k : Bytes) (l : List (Bytes × β)) (h : k ∉ l.map (·.1)) :
    alookup k l = none := by
  induction l with
  | nil => rfl
  | cons a r ih =>
    obtain ⟨k1, v1⟩ := a
    simp only [List.map_cons, List.mem_cons, not_or] at h
    have hne : ¬ ((k1 == k) = true) := by simpa using fun e => h.1 e.symm
    simp only [alookup, if_neg hne]
    exact ih h.2

theorem mem_keys_of_alookup_some {k : Bytes} {v : β} (l : List (Bytes × β)) (h : alookup k l = some v) :
    (k, v) ∈ l := by
  induction l with
  | nil => simp [alookup] at h
  | cons a r ih =>
    obtain ⟨k1, v1⟩ := a
    simp only [alookup] at h
    split at h
    · rename_i heq
      have h1 : k1 = k := by simpa using heq
      have h2 : v1 = v := by simpa using h
      subst h1; subst h2
      exact List.mem_cons_self
    · exact List.mem_cons_of_mem _ (ih h)

/-- with pairwise distinct keys, `alookup` is membership -/
theorem alookup_of_mem_nodup {k : Bytes} {v : β} (l : List (Bytes × β)) (hn : (l.map (·.1)).Nodup)
    (h : (k, v) ∈ l) : alookup k l = some v := by
  induction l with
  | nil => simp at h
  | cons a r ih =>
    obtain ⟨k1, v1⟩ := a
    simp only [List.map_cons, List.nodup_cons] at hn
    rcases List.mem_cons.mp h with h | h
    · have h1 : k = k1 := congrArg Prod.fst h
      have h2 : v = v1 := congrArg Prod.snd h
      subst h1; subst h2
      simp [alookup]
    · have hk : k ∈ r.map (·.1) := List.mem_map.mpr ⟨(k, v), h, rfl⟩
      have hne : ¬ ((k1 == k) = true) := by
        intro e
        have : k1 = k := by simpa using e
        exact hn.1 (this ▸ hk)
      simp only [alookup, if_neg hne]
      exact ih hn.2 h

theorem alookup_append_left_none (k : Bytes) (a b : List (Bytes × β)) (h : alookup k a = none) :
    alookup k (a ++ b) = alookup k b := by
  induction a with
  | nil => rfl
  | cons x r ih =>
    obtain ⟨k1, v1⟩ := x
    simp only [alookup] at h
    split at h
    · simp at h
    · rename_i hne
      simp only [List.cons_append, alookup, if_neg hne]
      exact ih h

theorem alookup_append_right_none (k : Bytes) (a b : List (Bytes × β)) (h : alookup k b = none) :
    alookup k (a ++ b) = alookup k a := by
  induction a with
  | nil => simpa [alookup] using h
  | cons x r ih =>
    obtain ⟨k1, v1⟩ := x
    simp only [List.cons_append, alookup]
    split
    · rfl
    · exact ih

end alist

/-! ### steps of the sharded persister -/

/-- one step of a history: Put/Remove are routed to one shard, `tick` fires the flush timer of every shard,
    `reopen` closes every shard and opens it again on the same path -/
def Sharded.step (s : Sharded) : Op → Sharded
  | .put k v => s.put k v
  | .rm k => s.remove k
  | .tick => s.flushAll
  | .reopen => s.reopen

/-- the same function applied to every shard -/
def Sharded.mapShards (s : Sharded) (f : P → P) : Sharded := { s with shards := s.shards.map f }

theorem flushAll_eq (s : Sharded) : s.flushAll = s.mapShards P.flush := rfl
theorem reopen_eq (s : Sharded) : s.reopen = s.mapShards P.reopen := rfl

theorem SInv.mapShards (s : Sharded) (f : P → P) (h : SInv s) (hf : ∀ p, BInv p → BInv (f p)) :
    SInv (s.mapShards f) := by
  refine ⟨h.1, ?_, ?_⟩
  · show (s.shards.map f).length = s.n
    rw [List.length_map]; exact h.2.1
  · intro p hp
    obtain ⟨q, hq, rfl⟩ := List.mem_map.mp hp
    exact hf q (h.2.2 q hq)

theorem SInv.flushAll (s : Sharded) (h : SInv s) : SInv s.flushAll :=
  SInv.mapShards s _ h BInv.flush

theorem SInv.reopen (s : Sharded) (h : SInv s) : SInv s.reopen :=
  SInv.mapShards s _ h BInv.reopen

theorem SInv.step (s : Sharded) (o : Op) (h : SInv s) : SInv (s.step o) := by
  cases o with
  | put k v => exact SInv.put s k v h
  | rm k => exact SInv.remove s k h
  | tick => exact SInv.flushAll s h
  | reopen => exact SInv.reopen s h

theorem shard_mapShards (s : Sharded) (f : P → P) (k : Bytes) (h : SInv s) :
    (s.mapShards f).shard k = f (s.shard k) := by
  have hlt := idx_lt s k h
  have hidx : (s.mapShards f).idx k = s.idx k := rfl
  unfold Sharded.shard
  rw [hidx]
  show ((s.shards.map f)[s.idx k]?).getD _ = _
  rw [List.getElem?_map, List.getElem?_eq_getElem hlt]
  rfl

/-- C08/C19: the timer flush of every shard changes no read -/
theorem sharded_flushAll_preserves (s : Sharded) (k : Bytes) (h : SInv s) :
    (s.flushAll).get Variant.current k = s.get Variant.current k := by
  unfold Sharded.get
  rw [flushAll_eq, shard_mapShards s _ k h, get_eq_abs, get_eq_abs,
    abs_flush _ k (h.2.2 _ (shard_mem s k h))]

/-- C09/C19: Close + reopen of all shards: nothing lost, nothing resurrected -/
theorem sharded_reopen_preserves (s : Sharded) (k : Bytes) (h : SInv s) :
    (s.reopen).get Variant.current k = s.get Variant.current k := by
  unfold Sharded.get
  rw [reopen_eq, shard_mapShards s _ k h, get_eq_abs, get_eq_abs,
    abs_reopen _ k (h.2.2 _ (shard_mem s k h))]

theorem sharded_get_step (s : Sharded) (o : Op) (m : Bytes → Option Bytes) (h : SInv s)
    (hm : ∀ k, s.get Variant.current k = m k) :
    ∀ k, (s.step o).get Variant.current k = specStep m o k := by
  intro x
  cases o with
  | put k v => simp only [Sharded.step, specStep, sharded_get_put s k x v h, hm]
  | rm k => simp only [Sharded.step, specStep, sharded_get_remove s k x h, hm]
  | tick => simp only [Sharded.step, specStep, sharded_flushAll_preserves s x h, hm]
  | reopen => simp only [Sharded.step, specStep, sharded_reopen_preserves s x h, hm]

theorem sharded_run_refines (ops : List Op) (s : Sharded) (m : Bytes → Option Bytes) (h : SInv s)
    (hm : ∀ k, s.get Variant.current k = m k) :
    SInv (ops.foldl Sharded.step s) ∧
      ∀ k, (ops.foldl Sharded.step s).get Variant.current k = (ops.foldl specStep m) k := by
  induction ops generalizing s m with
  | nil => exact ⟨h, hm⟩
  | cons o r ih => exact ih (s.step o) (specStep m o) (SInv.step s o h) (sharded_get_step s o m h hm)

theorem sharded_get_init (n maxBatch : Nat) (hn : 2 ≤ n) (hm : 1 ≤ maxBatch) (k : Bytes) :
    (Sharded.init n maxBatch).get Variant.current k = none := by
  have hmem := shard_mem _ k (SInv.init n maxBatch hn hm)
  have : (Sharded.init n maxBatch).shard k = P.init maxBatch [] := (List.mem_replicate.mp hmem).2
  unfold Sharded.get
  rw [this]
  simp [P.get, P.init, alookup]

/-- C08/C09/C19: any history of Put/Remove, timer flushes and close/reopen cycles, any number of shards ≥ 2, any
    batch size ≥ 1: the reads of the sharded persister are the reads of ONE plain map -/
theorem sharded_run_refines_map (n maxBatch : Nat) (hn : 2 ≤ n) (hm : 1 ≤ maxBatch) (ops : List Op) (k : Bytes) :
    (ops.foldl Sharded.step (Sharded.init n maxBatch)).get Variant.current k
      = (ops.foldl specStep (fun _ => none)) k :=
  (sharded_run_refines ops (Sharded.init n maxBatch) (fun _ => none) (SInv.init n maxBatch hn hm)
    (sharded_get_init n maxBatch hn hm)).2 k

/-! ### the routing invariant -/

def BOp.key : BOp → Bytes
  | .put k _ => k
  | .del k => k

/-- `x` is stored somewhere in `p`: in the database, in the read caches of the batch or in the pending batch -/
def P.holds (p : P) (x : Bytes) : Prop :=
  x ∈ p.db.map (·.1) ∨ x ∈ p.cached.map (·.1) ∨ x ∈ p.removed ∨ x ∈ p.ops.map BOp.key

/-- every key stored in shard `i` is a key that `computeId` routes to shard `i` -/
def Routed (s : Sharded) : Prop :=
  ∀ i p, s.shards[i]? = some p → ∀ x, p.holds x → Shard.computeId s.n x = i

theorem mem_keys_applyOp {x : Bytes} (db : Store) (op : BOp) :
    x ∈ (applyOp db op).map (·.1) → x = op.key ∨ x ∈ db.map (·.1) := by
  cases op with
  | put k v => exact mem_keys_aset v db
  | del k => exact fun h => Or.inr (mem_keys_aerase db h)

theorem mem_keys_applyBatch {x : Bytes} (ops : List BOp) (db : Store) :
    x ∈ (applyBatch db ops).map (·.1) → x ∈ db.map (·.1) ∨ x ∈ ops.map BOp.key := by
  induction ops generalizing db with
  | nil => exact Or.inl
  | cons op r ih =>
    intro h
    rcases ih (applyOp db op) h with h | h
    · rcases mem_keys_applyOp db op h with h | h
      · exact Or.inr (by simp [h])
      · exact Or.inl h
    · exact Or.inr (List.mem_cons_of_mem _ h)

theorem holds_init_nil (maxBatch : Nat) (x : Bytes) : ¬ (P.init maxBatch []).holds x := by
  simp [P.holds, P.init]

theorem holds_flush (p : P) (x : Bytes) (h : p.flush.holds x) : p.holds x := by
  rcases h with h | h | h | h
  · rcases mem_keys_applyBatch p.ops p.db h with h | h
    · exact Or.inl h
    · exact Or.inr (Or.inr (Or.inr h))
  · simp [P.flush] at h
  · simp [P.flush] at h
  · simp [P.flush] at h

theorem holds_reopen (p : P) (x : Bytes) (h : p.reopen.holds x) : p.holds x := by
  rcases h with h | h | h | h
  · exact holds_flush p x (Or.inl h)
  · simp [P.reopen, P.init] at h
  · simp [P.reopen, P.init] at h
  · simp [P.reopen, P.init] at h

theorem holds_bump (q : P) (x : Bytes) (h : q.bump.holds x) : q.holds x := by
  unfold P.bump at h
  dsimp only at h
  split at h
  · exact h
  · exact holds_flush _ x h

theorem holds_put (p : P) (k : Bytes) (v : Val) (x : Bytes) (h : (p.put k v).holds x) :
    x = k ∨ p.holds x := by
  rw [put_eq] at h
  rcases holds_bump _ x h with h | h | h | h
  · exact Or.inr (Or.inl h)
  · rcases mem_keys_aset v p.cached h with h | h
    · exact Or.inl h
    · exact Or.inr (Or.inr (Or.inl h))
  · have h' : x ∈ p.removed.filter (· != k) := h
    exact Or.inr (Or.inr (Or.inr (Or.inl (List.mem_filter.mp h').1)))
  · have h' : x ∈ (p.ops ++ [BOp.put k v.bytes]).map BOp.key := h
    simp only [List.map_append, List.mem_append, List.map_cons, List.map_nil, List.mem_singleton] at h'
    rcases h' with h' | h'
    · exact Or.inr (Or.inr (Or.inr (Or.inr h')))
    · exact Or.inl h'

theorem holds_remove (p : P) (k : Bytes) (x : Bytes) (h : (p.remove k).holds x) :
    x = k ∨ p.holds x := by
  rw [remove_eq] at h
  rcases holds_bump _ x h with h | h | h | h
  · exact Or.inr (Or.inl h)
  · exact Or.inr (Or.inr (Or.inl (mem_keys_aerase p.cached h)))
  · rcases (mem_rmPre_removed p k x).mp h with h | h
    · exact Or.inl h
    · exact Or.inr (Or.inr (Or.inr (Or.inl h)))
  · have h' : x ∈ (p.ops ++ [BOp.del k]).map BOp.key := h
    simp only [List.map_append, List.mem_append, List.map_cons, List.map_nil, List.mem_singleton] at h'
    rcases h' with h' | h'
    · exact Or.inr (Or.inr (Or.inr (Or.inr h')))
    · exact Or.inl h'

theorem Routed.init (n maxBatch : Nat) : Routed (Sharded.init n maxBatch) := by
  intro i p hp x hx
  have hmem : p ∈ (Sharded.init n maxBatch).shards := List.mem_of_getElem? hp
  have : p = P.init maxBatch [] := (List.mem_replicate.mp hmem).2
  subst this
  exact absurd hx (holds_init_nil maxBatch x)

theorem Routed.mapShards (s : Sharded) (f : P → P) (h : Routed s) (hf : ∀ p x, (f p).holds x → p.holds x) :
    Routed (s.mapShards f) := by
  intro i p hp x hx
  have hp' : (s.shards.map f)[i]? = some p := hp
  rw [List.getElem?_map] at hp'
  cases hq : s.shards[i]? with
  | none => rw [hq] at hp'; simp at hp'
  | some q =>
    rw [hq] at hp'
    have : f q = p := by simpa using hp'
    subst this
    exact h i q hq x (hf q x hx)

theorem shard_getElem? (s : Sharded) (k : Bytes) (h : SInv s) : s.shards[s.idx k]? = some (s.shard k) := by
  have hlt := idx_lt s k h
  unfold Sharded.shard
  rw [List.getElem?_eq_getElem hlt]
  rfl

theorem Routed.upd (s : Sharded) (k : Bytes) (f : P → P) (hs : SInv s) (h : Routed s)
    (hf : ∀ x, (f (s.shard k)).holds x → x = k ∨ (s.shard k).holds x) : Routed (s.upd k f) := by
  intro i p hp x hx
  have hp' : (s.shards.set (s.idx k) (f (s.shard k)))[i]? = some p := hp
  show Shard.computeId s.n x = i
  by_cases hi : s.idx k = i
  · subst hi
    rw [List.getElem?_set_self (idx_lt s k hs)] at hp'
    have : f (s.shard k) = p := by simpa using hp'
    subst this
    rcases hf x hx with hx | hx
    · subst hx; rfl
    · exact h _ _ (shard_getElem? s k hs) x hx
  · rw [List.getElem?_set_ne hi] at hp'
    exact h i p hp' x hx

theorem Routed.put (s : Sharded) (k : Bytes) (v : Val) (hs : SInv s) (h : Routed s) : Routed (s.put k v) :=
  Routed.upd s k _ hs h (holds_put _ k v)

theorem Routed.remove (s : Sharded) (k : Bytes) (hs : SInv s) (h : Routed s) : Routed (s.remove k) :=
  Routed.upd s k _ hs h (holds_remove _ k)

theorem Routed.flushAll (s : Sharded) (h : Routed s) : Routed s.flushAll :=
  Routed.mapShards s _ h holds_flush

theorem Routed.reopen (s : Sharded) (h : Routed s) : Routed s.reopen :=
  Routed.mapShards s _ h holds_reopen

theorem Routed.step (s : Sharded) (o : Op) (hs : SInv s) (h : Routed s) : Routed (s.step o) := by
  cases o with
  | put k v => exact Routed.put s k v hs h
  | rm k => exact Routed.remove s k hs h
  | tick => exact Routed.flushAll s h
  | reopen => exact Routed.reopen s h

theorem run_invariants (ops : List Op) (s : Sharded) (hs : SInv s) (h : Routed s) :
    SInv (ops.foldl Sharded.step s) ∧ Routed (ops.foldl Sharded.step s) := by
  induction ops generalizing s with
  | nil => exact ⟨hs, h⟩
  | cons o r ih => exact ih (s.step o) (SInv.step s o hs) (Routed.step s o hs h)

/-! ### RangeKeys over all shards -/

/-- the databases of two different shards have no key in common -/
theorem Routed.db_disjoint (s : Sharded) (h : Routed s) :
    s.shards.Pairwise (fun p q => ∀ x, x ∈ p.db.map (·.1) → x ∉ q.db.map (·.1)) := by
  rw [List.pairwise_iff_getElem]
  intro i j hi hj hij x hx hy
  have h1 := h i _ (List.getElem?_eq_getElem hi) x (Or.inl hx)
  have h2 := h j _ (List.getElem?_eq_getElem hj) x (Or.inl hy)
  omega

theorem mem_keys_flatMap_range {x : Bytes} (l : List P) :
    x ∈ (l.flatMap P.range).map (·.1) → ∃ q ∈ l, x ∈ q.db.map (·.1) := by
  intro h
  obtain ⟨⟨k, v⟩, hkv, rfl⟩ := List.mem_map.mp h
  obtain ⟨q, hq, hmem⟩ := List.mem_flatMap.mp hkv
  exact ⟨q, hq, List.mem_map.mpr ⟨(k, v), hmem, rfl⟩⟩

theorem nodup_flatMap_range (l : List P) (hn : ∀ p ∈ l, (p.db.map (·.1)).Nodup)
    (hd : l.Pairwise (fun p q => ∀ x, x ∈ p.db.map (·.1) → x ∉ q.db.map (·.1))) :
    ((l.flatMap P.range).map (·.1)).Nodup := by
  induction l with
  | nil => simp
  | cons a r ih =>
    rw [List.pairwise_cons] at hd
    rw [List.flatMap_cons, List.map_append, List.nodup_append]
    refine ⟨hn a List.mem_cons_self, ih (fun p hp => hn p (List.mem_cons_of_mem _ hp)) hd.2, ?_⟩
    intro x hx y hy hxy
    subst hxy
    obtain ⟨q, hq, hmem⟩ := mem_keys_flatMap_range r hy
    exact hd.1 q hq x hx hmem

/-- C19: in ANY reachable state the keys visited by RangeKeys over all shards are pairwise distinct -/
theorem sharded_range_nodup_of (s : Sharded) (hs : SInv s) (h : Routed s) : (s.range.map (·.1)).Nodup :=
  nodup_flatMap_range s.shards (fun p hp => (hs.2.2 p hp).dbNodup) (Routed.db_disjoint s h)

/-- C09/C19: after the flush of every shard, RangeKeys visits each key exactly once across ALL shards -/
theorem sharded_range_nodup (s : Sharded) (hs : SInv s) (h : Routed s) :
    ((s.flushAll).range.map (·.1)).Nodup :=
  sharded_range_nodup_of _ (SInv.flushAll s hs) (Routed.flushAll s h)

/-- a lookup in the concatenation of the shards' ranges is a lookup in the one shard that may hold the key -/
theorem alookup_flatMap_range (k : Bytes) (l : List P) (j : Nat) (p : P) (hj : l[j]? = some p)
    (hothers : ∀ i q, l[i]? = some q → i ≠ j → k ∉ q.db.map (·.1)) :
    alookup k (l.flatMap P.range) = alookup k p.db := by
  induction l generalizing j with
  | nil => simp at hj
  | cons a r ih =>
    rw [List.flatMap_cons]
    cases j with
    | zero =>
      have : a = p := by simpa using hj
      subst this
      apply alookup_append_right_none
      apply alookup_eq_none_of_not_mem
      intro hx
      obtain ⟨q, hq, hmem⟩ := mem_keys_flatMap_range r hx
      obtain ⟨i, hi⟩ := List.getElem?_of_mem hq
      exact hothers (i + 1) q (by simpa using hi) (by omega) hmem
    | succ j =>
      have h0 : alookup k (P.range a) = none :=
        alookup_eq_none_of_not_mem k _ (hothers 0 a rfl (by omega))
      rw [alookup_append_left_none k _ _ h0]
      refine ih j (by simpa using hj) ?_
      intro i q hi hne
      exact hothers (i + 1) q (by simpa using hi) (by omega)

/-- C19: in ANY reachable state a lookup in `range` is a lookup in the database of the key's own shard -/
theorem alookup_range (s : Sharded) (k : Bytes) (hs : SInv s) (h : Routed s) :
    alookup k s.range = alookup k (s.shard k).db := by
  refine alookup_flatMap_range k s.shards (s.idx k) (s.shard k) (shard_getElem? s k hs) ?_
  intro i q hi hne hmem
  exact hne (h i q hi k (Or.inl hmem)).symm

/-- C09/C19: RangeKeys after the flush of every shard visits exactly the logical map: the union of the shards -/
theorem sharded_range_is_the_map (s : Sharded) (hs : SInv s) (h : Routed s) :
    ∀ k, alookup k (s.flushAll).range = s.get Variant.current k := by
  intro k
  rw [alookup_range _ k (SInv.flushAll s hs) (Routed.flushAll s h), flushAll_eq, shard_mapShards s _ k hs]
  unfold Sharded.get
  rw [get_eq_abs]
  exact (hs.2.2 _ (shard_mem s k hs)).replay k

/-- Close + reopen leaves on disk exactly what the flush of every shard leaves -/
theorem range_reopen (s : Sharded) : (s.reopen).range = (s.flushAll).range := by
  unfold Sharded.range Sharded.reopen Sharded.flushAll
  simp only [List.flatMap_map]
  rfl

/-- membership form: with SInv and Routed, `(k, v)` is visited by RangeKeys after a flush iff the map binds `k` to `v` -/
theorem sharded_range_mem_iff (s : Sharded) (hs : SInv s) (h : Routed s) (k v : Bytes) :
    (k, v) ∈ (s.flushAll).range ↔ s.get Variant.current k = some v := by
  rw [← sharded_range_is_the_map s hs h k]
  exact ⟨alookup_of_mem_nodup _ (sharded_range_nodup s hs h), mem_keys_of_alookup_some _⟩

/-! ### whole histories -/

/-- the state reached from the empty sharded persister by a history -/
def Sharded.run (n maxBatch : Nat) (ops : List Op) : Sharded := ops.foldl Sharded.step (Sharded.init n maxBatch)

theorem run_SInv (n maxBatch : Nat) (hn : 2 ≤ n) (hm : 1 ≤ maxBatch) (ops : List Op) :
    SInv (Sharded.run n maxBatch ops) :=
  (run_invariants ops _ (SInv.init n maxBatch hn hm) (Routed.init n maxBatch)).1

theorem run_Routed (n maxBatch : Nat) (hn : 2 ≤ n) (hm : 1 ≤ maxBatch) (ops : List Op) :
    Routed (Sharded.run n maxBatch ops) :=
  (run_invariants ops _ (SInv.init n maxBatch hn hm) (Routed.init n maxBatch)).2

/-- C09/C19: after ANY history followed by a timer flush of every shard, RangeKeys over all shards enumerates
    exactly the plain map of the history, each key once -/
theorem sharded_run_range (n maxBatch : Nat) (hn : 2 ≤ n) (hm : 1 ≤ maxBatch) (ops : List Op) :
    (((ops ++ [Op.tick]).foldl Sharded.step (Sharded.init n maxBatch)).range.map (·.1)).Nodup ∧
    ∀ k, alookup k ((ops ++ [Op.tick]).foldl Sharded.step (Sharded.init n maxBatch)).range
      = (ops.foldl specStep (fun _ => none)) k := by
  have hs := run_SInv n maxBatch hn hm ops
  have hr := run_Routed n maxBatch hn hm ops
  rw [List.foldl_append]
  refine ⟨sharded_range_nodup _ hs hr, ?_⟩
  intro k
  show alookup k (Sharded.run n maxBatch ops).flushAll.range = _
  rw [sharded_range_is_the_map _ hs hr k]
  exact sharded_run_refines_map n maxBatch hn hm ops k

/-- the same after Close + reopen of every shard -/
theorem sharded_run_range_reopen (n maxBatch : Nat) (hn : 2 ≤ n) (hm : 1 ≤ maxBatch) (ops : List Op) :
    (((ops ++ [Op.reopen]).foldl Sharded.step (Sharded.init n maxBatch)).range.map (·.1)).Nodup ∧
    ∀ k, alookup k ((ops ++ [Op.reopen]).foldl Sharded.step (Sharded.init n maxBatch)).range
      = (ops.foldl specStep (fun _ => none)) k := by
  have h := sharded_run_range n maxBatch hn hm ops
  rw [List.foldl_append] at h ⊢
  show ((Sharded.run n maxBatch ops).reopen.range.map (·.1)).Nodup ∧
    ∀ k, alookup k (Sharded.run n maxBatch ops).reopen.range = _
  rw [range_reopen]
  exact h

/-- membership form: the pairs visited by RangeKeys after history + flush are exactly the bindings of the plain map -/
theorem sharded_run_range_mem_iff (n maxBatch : Nat) (hn : 2 ≤ n) (hm : 1 ≤ maxBatch) (ops : List Op) (k v : Bytes) :
    (k, v) ∈ ((ops ++ [Op.tick]).foldl Sharded.step (Sharded.init n maxBatch)).range
      ↔ (ops.foldl specStep (fun _ => none)) k = some v := by
  obtain ⟨hnd, hl⟩ := sharded_run_range n maxBatch hn hm ops
  rw [← hl k]
  exact ⟨alookup_of_mem_nodup _ hnd, mem_keys_of_alookup_some _⟩

/-! ### non-vacuity: 3 shards, batch size 2, a 7-operation history over all three shards with a reopen in the middle -/

section example_history

example : Shard.computeId 3 [1] = 1 ∧ Shard.computeId 3 [2] = 2 ∧ Shard.computeId 3 [3] = 1 ∧
    Shard.computeId 3 [4] = 0 := by decide

/-- keys `[1]`,`[3]` live in shard 1, `[2]` in shard 2, `[4]` in shard 0; the third Put fills the batch of shard 1
    (flush by size), the reopen closes everything, the last three operations stay pending, one in each shard -/
def exHist : List Op :=
  [.put [1] ⟨false, [10]⟩, .put [2] ⟨false, [20]⟩, .put [3] ⟨false, [30]⟩, .reopen,
   .rm [1], .put [4] ⟨false, [40]⟩, .put [2] ⟨false, [21]⟩]

example : exHist.length = 7 := rfl

/-- the hypotheses of the theorems above are met by the state this history reaches -/
example : SInv (Sharded.run 3 2 exHist) ∧ Routed (Sharded.run 3 2 exHist) :=
  ⟨run_SInv 3 2 (by decide) (by decide) _, run_Routed 3 2 (by decide) (by decide) _⟩

/-- that state is not trivial: every shard has a pending operation; `[1]` is removed but still in the database of
    shard 1, `[2]` is overwritten but the database of shard 2 still has the old value, `[4]` is in no database yet -/
example : ((Sharded.run 3 2 exHist).shards.map (·.ops)) = [[.put [4] [40]], [.del [1]], [.put [2] [21]]] := by decide
example : ((Sharded.run 3 2 exHist).shards.map (·.db)) = [[], [([1], [10]), ([3], [30])], [([2], [20])]] := by decide

example : (Sharded.run 3 2 exHist).get Variant.current [1] = none := by decide
example : (Sharded.run 3 2 exHist).get Variant.current [2] = some [21] := by decide
example : (Sharded.run 3 2 exHist).get Variant.current [3] = some [30] := by decide
example : (Sharded.run 3 2 exHist).get Variant.current [4] = some [40] := by decide
example : (Sharded.run 3 2 exHist).get Variant.current [5] = none := by decide

/-- the reads in the middle of the history, right after the reopen -/
example : (Sharded.run 3 2 (exHist.take 4)).get Variant.current [1] = some [10] ∧
    (Sharded.run 3 2 (exHist.take 4)).get Variant.current [2] = some [20] ∧
    (Sharded.run 3 2 (exHist.take 4)).get Variant.current [3] = some [30] := by decide

/-- RangeKeys: before the flush the pending operations are not visible, after the flush it is exactly the map -/
example : (Sharded.run 3 2 exHist).range = [([1], [10]), ([3], [30]), ([2], [20])] := by decide
example : (Sharded.run 3 2 (exHist ++ [.tick])).range = [([4], [40]), ([3], [30]), ([2], [21])] := by decide
example : (Sharded.run 3 2 (exHist ++ [.reopen])).range = [([4], [40]), ([3], [30]), ([2], [21])] := by decide

/-- the instance of `sharded_run_refines_map` / `sharded_run_range` for this history -/
example (k : Bytes) : (Sharded.run 3 2 exHist).get Variant.current k = (exHist.foldl specStep (fun _ => none)) k :=
  sharded_run_refines_map 3 2 (by decide) (by decide) exHist k

example : ∀ k, alookup k (Sharded.run 3 2 (exHist ++ [.tick])).range = (exHist.foldl specStep (fun _ => none)) k :=
  (sharded_run_range 3 2 (by decide) (by decide) exHist).2

end example_history

/-! ### the routing invariant is needed: `SInv` alone does not make `range` a map -/

/-- two well-formed shards that both hold key `[1]` (which is routed to shard 1) -/
def exMisrouted : Sharded := ⟨2, [P.init 1 [([1], [7])], P.init 1 [([1], [8])]]⟩

example : SInv exMisrouted := by
  refine ⟨by decide, rfl, ?_⟩
  intro p hp
  simp only [exMisrouted, List.mem_cons, List.not_mem_nil, or_false] at hp
  rcases hp with rfl | rfl <;> exact BInv.init 1 _ (by decide) (by decide)

example : ¬ Routed exMisrouted := by
  intro h
  have := h 0 _ rfl [1] (Or.inl (by decide))
  revert this
  decide

example : ¬ ((exMisrouted.flushAll).range.map (·.1)).Nodup := by decide
example : alookup [1] (exMisrouted.flushAll).range = some [7] ∧ exMisrouted.get Variant.current [1] = some [8] := by
  decide

end SV.Persist
