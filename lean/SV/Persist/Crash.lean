/-
  SV.Persist.Crash — crash algebra for the batching persisters (property C10), definitions.

  Engine contract assumed (an explicit hypothesis, built into `crashImage`; NOT proved here): a LevelDB
  `Write(batch, Sync = true)` is all-or-nothing and durable once it returned.  Hence the directory left by a process
  that dies while operation number `i` is in progress contains either the flushed state before that operation or —
  if the operation issued a write and that write survived — the flushed state after it.

  Everything here is computable (the model driver calls `allowedImages` / `imageAllowed` to judge real crash images).
-/
import SV.Persist.Model
import SV.Persist.Proofs
namespace SV.Persist
open SV

/-- the persister after a history, started on an empty directory -/
def run (maxBatch : Nat) (ops : List Op) : P := ops.foldl P.step (P.init maxBatch [])

/-- Put/Remove (the acknowledged writes), as opposed to timer events and close/reopen cycles -/
def Op.isUpdate : Op → Bool
  | .put _ _ => true
  | .rm _ => true
  | .tick => false
  | .reopen => false

/-- what the operation appends to the goleveldb batch -/
def Op.bops : Op → List BOp
  | .put k v => [.put k v.bytes]
  | .rm k => [.del k]
  | .tick => []
  | .reopen => []

/-- does operation `o`, started in state `p`, call LevelDB `Write`?  Put/Remove do when the batch reaches `maxBatch`
    (`updateBatchWithIncrement`); the timer handler and Close always call `putBatch` (possibly with an empty batch,
    in which case the write changes nothing: see `empty_write_no_change`). -/
def issuesWrite (p : P) : Op → Bool
  | .put _ _ => !decide (p.sizeBatch + 1 < p.maxBatch)
  | .rm _ => !decide (p.sizeBatch + 1 < p.maxBatch)
  | .tick => true
  | .reopen => true

/-- the batch that write carries: everything acknowledged since the last flush, in order, including this operation -/
def inflightBatch (p : P) (o : Op) : List BOp := p.ops ++ o.bops

/-- "after `j` operations nothing is pending": the flush boundaries (initial state, after a size-triggered flush,
    after a tick, after a reopen) -/
def Boundary (maxBatch : Nat) (ops : List Op) (j : Nat) : Prop := (run maxBatch (ops.take j)).ops = []

instance (maxBatch : Nat) (ops : List Op) (j : Nat) : Decidable (Boundary maxBatch ops j) :=
  inferInstanceAs (Decidable ((run maxBatch (ops.take j)).ops = []))

/-- the last flush boundary at or before `i` operations -/
def lastBoundary (maxBatch : Nat) (ops : List Op) : Nat → Nat
  | 0 => 0
  | i + 1 => if Boundary maxBatch ops (i + 1) then i + 1 else lastBoundary maxBatch ops i

/-- the on-disk state if the process dies while operation number `i` (0-based) is in progress.  If that operation
    issues a LevelDB write, the write either `survived` (state after the operation) or not (state before it); an
    operation that issues no write, or a crash at the operation boundary after `i` operations (in particular
    `i = ops.length`: after the whole history), leaves the flushed state after `i` operations. -/
def crashImage (maxBatch : Nat) (ops : List Op) (i : Nat) (survived : Bool) : Store :=
  match ops[i]? with
  | some o =>
    if survived && issuesWrite (run maxBatch (ops.take i)) o then (run maxBatch (ops.take (i + 1))).db
    else (run maxBatch (ops.take i)).db
  | none => (run maxBatch (ops.take i)).db

/-- the flush boundary (number of operations) whose state the crash image is -/
def crashPoint (maxBatch : Nat) (ops : List Op) (i : Nat) (survived : Bool) : Nat :=
  match ops[i]? with
  | some o =>
    if survived && issuesWrite (run maxBatch (ops.take i)) o then i + 1 else lastBoundary maxBatch ops i
  | none => lastBoundary maxBatch ops i

/-- the (at most two) stores a crash during operation `i` may leave -/
def allowedImages (maxBatch : Nat) (ops : List Op) (i : Nat) : List Store :=
  match ops[i]? with
  | some o =>
    if issuesWrite (run maxBatch (ops.take i)) o then
      [(run maxBatch (ops.take i)).db, (run maxBatch (ops.take (i + 1))).db]
    else [(run maxBatch (ops.take i)).db]
  | none => [(run maxBatch (ops.take i)).db]

/-- the boundaries those stores correspond to (same order as `allowedImages`) -/
def allowedPoints (maxBatch : Nat) (ops : List Op) (i : Nat) : List Nat :=
  match ops[i]? with
  | some o =>
    if issuesWrite (run maxBatch (ops.take i)) o then [lastBoundary maxBatch ops i, i + 1]
    else [lastBoundary maxBatch ops i]
  | none => [lastBoundary maxBatch ops i]

/-- two association lists denote the same map (a real LevelDB image is enumerated in key order, the model's store is
    in insertion order, so images are compared as maps) -/
def sameMap (a b : Store) : Bool :=
  (a.map (·.1) ++ b.map (·.1)).all fun k => alookup k a == alookup k b

/-- the judgement used by the driver: is the recovered image, as a map, one of the allowed ones? -/
def imageAllowed (maxBatch : Nat) (ops : List Op) (i : Nat) (img : Store) : Bool :=
  (allowedImages maxBatch ops i).any (sameMap img)

end SV.Persist
