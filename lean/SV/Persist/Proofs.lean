/-
  SV.Persist.Proofs — the batching persister behaves as a plain map (C08, C09, C10 logic part),
  the sharded persister as well (C19), and the F8 counter-example for the legacy variant.
-/
import SV.Persist.Model
import SV.ShardProofs
namespace SV.Persist
open SV

/-! ### association lists -/

section alist
variable {β : Type}

theorem alookup_aset_self (k : Bytes) (v : β) (l : List (Bytes × β)) :
    alookup k (aset k v l) = some v := by
  induction l with
  | nil => simp [aset, alookup]
  | cons a r ih =>
    obtain ⟨k', v'⟩ := a
    simp only [aset]
    split
    · simp [alookup]
    · rename_i hne
      simp only [alookup, if_neg hne]
      exact ih

theorem alookup_aset_ne {k k' : Bytes} (hne : k' ≠ k) (v : β) (l : List (Bytes × β)) :
    alookup k' (aset k v l) = alookup k' l := by
  induction l with
  | nil =>
    have : ¬ ((k == k') = true) := by simpa using fun h => hne h.symm
    simp [aset, alookup, this]
  | cons a r ih =>
    obtain ⟨k1, v1⟩ := a
    simp only [aset]
    split
    · rename_i heq
      have h1 : k1 = k := by simpa using heq
      subst h1
      have : ¬ ((k1 == k') = true) := by simpa using fun h => hne h.symm
      simp [alookup, this]
    · simp only [alookup, ih]

theorem alookup_aerase_self (k : Bytes) (l : List (Bytes × β)) :
    alookup k (aerase k l) = none := by
  induction l with
  | nil => simp [aerase, alookup]
  | cons a r ih =>
    obtain ⟨k1, v1⟩ := a
    simp only [aerase]
    split
    · exact ih
    · rename_i hne
      simp only [alookup, if_neg hne]
      exact ih

theorem alookup_aerase_ne {k k' : Bytes} (hne : k' ≠ k) (l : List (Bytes × β)) :
    alookup k' (aerase k l) = alookup k' l := by
  induction l with
  | nil => simp [aerase]
  | cons a r ih =>
    obtain ⟨k1, v1⟩ := a
    simp only [aerase]
    split
    · rename_i heq
      have h1 : k1 = k := by simpa using heq
      subst h1
      have : ¬ ((k1 == k') = true) := by simpa using fun h => hne h.symm
      simp [alookup, this, ih]
    · simp only [alookup, ih]

theorem mem_keys_aset {k x : Bytes} (v : β) (l : List (Bytes × β)) :
    x ∈ (aset k v l).map (·.1) → x = k ∨ x ∈ l.map (·.1) := by
  induction l with
  | nil => simp [aset]
  | cons a r ih =>
    obtain ⟨k1, v1⟩ := a
    simp only [aset]
    split
    · intro h
      simp only [List.map_cons, List.mem_cons] at h ⊢
      rcases h with h | h
      · exact Or.inl h
      · exact Or.inr (Or.inr h)
    · intro h
      simp only [List.map_cons, List.mem_cons] at h ⊢
      rcases h with h | h
      · exact Or.inr (Or.inl h)
      · rcases ih h with h | h
        · exact Or.inl h
        · exact Or.inr (Or.inr h)

theorem nodup_keys_aset (k : Bytes) (v : β) (l : List (Bytes × β)) (h : (l.map (·.1)).Nodup) :
    ((aset k v l).map (·.1)).Nodup := by
  induction l with
  | nil => simp [aset]
  | cons a r ih =>
    obtain ⟨k1, v1⟩ := a
    simp only [List.map_cons, List.nodup_cons] at h
    simp only [aset]
    split
    · rename_i heq
      have h1 : k1 = k := by simpa using heq
      subst h1
      simp only [List.map_cons, List.nodup_cons]
      exact h
    · rename_i hne
      have h1 : k1 ≠ k := by simpa using hne
      simp only [List.map_cons, List.nodup_cons]
      refine ⟨?_, ih h.2⟩
      intro hm
      rcases mem_keys_aset v r hm with hm | hm
      · exact h1 hm
      · exact h.1 hm

theorem mem_keys_aerase {k x : Bytes} (l : List (Bytes × β)) :
    x ∈ (aerase k l).map (·.1) → x ∈ l.map (·.1) := by
  induction l with
  | nil => simp [aerase]
  | cons a r ih =>
    obtain ⟨k1, v1⟩ := a
    simp only [aerase]
    split
    · intro h
      simp only [List.map_cons, List.mem_cons]
      exact Or.inr (ih h)
    · intro h
      simp only [List.map_cons, List.mem_cons] at h ⊢
      rcases h with h | h
      · exact Or.inl h
      · exact Or.inr (ih h)

theorem nodup_keys_aerase (k : Bytes) (l : List (Bytes × β)) (h : (l.map (·.1)).Nodup) :
    ((aerase k l).map (·.1)).Nodup := by
  induction l with
  | nil => simp [aerase]
  | cons a r ih =>
    obtain ⟨k1, v1⟩ := a
    simp only [List.map_cons, List.nodup_cons] at h
    simp only [aerase]
    split
    · exact ih h.2
    · simp only [List.map_cons, List.nodup_cons]
      exact ⟨fun hm => h.1 (mem_keys_aerase r hm), ih h.2⟩

end alist

/-! ### the LevelDB batch -/

theorem applyBatch_snoc (db : Store) (ops : List BOp) (op : BOp) :
    applyBatch db (ops ++ [op]) = applyOp (applyBatch db ops) op := by
  simp [applyBatch, List.foldl_append]

theorem nodup_applyOp (db : Store) (op : BOp) (h : (db.map (·.1)).Nodup) :
    ((applyOp db op).map (·.1)).Nodup := by
  cases op with
  | put k v => exact nodup_keys_aset k v db h
  | del k => exact nodup_keys_aerase k db h

theorem nodup_applyBatch (ops : List BOp) (db : Store) (h : (db.map (·.1)).Nodup) :
    ((applyBatch db ops).map (·.1)).Nodup := by
  induction ops generalizing db with
  | nil => exact h
  | cons op r ih => exact ih _ (nodup_applyOp db op h)

/-! ### the invariant -/

structure BInv (p : P) : Prop where
  disjoint : ∀ k, k ∈ p.removed → alookup k p.cached = none
  /-- replaying the LevelDB batch over db yields exactly the logical map -/
  replay : ∀ k, alookup k (applyBatch p.db p.ops) = p.abs k
  dbNodup : (p.db.map (·.1)).Nodup
  count : p.sizeBatch = p.ops.length
  size : p.sizeBatch < p.maxBatch

/-- the state between the bookkeeping of Put/Remove and `updateBatchWithIncrement` -/
structure Pre (q : P) : Prop where
  disjoint : ∀ k, k ∈ q.removed → alookup k q.cached = none
  replay : ∀ k, alookup k (applyBatch q.db q.ops) = q.abs k
  dbNodup : (q.db.map (·.1)).Nodup
  count : q.sizeBatch + 1 = q.ops.length
  size : q.sizeBatch < q.maxBatch

theorem abs_flush_eq (p : P) (k : Bytes) : p.flush.abs k = alookup k (applyBatch p.db p.ops) := by
  simp [P.abs, P.flush, alookup]

theorem BInv.flush_of (p : P) (hd : (p.db.map (·.1)).Nodup) (hm : 0 < p.maxBatch) : BInv p.flush where
  disjoint := by intro k hk; simp [P.flush] at hk
  replay := by
    intro k
    rw [abs_flush_eq]
    simp [P.flush, applyBatch]
  dbNodup := nodup_applyBatch p.ops p.db hd
  count := by simp [P.flush]
  size := by simpa [P.flush] using hm

theorem Pre.bump (q : P) (h : Pre q) : BInv q.bump := by
  unfold P.bump
  dsimp only
  split
  · rename_i hlt
    exact ⟨h.disjoint, h.replay, h.dbNodup, h.count, hlt⟩
  · have := h.size
    exact BInv.flush_of _ h.dbNodup (by dsimp only; omega)

theorem abs_bump (q : P) (h : Pre q) (k : Bytes) : q.bump.abs k = q.abs k := by
  unfold P.bump
  dsimp only
  split
  · rfl
  · rw [abs_flush_eq]
    exact h.replay k

def putPre (p : P) (k : Bytes) (v : Val) : P :=
  { p with cached := aset k v p.cached, removed := p.removed.filter (· != k), ops := p.ops ++ [.put k v.bytes] }

def rmPre (p : P) (k : Bytes) : P :=
  { p with removed := if p.removed.contains k then p.removed else p.removed ++ [k],
           cached := aerase k p.cached, ops := p.ops ++ [.del k] }

theorem put_eq (p : P) (k : Bytes) (v : Val) : p.put k v = (putPre p k v).bump := rfl
theorem remove_eq (p : P) (k : Bytes) : p.remove k = (rmPre p k).bump := rfl

theorem abs_putPre (p : P) (k k' : Bytes) (v : Val) :
    (putPre p k v).abs k' = if k' = k then some v.bytes else p.abs k' := by
  unfold P.abs putPre
  dsimp only
  by_cases hk : k' = k
  · subst hk
    simp [alookup_aset_self]
  · simp [alookup_aset_ne hk, hk]

theorem mem_rmPre_removed (p : P) (k x : Bytes) :
    x ∈ (rmPre p k).removed ↔ x = k ∨ x ∈ p.removed := by
  unfold rmPre
  dsimp only
  split
  · rename_i hc
    have hc' : k ∈ p.removed := by simpa using hc
    constructor
    · exact Or.inr
    · rintro (h | h)
      · exact h ▸ hc'
      · exact h
  · simp only [List.mem_append, List.mem_singleton]
    constructor
    · rintro (h | h)
      · exact Or.inr h
      · exact Or.inl h
    · rintro (h | h)
      · exact Or.inr h
      · exact Or.inl h

theorem abs_rmPre (p : P) (k k' : Bytes) :
    (rmPre p k).abs k' = if k' = k then none else p.abs k' := by
  have hmem := mem_rmPre_removed p k k'
  unfold P.abs
  by_cases hk : k' = k
  · subst hk
    have : k' ∈ (rmPre p k').removed := hmem.mpr (Or.inl rfl)
    simp [this]
  · have hc : (rmPre p k).cached = aerase k p.cached := rfl
    have hd : (rmPre p k).db = p.db := rfl
    have hr : ((rmPre p k).removed.contains k') = (p.removed.contains k') := by
      rw [Bool.eq_iff_iff]
      simp only [List.contains_iff_mem, hmem]
      constructor
      · rintro (h | h)
        · exact absurd h hk
        · exact h
      · exact Or.inr
    rw [hr, hc, hd, alookup_aerase_ne hk, if_neg hk]

theorem Pre.put (p : P) (k : Bytes) (v : Val) (h : BInv p) : Pre (putPre p k v) where
  disjoint := by
    intro x hx
    have hx' : x ∈ p.removed ∧ x ≠ k := by simpa [putPre, List.mem_filter] using hx
    show alookup x (aset k v p.cached) = none
    rw [alookup_aset_ne hx'.2]
    exact h.disjoint x hx'.1
  replay := by
    intro x
    rw [abs_putPre]
    show alookup x (applyBatch p.db (p.ops ++ [.put k v.bytes])) = _
    rw [applyBatch_snoc]
    show alookup x (aset k v.bytes (applyBatch p.db p.ops)) = _
    by_cases hx : x = k
    · subst hx
      rw [alookup_aset_self, if_pos rfl]
    · rw [alookup_aset_ne hx, if_neg hx]
      exact h.replay x
  dbNodup := h.dbNodup
  count := by
    show p.sizeBatch + 1 = (p.ops ++ [BOp.put k v.bytes]).length
    simp [h.count]
  size := h.size

theorem Pre.remove (p : P) (k : Bytes) (h : BInv p) : Pre (rmPre p k) where
  disjoint := by
    intro x hx
    show alookup x (aerase k p.cached) = none
    rcases (mem_rmPre_removed p k x).mp hx with hx | hx
    · subst hx
      exact alookup_aerase_self _ _
    · by_cases hk : x = k
      · subst hk
        exact alookup_aerase_self _ _
      · rw [alookup_aerase_ne hk]
        exact h.disjoint x hx
  replay := by
    intro x
    rw [abs_rmPre]
    show alookup x (applyBatch p.db (p.ops ++ [.del k])) = _
    rw [applyBatch_snoc]
    show alookup x (aerase k (applyBatch p.db p.ops)) = _
    by_cases hx : x = k
    · subst hx
      rw [alookup_aerase_self, if_pos rfl]
    · rw [alookup_aerase_ne hx, if_neg hx]
      exact h.replay x
  dbNodup := h.dbNodup
  count := by
    show p.sizeBatch + 1 = (p.ops ++ [BOp.del k]).length
    simp [h.count]
  size := h.size

theorem BInv.init (maxBatch : Nat) (db : Store) (hm : 1 ≤ maxBatch) (hd : (db.map (·.1)).Nodup) :
    BInv (P.init maxBatch db) where
  disjoint := by intro k hk; simp [P.init] at hk
  replay := by intro k; simp [P.init, P.abs, applyBatch, alookup]
  dbNodup := hd
  count := rfl
  size := hm

theorem BInv.put (p : P) (k : Bytes) (v : Val) (h : BInv p) : BInv (p.put k v) := by
  rw [put_eq]; exact (Pre.put p k v h).bump

theorem BInv.remove (p : P) (k : Bytes) (h : BInv p) : BInv (p.remove k) := by
  rw [remove_eq]; exact (Pre.remove p k h).bump

theorem BInv.flush (p : P) (h : BInv p) : BInv p.flush :=
  BInv.flush_of p h.dbNodup (Nat.lt_of_le_of_lt (Nat.zero_le _) h.size)

theorem BInv.reopen (p : P) (h : BInv p) : BInv p.reopen :=
  BInv.init _ _ (Nat.lt_of_le_of_lt (Nat.zero_le _) h.size) (BInv.flush p h).dbNodup

/-- C08: Get/Has return the logical map, whatever the batching state -/
theorem get_eq_abs (p : P) (k : Bytes) : p.get Variant.current k = p.abs k := by
  unfold P.get P.abs
  simp [Variant.current]

theorem has_eq_abs (p : P) (k : Bytes) : p.has Variant.current k = (p.abs k).isSome := by
  unfold P.has
  rw [get_eq_abs]

/-- C08: the logical map behaves like a plain map under Put and Remove, for every batch size -/
theorem abs_put (p : P) (k k' : Bytes) (v : Val) (h : BInv p) :
    (p.put k v).abs k' = if k' = k then some v.bytes else p.abs k' := by
  rw [put_eq, abs_bump _ (Pre.put p k v h), abs_putPre]

theorem abs_remove (p : P) (k k' : Bytes) (h : BInv p) :
    (p.remove k).abs k' = if k' = k then none else p.abs k' := by
  rw [remove_eq, abs_bump _ (Pre.remove p k h), abs_rmPre]

/-- C08: a flush (by size or by the timer) never changes what is read -/
theorem abs_flush (p : P) (k : Bytes) (h : BInv p) : p.flush.abs k = p.abs k := by
  rw [abs_flush_eq]; exact h.replay k

/-- C09: Close + reopen yields exactly the same map -/
theorem abs_reopen (p : P) (k : Bytes) (h : BInv p) : p.reopen.abs k = p.abs k := by
  rw [← h.replay k]
  simp [P.reopen, P.init, P.abs, P.flush, alookup]

/-- C09: after a flush RangeKeys enumerates exactly the logical map, each key once -/
theorem range_after_flush (p : P) (h : BInv p) :
    ((p.flush.range).map (·.1)).Nodup ∧ ∀ k, alookup k p.flush.range = p.abs k :=
  ⟨(BInv.flush p h).dbNodup, fun k => h.replay k⟩

/-- C10 (logic part): every acknowledged operation is counted by sizeBatch, and sizeBatch < maxBatch after every
    operation: an acknowledged write is flushed after at most maxBatch − 1 further operations -/
theorem pending_bounded (p : P) (h : BInv p) : p.ops.length < p.maxBatch := by
  rw [← h.count]; exact h.size

/-! ### histories -/

inductive Op where
  | put (k : Bytes) (v : Val) | rm (k : Bytes) | tick | reopen

def P.step (p : P) : Op → P
  | .put k v => p.put k v
  | .rm k => p.remove k
  | .tick => p.flush
  | .reopen => p.reopen

/-- the reference: a plain map -/
def specStep (m : Bytes → Option Bytes) : Op → (Bytes → Option Bytes)
  | .put k v => fun x => if x = k then some v.bytes else m x
  | .rm k => fun x => if x = k then none else m x
  | .tick => m
  | .reopen => m

theorem BInv.step (p : P) (o : Op) (h : BInv p) : BInv (p.step o) := by
  cases o with
  | put k v => exact BInv.put p k v h
  | rm k => exact BInv.remove p k h
  | tick => exact BInv.flush p h
  | reopen => exact BInv.reopen p h

theorem abs_step (p : P) (o : Op) (m : Bytes → Option Bytes) (h : BInv p) (hm : ∀ k, p.abs k = m k) :
    ∀ k, (p.step o).abs k = specStep m o k := by
  intro x
  cases o with
  | put k v => simp only [P.step, specStep, abs_put p k x v h, hm]
  | rm k => simp only [P.step, specStep, abs_remove p k x h, hm]
  | tick => simp only [P.step, specStep, abs_flush p x h, hm]
  | reopen => simp only [P.step, specStep, abs_reopen p x h, hm]

theorem run_refines (ops : List Op) (p : P) (m : Bytes → Option Bytes) (h : BInv p)
    (hm : ∀ k, p.abs k = m k) :
    BInv (ops.foldl P.step p) ∧ ∀ k, (ops.foldl P.step p).abs k = (ops.foldl specStep m) k := by
  induction ops generalizing p m with
  | nil => exact ⟨h, hm⟩
  | cons o r ih => exact ih (p.step o) (specStep m o) (BInv.step p o h) (abs_step p o m h hm)

/-- C08/C09: any history of Put/Remove, timer flushes and close/reopen cycles, any batch size ≥ 1: reads are the reads of a plain map -/
theorem run_refines_map (maxBatch : Nat) (hm : 1 ≤ maxBatch) (ops : List Op) (k : Bytes) :
    (ops.foldl P.step (P.init maxBatch [])).get Variant.current k = (ops.foldl specStep (fun _ => none)) k := by
  rw [get_eq_abs]
  refine (run_refines ops (P.init maxBatch []) (fun _ => none)
    (BInv.init maxBatch [] hm (by simp)) ?_).2 k
  intro x
  simp [P.init, P.abs, alookup]

/-! ### sharded persister -/

/-- sharded persister (C19): every operation on a key goes to one and the same shard, so it behaves as a single map -/
def SInv (s : Sharded) : Prop := 2 ≤ s.n ∧ s.shards.length = s.n ∧ ∀ p ∈ s.shards, BInv p

theorem idx_lt (s : Sharded) (k : Bytes) (h : SInv s) : s.idx k < s.shards.length := by
  rw [h.2.1]; exact Shard.computeId_lt s.n k h.1

theorem shard_mem (s : Sharded) (k : Bytes) (h : SInv s) : s.shard k ∈ s.shards := by
  have hlt := idx_lt s k h
  unfold Sharded.shard
  rw [List.getElem?_eq_getElem hlt]
  exact List.getElem_mem hlt

theorem shard_upd (s : Sharded) (k k' : Bytes) (f : P → P) (h : SInv s) :
    (s.upd k f).shard k' = if s.idx k' = s.idx k then f (s.shard k) else s.shard k' := by
  have hlt := idx_lt s k h
  have hidx : (s.upd k f).idx k' = s.idx k' := rfl
  unfold Sharded.shard
  rw [hidx]
  show ((s.shards.set (s.idx k) (f (s.shard k)))[s.idx k']?).getD _ = _
  split
  · rename_i heq
    rw [heq, List.getElem?_set_self hlt]
    rfl
  · rename_i hne
    rw [List.getElem?_set_ne (fun e => hne e.symm)]

theorem SInv.upd (s : Sharded) (k : Bytes) (f : P → P) (h : SInv s) (hf : BInv (f (s.shard k))) :
    SInv (s.upd k f) := by
  refine ⟨h.1, ?_, ?_⟩
  · show (s.shards.set _ _).length = s.n
    rw [List.length_set]; exact h.2.1
  · intro p hp
    rcases List.mem_or_eq_of_mem_set hp with hp | hp
    · exact h.2.2 p hp
    · exact hp ▸ hf

theorem SInv.init (n maxBatch : Nat) (hn : 2 ≤ n) (hm : 1 ≤ maxBatch) : SInv (Sharded.init n maxBatch) := by
  refine ⟨hn, by simp [Sharded.init], ?_⟩
  intro p hp
  have : p = P.init maxBatch [] := (List.mem_replicate.mp hp).2
  subst this
  exact BInv.init maxBatch [] hm (by simp)

theorem SInv.put (s : Sharded) (k : Bytes) (v : Val) (h : SInv s) : SInv (s.put k v) :=
  SInv.upd s k _ h (BInv.put _ k v (h.2.2 _ (shard_mem s k h)))

theorem SInv.remove (s : Sharded) (k : Bytes) (h : SInv s) : SInv (s.remove k) :=
  SInv.upd s k _ h (BInv.remove _ k (h.2.2 _ (shard_mem s k h)))

theorem shard_congr (s : Sharded) (k k' : Bytes) (he : s.idx k' = s.idx k) : s.shard k' = s.shard k := by
  unfold Sharded.shard; rw [he]

theorem sharded_get_put (s : Sharded) (k k' : Bytes) (v : Val) (h : SInv s) :
    (s.put k v).get Variant.current k' = if k' = k then some v.bytes else s.get Variant.current k' := by
  unfold Sharded.get Sharded.put
  rw [shard_upd s k k' _ h]
  split
  · rename_i he
    rw [get_eq_abs, get_eq_abs, abs_put _ k k' v (h.2.2 _ (shard_mem s k h)), shard_congr s k k' he]
  · rename_i hne
    have : k' ≠ k := fun e => hne (e ▸ rfl)
    rw [if_neg this]

theorem sharded_get_remove (s : Sharded) (k k' : Bytes) (h : SInv s) :
    (s.remove k).get Variant.current k' = if k' = k then none else s.get Variant.current k' := by
  unfold Sharded.get Sharded.remove
  rw [shard_upd s k k' _ h]
  split
  · rename_i he
    rw [get_eq_abs, get_eq_abs, abs_remove _ k k' (h.2.2 _ (shard_mem s k h)), shard_congr s k k' he]
  · rename_i hne
    have : k' ≠ k := fun e => hne (e ▸ rfl)
    rw [if_neg this]

/-- F8 (pre-repair): a nil value in the pending batch read as "absent" -/
theorem legacy_nil_counterexample :
    ∃ (p : P) (k : Bytes), (p.put k ⟨true, []⟩).get Variant.legacy k ≠ (p.put k ⟨true, []⟩).abs k :=
  ⟨P.init 2 [], [], by decide⟩

end SV.Persist
