/-
  SV.Persist.Model — sequential model of the persisters: leveldb.DB, leveldb.SerialDB (batching over goleveldb),
  memorydb.DB and sharded.shardedPersister.

  goleveldb is modelled by its contract: `db` is the map of applied writes; `Write(batch)` applies the batch's
  operations in order, atomically; Get/Has/NewIterator read `db`; Close/reopen preserve `db`.
-/
import SV.Common
import SV.Shard
namespace SV.Persist

structure Variant where
  nilReadsAbsent : Bool   -- F8: a nil value in the pending batch is indistinguishable from "not in the batch"
  deriving Repr, DecidableEq

def Variant.legacy : Variant := ⟨true⟩
def Variant.current : Variant := ⟨false⟩

/-- a value as passed to Put: `isNil` distinguishes Go's nil slice from an empty non-nil one (same content) -/
structure Val where
  isNil : Bool
  bytes : Bytes
  deriving Repr, DecidableEq

/-- one operation recorded in a goleveldb batch -/
inductive BOp
  | put (k : Bytes) (v : Bytes)
  | del (k : Bytes)
  deriving Repr, DecidableEq

abbrev Store := List (Bytes × Bytes)

def applyOp (db : Store) : BOp → Store
  | .put k v => aset k v db
  | .del k => aerase k db

/-- `db.Write(batch)` -/
def applyBatch (db : Store) (ops : List BOp) : Store := ops.foldl applyOp db

/-- batching persister (leveldb.DB / leveldb.SerialDB, sequential behaviour is the same) -/
structure P where
  maxBatch : Nat
  cached : List (Bytes × Val)   -- batch.cachedData
  removed : List Bytes          -- batch.removedData
  ops : List BOp                -- the goleveldb batch itself, in order
  sizeBatch : Nat
  db : Store
  deriving Repr

def P.init (maxBatch : Nat) (db : Store) : P := ⟨maxBatch, [], [], [], 0, db⟩

/-- `putBatch` + `batch.Reset()` -/
def P.flush (p : P) : P :=
  { p with db := applyBatch p.db p.ops, cached := [], removed := [], ops := [], sizeBatch := 0 }

/-- `updateBatchWithIncrement` -/
def P.bump (p : P) : P :=
  let p := { p with sizeBatch := p.sizeBatch + 1 }
  if p.sizeBatch < p.maxBatch then p else p.flush

def P.put (p : P) (k : Bytes) (v : Val) : P :=
  P.bump { p with cached := aset k v p.cached, removed := p.removed.filter (· != k), ops := p.ops ++ [.put k v.bytes] }

def P.remove (p : P) (k : Bytes) : P :=
  P.bump { p with removed := if p.removed.contains k then p.removed else p.removed ++ [k],
                  cached := aerase k p.cached, ops := p.ops ++ [.del k] }

/-- `Get`: removed → not found; cached → value; else the database -/
def P.get (vr : Variant) (p : P) (k : Bytes) : Option Bytes :=
  if p.removed.contains k then none
  else
    match alookup k p.cached with
    | some v => if vr.nilReadsAbsent && v.isNil then alookup k p.db else some v.bytes
    | none => alookup k p.db

def P.has (vr : Variant) (p : P) (k : Bytes) : Bool := (p.get vr k).isSome

/-- `Close` then a fresh constructor on the same path -/
def P.reopen (p : P) : P := P.init p.maxBatch p.flush.db

/-- `RangeKeys`: the flushed state, each key once -/
def P.range (p : P) : Store := p.db

/-- the abstraction: the logical map a persister stands for -/
def P.abs (p : P) (k : Bytes) : Option Bytes :=
  if p.removed.contains k then none
  else match alookup k p.cached with
    | some v => some v.bytes
    | none => alookup k p.db

/-! ### sharded persister -/

structure Sharded where
  n : Nat
  shards : List P
  deriving Repr

def Sharded.init (n maxBatch : Nat) : Sharded := ⟨n, List.replicate n (P.init maxBatch [])⟩
def Sharded.idx (s : Sharded) (k : Bytes) : Nat := Shard.computeId s.n k
def Sharded.shard (s : Sharded) (k : Bytes) : P := (s.shards[s.idx k]?).getD (P.init 1 [])
def Sharded.upd (s : Sharded) (k : Bytes) (f : P → P) : Sharded := { s with shards := s.shards.set (s.idx k) (f (s.shard k)) }
def Sharded.put (s : Sharded) (k : Bytes) (v : Val) : Sharded := s.upd k (·.put k v)
def Sharded.remove (s : Sharded) (k : Bytes) : Sharded := s.upd k (·.remove k)
def Sharded.get (vr : Variant) (s : Sharded) (k : Bytes) : Option Bytes := (s.shard k).get vr k
def Sharded.flushAll (s : Sharded) : Sharded := { s with shards := s.shards.map P.flush }
def Sharded.reopen (s : Sharded) : Sharded := { s with shards := s.shards.map P.reopen }
def Sharded.range (s : Sharded) : Store := s.shards.flatMap P.range

/-! ### memorydb -/

abbrev Mem := Store
def Mem.put (m : Mem) (k : Bytes) (v : Val) : Mem := aset k v.bytes m
def Mem.remove (m : Mem) (k : Bytes) : Mem := aerase k m
def Mem.get (m : Mem) (k : Bytes) : Option Bytes := alookup k m

end SV.Persist
