import SV.Common
import SV.Shard
import Driver.TxCacheDrv
import Driver.ImmunityDrv
import Driver.LRUDrv
import Driver.PersistDrv
import Driver.MiscDrv
import Driver.ConcDrv
open SV

def tokens (line : String) : List String :=
  (line.splitOn " ").filter (· ≠ "")

/-- one line in, one line out -/
def shardStep (toks : List String) : String :=
  match toks with
  | ["masks", n] =>
    match n.toNat? with
    | some n => s!"{Shard.maskHigh n} {Shard.maskLow n} {Shard.bytesNeeded n}"
    | none => "bad-op"
  | "begin" :: _ => "ok"
  | ["onto", n] =>
    match n.toNat? with
    | some n => toString (Shard.ontoCount n)
    | none => "bad-op"
  | ["maskseg", a, b] =>
    match a.toNat?, b.toNat? with
    | some a, some b => Shard.showSegs (Shard.mergeSegs (Shard.segs 64 a b))
    | _, _ => "bad-op"
  | ["id", n, k] =>
    match n.toNat?, parseHex k with
    | some n, some k => toString (Shard.computeId n k)
    | _, _ => "bad-op"
  | _ => "bad-op"

partial def loopStateless (h : IO.FS.Stream) (out : IO.FS.Stream) (f : List String → String) : IO Unit := do
  let line ← h.getLine
  if line.isEmpty then return ()
  let toks := tokens (line.trimAscii.toString)
  out.putStrLn (f toks)
  loopStateless h out f

partial def loopState {σ : Type} (h : IO.FS.Stream) (out : IO.FS.Stream) (f : σ → List String → σ × String) (st : σ) : IO Unit := do
  let line ← h.getLine
  if line.isEmpty then return ()
  let toks := tokens (line.trimAscii.toString)
  if toks.isEmpty || line.startsWith "#" then loopState h out f st
  else
    let (st', o) := f st toks
    out.putStrLn o
    loopState h out f st'

def main (args : List String) : IO UInt32 := do
  let stdin ← IO.getStdin
  let stdout ← IO.getStdout
  match args with
  | ["txcache"] => loopState stdin stdout Drv.TxCache.step {}; return 0
  | ["immunity"] => loopState stdin stdout Drv.Immunity.step {}; return 0
  | ["lru"] => loopState stdin stdout Drv.LRU.step {}; return 0
  | ["persist"] => loopState stdin stdout Drv.Persist.step {}; return 0
  | ["adapter"] => loopState stdin stdout Drv.Misc.aStep {}; return 0
  | ["unit"] => loopState stdin stdout Drv.Misc.uStep SV.Unit.U.init; return 0
  | ["fifo"] => loopState stdin stdout Drv.Misc.fStep (SV.Fifo.RCache.init 2 1); return 0
  | ["timecache"] => loopState stdin stdout Drv.Misc.tStep {}; return 0
  | ["concp"] => loopState stdin stdout Drv.Conc.step {}; return 0
  | ["concclose"] => loopState stdin stdout Drv.Conc.step {}; return 0
  | ["crash"] => loopState stdin stdout Drv.Crash.step {}; return 0
  | ["conc14"] => loopStateless stdin stdout (fun toks => match toks with | "begin" :: _ => "ok" | ["stress", tg, seed, _, _, procs] => "ran:" ++ tg ++ ":" ++ seed ++ ":" ++ procs | _ => "bad-op"); return 0
  | ["shard"] => loopStateless stdin stdout shardStep; return 0
  | _ => IO.eprintln "usage: svdriver <component>"; return 2
