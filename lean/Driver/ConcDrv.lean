import SV.Common
import SV.Conc.PersistConc
open SV SV.Persist SV.Conc

namespace Drv.Conc

structure St where
  p : P := P.init 1 []
  progs : List (Nat × List Op) := []
  keys : List Bytes := []

def kvGet (toks : List String) (k : String) : Option String :=
  toks.findSome? fun t =>
    match t.splitOn "=" with
    | [a, b] => if a = k then some b else none
    | _ => none

def natOf (s : Option String) : Nat := (s.bind String.toNat?).getD 0

def parseOp (s : String) : Option Op :=
  match s.splitOn ":" with
  | ["put", k, v] => do let k ← parseHex k; let v ← parseHex v; pure (.put k v)
  | ["rm", k] => do let k ← parseHex k; pure (.rm k)
  | ["get", k] => do let k ← parseHex k; pure (.get k)
  | _ => none

def showOp : Op → String
  | .put k v => "put:" ++ toHex k ++ ":" ++ toHex v
  | .rm k => "rm:" ++ toHex k
  | .get k => "get:" ++ toHex k

def showRes : Op → Option Bytes → String
  | .get _, some v => toHex v
  | .get _, none => "!"
  | _, _ => "-"

/-- run one thread to completion (sequential execution of its remaining blocks) -/
def finishThread : Nat → Cfg → Nat → Cfg × List Ev
  | 0, c, _ => (c, [])
  | fuel + 1, c, t =>
    match c.threads[t]?, c.cur[t]? with
    | some th, some cur =>
      if th.todo.isEmpty && cur.isNone then (c, [])
      else
        let (c', evs) := c.step t
        let (c'', evs') := finishThread fuel c' t
        (c'', evs ++ evs')
    | _, _ => (c, [])

def results (evs : List Ev) (t : Nat) : List String :=
  evs.filterMap fun e =>
    match e with
    | .ret t' op r => if t' = t then some (showOp op ++ "=" ++ showRes op r) else none
    | _ => none

def finalDump (p : P) (keys : List Bytes) : String :=
  ",".intercalate (keys.map fun k => toHex k ++ "=" ++ (match p.get Variant.current k with | some v => toHex v | none => "!"))

def step (st : St) (toks : List String) : St × String :=
  match toks with
  | "begin" :: rest =>
    let keys := ((kvGet rest "keys").getD "").splitOn "," |>.filterMap fun x => if x = "" then none else parseHex x
    ({ p := P.init (natOf (kvGet rest "batch")) [], keys := keys }, "ok")
  | ["seq", o] =>
    match parseOp o with
    | some op =>
      let c : Cfg := ⟨st.p, [⟨[op], .idle⟩], [none]⟩
      let (c', evs) := finishThread 4 c 0
      let r := evs.findSome? fun e => match e with | .ret _ op r => some (showRes op r) | _ => none
      ({ st with p := c'.p }, r.getD "?")
    | none => (st, "bad-op")
  | ["prog", t, ops] =>
    match t.toNat? with
    | some t =>
      let l := (ops.splitOn ";").filterMap fun x => if x = "" then none else parseOp x
      ({ st with progs := (st.progs.filter (·.1 != t)) ++ [(t, l)] }, "ok")
    | none => (st, "bad-op")
  | "sched" :: sched =>
    let n := st.progs.foldl (fun m x => max m (x.1 + 1)) 0
    let progs := (List.range n).map fun t => ((st.progs.find? (·.1 == t)).map (·.2)).getD []
    let c0 : Cfg := ⟨st.p, progs.map (⟨·, .idle⟩), progs.map (fun _ => none)⟩
    let (c1, evs1) := sched.foldl (fun (acc : Cfg × List Ev) s =>
      match s.toNat? with
      | some t => if t < n then let (c', e) := acc.1.step t; (c', acc.2 ++ e) else acc
      | none => acc) (c0, [])
    let (c2, evs2) := (List.range n).foldl (fun (acc : Cfg × List Ev) t =>
      let (c', e) := finishThread 64 acc.1 t; (c', acc.2 ++ e)) (c1, evs1)
    let parts := (List.range n).map fun t => s!"t{t}=[{",".intercalate (results evs2 t)}] "
    ({ st with p := c2.p, progs := [] }, String.join parts ++ "final=" ++ finalDump c2.p st.keys)
  | "window" :: _ => (st, "-")
  | "timerwindow" :: _ => (st, "-")
  | "stress" :: _ => (st, "-")
  | "wseq" :: _ => (st, "-")
  | _ => (st, "bad-op")

end Drv.Conc
