import SV.Common
import SV.Persist.Model
import SV.Persist.Crash
open SV SV.Persist

namespace Drv.Persist

inductive Obj
  | single (p : P)
  | sharded (s : Sharded)

structure St where
  v : Variant := Variant.current
  o : Obj := .single (P.init 1 [])
  keys : List Bytes := []

def kvGet (toks : List String) (k : String) : Option String :=
  toks.findSome? fun t =>
    match t.splitOn "=" with
    | [a, b] => if a = k then some b else none
    | _ => none

def natOf (s : Option String) : Nat := (s.bind String.toNat?).getD 0

/-- values: hex, or `rep:<n>:<byte>` for a run of n equal bytes (the "large value" inputs of the histories) -/
def parseHexV (s : String) : Option Bytes :=
  if s.startsWith "rep:" then
    match s.splitOn ":" with
    | [_, n, bb] => do
      let n ← n.toNat?
      match ← parseHex bb with
      | [x] => pure (List.replicate n x)
      | _ => none
    | _ => none
  else parseHex s

def toHexV (b : Bytes) : String :=
  match b with
  | x :: rest => if b.length ≥ 256 && rest.all (· == x) then s!"rep:{b.length}:{toHex [x]}" else toHex b
  | [] => toHex b

def parseVal (s : String) : Option Val :=
  if s = "nil" then some ⟨true, []⟩ else (parseHexV s).map (⟨false, ·⟩)

def Obj.get (v : Variant) : Obj → Bytes → Option Bytes
  | .single p, k => p.get v k
  | .sharded s, k => s.get v k

def showOpt (o : Option Bytes) : String := match o with | some b => toHexV b | none => "!"

/-- canonical dump: Get/Has of every key of the history's alphabet -/
def dump (st : St) : String :=
  ",".intercalate (st.keys.map fun k => toHex k ++ "=" ++ showOpt (st.o.get st.v k))

def showStore (s : Store) : String :=
  let ks := sortBytes (s.map (·.1))
  "[" ++ ",".intercalate (ks.map fun k => toHex k ++ "=" ++ showOpt (alookup k s)) ++ "]"

def step (st : St) (toks : List String) : St × String :=
  match toks with
  | "begin" :: rest =>
    let v := if kvGet rest "legacy" = some "1" then Variant.legacy else Variant.current
    let mb := if kvGet rest "kind" = some "mem" then 1 else natOf (kvGet rest "batch")
    let n := natOf (kvGet rest "shards")
    let keys := ((kvGet rest "keys").getD "").splitOn "," |>.filterMap fun x => if x = "" then none else parseHex x
    ({ v := v, o := if n ≥ 2 then .sharded (Sharded.init n mb) else .single (P.init mb []), keys := keys }, "ok")
  | ["put", k, val] =>
    match parseHex k, parseVal val with
    | some k, some val =>
      let st := { st with o := match st.o with | .single p => .single (p.put k val) | .sharded s => .sharded (s.put k val) }
      (st, dump st)
    | _, _ => (st, "bad-op")
  | ["rm", k] =>
    match parseHex k with
    | some k =>
      let st := { st with o := match st.o with | .single p => .single (p.remove k) | .sharded s => .sharded (s.remove k) }
      (st, dump st)
    | none => (st, "bad-op")
  | ["tick"] =>
    let st := { st with o := match st.o with | .single p => .single p.flush | .sharded s => .sharded s.flushAll }
    (st, dump st)
  | ["tickput", k, val] =>   -- a Put issued during a timer flush: the outcome of `tick` then `put`
    match parseHex k, parseVal val with
    | some k, some val =>
      let st := { st with o := match st.o with | .single p => .single (p.flush.put k val) | .sharded s => .sharded (s.flushAll.put k val) }
      (st, dump st)
    | _, _ => (st, "bad-op")
  | ["reopen"] =>
    let st := { st with o := match st.o with | .single p => .single p.reopen | .sharded s => .sharded s.reopen }
    (st, dump st)
  | ["destroy"] =>   -- Close, DestroyClosed, a new persister at the same path: an empty map of the same configuration
    let st := { st with o := match st.o with
      | .single p => .single (P.init p.maxBatch [])
      | .sharded s => .sharded (Sharded.init s.n ((s.shards.head?.map (·.maxBatch)).getD 1)) }
    (st, dump st)
  | ["range"] =>
    (st, match st.o with | .single p => showStore p.range | .sharded s => showStore s.range)
  | _ => (st, "bad-op")

end Drv.Persist

namespace Drv.Crash
open Drv.Persist

/-- the driver keeps the history so far; every judgement is made by the PROVEN functions of SV.Persist.Crash
    (`imageAllowed`, sound by `imageAllowed_sound`: an accepted image is, as a map, exactly the plain-map state at a flush
    boundary j ≤ i+1 that is at least every boundary ≤ i) -/
structure St where
  mb : Nat := 1
  ops : List Op := []

/-- parse `[k=v,k=v]` (the harness's dump of a recovered directory) -/
def parseStore (s : String) : Option Store :=
  let body := ((s.drop 1).toString.dropEnd 1).toString
  if body = "" then some [] else
  (body.splitOn ",").mapM fun kv =>
    match kv.splitOn "=" with
    | [k, v] => do let k ← parseHex k; let v ← parseHexV v; pure (k, v)
    | _ => none

/-- images taken WHILE operation `i` was in progress must be allowed for a crash during `i`; an image taken at the
    operation boundary after it (prefix `B`) must be the state after `i + 1` operations -/
def verdicts (mb : Nat) (ops : List Op) (i : Nat) (imgs : List String) : String :=
  let vs := imgs.map fun img =>
    if img.startsWith "B" then
      match parseStore (img.drop 1).toString with
      | some st => if imageAllowed mb ops (i + 1) st then "allowed"
                   else "NOTALLOWED-boundary:" ++ img ++ "-expected:" ++ showStore (crashImage mb ops (i + 1) false)
      | none => "BADIMG:" ++ img
    else
      match parseStore img with
      | some st => if imageAllowed mb ops i st then "allowed" else "NOTALLOWED:" ++ img
      | none => "BADIMG:" ++ img
  " ".intercalate vs

def imgsOf (toks : List String) : List String :=
  match toks.findSome? (fun t => if t.startsWith "img=" then some (t.drop 4).toString else none) with
  | some s => if s = "" then [] else s.splitOn ";"
  | none => []

def exec (st : St) (o : Op) (toks : List String) : St × String :=
  let ops := st.ops ++ [o]
  ({ st with ops := ops }, "ok " ++ verdicts st.mb ops st.ops.length (imgsOf toks))

def step (st : St) (toks : List String) : St × String :=
  match toks with
  | "begin" :: rest => ({ mb := natOf (kvGet rest "batch"), ops := [] }, "ok")
  | "put" :: k :: v :: _ =>
    match parseHex k, parseVal v with
    | some k, some v => exec st (.put k v) toks
    | _, _ => (st, "bad-op")
  | "rm" :: k :: _ =>
    match parseHex k with
    | some k => exec st (.rm k) toks
    | none => (st, "bad-op")
  | "tick" :: _ => exec st .tick toks
  | "close" :: _ => exec st .tick toks
  | "reopen" :: _ => exec st .reopen toks
  | _ => (st, "bad-op")

end Drv.Crash
