import SV.Common
import SV.Immunity.Model
open SV SV.Immunity

namespace Drv.Immunity

structure St where
  v : Variant := Variant.current
  cache : Cache := Cache.init ⟨1, 4, 4, 1⟩

def kvGet (toks : List String) (k : String) : Option String :=
  toks.findSome? fun t =>
    match t.splitOn "=" with
    | [a, b] => if a = k then some b else none
    | _ => none

def natOf (s : Option String) : Nat := (s.bind String.toNat?).getD 0

def dump (st : St) : String :=
  let c := st.cache
  let its := c.items
  let keys := sortBytes (its.map (·.key))
  let pays := keys.map fun k => toHex k ++ ":" ++ toHex ((c.get k).getD [])
  s!"count={c.count} bytes={c.numBytes} immune={c.countImmune} items=[{",".intercalate pays}]"

def step (st : St) (toks : List String) : St × String :=
  match toks with
  | "begin" :: rest =>
    let cfg : Config := ⟨natOf (kvGet rest "chunks"), natOf (kvGet rest "items"), natOf (kvGet rest "bytes"), natOf (kvGet rest "n")⟩
    ({ v := if kvGet rest "legacy" = some "1" then Variant.legacy else Variant.current, cache := Cache.init cfg }, "ok")
  | [op, k, p, sz] =>
    if op = "hoa" || op = "put" then
      match parseHex k, parseHex p, sz.toInt? with
      | some k, some p, some sz =>
        let (c, has, added) := st.cache.hasOrAdd st.v k p sz
        let st := { st with cache := c }
        if op = "hoa" then (st, boolStr has ++ " " ++ boolStr added ++ " | " ++ dump st) else (st, "| " ++ dump st)
      | _, _, _ => (st, "bad-op")
    else (st, "bad-op")
  | ["rm", k] =>
    match parseHex k with
    | some k =>
      let (c, r) := st.cache.remove k
      let st := { st with cache := c }
      (st, boolStr r ++ " | " ++ dump st)
    | none => (st, "bad-op")
  | ["imm", ks] =>
    let keys := (ks.splitOn ",").filterMap fun x => if x = "" then none else parseHex x
    let (c, now, fut) := st.cache.immunizeKeys keys
    let st := { st with cache := c }
    (st, s!"{now} {fut} | " ++ dump st)
  | ["clear"] =>
    let st := { st with cache := st.cache.clear }
    (st, "| " ++ dump st)
  | _ => (st, "bad-op")

end Drv.Immunity
