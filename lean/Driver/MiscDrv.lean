import SV.Common
import SV.Misc.Adapter
import SV.Misc.Unit
import SV.Misc.Fifo
import SV.Misc.FifoRingCache
import SV.Misc.TimeCache
import SV.Misc.TimeCacheMore
open SV

namespace Drv.Misc

def kvGet (toks : List String) (k : String) : Option String :=
  toks.findSome? fun t =>
    match t.splitOn "=" with
    | [a, b] => if a = k then some b else none
    | _ => none

def natOf (s : Option String) : Nat := (s.bind String.toNat?).getD 0

def hexCsv (s : String) : List Bytes := (s.splitOn ",").filterMap fun x => if x = "" then none else parseHex x

def showKV (l : List (Bytes × Bytes)) : String :=
  let ks := sortBytes (l.map (·.1))
  "[" ++ ",".intercalate (ks.map fun k => toHex k ++ "=" ++ toHex ((alookup k l).getD [])) ++ "]"

def optHex (o : Option Bytes) : String := match o with | some b => "some:" ++ toHex b | none => "none"

/-! adapter -/
structure ASt where
  a : Adapter.A := ⟨LRU.Cap.init 1 1, []⟩
  v : LRU.Variant := LRU.Variant.current
  stored : Int := 0

def aDump (st : ASt) : String := s!"mem={hexList st.a.mem.keys} db={showKV st.a.db}"

def aStep (st : ASt) (toks : List String) : ASt × String :=
  match toks with
  | "begin" :: rest =>
    ({ a := ⟨LRU.Cap.init (natOf (kvGet rest "cap")) (natOf (kvGet rest "bytes")), []⟩,
       v := if kvGet rest "legacy" = some "1" then LRU.Variant.legacy else LRU.Variant.current }, "ok")
  | ["put", k, v, sz] =>
    match parseHex k, parseHex v, sz.toInt? with
    | some k, some v, some sz =>
      let (x, sp) := (Adapter.AL.mk st.a st.stored).put st.v k v sz
      let st := { st with a := x.a, stored := x.stored }
      (st, boolStr sp ++ " | " ++ aDump st)
    | _, _, _ => (st, "bad-op")
  | ["hoa", k, v, sz] =>
    match parseHex k, parseHex v, sz.toInt? with
    | some k, some v, some sz =>
      let (x, has, sp) := (Adapter.AL.mk st.a st.stored).hasOrAdd st.v k v sz
      let st := { st with a := x.a, stored := x.stored }
      (st, boolStr has ++ boolStr sp ++ " | " ++ aDump st)
    | _, _, _ => (st, "bad-op")
  | ["rm", k] =>
    match parseHex k with
    | some k =>
      let x := (Adapter.AL.mk st.a st.stored).remove k
      let st := { st with a := x.a, stored := x.stored }
      (st, aDump st)
    | none => (st, "bad-op")
  | ["clear"] => let st := { st with a := st.a.clear }; (st, aDump st)
  | ["len"] => (st, toString (Adapter.AL.mk st.a st.stored).len)
  | ["keys"] => (st, hexList (sortBytes st.a.keys))
  | ["get", k] =>
    match parseHex k with
    | some k => let (a, r) := st.a.get k; let st := { st with a := a }; (st, optHex r ++ " | " ++ aDump st)
    | none => (st, "bad-op")
  | ["has", k] =>
    match parseHex k with
    | some k => (st, boolStr (st.a.has k) ++ " | " ++ aDump st)
    | none => (st, "bad-op")
  | ["peek", k] =>
    match parseHex k with
    | some k => (st, optHex (st.a.peek k) ++ " | " ++ aDump st)
    | none => (st, "bad-op")
  | _ => (st, "bad-op")

/-! storage unit -/
def uDump (u : Unit.U) : String := s!"cache={showKV u.cache}"

def uStep (u : Unit.U) (toks : List String) : Unit.U × String :=
  let keep := hexCsv ((kvGet toks "keep").getD "")
  match toks with
  | "begin" :: _ => (Unit.U.init, "ok")
  | "put" :: k :: v :: f :: _ =>
    match parseHex k, parseHex v with
    | some k, some v => let (u, ok) := u.put k v (f = "1") keep; (u, (if ok then "ok" else "err") ++ " | " ++ uDump u)
    | _, _ => (u, "bad-op")
  | "get" :: k :: f :: _ =>
    match parseHex k with
    | some k => let (u, r) := u.get k (f = "1") keep; (u, (match r with | some b => toHex b | none => "!") ++ " | " ++ uDump u)
    | none => (u, "bad-op")
  | "has" :: k :: _ =>
    match parseHex k with
    | some k => (u, boolStr (u.has k))
    | none => (u, "bad-op")
  | "rm" :: k :: f :: _ =>
    match parseHex k with
    | some k => let (u, ok) := u.remove k (f = "1"); (u, (if ok then "ok" else "err") ++ " | " ++ uDump u)
    | none => (u, "bad-op")
  | "clearcache" :: _ => let u := u.clearCache; (u, "| " ++ uDump u)
  | "bulk" :: ks :: _ =>
    let keys := hexCsv ks
    let all := keys ++ u.cache.map (·.1)
    let (u, res) := keys.foldl (fun (acc : Unit.U × List String) k =>
      let (u', r) := acc.1.get k false (all ++ acc.1.cache.map (·.1))
      (u', match r with | some b => acc.2 ++ [toHex k ++ "=" ++ toHex b] | none => acc.2)) (u, [])
    let u := { u with cache := Unit.restrict keep u.cache }
    (u, "[" ++ ",".intercalate res ++ "] | " ++ uDump u)
  | _ => (u, "bad-op")

/-! fifo -/
def showInv (l : List (String × Bytes × Bytes)) : String :=
  let ids := l.map (fun x => x.1 ++ ":" ++ toHex x.2.1 ++ ":" ++ toHex x.2.2)
  "h=[" ++ ",".intercalate (ids.toArray.qsort (· < ·)).toList ++ "]"

/-- the driver runs the FAITHFUL ring model (SV.Misc.FifoRingCache: slot arrays with `idxAdd`, transcribed from
    concurrent-map) — by `crun_init` it refines the age-ordered model the C20 theorems are stated on -/
def fDump (c : Fifo.RCache) : String :=
  let ks := if c.n = 1 then (c.keysPerShard.flatten) else sortBytes c.keysPerShard.flatten
  s!"keys={hexList ks} len={c.len}"

def fStep (c : Fifo.RCache) (toks : List String) : Fifo.RCache × String :=
  match toks with
  | "begin" :: rest => (Fifo.RCache.init (natOf (kvGet rest "size")) (natOf (kvGet rest "shards")), "ok")
  | ["put", k, v] =>
    match parseHex k, parseHex v with
    | some k, some v => let (c, inv) := c.put k v; (c, "| " ++ fDump c ++ " | " ++ showInv inv)
    | _, _ => (c, "bad-op")
  | ["hoa", k, v] =>
    match parseHex k, parseHex v with
    | some k, some v => let (c, has, added, inv) := c.hasOrAdd k v; (c, boolStr has ++ " " ++ boolStr added ++ " | " ++ fDump c ++ " | " ++ showInv inv)
    | _, _ => (c, "bad-op")
  | ["get", k] =>
    match parseHex k with
    | some k => (c, optHex (c.get k) ++ " | " ++ fDump c)
    | none => (c, "bad-op")
  | ["rm", k] =>
    match parseHex k with
    | some k => let c := c.remove k; (c, "| " ++ fDump c)
    | none => (c, "bad-op")
  | ["clear"] => let c := c.clear; (c, "| " ++ fDump c)
  | ["reg", id] => ({ c with handlers := if c.handlers.contains id then c.handlers else c.handlers ++ [id] }, "ok")
  | ["unreg", id] => ({ c with handlers := c.handlers.filter (· != id) }, "ok")
  | _ => (c, "bad-op")

/-! time caches: two exact models bracket the unknown clock readings.
    `must`: a key is here only if it is certainly present (entries stamped with the EARLIEST possible reading, sweeps
    evaluated at the LATEST); `may`: a key is here if it is possibly present (the other way round). -/
structure TSt where
  must : TimeCache.TC := []
  may : TimeCache.TC := []
  defSpan : Nat := 0

def tv (st : TSt) (k : Bytes) : String :=
  if TimeCache.has st.must k then "1" else if TimeCache.has st.may k then "?" else "0"

def tStep (st : TSt) (toks : List String) : TSt × String :=
  match toks with
  | "begin" :: rest => ({ defSpan := natOf (kvGet rest "span") }, "ok")
  | [op, k, a, b, lo, hi] =>   -- add/addspan/upsert/put/hoa k <span|-> <value|-> lo hi
    match parseHex k, lo.toNat?, hi.toNat? with
    | some k, some lo, some hi =>
      let span := (a.toNat?).getD st.defSpan
      let v := (parseHex b).getD []
      if op = "add" || op = "addspan" || op = "put" then
        let i := (TimeCache.I.mk st.must st.may).add k v span lo hi
        ({ st with must := i.must, may := i.may }, "ok")
      else if op = "upsert" then
        let i := (TimeCache.I.mk st.must st.may).upsert k v span lo hi
        ({ st with must := i.must, may := i.may }, "ok")
      else if op = "hoa" then
        -- interval HasOrAdd (SV.Misc.TimeCacheMore.I.hasOrAdd, sound by Sandwich.hasOrAdd / Sandwich.hasOrAdd_flags):
        -- certainly present → (has, ¬added); certainly absent → (¬has, added); otherwise the flags are unknown
        let inMust := TimeCache.has st.must k
        let inMay := TimeCache.has st.may k
        let i := (TimeCache.I.mk st.must st.may).hasOrAdd k v span lo hi
        ({ st with must := i.must, may := i.may }, if inMust then "1 0" else if !inMay then "0 1" else "? ?")
      else (st, "bad-op")
    | _, _, _ => (st, "bad-op")
  | ["sweep", lo, hi] =>
    match lo.toNat?, hi.toNat? with
    | some lo, some hi =>
      let i := (TimeCache.I.mk st.must st.may).sweep lo hi
      ({ st with must := i.must, may := i.may }, "ok")
    | _, _ => (st, "bad-op")
  | ["rm", k] =>
    match parseHex k with
    | some k => ({ st with must := TimeCache.remove st.must k, may := TimeCache.remove st.may k }, "ok")
    | none => (st, "bad-op")
  | ["clear"] => ({ st with must := [], may := [] }, "ok")
  | ["has", k] =>
    match parseHex k with
    | some k => (st, tv st k)
    | none => (st, "bad-op")
  | "sleep" :: _ => (st, "ok")
  | "expectgone" :: _ => (st, "-")
  | _ => (st, "bad-op")

end Drv.Misc
