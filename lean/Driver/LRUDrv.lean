import SV.Common
import SV.LRU.Model
import SV.LRU.SimpleLruLib
open SV SV.LRU

namespace Drv.LRU

structure St where
  v : Variant := Variant.current
  c : Cache := ⟨.plain ⟨1, []⟩, []⟩
  /-- plain kind: the transcription of hashicorp's `simplelru` (SV/LRU/SimpleLruLib.lean, proved to refine the plain-LRU model
      and the reference) is what answers; `c` then only carries the handler registry -/
  lib : Option Lib.LRU := none

def kvGet (toks : List String) (k : String) : Option String :=
  toks.findSome? fun t =>
    match t.splitOn "=" with
    | [a, b] => if a = k then some b else none
    | _ => none

def natOf (s : Option String) : Nat := (s.bind String.toNat?).getD 0

def dump (st : St) : String :=
  match st.lib with
  | some l => s!"keys={hexList l.keys} len={l.len} bytes=0"
  | none => s!"keys={hexList st.c.keys} len={st.c.len} bytes={st.c.sizeInBytes}"

/-- handler invocations, canonicalised: sorted by id -/
def showInv (l : List (String × Bytes × Bytes)) : String :=
  let ids := l.map (fun x => x.1 ++ ":" ++ toHex x.2.1 ++ ":" ++ toHex x.2.2)
  let sorted := ids.toArray.qsort (· < ·) |>.toList
  "h=[" ++ ",".intercalate sorted ++ "]"

def optHex (o : Option Bytes) : String := match o with | some b => "some:" ++ toHex b | none => "none"

def step (st : St) (toks : List String) : St × String :=
  match toks with
  | "begin" :: rest =>
    let v := if kvGet rest "legacy" = some "1" then Variant.legacy else Variant.current
    let cap := natOf (kvGet rest "cap")
    if kvGet rest "kind" = some "sized" then
      ({ v := v, c := ⟨.sized (Cap.init cap (natOf (kvGet rest "bytes"))), []⟩ }, "ok")
    else ({ v := v, c := ⟨.plain ⟨cap, []⟩, []⟩, lib := some (Lib.LRU.new cap) }, "ok")
  | [op, k, p, sz] =>
    match parseHex k, parseHex p, sz.toInt? with
    | some k, some p, some sz =>
      if op = "put" && st.lib.isSome then
        match st.lib with
        | some l =>
          let (l', out) := l.stepL (.put k p sz)
          let st := { st with lib := some l' }
          (st, (match out with | .evicted ev => boolStr ev | _ => "?") ++ " | " ++ dump st ++ " | " ++ showInv (st.c.notify k p))
        | none => (st, "bad-op")
      else if op = "hoa" && st.lib.isSome then
        match st.lib with
        | some l =>
          let (l', out) := l.stepL (.hoa k p sz)
          let st := { st with lib := some l' }
          match out with
          | .hasAdded has added =>
            (st, boolStr has ++ " " ++ boolStr added ++ " | " ++ dump st ++ " | " ++ showInv (if added then st.c.notify k p else []))
          | _ => (st, "?")
        | none => (st, "bad-op")
      else if op = "put" then
        let (c, ev, inv) := st.c.put st.v k p sz
        let st := { st with c := c }
        (st, boolStr ev ++ " | " ++ dump st ++ " | " ++ showInv inv)
      else if op = "hoa" then
        let (c, has, added, inv) := st.c.hasOrAdd st.v k p sz
        let st := { st with c := c }
        (st, boolStr has ++ " " ++ boolStr added ++ " | " ++ dump st ++ " | " ++ showInv inv)
      else (st, "bad-op")
    | _, _, _ => (st, "bad-op")
  | [op, k] =>
    if op = "reg" then let st := { st with c := st.c.register k }; (st, "ok")
    else if op = "unreg" then let st := { st with c := st.c.unregister k }; (st, "ok")
    else
    match parseHex k, st.lib with
    | some k, some l =>
      if op = "get" then
        let (l', out) := l.stepL (.get k)
        let st := { st with lib := some l' }
        (st, (match out with | .value r => optHex r | _ => "?") ++ " | " ++ dump st)
      else if op = "peek" then (st, optHex (l.peek k) ++ " | " ++ dump st)
      else if op = "has" then (st, boolStr (l.contains k) ++ " | " ++ dump st)
      else if op = "rm" then
        let st := { st with lib := some (l.stepL (.rm k)).1 }
        (st, "| " ++ dump st)
      else (st, "bad-op")
    | some k, none =>
      if op = "get" then
        let (c, r) := st.c.get k
        let st := { st with c := c }
        (st, optHex r ++ " | " ++ dump st)
      else if op = "peek" then (st, optHex (st.c.peek k) ++ " | " ++ dump st)
      else if op = "has" then (st, boolStr (st.c.has k) ++ " | " ++ dump st)
      else if op = "rm" then
        let st := { st with c := st.c.remove k }
        (st, "| " ++ dump st)
      else (st, "bad-op")
    | none, _ => (st, "bad-op")
  | ["clear"] =>
    let st := match st.lib with
      | some l => { st with lib := some (l.stepL .clear).1 }
      | none => { st with c := st.c.clear }
    (st, "| " ++ dump st)
  | _ => (st, "bad-op")

end Drv.LRU
