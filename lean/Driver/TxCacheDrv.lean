import SV.Common
import SV.TxCache.Model
open SV SV.TxCache

namespace Drv.TxCache

structure St where
  v : Variant := Variant.current
  pool : Pool := Pool.init ⟨false, 0, 0, 0, 0, 0⟩
  defs : List (Bytes × Tx) := []
  senders : List Bytes := []   -- sorted, distinct

def kvGet (toks : List String) (k : String) : Option String :=
  toks.findSome? fun t =>
    match t.splitOn "=" with
    | [a, b] => if a = k then some b else none
    | _ => none

def natOf (s : Option String) : Nat := (s.bind String.toNat?).getD 0

def begin (toks : List String) : St :=
  let cfg : Config := {
    evictionEnabled := kvGet toks "evict" = some "1"
    numBytesThreshold := natOf (kvGet toks "nb")
    numBytesPerSender := natOf (kvGet toks "nbs")
    countThreshold := natOf (kvGet toks "c")
    countPerSender := natOf (kvGet toks "cs")
    numItemsToEvict := natOf (kvGet toks "n") }
  { v := if kvGet toks "legacy" = some "1" then Variant.legacy else Variant.current, pool := Pool.init cfg }

def dump (st : St) : String :=
  let p := st.pool
  let keys := sortBytes (p.byHash.map (·.1))
  let lists := st.senders.filterMap fun s =>
    match alookup s p.lists with
    | some l => some (toHex s ++ ":" ++ hexList (l.map (·.hash)))
    | none => none
  s!"c={clampNat p.cntTx} b={clampNat p.numBytes} s={clampNat p.cntSenders} keys={hexList keys} lists={";".intercalate lists}"

structure SessAcc where
  accts : List (Bytes × Nat × Nat) := []
  bad : List Bytes := []
  bunches : List (List Bytes) := []

def parseSess (toks : List String) : SessAcc :=
  toks.foldl (fun acc t =>
    if t.startsWith "a:" then
      match t.splitOn ":" with
      | [_, a, n, b] =>
        match parseHex a, n.toNat?, b.toNat? with
        | some a, some n, some b => { acc with accts := acc.accts ++ [(a, n, b)] }
        | _, _, _ => acc
      | _ => acc
    else if t.startsWith "bad:" then
      match parseHex (t.drop 4).toString with
      | some h => { acc with bad := acc.bad ++ [h] }
      | none => acc
    else if t.startsWith "b:" then
      let hs := ((t.drop 2).toString.splitOn ",").filterMap fun x => if x = "" then none else parseHex x
      { acc with bunches := acc.bunches ++ [hs] }
    else acc) {}

def mkSession (sa : SessAcc) : Session :=
  { nonce := fun a => match alookup a sa.accts with | some (n, _) => n | none => 0
    balance := fun a => match alookup a sa.accts with | some (_, b) => b | none => 0
    badGuard := fun t => sa.bad.contains t.hash }

def selOut (r : List Tx × Nat) : String := s!"gas={r.2} txs={hexList (r.1.map (·.hash))}"

def maxOf (s : String) : Nat := match s.toInt? with | some i => i.toNat | none => 0

def step (st : St) (toks : List String) : St × String :=
  match toks with
  | "begin" :: rest => (begin rest, "ok")
  | ["tx", h, s, n, pr, gl, sz, fee, val, rel] =>
    match parseHex h, parseHex s, n.toNat?, pr.toNat?, gl.toNat?, sz.toNat?, fee.toNat?, val.toNat?, parseHex rel with
    | some h, some s, some n, some pr, some gl, some sz, some fee, some val, some rel =>
      let t : Tx := ⟨h, s, n, pr, gl, sz, fee, val, rel⟩
      let senders := if st.senders.contains s then st.senders else sortBytes (s :: st.senders)
      ({ st with defs := st.defs ++ [(h, t)], senders := senders }, "ok")
    | _, _, _, _, _, _, _, _, _ => (st, "bad-op")
  | ["add", h] =>
    match (parseHex h).bind (fun h => alookup h st.defs) with
    | some t =>
      let (p, added) := addTx st.v st.pool t
      let st := { st with pool := p }
      (st, boolStr added ++ " | " ++ dump st)
    | none => (st, "bad-op")
  | ["rm", h] =>
    match parseHex h with
    | some h =>
      let (p, found) := removeTxByHash st.pool h
      let st := { st with pool := p }
      (st, boolStr found ++ " | " ++ dump st)
    | none => (st, "bad-op")
  | ["clear"] =>
    let st := { st with pool := clear st.v st.pool }
    (st, "| " ++ dump st)
  | kind :: gas :: mx :: stop :: rest =>
    if kind = "sel" || kind = "selb" then
      match gas.toNat? with
      | some gas =>
        let sa := parseSess rest
        let q : SelParams := { gasReq := gas, maxNum := maxOf mx, stop := fun _ => stop = "1" }
        if kind = "sel" then (st, selOut (select st.v st.pool (mkSession sa) q))
        else
          let bunches := sa.bunches.map fun b => b.filterMap fun h => alookup h st.defs
          (st, selOut (selectFromBunches st.v (mkSession sa) q bunches))
      | none => (st, "bad-op")
    else if kind = "selperm" then
      -- selperm seed gas max sess…  (the seed only matters to the harness)
      match mx.toNat? with
      | some g =>
        let sa := parseSess rest
        let q : SelParams := { gasReq := g, maxNum := maxOf stop, stop := fun _ => false }
        (st, selOut (select st.v st.pool (mkSession sa) q))
      | none => (st, "bad-op")
    else (st, "bad-op")
  | _ => (st, "bad-op")

end Drv.TxCache
