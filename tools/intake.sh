#!/bin/sh
# intake of sub-agent seeds: confirm in a scratch worktree (demo fails with / passes without, suite passes with), store under seeded/, drop the agent's worktree
for s in "$@"; do
  python3 /verif/tools/seedeval.py /tmp/seedwt/$s/_seed $s --no-checks 2>&1 | grep -E '"seed"|confirmed|demo_|suite_' | tr -d '\n'; echo
  git -C /repo worktree remove --force /tmp/seedwt/$s 2>/dev/null
done
git -C /repo worktree prune
