#!/usr/bin/env python3
"""seedmatrix — re-measure which checks catch which seeded change, in parallel, without touching /repo or /verif.

  tools/seedmatrix.py [--seeds C01-1,C02-2,…] [--props C01,C02,…|family|target] [--tier quick] [--jobs 4] [--out seeded/MATRIX.json]

For every seeded/<id>/ a scratch copy of /verif and a scratch git worktree of /repo (both under /tmp/sm-<pid>/<id>/, removed
afterwards) are made, the patch is applied to the scratch worktree, the scratch copy of ./check is pointed at it, and the
requested checks are run there exactly as they would be against /repo.  The definitive procedure of the brief
(git -C /repo apply … ; ./check … ; git -C /repo checkout -- .) gives the same verdicts; this tool only parallelises it.
"""
import sys, os, json, subprocess, shutil, re, time, argparse
from concurrent.futures import ThreadPoolExecutor

ROOT = os.path.dirname(os.path.dirname(os.path.abspath(__file__)))
ALL = ["C%02d" % i for i in range(1, 21)]
FAMILY = {
    "txcache": ["C01", "C02", "C03", "C04", "C05", "C06", "C07", "C14"],
    "persist": ["C08", "C09", "C10", "C11", "C16", "C17", "C19"],
    "immunity": ["C12", "C13", "C14"],
    "lru": ["C15", "C16", "C17", "C14"],
    "misc": ["C16", "C17", "C18", "C20", "C14", "C19"],
}
PROP_FAMILY = {"C01": "txcache", "C02": "txcache", "C03": "txcache", "C04": "txcache", "C05": "txcache", "C06": "txcache",
               "C07": "txcache", "C08": "persist", "C09": "persist", "C10": "persist", "C11": "persist", "C12": "immunity",
               "C13": "immunity", "C15": "lru", "C16": "misc", "C17": "lru", "C18": "misc", "C19": "persist", "C20": "misc"}
ENV = dict(os.environ, GOFLAGS="-mod=mod", GOPROXY="off", GOSUMDB="off", GOTOOLCHAIN="local", GOWORK="off")


def sh(cmd, cwd=None, timeout=7200, env=None):
    p = subprocess.run(cmd, cwd=cwd, env=env or ENV, stdout=subprocess.PIPE, stderr=subprocess.STDOUT, text=True,
                       shell=isinstance(cmd, str), timeout=timeout)
    return p.returncode, p.stdout


def touched_family(patch):
    fams = set()
    for l in open(patch):
        if l.startswith("+++ "):
            p = l[4:].strip()
            if "txcache/" in p and "crossTxCache" not in p:
                fams.add("txcache")
            if "crossTxCache" in p or "immunitycache/" in p:
                fams.add("immunity")
            if "leveldb/" in p or "memorydb/" in p or "sharded/" in p:
                fams.add("persist")
            if "lrucache/" in p:
                fams.add("lru")
            if any(x in p for x in ("storageUnit/", "storageCacherAdapter/", "timecache/", "fifocache/", "factory/")):
                fams.add("misc")
    return fams


SEEDDIR = "seeded"


def eval_seed(sid, base, props_mode, tier):
    sd = os.path.join(ROOT, SEEDDIR, sid)
    meta = json.load(open(os.path.join(sd, "meta.json")))
    target = meta.get("property") or sid.split("-")[0]
    d = os.path.join(base, sid)
    os.makedirs(d)
    v, r = os.path.join(d, "verif"), os.path.join(d, "repo")
    res = {"seed": sid, "property": target, "checks": {}}
    try:
        # the COMMITTED state of /verif (edits in progress in the live tree must not leak into the measurement), plus the
        # build outputs of the live tree to save time (lake / go rebuild whatever differs)
        os.makedirs(v)
        for _ in range(5):
            sh("git -C %s archive HEAD | tar -x -C %s" % (ROOT, v))
            if os.path.exists(os.path.join(v, "check")):
                break
            time.sleep(2)   # a commit in progress in /verif: try again
        shutil.rmtree(os.path.join(v, "seeded"), ignore_errors=True)
        sh(["rsync", "-a", os.path.join(ROOT, "lean", ".lake"), os.path.join(v, "lean") + "/"])
        os.makedirs(os.path.join(v, ".work"), exist_ok=True)
        for f in ("svh", "svh-race", "extract"):
            if os.path.exists(os.path.join(ROOT, ".work", f)):
                shutil.copy2(os.path.join(ROOT, ".work", f), os.path.join(v, ".work", f))
        sh(["git", "-C", "/repo", "worktree", "add", "-q", "--detach", r, "HEAD"])
        rc, out = sh(["git", "apply", os.path.join(sd, "patch.diff")], cwd=r)
        if rc != 0:
            res["error"] = "patch does not apply: " + out[-300:]
            return res
        for f in ("check", "harness/go.mod", "setup.sh"):
            p = os.path.join(v, f)
            s = open(p).read().replace('"/repo', '"' + r).replace("=> /repo", "=> " + r).replace(" /repo", " " + r)
            open(p, "w").write(s)
        if props_mode == "all":
            props = ALL
        elif props_mode == "target":
            props = [target]
        elif props_mode == "family":
            fams = touched_family(os.path.join(sd, "patch.diff")) | {PROP_FAMILY.get(target, "misc")}
            props = sorted({p for f in fams for p in FAMILY[f]} | {target})
        else:
            props = props_mode.split(",")
        for p in props:
            t0 = time.time()
            rc, out = sh(["./check", p, "--tier", tier], cwd=v, env=dict(ENV, VERIF_SEED=os.environ.get("VERIF_SEED", "1")))
            viol = [l for l in out.splitlines() if l.startswith("VIOLATION")]
            heads = []
            for l in viol:
                m = re.search(r"replay=(\S+)", l)
                if m and os.path.exists(os.path.join(v, m.group(1))):
                    heads.append("".join(open(os.path.join(v, m.group(1))).readlines()[:3])[:500])
            res["checks"][p] = {"rc": rc, "violations": viol, "s": round(time.time() - t0, 1), "replay_heads": heads}
        res["detected_by"] = sorted(p for p, c in res["checks"].items() if c["rc"] != 0)
        res["target_detected"] = target in res["detected_by"]
        res["target_with_input"] = any("no-failing-input-found" not in l for l in res["checks"].get(target, {}).get("violations", [])) and res["target_detected"]
    finally:
        sh(["git", "-C", "/repo", "worktree", "remove", "--force", r])
        shutil.rmtree(d, ignore_errors=True)
    return res


def main():
    ap = argparse.ArgumentParser()
    ap.add_argument("--seeds", default=None)
    ap.add_argument("--props", default="family")
    ap.add_argument("--tier", default="quick")
    ap.add_argument("--jobs", type=int, default=4)
    ap.add_argument("--out", default=os.path.join(ROOT, "seeded", "MATRIX.json"))
    ap.add_argument("--dir", default="seeded", help="directory under /verif holding <id>/patch.diff + meta.json (seeded | harmless)")
    a = ap.parse_args()
    global SEEDDIR
    SEEDDIR = a.dir
    seeds = a.seeds.split(",") if a.seeds else sorted(x for x in os.listdir(os.path.join(ROOT, SEEDDIR)) if os.path.isdir(os.path.join(ROOT, SEEDDIR, x)))
    base = "/tmp/sm-%d" % os.getpid()
    os.makedirs(base)
    results = {}
    if os.path.exists(a.out):
        try:
            results = json.load(open(a.out))
        except Exception:
            results = {}
    try:
        with ThreadPoolExecutor(max_workers=a.jobs) as ex:
            for res in ex.map(lambda s: eval_seed(s, base, a.props, a.tier), seeds):
                prev = results.get(res["seed"], {})
                if a.props not in ("all", "family") and prev.get("checks"):
                    prev["checks"].update(res["checks"])
                    prev["detected_by"] = sorted(p for p, c in prev["checks"].items() if c["rc"] != 0)
                    prev["target_detected"] = prev["property"] in prev["detected_by"]
                    res = prev
                results[res["seed"]] = res
                print(res["seed"], res.get("property"), "detected_by=", res.get("detected_by"), "target=", res.get("target_detected"),
                      "input=", res.get("target_with_input"), res.get("error", ""), flush=True)
                json.dump(results, open(a.out, "w"), indent=1, sort_keys=True)
    finally:
        shutil.rmtree(base, ignore_errors=True)
        sh(["git", "-C", "/repo", "worktree", "prune"])


if __name__ == "__main__":
    main()
