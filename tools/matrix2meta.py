#!/usr/bin/env python3
"""matrix2meta — copy the detection results of seeded/MATRIX.json into every seeded/<id>/meta.json and record what was run."""
import json, os
ROOT = os.path.dirname(os.path.dirname(os.path.abspath(__file__)))
m = json.load(open(os.path.join(ROOT, "seeded", "MATRIX.json")))
RAN = [
    "confirmation (tools/seedeval.py, scratch git worktree of /repo under /tmp, removed afterwards): "
    "`go test -vet=off -count=1 -run '^(TestSeed…)$' ./<pkg>/` WITHOUT the change -> must pass; `git apply patch.diff`; `go build ./...`; "
    "the same demo WITH the change -> must fail; demo file removed; `go test -vet=off -count=1 -timeout 25m ./...` WITH the change -> must pass",
    "detection (tools/seedmatrix.py): scratch copy of the committed /verif + scratch worktree of /repo with patch.diff applied; "
    "`./check <Cxx> --tier quick` (VERIF_SEED=1) for the checks of the touched component family; rc != 0 / VIOLATION lines recorded; "
    "equivalent to `git -C /repo apply patch.diff; ./check …; git -C /repo checkout -- .`",
]
for sid, r in m.items():
    p = os.path.join(ROOT, "seeded", sid, "meta.json")
    if not os.path.exists(p):
        continue
    meta = json.load(open(p))
    meta["checks"] = {k: {"rc": v["rc"], "violations": v["violations"], "s": v["s"], "replay_heads": [h[:300] for h in v.get("replay_heads", [])]} for k, v in r.get("checks", {}).items()}
    meta["detected_by"] = r.get("detected_by", [])
    meta["detected_with_failing_input_by"] = sorted(k for k, v in r.get("checks", {}).items() if v["rc"] != 0 and any("no-failing-input-found" not in x for x in v["violations"]))
    meta["breaks_property"] = meta.get("property")
    meta["needs_to_manifest"] = meta.get("needs")
    meta["ran"] = RAN
    json.dump(meta, open(p, "w"), indent=1)
print("updated", len(m), "meta files")
