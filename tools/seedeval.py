#!/usr/bin/env python3
"""seedeval — confirm a seeded breaking change and measure which checks catch it.

  tools/seedeval.py <candidate-dir> <seed-id> [--props C01,C02,…] [--no-suite] [--no-checks: confirm and store only; measure with tools/seedmatrix.py]

<candidate-dir> holds patch.diff, demo_test.go (first line: `// place in: <pkg dir>/`), meta.json (from the sub-agent).
Steps:
  1. scratch worktree of /repo (outside /repo and /verif): demo passes WITHOUT the change, fails WITH it; the code compiles and
     the full existing suite passes with the change (unless --no-suite);
  2. apply the patch to /repo, run the quick checks (all properties by default), undo it;
  3. write /verif/seeded/<seed-id>/{patch.diff, demo_test.go, meta.json}.
"""
import sys, os, json, subprocess, shutil, re, time

ENV = dict(os.environ, GOFLAGS="-mod=mod", GOPROXY="off", GOSUMDB="off", GOTOOLCHAIN="local")
ALL = ["C%02d" % i for i in range(1, 21)]


def sh(cmd, cwd=None, timeout=3000):
    p = subprocess.run(cmd, cwd=cwd, env=ENV, stdout=subprocess.PIPE, stderr=subprocess.STDOUT, text=True, shell=isinstance(cmd, str), timeout=timeout)
    return p.returncode, p.stdout


def main():
    cand, sid = sys.argv[1], sys.argv[2]
    props = ALL
    suite = True
    for i, a in enumerate(sys.argv[3:]):
        if a == "--props":
            props = sys.argv[3 + i + 1].split(",")
        if a == "--no-suite":
            suite = False
        if a == "--no-checks":
            props = []
    patch = os.path.join(cand, "patch.diff")
    demo = os.path.join(cand, "demo_test.go")
    meta = json.load(open(os.path.join(cand, "meta.json"))) if os.path.exists(os.path.join(cand, "meta.json")) else {}
    first = open(demo).readline()
    m = re.search(r"place in:\s*(\S+)", first)
    pkg = m.group(1).rstrip("/") if m else "."
    wt = "/tmp/wt-eval-%d" % os.getpid()
    res = {"seed": sid, "property": meta.get("property"), "summary": meta.get("summary"), "needs": meta.get("needs")}
    sh(["git", "-C", "/repo", "worktree", "add", "-q", "--detach", wt, "HEAD"])
    try:
        demoname = "zz_seed_demo_test.go"
        shutil.copyfile(demo, os.path.join(wt, pkg, demoname))
        run = r"go test -vet=off -count=1 -run . ./%s/ 2>&1 | tail -15" % pkg
        # restrict to the demo's tests
        tests = re.findall(r"^func (Test\w+)\(", open(demo).read(), re.M)
        runre = "^(" + "|".join(tests) + ")$" if tests else "."
        cmd = ["go", "test", "-vet=off", "-count=1", "-run", runre, "./%s/" % pkg]
        rc0, out0 = sh(cmd, cwd=wt)
        res["demo_without_change"] = "pass" if rc0 == 0 else "FAIL"
        rc, out = sh(["git", "apply", os.path.abspath(patch)], cwd=wt)
        if rc != 0:
            res["error"] = "patch does not apply: " + out[-500:]
            print(json.dumps(res, indent=1))
            return 2
        rcb, outb = sh(["go", "build", "./..."], cwd=wt)
        res["compiles"] = rcb == 0
        rc1, out1 = sh(cmd, cwd=wt)
        res["demo_with_change"] = "fail" if rc1 != 0 else "PASS"
        res["demo_output_tail"] = out1[-600:]
        if suite:
            os.remove(os.path.join(wt, pkg, demoname))
            rcs, outs = sh(["go", "test", "-vet=off", "-count=1", "-timeout", "25m", "./..."], cwd=wt)
            res["suite_with_change"] = "pass" if rcs == 0 else "FAIL"
            res["suite_tail"] = outs[-800:]
    finally:
        sh(["git", "-C", "/repo", "worktree", "remove", "--force", wt])
    # a re-evaluation without the suite keeps the suite result confirmed earlier
    old_meta_path = os.path.join("/verif/seeded", sid, "meta.json")
    if not suite and os.path.exists(old_meta_path):
        om = json.load(open(old_meta_path))
        for k in ("suite_with_change", "suite_tail"):
            if k in om:
                res[k] = om[k]
        suite = "suite_with_change" in res
    confirmed = res.get("demo_without_change") == "pass" and res.get("demo_with_change") == "fail" and res.get("compiles") and (not suite or res.get("suite_with_change") == "pass")
    res["confirmed"] = bool(confirmed)
    # run the checks against /repo with the patch applied
    det = {}
    rc, out = (0, "") if not props else sh(["git", "-C", "/repo", "apply", os.path.abspath(patch)])
    if not props:
        pass
    elif rc != 0:
        res["error"] = "patch does not apply to /repo: " + out[-300:]
    else:
        try:
            for p in props:
                t0 = time.time()
                rcc, outc = sh(["./check", p, "--tier", "quick"], cwd="/verif", timeout=1800)
                v = [l for l in outc.splitlines() if l.startswith("VIOLATION")]
                det[p] = {"rc": rcc, "violations": v, "s": round(time.time() - t0, 1)}
                for l in v:
                    mm = re.search(r"replay=(\S+)", l)
                    if mm and os.path.exists(os.path.join("/verif", mm.group(1))):
                        head = open(os.path.join("/verif", mm.group(1))).read()[:400]
                        det[p].setdefault("replay_heads", []).append(head)
        finally:
            sh(["git", "-C", "/repo", "checkout", "--", "."])
            sh(["git", "-C", "/repo", "clean", "-fdq"])
    res["checks"] = det
    res["detected_by"] = sorted(p for p, d in det.items() if d["rc"] != 0)
    res["detected_with_failing_input_by"] = sorted(p for p, d in det.items() if any("no-failing-input-found" not in v for v in d["violations"]))
    out_dir = os.path.join("/verif/seeded", sid)
    os.makedirs(out_dir, exist_ok=True)
    shutil.copyfile(patch, os.path.join(out_dir, "patch.diff"))
    shutil.copyfile(demo, os.path.join(out_dir, "demo_test.go"))
    json.dump(res, open(os.path.join(out_dir, "meta.json"), "w"), indent=1)
    print(json.dumps({k: res[k] for k in ("seed", "property", "confirmed", "demo_without_change", "demo_with_change", "suite_with_change", "detected_by", "detected_with_failing_input_by") if k in res}, indent=1))
    return 0


if __name__ == "__main__":
    sys.exit(main())
