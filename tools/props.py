"""Per-property configuration of ./check: which Lean theorems are the obligations, which
correspondence runs tie the model to the code, and what is assumed."""

PROPS = {
    "C19": {
        "theorems": ["SV.Props.C19.sharded_history_is_one_map", "SV.Props.C19.sharded_range_visits_the_union_once", "SV.Props.C19.id_in_range", "SV.Props.C19.id_depends_on_suffix_only", "SV.Props.C19.id_onto", "SV.Props.C19.mask_segments_sound", "SV.Props.C19.sharded_put_then_read", "SV.Props.C19.sharded_remove_then_read", "SV.Props.C19.sharded_invariant", "SV.Props.C19.sharded_range_is_union"],
        "modules": ["SV.Props.C19"],
        "runs": [{"component": "shard", "thorough_seeds": 2}, {"component": "persist", "thorough_seeds": 1, "history_filter": "!shards=0"}],
        "rule": "histories of masks/id/onto/maskseg operations; distinct = distinct (operation kind, output) pairs observed on the implementation; "
                "maskseg scans EVERY shard count of its interval on the float code and compares the run-length encoding with the model's (sound by mask_segments_sound); "
                "at random large shard counts the big-endian keys of the largest id and of the ids around the mask boundary are witnesses for 'every id is produced'; "
                "the sharded-persister histories of the persist component run here too (single-map clauses on 2/3/5 shards count for C19)",
        "exhaustive": "quick: all n<=64 (masks, onto, all 1-byte keys stride<=7, sampled 2-byte keys), masks of every n in [2,2^22] and +-2048 around 2^23..2^31; "
                      "thorough: all n<=512, all 2-byte keys for n<=40, masks of every n in [2,2^31-1]",
        "assumptions": [
            "float64 math.Log2/Ceil/Floor are outside the kernel: equality of the Go masks with the integer formulas is established by exhaustive comparison (thorough: whole domain), not by a theorem",
            "the sharded persister's map[uint32]Persister lookup is Go map semantics",
        ],
    },
    "C01": {
        "theorems": ["SV.Props.C01.wrapper_refines_pure_session", "SV.Props.C01.nonce_run_for_any_session_oracle", "SV.Props.C01.each_account_looked_up_once", "SV.Props.C01.source_detectors_are_the_models", "SV.Props.C01.nonce_run_of_every_reachable_pool", "SV.Props.C01.nonce_run", "SV.Props.C01.nonce_run_select", "SV.Props.C01.reachable_lists_sorted"],
        "modules": ["SV.Props.C01"],
        "runs": [{"component": "txcache", "thorough_seeds": 3, "compare_kinds": ["selb"]}],
        "rule": "random add/rm/clear/sel histories over a small transaction alphabet (hash determines content) under boundary-biased configurations, plus directed eviction storms; distinct = distinct (operation kind, canonical output incl. full API dump) pairs observed on the implementation; the model/implementation diff is restricted per property (C01-C03: selections from the observed lists; C04-C06: add/rm/clear of the histories with eviction disabled - the pool-wide clauses of C05/C06 are decided on the eviction histories by the Go oracles, whose verdict does not depend on WHICH transactions eviction takes; C07: add/rm/clear of all histories) Also: directed histories (partial eviction then growth to the byte limit; selection around an eviction by another sender; insertion after a removed late nonce), caller-declared sizes at and beyond 2^32, and every selection is judged against the hash index as well (depends only on pool contents).",
        "assumptions": [
            "Go container/heap, container/list and Go maps are modelled (extract-best over a list, lists, association lists); fees/values/balances are non-negative big integers; hash determines content",
            "the selection time budget is modelled by an arbitrary stop oracle consulted where the code reads the clock",
        ],
    },
    "C02": {
        "theorems": ["SV.Props.C02.balances_cover_for_any_session_oracle", "SV.Props.C02.source_balance_test_is_the_models", "SV.Props.C02.source_balance_test_reads", "SV.Props.C02.source_loop_exits_are_the_models", "SV.Props.C02.constraints_of_every_reachable_pool", "SV.Props.C02.distinct_members", "SV.Props.C02.count_bound", "SV.Props.C02.gas_sum_and_budget", "SV.Props.C02.no_bad_guard", "SV.Props.C02.balances_cover", "SV.Props.C02.current_does_not_wrap", "SV.Props.C02.legacy_gas_counterexample"],
        "modules": ["SV.Props.C02"],
        "runs": [{"component": "txcache", "thorough_seeds": 3, "compare_kinds": ["selb"]}],
        "rule": "random add/rm/clear/sel histories over a small transaction alphabet (hash determines content) under boundary-biased configurations, plus directed eviction storms; distinct = distinct (operation kind, canonical output incl. full API dump) pairs observed on the implementation; the model/implementation diff is restricted per property (C01-C03: selections from the observed lists; C04-C06: add/rm/clear of the histories with eviction disabled - the pool-wide clauses of C05/C06 are decided on the eviction histories by the Go oracles, whose verdict does not depend on WHICH transactions eviction takes; C07: add/rm/clear of all histories) Also: directed histories (partial eviction then growth to the byte limit; selection around an eviction by another sender; insertion after a removed late nonce), caller-declared sizes at and beyond 2^32, and every selection is judged against the hash index as well (depends only on pool contents).",
        "assumptions": [
            "Go container/heap, container/list and Go maps are modelled (extract-best over a list, lists, association lists); fees/values/balances are non-negative big integers; hash determines content",
            "the selection time budget is modelled by an arbitrary stop oracle consulted where the code reads the clock",
        ],
    },
    "C03": {
        "theorems": ["SV.Props.C03.source_price_per_unit_is_floor_saturated", "SV.Props.C03.source_comparator_is_the_models", "SV.Props.C03.source_comparator_reads", "SV.Props.C03.greedy_on_every_reachable_pool", "SV.Props.C03.ppu_is_floor", "SV.Props.C03.comparator_strict_total", "SV.Props.C03.pops_the_best", "SV.Props.C03.order_independent", "SV.Props.C03.stricter_limits_give_prefix", "SV.Props.C03.equals_documented_greedy_procedure", "SV.Props.C03.container_heap_refines_extract_best", "SV.Props.C03.repeatable", "SV.Props.C03.legacy_ppu_truncates", "SV.Props.C03.chunk_count_is_invisible_to_the_map", "SV.Props.C03.selection_independent_of_chunk_count", "SV.Props.C03.chunked_selection_is_the_models"],
        "modules": ["SV.Props.C03"],
        "runs": [{"component": "txcache", "thorough_seeds": 3, "compare_kinds": ["selb"]}],
        "rule": "random add/rm/clear/sel histories over a small transaction alphabet (hash determines content) under boundary-biased configurations, plus directed eviction storms; distinct = distinct (operation kind, canonical output incl. full API dump) pairs observed on the implementation; the model/implementation diff is restricted per property (C01-C03: selections from the observed lists; C04-C06: add/rm/clear of the histories with eviction disabled - the pool-wide clauses of C05/C06 are decided on the eviction histories by the Go oracles, whose verdict does not depend on WHICH transactions eviction takes; C07: add/rm/clear of all histories) Also: directed histories (partial eviction then growth to the byte limit; selection around an eviction by another sender; insertion after a removed late nonce), caller-declared sizes at and beyond 2^32, and every selection is judged against the hash index as well (depends only on pool contents).",
        "assumptions": [
            "Go container/heap, container/list and Go maps are modelled (extract-best over a list, lists, association lists); fees/values/balances are non-negative big integers; hash determines content",
            "the selection time budget is modelled by an arbitrary stop oracle consulted where the code reads the clock",
        ],
    },
    "C04": {
        "theorems": ["SV.Props.C04.source_sender_limit_test_is_the_models", "SV.Props.C04.lists_equal_reference_after_any_history", "SV.Props.C04.hash_index_equals_reference_after_any_history", "SV.Props.C04.insert_is_ordered_insert", "SV.Props.C04.lists_sorted_add", "SV.Props.C04.lists_sorted_remove", "SV.Props.C04.sorted_has_no_duplicates", "SV.Props.C04.add_semantics", "SV.Props.C04.add_leaves_other_senders", "SV.Props.C04.remove_semantics", "SV.Props.C04.lookups_agree", "SV.Props.C04.trim_partial", "SV.Props.C04.trim_incomplete_F3", "SV.Props.C04.source_insertion_walk_is_the_models", "SV.Props.C04.source_lower_nonce_removal_is_the_models", "SV.Props.C04.go_list_addTx_is_the_models", "SV.Props.C04.go_list_lower_nonce_removal_is_the_models", "SV.Props.C04.go_list_getTxs_is_the_list"],
        "modules": ["SV.Props.C04"],
        "runs": [{"component": "txcache", "thorough_seeds": 3, "compare_kinds": ["add", "rm", "clear"], "history_filter": "evict=0"}],
        "rule": "random add/rm/clear/sel histories over a small transaction alphabet (hash determines content) under boundary-biased configurations, plus directed eviction storms; distinct = distinct (operation kind, canonical output incl. full API dump) pairs observed on the implementation; the model/implementation diff is restricted per property (C01-C03: selections from the observed lists; C04-C06: add/rm/clear of the histories with eviction disabled - the pool-wide clauses of C05/C06 are decided on the eviction histories by the Go oracles, whose verdict does not depend on WHICH transactions eviction takes; C07: add/rm/clear of all histories) Also: directed histories (partial eviction then growth to the byte limit; selection around an eviction by another sender; insertion after a removed late nonce), caller-declared sizes at and beyond 2^32, and every selection is judged against the hash index as well (depends only on pool contents).",
        "assumptions": [
            "Go container/heap, container/list and Go maps are modelled (extract-best over a list, lists, association lists); fees/values/balances are non-negative big integers; hash determines content",
            "the selection time budget is modelled by an arbitrary stop oracle consulted where the code reads the clock",
        ],
    },
    "C05": {
        "theorems": ["SV.Props.C05.invariant_of_every_reachable_pool", "SV.Props.C05.step_add", "SV.Props.C05.step_remove", "SV.Props.C05.step_clear", "SV.Props.C05.step_evict", "SV.Props.C05.step_threshold", "SV.Props.C05.emptied_pool_reports_zero", "SV.Props.C05.no_ghost", "SV.Props.C05.legacy_F4", "SV.Props.C05.legacy_F5", "SV.Props.C05.legacy_F6"],
        "modules": ["SV.Props.C05"],
        "runs": [{"component": "txcache", "thorough_seeds": 3, "compare_kinds": ["add", "rm", "clear"], "history_filter": "evict=0"}],
        "rule": "random add/rm/clear/sel histories over a small transaction alphabet (hash determines content) under boundary-biased configurations, plus directed eviction storms; distinct = distinct (operation kind, canonical output incl. full API dump) pairs observed on the implementation; the model/implementation diff is restricted per property (C01-C03: selections from the observed lists; C04-C06: add/rm/clear of the histories with eviction disabled - the pool-wide clauses of C05/C06 are decided on the eviction histories by the Go oracles, whose verdict does not depend on WHICH transactions eviction takes; C07: add/rm/clear of all histories) Also: directed histories (partial eviction then growth to the byte limit; selection around an eviction by another sender; insertion after a removed late nonce), caller-declared sizes at and beyond 2^32, and every selection is judged against the hash index as well (depends only on pool contents).",
        "assumptions": [
            "Go container/heap, container/list and Go maps are modelled (extract-best over a list, lists, association lists); fees/values/balances are non-negative big integers; hash determines content",
            "the selection time budget is modelled by an arbitrary stop oracle consulted where the code reads the clock",
        ],
    },
    "C06": {
        "theorems": ["SV.Props.C06.holds_for_every_accepted_configuration", "SV.Props.C06.source_threshold_tests_are_the_models", "SV.Props.C06.source_sender_limit_test_is_the_models", "SV.Props.C06.sender_count_bound", "SV.Props.C06.sender_bytes_partial", "SV.Props.C06.eviction_postcondition", "SV.Props.C06.pool_bounds_after_add", "SV.Props.C06.no_pool_wide_drop_when_disabled", "SV.Props.C06.every_reachable_sender_list_bounded", "SV.Props.C06.pool_bounds_at_every_add_of_every_history", "SV.Props.C06.eviction_of_every_reachable_pool_ends_within", "SV.Props.C06.no_history_drops_pool_wide_when_disabled", "SV.Props.C06.go_list_trim_is_trim1", "SV.Props.C06.go_list_trim_removes_at_most_one_F3"],
        "modules": ["SV.Props.C06"],
        "runs": [{"component": "txcache", "thorough_seeds": 3, "compare_kinds": ["add", "rm", "clear"], "history_filter": "evict=0"}],
        "rule": "random add/rm/clear/sel histories over a small transaction alphabet (hash determines content) under boundary-biased configurations, plus directed eviction storms; distinct = distinct (operation kind, canonical output incl. full API dump) pairs observed on the implementation; the model/implementation diff is restricted per property (C01-C03: selections from the observed lists; C04-C06: add/rm/clear of the histories with eviction disabled - the pool-wide clauses of C05/C06 are decided on the eviction histories by the Go oracles, whose verdict does not depend on WHICH transactions eviction takes; C07: add/rm/clear of all histories) Also: directed histories (partial eviction then growth to the byte limit; selection around an eviction by another sender; insertion after a removed late nonce), caller-declared sizes at and beyond 2^32, and every selection is judged against the hash index as well (depends only on pool contents).",
        "assumptions": [
            "Go container/heap, container/list and Go maps are modelled (extract-best over a list, lists, association lists); fees/values/balances are non-negative big integers; hash determines content",
            "the selection time budget is modelled by an arbitrary stop oracle consulted where the code reads the clock",
        ],
    },
    "C07": {
        "theorems": ["SV.Props.C07.source_threshold_tests_are_the_models", "SV.Props.C07.source_comparator_is_the_models", "SV.Props.C07.takes_least_valuable", "SV.Props.C07.batch_size", "SV.Props.C07.stops_when_within", "SV.Props.C07.noop_within_thresholds", "SV.Props.C07.loses_nonce_suffix", "SV.Props.C07.disappear_from_every_view", "SV.Props.C07.victim_independent_of_order", "SV.Props.C07.every_reachable_eviction_cuts_nonce_suffixes", "SV.Props.C07.every_reachable_eviction_noop_within", "SV.Props.C07.every_reachable_evicted_disappear_everywhere", "SV.Props.C07.every_reachable_survivor_stays_hashed", "SV.Props.C07.source_suffix_cut_is_the_models", "SV.Props.C07.go_list_suffix_cut_is_the_models"],
        "modules": ["SV.Props.C07"],
        "runs": [{"component": "txcache", "thorough_seeds": 3, "compare_kinds": ["add", "rm", "clear"]}],
        "rule": "random add/rm/clear/sel histories over a small transaction alphabet (hash determines content) under boundary-biased configurations, plus directed eviction storms; distinct = distinct (operation kind, canonical output incl. full API dump) pairs observed on the implementation; the model/implementation diff is restricted per property (C01-C03: selections from the observed lists; C04-C06: add/rm/clear of the histories with eviction disabled - the pool-wide clauses of C05/C06 are decided on the eviction histories by the Go oracles, whose verdict does not depend on WHICH transactions eviction takes; C07: add/rm/clear of all histories) Also: directed histories (partial eviction then growth to the byte limit; selection around an eviction by another sender; insertion after a removed late nonce), caller-declared sizes at and beyond 2^32, and every selection is judged against the hash index as well (depends only on pool contents).",
        "assumptions": [
            "Go container/heap, container/list and Go maps are modelled (extract-best over a list, lists, association lists); fees/values/balances are non-negative big integers; hash determines content",
            "the selection time budget is modelled by an arbitrary stop oracle consulted where the code reads the clock",
        ],
    },
    "C12": {
        "theorems": ["SV.Props.C12.single_chunk_refines_fifo_queue", "SV.Props.C12.fifo_refusal_iff", "SV.Props.C12.cache_protects_accepted_keys", "SV.Props.C12.cache_protected_forever", "SV.Props.C12.cache_all_immune_refused", "SV.Props.C12.cache_refusal_changes_nothing", "SV.Props.C12.cache_never_overwrites", "SV.Props.C12.source_capacity_test_is_the_models", "SV.Props.C12.source_chunk_config_is_the_models", "SV.Props.C12.add_keeps_immune", "SV.Props.C12.eviction_skips_immune", "SV.Props.C12.protected_forever", "SV.Props.C12.protected_when_added", "SV.Props.C12.protected_when_immunized", "SV.Props.C12.all_immune_refused", "SV.Props.C12.refusal_changes_nothing", "SV.Props.C12.never_overwrites", "SV.Props.C12.legacy_F10", "SV.Props.C12.immunized_element_survives_on_the_two_structure_chunk"],
        "modules": ["SV.Props.C12"],
        "runs": [{"component": "immunity", "thorough_seeds": 2}],
        "rule": "random HasOrAdd/Put/Remove/ImmunizeKeys/Clear histories over 4-12 keys through ImmunityCache and CrossTxCache, 1-16 chunks, capacities at their lower bounds, sizes 0..500; thorough adds all histories of length 5 over an 11-operation alphabet (single chunk); distinct = distinct (operation kind, canonical output incl. full dump) pairs Also: one ImmunizeKeys batch falling almost entirely into one chunk of a multi-chunk cache, then both chunks filled until they evict.",
        "exhaustive": "thorough: all 11^5 histories over {hoa/rm/imm x 3 keys, 2 filler adds}, one chunk, capacity 4",
        "assumptions": ["Go maps and container/list are modelled (association lists, lists); chunk routing by fnv32 is modelled exactly; item sizes are >= 0"],
    },
    "C13": {
        "theorems": ["SV.Props.C13.single_chunk_refines_fifo_queue", "SV.Props.C13.fifo_refusal_iff", "SV.Props.C13.fifo_eviction_in_batches", "SV.Props.C13.holds_for_every_accepted_configuration", "SV.Props.C13.cache_never_exceeds_max", "SV.Props.C13.cache_views_agree", "SV.Props.C13.cache_flags_truthful", "SV.Props.C13.cache_remove_withdraws_immunity", "SV.Props.C13.cache_immunize_gate_refuses_whole", "SV.Props.C13.source_capacity_test_is_the_models", "SV.Props.C13.source_chunk_config_is_the_models", "SV.Props.C13.chunk_invariant", "SV.Props.C13.flags_truthful", "SV.Props.C13.eviction_is_fifo", "SV.Props.C13.eviction_partition", "SV.Props.C13.remove_withdraws_immunity", "SV.Props.C13.immunize_gate", "SV.Props.C13.two_structure_chunk_refines_the_model", "SV.Props.C13.map_count_never_exceeds_max"],
        "modules": ["SV.Props.C13"],
        "runs": [{"component": "immunity", "thorough_seeds": 2}],
        "rule": "random HasOrAdd/Put/Remove/ImmunizeKeys/Clear histories over 4-12 keys through ImmunityCache and CrossTxCache, 1-16 chunks, capacities at their lower bounds, sizes 0..500; thorough adds all histories of length 5 over an 11-operation alphabet (single chunk); distinct = distinct (operation kind, canonical output incl. full dump) pairs Also: one ImmunizeKeys batch falling almost entirely into one chunk of a multi-chunk cache, then both chunks filled until they evict.",
        "exhaustive": "thorough: all 11^5 histories over {hoa/rm/imm x 3 keys, 2 filler adds}, one chunk, capacity 4",
        "assumptions": ["Go maps and container/list are modelled (association lists, lists); chunk routing by fnv32 is modelled exactly; item sizes are >= 0"],
    },
    "C15": {
        "theorems": ["SV.Props.C15.sized_lru_refines_reference", "SV.Props.C15.plain_lru_refines_reference", "SV.Props.C15.reference_never_evicts_just_written", "SV.Props.C15.reference_evicts_least_recent_first", "SV.Props.C15.reference_flags_truthful", "SV.Props.C15.reference_bytes_is_sum", "SV.Props.C15.source_eviction_test_is_the_models", "SV.Props.C15.invariant_put", "SV.Props.C15.invariant_hasOrAdd", "SV.Props.C15.invariant_get", "SV.Props.C15.invariant_remove", "SV.Props.C15.eviction_drops_lru_suffix", "SV.Props.C15.eviction_minimal", "SV.Props.C15.put_refreshes", "SV.Props.C15.negative_size_rejected", "SV.Props.C15.evicted_flag_truthful", "SV.Props.C15.get_refreshes", "SV.Props.C15.hasOrAdd_flags", "SV.Props.C15.simple_bound", "SV.Props.C15.simple_evicts_lru", "SV.Props.C15.put_invokes_each_handler_once", "SV.Props.C15.hasOrAdd_invokes_iff_added", "SV.Props.C15.registry_is_a_set", "SV.Props.C15.legacy_F11", "SV.Props.C15.library_lru_refines_reference", "SV.Props.C15.library_lru_never_exceeds_size", "SV.Props.C15.library_lru_add_evicts_least_recent", "SV.Props.C15.two_structure_sized_lru_refines_reference", "SV.Props.C15.two_structure_sized_lru_len_bound", "SV.Props.C15.two_structure_sized_lru_bytes_bound"],
        "modules": ["SV.Props.C15"],
        "runs": [{"component": "lru", "thorough_seeds": 2}],
        "rule": "random Put/HasOrAdd/Get/Peek/Has/Remove/Clear/Register/UnRegister histories over 3-8 keys on lrucache.NewCache (hashicorp LRU) and NewCacheWithSizeInBytes (capacityLRU), capacities 1-6, byte capacities 1..100000, sizes -3..1000; handler invocations collected per call; distinct = distinct (operation kind, canonical output incl. Keys order, Len, bytes, handler multiset) pairs",
        "exhaustive": "thorough: all 21^4 histories over {put k (sizes 0,2,4,5), hoa k, get k, rm k} x 3 keys on a sized cache cap=2 bytes=4",
        "assumptions": ["hashicorp/golang-lru v0.6.0 simplelru and container/list are modelled from their source; handlers run on goroutines: the harness waits for quiescence (bounded) before reading the invocation multiset"],
    },
    "C08": {
        "theorems": ["SV.Props.C08.sharded_history_refines_map", "SV.Props.C08.batch_operations_have_the_models_effects", "SV.Props.C08.source_flush_test_is_the_models", "SV.Props.C08.get_is_logical_map", "SV.Props.C08.has_agrees_with_get", "SV.Props.C08.put_then_read", "SV.Props.C08.remove_then_read", "SV.Props.C08.flush_invisible", "SV.Props.C08.history_refines_map", "SV.Props.C08.mem_is_a_map", "SV.Props.C08.legacy_F8"],
        "modules": ["SV.Props.C08"],
        "runs": [{"component": "persist", "thorough_seeds": 2}],
        "rule": "random Put/Remove/tick/Close+reopen/RangeKeys histories over 3-7 keys (values nil, empty, short, long) on leveldb.DB, leveldb.SerialDB, memorydb and the sharded persister over each (2,3,5 shards), MaxBatchSize 1..100, real LevelDB directories, timer flushes by real waiting (BatchDelaySeconds=1); Get/Has of every key after every operation; distinct = distinct (operation kind, full read-back) pairs Also: values of 4 KiB..1 MiB+ (run-length token on the line protocol), three histories with hundreds of keys (enumeration after reopen, asked before any read).",
        "assumptions": ["goleveldb contract: Write(batch) applies the batch atomically and in order, Get/Has/NewIterator read the applied writes, Close/Open preserve them", "timer flush is modelled as an explicit tick event; the harness waits BatchDelaySeconds+0.35s for it"],
    },
    "C09": {
        "theorems": ["SV.Props.C09.sharded_history_refines_map", "SV.Props.C09.sharded_reopen_preserves_map", "SV.Props.C09.sharded_range_after_reopen", "SV.Props.C09.batch_operations_have_the_models_effects", "SV.Props.C09.reopen_preserves_map", "SV.Props.C09.reopen_keeps_invariant", "SV.Props.C09.cycles", "SV.Props.C09.range_after_close"],
        "modules": ["SV.Props.C09"],
        "runs": [{"component": "persist", "thorough_seeds": 2}],
        "rule": "random Put/Remove/tick/Close+reopen/RangeKeys histories over 3-7 keys (values nil, empty, short, long) on leveldb.DB, leveldb.SerialDB, memorydb and the sharded persister over each (2,3,5 shards), MaxBatchSize 1..100, real LevelDB directories, timer flushes by real waiting (BatchDelaySeconds=1); Get/Has of every key after every operation; distinct = distinct (operation kind, full read-back) pairs Also: values of 4 KiB..1 MiB+ (run-length token on the line protocol), three histories with hundreds of keys (enumeration after reopen, asked before any read).",
        "assumptions": ["goleveldb contract: Write(batch) applies the batch atomically and in order, Get/Has/NewIterator read the applied writes, Close/Open preserve them", "timer flush is modelled as an explicit tick event; the harness waits BatchDelaySeconds+0.35s for it"],
    },
    "C16": {
        "theorems": ["SV.Props.C16.unit_operations_hold_the_lock_throughout", "SV.Props.C16.factory_refuses_batch_larger_than_cache", "SV.Props.C16.real_cachers_satisfy_the_contract", "SV.Props.C16.unit_over_size_lru", "SV.Props.C16.unit_over_lru", "SV.Props.C16.unit_over_fifo", "SV.Props.C16.real_unit_rejected_put_not_served", "SV.Props.C16.behaves_like_map_of_acknowledged_writes", "SV.Props.C16.rejected_put", "SV.Props.C16.remove_both_layers", "SV.Props.C16.get_is_readonly"],
        "modules": ["SV.Props.C16"],
        "runs": [{"component": "unit", "thorough_seeds": 2}],
        "exhaustive": "thorough: all 13^5 histories over {put ok/rejected, get ok/failing, rm ok/rejected} x 2 keys + clearcache, for the LRU, the size LRU and the FIFO cache at capacity 1 (3 x 371293 histories)",
        "rule": 'random Put/Get/Has/Remove/ClearCache/GetBulk histories on storageUnit.Unit over every cacher the factory builds (LRU, SizeLRU, FIFOSharded) at capacities 1-6, over memorydb behind a fault-injecting wrapper (Put/Get/Remove rejected at random positions) and over real leveldb.DB / SerialDB; after every operation the injected cacher is read back (Keys/Peek) and fed to the model as the eviction outcome; distinct = distinct (operation kind, canonical output) pairs Also: empty values (a value like any other).',
        "assumptions": ['the cacher is modelled as ANY cache that only returns what was put and not removed since (its eviction outcome is an input)', 'persister = map with a fault oracle'],
    },
    "C17": {
        "theorems": ["SV.Props.C17.adapter_put_holds_the_lock_throughout", "SV.Props.C17.source_eviction_test_is_the_models", "SV.Props.C17.never_loses_all_entry_points", "SV.Props.C17.live_keys_characterised", "SV.Props.C17.hasOrAdd_is_has_then_put", "SV.Props.C17.hasOrAdd_spills_before_dropping", "SV.Props.C17.never_loses", "SV.Props.C17.spills_before_dropping", "SV.Props.C17.legacy_F11"],
        "modules": ["SV.Props.C17"],
        "runs": [{"component": "adapter", "thorough_seeds": 2}],
        "exhaustive": "thorough: all 13^5 histories over {put small, put large, hoa, get} x 3 keys + rm, memory tier of 2 items / 12 bytes",
        "rule": 'random Put/Get/Has/Peek histories (one third) and histories that also use HasOrAdd/Remove/Clear/Len/Keys (two thirds) on storageCacherAdapter over the real capacityLRU (item capacities 1-4, byte capacities 1..100000, sizes 0..1000, re-puts with other sizes) and memorydb / real LevelDB; each key bound to one immutable value; distinct = distinct (operation kind, canonical output) pairs Also: what Get returned is kept by the caller and re-checked after later operations.',
        "assumptions": ['values serialise to >= 1 byte (the adapter skips empty serialisations); sizes are >= 0 (negative sizes are rejected by the LRU)'],
    },
    "C20": {
        "theorems": ["SV.Props.C20.ring_refines_age_model", "SV.Props.C20.ring_cache_refines_age_model", "SV.Props.C20.ring_never_more_than_size", "SV.Props.C20.ring_just_inserted_resident", "SV.Props.C20.ring_clear_state", "SV.Props.C20.never_more_than_size", "SV.Props.C20.invariant_put", "SV.Props.C20.invariant_hasOrAdd", "SV.Props.C20.invariant_remove", "SV.Props.C20.just_inserted_resident", "SV.Props.C20.survives_guaranteed_insertions", "SV.Props.C20.slots_per_shard", "SV.Props.C20.fifo_order", "SV.Props.C20.views_agree", "SV.Props.C20.hasOrAdd_inserts_iff_absent", "SV.Props.C20.put_invokes_each_handler_once"],
        "modules": ["SV.Props.C20"],
        "runs": [{"component": "fifo", "thorough_seeds": 2}],
        "rule": 'random Put/HasOrAdd/Get/Remove/Clear/Register/UnRegister histories on fifocache.NewShardedCache, 1-4 shards, sizes from 2 slots per shard; per-shard Keys order compared exactly with one shard; thorough adds all 12^5 histories over 4 keys (one shard, size 3); distinct = distinct (operation kind, canonical output) pairs The residency guarantee is read as the theorem reads it (still resident after ceil(S/N)-2 further insertions).',
        "assumptions": ['multiversx/concurrent-map v0.1.4 is modelled from its source (age-ordered view of the ring); keys are non-empty'],
    },
    "C18": {
        "theorems": ["SV.Props.C18.source_expiry_test_is_the_models", "SV.Props.C18.present_at_every_query_until_span_elapsed", "SV.Props.C18.gone_after_a_sweep_past_the_span", "SV.Props.C18.upsert_never_shortens_life", "SV.Props.C18.cacher_serves_latest_put_until_expiry", "SV.Props.C18.brackets_sound_hasOrAdd", "SV.Props.C18.hasOrAdd_flags_decided_when_certain", "SV.Props.C18.verdict_sound_for_every_history", "SV.Props.C18.retained_until_span_elapsed", "SV.Props.C18.dropped_by_later_sweep", "SV.Props.C18.upsert_max_and_restart", "SV.Props.C18.add_replaces_and_restarts", "SV.Props.C18.hasOrAdd_flags", "SV.Props.C18.brackets_sound_add", "SV.Props.C18.brackets_sound_upsert", "SV.Props.C18.brackets_sound_sweep", "SV.Props.C18.verdict_sound", "SV.Props.C18.source_upsert_span_is_the_models"],
        "modules": ["SV.Props.C18"],
        "runs": [{"component": "timecache", "thorough_seeds": 2}],
        "rule": 'histories of Add/AddWithSpan/Upsert/Put/HasOrAdd/Remove/Sweep/sleep on TimeCache, peerTimeCache and timeCacher with every call bracketed by monotonic clock readings fed to the model (two exact models bound the unknown reading: must/may); spans 40-300 ms (1 s for timeCacher); a liveness probe for the self-sweeper; distinct = distinct (operation kind, canonical output) pairs Also: spans up to the largest Duration; re-adds of a present key with a shorter span; an Upsert of an expired, unswept key racing a Sweep over a large cache (either order leaves the key present).',
        "assumptions": ['clock readings are only known up to the bracket taken around each call; the model answers three-valued and the implementation must be inside', 'time.Now is monotone'],
    },
    "C11": {
        "theorems": ["SV.Props.C11.block_structure_matches_source", "SV.Props.C11.linearizable", "SV.Props.C11.read_window", "SV.Props.C11.read_never_misses_a_returned_write", "SV.Props.C11.reads_never_go_backwards", "SV.Props.C11.flush_is_invisible", "SV.Props.C11.write_takes_effect_at_one_block"],
        "modules": ["SV.Props.C11"],
        "runs": [{"component": "concp", "thorough_seeds": 2}],
        "rule": "leveldb.DB and SerialDB, batch sizes 1-4: (1) forced schedules over 2-3 goroutines parked at every block boundary (verifPoint hooks) and replayed on the Lean block-interleaving model; (2) window probes: one operation parked at a hook (incl. inside the flush hand-over and between the batch reads) while probes run, history checked by porcupine; (3) randomised stress with delay injection at the hooks, checked by porcupine; distinct = distinct (operation kind, output) pairs Windows also stop a writer at the entry of the batch's own Put/Delete.",
        "assumptions": ["the all-schedules theorem is about the block-interleaving model (critical sections as atomic blocks, block structure tied to the source by regenerated facts and by forced schedules); Go memory-model races inside a block, fairness and goleveldb's internal concurrency are outside the model", "porcupine (linearizability checker) is a search aid for failing inputs, not a proof"],
    },
    "C10": {
        "theorems": ["SV.Props.C10.source_flush_test_is_the_models", "SV.Props.C10.crash_recovers_a_flush_boundary", "SV.Props.C10.acknowledged_write_flushed_within", "SV.Props.C10.timer_and_close_are_boundaries", "SV.Props.C10.lost_updates_are_bounded", "SV.Props.C10.driver_judgement_sound", "SV.Props.C10.driver_judgement_complete", "SV.Props.C10.every_write_is_synced", "SV.Props.C10.put_db_atomic", "SV.Props.C10.remove_db_atomic", "SV.Props.C10.flush_db", "SV.Props.C10.crash_during_flushing_put", "SV.Props.C10.crash_during_non_flushing_put", "SV.Props.C10.flushed_state_is_the_map", "SV.Props.C10.at_risk_bounded", "SV.Props.C10.invariant_put", "SV.Props.C10.invariant_remove"],
        "modules": ["SV.Props.C10"],
        "runs": [{"component": "crash", "thorough_seeds": 2}],
        "rule": "workloads of Put/Remove/tick/Close/reopen on leveldb.DB and SerialDB (batch sizes 1-5) over a recording goleveldb storage; at EVERY storage event (create/write/sync/setmeta/remove/rename) during a call and at every operation boundary crash images are materialised (unsynced tail none / torn at a random byte / all), reopened with the unmodified constructors and dumped by RangeKeys; the Lean model decides whether each recovered map is an allowed flush boundary; distinct = distinct (operation kind, output) pairs",
        "assumptions": ["that goleveldb applies a synced batch atomically and recovers it from a torn journal is observed on the sampled crash images, not proved", "that the timer fires within BatchDelaySeconds and kernel fsync semantics are outside the model", "Sync:true on every LevelDB write is a regenerated fact"],
    },
    "C14": {
        "theorems": ["SV.Props.C14.counters_are_paired_with_map_updates", "SV.Props.C14.addTx_is_one_critical_section", "SV.Props.C14.eviction_removals_are_one_critical_section", "SV.Props.C14.no_orphan_under_any_interleaving_of_sections", "SV.Props.C14.quiescent_pool_has_no_unreachable_transaction", "SV.Props.C14.indexes_well_formed_under_any_interleaving", "SV.Props.C14.sequential_add_is_the_two_sections", "SV.Props.C14.two_sided_agreement_is_not_invariant", "SV.Props.C14.concurrent_adds_all_present_and_ordered", "SV.Props.C14.concurrent_adds_commute", "SV.Props.C14.selection_after_concurrent_adds", "SV.Props.C14.no_lock_cycle", "SV.Props.C14.components_are_single_critical_sections", "SV.Props.C14.concurrent_selection_nonce_runs", "SV.Props.C14.concurrent_selection_budgets", "SV.Props.C14.concurrent_adds_sorted"],
        "modules": ["SV.Props.C14"],
        "runs": [{"component": "conc14", "thorough_seeds": 2, "race": True}],
        "rule": "concurrent workloads (4-8 goroutines, GOMAXPROCS 1/2/4/16) on TxCache (add/remove/select/iterate with eviction; adds only), ImmunityCache, LRU, sized LRU, FIFO cache, TimeCache and ConcurrentMap from a binary built with -race; yields injected at the txcache verifPoint hooks and inside host/session callbacks; oracles: no race / panic / deadlock (watchdog), C01/C02 on every concurrent selection, all concurrently added transactions present and ordered, immunized items survive, size bounds, quiescent CountTx/NumBytes; distinct = distinct (operation kind, output) pairs Also: iteration with a yielding callback against Clear on the immunity cache; Clear inside the mempool stress; at quiescence every pooled transaction must be in its sender's list.",
        "assumptions": ["absence of data races, panics and runtime deadlocks is exercised under the race detector, not proved", "the Lean part: lock-order and critical-section facts regenerated from the source, and the sequential theorems they make applicable to every schedule"],
    },
}
