"""Per-property configuration of ./check: which Lean theorems are the obligations, which
correspondence runs tie the model to the code, and what is assumed."""

PROPS = {
    "C19": {
        "theorems": [
            "SV.Props.C19.id_in_range",
            "SV.Props.C19.id_depends_on_suffix_only",
            "SV.Props.C19.id_onto",
            "SV.Props.C19.mask_segments_sound",
        ],
        "modules": ["SV.Props.C19"],
        "runs": [{"component": "shard", "thorough_seeds": 2}],
        "rule": "histories of masks/id/onto/maskseg operations; distinct = distinct (operation kind, output) pairs observed on the implementation; "
                "maskseg scans EVERY shard count of its interval on the float code and compares the run-length encoding with the model's (sound by mask_segments_sound)",
        "exhaustive": "quick: all n<=64 (masks, onto, all 1-byte keys stride<=7, sampled 2-byte keys), masks of every n in [2,2^22] and +-2048 around 2^23..2^31; "
                      "thorough: all n<=512, all 2-byte keys for n<=40, masks of every n in [2,2^31-1]",
        "assumptions": [
            "float64 math.Log2/Ceil/Floor are outside the kernel: equality of the Go masks with the integer formulas is established by exhaustive comparison (thorough: whole domain), not by a theorem",
            "the sharded persister's map[uint32]Persister lookup is Go map semantics",
        ],
    },
    "C01": {
        "theorems": [],
        "modules": ["SV.Props.C01"],
        "runs": [{"component": "txcache", "thorough_seeds": 3}],
        "rule": "random add/rm/clear/sel histories over a small transaction alphabet (hash determines content) under boundary-biased configurations; distinct = distinct (operation kind, canonical output incl. full API dump) pairs observed on the implementation",
        "assumptions": [
            "Go container/heap, container/list and Go maps are modelled (extract-best over a list, lists, association lists); fees/values/balances are non-negative big integers; hash determines content",
            "the selection time budget is modelled by an arbitrary stop oracle consulted where the code reads the clock",
        ],
    },
    "C02": {
        "theorems": [],
        "modules": ["SV.Props.C02"],
        "runs": [{"component": "txcache", "thorough_seeds": 3}],
        "rule": "random add/rm/clear/sel histories over a small transaction alphabet (hash determines content) under boundary-biased configurations; distinct = distinct (operation kind, canonical output incl. full API dump) pairs observed on the implementation",
        "assumptions": [
            "Go container/heap, container/list and Go maps are modelled (extract-best over a list, lists, association lists); fees/values/balances are non-negative big integers; hash determines content",
            "the selection time budget is modelled by an arbitrary stop oracle consulted where the code reads the clock",
        ],
    },
    "C03": {
        "theorems": [],
        "modules": ["SV.Props.C03"],
        "runs": [{"component": "txcache", "thorough_seeds": 3}],
        "rule": "random add/rm/clear/sel histories over a small transaction alphabet (hash determines content) under boundary-biased configurations; distinct = distinct (operation kind, canonical output incl. full API dump) pairs observed on the implementation",
        "assumptions": [
            "Go container/heap, container/list and Go maps are modelled (extract-best over a list, lists, association lists); fees/values/balances are non-negative big integers; hash determines content",
            "the selection time budget is modelled by an arbitrary stop oracle consulted where the code reads the clock",
        ],
    },
    "C04": {
        "theorems": [],
        "modules": ["SV.Props.C04"],
        "runs": [{"component": "txcache", "thorough_seeds": 3}],
        "rule": "random add/rm/clear/sel histories over a small transaction alphabet (hash determines content) under boundary-biased configurations; distinct = distinct (operation kind, canonical output incl. full API dump) pairs observed on the implementation",
        "assumptions": [
            "Go container/heap, container/list and Go maps are modelled (extract-best over a list, lists, association lists); fees/values/balances are non-negative big integers; hash determines content",
            "the selection time budget is modelled by an arbitrary stop oracle consulted where the code reads the clock",
        ],
    },
    "C05": {
        "theorems": [],
        "modules": ["SV.Props.C05"],
        "runs": [{"component": "txcache", "thorough_seeds": 3}],
        "rule": "random add/rm/clear/sel histories over a small transaction alphabet (hash determines content) under boundary-biased configurations; distinct = distinct (operation kind, canonical output incl. full API dump) pairs observed on the implementation",
        "assumptions": [
            "Go container/heap, container/list and Go maps are modelled (extract-best over a list, lists, association lists); fees/values/balances are non-negative big integers; hash determines content",
            "the selection time budget is modelled by an arbitrary stop oracle consulted where the code reads the clock",
        ],
    },
    "C06": {
        "theorems": [],
        "modules": ["SV.Props.C06"],
        "runs": [{"component": "txcache", "thorough_seeds": 3}],
        "rule": "random add/rm/clear/sel histories over a small transaction alphabet (hash determines content) under boundary-biased configurations; distinct = distinct (operation kind, canonical output incl. full API dump) pairs observed on the implementation",
        "assumptions": [
            "Go container/heap, container/list and Go maps are modelled (extract-best over a list, lists, association lists); fees/values/balances are non-negative big integers; hash determines content",
            "the selection time budget is modelled by an arbitrary stop oracle consulted where the code reads the clock",
        ],
    },
    "C07": {
        "theorems": [],
        "modules": ["SV.Props.C07"],
        "runs": [{"component": "txcache", "thorough_seeds": 3}],
        "rule": "random add/rm/clear/sel histories over a small transaction alphabet (hash determines content) under boundary-biased configurations; distinct = distinct (operation kind, canonical output incl. full API dump) pairs observed on the implementation",
        "assumptions": [
            "Go container/heap, container/list and Go maps are modelled (extract-best over a list, lists, association lists); fees/values/balances are non-negative big integers; hash determines content",
            "the selection time budget is modelled by an arbitrary stop oracle consulted where the code reads the clock",
        ],
    },
    "C12": {
        "theorems": [],
        "modules": ["SV.Props.C12"],
        "runs": [{"component": "immunity", "thorough_seeds": 2}],
        "rule": "random HasOrAdd/Put/Remove/ImmunizeKeys/Clear histories over 4-12 keys through ImmunityCache and CrossTxCache, 1-16 chunks, capacities at their lower bounds, sizes 0..500; thorough adds all histories of length 5 over an 11-operation alphabet (single chunk); distinct = distinct (operation kind, canonical output incl. full dump) pairs",
        "exhaustive": "thorough: all 11^5 histories over {hoa/rm/imm x 3 keys, 2 filler adds}, one chunk, capacity 4",
        "assumptions": ["Go maps and container/list are modelled (association lists, lists); chunk routing by fnv32 is modelled exactly; item sizes are >= 0"],
    },
    "C13": {
        "theorems": [],
        "modules": ["SV.Props.C13"],
        "runs": [{"component": "immunity", "thorough_seeds": 2}],
        "rule": "random HasOrAdd/Put/Remove/ImmunizeKeys/Clear histories over 4-12 keys through ImmunityCache and CrossTxCache, 1-16 chunks, capacities at their lower bounds, sizes 0..500; thorough adds all histories of length 5 over an 11-operation alphabet (single chunk); distinct = distinct (operation kind, canonical output incl. full dump) pairs",
        "exhaustive": "thorough: all 11^5 histories over {hoa/rm/imm x 3 keys, 2 filler adds}, one chunk, capacity 4",
        "assumptions": ["Go maps and container/list are modelled (association lists, lists); chunk routing by fnv32 is modelled exactly; item sizes are >= 0"],
    },
    "C15": {
        "theorems": [],
        "modules": ["SV.Props.C15"],
        "runs": [{"component": "lru", "thorough_seeds": 2}],
        "rule": "random Put/HasOrAdd/Get/Peek/Has/Remove/Clear/Register/UnRegister histories over 3-8 keys on lrucache.NewCache (hashicorp LRU) and NewCacheWithSizeInBytes (capacityLRU), capacities 1-6, byte capacities 1..100000, sizes -3..1000; handler invocations collected per call; distinct = distinct (operation kind, canonical output incl. Keys order, Len, bytes, handler multiset) pairs",
        "exhaustive": "thorough: all 21^4 histories over {put k (sizes 0,2,4,5), hoa k, get k, rm k} x 3 keys on a sized cache cap=2 bytes=4",
        "assumptions": ["hashicorp/golang-lru v0.6.0 simplelru and container/list are modelled from their source; handlers run on goroutines: the harness waits for quiescence (bounded) before reading the invocation multiset"],
    },
    "C08": {
        "theorems": [],
        "modules": ["SV.Props.C08"],
        "runs": [{"component": "persist", "thorough_seeds": 2}],
        "rule": "random Put/Remove/tick/Close+reopen/RangeKeys histories over 3-7 keys (values nil, empty, short, long) on leveldb.DB, leveldb.SerialDB, memorydb and the sharded persister over each (2,3,5 shards), MaxBatchSize 1..100, real LevelDB directories, timer flushes by real waiting (BatchDelaySeconds=1); Get/Has of every key after every operation; distinct = distinct (operation kind, full read-back) pairs",
        "assumptions": ["goleveldb contract: Write(batch) applies the batch atomically and in order, Get/Has/NewIterator read the applied writes, Close/Open preserve them", "timer flush is modelled as an explicit tick event; the harness waits BatchDelaySeconds+0.35s for it"],
    },
    "C09": {
        "theorems": [],
        "modules": ["SV.Props.C09"],
        "runs": [{"component": "persist", "thorough_seeds": 2}],
        "rule": "random Put/Remove/tick/Close+reopen/RangeKeys histories over 3-7 keys (values nil, empty, short, long) on leveldb.DB, leveldb.SerialDB, memorydb and the sharded persister over each (2,3,5 shards), MaxBatchSize 1..100, real LevelDB directories, timer flushes by real waiting (BatchDelaySeconds=1); Get/Has of every key after every operation; distinct = distinct (operation kind, full read-back) pairs",
        "assumptions": ["goleveldb contract: Write(batch) applies the batch atomically and in order, Get/Has/NewIterator read the applied writes, Close/Open preserve them", "timer flush is modelled as an explicit tick event; the harness waits BatchDelaySeconds+0.35s for it"],
    },
    "C16": {
        "theorems": [],
        "modules": ["SV.Props.C16"],
        "runs": [{"component": "unit", "thorough_seeds": 2}],
        "rule": 'random Put/Get/Has/Remove/ClearCache/GetBulk histories on storageUnit.Unit over every cacher the factory builds (LRU, SizeLRU, FIFOSharded) at capacities 1-6, over memorydb behind a fault-injecting wrapper (Put/Get/Remove rejected at random positions) and over real leveldb.DB / SerialDB; after every operation the injected cacher is read back (Keys/Peek) and fed to the model as the eviction outcome; distinct = distinct (operation kind, canonical output) pairs',
        "assumptions": ['the cacher is modelled as ANY cache that only returns what was put and not removed since (its eviction outcome is an input)', 'persister = map with a fault oracle'],
    },
    "C17": {
        "theorems": [],
        "modules": ["SV.Props.C17"],
        "runs": [{"component": "adapter", "thorough_seeds": 2}],
        "rule": 'random Put/Get/Has/Peek histories on storageCacherAdapter over the real capacityLRU (item capacities 1-4, byte capacities 1..100000, sizes 0..1000, re-puts with other sizes) and memorydb / real LevelDB; each key bound to one immutable value; distinct = distinct (operation kind, canonical output) pairs',
        "assumptions": ['values serialise to >= 1 byte (the adapter skips empty serialisations); sizes are >= 0 (negative sizes are rejected by the LRU)'],
    },
    "C20": {
        "theorems": [],
        "modules": ["SV.Props.C20"],
        "runs": [{"component": "fifo", "thorough_seeds": 2}],
        "rule": 'random Put/HasOrAdd/Get/Remove/Clear/Register/UnRegister histories on fifocache.NewShardedCache, 1-4 shards, sizes from 2 slots per shard; per-shard Keys order compared exactly with one shard; thorough adds all 12^5 histories over 4 keys (one shard, size 3); distinct = distinct (operation kind, canonical output) pairs',
        "assumptions": ['multiversx/concurrent-map v0.1.4 is modelled from its source (age-ordered view of the ring); keys are non-empty'],
    },
    "C18": {
        "theorems": [],
        "modules": ["SV.Props.C18"],
        "runs": [{"component": "timecache", "thorough_seeds": 2}],
        "rule": 'histories of Add/AddWithSpan/Upsert/Put/HasOrAdd/Remove/Sweep/sleep on TimeCache, peerTimeCache and timeCacher with every call bracketed by monotonic clock readings fed to the model (two exact models bound the unknown reading: must/may); spans 40-300 ms (1 s for timeCacher); a liveness probe for the self-sweeper; distinct = distinct (operation kind, canonical output) pairs',
        "assumptions": ['clock readings are only known up to the bracket taken around each call; the model answers three-valued and the implementation must be inside', 'time.Now is monotone'],
    },
    "C11": {
        "theorems": [],
        "modules": ["SV.Props.C11"],
        "runs": [{"component": "concp", "thorough_seeds": 2}],
        "rule": "leveldb.DB and SerialDB, batch sizes 1-4: (1) forced schedules over 2-3 goroutines parked at every block boundary (verifPoint hooks) and replayed on the Lean block-interleaving model; (2) window probes: one operation parked at a hook (incl. inside the flush hand-over and between the batch reads) while probes run, history checked by porcupine; (3) randomised stress with delay injection at the hooks, checked by porcupine; distinct = distinct (operation kind, output) pairs",
        "assumptions": ["the all-schedules theorem is about the block-interleaving model (critical sections as atomic blocks, block structure tied to the source by regenerated facts and by forced schedules); Go memory-model races inside a block, fairness and goleveldb's internal concurrency are outside the model", "porcupine (linearizability checker) is a search aid for failing inputs, not a proof"],
    },
    "C10": {
        "theorems": [],
        "modules": ["SV.Props.C10"],
        "runs": [{"component": "crash", "thorough_seeds": 2}],
        "rule": "workloads of Put/Remove/tick/Close/reopen on leveldb.DB and SerialDB (batch sizes 1-5) over a recording goleveldb storage; at EVERY storage event (create/write/sync/setmeta/remove/rename) during a call and at every operation boundary crash images are materialised (unsynced tail none / torn at a random byte / all), reopened with the unmodified constructors and dumped by RangeKeys; the Lean model decides whether each recovered map is an allowed flush boundary; distinct = distinct (operation kind, output) pairs",
        "assumptions": ["that goleveldb applies a synced batch atomically and recovers it from a torn journal is observed on the sampled crash images, not proved", "that the timer fires within BatchDelaySeconds and kernel fsync semantics are outside the model", "Sync:true on every LevelDB write is a regenerated fact"],
    },
    "C14": {
        "theorems": [],
        "modules": ["SV.Props.C14"],
        "runs": [{"component": "conc14", "thorough_seeds": 2, "race": True}],
        "rule": "concurrent workloads (4-8 goroutines, GOMAXPROCS 1/2/4/16) on TxCache (add/remove/select/iterate with eviction; adds only), ImmunityCache, LRU, sized LRU, FIFO cache, TimeCache and ConcurrentMap from a binary built with -race; yields injected at the txcache verifPoint hooks and inside host/session callbacks; oracles: no race / panic / deadlock (watchdog), C01/C02 on every concurrent selection, all concurrently added transactions present and ordered, immunized items survive, size bounds, quiescent CountTx/NumBytes; distinct = distinct (operation kind, output) pairs",
        "assumptions": ["absence of data races, panics and runtime deadlocks is exercised under the race detector, not proved", "the Lean part: lock-order and critical-section facts regenerated from the source, and the sequential theorems they make applicable to every schedule"],
    },
}
