#!/usr/bin/env python3
"""matrix2md — render seeded/MATRIX.json (written by tools/seedmatrix.py) as the markdown table of DESIGN.md section 0.5
and splice it between the markers <!-- SEEDTABLE:BEGIN --> / <!-- SEEDTABLE:END -->."""
import json, os, re
ROOT = os.path.dirname(os.path.dirname(os.path.abspath(__file__)))
m = json.load(open(os.path.join(ROOT, "seeded", "MATRIX.json")))
rows = ["| seed | breaks | what was changed (needs …) | own check | failing input | also flagged by |", "|---|---|---|---|---|---|"]
n = hit = inp = 0
for sid in sorted(m):
    r = m[sid]
    meta = json.load(open(os.path.join(ROOT, "seeded", sid, "meta.json")))
    what = re.sub(r"\s+", " ", (meta.get("summary") or ""))[:170].replace("|", "/")
    needs = re.sub(r"\s+", " ", (meta.get("needs") or ""))[:110].replace("|", "/")
    t = r.get("property")
    det = r.get("detected_by") or []
    own = "yes" if t in det else "**no**"
    fi = "yes" if r.get("target_with_input") else ("—" if t not in det else "no (obligation / correspondence only)")
    others = ", ".join(p for p in det if p != t) or "—"
    rows.append("| %s | %s | %s … *needs:* %s | %s | %s | %s |" % (sid, t, what, needs, own, fi, others))
    n += 1
    hit += t in det
    inp += bool(r.get("target_with_input"))
summary = ("%d seeded changes, each confirmed in a scratch worktree (demonstration fails with the change and passes without it; the "
           "unedited suite passes with it). Quick tier, seed 1, checks of the touched component family run in a scratch copy of "
           "/verif against a scratch worktree of /repo with the patch applied: **%d / %d caught by the check of the property they were "
           "written against, %d with a concrete failing input** (the others by a broken obligation or diverging correspondence "
           "only, or — for changes that need an interleaving — by C14's / C11's concurrent components).\n\n" % (n, hit, n, inp))
table = summary + "\n".join(rows) + "\n"
open(os.path.join(ROOT, "seeded", "MATRIX.md"), "w").write(table)
p = os.path.join(ROOT, "DESIGN.md")
s = open(p).read()
if "<!-- SEEDTABLE:BEGIN -->" in s:
    s = re.sub(r"<!-- SEEDTABLE:BEGIN -->.*?<!-- SEEDTABLE:END -->", lambda _: "<!-- SEEDTABLE:BEGIN -->\n" + table + "<!-- SEEDTABLE:END -->", s, flags=re.S)
else:
    s = s.replace("SEEDTABLE\n", "<!-- SEEDTABLE:BEGIN -->\n" + table + "<!-- SEEDTABLE:END -->\n", 1)
open(p, "w").write(s)
print(summary)
