module extract

go 1.20
