// trans.go — a tiny Go→Lean translator for the PURE LEAF LOGIC of the repository: comparators, threshold tests, gap /
// duplicate detectors, loop-exit and expiry conditions.  For each function listed in `transSpecs` the current source is parsed
// (go/ast, no type information) and a Lean definition is emitted into SV/Generated/Funcs.lean whose parameters are the
// function's LEAVES — the selector chains, argument-less method calls, parameters and `len(..)` it reads (parameters in order
// of first occurrence, always passed by name in the proofs; the pinned `_leaves` list is sorted).  SV/GenProofs.lean proves each generated definition equal to the corresponding expression of the hand-written
// model, so a changed comparison, boundary, tie-break or operand in the source breaks a proof obligation on the next run.
//
// Supported statements: `x := e`, `return e`, `if c { … }` (with fall-through), expression statements (logging) are
// skipped, `x++`.  Supported expressions: integer literals, comparisons, + - * / %, && || !, conversions int/uint64/int64/
// uint32/… (64-bit types: identity on mathematical integers, wrap-around at 2^64 is NOT modelled; narrower types: wrapU/wrapS), `len(x)`, `bytes.Compare(a,b)`,
// `a.Cmp(b)` (big.Int), `x == nil` / `x != nil`, `math.MaxUint64`.  Anything else makes the definition ABSENT (the dependent
// theorem then no longer type-checks and the check reports the broken obligation).
package main

import (
	"fmt"
	"go/ast"
	"go/parser"
	"go/printer"
	"go/token"
	"path/filepath"
	"regexp"
	"sort"
	"strings"
)

type transSpec struct {
	file string // relative to the repo root
	recv string // receiver type name ("" for plain functions)
	name string
	lean string // Lean definition name
	mode string // "func": whole body; "breaks": disjunction of the conditions that lead to `break` inside the function's for-loop;
	//             "ifcond:<needle>": the condition of the first `if` whose body source contains <needle>;
	//             "effect:<lvalue>": the net effect of the straight-line body on <lvalue> (a counter), as a term over its old value;
	//             "firstif": the condition of the first `if` of the body (after applying preceding x++ statements)
}

var transSpecs = []transSpec{
	{"txcache/wrappedTransaction.go", "WrappedTransaction", "isTransactionMoreValuableForNetwork", "moreValuable", "func"},
	{"txcache/wrappedTransaction.go", "", "computePricePerUnit", "pricePerUnit", "func"},
	{"txcache/eviction.go", "TxCache", "isCapacityExceeded", "poolExceeded", "func"},
	{"txcache/eviction.go", "TxCache", "areThereTooManyBytes", "tooManyBytes", "func"},
	{"txcache/eviction.go", "TxCache", "areThereTooManySenders", "tooManySenders", "func"},
	{"txcache/eviction.go", "TxCache", "areThereTooManyTxs", "tooManyTxs", "func"},
	{"txcache/txListForSender.go", "txListForSender", "isCapacityExceeded", "senderExceeded", "func"},
	{"txcache/config.go", "ConfigSourceMe", "verify", "txConfigAccepted", "verify"},
	{"txcache/config.go", "ConfigDestinationMe", "verify", "crossConfigAccepted", "verify"},
	{"immunitycache/config.go", "CacheConfig", "Verify", "immunityConfigAccepted", "verify"},
	{"factory/storageUnit.go", "", "NewStorageUnitFromConf", "unitConfRejected", "rejectif"},
	{"txcache/txListForSender.go", "txListForSender", "findInsertionPlace", "insertionStep", "loopstep"},
	{"txcache/txListForSender.go", "txListForSender", "removeTransactionsWithLowerOrEqualNonceReturnHashes", "removeLowerStops", "breaks"},
	{"txcache/txListForSender.go", "txListForSender", "removeTransactionsWithHigherOrEqualNonce", "removeHigherStops", "breaks"},
	{"timecache/timeCacheCore.go", "timeCacheCore", "upsert", "upsertExtendsSpan", "ifcond:existing.span = duration"},
	{"txcache/transactionsHeapItem.go", "transactionsHeapItem", "detectInitialGap", "initialGap", "func"},
	{"txcache/transactionsHeapItem.go", "transactionsHeapItem", "detectMiddleGap", "middleGap", "func"},
	{"txcache/transactionsHeapItem.go", "transactionsHeapItem", "detectLowerNonce", "lowerNonce", "func"},
	{"txcache/transactionsHeapItem.go", "transactionsHeapItem", "detectNonceDuplicate", "nonceDuplicate", "func"},
	{"txcache/selectionSessionWrapper.go", "selectionSessionWrapper", "detectWillFeeExceedBalance", "feeExceedsBalance", "func"},
	{"txcache/selection.go", "", "selectTransactionsFromBunches", "selectionStops", "breaks"},
	{"lrucache/capacity/capacityLRUCache.go", "capacityLRU", "shouldEvict", "lruShouldEvict", "func"},
	{"immunitycache/chunk.go", "immunityChunk", "isCapacityExceededNoLock", "chunkExceeded", "func"},
	{"immunitycache/config.go", "CacheConfig", "getChunkConfig", "chunkMaxNumItems", "retfield:maxNumItems"},
	{"immunitycache/config.go", "CacheConfig", "getChunkConfig", "chunkMaxNumBytes", "retfield:maxNumBytes"},
	{"immunitycache/config.go", "CacheConfig", "getChunkConfig", "chunkNumItemsToEvict", "retfield:numItemsToPreemptivelyEvict"},
	{"timecache/timeCacheCore.go", "timeCacheCore", "sweep", "sweepExpired", "ifcond:delete("},
	{"sharded/shardIDProvider.go", "shardIDProvider", "ComputeId", "shardFallsBackToLowMask", "ifcond:shardIndex = addr & sp.maskLow"},
	{"sharded/shardIDProvider.go", "shardIDProvider", "ComputeId", "shardKeepsWholeKey", "ifcond:startingIndex = len(key) - sp.bytesNeeded"},
	{"lrucache/capacity/capacityLRUCache.go", "capacityLRU", "addNew", "lruBytesAfterAdd", "effect:c.currentCapacityInBytes"},
	{"lrucache/capacity/capacityLRUCache.go", "capacityLRU", "removeElement", "lruBytesAfterRemove", "effect:c.currentCapacityInBytes"},
	{"lrucache/capacity/capacityLRUCache.go", "capacityLRU", "adjustSize", "lruBytesAfterResize", "effect:c.currentCapacityInBytes"},
	{"txcache/txListForSender.go", "txListForSender", "onAddedTransaction", "senderBytesAfterAdd", "effect:listForSender.totalBytes"},
	{"txcache/txListForSender.go", "txListForSender", "onRemovedListElement", "senderBytesAfterRemove", "effect:listForSender.totalBytes"},
	{"immunitycache/chunk.go", "immunityChunk", "trackNumBytesOnAddNoLock", "chunkBytesAfterAdd", "effect:chunk.numBytes"},
	{"immunitycache/chunk.go", "immunityChunk", "trackNumBytesOnRemoveNoLock", "chunkBytesAfterRemove", "effect:chunk.numBytes"},
	{"leveldb/leveldb.go", "DB", "updateBatchWithIncrement", "dbNoFlushNeeded", "firstif"},
	{"leveldb/leveldbSerial.go", "SerialDB", "updateBatchWithIncrement", "serialNoFlushNeeded", "firstif"},
}

type unsupported struct{ msg string }

type leaf struct {
	src  string
	name string
	typ  string // "Int" | "Bool" | "Bytes" | "" (unknown yet)
}

type translator struct {
	fset   *token.FileSet
	leaves []*leaf
	byText map[string]*leaf
	locals map[string]string // local name → Lean name (shadowing by suffix)
	ltype  map[string]string // local name → type ("Int","Bool","") and
	alias  map[string]*leaf  // local that is a bare alias of a leaf (type flows back)
	bumped map[string]int    // leaf text → +n from x++ statements
	env    map[string]string // mode effect: lvalue text → its current value as a Lean term (after the assignments seen so far)
	nlocal int
	// mode loopstep: the distinct ways one iteration of the loop ends other than going on with the next element
	// (`return …` / `break` statements by source text, in order of first occurrence); outcome code = index + 1, 0 = next element
	outcomes []string
	// mode breaks: locals of the loop body defined by an arithmetic expression are substituted where they are read
	inl map[string][2]string
}

func (t *translator) outcome(text string) string {
	text = strings.Join(strings.Fields(text), " ")
	for i, o := range t.outcomes {
		if o == text {
			return fmt.Sprintf("(%d : Int)", i+1)
		}
	}
	t.outcomes = append(t.outcomes, text)
	return fmt.Sprintf("(%d : Int)", len(t.outcomes))
}

func (t *translator) fail(format string, a ...interface{}) {
	panic(unsupported{fmt.Sprintf(format, a...)})
}

func (t *translator) src(n ast.Node) string {
	var sb strings.Builder
	_ = printer.Fprint(&sb, t.fset, n)
	return sb.String()
}

var nonIdent = regexp.MustCompile(`[^A-Za-z0-9]+`)

func (t *translator) leafOf(n ast.Node, want string) string {
	s := t.src(n)
	if v, ok := t.env[s]; ok {
		if v == "" {
			t.fail("`%s` is read after an assignment that could not be translated", s)
		}
		return v
	}
	l, ok := t.byText[s]
	if !ok {
		name := strings.Trim(nonIdent.ReplaceAllString(s, "_"), "_")
		if name == "" || (name[0] >= '0' && name[0] <= '9') {
			name = "v_" + name
		}
		for _, o := range t.leaves {
			if o.name == name {
				name = fmt.Sprintf("%s_%d", name, len(t.leaves))
			}
		}
		l = &leaf{src: s, name: name}
		t.byText[s] = l
		t.leaves = append(t.leaves, l)
	}
	t.want(l, want, s)
	if n, ok := t.bumped[s]; ok && n != 0 {
		return fmt.Sprintf("(%s + %d)", l.name, n)
	}
	return l.name
}

func (t *translator) want(l *leaf, want, s string) {
	if want == "" {
		return
	}
	if l.typ == "" {
		l.typ = want
	} else if l.typ != want {
		t.fail("leaf `%s` is used both as %s and as %s", s, l.typ, want)
	}
}

var convs = map[string]bool{"int": true, "int64": true, "int32": true, "uint64": true, "uint32": true, "uint": true, "float64": false,
	"uint16": true, "uint8": true, "byte": true, "int16": true, "int8": true}

// conversions to a type narrower than 64 bits WRAP (the operand may be a 64-bit quantity: a counter, a size, a length);
// 64-bit conversions stay the identity on mathematical integers (wrap-around at 2^64 is not modelled, see DESIGN 0.4)
var narrow = map[string]string{"uint32": "wrapU 32", "uint16": "wrapU 16", "uint8": "wrapU 8", "byte": "wrapU 8",
	"int32": "wrapS 32", "int16": "wrapS 16", "int8": "wrapS 8"}

// expr translates e; want is the expected Lean type ("Int", "Bool", "Bytes" or "" when unknown); returns (lean, type)
func (t *translator) expr(e ast.Expr, want string) (string, string) {
	switch x := e.(type) {
	case *ast.ParenExpr:
		return t.expr(x.X, want)
	case *ast.BasicLit:
		if x.Kind == token.INT {
			return "(" + x.Value + " : Int)", "Int"
		}
		t.fail("literal %s", x.Value)
	case *ast.Ident:
		if x.Name == "true" || x.Name == "false" {
			return x.Name, "Bool"
		}
		if e, ok := t.inl[x.Name]; ok {
			return e[0], e[1]
		}
		if ln, ok := t.locals[x.Name]; ok {
			ty := t.ltype[x.Name]
			if ty == "" && want != "" {
				t.ltype[x.Name] = want
				if l := t.alias[x.Name]; l != nil {
					t.want(l, want, l.src)
				}
				ty = want
			}
			return ln, ty
		}
		return t.leafOf(x, want), want
	case *ast.SelectorExpr:
		if t.src(x) == "math.MaxUint64" {
			return "(18446744073709551615 : Int)", "Int"
		}
		if t.src(x) == "math.MaxInt64" {
			return "(9223372036854775807 : Int)", "Int"
		}
		return t.leafOf(x, want), want
	case *ast.UnaryExpr:
		if x.Op == token.NOT {
			a, _ := t.expr(x.X, "Bool")
			return "(!" + a + ")", "Bool"
		}
		if x.Op == token.SUB {
			a, _ := t.expr(x.X, "Int")
			return "(-" + a + ")", "Int"
		}
		t.fail("unary operator %s", x.Op)
	case *ast.BinaryExpr:
		switch x.Op {
		case token.LAND, token.LOR:
			a, _ := t.expr(x.X, "Bool")
			b, _ := t.expr(x.Y, "Bool")
			op := "&&"
			if x.Op == token.LOR {
				op = "||"
			}
			return "(" + a + " " + op + " " + b + ")", "Bool"
		case token.EQL, token.NEQ:
			// comparisons with nil
			if id, ok := x.Y.(*ast.Ident); ok && id.Name == "nil" {
				l := t.leafOf(&ast.Ident{Name: t.src(x.X) + " == nil"}, "Bool")
				if x.Op == token.EQL {
					return l, "Bool"
				}
				return "(!" + l + ")", "Bool"
			}
			fallthrough
		case token.LSS, token.GTR, token.LEQ, token.GEQ:
			a, _ := t.expr(x.X, "Int")
			b, _ := t.expr(x.Y, "Int")
			op := map[token.Token]string{token.EQL: "=", token.NEQ: "≠", token.LSS: "<", token.GTR: ">", token.LEQ: "≤", token.GEQ: "≥"}[x.Op]
			return "decide (" + a + " " + op + " " + b + ")", "Bool"
		case token.ADD, token.SUB, token.MUL, token.QUO, token.REM:
			a, _ := t.expr(x.X, "Int")
			b, _ := t.expr(x.Y, "Int")
			op := map[token.Token]string{token.ADD: "+", token.SUB: "-", token.MUL: "*", token.QUO: "/", token.REM: "%"}[x.Op]
			return "(" + a + " " + op + " " + b + ")", "Int"
		}
		t.fail("binary operator %s", x.Op)
	case *ast.CallExpr:
		fn := t.src(x.Fun)
		if ok, known := convs[fn]; known && len(x.Args) == 1 {
			if !ok {
				t.fail("conversion %s", fn)
			}
			if w, isNarrow := narrow[fn]; isNarrow {
				if _, lit := x.Args[0].(*ast.BasicLit); !lit {
					a, _ := t.expr(x.Args[0], "Int")
					return "(" + w + " " + a + ")", "Int"
				}
			}
			return t.expr(x.Args[0], "Int")
		}
		if fn == "len" && len(x.Args) == 1 {
			return t.leafOf(x, "Int"), "Int"
		}
		if fn == "bytes.Compare" && len(x.Args) == 2 {
			a, _ := t.expr(x.Args[0], "Bytes")
			b, _ := t.expr(x.Args[1], "Bytes")
			return "(cmpBytes " + a + " " + b + ")", "Int"
		}
		if (fn == "core.MaxUint32" || fn == "core.MaxUint64" || fn == "core.MaxInt") && len(x.Args) == 2 {
			a, _ := t.expr(x.Args[0], "Int")
			b, _ := t.expr(x.Args[1], "Int")
			return "(max " + a + " " + b + ")", "Int"
		}
		// math/big: values are mathematical integers
		if sel, ok := x.Fun.(*ast.SelectorExpr); ok && len(x.Args) == 0 {
			switch sel.Sel.Name {
			case "IsUint64":
				a, _ := t.expr(sel.X, "Int")
				return "(decide ((0 : Int) ≤ " + a + ") && decide (" + a + " < (18446744073709551616 : Int)))", "Bool"
			case "Uint64": // only meaningful under an IsUint64 guard; outside it Go returns the low 64 bits
				a, _ := t.expr(sel.X, "Int")
				return "(" + a + " % (18446744073709551616 : Int))", "Int"
			case "Sign":
				a, _ := t.expr(sel.X, "Int")
				return "(cmpInt " + a + " (0 : Int))", "Int"
			}
		}
		if sel, ok := x.Fun.(*ast.SelectorExpr); ok && sel.Sel.Name == "SetUint64" && len(x.Args) == 1 && strings.HasPrefix(t.src(sel.X), "new(big.Int)") {
			return t.expr(x.Args[0], "Int")
		}
		if sel, ok := x.Fun.(*ast.SelectorExpr); ok && (sel.Sel.Name == "Add" || sel.Sel.Name == "Sub" || sel.Sel.Name == "Mul") && len(x.Args) == 2 && strings.HasPrefix(t.src(sel.X), "new(big.Int)") {
			a, _ := t.expr(x.Args[0], "Int")
			b, _ := t.expr(x.Args[1], "Int")
			op := map[string]string{"Add": "+", "Sub": "-", "Mul": "*"}[sel.Sel.Name]
			return "(" + a + " " + op + " " + b + ")", "Int"
		}
		if sel, ok := x.Fun.(*ast.SelectorExpr); ok && sel.Sel.Name == "Div" && len(x.Args) == 2 && strings.HasPrefix(t.src(sel.X), "new(big.Int)") {
			// (*big.Int).Div is Euclidean division, as Lean's Int `/`
			a, _ := t.expr(x.Args[0], "Int")
			b, _ := t.expr(x.Args[1], "Int")
			return "(" + a + " / " + b + ")", "Int"
		}
		if sel, ok := x.Fun.(*ast.SelectorExpr); ok && sel.Sel.Name == "Cmp" && len(x.Args) == 1 {
			a, _ := t.expr(sel.X, "Int")
			b, _ := t.expr(x.Args[0], "Int")
			return "(cmpInt " + a + " " + b + ")", "Int"
		}
		// any other call is an opaque leaf (argument-less getters, session queries …)
		return t.leafOf(x, want), want
	}
	t.fail("expression %s", t.src(e))
	return "", ""
}

func isLogging(s ast.Stmt, t *translator) bool {
	es, ok := s.(*ast.ExprStmt)
	if !ok {
		return false
	}
	return strings.HasPrefix(t.src(es.X), "log")
}

func onlyLogging(b *ast.BlockStmt, t *translator) bool {
	for _, s := range b.List {
		if !isLogging(s, t) {
			return false
		}
	}
	return true
}

// stmts translates a statement list with continuation k (the Lean expression for "falls off the end"); k == "" means
// falling through is not allowed
func (t *translator) stmts(l []ast.Stmt, k string, ret string) string {
	if len(l) == 0 {
		if k == "" {
			t.fail("control reaches the end of the function body")
		}
		return k
	}
	s, rest := l[0], l[1:]
	switch x := s.(type) {
	case *ast.BranchStmt:
		if ret == "Outcome" && x.Label == nil {
			if x.Tok == token.CONTINUE {
				return "(0 : Int)"
			}
			if x.Tok == token.BREAK {
				return t.outcome("break")
			}
		}
		t.fail("statement %s", t.src(x))
	case *ast.ReturnStmt:
		if ret == "Outcome" {
			return t.outcome(t.src(x))
		}
		if len(x.Results) != 1 {
			t.fail("return with %d results", len(x.Results))
		}
		if ret == "Accepted" {
			// error-returning validator: `return nil` accepts, any other return value rejects
			if id, ok := x.Results[0].(*ast.Ident); ok && id.Name == "nil" {
				return "true"
			}
			return "false"
		}
		e, _ := t.expr(x.Results[0], ret)
		return e
	case *ast.ExprStmt:
		if isLogging(x, t) {
			return t.stmts(rest, k, ret)
		}
		t.fail("statement %s", t.src(x))
	case *ast.AssignStmt:
		if x.Tok != token.DEFINE || len(x.Lhs) != 1 || len(x.Rhs) != 1 {
			t.fail("assignment %s", t.src(x))
		}
		id, ok := x.Lhs[0].(*ast.Ident)
		if !ok {
			t.fail("assignment %s", t.src(x))
		}
		if _, isAssert := x.Rhs[0].(*ast.TypeAssertExpr); isAssert && ret == "Outcome" {
			// `cur := element.Value.(*T)`: data flow, not logic — the local stays a name inside the selector chains that read it
			return t.stmts(rest, k, ret)
		}
		before := len(t.leaves)
		e, ty := t.expr(x.Rhs[0], "")
		t.nlocal++
		ln := fmt.Sprintf("%s_%d", id.Name, t.nlocal)
		t.locals[id.Name] = ln
		t.ltype[id.Name] = ty
		delete(t.alias, id.Name)
		if ty == "" && len(t.leaves) >= before {
			// bare leaf: its type is decided by later uses of the local
			if lf, ok := t.byText[t.src(x.Rhs[0])]; ok {
				t.alias[id.Name] = lf
			}
		}
		body := t.stmts(rest, k, ret)
		return "let " + ln + " := " + e + "\n  " + body
	case *ast.IncDecStmt:
		if x.Tok != token.INC {
			t.fail("statement %s", t.src(x))
		}
		t.leafOf(x.X, "Int")
		t.bumped[t.src(x.X)]++
		return t.stmts(rest, k, ret)
	case *ast.IfStmt:
		if x.Init != nil || x.Else != nil {
			t.fail("if with init/else: %s", t.src(x.Cond))
		}
		if onlyLogging(x.Body, t) {
			return t.stmts(rest, k, ret)
		}
		c, _ := t.expr(x.Cond, "Bool")
		// locals defined inside the block must not leak
		saveL, saveT, saveA := copyMap(t.locals), copyMap(t.ltype), copyLeafMap(t.alias)
		after := t.stmts(rest, k, ret)
		afterL, afterT, afterA := t.locals, t.ltype, t.alias
		t.locals, t.ltype, t.alias = saveL, saveT, saveA
		then := t.stmts(x.Body.List, after, ret)
		t.locals, t.ltype, t.alias = afterL, afterT, afterA
		return "if " + c + " then (" + then + ")\n  else (" + after + ")"
	}
	t.fail("statement %s", t.src(s))
	return ""
}

// tryExpr translates an expression, reporting failure instead of aborting the whole definition
func (t *translator) tryExpr(e ast.Expr) (out, ty string, ok bool) {
	defer func() {
		if r := recover(); r != nil {
			if _, isU := r.(unsupported); !isU {
				panic(r)
			}
			ok = false
		}
	}()
	out, ty = t.expr(e, "")
	return out, ty, true
}

func copyMap(m map[string]string) map[string]string {
	c := map[string]string{}
	for k, v := range m {
		c[k] = v
	}
	return c
}
func copyLeafMap(m map[string]*leaf) map[string]*leaf {
	c := map[string]*leaf{}
	for k, v := range m {
		c[k] = v
	}
	return c
}

func findFunc(f *ast.File, recv, name string) *ast.FuncDecl {
	for _, d := range f.Decls {
		fd, ok := d.(*ast.FuncDecl)
		if !ok || fd.Name.Name != name || fd.Body == nil {
			continue
		}
		r := ""
		if fd.Recv != nil && len(fd.Recv.List) == 1 {
			switch tt := fd.Recv.List[0].Type.(type) {
			case *ast.StarExpr:
				if id, ok := tt.X.(*ast.Ident); ok {
					r = id.Name
				}
			case *ast.Ident:
				r = tt.Name
			}
		}
		if r == recv {
			return fd
		}
	}
	return nil
}

func containsIf(b *ast.BlockStmt, needle string, t *translator) bool {
	inner := false
	ast.Inspect(b, func(n ast.Node) bool {
		if is, ok := n.(*ast.IfStmt); ok && strings.Contains(t.src(is.Body), needle) {
			inner = true
		}
		return !inner
	})
	return inner
}

func endsWithBreak(b *ast.BlockStmt) bool {
	if len(b.List) == 0 {
		return false
	}
	br, ok := b.List[len(b.List)-1].(*ast.BranchStmt)
	return ok && br.Tok == token.BREAK
}

// breakConds collects, in source order, the conditions under which the statements of a loop body reach `break`
func (t *translator) breakConds(l []ast.Stmt, outer string) []string {
	var out []string
	for _, s := range l {
		switch x := s.(type) {
		case *ast.AssignStmt:
			if x.Tok == token.DEFINE && len(x.Lhs) == 1 && len(x.Rhs) == 1 {
				// locals of the loop body become leaves named after the local (their defining expressions are data flow, not
				// logic) — except temporaries holding an arithmetic expression, which are substituted where they are read
				if id, ok := x.Lhs[0].(*ast.Ident); ok {
					switch x.Rhs[0].(type) {
					case *ast.BinaryExpr, *ast.ParenExpr:
						if e, ty, ok := t.tryExpr(x.Rhs[0]); ok {
							if t.inl == nil {
								t.inl = map[string][2]string{}
							}
							t.inl[id.Name] = [2]string{e, ty}
						}
					}
				}
				continue
			}
		case *ast.IfStmt:
			if x.Init != nil || x.Else != nil {
				continue
			}
			hasBreak := false
			ast.Inspect(x.Body, func(n ast.Node) bool {
				if _, ok := n.(*ast.ForStmt); ok {
					return false
				}
				if br, ok := n.(*ast.BranchStmt); ok && br.Tok == token.BREAK {
					hasBreak = true
				}
				return true
			})
			if !hasBreak {
				continue
			}
			c, _ := t.expr(x.Cond, "Bool")
			if outer != "" {
				c = "(" + outer + " && " + c + ")"
			}
			if endsWithBreak(x.Body) {
				out = append(out, c)
			} else {
				out = append(out, t.breakConds(x.Body.List, c)...)
			}
		}
	}
	return out
}

func translateOne(repo string, sp transSpec) (def string, err string) {
	defer func() {
		if r := recover(); r != nil {
			if u, ok := r.(unsupported); ok {
				def, err = "", u.msg
				return
			}
			panic(r)
		}
	}()
	fset := token.NewFileSet()
	f, perr := parser.ParseFile(fset, filepath.Join(repo, sp.file), nil, 0)
	if perr != nil {
		return "", "parse error: " + perr.Error()
	}
	fd := findFunc(f, sp.recv, sp.name)
	if fd == nil {
		return "", "function not found"
	}
	t := &translator{fset: fset, byText: map[string]*leaf{}, locals: map[string]string{}, ltype: map[string]string{}, alias: map[string]*leaf{}, bumped: map[string]int{}}
	ret := "Bool"
	var body string
	switch {
	case sp.mode == "func":
		if fd.Type.Results != nil && len(fd.Type.Results.List) == 1 {
			if id, ok := fd.Type.Results.List[0].Type.(*ast.Ident); ok && id.Name != "bool" {
				ret = "Int"
			}
		}
		body = t.stmts(fd.Body.List, "", ret)
	case sp.mode == "breaks":
		var loop *ast.ForStmt
		for _, s := range fd.Body.List {
			if fs, ok := s.(*ast.ForStmt); ok {
				loop = fs // the last top-level for statement
			}
		}
		if loop == nil {
			return "", "no for-loop"
		}
		cs := t.breakConds(loop.Body.List, "")
		if len(cs) == 0 {
			return "", "no break conditions"
		}
		body = "[" + strings.Join(cs, ",\n   ") + "]"
		ret = "List Bool"
	case sp.mode == "loopstep":
		// one iteration of the function's (last top-level) for-loop as a decision: 0 = go on with the next element, i > 0 = the
		// i-th distinct `return …`/`break` of the body; statements before the loop that define locals are translated as lets
		var loop *ast.ForStmt
		var pre []ast.Stmt
		for _, s := range fd.Body.List {
			if fs, ok := s.(*ast.ForStmt); ok {
				loop = fs
				continue
			}
			if loop == nil {
				if as, ok := s.(*ast.AssignStmt); ok && as.Tok == token.DEFINE && len(as.Lhs) == 1 && len(as.Rhs) == 1 {
					pre = append(pre, s)
				}
			}
		}
		if loop == nil {
			return "", "no for-loop"
		}
		ret = "Int"
		body = t.stmts(append(append([]ast.Stmt{}, pre...), loop.Body.List...), "(0 : Int)", "Outcome")
	case strings.HasPrefix(sp.mode, "ifcond:"):
		needle := strings.TrimPrefix(sp.mode, "ifcond:")
		var found *ast.IfStmt
		var before []ast.Stmt
		ast.Inspect(fd.Body, func(n ast.Node) bool {
			if bl, ok := n.(*ast.BlockStmt); ok && found == nil {
				for i, s := range bl.List {
					if is, ok := s.(*ast.IfStmt); ok && strings.Contains(t.src(is.Body), needle) && !containsIf(is.Body, needle, t) {
						found, before = is, bl.List[:i]
						break
					}
				}
			}
			return found == nil
		})
		if found == nil {
			return "", "no if-statement containing " + needle
		}
		// the locals the condition reads are defined by the `:=` statements preceding it in the same block
		// — only those the condition (transitively) reads, and only those that ARE definitions in the mathematical sense: a
		// local that is re-assigned before the test (a loop accumulator) or computed by bit operations / slicing stays a
		// free parameter of the translated condition
		reassigned := map[string]bool{}
		for _, s := range before {
			ast.Inspect(s, func(n ast.Node) bool {
				switch x := n.(type) {
				case *ast.AssignStmt:
					if x.Tok != token.DEFINE {
						for _, l := range x.Lhs {
							reassigned[t.src(l)] = true
						}
					}
				case *ast.IncDecStmt:
					reassigned[t.src(x.X)] = true
				}
				return true
			})
		}
		opaque := func(e ast.Expr) bool {
			bad := false
			ast.Inspect(e, func(n ast.Node) bool {
				switch x := n.(type) {
				case *ast.SliceExpr, *ast.IndexExpr:
					bad = true
				case *ast.BinaryExpr:
					if x.Op == token.AND || x.Op == token.OR || x.Op == token.XOR || x.Op == token.SHL || x.Op == token.SHR || x.Op == token.AND_NOT {
						bad = true
					}
				case *ast.Ident:
					if reassigned[x.Name] {
						bad = true
					}
				}
				return !bad
			})
			return bad
		}
		needed := map[string]bool{}
		mark := func(e ast.Node) {
			ast.Inspect(e, func(n ast.Node) bool {
				if id, ok := n.(*ast.Ident); ok {
					needed[id.Name] = true
				}
				return true
			})
		}
		mark(found.Cond)
		var lets []ast.Stmt
		for i := len(before) - 1; i >= 0; i-- {
			if as, ok := before[i].(*ast.AssignStmt); ok && as.Tok == token.DEFINE && len(as.Lhs) == 1 && len(as.Rhs) == 1 {
				name := t.src(as.Lhs[0])
				if !needed[name] || reassigned[name] || opaque(as.Rhs[0]) {
					continue
				}
				mark(as.Rhs[0])
				lets = append([]ast.Stmt{before[i]}, lets...)
			}
		}
		lets = append(lets, &ast.ReturnStmt{Results: []ast.Expr{found.Cond}})
		body = t.stmts(lets, "", "Bool")
	case strings.HasPrefix(sp.mode, "effect:"):
		// the NET EFFECT of the straight-line path of the body on one lvalue (a counter): the statements are walked in order,
		// `x = e`, `x += e`, `x -= e` update the current value of x (for the target and for any selector lvalue such as `v.size`);
		// `:=` definitions, index assignments and calls on OTHER objects are data flow and are skipped (their names stay
		// parameters); early-return guards (`if … { return }`) are not taken; a call of a method of the receiver itself, a loop
		// or any other branching is refused (ABSENT), because it could change the target behind the translator's back
		target := strings.TrimPrefix(sp.mode, "effect:")
		recv := ""
		if fd.Recv != nil && len(fd.Recv.List) == 1 && len(fd.Recv.List[0].Names) == 1 {
			recv = fd.Recv.List[0].Names[0].Name
		}
		t.env = map[string]string{}
		for _, st := range fd.Body.List {
			switch x := st.(type) {
			case *ast.AssignStmt:
				if len(x.Lhs) != 1 || len(x.Rhs) != 1 {
					return "", "assignment " + t.src(x)
				}
				l := t.src(x.Lhs[0])
				_, isSel := x.Lhs[0].(*ast.SelectorExpr)
				if x.Tok == token.DEFINE || !isSel {
					continue
				}
				if l != target && x.Tok == token.ASSIGN {
					if _, bare := x.Rhs[0].(*ast.Ident); bare && t.locals[t.src(x.Rhs[0])] == "" {
						// `element.Value = v`: a pointer/struct is stored — data flow; the lvalue is unknown from here on
						if _, isParam := t.byText[t.src(x.Rhs[0])]; !isParam {
							t.env[l] = ""
							continue
						}
					}
					nl, nb := len(t.leaves), copyLeafMap(t.byText)
					if e, _, ok := t.tryExpr(x.Rhs[0]); ok {
						t.env[l] = e
					} else {
						t.leaves, t.byText = t.leaves[:nl], nb
						t.env[l] = ""
					}
					continue
				}
				r, _ := t.expr(x.Rhs[0], "Int")
				switch x.Tok {
				case token.ASSIGN:
					t.env[l] = r
				case token.ADD_ASSIGN, token.SUB_ASSIGN:
					cur, _ := t.expr(x.Lhs[0], "Int")
					op := "+"
					if x.Tok == token.SUB_ASSIGN {
						op = "-"
					}
					t.env[l] = "(" + cur + " " + op + " " + r + ")"
				default:
					return "", "assignment " + t.src(x)
				}
			case *ast.ExprStmt:
				if isLogging(x, t) {
					continue
				}
				call, ok := x.X.(*ast.CallExpr)
				if !ok {
					return "", "statement " + t.src(x)
				}
				if sel, ok := call.Fun.(*ast.SelectorExpr); ok {
					if id, ok := sel.X.(*ast.Ident); ok && id.Name == recv {
						return "", "calls a method of the receiver: " + t.src(x)
					}
					// atomic counters (`core/atomic.Counter`): x.Add(e) / x.Subtract(e) are x += e / x -= e
					if (sel.Sel.Name == "Add" || sel.Sel.Name == "Subtract") && len(call.Args) == 1 && t.src(sel.X) == target {
						cur, _ := t.expr(sel.X, "Int")
						r, _ := t.expr(call.Args[0], "Int")
						op := "+"
						if sel.Sel.Name == "Subtract" {
							op = "-"
						}
						t.env[target] = "(" + cur + " " + op + " " + r + ")"
					}
				}
			case *ast.IfStmt:
				onlyReturn := x.Init == nil && x.Else == nil && len(x.Body.List) == 1
				if onlyReturn {
					rs, ok := x.Body.List[0].(*ast.ReturnStmt)
					onlyReturn = ok && len(rs.Results) == 0
				}
				if !onlyReturn && !onlyLogging(x.Body, t) {
					return "", "branching: if " + t.src(x.Cond)
				}
			case *ast.ReturnStmt:
			default:
				return "", "statement " + t.src(st)
			}
		}
		v, ok := t.env[target]
		if !ok || v == "" {
			return "", "no translatable assignment to " + target
		}
		t.env = nil
		ret = "Int"
		body = v
	case sp.mode == "verify":
		body = t.stmts(fd.Body.List, "", "Accepted")
		ret = "Bool"
	case sp.mode == "rejectif":
		// constructor-style function: the condition of its first `if` whose body returns an error (non-nil last result)
		for _, st := range fd.Body.List {
			if is, ok := st.(*ast.IfStmt); ok && is.Init == nil {
				body, _ = t.expr(is.Cond, "Bool")
				break
			}
		}
		if body == "" {
			return "", "no if-statement"
		}
	case strings.HasPrefix(sp.mode, "retfield:"):
		field := strings.TrimPrefix(sp.mode, "retfield:")
		ret = "Int"
		var stm []ast.Stmt
		for _, s := range fd.Body.List {
			if rs, ok := s.(*ast.ReturnStmt); ok && len(rs.Results) == 1 {
				cl, ok := rs.Results[0].(*ast.CompositeLit)
				if !ok {
					return "", "return value is not a composite literal"
				}
				var fe ast.Expr
				for _, el := range cl.Elts {
					if kv, ok := el.(*ast.KeyValueExpr); ok && t.src(kv.Key) == field {
						fe = kv.Value
					}
				}
				if fe == nil {
					return "", "field " + field + " not found in the returned literal"
				}
				stm = append(stm, &ast.ReturnStmt{Results: []ast.Expr{fe}})
				break
			}
			stm = append(stm, s)
		}
		body = t.stmts(stm, "", "Int")
	case sp.mode == "firstif":
		for _, s := range fd.Body.List {
			if inc, ok := s.(*ast.IncDecStmt); ok && inc.Tok == token.INC {
				t.leafOf(inc.X, "Int")
				t.bumped[t.src(inc.X)]++
				continue
			}
			if is, ok := s.(*ast.IfStmt); ok {
				body, _ = t.expr(is.Cond, "Bool")
				break
			}
		}
		if body == "" {
			return "", "no if-statement"
		}
	default:
		return "", "unknown mode " + sp.mode
	}
	var params, srcs []string
	for _, l := range t.leaves {
		ty := l.typ
		if ty == "" {
			ty = "Int"
		}
		params = append(params, fmt.Sprintf("(%s : %s)", l.name, ty))
		srcs = append(srcs, fmt.Sprintf("%q", l.src+" : "+ty))
	}
	// the pinned list of operands is SORTED (which operands the source reads, not in which order it mentions them); the proofs
	// pass the parameters by NAME, so mirroring a comparison (`a > b` ⇄ `b < a`) changes neither
	sort.Strings(srcs)
	recv := sp.recv
	if recv != "" {
		recv += "."
	}
	var sb strings.Builder
	fmt.Fprintf(&sb, "/-- `%s%s` in %s (mode %s); leaves in order of first occurrence -/\n", recv, sp.name, sp.file, sp.mode)
	fmt.Fprintf(&sb, "def %s %s : %s :=\n  %s\n", sp.lean, strings.Join(params, " "), ret, body)
	fmt.Fprintf(&sb, "def %s_leaves : List String := [%s]\n", sp.lean, strings.Join(srcs, ", "))
	if sp.mode == "loopstep" {
		fmt.Fprintf(&sb, "def %s_outcomes : List String := [%s]\n", sp.lean, quoteAll(t.outcomes))
	}
	return sb.String(), ""
}

func translateAll(repo string) string {
	var sb strings.Builder
	sb.WriteString("/- GENERATED by /verif/tools/extract (trans.go) from the current source of /repo — do not edit.\n")
	sb.WriteString("   Pure leaf logic of the repository translated to Lean; SV/GenProofs.lean ties each definition to the hand-written model. -/\n")
	sb.WriteString("import SV.Common\nnamespace SV.Gen\nopen SV\n\n")
	sb.WriteString("/-- conversion to an unsigned integer type of `n` bits -/\ndef wrapU (n : Nat) (x : Int) : Int := x % (2 ^ n : Int)\n/-- conversion to a signed integer type of `n` bits -/\ndef wrapS (n : Nat) (x : Int) : Int := (x + (2 ^ (n - 1) : Int)) % (2 ^ n : Int) - (2 ^ (n - 1) : Int)\n")
	sb.WriteString("/-- Go's `bytes.Compare` -/\ndef cmpBytes (a b : Bytes) : Int := if bytesLt a b then -1 else if bytesLt b a then 1 else 0\n")
	sb.WriteString("/-- `(*big.Int).Cmp` -/\ndef cmpInt (a b : Int) : Int := if a < b then -1 else if b < a then 1 else 0\n\n")
	var absent []string
	for _, sp := range transSpecs {
		def, err := translateOne(repo, sp)
		if err != "" {
			fmt.Fprintf(&sb, "-- ABSENT: %s (%s.%s in %s): %s\n\n", sp.lean, sp.recv, sp.name, sp.file, err)
			absent = append(absent, sp.lean)
			continue
		}
		sb.WriteString(def)
		sb.WriteString("\n")
	}
	sort.Strings(absent)
	fmt.Fprintf(&sb, "def absent : List String := [%s]\n", quoteAll(absent))
	sb.WriteString("\nend SV.Gen\n")
	return sb.String()
}

func quoteAll(l []string) string {
	q := make([]string, len(l))
	for i, s := range l {
		q[i] = fmt.Sprintf("%q", s)
	}
	return strings.Join(q, ", ")
}
