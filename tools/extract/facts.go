package main

// further fact groups are added here (leveldb write options, critical sections, lock order)
func extractAll(repo string) string { return "" }
